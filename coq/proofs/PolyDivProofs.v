(* proofs/PolyDivProofs.v - lemmas about model/PolyDiv.v against spec/PolySpec.v (property C09).

   Setting (as in proofs/PolyCoreProofs.v): `o : fops F` refines an abstract field `fk : fieldK K` through
   `field_ok o fk ok den`; a raw model list `l` with `Forall ok l` denotes the polynomial `map den l`; equality of
   polynomials is `peq`.

   Contents
     1. K[X]-level division theory: degree of sums, uniqueness of quotient and remainder (`pdivmod_unique`),
        divisibility `pdvd`, congruence modulo X^n (`pmodx`), the Newton step for power-series inversion.
     2. `naive_divide` / `divide` / Div / Rem / `reduce_long_division`: the K-level mirror of the pop-and-subtract loop and
        its invariant; `naive_divide_spec`, `naive_divide_unique`, zero divisor = panic.
     3. `reduce`: every arm returns THE remainder (the fast arm relative to `fast_reduce`'s stages, see 8).
     4. `clean_divide`: the long-division arm for every cutoff, the fallback of the repaired code, the refutations.
     5. `xgcd`: Bezout identity, common divisor, monic-or-zero, fuel never runs out.
     6. `formal_power_series_inverse_minimal`: f * g = 1 mod X^(n+1).
     7. `formal_power_series_inverse_newton`: the rounds before the switch to the NTT domain.
     8. structured multiples / fast_reduce: what is proved and what is left `_partial`. *)
From Coq Require Import ZArith Lia List Bool Ring Field Setoid Morphisms.
From TF Require Import Word BFieldGen BField XField FieldOps FieldTheory PolyGen PolyCore PolySpec Ntt PolyDiv PolyCoreProofs.
Import ListNotations.
Open Scope Z_scope.
Ltac Zify.zify_post_hook ::= Z.div_mod_to_equations.

(* ================================================================== 1. K[X]-level theory *)
Section PDivSpec.
  Context {K : Type} (fk : fieldK K).
  Local Notation "0" := (k0 fk).
  Local Notation "1" := (k1 fk).
  Local Infix "+" := (kadd fk).
  Local Infix "*" := (kmul fk).
  Local Infix "-" := (ksub fk).
  Local Notation "- x" := (kopp fk x).
  Local Notation peq := (peq fk).
  Local Notation pzero := (pzero fk).
  Local Notation coeff := (coeff fk).
  Local Notation padd := (padd fk).
  Local Notation psub := (psub fk).
  Local Notation popp := (popp fk).
  Local Notation pmul := (pmul fk).
  Local Notation pscale := (pscale fk).
  Local Notation pshift := (pshift fk).
  Local Notation pdeg := (pdeg fk).
  Local Notation plead := (plead fk).
  Local Notation pone := (pone fk).
  Add Field kfield_PolyDivProofs_Spec : (kFT fk).

  (* ---- K[X] is a commutative ring up to peq: `ring` proves peq goals built from padd pmul psub popp pone [] *)
  Lemma poly_ring_theory : ring_theory (@nil K) pone padd pmul psub popp peq.
  Proof.
    constructor.
    - intros x. apply padd_0_l.
    - intros x y. apply padd_comm.
    - intros x y z. apply padd_assoc.
    - intros x. apply pmul_1_l.
    - intros x y. apply pmul_comm.
    - intros x y z. apply pmul_assoc.
    - intros x y z. apply pmul_padd_distr_r.
    - intros x y. reflexivity.
    - intros x. apply padd_popp.
  Qed.
  Lemma poly_ring_ext : ring_eq_ext padd pmul popp peq.
  Proof.
    constructor.
    - intros x x' Hx y y' Hy. rewrite Hx, Hy. reflexivity.
    - intros x x' Hx y y' Hy. rewrite Hx, Hy. reflexivity.
    - intros x x' Hx. rewrite Hx. reflexivity.
  Qed.
  Add Ring polyring_PolyDivProofs_Spec : poly_ring_theory (setoid (peq_Equivalence fk) poly_ring_ext).
  Lemma pscale_as_pmul c p : peq (pscale c p) (pmul [c] p).
  Proof. symmetry. apply (pscale_pmul_const fk). Qed.

  (* ---- degrees *)
  Lemma pdeg_lt_iff p n : (pdeg p < Z.of_nat n)%Z <-> (forall i, (n <= i)%nat -> coeff p i = 0).
  Proof.
    split.
    - intros H i Hi. apply coeff_above_pdeg. lia.
    - apply pdeg_bound.
  Qed.
  Lemma pdeg_padd_lt p q n : (pdeg p < Z.of_nat n)%Z -> (pdeg q < Z.of_nat n)%Z -> (pdeg (padd p q) < Z.of_nat n)%Z.
  Proof.
    rewrite !pdeg_lt_iff. intros Hp Hq i Hi. rewrite coeff_padd, Hp, Hq by exact Hi. ring.
  Qed.
  Lemma pdeg_popp p : pdeg (popp p) = pdeg p.
  Proof.
    apply Z.le_antisymm.
    - assert (H : (pdeg (popp p) < Z.of_nat (Z.to_nat (pdeg p + 1)))%Z); [|pose proof (pdeg_ge fk p); lia].
      apply pdeg_lt_iff. intros i Hi. rewrite coeff_popp, coeff_above_pdeg; [ring|]. pose proof (pdeg_ge fk p). lia.
    - assert (H : (pdeg p < Z.of_nat (Z.to_nat (pdeg (popp p) + 1)))%Z); [|pose proof (pdeg_ge fk (popp p)); lia].
      apply pdeg_lt_iff. intros i Hi.
      assert (E : coeff (popp p) i = 0) by (apply coeff_above_pdeg; pose proof (pdeg_ge fk (popp p)); lia).
      rewrite coeff_popp in E. transitivity (- - coeff p i); [ring|]. rewrite E. ring.
  Qed.
  Lemma pdeg_psub_lt p q n : (pdeg p < Z.of_nat n)%Z -> (pdeg q < Z.of_nat n)%Z -> (pdeg (psub p q) < Z.of_nat n)%Z.
  Proof. intros Hp Hq. unfold PolySpec.psub. apply pdeg_padd_lt; [exact Hp|rewrite pdeg_popp; exact Hq]. Qed.
  Lemma pdeg_nonneg_iff p : (0 <= pdeg p)%Z <-> ~ pzero p.
  Proof.
    rewrite <- pdeg_neg_iff. pose proof (pdeg_ge fk p). lia.
  Qed.
  Lemma pdeg_length_lt p n : (length p <= n)%nat -> (pdeg p < Z.of_nat n)%Z.
  Proof. intros H. pose proof (pdeg_le_length fk p). lia. Qed.

  (* ---- ring identities up to peq that the division proofs use *)
  Lemma pmul_popp_l p q : peq (pmul (popp p) q) (popp (pmul p q)).
  Proof. rewrite (popp_pscale fk p), pmul_pscale_l, <- popp_pscale. reflexivity. Qed.
  Lemma pmul_psub_distr_r p q r : peq (pmul (psub p q) r) (psub (pmul p r) (pmul q r)).
  Proof. unfold PolySpec.psub. rewrite pmul_padd_distr_r, pmul_popp_l. reflexivity. Qed.
  Lemma pmul_psub_distr_l p q r : peq (pmul p (psub q r)) (psub (pmul p q) (pmul p r)).
  Proof. rewrite (pmul_comm fk p (psub q r)), pmul_psub_distr_r, (pmul_comm fk q p), (pmul_comm fk r p). reflexivity. Qed.
  Lemma psub_pzero_peq p q : pzero (psub p q) -> peq p q.
  Proof.
    intros H. apply peq_intro. intros i. specialize (H i). rewrite coeff_psub in H.
    transitivity (coeff p i - coeff q i + coeff q i); [ring|]. rewrite H. ring.
  Qed.
  Lemma psub_self p q : peq p q -> pzero (psub p q).
  Proof. intros [H] i. rewrite coeff_psub, H. ring. Qed.

  (* ---- uniqueness of quotient and remainder *)
  Theorem pdivmod_unique d q r q' r' :
    peq (padd (pmul q d) r) (padd (pmul q' d) r') ->
    (pdeg r < pdeg d)%Z -> (pdeg r' < pdeg d)%Z ->
    peq q q' /\ peq r r'.
  Proof.
    intros E Hr Hr'.
    assert (Hd : (0 <= pdeg d)%Z) by (pose proof (pdeg_ge fk r); lia).
    (* (q - q') d = r' - r *)
    assert (E2 : peq (pmul (psub q q') d) (psub r' r)).
    { rewrite pmul_psub_distr_r. apply peq_intro. intros i. pose proof (peq_elim fk _ _ E i) as Ei.
      rewrite !coeff_padd in Ei. rewrite !coeff_psub.
      transitivity (coeff (pmul q d) i + coeff r i - coeff r i - coeff (pmul q' d) i); [ring|]. rewrite Ei. ring. }
    assert (Hz : pzero (psub q q')).
    { apply pdeg_neg_iff. destruct (Z.eq_dec (pdeg (psub q q')) (-1)) as [X|X]; [exact X|exfalso].
      assert (Hq : (0 <= pdeg (psub q q'))%Z) by (pose proof (pdeg_ge fk (psub q q')); lia).
      pose proof (pdeg_pmul fk _ _ Hq Hd) as Dm. rewrite (pdeg_peq fk _ _ E2) in Dm.
      assert (B : (pdeg (psub r' r) < Z.of_nat (Z.to_nat (pdeg d)))%Z) by (apply pdeg_psub_lt; lia).
      lia. }
    split; [apply psub_pzero_peq; exact Hz|].
    apply psub_pzero_peq. intros i. pose proof (peq_elim fk _ _ E2 i) as Ei.
    rewrite (pmul_pzero_l fk _ d Hz i) in Ei. rewrite coeff_psub in *.
    transitivity (- (coeff r' i - coeff r i)); [ring|]. rewrite <- Ei. ring.
  Qed.

  (* `r` is THE remainder of `a` modulo `d` *)
  Definition is_rem (a d r : list K) : Prop := (exists q, peq a (padd (pmul q d) r)) /\ (pdeg r < pdeg d)%Z.
  (* `(q, r)` is THE quotient-remainder pair *)
  Definition is_divmod (a d q r : list K) : Prop := peq a (padd (pmul q d) r) /\ (pdeg r < pdeg d)%Z.
  Lemma is_divmod_unique a d q r q' r' : is_divmod a d q r -> is_divmod a d q' r' -> peq q q' /\ peq r r'.
  Proof. intros [E1 B1] [E2 B2]. apply (pdivmod_unique d); [rewrite <- E1, <- E2; reflexivity|exact B1|exact B2]. Qed.
  Lemma is_rem_unique a d r r' : is_rem a d r -> is_rem a d r' -> peq r r'.
  Proof. intros [[q E1] B1] [[q' E2] B2]. exact (proj2 (is_divmod_unique a d q r q' r' (conj E1 B1) (conj E2 B2))). Qed.
  Lemma is_rem_peq a a' d d' r r' : peq a a' -> peq d d' -> peq r r' -> is_rem a d r -> is_rem a' d' r'.
  Proof.
    intros Ea Ed Er [[q E] B]. split.
    - exists q. rewrite <- Ea, <- Ed, <- Er. exact E.
    - rewrite <- (pdeg_peq fk _ _ Ed), <- (pdeg_peq fk _ _ Er). exact B.
  Qed.
  (* congruent dividends have the same remainder *)
  Lemma is_rem_congr a b d r : (exists k, peq a (padd (pmul k d) b)) -> is_rem b d r -> is_rem a d r.
  Proof.
    intros [k Ek] [[q E] B]. split; [|exact B]. exists (padd k q).
    rewrite Ek, E, pmul_padd_distr_r. apply peq_intro. intros i. rewrite !coeff_padd. ring.
  Qed.

  (* ---- divisibility *)
  Definition pdvd (d a : list K) : Prop := exists q, peq a (pmul q d).
  Lemma pdvd_refl p : pdvd p p.
  Proof. exists pone. symmetry. apply pmul_1_l. Qed.
  Lemma pdvd_zero d a : pzero a -> pdvd d a.
  Proof. intros Z. exists []. apply peq_nil_pzero in Z. rewrite Z. reflexivity. Qed.
  Lemma pdvd_peq d d' a a' : peq d d' -> peq a a' -> pdvd d a -> pdvd d' a'.
  Proof. intros Ed Ea [q E]. exists q. rewrite <- Ea, <- Ed. exact E. Qed.
  Lemma pdvd_padd d a b : pdvd d a -> pdvd d b -> pdvd d (padd a b).
  Proof. intros [q E] [q' E']. exists (padd q q'). rewrite E, E', pmul_padd_distr_r. reflexivity. Qed.
  Lemma pdvd_pmul_l d a c : pdvd d a -> pdvd d (pmul c a).
  Proof. intros [q E]. exists (pmul c q). rewrite E. apply pmul_assoc. Qed.
  Lemma pdvd_popp d a : pdvd d a -> pdvd d (popp a).
  Proof. intros [q E]. exists (popp q). rewrite E, pmul_popp_l. reflexivity. Qed.
  Lemma pdvd_psub d a b : pdvd d a -> pdvd d b -> pdvd d (psub a b).
  Proof. intros Ha Hb. unfold PolySpec.psub. apply pdvd_padd; [exact Ha|apply pdvd_popp; exact Hb]. Qed.
  Lemma pdvd_trans a b c : pdvd a b -> pdvd b c -> pdvd a c.
  Proof. intros [q E] [q' E']. exists (pmul q' q). rewrite E', E. apply pmul_assoc. Qed.
  Lemma pdvd_pscale d a c : pdvd d a -> pdvd d (pscale c a).
  Proof. intros [q E]. exists (pscale c q). rewrite E, pmul_pscale_l. reflexivity. Qed.
  (* scaling the divisor by a unit *)
  Lemma pdvd_pscale_l d a c : c <> 0 -> pdvd d a -> pdvd (pscale c d) a.
  Proof.
    intros Hc [q E]. exists (pscale (kinv fk c) q). rewrite E, pmul_pscale_l, pmul_pscale_r.
    apply peq_intro. intros i. rewrite !coeff_pscale. field. exact Hc.
  Qed.
  (* exact division: the remainder of a multiple is zero, the quotient is the cofactor *)
  Lemma is_divmod_of_pdvd a d q r q0 : ~ pzero d -> peq a (pmul q0 d) -> is_divmod a d q r -> peq q q0 /\ pzero r.
  Proof.
    intros Hd E0 Hqr.
    assert (H0 : is_divmod a d q0 []).
    { split; [rewrite E0; symmetry; apply padd_0_r|]. apply pdeg_nonneg_iff in Hd. change (pdeg []) with (-1)%Z. lia. }
    destruct (is_divmod_unique _ _ _ _ _ _ Hqr H0) as [E1 E2]. split; [exact E1|]. apply peq_nil_pzero. exact E2.
  Qed.

  (* ---- congruence modulo X^n *)
  Definition pmodx (n : nat) (p q : list K) : Prop := forall i, (i < n)%nat -> coeff p i = coeff q i.
  Lemma pmodx_peq n p p' q q' : peq p p' -> peq q q' -> pmodx n p q -> pmodx n p' q'.
  Proof. intros [Ep] [Eq] H i Hi. rewrite <- Ep, <- Eq. apply H. exact Hi. Qed.
  Lemma pmodx_le n m p q : (m <= n)%nat -> pmodx n p q -> pmodx m p q.
  Proof. intros L H i Hi. apply H. lia. Qed.
  (* low part of a square: if e vanishes below X^k then e^2 vanishes below X^(2k) *)
  Lemma pmul_low_zero e e' k k' : pmodx k e [] -> pmodx k' e' [] -> pmodx (k + k') (pmul e e') [].
  Proof.
    intros He He' m Hm. rewrite coeff_nil, coeff_pmul.
    rewrite (ksum_ext fk _ (fun _ => 0)), ksum_0; [reflexivity|].
    intros j Hj. destruct (Nat.lt_ge_cases j k) as [L|G].
    - rewrite (He j L), coeff_nil. ring.
    - rewrite (He' (m - j)%nat) by lia. rewrite coeff_nil. ring.
  Qed.
  (* Newton step: f s = 1 mod X^k  ->  (2f - f^2 s) s = 1 mod X^(2k) *)
  Lemma newton_step f s g two k :
    pmodx k (pmul f s) pone -> peq g (psub (pscale two f) (pmul (pmul f f) s)) -> two = 1 + 1 ->
    pmodx (k + k) (pmul g s) pone.
  Proof.
    intros Hk Eg Etwo.
    (* 1 - g s = (1 - f s)^2 *)
    set (e := psub pone (pmul f s)).
    assert (He : pmodx k e []).
    { intros i Hi. unfold e. rewrite coeff_psub, (Hk i Hi), coeff_nil. ring. }
    assert (Esq : peq (psub pone (pmul g s)) (pmul e e)).
    { unfold e. rewrite Eg.
      assert (E2 : peq (pscale two f) (padd f f)).
      { apply peq_intro. intros i. rewrite coeff_pscale, coeff_padd. subst two. ring. }
      rewrite E2. ring. }
    pose proof (pmul_low_zero e e k k He He) as Hlow.
    intros i Hi. pose proof (peq_elim fk _ _ Esq i) as Ei. rewrite (Hlow i Hi), coeff_nil, coeff_psub in Ei.
    transitivity (coeff pone i - (coeff pone i - coeff (pmul g s) i)); [ring|]. rewrite Ei. ring.
  Qed.
End PDivSpec.

(* ================================================================== 2. the long-division loop *)
(* K-level mirror of `pdiv_sub_row` / `pdiv_div_loop` (total: the lengths that make the model panic-free are
   hypotheses of the lemmas).  The remainder is kept highest coefficient first, as in the model. *)
Section KDiv.
  Context {K : Type} (fk : fieldK K).
  Local Notation "0" := (k0 fk).
  Local Notation "1" := (k1 fk).
  Local Infix "+" := (kadd fk).
  Local Infix "*" := (kmul fk).
  Local Infix "-" := (ksub fk).
  Local Notation peq := (peq fk).
  Local Notation coeff := (coeff fk).
  Local Notation padd := (padd fk).
  Local Notation psub := (psub fk).
  Local Notation pmul := (pmul fk).
  Local Notation pscale := (pscale fk).
  Local Notation pshift := (pshift fk).
  Local Notation pXn := (pXn fk).
  Add Field kfield_PolyDivProofs_KDiv : (kFT fk).
  Add Ring polyring_PolyDivProofs_KDiv : (poly_ring_theory fk) (setoid (peq_Equivalence fk) (poly_ring_ext fk)).

  Fixpoint ksub_row (qc : K) (ds r : list K) : list K :=
    match ds, r with
    | d :: ds', x :: r' => (x - qc * d) :: ksub_row qc ds' r'
    | _, _ => r
    end.
  Fixpoint kdiv_loop (n : nat) (dinv : K) (ds r q : list K) : list K * list K :=
    match n with
    | O => (q, r)
    | S n' => match r with
              | [] => (q, r)
              | lc :: r' => let qc := lc * dinv in kdiv_loop n' dinv ds (ksub_row qc ds r') (qc :: q)
              end
    end.

  Lemma ksub_row_length qc ds r : length (ksub_row qc ds r) = length r.
  Proof. revert r. induction ds as [|d ds IH]; intros [|x r]; cbn [ksub_row length]; try reflexivity. rewrite IH. reflexivity. Qed.
  Lemma ksub_row_zero ds r : ksub_row 0 ds r = r.
  Proof.
    revert r. induction ds as [|d ds IH]; intros [|x r]; cbn [ksub_row]; try reflexivity. rewrite IH. f_equal. ring.
  Qed.
  Lemma coeff_snoc (p : list K) x i :
    coeff (p ++ [x]) i = if (i <? length p)%nat then coeff p i else if (i =? length p)%nat then x else 0.
  Proof.
    destruct (i <? length p)%nat eqn:E.
    - apply Nat.ltb_lt in E. apply coeff_app_l. exact E.
    - apply Nat.ltb_ge in E. rewrite coeff_app_r by exact E. destruct (i =? length p)%nat eqn:E2.
      + apply Nat.eqb_eq in E2. subst i. rewrite Nat.sub_diag. reflexivity.
      + apply Nat.eqb_neq in E2. destruct (i - length p)%nat eqn:E3; [lia|]. rewrite coeff_cons_S. apply coeff_nil.
  Qed.
  Lemma rev_ksub_row qc ds r : (length ds <= length r)%nat ->
    peq (rev (ksub_row qc ds r)) (psub (rev r) (pshift (length r - length ds) (pscale qc (rev ds)))).
  Proof.
    revert r. induction ds as [|d ds IH]; intros r Hl.
    - assert (E : ksub_row qc [] r = r) by (destruct r; reflexivity). rewrite E.
      apply peq_intro. intros i. rewrite coeff_psub, coeff_pshift. cbn [rev]. unfold PolySpec.pscale. cbn [map].
      destruct (i <? length r - length (@nil K))%nat; [ring|rewrite coeff_nil; ring].
    - destruct r as [|x r]; [cbn in Hl; lia|]. cbn [length] in Hl. cbn [ksub_row rev length].
      replace (S (length r) - S (length ds))%nat with (length r - length ds)%nat by lia.
      set (s := (length r - length ds)%nat).
      specialize (IH r ltac:(lia)). fold s in IH.
      apply peq_intro. intros i. pose proof (peq_elim fk _ _ IH i) as IHi.
      rewrite coeff_psub, coeff_pshift, coeff_pscale in IHi.
      rewrite coeff_psub, coeff_pshift, coeff_pscale, !coeff_snoc.
      rewrite !rev_length, ksub_row_length.
      destruct (i <? length r)%nat eqn:E1.
      + apply Nat.ltb_lt in E1. rewrite IHi. destruct (i <? s)%nat eqn:E2; [reflexivity|].
        apply Nat.ltb_ge in E2. replace (i - s <? length ds)%nat with true by (symmetry; apply Nat.ltb_lt; lia). reflexivity.
      + apply Nat.ltb_ge in E1. replace (i <? s)%nat with false by (symmetry; apply Nat.ltb_ge; lia).
        replace (i - s <? length ds)%nat with false by (symmetry; apply Nat.ltb_ge; lia).
        destruct (i =? length r)%nat eqn:E3.
        * apply Nat.eqb_eq in E3. replace (i - s =? length ds)%nat with true by (symmetry; apply Nat.eqb_eq; lia). reflexivity.
        * apply Nat.eqb_neq in E3. replace (i - s =? length ds)%nat with false by (symmetry; apply Nat.eqb_neq; lia). ring.
  Qed.

  Lemma pshift_cons_split n c (q : list K) : peq (pshift n (c :: q)) (padd (pshift n [c]) (pshift (S n) q)).
  Proof.
    apply peq_intro. intros i. rewrite coeff_padd, !coeff_pshift.
    destruct (i <? n)%nat eqn:E1.
    - apply Nat.ltb_lt in E1. replace (i <? S n)%nat with true by (symmetry; apply Nat.ltb_lt; lia). ring.
    - apply Nat.ltb_ge in E1. destruct (i - n)%nat eqn:E2.
      + replace (i <? S n)%nat with true by (symmetry; apply Nat.ltb_lt; lia). rewrite !coeff_cons_0. ring.
      + replace (i <? S n)%nat with false by (symmetry; apply Nat.ltb_ge; lia).
        rewrite !coeff_cons_S, coeff_nil. replace (i - S n)%nat with n0 by lia. ring.
  Qed.
  Lemma pmul_pshift_const n c p : peq (pmul (pshift n [c]) p) (pshift n (pscale c p)).
  Proof. rewrite !(pshift_pmul fk), (pscale_as_pmul fk). ring. Qed.

  (* the loop invariant: a = X^n q d + rev r  is preserved; at the end  a = q' d + rev r'  with |r'| = |ds| *)
  Lemma kdiv_loop_spec lcd dinv ds : lcd * dinv = 1 ->
    forall n r q, length r = (n + length ds)%nat ->
      length (snd (kdiv_loop n dinv ds r q)) = length ds /\
      peq (padd (pmul (pshift n q) (rev ds ++ [lcd])) (rev r))
          (padd (pmul (fst (kdiv_loop n dinv ds r q)) (rev ds ++ [lcd])) (rev (snd (kdiv_loop n dinv ds r q)))).
  Proof.
    intros Hinv. induction n as [|n IH]; intros r q Hl.
    - cbn [kdiv_loop fst snd]. split; [exact Hl|]. reflexivity.
    - destruct r as [|lc r1]; [cbn in Hl; lia|]. cbn [length] in Hl. cbn [kdiv_loop].
      set (qc := lc * dinv). set (r2 := ksub_row qc ds r1).
      assert (Hl2 : length r2 = (n + length ds)%nat) by (unfold r2; rewrite ksub_row_length; lia).
      destruct (IH r2 (qc :: q) Hl2) as [I1 I2]. split; [exact I1|]. rewrite <- I2. clear I1 I2 IH.
      rewrite (pshift_cons_split n qc q), (pmul_padd_distr_r fk), pmul_pshift_const.
      unfold r2. rewrite (rev_ksub_row qc ds r1) by lia.
      replace (length r1 - length ds)%nat with n by lia.
      (* rev (lc :: r1) = X^n qc (rev ds ++ [lcd]) + (rev r1 - X^n qc (rev ds)) *)
      assert (C : peq (rev (lc :: r1))
                      (padd (pshift n (pscale qc (rev ds ++ [lcd]))) (psub (rev r1) (pshift n (pscale qc (rev ds)))))).
      { apply peq_intro. intros i. cbn [rev]. rewrite coeff_padd, coeff_psub, !coeff_pshift, !coeff_pscale, !coeff_snoc, !rev_length.
        destruct (i <? length r1)%nat eqn:E1.
        - apply Nat.ltb_lt in E1. destruct (i <? n)%nat eqn:E2; [ring|]. apply Nat.ltb_ge in E2.
          replace (i - n <? length ds)%nat with true by (symmetry; apply Nat.ltb_lt; lia). ring.
        - apply Nat.ltb_ge in E1. replace (i <? n)%nat with false by (symmetry; apply Nat.ltb_ge; lia).
          replace (i - n <? length ds)%nat with false by (symmetry; apply Nat.ltb_ge; lia).
          rewrite (coeff_overflow fk (rev r1) i) by (rewrite rev_length; lia).
          rewrite (coeff_overflow fk (rev ds) (i - n)) by (rewrite rev_length; lia).
          destruct (i =? length r1)%nat eqn:E3.
          + apply Nat.eqb_eq in E3. replace (i - n =? length ds)%nat with true by (symmetry; apply Nat.eqb_eq; lia).
            unfold qc. transitivity (lc * (lcd * dinv)); [rewrite Hinv; ring|ring].
          + apply Nat.eqb_neq in E3. replace (i - n =? length ds)%nat with false by (symmetry; apply Nat.eqb_neq; lia). ring. }
      rewrite C. ring.
  Qed.
End KDiv.

(* the model loop refines the K-level loop and never panics on well-sized arguments *)
Section DivModel.
  Context {F K : Type} (o : fops F) (fk : fieldK K) (ok : F -> Prop) (den : F -> K).
  Hypothesis H : field_ok o fk ok den.
  Local Notation "0" := (k0 fk).
  Local Notation "1" := (k1 fk).
  Local Infix "+" := (kadd fk).
  Local Infix "*" := (kmul fk).
  Local Infix "-" := (ksub fk).
  Local Notation D := (map den).
  Local Notation okl := (Forall ok).
  Local Notation peq := (peq fk).
  Local Notation pzero := (pzero fk).
  Local Notation padd := (padd fk).
  Local Notation pmul := (pmul fk).
  Local Notation pdeg := (pdeg fk).
  Add Field kfield_PolyDivProofs_DivModel : (kFT fk).
  Add Ring polyring_PolyDivProofs_DivModel : (poly_ring_theory fk) (setoid (peq_Equivalence fk) (poly_ring_ext fk)).

  Lemma sub_row_D qc ds : ok qc -> okl ds -> forall r, okl r -> (length ds <= length r)%nat ->
    exists t, pdiv_sub_row o qc ds r = Some t /\ okl t /\ D t = ksub_row fk (den qc) (D ds) (D r).
  Proof.
    intros Hq Hds. induction Hds as [|d ds Hd Hds IH]; intros r Hr Hl.
    - exists r. split; [reflexivity|]. split; [exact Hr|]. destruct r; reflexivity.
    - destruct r as [|x r]; [cbn in Hl; lia|]. inversion Hr as [|? ? Hx Hr']; subst. cbn [length] in Hl.
      destruct (IH r Hr' ltac:(lia)) as [t [E1 [E2 E3]]]. cbn [pdiv_sub_row]. rewrite E1.
      exists (fsub o x (fmul o qc d) :: t). split; [reflexivity|].
      destruct (fo_mul _ _ _ _ H qc d Hq Hd) as [M1 M2].
      destruct (fo_sub _ _ _ _ H x (fmul o qc d) Hx M1) as [S1 S2].
      split; [constructor; assumption|]. cbn [map ksub_row]. rewrite S2, M2, E3. reflexivity.
  Qed.
  Lemma div_loop_D dinv ds : ok dinv -> okl ds -> forall n r q, okl r -> okl q -> length r = (n + length ds)%nat ->
    exists q' r', pdiv_div_loop o n dinv ds r q = Some (q', r') /\ okl q' /\ okl r' /\
                  (D q', D r') = kdiv_loop fk n (den dinv) (D ds) (D r) (D q).
  Proof.
    intros Hdi Hds. induction n as [|n IH]; intros r q Hr Hq Hl.
    - exists q, r. repeat split; assumption.
    - destruct r as [|lc r1]; [cbn in Hl; lia|]. inversion Hr as [|? ? Hlc Hr1]; subst. cbn [length] in Hl.
      cbn [pdiv_div_loop map kdiv_loop].
      destruct (fo_mul _ _ _ _ H lc dinv Hlc Hdi) as [M1 M2].
      destruct (fis_zero o (fmul o lc dinv)) eqn:Ez.
      + apply (is0_iff o fk ok den H _ M1) in Ez.
        destruct (IH r1 (fmul o lc dinv :: q) Hr1 ltac:(constructor; assumption) ltac:(lia)) as [q' [r' [E1 [E2 [E3 E4]]]]].
        exists q', r'. split; [exact E1|]. split; [exact E2|]. split; [exact E3|].
        rewrite E4. cbn [map]. rewrite <- M2, Ez, ksub_row_zero. reflexivity.
      + destruct (sub_row_D (fmul o lc dinv) ds M1 Hds r1 Hr1 ltac:(lia)) as [t [T1 [T2 T3]]]. rewrite T1.
        assert (Lt : length t = (n + length ds)%nat).
        { rewrite <- (map_length den t), T3, ksub_row_length, map_length. lia. }
        destruct (IH t (fmul o lc dinv :: q) T2 ltac:(constructor; assumption) Lt) as [q' [r' [E1 [E2 [E3 E4]]]]].
        exists q', r'. split; [exact E1|]. split; [exact E2|]. split; [exact E3|].
        rewrite E4. cbn [map]. rewrite T3, M2. reflexivity.
  Qed.

  Lemma firstn_S_nth_error {A} (l : list A) k c : nth_error l k = Some c -> firstn (S k) l = firstn k l ++ [c].
  Proof.
    revert k. induction l as [|x l IH]; intros [|k] E; cbn in E; try discriminate.
    - inversion E. reflexivity.
    - cbn [firstn app]. f_equal. apply IH. exact E.
  Qed.
  (* the reversed normalised divisor starts with the leading coefficient *)
  Lemma rev_normalize_head d lc : poly_leading_coefficient o d = Some (Some lc) ->
    exists ds, rev (poly_normalize o d) = lc :: ds /\ Z.of_nat (length ds) = poly_degree o d.
  Proof.
    unfold poly_leading_coefficient. destruct (poly_degree o d =? -1) eqn:E0; [discriminate|]. apply Z.eqb_neq in E0.
    pose proof (degree_ge o d) as G.
    destruct (idx d (poly_degree o d)) as [c|] eqn:E1; [|discriminate]. intros X. inversion X; subst c. clear X.
    unfold idx in E1. destruct (poly_degree o d <? 0) eqn:E2; [discriminate|].
    rewrite (normalize_prefix o d).
    assert (L : length (poly_normalize o d) = S (Z.to_nat (poly_degree o d))).
    { unfold poly_degree, zlen in *. lia. }
    rewrite L, (firstn_S_nth_error d _ lc E1), rev_app_distr. cbn [rev app].
    exists (rev (firstn (Z.to_nat (poly_degree o d)) d)). split; [reflexivity|].
    rewrite rev_length, firstn_length.
    assert (Z.to_nat (poly_degree o d) < length d)%nat by (apply nth_error_Some; rewrite E1; discriminate). lia.
  Qed.
  Lemma pshift_nil_peq n : peq (pshift fk n []) [].
  Proof. apply peq_intro. intros i. rewrite coeff_pshift, !coeff_nil. destruct (i <? n)%nat; reflexivity. Qed.

  (* divide: a = q d + r with deg r < deg d, for every non-zero divisor; no panic *)
  Theorem naive_divide_spec a d : okl a -> okl d -> ~ pzero (D d) ->
    exists q r, pdiv_naive_divide o a d = Some (q, r) /\ okl q /\ okl r /\ is_divmod fk (D a) (D d) (D q) (D r).
  Proof.
    intros Ha Hd NZ. unfold pdiv_naive_divide.
    destruct (proj2 (leading_coeff_nonzero o fk ok den H d Hd) NZ) as [lc [E1 [Hlc [E2 E3]]]]. rewrite E1.
    destruct (fo_inv _ _ _ _ H lc Hlc E3) as [dinv [Ei [Hdi Edi]]]. rewrite Ei.
    pose proof (degree_pdeg o fk ok den H a Ha) as Da. pose proof (degree_pdeg o fk ok den H d Hd) as Dd.
    assert (Gd : (0 <= poly_degree o d)%Z) by (rewrite Dd; apply pdeg_nonneg_iff; exact NZ).
    destruct (poly_degree o a - poly_degree o d <? 0)%Z eqn:Eq.
    - apply Z.ltb_lt in Eq. exists [], a. split; [reflexivity|]. split; [constructor|]. split; [exact Ha|].
      split; [cbn [map PolySpec.pmul PolySpec.padd]; reflexivity|]. lia.
    - apply Z.ltb_ge in Eq.
      destruct (rev_normalize_head d lc E1) as [ds [R1 R2]].
      pose proof (normalize_ok o ok a Ha) as Han. pose proof (normalize_ok o ok d Hd) as Hdn.
      assert (Hds : okl ds).
      { assert (X : okl (rev (poly_normalize o d))) by (apply Forall_rev; exact Hdn). rewrite R1 in X. inversion X; assumption. }
      rewrite R1. cbn [tl].
      set (n := Z.to_nat (poly_degree o a - poly_degree o d + 1)).
      assert (Ln : length (rev (poly_normalize o a)) = (n + length ds)%nat).
      { rewrite rev_length. unfold n. unfold poly_degree, zlen in *. lia. }
      destruct (div_loop_D dinv ds Hdi Hds n (rev (poly_normalize o a)) [] (Forall_rev Han) (Forall_nil _) Ln)
        as [q' [r' [L1 [L2 [L3 L4]]]]].
      rewrite L1. exists q', (rev r'). split; [reflexivity|]. split; [exact L2|]. split; [apply Forall_rev; exact L3|].
      assert (Hinv : den lc * den dinv = 1) by (rewrite Edi; field; exact E3).
      assert (Ln' : length (D (rev (poly_normalize o a))) = (n + length (D ds))%nat) by (rewrite !map_length; exact Ln).
      destruct (kdiv_loop_spec fk (den lc) (den dinv) (D ds) Hinv n (D (rev (poly_normalize o a))) (D []) Ln') as [K1 K2].
      rewrite <- L4 in K1, K2. cbn [fst snd] in K1, K2.
      (* the divisor polynomial *)
      assert (Edp : rev (D ds) ++ [den lc] = D (poly_normalize o d)).
      { rewrite <- (rev_involutive (poly_normalize o d)), R1. cbn [rev]. rewrite map_app, map_rev. reflexivity. }
      rewrite Edp in K2. cbn [map] in K2. rewrite (pshift_nil_peq n) in K2.
      rewrite map_rev, rev_involutive in K2.
      rewrite (normalize_peq o fk ok den H a Ha), (normalize_peq o fk ok den H d Hd) in K2.
      split.
      + rewrite map_rev, <- K2. ring.
      + rewrite map_rev. assert (B : (pdeg (rev (D r')) < Z.of_nat (length ds))%Z).
        { apply pdeg_length_lt. rewrite rev_length, K1, map_length. lia. }
        lia.
  Qed.
  (* division by zero panics ("divisor should be non-zero") *)
  Theorem naive_divide_zero_divisor a d : okl d -> pzero (D d) -> pdiv_naive_divide o a d = None.
  Proof.
    intros Hd Z. unfold pdiv_naive_divide. rewrite (proj1 (leading_coeff_nonzero o fk ok den H d Hd) Z). reflexivity.
  Qed.
  (* hence the result is THE quotient and THE remainder *)
  Theorem naive_divide_unique a d q r q0 r0 : okl a -> okl d ->
    pdiv_naive_divide o a d = Some (q, r) -> is_divmod fk (D a) (D d) q0 r0 -> peq (D q) q0 /\ peq (D r) r0.
  Proof.
    intros Ha Hd E S0.
    assert (NZ : ~ pzero (D d)).
    { intros Z. rewrite (naive_divide_zero_divisor a d Hd Z) in E. discriminate. }
    destruct (naive_divide_spec a d Ha Hd NZ) as [q' [r' [E' [_ [_ S]]]]]. rewrite E in E'. inversion E'; subst q' r'.
    exact (is_divmod_unique fk _ _ _ _ _ _ S S0).
  Qed.
  Theorem naive_divide_panics_iff a d : okl a -> okl d -> (pdiv_naive_divide o a d = None <-> pzero (D d)).
  Proof.
    intros Ha Hd. split.
    - intros E. destruct (pdeg_neg_iff fk (D d)) as [X _]. destruct (Z.eq_dec (pdeg (D d)) (-1)) as [Y|Y]; [exact (X Y)|].
      exfalso. assert (NZ : ~ pzero (D d)) by (intros Z; apply pdeg_neg_iff in Z; contradiction).
      destruct (naive_divide_spec a d Ha Hd NZ) as [q [r [E' _]]]. rewrite E in E'. discriminate.
    - apply naive_divide_zero_divisor. exact Hd.
  Qed.

  (* Div, Rem, divide, reduce_long_division *)
  Theorem div_rem_spec a d : okl a -> okl d -> ~ pzero (D d) ->
    exists q r, pdiv_divide o a d = Some (q, r) /\ pdiv_div o a d = Some q /\ pdiv_rem o a d = Some r /\
                pdiv_reduce_long_division o a d = Some r /\ okl q /\ okl r /\ is_divmod fk (D a) (D d) (D q) (D r).
  Proof.
    intros Ha Hd NZ. destruct (naive_divide_spec a d Ha Hd NZ) as [q [r [E [Hq [Hr S]]]]]. exists q, r.
    unfold pdiv_divide, pdiv_div, pdiv_rem, pdiv_reduce_long_division, pdiv_divide. rewrite E. repeat split; try assumption; apply S.
  Qed.
  Lemma reduce_long_division_spec a d : okl a -> okl d -> ~ pzero (D d) ->
    exists r, pdiv_reduce_long_division o a d = Some r /\ okl r /\ is_rem fk (D a) (D d) (D r).
  Proof.
    intros Ha Hd NZ. destruct (div_rem_spec a d Ha Hd NZ) as [q [r [_ [_ [_ [E [_ [Hr [S1 S2]]]]]]]]].
    exists r. split; [exact E|]. split; [exact Hr|]. split; [exists (D q); exact S1|exact S2].
  Qed.
End DivModel.

(* ================================================================== 4. clean_divide
   `pdiv_clean_divide_gen fix1 fix2` over an arbitrary base-field record; the extension field, the transforms and batch
   inversion are parameters.  Proved here for EVERY value of the cutoff (so for the production 512 and the cfg(test) 0):
     - the long-division arm (deg d < cutoff): the exact quotient of every clean division; zero divisor = panic;
     - the removal of the root 0 keeps the division clean with the same quotient and, since 8b5e451, never panics;
     - the fallback of the NTT arm (since 87d4e9b): whenever a divisor evaluation is zero the exact quotient is returned.
   The zero-free NTT arm (pointwise division of the two codewords) is not proved here: see C09_clean_divide_full. *)
Section CleanDivideProofs.
  Context {F X K : Type} (o : fops F) (ox : fops X) (act : fact F X) (unlift : X -> option F) (offset : X).
  Variable nttx : list X -> option (list X).
  Variable inttx : list X -> option (list X).
  Variable batch_inv : list X -> option (list X).
  Context (fk : fieldK K) (ok : F -> Prop) (den : F -> K).
  Hypothesis H : field_ok o fk ok den.
  Local Notation "0" := (k0 fk).
  Local Infix "*" := (kmul fk).
  Local Notation D := (map den).
  Local Notation okl := (Forall ok).
  Local Notation peq := (peq fk).
  Local Notation pzero := (pzero fk).
  Local Notation pmul := (pmul fk).
  Local Notation clean := (pdiv_clean_divide_gen o ox act unlift offset nttx inttx batch_inv).
  Add Field kfield_PolyDivProofs_Clean : (kFT fk).
  Add Ring polyring_PolyDivProofs_Clean : (poly_ring_theory fk) (setoid (peq_Equivalence fk) (poly_ring_ext fk)).

  Lemma long_division_arm_spec dbg a d q0 : okl a -> okl d -> ~ pzero (D d) -> peq (D a) (pmul q0 (D d)) ->
    exists q, pdiv_long_division_arm o dbg a d = Some q /\ okl q /\ peq (D q) q0.
  Proof.
    intros Ha Hd NZ E. unfold pdiv_long_division_arm.
    destruct (div_rem_spec o fk ok den H a d Ha Hd NZ) as [q [r [E1 [_ [_ [_ [Hq [Hr S]]]]]]]]. rewrite E1.
    destruct (is_divmod_of_pdvd fk _ _ _ _ q0 NZ E S) as [Eq Zr].
    apply (is_zero_iff o fk ok den H r Hr) in Zr. rewrite Zr. cbn [negb]. rewrite andb_false_r.
    exists q. split; [reflexivity|]. split; [exact Hq|exact Eq].
  Qed.
  Lemma long_division_arm_zero_divisor dbg a d : okl d -> pzero (D d) -> pdiv_long_division_arm o dbg a d = None.
  Proof.
    intros Hd Z. unfold pdiv_long_division_arm, pdiv_divide. rewrite (naive_divide_zero_divisor o fk ok den H a d Hd Z). reflexivity.
  Qed.

  (* exact division below the cutoff: every cutoff, with and without debug assertions, every version of the code *)
  Theorem clean_divide_long_arm_spec fix1 fix2 cutoff dbg a d q0 :
    okl a -> okl d -> ~ pzero (D d) -> peq (D a) (pmul q0 (D d)) -> (poly_degree o d < cutoff)%Z ->
    exists q, clean fix1 fix2 cutoff dbg a d = Some q /\ okl q /\ peq (D q) q0.
  Proof.
    intros Ha Hd NZ E Hc. unfold pdiv_clean_divide_gen. apply Z.ltb_lt in Hc. rewrite Hc.
    apply long_division_arm_spec; assumption.
  Qed.
  (* the zero divisor panics, as documented (both cutoffs are >= 0) *)
  Theorem clean_divide_zero_divisor fix1 fix2 cutoff dbg a d : okl d -> pzero (D d) -> (0 <= cutoff)%Z ->
    clean fix1 fix2 cutoff dbg a d = None.
  Proof.
    intros Hd Z Hc. unfold pdiv_clean_divide_gen.
    assert (E : (poly_degree o d <? cutoff)%Z = true).
    { apply Z.ltb_lt. apply (degree_neg_pzero o fk ok den H d Hd) in Z. lia. }
    rewrite E. apply long_division_arm_zero_divisor; assumption.
  Qed.

  (* removal of the root 0 *)
  Lemma pmul_cons0_r q p : peq (pmul q (0 :: p)) (0 :: pmul q p).
  Proof. rewrite (pmul_comm fk q (0 :: p)), pmul_cons0_l. apply peq_cons; [reflexivity|apply pmul_comm]. Qed.
  Lemma remove_root0_spec fix2 a d q0 a1 d1 : okl a -> okl d -> ~ pzero (D d) -> peq (D a) (pmul q0 (D d)) ->
    pdiv_remove_root0 o fix2 a d = Some (a1, d1) ->
    okl a1 /\ okl d1 /\ ~ pzero (D d1) /\ peq (D a1) (pmul q0 (D d1)).
  Proof.
    intros Ha Hd NZ E. unfold pdiv_remove_root0. destruct d as [|c0 d']; [intros E9; inversion E9; subst; (split; [|split; [|split]]); assumption|].
    inversion Hd as [|? ? Hc0 Hd']; subst.
    destruct (fis_zero o c0) eqn:Ez; [|intros E9; inversion E9; subst; (split; [|split; [|split]]); assumption].
    apply (is0_iff o fk ok den H c0 Hc0) in Ez. cbn [map] in E, NZ. rewrite Ez in E, NZ.
    assert (NZ' : ~ pzero (D d')) by (intros Z; apply NZ; apply pzero_cons; split; [reflexivity|exact Z]).
    rewrite pmul_cons0_r in E.
    destruct a as [|x0 a'].
    - destruct fix2; [|discriminate]. intros E9; inversion E9; subst. split; [constructor|]. split; [exact Hd'|]. split; [exact NZ'|].
      apply peq_intro. intros i. pose proof (peq_elim fk _ _ E (S i)) as Ei. cbn [map] in *. rewrite coeff_cons_S in Ei.
      rewrite <- Ei. rewrite !coeff_nil. reflexivity.
    - inversion Ha as [|? ? Hx0 Ha']; subst. cbn [map] in E. apply peq_cons_inv in E. destruct E as [E0 E'].
      destruct (fis_zero o x0); [|discriminate]. intros E9; inversion E9; subst. (split; [|split; [|split]]); assumption.
  Qed.
  (* since 8b5e451 the workaround never panics on a clean division *)
  Lemma remove_root0_total a d q0 : okl a -> okl d -> peq (D a) (pmul q0 (D d)) ->
    exists a1 d1, pdiv_remove_root0 o true a d = Some (a1, d1).
  Proof.
    intros Ha Hd E. unfold pdiv_remove_root0. destruct d as [|c0 d']; [eexists; eexists; reflexivity|].
    inversion Hd as [|? ? Hc0 Hd']; subst.
    destruct (fis_zero o c0) eqn:Ez; [|eexists; eexists; reflexivity].
    apply (is0_iff o fk ok den H c0 Hc0) in Ez. cbn [map] in E. rewrite Ez, pmul_cons0_r in E.
    destruct a as [|x0 a']; [eexists; eexists; reflexivity|].
    inversion Ha as [|? ? Hx0 Ha']; subst. cbn [map] in E. apply peq_cons_inv in E. destruct E as [E0 _].
    apply (is0_iff o fk ok den H x0 Hx0) in E0. rewrite E0. eexists; eexists; reflexivity.
  Qed.

  (* the fallback of the NTT arm (code since 87d4e9b): a zero among the divisor evaluations -> long division, exact *)
  Theorem clean_divide_fallback_spec fix2 cutoff dbg a d q0 a1 d1 av dv :
    okl a -> okl d -> ~ pzero (D d) -> peq (D a) (pmul q0 (D d)) -> (cutoff <= poly_degree o d)%Z ->
    pdiv_remove_root0 o fix2 a d = Some (a1, d1) ->
    pdiv_clean_codewords o ox act offset nttx a1 d1 = Some (av, dv) -> existsb (fis_zero ox) dv = true ->
    exists q, clean true fix2 cutoff dbg a d = Some q /\ okl q /\ peq (D q) q0.
  Proof.
    intros Ha Hd NZ E Hc R C Z. unfold pdiv_clean_divide_gen.
    apply Z.ltb_ge in Hc. rewrite Hc, R, C, Z. cbn [andb].
    destruct (remove_root0_spec fix2 a d q0 a1 d1 Ha Hd NZ E R) as [Ha1 [Hd1 [NZ1 E1]]].
    apply long_division_arm_spec; assumption.
  Qed.
End CleanDivideProofs.

(* ---- concrete witnesses (base field BFieldElement, extension XFieldElement, the real transforms of model/Ntt.v),
   run with the cfg(test) cutoff 0 so that small degrees reach the NTT arm (the model is parametric in the cutoff; the
   production-cutoff replays of degree >= 512 are in corpus/C09 and were confirmed on the real code).
     dividend = (x^3 - x + 1)(x + 2), divisor = x^3 - x + 1: long division is clean, quotient x + 2;
     the divisor vanishes at the coset offset x (a root of x^3 - x + 1). *)
Definition pdiv_w_divisor : list Z := map bfe_new [1; 18446744069414584320; 0; 1].
Definition pdiv_w_quotient : list Z := map bfe_new [2; 1].
Definition pdiv_w_dividend : list Z := poly_mul bfe_ops pdiv_w_divisor pdiv_w_quotient.
(* HISTORICAL (code before 87d4e9b): panic "Cannot do batch inversion on zero" on a clean division *)
Lemma clean_divide_v0_refuted :
  exists a d q, pdiv_naive_divide bfe_ops a d = Some (q, [bfe_zero; bfe_zero; bfe_zero]) /\
                pdiv_clean_divide_v0 CLEAN_DIVIDE_CUTOFF_THRESHOLD_TEST false a d = None /\
                pdiv_clean_divide_v0 CLEAN_DIVIDE_CUTOFF_THRESHOLD_TEST true a d = None.
Proof. exists pdiv_w_dividend, pdiv_w_divisor, pdiv_w_quotient. vm_compute. repeat split. Qed.
(* HISTORICAL (code before 8b5e451, with or without the first repair): Polynomial::zero() divided by x * (x + 1):
   index out of bounds on dividend_coefficients[0], although 0 = 0 * d is a clean division *)
Lemma clean_divide_v1_empty_dividend_refuted :
  exists d, pdiv_naive_divide bfe_ops [] d = Some ([], []) /\
            pdiv_clean_divide_v0 CLEAN_DIVIDE_CUTOFF_THRESHOLD_TEST false [] d = None /\
            pdiv_clean_divide_v1 CLEAN_DIVIDE_CUTOFF_THRESHOLD_TEST false [] d = None.
Proof. exists (map bfe_new [0; 1; 1]). vm_compute. repeat split. Qed.
(* the current code on the same inputs, under the cfg(test) cutoff and the production cutoff *)
Lemma clean_divide_repaired_witnesses :
  (forall dbg, pdiv_clean_divide CLEAN_DIVIDE_CUTOFF_THRESHOLD_TEST dbg pdiv_w_dividend pdiv_w_divisor = Some pdiv_w_quotient) /\
  (forall dbg, pdiv_clean_divide CLEAN_DIVIDE_CUTOFF_THRESHOLD_PROD dbg pdiv_w_dividend pdiv_w_divisor = Some pdiv_w_quotient) /\
  (forall dbg, pdiv_clean_divide CLEAN_DIVIDE_CUTOFF_THRESHOLD_TEST dbg [] (map bfe_new [0; 1; 1]) = Some [bfe_zero]) /\
  (forall dbg, pdiv_clean_divide CLEAN_DIVIDE_CUTOFF_THRESHOLD_TEST dbg [bfe_zero] (map bfe_new [0; 0; 1]) = Some []).
Proof. repeat split; intros [|]; vm_compute; reflexivity. Qed.

(* ================================================================== 3. reduce: every arm returns THE remainder *)
Section ReduceProofs.
  Context {F K : Type} (o : fops F) (fk : fieldK K) (ok : F -> Prop) (den : F -> K).
  Hypothesis H : field_ok o fk ok den.
  Variable ntt : list F -> option (list F).
  Variable intt : list F -> option (list F).
  Local Notation "0" := (k0 fk).
  Local Infix "*" := (kmul fk).
  Local Notation D := (map den).
  Local Notation okl := (Forall ok).
  Local Notation peq := (peq fk).
  Local Notation pzero := (pzero fk).
  Local Notation padd := (padd fk).
  Local Notation pmul := (pmul fk).
  Local Notation pdeg := (pdeg fk).
  Add Field kfield_PolyDivProofs_Reduce : (kFT fk).
  Add Ring polyring_PolyDivProofs_Reduce : (poly_ring_theory fk) (setoid (peq_Equivalence fk) (poly_ring_ext fk)).

  (* modulo a non-zero constant everything is congruent to 0 *)
  Lemma is_rem_constant_modulus (a m : list K) : pdeg m = 0%Z -> is_rem fk a m [].
  Proof.
    intros Hm. split; [|rewrite Hm; change (pdeg []) with (-1)%Z; lia].
    destruct (coeff_at_pdeg fk m ltac:(lia)) as [C1 C2]. rewrite Hm in C1. change (Z.to_nat 0) with O in C1.
    set (c := plead fk m) in *.
    exists (pscale fk (kinv fk c) a). apply peq_intro. intros i. rewrite coeff_padd, coeff_nil, coeff_pmul.
    rewrite (ksum_single fk _ _ i); [|lia|].
    - rewrite Nat.sub_diag, C1, coeff_pscale. field. exact C2.
    - intros j Hj Hne. rewrite (coeff_above_pdeg fk m (i - j)) by lia. ring.
  Qed.
  Lemma is_rem_small (a m : list K) : (pdeg a < pdeg m)%Z -> is_rem fk a m a.
  Proof. intros Hlt. split; [exists []; cbn [PolySpec.pmul PolySpec.padd]; reflexivity|exact Hlt]. Qed.

  (* the arms of `reduce` that do not go through fast_reduce: constant modulus, already reduced, long division *)
  Theorem reduce_slow_arms_spec a m : okl a -> okl m -> ~ pzero (D m) -> pdiv_reduce_arm o a m <> 3%Z ->
    exists r, pdiv_reduce o ntt intt a m = Some r /\ okl r /\ is_rem fk (D a) (D m) (D r).
  Proof.
    intros Ha Hm NZ. unfold pdiv_reduce_arm, pdiv_reduce.
    pose proof (degree_pdeg o fk ok den H a Ha) as Da. pose proof (degree_pdeg o fk ok den H m Hm) as Dm.
    assert (Gm : (0 <= poly_degree o m)%Z) by (rewrite Dm; apply pdeg_nonneg_iff; exact NZ).
    destruct (poly_degree o m <? 0)%Z eqn:E0; [apply Z.ltb_lt in E0; lia|].
    destruct (poly_degree o m =? 0)%Z eqn:E1.
    - intros _. apply Z.eqb_eq in E1. exists []. split; [reflexivity|]. split; [constructor|].
      apply is_rem_constant_modulus. lia.
    - destruct (poly_degree o a <? poly_degree o m)%Z eqn:E2.
      + intros _. apply Z.ltb_lt in E2. exists a. split; [reflexivity|]. split; [exact Ha|]. apply is_rem_small. lia.
      + destruct (poly_degree o a >? FAST_REDUCE_MAKES_SENSE_MULTIPLE * poly_degree o m)%Z; [intros X; exfalso; apply X; reflexivity|].
        intros _. apply (reduce_long_division_spec o fk ok den H); assumption.
  Qed.
  (* above four times the modulus degree `reduce` IS fast_reduce *)
  Theorem reduce_fast_arm a m : pdiv_reduce_arm o a m = 3%Z -> pdiv_reduce o ntt intt a m = pdiv_fast_reduce o ntt intt a m.
  Proof.
    unfold pdiv_reduce_arm, pdiv_reduce.
    destruct (poly_degree o m <? 0)%Z; [discriminate|]. destruct (poly_degree o m =? 0)%Z; [discriminate|].
    destruct (poly_degree o a <? poly_degree o m)%Z; [discriminate|].
    destruct (poly_degree o a >? FAST_REDUCE_MAKES_SENSE_MULTIPLE * poly_degree o m)%Z; [reflexivity|discriminate].
  Qed.
  (* the zero modulus panics ("Cannot divide by zero; needed for reduce.") *)
  Theorem reduce_zero_modulus a m : okl m -> pzero (D m) -> pdiv_reduce o ntt intt a m = None.
  Proof.
    intros Hm Z. unfold pdiv_reduce. apply (degree_neg_pzero o fk ok den H m Hm) in Z.
    apply Z.ltb_lt in Z. rewrite Z. reflexivity.
  Qed.

  (* fast_reduce: the early exits are exact; the last stage (long division by the unmultiplied modulus) turns ANY
     intermediate remainder congruent to the input into THE remainder, by uniqueness.  What is not proved: that the two
     chunk-wise stages (NTT-friendly multiple, structured multiple) preserve the congruence - see C09_fast_reduce_full. *)
  Theorem fast_reduce_early_exits a m : okl a -> okl m -> ~ pzero (D m) ->
    (poly_degree o m = 0 \/ poly_degree o a < poly_degree o m)%Z ->
    exists r, pdiv_fast_reduce o ntt intt a m = Some r /\ okl r /\ is_rem fk (D a) (D m) (D r).
  Proof.
    intros Ha Hm NZ Hc. unfold pdiv_fast_reduce.
    pose proof (degree_pdeg o fk ok den H a Ha) as Da. pose proof (degree_pdeg o fk ok den H m Hm) as Dm.
    destruct (poly_degree o m =? 0)%Z eqn:E1.
    - apply Z.eqb_eq in E1. exists []. split; [reflexivity|]. split; [constructor|]. apply is_rem_constant_modulus. lia.
    - apply Z.eqb_neq in E1. destruct Hc as [Hc|Hc]; [contradiction|]. apply Z.ltb_lt in Hc. rewrite Hc.
      apply Z.ltb_lt in Hc. exists a. split; [reflexivity|]. split; [exact Ha|]. apply is_rem_small. lia.
  Qed.
  Theorem fast_reduce_final_stage a m ir : okl a -> okl m -> okl ir -> ~ pzero (D m) ->
    (exists k, peq (D a) (padd (pmul k (D m)) (D ir))) ->
    exists r, pdiv_reduce_long_division o ir m = Some r /\ okl r /\ is_rem fk (D a) (D m) (D r).
  Proof.
    intros Ha Hm Hir NZ Hk. destruct (reduce_long_division_spec o fk ok den H ir m Hir Hm NZ) as [r [E [Hr S]]].
    exists r. split; [exact E|]. split; [exact Hr|]. exact (is_rem_congr fk _ _ _ _ Hk S).
  Qed.
End ReduceProofs.

(* ================================================================== 5. xgcd *)
Section XgcdSpecLemmas.
  Context {K : Type} (fk : fieldK K).
  Local Notation "0" := (k0 fk).
  Local Notation "1" := (k1 fk).
  Local Infix "*" := (kmul fk).
  Local Notation peq := (peq fk).
  Local Notation pzero := (pzero fk).
  Local Notation coeff := (coeff fk).
  Local Notation pscale := (pscale fk).
  Local Notation pdeg := (pdeg fk).
  Local Notation plead := (plead fk).
  Add Field kfield_PolyDivProofs_XgcdSpec : (kFT fk).

  Lemma pzero_pscale c p : pzero p -> pzero (pscale c p).
  Proof. intros Z i. rewrite coeff_pscale, (Z i). ring. Qed.
  Lemma pscale_pscale c e p : peq (pscale c (pscale e p)) (pscale (c * e) p).
  Proof. apply peq_intro. intros i. rewrite !coeff_pscale. ring. Qed.
  Lemma pscale_1 p : peq (pscale 1 p) p.
  Proof. apply peq_intro. intros i. rewrite coeff_pscale. ring. Qed.
  Lemma pdeg_pscale c p : c <> 0 -> pdeg (pscale c p) = pdeg p.
  Proof.
    intros Hc. apply Z.le_antisymm.
    - assert (B : (pdeg (pscale c p) < Z.of_nat (Z.to_nat (pdeg p + 1)))%Z); [|pose proof (pdeg_ge fk p); lia].
      apply pdeg_lt_iff. intros i Hi. rewrite coeff_pscale, coeff_above_pdeg; [ring|]. pose proof (pdeg_ge fk p). lia.
    - assert (B : (pdeg p < Z.of_nat (Z.to_nat (pdeg (pscale c p) + 1)))%Z); [|pose proof (pdeg_ge fk (pscale c p)); lia].
      apply pdeg_lt_iff. intros i Hi.
      assert (E : coeff (pscale c p) i = 0) by (apply coeff_above_pdeg; pose proof (pdeg_ge fk (pscale c p)); lia).
      rewrite coeff_pscale in E. destruct (k_integral fk _ _ E) as [X|X]; [contradiction|exact X].
  Qed.
  Lemma plead_pscale c p : c <> 0 -> ~ pzero p -> plead (pscale c p) = c * plead p.
  Proof.
    intros Hc NZ. apply pdeg_nonneg_iff in NZ.
    assert (NZ' : (0 <= pdeg (pscale c p))%Z) by (rewrite pdeg_pscale by exact Hc; exact NZ).
    rewrite <- (proj1 (coeff_at_pdeg fk _ NZ')), <- (proj1 (coeff_at_pdeg fk _ NZ)), pdeg_pscale by exact Hc.
    apply coeff_pscale.
  Qed.
  Lemma pdvd_zero_l a : pdvd fk [] a -> pzero a.
  Proof. intros [q E]. apply peq_nil_pzero. rewrite E. apply pmul_nil_r. Qed.
End XgcdSpecLemmas.

Section XgcdProofs.
  Context {F K : Type} (o : fops F) (fk : fieldK K) (ok : F -> Prop) (den : F -> K).
  Hypothesis H : field_ok o fk ok den.
  Local Notation "0" := (k0 fk).
  Local Notation "1" := (k1 fk).
  Local Infix "*" := (kmul fk).
  Local Notation D := (map den).
  Local Notation okl := (Forall ok).
  Local Notation peq := (peq fk).
  Local Notation pzero := (pzero fk).
  Local Notation padd := (padd fk).
  Local Notation psub := (psub fk).
  Local Notation pmul := (pmul fk).
  Local Notation pscale := (pscale fk).
  Local Notation pdeg := (pdeg fk).
  Local Notation plead := (plead fk).
  Local Notation pdvd := (pdvd fk).
  Add Field kfield_PolyDivProofs_Xgcd : (kFT fk).
  Add Ring polyring_PolyDivProofs_Xgcd : (poly_ring_theory fk) (setoid (peq_Equivalence fk) (poly_ring_ext fk)).

  Lemma xgcd_loop_unfold fuel x y af a1 bf b1 :
    pdiv_xgcd_loop o fuel x y af a1 bf b1 =
    if poly_is_zero o y then PdOk (x, af, bf) else
    match fuel with
    | O => PdFuel
    | S f => match pdiv_naive_divide o x y with
             | None => PdPanic
             | Some (q, r) => pdiv_xgcd_loop o f y r a1 (poly_sub o af (poly_mul o q a1)) b1 (poly_sub o bf (poly_mul o q b1))
             end
    end.
  Proof. destruct fuel; reflexivity. Qed.

  Lemma mul_spec a b : okl a -> okl b -> okl (poly_mul o a b) /\ peq (D (poly_mul o a b)) (pmul (D a) (D b)).
  Proof. intros Ha Hb. exact (naive_multiply_spec o fk ok den H a b Ha Hb). Qed.

  (* the loop: Bezout combinations, the set of common divisors, and enough fuel *)
  Lemma xgcd_loop_spec X0 Y0 : forall fuel x y af a1 bf b1,
    okl x -> okl y -> okl af -> okl a1 -> okl bf -> okl b1 ->
    peq (D x) (padd (pmul (D af) X0) (pmul (D bf) Y0)) ->
    peq (D y) (padd (pmul (D a1) X0) (pmul (D b1) Y0)) ->
    (forall c, pdvd c (D x) /\ pdvd c (D y) <-> pdvd c X0 /\ pdvd c Y0) ->
    (Z.to_nat (pdeg (D y) + 2) <= fuel)%nat ->
    exists g a b, pdiv_xgcd_loop o fuel x y af a1 bf b1 = PdOk (g, a, b) /\ okl g /\ okl a /\ okl b /\
                  peq (D g) (padd (pmul (D a) X0) (pmul (D b) Y0)) /\
                  (forall c, pdvd c (D g) <-> pdvd c X0 /\ pdvd c Y0).
  Proof.
    induction fuel as [|f IH]; intros x y af a1 bf b1 Hx Hy Haf Ha1 Hbf Hb1 Bx By Cd Hf; rewrite xgcd_loop_unfold.
    - (* no fuel: y must be zero *)
      assert (Z : pzero (D y)) by (apply pdeg_neg_iff; pose proof (pdeg_ge fk (D y)); lia).
      rewrite (proj2 (is_zero_iff o fk ok den H y Hy) Z).
      exists x, af, bf. split; [reflexivity|]. split; [exact Hx|]. split; [exact Haf|]. split; [exact Hbf|]. split; [exact Bx|].
      intros c. rewrite <- Cd. split; [intros Hc; split; [exact Hc|apply pdvd_zero; exact Z]|intros [Hc _]; exact Hc].
    - destruct (poly_is_zero o y) eqn:Ez.
      + apply (is_zero_iff o fk ok den H y Hy) in Ez.
        exists x, af, bf. split; [reflexivity|]. split; [exact Hx|]. split; [exact Haf|]. split; [exact Hbf|]. split; [exact Bx|].
        intros c. rewrite <- Cd. split; [intros Hc; split; [exact Hc|apply pdvd_zero; exact Ez]|intros [Hc _]; exact Hc].
      + assert (NZ : ~ pzero (D y)).
        { intros Z. apply (is_zero_iff o fk ok den H y Hy) in Z. congruence. }
        destruct (naive_divide_spec o fk ok den H x y Hx Hy NZ) as [q [r [E [Hq [Hr [S1 S2]]]]]]. rewrite E.
        destruct (mul_spec q a1 Hq Ha1) as [M1 M2]. destruct (mul_spec q b1 Hq Hb1) as [N1 N2].
        apply IH.
        * exact Hy.
        * exact Hr.
        * exact Ha1.
        * apply (sub_ok o fk ok den H); assumption.
        * exact Hb1.
        * apply (sub_ok o fk ok den H); assumption.
        * exact By.
        * (* r = x - q y *)
          rewrite !(sub_D o fk ok den H) by assumption. rewrite M2, N2.
          assert (Er : peq (D r) (psub (D x) (pmul (D q) (D y)))) by (rewrite S1; ring).
          rewrite Er, Bx, By. ring.
        * intros c. rewrite <- Cd. split.
          -- intros [Cy Cr]. split; [|exact Cy]. apply (pdvd_peq fk c c (padd (pmul (D q) (D y)) (D r)) (D x)); [reflexivity|symmetry; exact S1|].
             apply pdvd_padd; [apply pdvd_pmul_l; exact Cy|exact Cr].
          -- intros [Cx Cy]. split; [exact Cy|].
             apply (pdvd_peq fk c c (psub (D x) (pmul (D q) (D y)))); [reflexivity|rewrite S1; ring|].
             apply pdvd_psub; [exact Cx|apply pdvd_pmul_l; exact Cy].
        * pose proof (pdeg_ge fk (D r)). apply pdeg_nonneg_iff in NZ. lia.
  Qed.

  (* the extended gcd: never panics, never runs out of fuel; Bezout; g divides both inputs and every common divisor
     divides g; g is monic or zero *)
  Theorem xgcd_spec x y : okl x -> okl y ->
    exists g a b, pdiv_xgcd o x y = PdOk (g, a, b) /\ okl g /\ okl a /\ okl b /\
                  peq (D g) (padd (pmul (D a) (D x)) (pmul (D b) (D y))) /\
                  (forall c, pdvd c (D g) <-> pdvd c (D x) /\ pdvd c (D y)) /\
                  (pzero (D g) \/ plead (D g) = 1).
  Proof.
    intros Hx Hy. unfold pdiv_xgcd, pdiv_xgcd_fuel.
    destruct (xgcd_loop_spec (D x) (D y) (S (length y)) x y (poly_one o) [] [] (poly_one o) Hx Hy
                (one_ok o fk ok den H) (Forall_nil _) (Forall_nil _) (one_ok o fk ok den H))
      as [g [a [b [E [Hg [Ha [Hb [Bz Cd]]]]]]]].
    - rewrite (one_D o fk ok den H). cbn [map]. ring.
    - rewrite (one_D o fk ok den H). cbn [map]. ring.
    - intros c. reflexivity.
    - pose proof (pdeg_le_length fk (D y)) as B. rewrite map_length in B. lia.
    - rewrite E.
      (* the normalising scalar *)
      assert (Hlc : exists lc, ok lc /\ den lc <> 0 /\
                (poly_leading_coefficient o g = Some (Some lc) /\ den lc = plead (D g) /\ ~ pzero (D g) \/
                 poly_leading_coefficient o g = Some None /\ lc = fone o /\ pzero (D g))).
      { destruct (pdeg_neg_iff fk (D g)) as [Z1 _]. destruct (Z.eq_dec (pdeg (D g)) (-1)) as [Y|Y].
        - exists (fone o). split; [exact (ok1 o fk ok den H)|]. split; [rewrite (den1 o fk ok den H); exact (k1_neq_0 fk)|].
          right. split; [exact (proj1 (leading_coeff_nonzero o fk ok den H g Hg) (Z1 Y))|]. split; [reflexivity|exact (Z1 Y)].
        - assert (NZ : ~ pzero (D g)) by (intros Z; apply pdeg_neg_iff in Z; contradiction).
          destruct (proj2 (leading_coeff_nonzero o fk ok den H g Hg) NZ) as [lc [L1 [L2 [L3 L4]]]].
          exists lc. split; [exact L2|]. split; [exact L4|]. left. split; [exact L1|]. split; [exact L3|exact NZ]. }
      destruct Hlc as [lc [Hok [Hnz Hcase]]].
      assert (Elc : poly_leading_coefficient o g = Some (Some lc) \/ (poly_leading_coefficient o g = Some None /\ lc = fone o)).
      { destruct Hcase as [[L _]|[L [L' _]]]; [left; exact L|right; split; assumption]. }
      destruct (fo_inv _ _ _ _ H lc Hok Hnz) as [li [Ei [Hli Dli]]].
      assert (Eres : (match poly_leading_coefficient o g with
                      | None => PdPanic
                      | Some olc => match finv o (match olc with Some c => c | None => fone o end) with
                                    | None => PdPanic
                                    | Some li => PdOk (poly_scalar_mul o g li, poly_scalar_mul o a li, poly_scalar_mul o b li)
                                    end
                      end) = PdOk (poly_scalar_mul o g li, poly_scalar_mul o a li, poly_scalar_mul o b li)).
      { destruct Elc as [L|[L L']]; rewrite L; [rewrite Ei; reflexivity|subst lc; rewrite Ei; reflexivity]. }
      rewrite Eres. clear Eres.
      exists (poly_scalar_mul o g li), (poly_scalar_mul o a li), (poly_scalar_mul o b li).
      split; [reflexivity|].
      split; [apply (scalar_mul_ok o fk ok den H); assumption|].
      split; [apply (scalar_mul_ok o fk ok den H); assumption|].
      split; [apply (scalar_mul_ok o fk ok den H); assumption|].
      rewrite !(scalar_mul_D o fk ok den H) by assumption.
      assert (Hli0 : den li <> 0) by (rewrite Dli; apply kinv_neq_0; exact Hnz).
      split; [rewrite Bz, !(pscale_as_pmul fk); ring|].
      split.
      + intros c. rewrite <- Cd. split.
        * intros Hc. apply (pdvd_peq fk c c (pscale (kinv fk (den li)) (pscale (den li) (D g)))); [reflexivity| |apply pdvd_pscale; exact Hc].
          rewrite pscale_pscale. replace (kinv fk (den li) * den li) with 1 by (field; exact Hli0). apply pscale_1.
        * apply pdvd_pscale.
      + destruct Hcase as [[_ [L2 NZ]]|[_ [_ Z]]].
        * right. rewrite plead_pscale by assumption. rewrite Dli, <- L2. field. exact Hnz.
        * left. apply pzero_pscale. exact Z.
  Qed.
  (* consequences: g divides both inputs; the gcd is zero exactly for two zero inputs *)
  Corollary xgcd_divides x y g a b : okl x -> okl y -> pdiv_xgcd o x y = PdOk (g, a, b) ->
    pdvd (D g) (D x) /\ pdvd (D g) (D y) /\ (pzero (D g) <-> pzero (D x) /\ pzero (D y)).
  Proof.
    intros Hx Hy E. destruct (xgcd_spec x y Hx Hy) as [g' [a' [b' [E' [_ [_ [_ [Bz [Cd _]]]]]]]]].
    rewrite E in E'. inversion E'; subst g' a' b'.
    destruct (proj1 (Cd (D g)) (pdvd_refl fk (D g))) as [G1 G2]. split; [exact G1|]. split; [exact G2|]. split.
    - intros Z. apply peq_nil_pzero in Z. split; apply pdvd_zero_l; [apply (pdvd_peq fk (D g) [] (D x) (D x)) in G1|apply (pdvd_peq fk (D g) [] (D y) (D y)) in G2];
        try assumption; reflexivity.
    - intros [Zx Zy]. apply peq_nil_pzero. rewrite Bz. apply peq_nil_pzero in Zx, Zy. rewrite Zx, Zy, !pmul_nil_r. reflexivity.
  Qed.
End XgcdProofs.

(* ================================================================== 6. formal_power_series_inverse_minimal *)
Section FpsiMinimal.
  Context {F K : Type} (o : fops F) (fk : fieldK K) (ok : F -> Prop) (den : F -> K).
  Hypothesis H : field_ok o fk ok den.
  Local Notation "0" := (k0 fk).
  Local Notation "1" := (k1 fk).
  Local Infix "+" := (kadd fk).
  Local Infix "*" := (kmul fk).
  Local Notation "- x" := (kopp fk x).
  Local Notation D := (map den).
  Local Notation okl := (Forall ok).
  Local Notation peq := (peq fk).
  Local Notation coeff := (coeff fk).
  Local Notation pmul := (pmul fk).
  Local Notation pone := (pone fk).
  Add Field kfield_PolyDivProofs_FpsiMin : (kFT fk).

  Lemma coeff_rev (p : list K) i : (i < length p)%nat -> coeff (rev p) i = coeff p (length p - 1 - i).
  Proof. intros Hi. unfold PolySpec.coeff. rewrite rev_nth by exact Hi. f_equal. lia. Qed.

  Lemma fold_inner_spec b : forall a acc, okl a -> okl b -> ok acc ->
    ok (fold_left (fadd o) (map2 (fmul o) a b) acc) /\
    den (fold_left (fadd o) (map2 (fmul o) a b) acc) =
      den acc + ksum fk (fun t => coeff (D a) t * coeff (D b) t) (length b).
  Proof.
    induction b as [|y b IH]; intros a acc Ha Hb Hacc.
    - assert (E : map2 (fmul o) a [] = []) by (destruct a; reflexivity). rewrite E. cbn [fold_left length ksum].
      split; [exact Hacc|ring].
    - inversion Hb as [|? ? Hy Hb']; subst. destruct a as [|x a].
      + cbn [map2 fold_left map]. split; [exact Hacc|].
        rewrite (ksum_ext fk _ (fun _ => 0)), ksum_0; [ring|]. intros j _. rewrite coeff_nil. ring.
      + inversion Ha as [|? ? Hx Ha']; subst. cbn [map2 fold_left].
        destruct (fo_mul _ _ _ _ H x y Hx Hy) as [M1 M2]. destruct (fo_add _ _ _ _ H acc (fmul o x y) Hacc M1) as [A1 A2].
        destruct (IH a (fadd o acc (fmul o x y)) Ha' Hb' A1) as [I1 I2]. split; [exact I1|].
        rewrite I2, A2, M2. cbn [length map]. rewrite (ksum_S_l fk). rewrite !coeff_cons_0.
        assert (E : ksum fk (fun i => coeff (den x :: D a) (S i) * coeff (den y :: D b) (S i)) (length b)
                    = ksum fk (fun t => coeff (D a) t * coeff (D b) t) (length b)).
        { apply ksum_ext. intros j _. rewrite !coeff_cons_S. reflexivity. }
        rewrite E. ring.
  Qed.
  Lemma inner_product_spec a b : okl a -> okl b ->
    ok (pdiv_inner_product o a b) /\
    den (pdiv_inner_product o a b) = ksum fk (fun t => coeff (D a) t * coeff (D b) t) (length b).
  Proof.
    intros Ha Hb. unfold pdiv_inner_product.
    destruct (fold_inner_spec b a (fzero o) Ha Hb (ok0 o fk ok den H)) as [I1 I2]. split; [exact I1|].
    rewrite I2, (den0 o fk ok den H). ring.
  Qed.

  (* invariant of the loop: after j rounds, g = rev grev has j + 1 coefficients and (f g)_k = [k = 0] for k <= j *)
  Definition fpsi_inv (f0 : K) (fs : list K) (j : nat) (grev : list F) : Prop :=
    okl grev /\ length grev = S j /\
    forall k, (k <= j)%nat -> coeff (pmul (f0 :: fs) (rev (D grev))) k = coeff pone k.
  Lemma fpsi_min_loop_spec c0 cs1 li : ok c0 -> okl cs1 -> ok li -> den c0 <> 0 -> den li = kinv fk (den c0) ->
    forall n j grev, fpsi_inv (den c0) (D cs1) j grev ->
      fpsi_inv (den c0) (D cs1) (n + j) (pdiv_fpsi_min_loop o n cs1 li grev).
  Proof.
    intros Hc0 Hcs Hli Nz Eli. induction n as [|n IH]; intros j grev Inv; [exact Inv|].
    cbn [pdiv_fpsi_min_loop]. replace (S n + j)%nat with (n + S j)%nat by lia. apply IH. clear IH.
    destruct Inv as [Hg [Lg Cg]].
    destruct (inner_product_spec cs1 grev Hcs Hg) as [P1 P2].
    destruct (fo_neg _ _ _ _ H _ P1) as [N1 N2]. destruct (fo_mul _ _ _ _ H _ li N1 Hli) as [M1 M2].
    set (e := fmul o (fneg o (pdiv_inner_product o cs1 grev)) li) in *.
    split; [constructor; assumption|]. split; [cbn [length]; lia|].
    cbn [map rev]. intros k Hk. rewrite coeff_pmul.
    destruct (Nat.eq_dec k (S j)) as [->|Hne].
    - (* the new coefficient: f0 e + <f_1.., g_j..> = 0 *)
      rewrite (ksum_S_l fk). rewrite coeff_cons_0, Nat.sub_0_r.
      rewrite (coeff_snoc fk), rev_length, map_length, Lg, Nat.ltb_irrefl, Nat.eqb_refl.
      assert (E : ksum fk (fun i => coeff (den c0 :: D cs1) (S i) * coeff (rev (D grev) ++ [den e]) (S j - S i)) (S j)
                  = den (pdiv_inner_product o cs1 grev)).
      { rewrite P2, Lg. apply ksum_ext. intros i Hi. rewrite coeff_cons_S. f_equal.
        rewrite (coeff_snoc fk), rev_length, map_length, Lg.
        replace (S j - S i <? S j)%nat with true by (symmetry; apply Nat.ltb_lt; lia).
        rewrite coeff_rev by (rewrite map_length; lia). rewrite map_length, Lg. f_equal. lia. }
      rewrite E. unfold PolySpec.pone. rewrite coeff_cons_S, coeff_nil. rewrite M2, N2, Eli. field. exact Nz.
    - rewrite <- (Cg k ltac:(lia)), coeff_pmul. apply ksum_ext. intros i Hi. f_equal.
      apply coeff_app_l. rewrite rev_length, map_length. lia.
  Qed.

  (* f * g = 1 mod X^(precision + 1), for every precision; exactly precision + 1 coefficients *)
  Theorem fpsi_minimal_spec c0 cs1 n : ok c0 -> okl cs1 -> den c0 <> 0 -> (0 <= n)%Z ->
    exists g, pdiv_fpsi_minimal o (c0 :: cs1) n = Some g /\ okl g /\ length g = S (Z.to_nat n) /\
              pmodx fk (S (Z.to_nat n)) (pmul (D (c0 :: cs1)) (D g)) pone.
  Proof.
    intros Hc0 Hcs Nz Hn. unfold pdiv_fpsi_minimal.
    destruct (fo_inv _ _ _ _ H c0 Hc0 Nz) as [li [Ei [Hli Dli]]]. rewrite Ei.
    assert (Inv0 : fpsi_inv (den c0) (D cs1) 0 [li]).
    { split; [constructor; [exact Hli|constructor]|]. split; [reflexivity|]. intros k Hk. replace k with O by lia.
      cbn [map rev app]. rewrite coeff_pmul. cbn [ksum]. rewrite !coeff_cons_0, Dli. unfold PolySpec.pone. rewrite coeff_cons_0.
      field. exact Nz. }
    pose proof (fpsi_min_loop_spec c0 cs1 li Hc0 Hcs Hli Nz Dli (Z.to_nat n) O [li] Inv0) as [G1 [G2 G3]].
    rewrite Nat.add_0_r in G2, G3.
    exists (rev (pdiv_fpsi_min_loop o (Z.to_nat n) cs1 li [li])). split; [reflexivity|].
    split; [apply Forall_rev; exact G1|]. split; [rewrite rev_length; exact G2|].
    intros i Hi. rewrite map_rev. cbn [map]. apply G3. lia.
  Qed.
  (* it panics exactly when there is no constant coefficient or it is zero *)
  Theorem fpsi_minimal_panics l n : okl l -> (l = [] \/ exists c0 cs1, l = c0 :: cs1 /\ den c0 = 0) ->
    pdiv_fpsi_minimal o l n = None.
  Proof.
    intros Hl [->|[c0 [cs1 [-> Z]]]]; [reflexivity|]. inversion Hl as [|? ? Hc0 _]; subst.
    unfold pdiv_fpsi_minimal. rewrite (fo_inv0 _ _ _ _ H c0 Hc0 Z). reflexivity.
  Qed.
End FpsiMinimal.

(* ================================================================== 7. formal_power_series_inverse_newton
   Proved: the constant case and the rounds BEFORE the switch to the NTT domain (`multiply`-based Newton steps), hence the
   whole function whenever num_rounds <= switch_point.  `multiply` enters through the hypothesis `Hmult`, which is
   exactly the conclusion of PolyCoreProofs.multiply_spec (C07; there under the C06 hypotheses on ntt / intt, with
   B = 2 ^ lmax).  Not proved: the NTT-domain rounds (C09_fpsi_newton_full). *)
Section FpsiNewton.
  Context {F K : Type} (o : fops F) (fk : fieldK K) (ok : F -> Prop) (den : F -> K).
  Hypothesis H : field_ok o fk ok den.
  Variable ntt : list F -> option (list F).
  Variable intt : list F -> option (list F).
  Local Notation "0" := (k0 fk).
  Local Notation "1" := (k1 fk).
  Local Infix "+" := (kadd fk).
  Local Infix "*" := (kmul fk).
  Local Notation D := (map den).
  Local Notation okl := (Forall ok).
  Local Notation peq := (peq fk).
  Local Notation coeff := (coeff fk).
  Local Notation pmul := (pmul fk).
  Local Notation psub := (psub fk).
  Local Notation pscale := (pscale fk).
  Local Notation pone := (pone fk).
  Local Notation pmodx := (pmodx fk).
  Add Field kfield_PolyDivProofs_Newton : (kFT fk).
  (* degree 0: the exact inverse, for every precision *)
  Theorem fpsi_newton_constant l n : okl l -> poly_degree o l = 0%Z ->
    exists g, pdiv_fpsi_newton o ntt intt l n = Some g /\ okl g /\ peq (pmul (D l) (D g)) pone.
  Proof.
    intros Hl Ed. unfold pdiv_fpsi_newton. rewrite Ed. cbn [Z.eqb].
    pose proof (degree_pdeg o fk ok den H l Hl) as Dd. rewrite Ed in Dd.
    destruct (coeff_at_pdeg fk (D l) ltac:(lia)) as [C1 C2]. rewrite <- Dd in C1. change (Z.to_nat 0) with O in C1.
    pose proof (degree_lt_len o l) as Ll. rewrite Ed in Ll.
    destruct (idx_lookup l 0 ltac:(lia)) as [c [I1 I2]]. rewrite I1. change (Z.to_nat 0) with O in I2.
    pose proof (nth_error_ok ok l _ c Hl I2) as Hc.
    assert (Ec : coeff (D l) 0 = den c) by (rewrite (coeff_D fk den); rewrite I2; reflexivity).
    assert (Nz : den c <> 0) by (rewrite <- Ec, C1; exact C2).
    destruct (fo_inv _ _ _ _ H c Hc Nz) as [ci [Ei [Hci Dci]]]. rewrite Ei.
    exists [ci]. split; [reflexivity|]. split; [constructor; [exact Hci|constructor]|].
    apply peq_intro. intros i. cbn [map]. rewrite (peq_elim fk _ _ (pmul_comm fk (D l) [den ci]) i).
    rewrite <- (peq_elim fk _ _ (pscale_as_pmul fk (den ci) (D l)) i), coeff_pscale.
    destruct i as [|i].
    - rewrite Ec, Dci. unfold PolySpec.pone. rewrite coeff_cons_0. field. exact Nz.
    - rewrite (coeff_above_pdeg fk (D l) (S i)) by lia. unfold PolySpec.pone. rewrite coeff_cons_S, coeff_nil. ring.
  Qed.

  Variable B : Z.
  Hypothesis Hmult : forall a b, okl a -> okl b -> (poly_degree o a + poly_degree o b + 1 <= B)%Z ->
    exists r, poly_multiply o ntt intt a b = Some r /\ okl r /\
              (zlen r <= Z.max 0 (poly_degree o a + poly_degree o b + 1))%Z /\ peq (D r) (pmul (D a) (D b)).

  (* bound on the stored length of f after k rounds: (2^k - 1) * deg + 1 *)
  Fixpoint newton_len (sd : Z) (k : nat) : Z :=
    match k with O => 1%Z | S k' => (2 * newton_len sd k' - 1 + sd)%Z end.
  Lemma newton_len_ge1 sd k : (0 <= sd)%Z -> (1 <= newton_len sd k)%Z.
  Proof. intros Hs. induction k; cbn [newton_len]; lia. Qed.
  Lemma newton_len_mono sd k j : (0 <= sd)%Z -> (newton_len sd j <= newton_len sd (k + j))%Z.
  Proof.
    intros Hs. induction k; cbn [Nat.add newton_len]; [lia|]. pose proof (newton_len_ge1 sd (k + j) Hs). lia.
  Qed.
  Lemma sub_length (a b : list F) : length (poly_sub o a b) = Nat.max (length a) (length b).
  Proof.
    revert b. induction a as [|x a IH]; intros [|y b]; cbn [poly_sub length Nat.max]; try reflexivity.
    - rewrite map_length. reflexivity.
    - rewrite IH. reflexivity.
  Qed.

  Lemma newton_std_loop_spec l two sd : okl l -> ok two -> den two = 1 + 1 -> poly_degree o l = sd -> (0 <= sd)%Z ->
    forall k j f m, okl f -> (zlen f <= newton_len sd j)%Z -> (newton_len sd (k + j) <= B)%Z ->
      pmodx m (pmul (D f) (D l)) pone ->
      exists f', pdiv_newton_std_loop o ntt intt k l two f = Some f' /\ okl f' /\
                 (zlen f' <= newton_len sd (k + j))%Z /\ pmodx (m * 2 ^ k) (pmul (D f') (D l)) pone.
  Proof.
    intros Hl Htwo Etwo Esd Hs. induction k as [|k IH]; intros j f m Hf Lf LB Pm.
    - exists f. split; [reflexivity|]. split; [exact Hf|]. split; [exact Lf|]. rewrite Nat.mul_1_r. exact Pm.
    - cbn [pdiv_newton_std_loop].
      pose proof (degree_lt_len o f) as Df. pose proof (newton_len_ge1 sd j Hs) as G1.
      assert (LB1 : (newton_len sd (S j) <= B)%Z).
      { pose proof (newton_len_mono sd k (S j) Hs) as M. replace (k + S j)%nat with (S k + j)%nat in M by lia. lia. }
      cbn [newton_len] in LB1.
      destruct (Hmult f f Hf Hf ltac:(lia)) as [ff [E1 [Hff [Lff Pff]]]]. rewrite E1.
      pose proof (degree_lt_len o ff) as Dff.
      destruct (Hmult ff l Hff Hl ltac:(lia)) as [sub [E2 [Hsub [Lsub Psub]]]]. rewrite E2.
      set (f1 := poly_sub o (poly_scalar_mul_mut o f two) sub).
      assert (Hsm : okl (poly_scalar_mul_mut o f two)) by (apply (scalar_mul_ok o fk ok den H); assumption).
      assert (Hf1 : okl f1) by (apply (sub_ok o fk ok den H); assumption).
      assert (Lf1 : (zlen f1 <= newton_len sd (S j))%Z).
      { unfold f1, zlen. rewrite sub_length. unfold poly_scalar_mul_mut, poly_scalar_mul, poly_scalar_mul_gen.
        rewrite map_length. cbn [newton_len]. unfold zlen in *. lia. }
      assert (Pf1 : pmodx (m + m) (pmul (D f1) (D l)) pone).
      { apply (newton_step fk (D f) (D l) (D f1) (den two) m Pm); [|exact Etwo].
        unfold f1. rewrite (sub_D o fk ok den H) by assumption.
        unfold poly_scalar_mul_mut. rewrite (scalar_mul_D o fk ok den H) by assumption.
        rewrite Psub, Pff. reflexivity. }
      destruct (IH (S j) f1 (m + m)%nat Hf1 Lf1 ltac:(replace (k + S j)%nat with (S k + j)%nat by lia; exact LB) Pf1)
        as [f' [E3 [Hf' [Lf' Pf']]]].
      exists f'. split; [exact E3|]. split; [exact Hf'|].
      replace (S k + j)%nat with (k + S j)%nat by lia. split; [exact Lf'|].
      replace (m * 2 ^ S k)%nat with ((m + m) * 2 ^ k)%nat by (cbn [Nat.pow]; lia). exact Pf'.
  Qed.

  Lemma kofZ_2 : kofZ fk 2 = 1 + 1.
  Proof. change 2%Z with (1 + 1)%Z. rewrite kofZ_add, kofZ_1. reflexivity. Qed.

  (* all Newton rounds before the switch point: f * g = 1 mod X^precision *)
  Theorem fpsi_newton_std_spec c0 cs n : okl (c0 :: cs) -> den c0 <> 0 -> (0 <= n)%Z -> (1 <= poly_degree o (c0 :: cs))%Z ->
    let sd := poly_degree o (c0 :: cs) in
    let nr := Z.log2 (next_pow2 n) in
    let sp := (if FORMAL_POWER_SERIES_INVERSE_CUTOFF <? sd then 0 else Z.log2 (FORMAL_POWER_SERIES_INVERSE_CUTOFF / sd))%Z in
    (nr <= sp)%Z -> (newton_len sd (Z.to_nat nr) <= B)%Z ->
    exists g, pdiv_fpsi_newton o ntt intt (c0 :: cs) n = Some g /\ okl g /\
              pmodx (Z.to_nat n) (pmul (D (c0 :: cs)) (D g)) pone.
  Proof.
    intros Hl Nz Hn Hsd sd nr sp Hrs HB. unfold pdiv_fpsi_newton. fold sd. fold nr.
    destruct (sd =? 0)%Z eqn:E0; [apply Z.eqb_eq in E0; unfold sd in E0; lia|].
    destruct (sd <? 0)%Z eqn:E1; [apply Z.ltb_lt in E1; unfold sd in E1; lia|].
    fold sp. change (idx (c0 :: cs) 0) with (Some c0).
    inversion Hl as [|? ? Hc0 Hcs]; subst.
    destruct (fo_inv _ _ _ _ H c0 Hc0 Nz) as [ci [Ei [Hci Dci]]]. rewrite Ei.
    destruct (fo_from _ _ _ _ H 2%Z ltac:(lia)) as [T1 T2]. rewrite kofZ_2 in T2.
    assert (Hnr : (0 <= nr)%Z) by apply Z.log2_nonneg.
    rewrite Z.min_l by exact Hrs.
    assert (P0 : pmodx 1 (pmul (D [ci]) (D (c0 :: cs))) pone).
    { intros i Hi. replace i with O by lia. cbn [map]. rewrite coeff_pmul. cbn [ksum]. rewrite !coeff_cons_0. unfold PolySpec.pone.
      rewrite coeff_cons_0, Dci. field. exact Nz. }
    destruct (newton_std_loop_spec (c0 :: cs) (ffrom_u64 o 2) sd Hl T1 T2 eq_refl ltac:(unfold sd; lia)
                (Z.to_nat nr) O [ci] 1%nat ltac:(constructor; [exact Hci|constructor]) ltac:(cbn; lia)
                ltac:(rewrite Nat.add_0_r; exact HB) P0) as [f [E [Hf [_ Pf]]]].
    rewrite E. apply Z.leb_le in Hrs. rewrite Hrs. exists f. split; [reflexivity|]. split; [exact Hf|].
    apply (pmodx_peq fk _ (pmul (D f) (D (c0 :: cs))) _ pone pone); [apply pmul_comm|reflexivity|].
    apply (pmodx_le fk (1 * 2 ^ Z.to_nat nr)); [|exact Pf].
    (* 2 ^ num_rounds = next_power_of_two(precision) >= precision *)
    rewrite Nat.mul_1_l. destruct (Z.eq_dec n 0) as [->|Hn0]; [cbn; lia|].
    destruct (next_pow2_spec n ltac:(lia)) as [lg [N1 [N2 _]]].
    assert (Enr : nr = Z.of_nat lg) by (unfold nr; rewrite N1; apply Z.log2_pow2; lia).
    rewrite Enr, Nat2Z.id. apply Nat2Z.inj_le. rewrite Nat2Z.inj_pow. change (Z.of_nat 2) with 2%Z. lia.
  Qed.
End FpsiNewton.

(* the same under the C06 hypotheses on the transforms (as proofs/PolyCoreProofs.v, Section FastSame, does for C07):
   ntt is the DFT at a root `wr l` of order 2^l, intt its inverse, for all lengths 2^l with l <= lmax *)
From TF Require Import Dft NttDft.
Section FpsiNewtonDft.
  Context {F K : Type} (o : fops F) (fk : fieldK K) (ok : F -> Prop) (den : F -> K).
  Hypothesis H : field_ok o fk ok den.
  Variable ntt : list F -> option (list F).
  Variable intt : list F -> option (list F).
  Variable lmax : nat.
  Variable wr : nat -> K.
  Hypothesis ntt_is_dft : forall l x, (l <= lmax)%nat -> length x = (2 ^ l)%nat -> Forall ok x ->
    exists y, ntt x = Some y /\ Forall ok y /\ length y = length x /\ map den y = dft fk (wr l) (map den x).
  Hypothesis intt_is_idft : forall l x, (l <= lmax)%nat -> length x = (2 ^ l)%nat -> Forall ok x ->
    exists y, intt x = Some y /\ Forall ok y /\ length y = length x /\ map den y = idft fk (wr l) (map den x).
  Hypothesis wr_half_root : forall l, (l <= lmax)%nat -> half_root fk (wr l) l.
  Hypothesis wr_nonzero : forall l, (l <= lmax)%nat -> wr l <> k0 fk.
  Hypothesis two_nz : two_neq_0 fk.

  Theorem fpsi_newton_std_dft c0 cs n : Forall ok (c0 :: cs) -> den c0 <> k0 fk -> (0 <= n)%Z -> (1 <= poly_degree o (c0 :: cs))%Z ->
    let sd := poly_degree o (c0 :: cs) in
    let nr := Z.log2 (next_pow2 n) in
    let sp := (if FORMAL_POWER_SERIES_INVERSE_CUTOFF <? sd then 0 else Z.log2 (FORMAL_POWER_SERIES_INVERSE_CUTOFF / sd))%Z in
    (nr <= sp)%Z -> (newton_len sd (Z.to_nat nr) <= 2 ^ Z.of_nat lmax)%Z ->
    exists g, pdiv_fpsi_newton o ntt intt (c0 :: cs) n = Some g /\ Forall ok g /\
              pmodx fk (Z.to_nat n) (pmul fk (map den (c0 :: cs)) (map den g)) (pone fk).
  Proof.
    apply (fpsi_newton_std_spec o fk ok den H ntt intt (2 ^ Z.of_nat lmax)).
    intros a b Ha Hb Hsz.
    exact (multiply_spec o fk ok den H ntt intt lmax wr ntt_is_dft intt_is_idft wr_half_root wr_nonzero two_nz a b Ha Hb Hsz).
  Qed.
End FpsiNewtonDft.

(* ================================================================== 8. structured multiples *)

(* ---- coefficient reversal at K level: krev m p = X^m p(1/X) for deg p <= m *)
Section KRev.
  Context {K : Type} (fk : fieldK K).
  Local Notation "0" := (k0 fk).
  Local Notation "1" := (k1 fk).
  Local Infix "+" := (kadd fk).
  Local Infix "*" := (kmul fk).
  Local Notation peq := (peq fk).
  Local Notation pzero := (pzero fk).
  Local Notation coeff := (coeff fk).
  Local Notation padd := (padd fk).
  Local Notation pmul := (pmul fk).
  Local Notation pscale := (pscale fk).
  Local Notation pshift := (pshift fk).
  Add Field kfield_PolyDivProofs_KRev : (kFT fk).
  Add Ring polyring_PolyDivProofs_KRev : (poly_ring_theory fk) (setoid (peq_Equivalence fk) (poly_ring_ext fk)).

  Definition krev (m : nat) (p : list K) : list K := map (fun i => coeff p (m - i)) (seq 0 (S m)).
  Lemma krev_length m p : length (krev m p) = S m.
  Proof. unfold krev. rewrite map_length, seq_length. reflexivity. Qed.
  Lemma coeff_krev m p i : coeff (krev m p) i = if (i <=? m)%nat then coeff p (m - i) else 0.
  Proof.
    destruct (i <=? m)%nat eqn:E.
    - apply Nat.leb_le in E. unfold krev, PolySpec.coeff at 1.
      rewrite (nth_indep _ 0 (coeff p (m - S m))) by (rewrite map_length, seq_length; lia).
      rewrite (map_nth (fun i => coeff p (m - i)) (seq 0 (S m)) (S m) i), seq_nth by lia. reflexivity.
    - apply Nat.leb_gt in E. apply coeff_overflow. rewrite krev_length. lia.
  Qed.
  Lemma krev_peq m p q : peq p q -> peq (krev m p) (krev m q).
  Proof. intros [E]. apply peq_intro. intros i. rewrite !coeff_krev, E. reflexivity. Qed.
  #[global] Instance krev_Proper m : Proper (peq ==> peq) (krev m).
  Proof. intros p q E. apply krev_peq. exact E. Qed.
  #[global] Instance pshift_Proper n : Proper (peq ==> peq) (pshift n).
  Proof. intros p q E. apply pshift_peq. exact E. Qed.
  Lemma krev_padd m p q : peq (krev m (padd p q)) (padd (krev m p) (krev m q)).
  Proof. apply peq_intro. intros i. rewrite coeff_padd, !coeff_krev, coeff_padd. destruct (i <=? m)%nat; ring. Qed.
  Lemma krev_pscale m c p : peq (krev m (pscale c p)) (pscale c (krev m p)).
  Proof. apply peq_intro. intros i. rewrite coeff_pscale, !coeff_krev, coeff_pscale. destruct (i <=? m)%nat; ring. Qed.
  Lemma krev_pzero m p : pzero p -> pzero (krev m p).
  Proof. intros Z i. rewrite coeff_krev. destruct (i <=? m)%nat; [apply Z|reflexivity]. Qed.
  Lemma krev_shift m k p : (forall i, (m < i)%nat -> coeff p i = 0) -> peq (krev (m + k) p) (pshift k (krev m p)).
  Proof.
    intros Hp. apply peq_intro. intros i. rewrite coeff_pshift, !coeff_krev.
    destruct (i <? k)%nat eqn:E1.
    - apply Nat.ltb_lt in E1. replace (i <=? m + k)%nat with true by (symmetry; apply Nat.leb_le; lia). apply Hp. lia.
    - apply Nat.ltb_ge in E1. destruct (i <=? m + k)%nat eqn:E2.
      + apply Nat.leb_le in E2. replace (i - k <=? m)%nat with true by (symmetry; apply Nat.leb_le; lia). f_equal. lia.
      + apply Nat.leb_gt in E2. replace (i - k <=? m)%nat with false by (symmetry; apply Nat.leb_gt; lia). reflexivity.
  Qed.
  Lemma krev_cons0 m p : peq (krev (S m) (0 :: p)) (krev m p).
  Proof.
    apply peq_intro. intros i. rewrite !coeff_krev. destruct (i <=? m)%nat eqn:E.
    - apply Nat.leb_le in E. replace (i <=? S m)%nat with true by (symmetry; apply Nat.leb_le; lia).
      replace (S m - i)%nat with (S (m - i)) by lia. apply coeff_cons_S.
    - apply Nat.leb_gt in E. destruct (i <=? S m)%nat eqn:E2; [|reflexivity].
      apply Nat.leb_le in E2. replace (S m - i)%nat with O by lia. reflexivity.
  Qed.
  Lemma krev_cons m x p : peq (krev (S m) (x :: p)) (padd (krev m p) (pshift (S m) [x])).
  Proof.
    apply peq_intro. intros i. rewrite coeff_padd, coeff_pshift, !coeff_krev. destruct (i <=? m)%nat eqn:E.
    - apply Nat.leb_le in E. replace (i <=? S m)%nat with true by (symmetry; apply Nat.leb_le; lia).
      replace (i <? S m)%nat with true by (symmetry; apply Nat.ltb_lt; lia).
      replace (S m - i)%nat with (S (m - i)) by lia. rewrite coeff_cons_S. ring.
    - apply Nat.leb_gt in E. destruct (i <=? S m)%nat eqn:E2.
      + apply Nat.leb_le in E2. replace (i <? S m)%nat with false by (symmetry; apply Nat.ltb_ge; lia).
        replace (S m - i)%nat with O by lia. replace (i - S m)%nat with O by lia. rewrite !coeff_cons_0. ring.
      + apply Nat.leb_gt in E2. replace (i <? S m)%nat with false by (symmetry; apply Nat.ltb_ge; lia).
        destruct (i - S m)%nat eqn:E3; [lia|]. rewrite coeff_cons_S, coeff_nil. ring.
  Qed.
  Lemma pscale_pshift c n p : peq (pscale c (pshift n p)) (pshift n (pscale c p)).
  Proof. apply peq_intro. intros i. rewrite coeff_pscale, !coeff_pshift, coeff_pscale. destruct (i <? n)%nat; ring. Qed.
  (* reversal is multiplicative *)
  Lemma krev_pmul p : forall q a b, (forall i, (a < i)%nat -> coeff p i = 0) -> (forall i, (b < i)%nat -> coeff q i = 0) ->
    peq (krev (a + b) (pmul p q)) (pmul (krev a p) (krev b q)).
  Proof.
    induction p as [|x p IH]; intros q a b Hp Hq.
    - cbn [PolySpec.pmul].
      assert (E1 : peq (krev (a + b) []) []) by (apply peq_nil_pzero, krev_pzero; intros i; apply coeff_nil).
      assert (E2 : peq (krev a []) []) by (apply peq_nil_pzero, krev_pzero; intros i; apply coeff_nil).
      rewrite E1, E2. reflexivity.
    - destruct a as [|a].
      + (* p = [x] up to peq *)
        assert (Ep : peq (x :: p) [x]).
        { apply peq_intro. intros [|i]; [reflexivity|]. rewrite (Hp (S i) ltac:(lia)), coeff_cons_S, coeff_nil. reflexivity. }
        rewrite (krev_peq (0 + b) _ _ (pmul_peq fk _ _ _ _ Ep (peq_refl fk q))), (krev_peq 0 _ _ Ep).
        assert (E0 : peq (krev 0 [x]) [x]) by (apply peq_intro; intros [|i]; reflexivity).
        rewrite E0, <- !(pscale_as_pmul fk). apply krev_pscale.
      + assert (Hp' : forall i, (a < i)%nat -> coeff p i = 0) by (intros i Hi; apply (Hp (S i)); lia).
        cbn [PolySpec.pmul]. rewrite krev_padd, krev_pscale.
        replace (S a + b)%nat with (b + S a)%nat at 1 by lia. rewrite (krev_shift b (S a) q Hq).
        change (S a + b)%nat with (S (a + b)). rewrite krev_cons0, (IH q a b Hp' Hq), krev_cons.
        rewrite pscale_pshift, (pmul_padd_distr_r fk), pmul_pshift_const. ring.
  Qed.
  Lemma krev_involutive m p : (forall i, (m < i)%nat -> coeff p i = 0) -> peq (krev m (krev m p)) p.
  Proof.
    intros Hp. apply peq_intro. intros i. rewrite coeff_krev. destruct (i <=? m)%nat eqn:E.
    - apply Nat.leb_le in E. rewrite coeff_krev. replace (m - i <=? m)%nat with true by (symmetry; apply Nat.leb_le; lia).
      f_equal. lia.
    - apply Nat.leb_gt in E. symmetry. apply Hp. exact E.
  Qed.
  (* a list of exactly m + 1 coefficients reversed as a list *)
  Lemma rev_krev m (p : list K) : length p = S m -> peq (rev p) (krev m p).
  Proof.
    intros L. apply peq_intro. intros i. rewrite coeff_krev. destruct (i <=? m)%nat eqn:E.
    - apply Nat.leb_le in E. unfold PolySpec.coeff. rewrite rev_nth by lia. f_equal. lia.
    - apply Nat.leb_gt in E. apply coeff_overflow. rewrite rev_length. lia.
  Qed.
End KRev.

Section StructuredMultiple.
  Context {F K : Type} (o : fops F) (fk : fieldK K) (ok : F -> Prop) (den : F -> K).
  Hypothesis H : field_ok o fk ok den.
  Variable ntt : list F -> option (list F).
  Variable intt : list F -> option (list F).
  Local Notation "0" := (k0 fk).
  Local Notation "1" := (k1 fk).
  Local Infix "*" := (kmul fk).
  Local Notation D := (map den).
  Local Notation okl := (Forall ok).
  Local Notation peq := (peq fk).
  Local Notation pzero := (pzero fk).
  Local Notation coeff := (coeff fk).
  Local Notation pdeg := (pdeg fk).
  Local Notation pdvd := (pdvd fk).
  Add Field kfield_PolyDivProofs_Structured : (kFT fk).

  (* the documented panics: zero polynomial, requested degree below the degree *)
  Theorem structured_multiple_panics l n : (poly_degree o l < 0 \/ n < poly_degree o l)%Z ->
    pdiv_structured_multiple_of_degree o ntt intt l n = None.
  Proof.
    intros Hc. unfold pdiv_structured_multiple_of_degree.
    destruct (poly_degree o l <? 0)%Z eqn:E0; [reflexivity|]. apply Z.ltb_ge in E0.
    destruct Hc as [Hc|Hc]; [lia|]. apply Z.ltb_lt in Hc. rewrite Hc. reflexivity.
  Qed.
  (* a non-zero constant c: the result is c^-1 X^n - a multiple (of anything non-zero constant) of degree exactly n.
     NOTE it is monic only for c = 1, although the doc comment promises "X^n + (something of much smaller degree)" *)
  Theorem structured_multiple_constant l n : okl l -> poly_degree o l = 0%Z -> (0 <= n)%Z ->
    exists r, pdiv_structured_multiple_of_degree o ntt intt l n = Some r /\ okl r /\
              pdvd (D l) (D r) /\ pdeg (D r) = n /\
              forall c0, idx l 0 = Some c0 -> plead fk (D r) = kinv fk (den c0).
  Proof.
    intros Hl Ed Hn. unfold pdiv_structured_multiple_of_degree. rewrite Ed. cbn [Z.ltb Z.compare Z.eqb].
    destruct (n <? 0)%Z eqn:En; [apply Z.ltb_lt in En; lia|].
    pose proof (degree_pdeg o fk ok den H l Hl) as Dd. rewrite Ed in Dd.
    destruct (coeff_at_pdeg fk (D l) ltac:(lia)) as [C1 C2]. rewrite <- Dd in C1. change (Z.to_nat 0) with O in C1.
    pose proof (degree_lt_len o l) as Ll. rewrite Ed in Ll.
    destruct (idx_lookup l 0 ltac:(lia)) as [c [I1 I2]]. rewrite I1. change (Z.to_nat 0) with O in I2.
    pose proof (nth_error_ok ok l _ c Hl I2) as Hc.
    assert (Ec : coeff (D l) 0 = den c) by (rewrite (coeff_D fk den); rewrite I2; reflexivity).
    assert (Nz : den c <> 0) by (rewrite <- Ec, C1; exact C2).
    destruct (fo_inv _ _ _ _ H c Hc Nz) as [ci [Ei [Hci Dci]]]. rewrite Ei.
    exists (zrepeat (fzero o) n ++ [ci]). split; [reflexivity|].
    split; [apply Forall_app; split; [apply Forall_zrepeat; exact (ok0 o fk ok den H)|constructor; [exact Hci|constructor]]|].
    assert (Nci : den ci <> 0) by (rewrite Dci; apply kinv_neq_0; exact Nz).
    assert (En' : pnorm fk (D (zrepeat (fzero o) n ++ [ci])) = D (zrepeat (fzero o) n ++ [ci])).
    { apply pnorm_last_id. rewrite map_app. cbn [map]. rewrite last_last. exact Nci. }
    split; [|split].
    - (* everything is a multiple of a non-zero constant *)
      destruct (is_rem_constant_modulus fk (D (zrepeat (fzero o) n ++ [ci])) (D l) ltac:(lia)) as [[q Eq] _].
      exists q. rewrite Eq. apply padd_0_r.
    - unfold PolySpec.pdeg. rewrite En', map_length, app_length. unfold zrepeat. rewrite repeat_length. cbn [length]. lia.
    - intros c0 Ic0. inversion Ic0; subst c0. unfold PolySpec.plead. rewrite En', map_app. cbn [map].
      rewrite last_last. exact Dci.
  Qed.
  (* ---- degree >= 1.  `multiply` enters through the hypothesis Hmult (= PolyCoreProofs.multiply_spec, C07). *)
  Variable B : Z.
  Hypothesis Hmult : forall a b, okl a -> okl b -> (poly_degree o a + poly_degree o b + 1 <= B)%Z ->
    exists r, poly_multiply o ntt intt a b = Some r /\ okl r /\
              (zlen r <= Z.max 0 (poly_degree o a + poly_degree o b + 1))%Z /\ peq (D r) (PolySpec.pmul fk (D a) (D b)).

  Lemma pnorm_head_of_coeff0 (p : list K) : coeff p 0 = 1 -> exists t, pnorm fk p = 1 :: t.
  Proof.
    intros E. rewrite <- (peq_elim fk _ _ (pnorm_peq fk p) 0%nat) in E. destruct (pnorm fk p) as [|h t].
    - rewrite coeff_nil in E. exfalso. exact (k1_neq_0 fk (eq_sym E)).
    - rewrite coeff_cons_0 in E. subst h. exists t. reflexivity.
  Qed.

  (* a multiple of f, monic, of degree exactly n, of the documented form X^n + (something of degree < deg f) *)
  Theorem structured_multiple_spec l n : okl l -> (1 <= poly_degree o l)%Z -> (poly_degree o l <= n)%Z -> (n + 1 <= B)%Z ->
    exists r, pdiv_structured_multiple_of_degree o ntt intt l n = Some r /\ okl r /\
              pdvd (D l) (D r) /\ pdeg (D r) = n /\ plead fk (D r) = 1 /\
              (forall i, (Z.to_nat (poly_degree o l) <= i < Z.to_nat n)%nat -> coeff (D r) i = 0) /\
              zlen r = (n + 1)%Z.
  Proof.
    intros Hl Hd Hn HB. unfold pdiv_structured_multiple_of_degree.
    pose proof (degree_pdeg o fk ok den H l Hl) as Dd.
    set (d := poly_degree o l) in *.
    destruct (d <? 0)%Z eqn:E0; [apply Z.ltb_lt in E0; lia|]. destruct (n <? d)%Z eqn:E1; [apply Z.ltb_lt in E1; lia|].
    destruct (d =? 0)%Z eqn:E2; [apply Z.eqb_eq in E2; lia|]. clear E0 E1 E2.
    assert (NZ : ~ pzero (D l)) by (apply pdeg_nonneg_iff; lia).
    destruct (proj2 (leading_coeff_nonzero o fk ok den H l Hl) NZ) as [lc [L1 [L2 [L3 L4]]]].
    destruct (rev_normalize_head o l lc L1) as [ds [R1 R2]]. fold d in R2.
    assert (Erev : poly_reverse o l = lc :: ds) by (unfold poly_reverse; rewrite <- (normalize_take o l); exact R1).
    assert (Hrv : okl (lc :: ds)) by (rewrite <- R1; apply Forall_rev; apply (normalize_ok o ok); exact Hl).
    rewrite Erev. inversion Hrv as [|? ? Hlc Hds]; subst.
    destruct (fpsi_minimal_spec o fk ok den H lc ds (n - d) Hlc Hds L4 ltac:(lia)) as [g [G1 [G2 [G3 G4]]]]. rewrite G1.
    set (dn := Z.to_nat d). set (pn := Z.to_nat (n - d)) in *.
    pose proof (degree_lt_len o (lc :: ds)) as B1. pose proof (degree_lt_len o g) as B2.
    assert (Z1 : zlen (lc :: ds) = (d + 1)%Z) by (unfold zlen; cbn [length]; lia).
    assert (Z2 : zlen g = (n - d + 1)%Z) by (unfold zlen; rewrite G3; unfold pn; lia).
    destruct (Hmult (lc :: ds) g Hrv G2 ltac:(lia)) as [PR [E [Hpr [_ Ppr]]]]. rewrite E.
    set (RG := PolySpec.pmul fk (D (lc :: ds)) (D g)) in *.
    (* the reversed product *)
    assert (C0 : coeff RG 0 = 1) by (rewrite (G4 O ltac:(lia)); reflexivity).
    destruct (pnorm_head_of_coeff0 RG C0) as [t Pn].
    pose proof (normalize_ok o ok PR Hpr) as Hnp.
    assert (Dnp : D (poly_normalize o PR) = 1 :: t).
    { rewrite (normalize_pnorm o fk ok den H PR Hpr), (pnorm_unique fk _ _ Ppr). exact Pn. }
    assert (Eprod : poly_reverse o PR = rev (poly_normalize o PR)) by (unfold poly_reverse; rewrite <- (normalize_take o PR); reflexivity).
    rewrite Eprod. set (product := rev (poly_normalize o PR)).
    assert (Hprod : okl product) by (apply Forall_rev; exact Hnp).
    assert (Dprod : D product = rev t ++ [1]) by (unfold product; rewrite map_rev, Dnp; reflexivity).
    assert (Pd : pdeg RG = Z.of_nat (length t)) by (unfold PolySpec.pdeg; rewrite Pn; cbn [length]; lia).
    assert (Nprod : pnorm fk (D product) = D product).
    { apply pnorm_last_id. rewrite Dprod, last_last. exact (k1_neq_0 fk). }
    assert (Edeg : poly_degree o product = pdeg RG).
    { rewrite (degree_pdeg o fk ok den H product Hprod). unfold PolySpec.pdeg at 1. rewrite Nprod, Dprod, app_length, rev_length.
      cbn [length]. lia. }
    (* deg (reverse * inverse) <= n *)
    assert (Ub : (pdeg RG <= n)%Z).
    { assert (X : (pdeg RG < Z.of_nat (S (Z.to_nat n)))%Z); [|lia]. apply pdeg_bound. intros i Hi. apply coeff_pmul_above.
      pose proof (pdeg_le_length fk (D (lc :: ds))) as P1. pose proof (pdeg_le_length fk (D g)) as P2.
      rewrite map_length in P1, P2. rewrite G3 in P2. cbn [length] in P1. unfold pn in P2. lia. }
    rewrite Edeg. destruct ((pdeg RG <? 0) || (n <? pdeg RG))%Z eqn:Ec.
    { apply orb_true_iff in Ec. destruct Ec as [Ec|Ec]; apply Z.ltb_lt in Ec; lia. }
    clear Ec. set (k := Z.to_nat (n - pdeg RG)).
    exists (poly_shift_coefficients o product (n - pdeg RG)). split; [reflexivity|].
    split; [apply (shift_ok o fk ok den H); exact Hprod|].
    assert (Lres : zlen (poly_shift_coefficients o product (n - pdeg RG)) = (n + 1)%Z).
    { unfold poly_shift_coefficients. rewrite zlen_app, zlen_zrepeat. unfold zlen.
      rewrite <- (map_length den product), Dprod, app_length, rev_length. cbn [length]. lia. }
    rewrite (shift_D o fk ok den H). fold k. rewrite Dprod.
    (* the polynomial identity: X^k rev(P) = krev n RG = f * krev (n - d) g *)
    assert (Epoly : peq (PolySpec.pshift fk k (rev t ++ [1])) (krev fk (Z.to_nat n) RG)).
    { replace (Z.to_nat n) with (length t + k)%nat by (unfold k; lia).
      rewrite (krev_shift fk (length t) k RG) by (intros i Hi; apply coeff_above_pdeg; lia).
      apply pshift_peq. change (rev t ++ [1]) with (rev (1 :: t)). rewrite <- Pn.
      rewrite (rev_krev fk (length t)) by (rewrite Pn; reflexivity). apply krev_peq. apply pnorm_peq. }
    assert (Efac : peq (krev fk (Z.to_nat n) RG) (PolySpec.pmul fk (D l) (krev fk pn (D g)))).
    { replace (Z.to_nat n) with (dn + pn)%nat by (unfold dn, pn; lia). unfold RG.
      rewrite (krev_pmul fk (D (lc :: ds)) (D g) dn pn).
      - apply pmul_peq; [|reflexivity].
        (* reverse = krev dn f, and krev is an involution *)
        rewrite <- R1, map_rev, (normalize_pnorm o fk ok den H l Hl).
        rewrite (rev_krev fk dn) by (unfold PolySpec.pdeg in Dd; unfold dn; lia).
        rewrite (krev_peq fk dn _ _ (pnorm_peq fk (D l))). apply krev_involutive.
        intros i Hi. apply coeff_above_pdeg. unfold dn in Hi. lia.
      - intros i Hi. apply coeff_overflow. rewrite map_length. cbn [length]. unfold dn in Hi. lia.
      - intros i Hi. apply coeff_overflow. rewrite map_length, G3. lia. }
    split; [exists (krev fk pn (D g)); rewrite Epoly, Efac; apply pmul_comm|].
    assert (Nres : pnorm fk (PolySpec.pshift fk k (rev t ++ [1])) = PolySpec.pshift fk k (rev t ++ [1])).
    { apply pnorm_last_id. unfold PolySpec.pshift. rewrite app_assoc, last_last. exact (k1_neq_0 fk). }
    split; [|split; [|split; [|exact Lres]]].
    - unfold PolySpec.pdeg. rewrite Nres. unfold PolySpec.pshift. rewrite !app_length, repeat_length, rev_length. cbn [length]. unfold k. lia.
    - unfold PolySpec.plead. rewrite Nres. unfold PolySpec.pshift. rewrite app_assoc, last_last. reflexivity.
    - intros i Hi. rewrite (peq_elim fk _ _ Epoly i), coeff_krev.
      replace (i <=? Z.to_nat n)%nat with true by (symmetry; apply Nat.leb_le; lia).
      rewrite (G4 (Z.to_nat n - i)%nat) by (unfold pn; fold d in Hi; lia).
      destruct (Z.to_nat n - i)%nat eqn:E3; [fold d in Hi; lia|]. unfold PolySpec.pone. rewrite coeff_cons_S. apply coeff_nil.
  Qed.
End StructuredMultiple.

Section StructuredMultipleDft.
  Context {F K : Type} (o : fops F) (fk : fieldK K) (ok : F -> Prop) (den : F -> K).
  Hypothesis H : field_ok o fk ok den.
  Variable ntt : list F -> option (list F).
  Variable intt : list F -> option (list F).
  Variable lmax : nat.
  Variable wr : nat -> K.
  Hypothesis ntt_is_dft : forall l x, (l <= lmax)%nat -> length x = (2 ^ l)%nat -> Forall ok x ->
    exists y, ntt x = Some y /\ Forall ok y /\ length y = length x /\ map den y = dft fk (wr l) (map den x).
  Hypothesis intt_is_idft : forall l x, (l <= lmax)%nat -> length x = (2 ^ l)%nat -> Forall ok x ->
    exists y, intt x = Some y /\ Forall ok y /\ length y = length x /\ map den y = idft fk (wr l) (map den x).
  Hypothesis wr_half_root : forall l, (l <= lmax)%nat -> half_root fk (wr l) l.
  Hypothesis wr_nonzero : forall l, (l <= lmax)%nat -> wr l <> k0 fk.
  Hypothesis two_nz : two_neq_0 fk.

  Theorem structured_multiple_dft l n : Forall ok l -> (1 <= poly_degree o l)%Z -> (poly_degree o l <= n)%Z ->
    (n + 1 <= 2 ^ Z.of_nat lmax)%Z ->
    exists r, pdiv_structured_multiple_of_degree o ntt intt l n = Some r /\ Forall ok r /\
              pdvd fk (map den l) (map den r) /\ pdeg fk (map den r) = n /\ plead fk (map den r) = k1 fk /\
              (forall i, (Z.to_nat (poly_degree o l) <= i < Z.to_nat n)%nat -> coeff fk (map den r) i = k0 fk) /\
              zlen r = (n + 1)%Z.
  Proof.
    apply (structured_multiple_spec o fk ok den H ntt intt (2 ^ Z.of_nat lmax)).
    intros a b Ha Hb Hsz.
    exact (multiply_spec o fk ok den H ntt intt lmax wr ntt_is_dft intt_is_idft wr_half_root wr_nonzero two_nz a b Ha Hb Hsz).
  Qed.
  (* fn structured_multiple: degree 3 * deg + 1 *)
  Corollary structured_multiple_3n1_dft l : Forall ok l -> (1 <= poly_degree o l)%Z ->
    (3 * poly_degree o l + 2 <= 2 ^ Z.of_nat lmax)%Z ->
    exists r, pdiv_structured_multiple o ntt intt l = Some r /\ Forall ok r /\
              pdvd fk (map den l) (map den r) /\ pdeg fk (map den r) = (3 * poly_degree o l + 1)%Z /\ plead fk (map den r) = k1 fk.
  Proof.
    intros Hl Hd Hb. unfold pdiv_structured_multiple.
    destruct (poly_degree o l <? 0)%Z eqn:E; [apply Z.ltb_lt in E; lia|].
    destruct (structured_multiple_dft l (3 * poly_degree o l + 1) Hl Hd ltac:(lia) ltac:(lia)) as [r [R1 [R2 [R3 [R4 [R5 _]]]]]].
    exists r. split; [exact R1|]. split; [exact R2|]. split; [exact R3|]. split; [exact R4|exact R5].
  Qed.
End StructuredMultipleDft.

(* ================================================================== 9. reduce_by_structured_modulus
   The chunk-wise reduction by a monic multiple M = X^wl + S (deg S < wl - 1 ... the "tail") preserves the residue class
   modulo M: the result is congruent to the input and has at most wl stored coefficients.  `multiply` enters through Hmult. *)
Section StructuredReduceK.
  Context {K : Type} (fk : fieldK K).
  Local Notation "0" := (k0 fk).
  Local Notation "1" := (k1 fk).
  Local Infix "+" := (kadd fk).
  Local Notation peq := (peq fk).
  Local Notation coeff := (coeff fk).
  Local Notation padd := (padd fk).
  Local Notation psub := (psub fk).
  Local Notation pmul := (pmul fk).
  Local Notation pshift := (pshift fk).
  Local Notation pXn := (pXn fk).
  Add Field kfield_PolyDivProofs_SRK : (kFT fk).
  Add Ring polyring_PolyDivProofs_SRK : (poly_ring_theory fk) (setoid (peq_Equivalence fk) (poly_ring_ext fk)).

  Lemma app_padd_pshift (u v : list K) : peq (u ++ v) (padd u (pshift (length u) v)).
  Proof.
    apply peq_intro. intros i. rewrite coeff_padd, coeff_pshift. destruct (i <? length u)%nat eqn:E.
    - apply Nat.ltb_lt in E. rewrite coeff_app_l by exact E. ring.
    - apply Nat.ltb_ge in E. rewrite coeff_app_r by exact E. rewrite (coeff_overflow fk u i) by exact E. ring.
  Qed.
  Lemma pXn_add a b : peq (pXn (a + b)) (pmul (pXn a) (pXn b)).
  Proof.
    rewrite <- (pshift_pmul fk a (pXn b)). unfold PolySpec.pshift, PolySpec.pXn. rewrite repeat_app, app_assoc. reflexivity.
  Qed.
  (* one step of the window:  T ++ C ++ L ++ O  =  X^ws O (S + X^(cs+tail))  +  T ++ ((C ++ L) - O S) *)
  Lemma structured_step (T C L O S W' : list K) ws cs tail :
    length T = ws -> length C = cs -> length L = tail ->
    peq W' (psub (C ++ L) (pmul O S)) ->
    peq (T ++ C ++ L ++ O)
        (padd (pmul (pmul (pXn ws) O) (padd S (pXn (cs + tail)))) (padd T (pshift ws W'))).
  Proof.
    intros LT LC LL EW. rewrite EW.
    rewrite (app_padd_pshift T), (app_padd_pshift C), (app_padd_pshift L), (app_padd_pshift C L), LT, LC, LL.
    rewrite !(pshift_pmul fk), pXn_add. ring.
  Qed.
End StructuredReduceK.

Section StructuredReduceHelpers.
  Context {F K : Type} (o : fops F) (fk : fieldK K) (ok : F -> Prop) (den : F -> K).
  Hypothesis H : field_ok o fk ok den.
  Local Notation "0" := (k0 fk).
  Local Notation D := (map den).
  Local Notation okl := (Forall ok).
  Local Notation peq := (peq fk).
  Local Notation psub := (psub fk).
  Add Field kfield_PolyDivProofs_SRH : (kFT fk).

  Lemma zlen_drop {A} n (l : list A) : (0 <= n)%Z -> zlen (drop n l) = Z.max 0 (zlen l - n).
  Proof. intros Hn. unfold zlen, drop. rewrite skipn_length. lia. Qed.
  Lemma take_drop_id {A} n (l : list A) : take n l ++ drop n l = l.
  Proof. unfold take, drop. apply firstn_skipn. Qed.
  Lemma firstn_add_skipn {A} n m (l : list A) : firstn (n + m) l = firstn n l ++ firstn m (skipn n l).
  Proof.
    revert l. induction n as [|n IH]; intros l; [reflexivity|]. destruct l as [|x l]; [cbn; rewrite firstn_nil; reflexivity|].
    cbn [Nat.add firstn skipn app]. f_equal. apply IH.
  Qed.
  Lemma take_add {A} n m (l : list A) : (0 <= n)%Z -> (0 <= m)%Z -> take (n + m) l = take n l ++ take m (drop n l).
  Proof. intros Hn Hm. unfold take, drop. rewrite Z2Nat.inj_add by lia. apply firstn_add_skipn. Qed.

  (* ww - product, the product padded with zeros to the window length *)
  Lemma map2_sub_pad ww : forall p, okl ww -> okl p -> (length p <= length ww)%nat ->
    okl (map2 (fsub o) ww (p ++ repeat (fzero o) (length ww - length p))) /\
    length (map2 (fsub o) ww (p ++ repeat (fzero o) (length ww - length p))) = length ww /\
    peq (D (map2 (fsub o) ww (p ++ repeat (fzero o) (length ww - length p)))) (psub (D ww) (D p)).
  Proof.
    induction ww as [|w ww IH]; intros p Hw Hp Hl.
    - destruct p; [|cbn in Hl; lia]. cbn. split; [constructor|]. split; [reflexivity|]. reflexivity.
    - inversion Hw as [|? ? Hw0 Hw']; subst. destruct p as [|y p].
      + cbn [app length Nat.sub repeat map2]. destruct (IH [] Hw' (Forall_nil _) ltac:(cbn; lia)) as [I1 [I2 I3]].
        cbn [app length] in I1, I2, I3. rewrite Nat.sub_0_r in I1, I2, I3.
        destruct (fo_sub _ _ _ _ H w (fzero o) Hw0 (ok0 o fk ok den H)) as [S1 S2].
        split; [constructor; assumption|]. split; [cbn [length]; rewrite I2; reflexivity|].
        cbn [map]. apply peq_intro. intros [|i].
        * rewrite coeff_psub, !coeff_cons_0, coeff_nil, S2, (den0 o fk ok den H). reflexivity.
        * rewrite coeff_psub, !coeff_cons_S, coeff_nil, (peq_elim fk _ _ I3 i), coeff_psub. cbn [map]. rewrite coeff_nil. reflexivity.
      + inversion Hp as [|? ? Hy Hp']; subst. cbn [length] in Hl. cbn [app length Nat.sub map2].
        destruct (IH p Hw' Hp' ltac:(lia)) as [I1 [I2 I3]].
        destruct (fo_sub _ _ _ _ H w y Hw0 Hy) as [S1 S2].
        split; [constructor; assumption|]. split; [cbn [length]; rewrite I2; reflexivity|].
        cbn [map]. apply peq_intro. intros [|i].
        * rewrite coeff_psub, !coeff_cons_0, S2. reflexivity.
        * rewrite coeff_psub, !coeff_cons_S, (peq_elim fk _ _ I3 i), coeff_psub. reflexivity.
  Qed.
  Lemma resize_pad (p : list F) n : (zlen p <= n)%Z -> resize p n (fzero o) = p ++ repeat (fzero o) (Z.to_nat n - length p).
  Proof.
    intros Hl. unfold resize. rewrite (take_all n p Hl). unfold zrepeat, zlen in *. f_equal. f_equal. lia.
  Qed.

End StructuredReduceHelpers.

Section StructuredReduce.
  Context {F K : Type} (o : fops F) (fk : fieldK K) (ok : F -> Prop) (den : F -> K).
  Hypothesis H : field_ok o fk ok den.
  Variable ntt : list F -> option (list F).
  Variable intt : list F -> option (list F).
  Local Notation "0" := (k0 fk).
  Local Notation "1" := (k1 fk).
  Local Notation D := (map den).
  Local Notation okl := (Forall ok).
  Local Notation peq := (peq fk).
  Local Notation coeff := (coeff fk).
  Local Notation padd := (padd fk).
  Local Notation psub := (psub fk).
  Local Notation pmul := (pmul fk).
  Local Notation pshift := (pshift fk).
  Local Notation pXn := (pXn fk).
  Local Notation pdeg := (pdeg fk).
  Add Field kfield_PolyDivProofs_SR : (kFT fk).
  Add Ring polyring_PolyDivProofs_SR : (poly_ring_theory fk) (setoid (peq_Equivalence fk) (poly_ring_ext fk)).

  Variable B : Z.
  Hypothesis Hmult : forall a b, okl a -> okl b -> (poly_degree o a + poly_degree o b + 1 <= B)%Z ->
    exists r, poly_multiply o ntt intt a b = Some r /\ okl r /\
              (zlen r <= Z.max 0 (poly_degree o a + poly_degree o b + 1))%Z /\ peq (D r) (pmul (D a) (D b)).

  (* the loop: invariant  a = k M + (take wstart a ++ ww)  with |ww| = cs + tail, wstart = j cs *)
  Lemma structured_loop_spec a shift cs tail : okl a -> okl shift -> (0 < cs)%Z -> (0 <= tail)%Z ->
    (poly_degree o shift < tail)%Z -> (cs + tail <= B)%Z ->
    forall j wstart ww k, okl ww -> zlen ww = (cs + tail)%Z -> wstart = (Z.of_nat j * cs)%Z -> (wstart <= zlen a)%Z ->
      peq (D a) (padd (pmul k (padd (D shift) (pXn (Z.to_nat (cs + tail))))) (D (take wstart a ++ ww))) ->
      exists r k', pdiv_structured_loop o ntt intt j a shift cs tail wstart ww = Some r /\ okl r /\
                   zlen r = (cs + tail)%Z /\
                   peq (D a) (padd (pmul k' (padd (D shift) (pXn (Z.to_nat (cs + tail))))) (D r)).
  Proof.
    intros Ha Hs Hcs Htl Hsd HB. induction j as [|j IH]; intros wstart ww k Hww Lww Ews Lws Inv.
    - exists ww, k. split; [reflexivity|]. split; [exact Hww|]. split; [exact Lww|].
      subst wstart. cbn in Inv. exact Inv.
    - cbn [pdiv_structured_loop].
      destruct (zlen ww <? tail)%Z eqn:E0; [apply Z.ltb_lt in E0; lia|]. clear E0.
      assert (Hov : okl (drop tail ww)) by (unfold drop; apply Forall_skipn; exact Hww).
      assert (Lov : zlen (drop tail ww) = cs) by (rewrite zlen_drop by lia; lia).
      pose proof (degree_lt_len o (drop tail ww)) as Dov.
      destruct (Hmult (drop tail ww) shift Hov Hs ltac:(lia)) as [product [E1 [Hpr [Lpr Ppr]]]]. rewrite E1.
      set (ws := (wstart - cs)%Z).
      assert (Ews' : ws = (Z.of_nat j * cs)%Z) by (unfold ws; lia).
      destruct (ws <? 0)%Z eqn:E2; [apply Z.ltb_lt in E2; lia|]. clear E2.
      set (chunk := take cs (drop ws a)).
      assert (Lch : zlen chunk = cs).
      { unfold chunk. rewrite zlen_take, zlen_drop by lia. lia. }
      rewrite Lch, Z.eqb_refl. cbn [negb].
      assert (Hch : okl chunk) by (unfold chunk; apply Forall_take; unfold drop; apply Forall_skipn; exact Ha).
      assert (Hlow : okl (take tail ww)) by (apply Forall_take; exact Hww).
      assert (Llow : zlen (take tail ww) = tail) by (rewrite zlen_take; lia).
      set (ww1 := chunk ++ take tail ww).
      assert (Hww1 : okl ww1) by (apply Forall_app; split; assumption).
      assert (Lww1 : zlen ww1 = (cs + tail)%Z) by (unfold ww1; rewrite zlen_app; lia).
      assert (Lp : (zlen product <= zlen ww1)%Z) by lia.
      rewrite (resize_pad o product (zlen ww1) Lp).
      replace (Z.to_nat (zlen ww1) - length product)%nat with (length ww1 - length product)%nat by (unfold zlen; lia).
      destruct (map2_sub_pad o fk ok den H ww1 product Hww1 Hpr ltac:(unfold zlen in Lp; lia)) as [M1 [M2 M3]].
      set (ww' := map2 (fsub o) ww1 (product ++ repeat (fzero o) (length ww1 - length product))) in *.
      apply (IH ws ww' (padd k (pmul (pXn (Z.to_nat ws)) (D (drop tail ww)))) M1).
      + unfold zlen in *. lia.
      + exact Ews'.
      + lia.
      + (* the invariant *)
        rewrite Inv.
        assert (Esplit : take wstart a ++ ww = take ws a ++ chunk ++ take tail ww ++ drop tail ww).
        { replace wstart with (ws + cs)%Z by (unfold ws; lia). rewrite (take_add ws cs a) by lia. fold chunk.
          rewrite <- app_assoc. rewrite (take_drop_id tail ww). reflexivity. }
        rewrite Esplit, !map_app.
        assert (LT : length (D (take ws a)) = Z.to_nat ws).
        { rewrite map_length. pose proof (zlen_take ws a) as X. unfold zlen in *. lia. }
        rewrite (structured_step fk (D (take ws a)) (D chunk) (D (take tail ww)) (D (drop tail ww)) (D shift) (D ww')
                   (Z.to_nat ws) (Z.to_nat cs) (Z.to_nat tail) LT
                   ltac:(rewrite map_length; unfold zlen in Lch; lia) ltac:(rewrite map_length; unfold zlen in Llow; lia)).
        * rewrite (app_padd_pshift fk (D (take ws a)) (D ww')), LT.
          replace (Z.to_nat (cs + tail)) with (Z.to_nat cs + Z.to_nat tail)%nat by lia. ring.
        * rewrite M3. unfold ww1. rewrite map_app, Ppr. reflexivity.
  Qed.

  (* reduce_by_structured_modulus: no panic for a monic multiple whose lower part leaves a non-empty chunk; the result is
     congruent to the input modulo the multiple and has at most deg(multiple) stored coefficients (or is the input) *)
  Theorem reduce_by_structured_modulus_spec a mult : okl a -> okl mult -> (1 <= poly_degree o mult)%Z ->
    plead fk (D mult) = 1 -> (poly_degree o mult <= B)%Z ->
    (poly_degree o (poly_sub o mult (poly_x_to_the o (poly_degree o mult))) + 1 < poly_degree o mult)%Z ->
    exists r, pdiv_reduce_by_structured_modulus o ntt intt a mult = Some r /\ okl r /\
              (zlen r <= Z.max (zlen a) (poly_degree o mult))%Z /\ (poly_degree o mult <= zlen a -> zlen r = poly_degree o mult)%Z /\
              exists k, peq (D a) (padd (pmul k (D mult)) (D r)).
  Proof.
    intros Ha Hm Hmd Hmonic HB Htail. unfold pdiv_reduce_by_structured_modulus.
    set (md := poly_degree o mult) in *.
    destruct (md <=? 0)%Z eqn:E0; [apply Z.leb_le in E0; lia|]. clear E0.
    pose proof (degree_pdeg o fk ok den H mult Hm) as Dm. fold md in Dm.
    assert (NZ : ~ PolySpec.pzero fk (D mult)) by (apply pdeg_nonneg_iff; lia).
    destruct (proj2 (leading_coeff_nonzero o fk ok den H mult Hm) NZ) as [lc [L1 [L2 [L3 L4]]]]. rewrite L1.
    assert (Elc : feqb o lc (fone o) = true).
    { apply (fo_eqb _ _ _ _ H lc (fone o) L2 (ok1 o fk ok den H)). rewrite L3, Hmonic, (den1 o fk ok den H). reflexivity. }
    rewrite Elc. cbn [negb].
    set (shift := poly_sub o mult (poly_x_to_the o md)) in *.
    assert (Hxn : okl (poly_x_to_the o md)).
    { unfold poly_x_to_the. apply Forall_app. split; [apply Forall_zrepeat; exact (ok0 o fk ok den H)|constructor; [exact (ok1 o fk ok den H)|constructor]]. }
    assert (Hsh : okl shift) by (apply (sub_ok o fk ok den H); assumption).
    assert (Dsh : D shift = psub (D mult) (pXn (Z.to_nat md))).
    { unfold shift. rewrite (sub_D o fk ok den H) by assumption. rewrite (x_to_the_D o fk ok den H). reflexivity. }
    set (sd := poly_degree o shift) in *.
    destruct (sd <? md)%Z eqn:E1; [|apply Z.ltb_ge in E1; lia]. cbn [negb]. clear E1.
    pose proof (degree_ge o shift) as Gsd. fold sd in Gsd.
    set (tail := (if sd <? 0 then 0 else sd + 1)%Z).
    assert (Etail : tail = (sd + 1)%Z) by (unfold tail; destruct (sd <? 0)%Z eqn:E; [apply Z.ltb_lt in E; lia|reflexivity]).
    set (cs := (md - tail)%Z).
    destruct (zlen a <? md)%Z eqn:E2.
    - apply Z.ltb_lt in E2. exists a. split; [reflexivity|]. split; [exact Ha|]. split; [lia|]. split; [lia|].
      exists []. cbn [PolySpec.pmul PolySpec.padd]. reflexivity.
    - apply Z.ltb_ge in E2. destruct (cs =? 0)%Z eqn:E3; [apply Z.eqb_eq in E3; unfold cs in E3; lia|]. clear E3.
      set (num := ((zlen a - md + cs - 1) / cs)%Z).
      assert (Hcs : (0 < cs)%Z) by (unfold cs; lia).
      assert (Hnum : (0 <= num /\ zlen a - md <= num * cs /\ num * cs <= zlen a - md + cs - 1)%Z).
      { unfold num. pose proof (Z.div_mod (zlen a - md + cs - 1) cs ltac:(lia)) as DM.
        pose proof (Z.mod_pos_bound (zlen a - md + cs - 1) cs Hcs) as MB.
        assert (0 <= (zlen a - md + cs - 1) / cs)%Z by (apply Z.div_pos; lia). nia. }
      destruct Hnum as [N0 [N1 N2]].
      destruct (zlen a <? num * cs)%Z eqn:E4; [apply Z.ltb_lt in E4; unfold cs in *; lia|]. clear E4.
      assert (Hd : okl (drop (num * cs) a)) by (unfold drop; apply Forall_skipn; exact Ha).
      assert (Ld : (zlen (drop (num * cs) a) <= md)%Z) by (rewrite zlen_drop by lia; lia).
      assert (Emd : md = (cs + tail)%Z) by (unfold cs; lia).
      destruct (structured_loop_spec a shift cs tail Ha Hsh Hcs ltac:(lia) ltac:(fold sd; lia) ltac:(lia)
                  (Z.to_nat num) (num * cs)%Z (resize (drop (num * cs) a) md (fzero o)) [])
        as [r [k' [R1 [R2 [R3 R4]]]]].
      + rewrite (resize_pad o _ md Ld). apply Forall_app. split; [exact Hd|]. apply Forall_forall. intros x Hx.
        apply repeat_spec in Hx. subst x. exact (ok0 o fk ok den H).
      + rewrite (resize_pad o _ md Ld), zlen_app. unfold zlen at 2. rewrite repeat_length. unfold zlen in *. lia.
      + rewrite Z2Nat.id by lia. reflexivity.
      + lia.
      + cbn [PolySpec.pmul PolySpec.padd]. rewrite (resize_pad o _ md Ld), app_assoc, (take_drop_id (num * cs) a).
        symmetry. apply (peq_D_app_zeros o fk ok den H).
      + exists r. split; [exact R1|]. split; [exact R2|]. split; [lia|]. split; [intros _; lia|].
        exists k'. rewrite R4. apply padd_peq; [|reflexivity]. apply pmul_peq; [reflexivity|].
        rewrite Dsh, <- Emd. ring.
  Qed.
End StructuredReduce.

(* ================================================================== 10. the NTT-friendly stage, shift_factor_ntt_with_tail_length, fast_reduce
   Under the C06 hypotheses on ntt / intt (as Section FastSame of proofs/PolyCoreProofs.v). *)
Section FastReduce.
  Context {F K : Type} (o : fops F) (fk : fieldK K) (ok : F -> Prop) (den : F -> K).
  Hypothesis H : field_ok o fk ok den.
  Variable ntt : list F -> option (list F).
  Variable intt : list F -> option (list F).
  Variable lmax : nat.
  Variable wr : nat -> K.
  Hypothesis ntt_is_dft : forall l x, (l <= lmax)%nat -> length x = (2 ^ l)%nat -> Forall ok x ->
    exists y, ntt x = Some y /\ Forall ok y /\ length y = length x /\ map den y = dft fk (wr l) (map den x).
  Hypothesis intt_is_idft : forall l x, (l <= lmax)%nat -> length x = (2 ^ l)%nat -> Forall ok x ->
    exists y, intt x = Some y /\ Forall ok y /\ length y = length x /\ map den y = idft fk (wr l) (map den x).
  Hypothesis wr_half_root : forall l, (l <= lmax)%nat -> half_root fk (wr l) l.
  Hypothesis wr_nonzero : forall l, (l <= lmax)%nat -> wr l <> k0 fk.
  Hypothesis two_nz : two_neq_0 fk.
  Local Notation "0" := (k0 fk).
  Local Notation "1" := (k1 fk).
  Local Notation D := (map den).
  Local Notation okl := (Forall ok).
  Local Notation peq := (peq fk).
  Local Notation pzero := (pzero fk).
  Local Notation coeff := (coeff fk).
  Local Notation padd := (padd fk).
  Local Notation psub := (psub fk).
  Local Notation pmul := (pmul fk).
  Local Notation pshift := (pshift fk).
  Local Notation pXn := (pXn fk).
  Local Notation pdeg := (pdeg fk).
  Local Notation pdvd := (pdvd fk).
  Add Field kfield_PolyDivProofs_FR : (kFT fk).
  Add Ring polyring_PolyDivProofs_FR : (poly_ring_theory fk) (setoid (peq_Equivalence fk) (poly_ring_ext fk)).

  Lemma Hmult_dft : forall a b, okl a -> okl b -> (poly_degree o a + poly_degree o b + 1 <= 2 ^ Z.of_nat lmax)%Z ->
    exists r, poly_multiply o ntt intt a b = Some r /\ okl r /\
              (zlen r <= Z.max 0 (poly_degree o a + poly_degree o b + 1))%Z /\ peq (D r) (pmul (D a) (D b)).
  Proof.
    intros a b Ha Hb Hsz.
    exact (multiply_spec o fk ok den H ntt intt lmax wr ntt_is_dft intt_is_idft wr_half_root wr_nonzero two_nz a b Ha Hb Hsz).
  Qed.

  Lemma map2_mul_D la : forall lb, okl la -> okl lb ->
    okl (map2 (fmul o) la lb) /\ D (map2 (fmul o) la lb) = map2 (kmul fk) (D la) (D lb).
  Proof.
    induction la as [|x la IH]; intros [|y lb] Ha Hb; cbn [map2 map]; try (split; [constructor|reflexivity]).
    inversion Ha; inversion Hb; subst. destruct (IH lb ltac:(assumption) ltac:(assumption)) as [I1 I2].
    destruct (fo_mul _ _ _ _ H x y ltac:(assumption) ltac:(assumption)) as [M1 M2].
    split; [constructor; assumption|]. rewrite I2, M2. reflexivity.
  Qed.

  (* pointwise product with a precomputed transform = product of the polynomials, when it fits into the domain *)
  Lemma ntt_product_spec l X Sp shift_ntt : (l <= lmax)%nat -> okl X -> okl Sp ->
    length X = (2 ^ l)%nat -> length Sp = (2 ^ l)%nat -> ntt Sp = Some shift_ntt ->
    (forall i, (2 ^ l <= i)%nat -> coeff (pmul (D X) (D Sp)) i = 0) ->
    exists p1 product, ntt X = Some p1 /\ intt (map2 (fmul o) p1 shift_ntt) = Some product /\ okl product /\
                       length product = (2 ^ l)%nat /\ peq (D product) (pmul (D X) (D Sp)).
  Proof.
    intros Hl HX HS LX LS ES Hfit.
    destruct (ntt_is_dft l X Hl LX HX) as [p1 [P1 [P2 [P3 P4]]]].
    destruct (ntt_is_dft l Sp Hl LS HS) as [y [Y1 [Y2 [Y3 Y4]]]]. rewrite ES in Y1. inversion Y1; subst y. clear Y1.
    destruct (map2_mul_D p1 shift_ntt P2 Y2) as [M1 M2].
    assert (Hh : D (map2 (fmul o) p1 shift_ntt) = dft fk (wr l) (ptrunc fk (2 ^ l) (pmul (D X) (D Sp)))).
    { rewrite M2, P4, Y4. apply dft_hadamard; [rewrite map_length; exact LX|rewrite map_length; exact LS|exact Hfit]. }
    assert (Lh : length (map2 (fmul o) p1 shift_ntt) = (2 ^ l)%nat).
    { apply (f_equal (@length K)) in Hh. rewrite map_length, dft_length, ptrunc_length in Hh. exact Hh. }
    destruct (intt_is_idft l _ Hl Lh M1) as [h [I1 [I2 [I3 I4]]]].
    rewrite Hh, (idft_dft fk two_nz l (wr l) _ (ptrunc_length fk _ _) (wr_half_root l Hl) (wr_nonzero l Hl)) in I4.
    exists p1, h. split; [exact P1|]. split; [exact I1|]. split; [exact I2|]. split; [rewrite I3; exact Lh|].
    rewrite I4. apply ptrunc_peq. apply pdeg_bound. exact Hfit.
  Qed.

  (* the loop of reduce_by_ntt_friendly_modulus: the same invariant as the structured loop *)
  Lemma ntt_friendly_loop_spec a Sp shift_ntt cs tail l : (l <= lmax)%nat -> okl a -> okl Sp ->
    zlen Sp = (cs + tail)%Z -> (cs + tail)%Z = Z.of_nat (2 ^ l) -> ntt Sp = Some shift_ntt ->
    (0 < cs)%Z -> (0 <= tail)%Z -> (poly_degree o Sp < tail)%Z ->
    forall j ww k, okl ww -> zlen ww = (cs + tail)%Z -> (Z.of_nat j * cs <= zlen a)%Z ->
      peq (D a) (padd (pmul k (padd (D Sp) (pXn (Z.to_nat (cs + tail))))) (D (take (Z.of_nat j * cs) a ++ ww))) ->
      exists r k', pdiv_ntt_friendly_loop o ntt intt j a shift_ntt cs tail ww = Some r /\ okl r /\
                   zlen r = (cs + tail)%Z /\
                   peq (D a) (padd (pmul k' (padd (D Sp) (pXn (Z.to_nat (cs + tail))))) (D r)).
  Proof.
    intros Hl Ha HS LS Epow ES Hcs Htl Hsd. induction j as [|j IH]; intros ww k Hww Lww Lws Inv.
    - exists ww, k. split; [reflexivity|]. split; [exact Hww|]. split; [exact Lww|]. cbn in Inv. exact Inv.
    - cbn [pdiv_ntt_friendly_loop].
      destruct (zlen ww <? tail)%Z eqn:E0; [apply Z.ltb_lt in E0; lia|]. clear E0.
      assert (Hov : okl (drop tail ww)) by (unfold drop; apply Forall_skipn; exact Hww).
      assert (Lov : zlen (drop tail ww) = cs) by (rewrite zlen_drop by lia; lia).
      set (X := drop tail ww ++ zrepeat (fzero o) tail).
      assert (HX : okl X) by (apply Forall_app; split; [exact Hov|apply Forall_zrepeat; exact (ok0 o fk ok den H)]).
      assert (LX : length X = (2 ^ l)%nat).
      { unfold X. rewrite app_length. unfold zrepeat. rewrite repeat_length. unfold zlen in *. lia. }
      assert (EX : peq (D X) (D (drop tail ww))) by (unfold X, zrepeat; apply (peq_D_app_zeros o fk ok den H)).
      assert (Hfit : forall i, (2 ^ l <= i)%nat -> coeff (pmul (D X) (D Sp)) i = 0).
      { intros i Hi. apply coeff_pmul_above. rewrite (pdeg_peq fk _ _ EX).
        pose proof (pdeg_le_length fk (D (drop tail ww))) as P1. rewrite map_length in P1.
        rewrite <- (degree_pdeg o fk ok den H Sp HS). unfold zlen in *. lia. }
      destruct (ntt_product_spec l X Sp shift_ntt Hl HX HS LX ltac:(unfold zlen in *; lia) ES Hfit)
        as [p1 [product [E1 [E2 [Hpr [Lpr Ppr]]]]]].
      fold X. rewrite E1, E2.
      set (ws := (Z.of_nat j * cs)%Z).
      set (chunk := take cs (drop ws a)).
      assert (Lch : zlen chunk = cs) by (unfold chunk; rewrite zlen_take, zlen_drop by (unfold ws; lia); unfold ws; lia).
      rewrite Lch, Z.eqb_refl. cbn [negb].
      assert (Hch : okl chunk) by (unfold chunk; apply Forall_take; unfold drop; apply Forall_skipn; exact Ha).
      assert (Hlow : okl (take tail ww)) by (apply Forall_take; exact Hww).
      assert (Llow : zlen (take tail ww) = tail) by (rewrite zlen_take; lia).
      set (ww1 := chunk ++ take tail ww).
      assert (Hww1 : okl ww1) by (apply Forall_app; split; assumption).
      assert (Lww1 : zlen ww1 = (cs + tail)%Z) by (unfold ww1; rewrite zlen_app; lia).
      destruct (zlen product <? zlen ww1)%Z eqn:E3; [apply Z.ltb_lt in E3; unfold zlen in *; lia|]. clear E3.
      destruct (map2_sub_pad o fk ok den H ww1 product Hww1 Hpr ltac:(unfold zlen in *; lia)) as [M1 [M2 M3]].
      replace (length ww1 - length product)%nat with O in M1, M2, M3 by (unfold zlen in *; lia).
      cbn [repeat] in M1, M2, M3. rewrite app_nil_r in M1, M2, M3.
      set (ww' := map2 (fsub o) ww1 product) in *.
      apply (IH ww' (padd k (pmul (pXn (Z.to_nat ws)) (D (drop tail ww)))) M1).
      + unfold zlen in *. lia.
      + fold ws. unfold ws in *. lia.
      + rewrite Inv. fold ws.
        assert (Esplit : take (Z.of_nat (S j) * cs) a ++ ww = take ws a ++ chunk ++ take tail ww ++ drop tail ww).
        { replace (Z.of_nat (S j) * cs)%Z with (ws + cs)%Z by (unfold ws; lia). rewrite (take_add ws cs a) by (unfold ws; lia).
          fold chunk. rewrite <- app_assoc. rewrite (take_drop_id tail ww). reflexivity. }
        rewrite Esplit, !map_app.
        assert (LT : length (D (take ws a)) = Z.to_nat ws).
        { rewrite map_length. pose proof (zlen_take ws a) as Y. unfold zlen, ws in *. lia. }
        rewrite (structured_step fk (D (take ws a)) (D chunk) (D (take tail ww)) (D (drop tail ww)) (D Sp) (D ww')
                   (Z.to_nat ws) (Z.to_nat cs) (Z.to_nat tail) LT
                   ltac:(rewrite map_length; unfold zlen in Lch; lia) ltac:(rewrite map_length; unfold zlen in Llow; lia)).
        * rewrite (app_padd_pshift fk (D (take ws a)) (D ww')), LT.
          replace (Z.to_nat (cs + tail)) with (Z.to_nat cs + Z.to_nat tail)%nat by lia. ring.
        * rewrite M3. unfold ww1. rewrite map_app, Ppr, EX. reflexivity.
  Qed.

  Lemma is_pow2_pow l : is_pow2 (Z.of_nat (2 ^ l)) = true.
  Proof.
    unfold is_pow2. rewrite Nat2Z.inj_pow. change (Z.of_nat 2) with 2%Z. rewrite Z.log2_pow2 by lia.
    rewrite Z.eqb_refl, andb_true_r. apply Z.ltb_lt. apply Z.pow_pos_nonneg; lia.
  Qed.

  (* reduce_by_ntt_friendly_modulus with the transform of Sp (2^l stored coefficients, deg Sp < tail < 2^l):
     no panic, the result is congruent to the input modulo X^(2^l) + Sp *)
  Theorem reduce_by_ntt_friendly_modulus_spec chk a Sp shift_ntt tail l : (l <= lmax)%nat -> okl a -> okl Sp ->
    zlen Sp = Z.of_nat (2 ^ l) -> ntt Sp = Some shift_ntt -> (0 <= tail < Z.of_nat (2 ^ l))%Z -> (poly_degree o Sp < tail)%Z ->
    exists r, pdiv_reduce_by_ntt_friendly_modulus o ntt intt chk a shift_ntt tail = Some r /\ okl r /\
              (zlen r <= Z.max (zlen a) (Z.of_nat (2 ^ l)))%Z /\
              exists k, peq (D a) (padd (pmul k (padd (D Sp) (pXn (2 ^ l)))) (D r)).
  Proof.
    intros Hl Ha HS LS ES Htl Hsd. unfold pdiv_reduce_by_ntt_friendly_modulus.
    destruct (ntt_is_dft l Sp Hl ltac:(unfold zlen in LS; lia) HS) as [y [Y1 [_ [Y3 _]]]]. rewrite ES in Y1. inversion Y1; subst y.
    assert (Ldl : zlen shift_ntt = Z.of_nat (2 ^ l)) by (unfold zlen in *; lia).
    rewrite Ldl, is_pow2_pow. cbn [negb].
    set (dl := Z.of_nat (2 ^ l)) in *.
    destruct (dl <? tail)%Z eqn:E0; [apply Z.ltb_lt in E0; lia|]. clear E0.
    set (cs := (dl - tail)%Z).
    destruct (zlen a <? dl)%Z eqn:E1.
    - exists a. split; [reflexivity|]. split; [exact Ha|]. split; [lia|]. exists []. cbn [PolySpec.pmul PolySpec.padd]. reflexivity.
    - apply Z.ltb_ge in E1. destruct (cs =? 0)%Z eqn:E2; [apply Z.eqb_eq in E2; unfold cs in E2; lia|]. clear E2.
      assert (Hcs : (0 < cs)%Z) by (unfold cs; lia).
      set (num := ((zlen a - dl + cs - 1) / cs)%Z).
      assert (Hnum : (0 <= num /\ zlen a - dl <= num * cs /\ num * cs <= zlen a - dl + cs - 1)%Z).
      { unfold num. pose proof (Z.div_mod (zlen a - dl + cs - 1) cs ltac:(lia)) as DM.
        pose proof (Z.mod_pos_bound (zlen a - dl + cs - 1) cs Hcs) as MB.
        assert (0 <= (zlen a - dl + cs - 1) / cs)%Z by (apply Z.div_pos; lia). nia. }
      destruct Hnum as [N0 [N1 N2]].
      destruct (zlen a <=? num * cs)%Z eqn:E3; [apply Z.leb_le in E3; unfold cs in *; lia|]. clear E3.
      assert (Hd : okl (drop (num * cs) a)) by (unfold drop; apply Forall_skipn; exact Ha).
      assert (Ld : (zlen (drop (num * cs) a) <= dl)%Z) by (rewrite zlen_drop by lia; unfold cs in *; lia).
      assert (Edl : dl = (cs + tail)%Z) by (unfold cs; lia).
      destruct (ntt_friendly_loop_spec a Sp shift_ntt cs tail l Hl Ha HS ltac:(lia) ltac:(unfold dl in Edl; lia) ES Hcs ltac:(lia) Hsd
                  (Z.to_nat num) (resize (drop (num * cs) a) dl (fzero o)) [])
        as [r [k' [R1 [R2 [R3 R4]]]]].
      + rewrite (resize_pad o _ dl Ld). apply Forall_app. split; [exact Hd|]. apply Forall_forall. intros x Hx.
        apply repeat_spec in Hx. subst x. exact (ok0 o fk ok den H).
      + rewrite (resize_pad o _ dl Ld), zlen_app. unfold zlen at 2. rewrite repeat_length. unfold zlen in *. lia.
      + rewrite Z2Nat.id by lia. unfold cs in *. lia.
      + cbn [PolySpec.pmul PolySpec.padd]. rewrite Z2Nat.id by lia.
        rewrite (resize_pad o _ dl Ld), app_assoc, (take_drop_id (num * cs) a).
        symmetry. apply (peq_D_app_zeros o fk ok den H).
      + exists r. split; [exact R1|]. split; [exact R2|]. split; [lia|].
        exists k'. rewrite R4. apply padd_peq; [|reflexivity]. apply pmul_peq; [reflexivity|].
        rewrite <- Edl. unfold dl. rewrite Nat2Z.id. reflexivity.
  Qed.
  (* shift_factor_ntt_with_tail_length: the transform of the lower part of a monic multiple X^n + S' of the modulus,
     n = next_power_of_two(max(FAST_REDUCE_CUTOFF_THRESHOLD, 2 deg)), and a tail length with deg S' < tail <= deg *)
  Lemma shift_factor_spec m : okl m -> (1 <= poly_degree o m)%Z ->
    (next_pow2 (Z.max FAST_REDUCE_CUTOFF_THRESHOLD (poly_degree o m * 2)) + 1 <= 2 ^ Z.of_nat lmax)%Z ->
    exists Sp s tail l, pdiv_shift_factor_ntt_with_tail_length o ntt intt m = Some (s, tail) /\
      (l <= lmax)%nat /\ okl Sp /\ zlen Sp = Z.of_nat (2 ^ l) /\ ntt Sp = Some s /\
      (1 <= tail <= poly_degree o m)%Z /\ (2 * poly_degree o m <= Z.of_nat (2 ^ l))%Z /\ (poly_degree o Sp < tail)%Z /\
      pdvd (D m) (padd (D Sp) (pXn (2 ^ l))).
  Proof.
    intros Hm Hd HB. unfold pdiv_shift_factor_ntt_with_tail_length.
    set (d := poly_degree o m) in *.
    destruct (d <? 0)%Z eqn:E0; [apply Z.ltb_lt in E0; lia|]. clear E0.
    set (n := next_pow2 (Z.max FAST_REDUCE_CUTOFF_THRESHOLD (d * 2))) in *.
    destruct (next_pow2_spec (Z.max FAST_REDUCE_CUTOFF_THRESHOLD (d * 2)) ltac:(lia)) as [l [N1 [N2 _]]]. fold n in N1.
    assert (Epow : n = Z.of_nat (2 ^ l)) by (rewrite N1, Nat2Z.inj_pow; reflexivity).
    assert (Hl : (l <= lmax)%nat).
    { destruct (Nat.le_gt_cases l lmax) as [X|X]; [exact X|exfalso].
      assert (2 ^ Z.of_nat lmax < 2 ^ Z.of_nat l)%Z by (apply Z.pow_lt_mono_r; lia). lia. }
    destruct (structured_multiple_dft o fk ok den H ntt intt lmax wr ntt_is_dft intt_is_idft wr_half_root wr_nonzero two_nz
                m n Hm Hd ltac:(lia) HB) as [nfm [R1 [R2 [R3 [R4 [R5 [R6 R7]]]]]]].
    rewrite R1. destruct (zlen nfm <? n)%Z eqn:E1; [apply Z.ltb_lt in E1; lia|]. clear E1.
    set (Sp := take n nfm).
    assert (HSp : okl Sp) by (apply Forall_take; exact R2).
    assert (LSp : zlen Sp = n) by (unfold Sp; rewrite zlen_take; lia).
    destruct (ntt_is_dft l Sp Hl ltac:(unfold zlen in LSp; lia) HSp) as [s [S1 _]]. rewrite S1.
    (* the last coefficient is 1 *)
    assert (Esplit : nfm = Sp ++ drop n nfm) by (symmetry; apply take_drop_id).
    assert (Ldr : zlen (drop n nfm) = 1%Z) by (rewrite zlen_drop by lia; lia).
    destruct (drop n nfm) as [|x [|? ?]] eqn:Edr; try (unfold zlen in Ldr; cbn in Ldr; lia).
    assert (Ex : den x = 1).
    { destruct (coeff_at_pdeg fk (D nfm) ltac:(lia)) as [C1 _]. rewrite R4, R5 in C1. rewrite <- C1.
      rewrite Esplit, map_app. cbn [map]. rewrite (coeff_snoc fk), map_length.
      replace (Z.to_nat n <? length Sp)%nat with false by (symmetry; apply Nat.ltb_ge; unfold zlen in LSp; lia).
      replace (Z.to_nat n =? length Sp)%nat with true by (symmetry; apply Nat.eqb_eq; unfold zlen in LSp; lia). reflexivity. }
    assert (Enfm : peq (D nfm) (padd (D Sp) (pXn (2 ^ l)))).
    { rewrite Esplit at 1. rewrite map_app. cbn [map]. rewrite Ex, (app_padd_pshift fk), map_length.
      replace (length Sp) with (2 ^ l)%nat by (unfold zlen in LSp; lia). reflexivity. }
    (* the lower part has degree < d *)
    assert (DSp : (poly_degree o Sp < d)%Z).
    { rewrite (degree_pdeg o fk ok den H Sp HSp).
      assert (X : (pdeg (D Sp) < Z.of_nat (Z.to_nat d))%Z); [|lia]. apply pdeg_bound. intros i Hi.
      destruct (Nat.lt_ge_cases i (Z.to_nat n)) as [L|G].
      - rewrite <- (R6 i ltac:(fold d; lia)). rewrite Esplit at 1. rewrite map_app. symmetry. apply coeff_app_l.
        rewrite map_length. unfold zlen in LSp. lia.
      - apply coeff_overflow. rewrite map_length. unfold zlen in LSp. lia. }
    assert (Erl : removelast nfm = Sp).
    { rewrite removelast_firstn_len. unfold Sp, take. f_equal. unfold zlen in R7. lia. }
    rewrite Erl. pose proof (degree_ge o Sp) as Gs.
    exists Sp, s, (1 + Z.max 0 (poly_degree o Sp))%Z, l. split; [reflexivity|]. split; [exact Hl|]. split; [exact HSp|].
    split; [lia|]. split; [exact S1|]. split; [lia|]. split; [unfold FAST_REDUCE_CUTOFF_THRESHOLD in *; lia|]. split; [lia|].
    apply (pdvd_peq fk (D m) (D m) (D nfm)); [reflexivity|exact Enfm|exact R3].
  Qed.

  (* fast_reduce: THE remainder, for every non-zero modulus *)
  Theorem fast_reduce_spec a m : okl a -> okl m -> ~ pzero (D m) ->
    (next_pow2 (Z.max FAST_REDUCE_CUTOFF_THRESHOLD (poly_degree o m * 2)) + 1 <= 2 ^ Z.of_nat lmax)%Z ->
    (3 * poly_degree o m + 2 <= 2 ^ Z.of_nat lmax)%Z ->
    exists r, pdiv_fast_reduce o ntt intt a m = Some r /\ okl r /\ is_rem fk (D a) (D m) (D r).
  Proof.
    intros Ha Hm NZ HB1 HB2.
    pose proof (degree_pdeg o fk ok den H m Hm) as Dm.
    assert (Gm : (0 <= poly_degree o m)%Z) by (rewrite Dm; apply pdeg_nonneg_iff; exact NZ).
    destruct (Z.eq_dec (poly_degree o m) 0) as [E0|E0];
      [apply (fast_reduce_early_exits o fk ok den H ntt intt a m Ha Hm NZ); left; exact E0|].
    destruct (Z.lt_ge_cases (poly_degree o a) (poly_degree o m)) as [E1|E1];
      [apply (fast_reduce_early_exits o fk ok den H ntt intt a m Ha Hm NZ); right; exact E1|].
    unfold pdiv_fast_reduce. set (d := poly_degree o m) in *.
    destruct (d =? 0)%Z eqn:X0; [apply Z.eqb_eq in X0; lia|]. clear X0.
    destruct (poly_degree o a <? d)%Z eqn:X1; [apply Z.ltb_lt in X1; lia|]. clear X1.
    destruct (shift_factor_spec m Hm ltac:(fold d; lia) HB1) as [Sp [s [tail [l [F1 [Hl [HSp [LSp [ES [Ht [H2d [Hsd Hdv]]]]]]]]]]]].
    rewrite F1.
    destruct (reduce_by_ntt_friendly_modulus_spec true a Sp s tail l Hl Ha HSp LSp ES ltac:(fold d in Ht, H2d; lia) Hsd)
      as [ir1 [G1 [Hir1 [_ [k1 C1]]]]]. rewrite G1.
    (* a = k m + ir1 *)
    destruct Hdv as [c Ec].
    assert (Cm1 : exists k, peq (D a) (padd (pmul k (D m)) (D ir1))).
    { exists (pmul k1 c). rewrite C1, Ec. ring. }
    destruct (poly_degree o ir1 >? 4 * d)%Z eqn:E2.
    - (* the structured stage *)
      unfold pdiv_structured_multiple. fold d. destruct (d <? 0)%Z eqn:X2; [apply Z.ltb_lt in X2; lia|]. clear X2.
      destruct (structured_multiple_dft o fk ok den H ntt intt lmax wr ntt_is_dft intt_is_idft wr_half_root wr_nonzero two_nz
                  m (3 * d + 1) Hm ltac:(fold d; lia) ltac:(fold d; lia) ltac:(lia)) as [sm [R1 [R2 [R3 [R4 [R5 [R6 R7]]]]]]].
      rewrite R1.
      assert (Dsm : poly_degree o sm = (3 * d + 1)%Z) by (rewrite (degree_pdeg o fk ok den H sm R2); exact R4).
      assert (Hxn : okl (poly_x_to_the o (3 * d + 1))).
      { unfold poly_x_to_the. apply Forall_app. split; [apply Forall_zrepeat; exact (ok0 o fk ok den H)|constructor; [exact (ok1 o fk ok den H)|constructor]]. }
      assert (Hsh : okl (poly_sub o sm (poly_x_to_the o (3 * d + 1)))) by (apply (sub_ok o fk ok den H); assumption).
      assert (Dsh : (poly_degree o (poly_sub o sm (poly_x_to_the o (3 * d + 1))) < d)%Z).
      { rewrite (degree_pdeg o fk ok den H _ Hsh), (sub_D o fk ok den H) by assumption. rewrite (x_to_the_D o fk ok den H).
        assert (X : (pdeg (psub (D sm) (pXn (Z.to_nat (3 * d + 1)))) < Z.of_nat (Z.to_nat d))%Z); [|lia].
        apply pdeg_bound. intros i Hi. rewrite coeff_psub.
        assert (Cx : forall j, coeff (pXn (Z.to_nat (3 * d + 1))) j = if (j =? Z.to_nat (3 * d + 1))%nat then 1 else 0).
        { intros j. unfold PolySpec.pXn. rewrite (coeff_snoc fk), repeat_length.
          destruct (j <? Z.to_nat (3 * d + 1))%nat eqn:Y.
          - apply Nat.ltb_lt in Y. replace (j =? Z.to_nat (3 * d + 1))%nat with false by (symmetry; apply Nat.eqb_neq; lia).
            apply coeff_repeat0.
          - reflexivity. }
        rewrite Cx. destruct (Nat.lt_trichotomy i (Z.to_nat (3 * d + 1))) as [L|[E|G]].
        - replace (i =? Z.to_nat (3 * d + 1))%nat with false by (symmetry; apply Nat.eqb_neq; lia).
          rewrite (R6 i ltac:(fold d; lia)). ring.
        - subst i. rewrite Nat.eqb_refl. destruct (coeff_at_pdeg fk (D sm) ltac:(lia)) as [C2 _]. rewrite R4, R5 in C2. rewrite C2. ring.
        - replace (i =? Z.to_nat (3 * d + 1))%nat with false by (symmetry; apply Nat.eqb_neq; lia).
          rewrite (coeff_above_pdeg fk (D sm) i) by lia. ring. }
      destruct (reduce_by_structured_modulus_spec o fk ok den H ntt intt (2 ^ Z.of_nat lmax) Hmult_dft ir1 sm Hir1 R2
                  ltac:(lia) R5 ltac:(lia) ltac:(rewrite Dsm; lia)) as [ir2 [G2 [Hir2 [_ [_ [k2 C2]]]]]].
      rewrite G2. apply (fast_reduce_final_stage o fk ok den H a m ir2 Ha Hm Hir2 NZ).
      destruct Cm1 as [k Ck]. destruct R3 as [c2 Ec2]. exists (padd k (pmul k2 c2)). rewrite Ck, C2, Ec2. ring.
    - apply (fast_reduce_final_stage o fk ok den H a m ir1 Ha Hm Hir1 NZ). exact Cm1.
  Qed.
  (* reduce: THE remainder through every arm of the dispatcher *)
  Theorem reduce_spec a m : okl a -> okl m -> ~ pzero (D m) ->
    (next_pow2 (Z.max FAST_REDUCE_CUTOFF_THRESHOLD (poly_degree o m * 2)) + 1 <= 2 ^ Z.of_nat lmax)%Z ->
    (3 * poly_degree o m + 2 <= 2 ^ Z.of_nat lmax)%Z ->
    exists r, pdiv_reduce o ntt intt a m = Some r /\ okl r /\ is_rem fk (D a) (D m) (D r).
  Proof.
    intros Ha Hm NZ HB1 HB2. destruct (Z.eq_dec (pdiv_reduce_arm o a m) 3) as [E|E].
    - rewrite (reduce_fast_arm o ntt intt a m E). apply fast_reduce_spec; assumption.
    - apply (reduce_slow_arms_spec o fk ok den H ntt intt a m Ha Hm NZ E).
  Qed.
End FastReduce.
