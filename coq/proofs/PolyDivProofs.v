(* proofs/PolyDivProofs.v - lemmas about model/PolyDiv.v against spec/PolySpec.v (property C09).

   Setting (as in proofs/PolyCoreProofs.v): `o : fops F` refines an abstract field `fk : fieldK K` through
   `field_ok o fk ok den`; a raw model list `l` with `Forall ok l` denotes the polynomial `map den l`; equality of
   polynomials is `peq`.

   Contents
     1. K[X]-level division theory: degree of sums, uniqueness of quotient and remainder (`pdivmod_unique`),
        divisibility `pdvd`, congruence modulo X^n (`pmodx`), the Newton step for power-series inversion.
     2. `naive_divide` / `divide` / Div / Rem / `reduce_long_division`: the K-level mirror of the pop-and-subtract loop and
        its invariant; `naive_divide_spec`, `naive_divide_unique`, zero divisor = panic.
     3. `reduce`: every arm returns THE remainder (the fast arm relative to `fast_reduce`'s stages, see 8).
     4. `clean_divide`: the long-division arm for every cutoff, the fallback of the repaired code, the refutations.
     5. `xgcd`: Bezout identity, common divisor, monic-or-zero, fuel never runs out.
     6. `formal_power_series_inverse_minimal`: f * g = 1 mod X^(n+1).
     7. `formal_power_series_inverse_newton`: the rounds before the switch to the NTT domain.
     8. structured multiples / fast_reduce: what is proved and what is left `_partial`. *)
From Coq Require Import ZArith Lia List Bool Ring Field Setoid Morphisms.
From TF Require Import Word BFieldGen BField XField FieldOps FieldTheory PolyGen PolyCore PolySpec Ntt PolyDiv PolyCoreProofs.
Import ListNotations.
Open Scope Z_scope.
Ltac Zify.zify_post_hook ::= Z.div_mod_to_equations.

(* ================================================================== 1. K[X]-level theory *)
Section PDivSpec.
  Context {K : Type} (fk : fieldK K).
  Local Notation "0" := (k0 fk).
  Local Notation "1" := (k1 fk).
  Local Infix "+" := (kadd fk).
  Local Infix "*" := (kmul fk).
  Local Infix "-" := (ksub fk).
  Local Notation "- x" := (kopp fk x).
  Local Notation peq := (peq fk).
  Local Notation pzero := (pzero fk).
  Local Notation coeff := (coeff fk).
  Local Notation padd := (padd fk).
  Local Notation psub := (psub fk).
  Local Notation popp := (popp fk).
  Local Notation pmul := (pmul fk).
  Local Notation pscale := (pscale fk).
  Local Notation pshift := (pshift fk).
  Local Notation pdeg := (pdeg fk).
  Local Notation plead := (plead fk).
  Local Notation pone := (pone fk).
  Add Field kfield_PolyDivProofs_Spec : (kFT fk).

  (* ---- K[X] is a commutative ring up to peq: `ring` proves peq goals built from padd pmul psub popp pone [] *)
  Lemma poly_ring_theory : ring_theory (@nil K) pone padd pmul psub popp peq.
  Proof.
    constructor.
    - intros x. apply padd_0_l.
    - intros x y. apply padd_comm.
    - intros x y z. apply padd_assoc.
    - intros x. apply pmul_1_l.
    - intros x y. apply pmul_comm.
    - intros x y z. apply pmul_assoc.
    - intros x y z. apply pmul_padd_distr_r.
    - intros x y. reflexivity.
    - intros x. apply padd_popp.
  Qed.
  Lemma poly_ring_ext : ring_eq_ext padd pmul popp peq.
  Proof.
    constructor.
    - intros x x' Hx y y' Hy. rewrite Hx, Hy. reflexivity.
    - intros x x' Hx y y' Hy. rewrite Hx, Hy. reflexivity.
    - intros x x' Hx. rewrite Hx. reflexivity.
  Qed.
  Add Ring polyring_PolyDivProofs_Spec : poly_ring_theory (setoid (peq_Equivalence fk) poly_ring_ext).
  Lemma pscale_as_pmul c p : peq (pscale c p) (pmul [c] p).
  Proof. symmetry. apply (pscale_pmul_const fk). Qed.

  (* ---- degrees *)
  Lemma pdeg_lt_iff p n : (pdeg p < Z.of_nat n)%Z <-> (forall i, (n <= i)%nat -> coeff p i = 0).
  Proof.
    split.
    - intros H i Hi. apply coeff_above_pdeg. lia.
    - apply pdeg_bound.
  Qed.
  Lemma pdeg_padd_lt p q n : (pdeg p < Z.of_nat n)%Z -> (pdeg q < Z.of_nat n)%Z -> (pdeg (padd p q) < Z.of_nat n)%Z.
  Proof.
    rewrite !pdeg_lt_iff. intros Hp Hq i Hi. rewrite coeff_padd, Hp, Hq by exact Hi. ring.
  Qed.
  Lemma pdeg_popp p : pdeg (popp p) = pdeg p.
  Proof.
    apply Z.le_antisymm.
    - assert (H : (pdeg (popp p) < Z.of_nat (Z.to_nat (pdeg p + 1)))%Z); [|pose proof (pdeg_ge fk p); lia].
      apply pdeg_lt_iff. intros i Hi. rewrite coeff_popp, coeff_above_pdeg; [ring|]. pose proof (pdeg_ge fk p). lia.
    - assert (H : (pdeg p < Z.of_nat (Z.to_nat (pdeg (popp p) + 1)))%Z); [|pose proof (pdeg_ge fk (popp p)); lia].
      apply pdeg_lt_iff. intros i Hi.
      assert (E : coeff (popp p) i = 0) by (apply coeff_above_pdeg; pose proof (pdeg_ge fk (popp p)); lia).
      rewrite coeff_popp in E. transitivity (- - coeff p i); [ring|]. rewrite E. ring.
  Qed.
  Lemma pdeg_psub_lt p q n : (pdeg p < Z.of_nat n)%Z -> (pdeg q < Z.of_nat n)%Z -> (pdeg (psub p q) < Z.of_nat n)%Z.
  Proof. intros Hp Hq. unfold PolySpec.psub. apply pdeg_padd_lt; [exact Hp|rewrite pdeg_popp; exact Hq]. Qed.
  Lemma pdeg_nonneg_iff p : (0 <= pdeg p)%Z <-> ~ pzero p.
  Proof.
    rewrite <- pdeg_neg_iff. pose proof (pdeg_ge fk p). lia.
  Qed.
  Lemma pdeg_length_lt p n : (length p <= n)%nat -> (pdeg p < Z.of_nat n)%Z.
  Proof. intros H. pose proof (pdeg_le_length fk p). lia. Qed.

  (* ---- ring identities up to peq that the division proofs use *)
  Lemma pmul_popp_l p q : peq (pmul (popp p) q) (popp (pmul p q)).
  Proof. rewrite (popp_pscale fk p), pmul_pscale_l, <- popp_pscale. reflexivity. Qed.
  Lemma pmul_psub_distr_r p q r : peq (pmul (psub p q) r) (psub (pmul p r) (pmul q r)).
  Proof. unfold PolySpec.psub. rewrite pmul_padd_distr_r, pmul_popp_l. reflexivity. Qed.
  Lemma pmul_psub_distr_l p q r : peq (pmul p (psub q r)) (psub (pmul p q) (pmul p r)).
  Proof. rewrite (pmul_comm fk p (psub q r)), pmul_psub_distr_r, (pmul_comm fk q p), (pmul_comm fk r p). reflexivity. Qed.
  Lemma psub_pzero_peq p q : pzero (psub p q) -> peq p q.
  Proof.
    intros H. apply peq_intro. intros i. specialize (H i). rewrite coeff_psub in H.
    transitivity (coeff p i - coeff q i + coeff q i); [ring|]. rewrite H. ring.
  Qed.
  Lemma psub_self p q : peq p q -> pzero (psub p q).
  Proof. intros [H] i. rewrite coeff_psub, H. ring. Qed.

  (* ---- uniqueness of quotient and remainder *)
  Theorem pdivmod_unique d q r q' r' :
    peq (padd (pmul q d) r) (padd (pmul q' d) r') ->
    (pdeg r < pdeg d)%Z -> (pdeg r' < pdeg d)%Z ->
    peq q q' /\ peq r r'.
  Proof.
    intros E Hr Hr'.
    assert (Hd : (0 <= pdeg d)%Z) by (pose proof (pdeg_ge fk r); lia).
    (* (q - q') d = r' - r *)
    assert (E2 : peq (pmul (psub q q') d) (psub r' r)).
    { rewrite pmul_psub_distr_r. apply peq_intro. intros i. pose proof (peq_elim fk _ _ E i) as Ei.
      rewrite !coeff_padd in Ei. rewrite !coeff_psub.
      transitivity (coeff (pmul q d) i + coeff r i - coeff r i - coeff (pmul q' d) i); [ring|]. rewrite Ei. ring. }
    assert (Hz : pzero (psub q q')).
    { apply pdeg_neg_iff. destruct (Z.eq_dec (pdeg (psub q q')) (-1)) as [X|X]; [exact X|exfalso].
      assert (Hq : (0 <= pdeg (psub q q'))%Z) by (pose proof (pdeg_ge fk (psub q q')); lia).
      pose proof (pdeg_pmul fk _ _ Hq Hd) as Dm. rewrite (pdeg_peq fk _ _ E2) in Dm.
      assert (B : (pdeg (psub r' r) < Z.of_nat (Z.to_nat (pdeg d)))%Z) by (apply pdeg_psub_lt; lia).
      lia. }
    split; [apply psub_pzero_peq; exact Hz|].
    apply psub_pzero_peq. intros i. pose proof (peq_elim fk _ _ E2 i) as Ei.
    rewrite (pmul_pzero_l fk _ d Hz i) in Ei. rewrite coeff_psub in *.
    transitivity (- (coeff r' i - coeff r i)); [ring|]. rewrite <- Ei. ring.
  Qed.

  (* `r` is THE remainder of `a` modulo `d` *)
  Definition is_rem (a d r : list K) : Prop := (exists q, peq a (padd (pmul q d) r)) /\ (pdeg r < pdeg d)%Z.
  (* `(q, r)` is THE quotient-remainder pair *)
  Definition is_divmod (a d q r : list K) : Prop := peq a (padd (pmul q d) r) /\ (pdeg r < pdeg d)%Z.
  Lemma is_divmod_unique a d q r q' r' : is_divmod a d q r -> is_divmod a d q' r' -> peq q q' /\ peq r r'.
  Proof. intros [E1 B1] [E2 B2]. apply (pdivmod_unique d); [rewrite <- E1, <- E2; reflexivity|exact B1|exact B2]. Qed.
  Lemma is_rem_unique a d r r' : is_rem a d r -> is_rem a d r' -> peq r r'.
  Proof. intros [[q E1] B1] [[q' E2] B2]. exact (proj2 (is_divmod_unique a d q r q' r' (conj E1 B1) (conj E2 B2))). Qed.
  Lemma is_rem_peq a a' d d' r r' : peq a a' -> peq d d' -> peq r r' -> is_rem a d r -> is_rem a' d' r'.
  Proof.
    intros Ea Ed Er [[q E] B]. split.
    - exists q. rewrite <- Ea, <- Ed, <- Er. exact E.
    - rewrite <- (pdeg_peq fk _ _ Ed), <- (pdeg_peq fk _ _ Er). exact B.
  Qed.
  (* congruent dividends have the same remainder *)
  Lemma is_rem_congr a b d r : (exists k, peq a (padd (pmul k d) b)) -> is_rem b d r -> is_rem a d r.
  Proof.
    intros [k Ek] [[q E] B]. split; [|exact B]. exists (padd k q).
    rewrite Ek, E, pmul_padd_distr_r. apply peq_intro. intros i. rewrite !coeff_padd. ring.
  Qed.

  (* ---- divisibility *)
  Definition pdvd (d a : list K) : Prop := exists q, peq a (pmul q d).
  Lemma pdvd_refl p : pdvd p p.
  Proof. exists pone. symmetry. apply pmul_1_l. Qed.
  Lemma pdvd_zero d a : pzero a -> pdvd d a.
  Proof. intros Z. exists []. apply peq_nil_pzero in Z. rewrite Z. reflexivity. Qed.
  Lemma pdvd_peq d d' a a' : peq d d' -> peq a a' -> pdvd d a -> pdvd d' a'.
  Proof. intros Ed Ea [q E]. exists q. rewrite <- Ea, <- Ed. exact E. Qed.
  Lemma pdvd_padd d a b : pdvd d a -> pdvd d b -> pdvd d (padd a b).
  Proof. intros [q E] [q' E']. exists (padd q q'). rewrite E, E', pmul_padd_distr_r. reflexivity. Qed.
  Lemma pdvd_pmul_l d a c : pdvd d a -> pdvd d (pmul c a).
  Proof. intros [q E]. exists (pmul c q). rewrite E. apply pmul_assoc. Qed.
  Lemma pdvd_popp d a : pdvd d a -> pdvd d (popp a).
  Proof. intros [q E]. exists (popp q). rewrite E, pmul_popp_l. reflexivity. Qed.
  Lemma pdvd_psub d a b : pdvd d a -> pdvd d b -> pdvd d (psub a b).
  Proof. intros Ha Hb. unfold PolySpec.psub. apply pdvd_padd; [exact Ha|apply pdvd_popp; exact Hb]. Qed.
  Lemma pdvd_trans a b c : pdvd a b -> pdvd b c -> pdvd a c.
  Proof. intros [q E] [q' E']. exists (pmul q' q). rewrite E', E. apply pmul_assoc. Qed.
  Lemma pdvd_pscale d a c : pdvd d a -> pdvd d (pscale c a).
  Proof. intros [q E]. exists (pscale c q). rewrite E, pmul_pscale_l. reflexivity. Qed.
  (* scaling the divisor by a unit *)
  Lemma pdvd_pscale_l d a c : c <> 0 -> pdvd d a -> pdvd (pscale c d) a.
  Proof.
    intros Hc [q E]. exists (pscale (kinv fk c) q). rewrite E, pmul_pscale_l, pmul_pscale_r.
    apply peq_intro. intros i. rewrite !coeff_pscale. field. exact Hc.
  Qed.
  (* exact division: the remainder of a multiple is zero, the quotient is the cofactor *)
  Lemma is_divmod_of_pdvd a d q r q0 : ~ pzero d -> peq a (pmul q0 d) -> is_divmod a d q r -> peq q q0 /\ pzero r.
  Proof.
    intros Hd E0 Hqr.
    assert (H0 : is_divmod a d q0 []).
    { split; [rewrite E0; symmetry; apply padd_0_r|]. apply pdeg_nonneg_iff in Hd. change (pdeg []) with (-1)%Z. lia. }
    destruct (is_divmod_unique _ _ _ _ _ _ Hqr H0) as [E1 E2]. split; [exact E1|]. apply peq_nil_pzero. exact E2.
  Qed.

  (* ---- congruence modulo X^n *)
  Definition pmodx (n : nat) (p q : list K) : Prop := forall i, (i < n)%nat -> coeff p i = coeff q i.
  Lemma pmodx_peq n p p' q q' : peq p p' -> peq q q' -> pmodx n p q -> pmodx n p' q'.
  Proof. intros [Ep] [Eq] H i Hi. rewrite <- Ep, <- Eq. apply H. exact Hi. Qed.
  Lemma pmodx_le n m p q : (m <= n)%nat -> pmodx n p q -> pmodx m p q.
  Proof. intros L H i Hi. apply H. lia. Qed.
  (* low part of a square: if e vanishes below X^k then e^2 vanishes below X^(2k) *)
  Lemma pmul_low_zero e e' k k' : pmodx k e [] -> pmodx k' e' [] -> pmodx (k + k') (pmul e e') [].
  Proof.
    intros He He' m Hm. rewrite coeff_nil, coeff_pmul.
    rewrite (ksum_ext fk _ (fun _ => 0)), ksum_0; [reflexivity|].
    intros j Hj. destruct (Nat.lt_ge_cases j k) as [L|G].
    - rewrite (He j L), coeff_nil. ring.
    - rewrite (He' (m - j)%nat) by lia. rewrite coeff_nil. ring.
  Qed.
  (* Newton step: f s = 1 mod X^k  ->  (2f - f^2 s) s = 1 mod X^(2k) *)
  Lemma newton_step f s g two k :
    pmodx k (pmul f s) pone -> peq g (psub (pscale two f) (pmul (pmul f f) s)) -> two = 1 + 1 ->
    pmodx (k + k) (pmul g s) pone.
  Proof.
    intros Hk Eg Etwo.
    (* 1 - g s = (1 - f s)^2 *)
    set (e := psub pone (pmul f s)).
    assert (He : pmodx k e []).
    { intros i Hi. unfold e. rewrite coeff_psub, (Hk i Hi), coeff_nil. ring. }
    assert (Esq : peq (psub pone (pmul g s)) (pmul e e)).
    { unfold e. rewrite Eg.
      assert (E2 : peq (pscale two f) (padd f f)).
      { apply peq_intro. intros i. rewrite coeff_pscale, coeff_padd. subst two. ring. }
      rewrite E2. ring. }
    pose proof (pmul_low_zero e e k k He He) as Hlow.
    intros i Hi. pose proof (peq_elim fk _ _ Esq i) as Ei. rewrite (Hlow i Hi), coeff_nil, coeff_psub in Ei.
    transitivity (coeff pone i - (coeff pone i - coeff (pmul g s) i)); [ring|]. rewrite Ei. ring.
  Qed.
End PDivSpec.

(* ================================================================== 2. the long-division loop *)
(* K-level mirror of `pdiv_sub_row` / `pdiv_div_loop` (total: the lengths that make the model panic-free are
   hypotheses of the lemmas).  The remainder is kept highest coefficient first, as in the model. *)
Section KDiv.
  Context {K : Type} (fk : fieldK K).
  Local Notation "0" := (k0 fk).
  Local Notation "1" := (k1 fk).
  Local Infix "+" := (kadd fk).
  Local Infix "*" := (kmul fk).
  Local Infix "-" := (ksub fk).
  Local Notation peq := (peq fk).
  Local Notation coeff := (coeff fk).
  Local Notation padd := (padd fk).
  Local Notation psub := (psub fk).
  Local Notation pmul := (pmul fk).
  Local Notation pscale := (pscale fk).
  Local Notation pshift := (pshift fk).
  Local Notation pXn := (pXn fk).
  Add Field kfield_PolyDivProofs_KDiv : (kFT fk).
  Add Ring polyring_PolyDivProofs_KDiv : (poly_ring_theory fk) (setoid (peq_Equivalence fk) (poly_ring_ext fk)).

  Fixpoint ksub_row (qc : K) (ds r : list K) : list K :=
    match ds, r with
    | d :: ds', x :: r' => (x - qc * d) :: ksub_row qc ds' r'
    | _, _ => r
    end.
  Fixpoint kdiv_loop (n : nat) (dinv : K) (ds r q : list K) : list K * list K :=
    match n with
    | O => (q, r)
    | S n' => match r with
              | [] => (q, r)
              | lc :: r' => let qc := lc * dinv in kdiv_loop n' dinv ds (ksub_row qc ds r') (qc :: q)
              end
    end.

  Lemma ksub_row_length qc ds r : length (ksub_row qc ds r) = length r.
  Proof. revert r. induction ds as [|d ds IH]; intros [|x r]; cbn [ksub_row length]; try reflexivity. rewrite IH. reflexivity. Qed.
  Lemma ksub_row_zero ds r : ksub_row 0 ds r = r.
  Proof.
    revert r. induction ds as [|d ds IH]; intros [|x r]; cbn [ksub_row]; try reflexivity. rewrite IH. f_equal. ring.
  Qed.
  Lemma coeff_snoc (p : list K) x i :
    coeff (p ++ [x]) i = if (i <? length p)%nat then coeff p i else if (i =? length p)%nat then x else 0.
  Proof.
    destruct (i <? length p)%nat eqn:E.
    - apply Nat.ltb_lt in E. apply coeff_app_l. exact E.
    - apply Nat.ltb_ge in E. rewrite coeff_app_r by exact E. destruct (i =? length p)%nat eqn:E2.
      + apply Nat.eqb_eq in E2. subst i. rewrite Nat.sub_diag. reflexivity.
      + apply Nat.eqb_neq in E2. destruct (i - length p)%nat eqn:E3; [lia|]. rewrite coeff_cons_S. apply coeff_nil.
  Qed.
  Lemma rev_ksub_row qc ds r : (length ds <= length r)%nat ->
    peq (rev (ksub_row qc ds r)) (psub (rev r) (pshift (length r - length ds) (pscale qc (rev ds)))).
  Proof.
    revert r. induction ds as [|d ds IH]; intros r Hl.
    - assert (E : ksub_row qc [] r = r) by (destruct r; reflexivity). rewrite E.
      apply peq_intro. intros i. rewrite coeff_psub, coeff_pshift. cbn [rev]. unfold PolySpec.pscale. cbn [map].
      destruct (i <? length r - length (@nil K))%nat; [ring|rewrite coeff_nil; ring].
    - destruct r as [|x r]; [cbn in Hl; lia|]. cbn [length] in Hl. cbn [ksub_row rev length].
      replace (S (length r) - S (length ds))%nat with (length r - length ds)%nat by lia.
      set (s := (length r - length ds)%nat).
      specialize (IH r ltac:(lia)). fold s in IH.
      apply peq_intro. intros i. pose proof (peq_elim fk _ _ IH i) as IHi.
      rewrite coeff_psub, coeff_pshift, coeff_pscale in IHi.
      rewrite coeff_psub, coeff_pshift, coeff_pscale, !coeff_snoc.
      rewrite !rev_length, ksub_row_length.
      destruct (i <? length r)%nat eqn:E1.
      + apply Nat.ltb_lt in E1. rewrite IHi. destruct (i <? s)%nat eqn:E2; [reflexivity|].
        apply Nat.ltb_ge in E2. replace (i - s <? length ds)%nat with true by (symmetry; apply Nat.ltb_lt; lia). reflexivity.
      + apply Nat.ltb_ge in E1. replace (i <? s)%nat with false by (symmetry; apply Nat.ltb_ge; lia).
        replace (i - s <? length ds)%nat with false by (symmetry; apply Nat.ltb_ge; lia).
        destruct (i =? length r)%nat eqn:E3.
        * apply Nat.eqb_eq in E3. replace (i - s =? length ds)%nat with true by (symmetry; apply Nat.eqb_eq; lia). reflexivity.
        * apply Nat.eqb_neq in E3. replace (i - s =? length ds)%nat with false by (symmetry; apply Nat.eqb_neq; lia). ring.
  Qed.

  Lemma pshift_cons_split n c (q : list K) : peq (pshift n (c :: q)) (padd (pshift n [c]) (pshift (S n) q)).
  Proof.
    apply peq_intro. intros i. rewrite coeff_padd, !coeff_pshift.
    destruct (i <? n)%nat eqn:E1.
    - apply Nat.ltb_lt in E1. replace (i <? S n)%nat with true by (symmetry; apply Nat.ltb_lt; lia). ring.
    - apply Nat.ltb_ge in E1. destruct (i - n)%nat eqn:E2.
      + replace (i <? S n)%nat with true by (symmetry; apply Nat.ltb_lt; lia). rewrite !coeff_cons_0. ring.
      + replace (i <? S n)%nat with false by (symmetry; apply Nat.ltb_ge; lia).
        rewrite !coeff_cons_S, coeff_nil. replace (i - S n)%nat with n0 by lia. ring.
  Qed.
  Lemma pmul_pshift_const n c p : peq (pmul (pshift n [c]) p) (pshift n (pscale c p)).
  Proof. rewrite !(pshift_pmul fk), (pscale_as_pmul fk). ring. Qed.

  (* the loop invariant: a = X^n q d + rev r  is preserved; at the end  a = q' d + rev r'  with |r'| = |ds| *)
  Lemma kdiv_loop_spec lcd dinv ds : lcd * dinv = 1 ->
    forall n r q, length r = (n + length ds)%nat ->
      length (snd (kdiv_loop n dinv ds r q)) = length ds /\
      peq (padd (pmul (pshift n q) (rev ds ++ [lcd])) (rev r))
          (padd (pmul (fst (kdiv_loop n dinv ds r q)) (rev ds ++ [lcd])) (rev (snd (kdiv_loop n dinv ds r q)))).
  Proof.
    intros Hinv. induction n as [|n IH]; intros r q Hl.
    - cbn [kdiv_loop fst snd]. split; [exact Hl|]. reflexivity.
    - destruct r as [|lc r1]; [cbn in Hl; lia|]. cbn [length] in Hl. cbn [kdiv_loop].
      set (qc := lc * dinv). set (r2 := ksub_row qc ds r1).
      assert (Hl2 : length r2 = (n + length ds)%nat) by (unfold r2; rewrite ksub_row_length; lia).
      destruct (IH r2 (qc :: q) Hl2) as [I1 I2]. split; [exact I1|]. rewrite <- I2. clear I1 I2 IH.
      rewrite (pshift_cons_split n qc q), (pmul_padd_distr_r fk), pmul_pshift_const.
      unfold r2. rewrite (rev_ksub_row qc ds r1) by lia.
      replace (length r1 - length ds)%nat with n by lia.
      (* rev (lc :: r1) = X^n qc (rev ds ++ [lcd]) + (rev r1 - X^n qc (rev ds)) *)
      assert (C : peq (rev (lc :: r1))
                      (padd (pshift n (pscale qc (rev ds ++ [lcd]))) (psub (rev r1) (pshift n (pscale qc (rev ds)))))).
      { apply peq_intro. intros i. cbn [rev]. rewrite coeff_padd, coeff_psub, !coeff_pshift, !coeff_pscale, !coeff_snoc, !rev_length.
        destruct (i <? length r1)%nat eqn:E1.
        - apply Nat.ltb_lt in E1. destruct (i <? n)%nat eqn:E2; [ring|]. apply Nat.ltb_ge in E2.
          replace (i - n <? length ds)%nat with true by (symmetry; apply Nat.ltb_lt; lia). ring.
        - apply Nat.ltb_ge in E1. replace (i <? n)%nat with false by (symmetry; apply Nat.ltb_ge; lia).
          replace (i - n <? length ds)%nat with false by (symmetry; apply Nat.ltb_ge; lia).
          rewrite (coeff_overflow fk (rev r1) i) by (rewrite rev_length; lia).
          rewrite (coeff_overflow fk (rev ds) (i - n)) by (rewrite rev_length; lia).
          destruct (i =? length r1)%nat eqn:E3.
          + apply Nat.eqb_eq in E3. replace (i - n =? length ds)%nat with true by (symmetry; apply Nat.eqb_eq; lia).
            unfold qc. transitivity (lc * (lcd * dinv)); [rewrite Hinv; ring|ring].
          + apply Nat.eqb_neq in E3. replace (i - n =? length ds)%nat with false by (symmetry; apply Nat.eqb_neq; lia). ring. }
      rewrite C. ring.
  Qed.
End KDiv.
