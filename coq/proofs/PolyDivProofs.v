(* proofs/PolyDivProofs.v - lemmas about model/PolyDiv.v against spec/PolySpec.v (property C09).

   Setting (as in proofs/PolyCoreProofs.v): `o : fops F` refines an abstract field `fk : fieldK K` through
   `field_ok o fk ok den`; a raw model list `l` with `Forall ok l` denotes the polynomial `map den l`; equality of
   polynomials is `peq`.

   Contents
     1. K[X]-level division theory: degree of sums, uniqueness of quotient and remainder (`pdivmod_unique`),
        divisibility `pdvd`, congruence modulo X^n (`pmodx`), the Newton step for power-series inversion.
     2. `naive_divide` / `divide` / Div / Rem / `reduce_long_division`: the K-level mirror of the pop-and-subtract loop and
        its invariant; `naive_divide_spec`, `naive_divide_unique`, zero divisor = panic.
     3. `reduce`: every arm returns THE remainder (the fast arm relative to `fast_reduce`'s stages, see 8).
     4. `clean_divide`: the long-division arm for every cutoff, the fallback of the repaired code, the refutations.
     5. `xgcd`: Bezout identity, common divisor, monic-or-zero, fuel never runs out.
     6. `formal_power_series_inverse_minimal`: f * g = 1 mod X^(n+1).
     7. `formal_power_series_inverse_newton`: the rounds before the switch to the NTT domain.
     8. structured multiples / fast_reduce: what is proved and what is left `_partial`. *)
From Coq Require Import ZArith Lia List Bool Ring Field Setoid Morphisms.
From TF Require Import Word BFieldGen BField XField FieldOps FieldTheory PolyGen PolyCore PolySpec Ntt PolyDiv PolyCoreProofs.
Import ListNotations.
Open Scope Z_scope.
Ltac Zify.zify_post_hook ::= Z.div_mod_to_equations.

(* ================================================================== 1. K[X]-level theory *)
Section PDivSpec.
  Context {K : Type} (fk : fieldK K).
  Local Notation "0" := (k0 fk).
  Local Notation "1" := (k1 fk).
  Local Infix "+" := (kadd fk).
  Local Infix "*" := (kmul fk).
  Local Infix "-" := (ksub fk).
  Local Notation "- x" := (kopp fk x).
  Local Notation peq := (peq fk).
  Local Notation pzero := (pzero fk).
  Local Notation coeff := (coeff fk).
  Local Notation padd := (padd fk).
  Local Notation psub := (psub fk).
  Local Notation popp := (popp fk).
  Local Notation pmul := (pmul fk).
  Local Notation pscale := (pscale fk).
  Local Notation pshift := (pshift fk).
  Local Notation pdeg := (pdeg fk).
  Local Notation plead := (plead fk).
  Local Notation pone := (pone fk).
  Add Field kfield_PolyDivProofs_Spec : (kFT fk).

  (* ---- K[X] is a commutative ring up to peq: `ring` proves peq goals built from padd pmul psub popp pone [] *)
  Lemma poly_ring_theory : ring_theory (@nil K) pone padd pmul psub popp peq.
  Proof.
    constructor.
    - intros x. apply padd_0_l.
    - intros x y. apply padd_comm.
    - intros x y z. apply padd_assoc.
    - intros x. apply pmul_1_l.
    - intros x y. apply pmul_comm.
    - intros x y z. apply pmul_assoc.
    - intros x y z. apply pmul_padd_distr_r.
    - intros x y. reflexivity.
    - intros x. apply padd_popp.
  Qed.
  Lemma poly_ring_ext : ring_eq_ext padd pmul popp peq.
  Proof.
    constructor.
    - intros x x' Hx y y' Hy. rewrite Hx, Hy. reflexivity.
    - intros x x' Hx y y' Hy. rewrite Hx, Hy. reflexivity.
    - intros x x' Hx. rewrite Hx. reflexivity.
  Qed.
  Add Ring polyring_PolyDivProofs_Spec : poly_ring_theory (setoid (peq_Equivalence fk) poly_ring_ext).
  Lemma pscale_as_pmul c p : peq (pscale c p) (pmul [c] p).
  Proof. symmetry. apply (pscale_pmul_const fk). Qed.

  (* ---- degrees *)
  Lemma pdeg_lt_iff p n : (pdeg p < Z.of_nat n)%Z <-> (forall i, (n <= i)%nat -> coeff p i = 0).
  Proof.
    split.
    - intros H i Hi. apply coeff_above_pdeg. lia.
    - apply pdeg_bound.
  Qed.
  Lemma pdeg_padd_lt p q n : (pdeg p < Z.of_nat n)%Z -> (pdeg q < Z.of_nat n)%Z -> (pdeg (padd p q) < Z.of_nat n)%Z.
  Proof.
    rewrite !pdeg_lt_iff. intros Hp Hq i Hi. rewrite coeff_padd, Hp, Hq by exact Hi. ring.
  Qed.
  Lemma pdeg_popp p : pdeg (popp p) = pdeg p.
  Proof.
    apply Z.le_antisymm.
    - assert (H : (pdeg (popp p) < Z.of_nat (Z.to_nat (pdeg p + 1)))%Z); [|pose proof (pdeg_ge fk p); lia].
      apply pdeg_lt_iff. intros i Hi. rewrite coeff_popp, coeff_above_pdeg; [ring|]. pose proof (pdeg_ge fk p). lia.
    - assert (H : (pdeg p < Z.of_nat (Z.to_nat (pdeg (popp p) + 1)))%Z); [|pose proof (pdeg_ge fk (popp p)); lia].
      apply pdeg_lt_iff. intros i Hi.
      assert (E : coeff (popp p) i = 0) by (apply coeff_above_pdeg; pose proof (pdeg_ge fk (popp p)); lia).
      rewrite coeff_popp in E. transitivity (- - coeff p i); [ring|]. rewrite E. ring.
  Qed.
  Lemma pdeg_psub_lt p q n : (pdeg p < Z.of_nat n)%Z -> (pdeg q < Z.of_nat n)%Z -> (pdeg (psub p q) < Z.of_nat n)%Z.
  Proof. intros Hp Hq. unfold PolySpec.psub. apply pdeg_padd_lt; [exact Hp|rewrite pdeg_popp; exact Hq]. Qed.
  Lemma pdeg_nonneg_iff p : (0 <= pdeg p)%Z <-> ~ pzero p.
  Proof.
    rewrite <- pdeg_neg_iff. pose proof (pdeg_ge fk p). lia.
  Qed.
  Lemma pdeg_length_lt p n : (length p <= n)%nat -> (pdeg p < Z.of_nat n)%Z.
  Proof. intros H. pose proof (pdeg_le_length fk p). lia. Qed.

  (* ---- ring identities up to peq that the division proofs use *)
  Lemma pmul_popp_l p q : peq (pmul (popp p) q) (popp (pmul p q)).
  Proof. rewrite (popp_pscale fk p), pmul_pscale_l, <- popp_pscale. reflexivity. Qed.
  Lemma pmul_psub_distr_r p q r : peq (pmul (psub p q) r) (psub (pmul p r) (pmul q r)).
  Proof. unfold PolySpec.psub. rewrite pmul_padd_distr_r, pmul_popp_l. reflexivity. Qed.
  Lemma pmul_psub_distr_l p q r : peq (pmul p (psub q r)) (psub (pmul p q) (pmul p r)).
  Proof. rewrite (pmul_comm fk p (psub q r)), pmul_psub_distr_r, (pmul_comm fk q p), (pmul_comm fk r p). reflexivity. Qed.
  Lemma psub_pzero_peq p q : pzero (psub p q) -> peq p q.
  Proof.
    intros H. apply peq_intro. intros i. specialize (H i). rewrite coeff_psub in H.
    transitivity (coeff p i - coeff q i + coeff q i); [ring|]. rewrite H. ring.
  Qed.
  Lemma psub_self p q : peq p q -> pzero (psub p q).
  Proof. intros [H] i. rewrite coeff_psub, H. ring. Qed.

  (* ---- uniqueness of quotient and remainder *)
  Theorem pdivmod_unique d q r q' r' :
    peq (padd (pmul q d) r) (padd (pmul q' d) r') ->
    (pdeg r < pdeg d)%Z -> (pdeg r' < pdeg d)%Z ->
    peq q q' /\ peq r r'.
  Proof.
    intros E Hr Hr'.
    assert (Hd : (0 <= pdeg d)%Z) by (pose proof (pdeg_ge fk r); lia).
    (* (q - q') d = r' - r *)
    assert (E2 : peq (pmul (psub q q') d) (psub r' r)).
    { rewrite pmul_psub_distr_r. apply peq_intro. intros i. pose proof (peq_elim fk _ _ E i) as Ei.
      rewrite !coeff_padd in Ei. rewrite !coeff_psub.
      transitivity (coeff (pmul q d) i + coeff r i - coeff r i - coeff (pmul q' d) i); [ring|]. rewrite Ei. ring. }
    assert (Hz : pzero (psub q q')).
    { apply pdeg_neg_iff. destruct (Z.eq_dec (pdeg (psub q q')) (-1)) as [X|X]; [exact X|exfalso].
      assert (Hq : (0 <= pdeg (psub q q'))%Z) by (pose proof (pdeg_ge fk (psub q q')); lia).
      pose proof (pdeg_pmul fk _ _ Hq Hd) as Dm. rewrite (pdeg_peq fk _ _ E2) in Dm.
      assert (B : (pdeg (psub r' r) < Z.of_nat (Z.to_nat (pdeg d)))%Z) by (apply pdeg_psub_lt; lia).
      lia. }
    split; [apply psub_pzero_peq; exact Hz|].
    apply psub_pzero_peq. intros i. pose proof (peq_elim fk _ _ E2 i) as Ei.
    rewrite (pmul_pzero_l fk _ d Hz i) in Ei. rewrite coeff_psub in *.
    transitivity (- (coeff r' i - coeff r i)); [ring|]. rewrite <- Ei. ring.
  Qed.

  (* `r` is THE remainder of `a` modulo `d` *)
  Definition is_rem (a d r : list K) : Prop := (exists q, peq a (padd (pmul q d) r)) /\ (pdeg r < pdeg d)%Z.
  (* `(q, r)` is THE quotient-remainder pair *)
  Definition is_divmod (a d q r : list K) : Prop := peq a (padd (pmul q d) r) /\ (pdeg r < pdeg d)%Z.
  Lemma is_divmod_unique a d q r q' r' : is_divmod a d q r -> is_divmod a d q' r' -> peq q q' /\ peq r r'.
  Proof. intros [E1 B1] [E2 B2]. apply (pdivmod_unique d); [rewrite <- E1, <- E2; reflexivity|exact B1|exact B2]. Qed.
  Lemma is_rem_unique a d r r' : is_rem a d r -> is_rem a d r' -> peq r r'.
  Proof. intros [[q E1] B1] [[q' E2] B2]. exact (proj2 (is_divmod_unique a d q r q' r' (conj E1 B1) (conj E2 B2))). Qed.
  Lemma is_rem_peq a a' d d' r r' : peq a a' -> peq d d' -> peq r r' -> is_rem a d r -> is_rem a' d' r'.
  Proof.
    intros Ea Ed Er [[q E] B]. split.
    - exists q. rewrite <- Ea, <- Ed, <- Er. exact E.
    - rewrite <- (pdeg_peq fk _ _ Ed), <- (pdeg_peq fk _ _ Er). exact B.
  Qed.
  (* congruent dividends have the same remainder *)
  Lemma is_rem_congr a b d r : (exists k, peq a (padd (pmul k d) b)) -> is_rem b d r -> is_rem a d r.
  Proof.
    intros [k Ek] [[q E] B]. split; [|exact B]. exists (padd k q).
    rewrite Ek, E, pmul_padd_distr_r. apply peq_intro. intros i. rewrite !coeff_padd. ring.
  Qed.

  (* ---- divisibility *)
  Definition pdvd (d a : list K) : Prop := exists q, peq a (pmul q d).
  Lemma pdvd_refl p : pdvd p p.
  Proof. exists pone. symmetry. apply pmul_1_l. Qed.
  Lemma pdvd_zero d a : pzero a -> pdvd d a.
  Proof. intros Z. exists []. apply peq_nil_pzero in Z. rewrite Z. reflexivity. Qed.
  Lemma pdvd_peq d d' a a' : peq d d' -> peq a a' -> pdvd d a -> pdvd d' a'.
  Proof. intros Ed Ea [q E]. exists q. rewrite <- Ea, <- Ed. exact E. Qed.
  Lemma pdvd_padd d a b : pdvd d a -> pdvd d b -> pdvd d (padd a b).
  Proof. intros [q E] [q' E']. exists (padd q q'). rewrite E, E', pmul_padd_distr_r. reflexivity. Qed.
  Lemma pdvd_pmul_l d a c : pdvd d a -> pdvd d (pmul c a).
  Proof. intros [q E]. exists (pmul c q). rewrite E. apply pmul_assoc. Qed.
  Lemma pdvd_popp d a : pdvd d a -> pdvd d (popp a).
  Proof. intros [q E]. exists (popp q). rewrite E, pmul_popp_l. reflexivity. Qed.
  Lemma pdvd_psub d a b : pdvd d a -> pdvd d b -> pdvd d (psub a b).
  Proof. intros Ha Hb. unfold PolySpec.psub. apply pdvd_padd; [exact Ha|apply pdvd_popp; exact Hb]. Qed.
  Lemma pdvd_trans a b c : pdvd a b -> pdvd b c -> pdvd a c.
  Proof. intros [q E] [q' E']. exists (pmul q' q). rewrite E', E. apply pmul_assoc. Qed.
  Lemma pdvd_pscale d a c : pdvd d a -> pdvd d (pscale c a).
  Proof. intros [q E]. exists (pscale c q). rewrite E, pmul_pscale_l. reflexivity. Qed.
  (* scaling the divisor by a unit *)
  Lemma pdvd_pscale_l d a c : c <> 0 -> pdvd d a -> pdvd (pscale c d) a.
  Proof.
    intros Hc [q E]. exists (pscale (kinv fk c) q). rewrite E, pmul_pscale_l, pmul_pscale_r.
    apply peq_intro. intros i. rewrite !coeff_pscale. field. exact Hc.
  Qed.
  (* exact division: the remainder of a multiple is zero, the quotient is the cofactor *)
  Lemma is_divmod_of_pdvd a d q r q0 : ~ pzero d -> peq a (pmul q0 d) -> is_divmod a d q r -> peq q q0 /\ pzero r.
  Proof.
    intros Hd E0 Hqr.
    assert (H0 : is_divmod a d q0 []).
    { split; [rewrite E0; symmetry; apply padd_0_r|]. apply pdeg_nonneg_iff in Hd. change (pdeg []) with (-1)%Z. lia. }
    destruct (is_divmod_unique _ _ _ _ _ _ Hqr H0) as [E1 E2]. split; [exact E1|]. apply peq_nil_pzero. exact E2.
  Qed.

  (* ---- congruence modulo X^n *)
  Definition pmodx (n : nat) (p q : list K) : Prop := forall i, (i < n)%nat -> coeff p i = coeff q i.
  Lemma pmodx_peq n p p' q q' : peq p p' -> peq q q' -> pmodx n p q -> pmodx n p' q'.
  Proof. intros [Ep] [Eq] H i Hi. rewrite <- Ep, <- Eq. apply H. exact Hi. Qed.
  Lemma pmodx_le n m p q : (m <= n)%nat -> pmodx n p q -> pmodx m p q.
  Proof. intros L H i Hi. apply H. lia. Qed.
  (* low part of a square: if e vanishes below X^k then e^2 vanishes below X^(2k) *)
  Lemma pmul_low_zero e e' k k' : pmodx k e [] -> pmodx k' e' [] -> pmodx (k + k') (pmul e e') [].
  Proof.
    intros He He' m Hm. rewrite coeff_nil, coeff_pmul.
    rewrite (ksum_ext fk _ (fun _ => 0)), ksum_0; [reflexivity|].
    intros j Hj. destruct (Nat.lt_ge_cases j k) as [L|G].
    - rewrite (He j L), coeff_nil. ring.
    - rewrite (He' (m - j)%nat) by lia. rewrite coeff_nil. ring.
  Qed.
  (* Newton step: f s = 1 mod X^k  ->  (2f - f^2 s) s = 1 mod X^(2k) *)
  Lemma newton_step f s g two k :
    pmodx k (pmul f s) pone -> peq g (psub (pscale two f) (pmul (pmul f f) s)) -> two = 1 + 1 ->
    pmodx (k + k) (pmul g s) pone.
  Proof.
    intros Hk Eg Etwo.
    (* 1 - g s = (1 - f s)^2 *)
    set (e := psub pone (pmul f s)).
    assert (He : pmodx k e []).
    { intros i Hi. unfold e. rewrite coeff_psub, (Hk i Hi), coeff_nil. ring. }
    assert (Esq : peq (psub pone (pmul g s)) (pmul e e)).
    { unfold e. rewrite Eg.
      assert (E2 : peq (pscale two f) (padd f f)).
      { apply peq_intro. intros i. rewrite coeff_pscale, coeff_padd. subst two. ring. }
      rewrite E2. ring. }
    pose proof (pmul_low_zero e e k k He He) as Hlow.
    intros i Hi. pose proof (peq_elim fk _ _ Esq i) as Ei. rewrite (Hlow i Hi), coeff_nil, coeff_psub in Ei.
    transitivity (coeff pone i - (coeff pone i - coeff (pmul g s) i)); [ring|]. rewrite Ei. ring.
  Qed.
End PDivSpec.

(* ================================================================== 2. the long-division loop *)
(* K-level mirror of `pdiv_sub_row` / `pdiv_div_loop` (total: the lengths that make the model panic-free are
   hypotheses of the lemmas).  The remainder is kept highest coefficient first, as in the model. *)
Section KDiv.
  Context {K : Type} (fk : fieldK K).
  Local Notation "0" := (k0 fk).
  Local Notation "1" := (k1 fk).
  Local Infix "+" := (kadd fk).
  Local Infix "*" := (kmul fk).
  Local Infix "-" := (ksub fk).
  Local Notation peq := (peq fk).
  Local Notation coeff := (coeff fk).
  Local Notation padd := (padd fk).
  Local Notation psub := (psub fk).
  Local Notation pmul := (pmul fk).
  Local Notation pscale := (pscale fk).
  Local Notation pshift := (pshift fk).
  Local Notation pXn := (pXn fk).
  Add Field kfield_PolyDivProofs_KDiv : (kFT fk).
  Add Ring polyring_PolyDivProofs_KDiv : (poly_ring_theory fk) (setoid (peq_Equivalence fk) (poly_ring_ext fk)).

  Fixpoint ksub_row (qc : K) (ds r : list K) : list K :=
    match ds, r with
    | d :: ds', x :: r' => (x - qc * d) :: ksub_row qc ds' r'
    | _, _ => r
    end.
  Fixpoint kdiv_loop (n : nat) (dinv : K) (ds r q : list K) : list K * list K :=
    match n with
    | O => (q, r)
    | S n' => match r with
              | [] => (q, r)
              | lc :: r' => let qc := lc * dinv in kdiv_loop n' dinv ds (ksub_row qc ds r') (qc :: q)
              end
    end.

  Lemma ksub_row_length qc ds r : length (ksub_row qc ds r) = length r.
  Proof. revert r. induction ds as [|d ds IH]; intros [|x r]; cbn [ksub_row length]; try reflexivity. rewrite IH. reflexivity. Qed.
  Lemma ksub_row_zero ds r : ksub_row 0 ds r = r.
  Proof.
    revert r. induction ds as [|d ds IH]; intros [|x r]; cbn [ksub_row]; try reflexivity. rewrite IH. f_equal. ring.
  Qed.
  Lemma coeff_snoc (p : list K) x i :
    coeff (p ++ [x]) i = if (i <? length p)%nat then coeff p i else if (i =? length p)%nat then x else 0.
  Proof.
    destruct (i <? length p)%nat eqn:E.
    - apply Nat.ltb_lt in E. apply coeff_app_l. exact E.
    - apply Nat.ltb_ge in E. rewrite coeff_app_r by exact E. destruct (i =? length p)%nat eqn:E2.
      + apply Nat.eqb_eq in E2. subst i. rewrite Nat.sub_diag. reflexivity.
      + apply Nat.eqb_neq in E2. destruct (i - length p)%nat eqn:E3; [lia|]. rewrite coeff_cons_S. apply coeff_nil.
  Qed.
  Lemma rev_ksub_row qc ds r : (length ds <= length r)%nat ->
    peq (rev (ksub_row qc ds r)) (psub (rev r) (pshift (length r - length ds) (pscale qc (rev ds)))).
  Proof.
    revert r. induction ds as [|d ds IH]; intros r Hl.
    - assert (E : ksub_row qc [] r = r) by (destruct r; reflexivity). rewrite E.
      apply peq_intro. intros i. rewrite coeff_psub, coeff_pshift. cbn [rev]. unfold PolySpec.pscale. cbn [map].
      destruct (i <? length r - length (@nil K))%nat; [ring|rewrite coeff_nil; ring].
    - destruct r as [|x r]; [cbn in Hl; lia|]. cbn [length] in Hl. cbn [ksub_row rev length].
      replace (S (length r) - S (length ds))%nat with (length r - length ds)%nat by lia.
      set (s := (length r - length ds)%nat).
      specialize (IH r ltac:(lia)). fold s in IH.
      apply peq_intro. intros i. pose proof (peq_elim fk _ _ IH i) as IHi.
      rewrite coeff_psub, coeff_pshift, coeff_pscale in IHi.
      rewrite coeff_psub, coeff_pshift, coeff_pscale, !coeff_snoc.
      rewrite !rev_length, ksub_row_length.
      destruct (i <? length r)%nat eqn:E1.
      + apply Nat.ltb_lt in E1. rewrite IHi. destruct (i <? s)%nat eqn:E2; [reflexivity|].
        apply Nat.ltb_ge in E2. replace (i - s <? length ds)%nat with true by (symmetry; apply Nat.ltb_lt; lia). reflexivity.
      + apply Nat.ltb_ge in E1. replace (i <? s)%nat with false by (symmetry; apply Nat.ltb_ge; lia).
        replace (i - s <? length ds)%nat with false by (symmetry; apply Nat.ltb_ge; lia).
        destruct (i =? length r)%nat eqn:E3.
        * apply Nat.eqb_eq in E3. replace (i - s =? length ds)%nat with true by (symmetry; apply Nat.eqb_eq; lia). reflexivity.
        * apply Nat.eqb_neq in E3. replace (i - s =? length ds)%nat with false by (symmetry; apply Nat.eqb_neq; lia). ring.
  Qed.

  Lemma pshift_cons_split n c (q : list K) : peq (pshift n (c :: q)) (padd (pshift n [c]) (pshift (S n) q)).
  Proof.
    apply peq_intro. intros i. rewrite coeff_padd, !coeff_pshift.
    destruct (i <? n)%nat eqn:E1.
    - apply Nat.ltb_lt in E1. replace (i <? S n)%nat with true by (symmetry; apply Nat.ltb_lt; lia). ring.
    - apply Nat.ltb_ge in E1. destruct (i - n)%nat eqn:E2.
      + replace (i <? S n)%nat with true by (symmetry; apply Nat.ltb_lt; lia). rewrite !coeff_cons_0. ring.
      + replace (i <? S n)%nat with false by (symmetry; apply Nat.ltb_ge; lia).
        rewrite !coeff_cons_S, coeff_nil. replace (i - S n)%nat with n0 by lia. ring.
  Qed.
  Lemma pmul_pshift_const n c p : peq (pmul (pshift n [c]) p) (pshift n (pscale c p)).
  Proof. rewrite !(pshift_pmul fk), (pscale_as_pmul fk). ring. Qed.

  (* the loop invariant: a = X^n q d + rev r  is preserved; at the end  a = q' d + rev r'  with |r'| = |ds| *)
  Lemma kdiv_loop_spec lcd dinv ds : lcd * dinv = 1 ->
    forall n r q, length r = (n + length ds)%nat ->
      length (snd (kdiv_loop n dinv ds r q)) = length ds /\
      peq (padd (pmul (pshift n q) (rev ds ++ [lcd])) (rev r))
          (padd (pmul (fst (kdiv_loop n dinv ds r q)) (rev ds ++ [lcd])) (rev (snd (kdiv_loop n dinv ds r q)))).
  Proof.
    intros Hinv. induction n as [|n IH]; intros r q Hl.
    - cbn [kdiv_loop fst snd]. split; [exact Hl|]. reflexivity.
    - destruct r as [|lc r1]; [cbn in Hl; lia|]. cbn [length] in Hl. cbn [kdiv_loop].
      set (qc := lc * dinv). set (r2 := ksub_row qc ds r1).
      assert (Hl2 : length r2 = (n + length ds)%nat) by (unfold r2; rewrite ksub_row_length; lia).
      destruct (IH r2 (qc :: q) Hl2) as [I1 I2]. split; [exact I1|]. rewrite <- I2. clear I1 I2 IH.
      rewrite (pshift_cons_split n qc q), (pmul_padd_distr_r fk), pmul_pshift_const.
      unfold r2. rewrite (rev_ksub_row qc ds r1) by lia.
      replace (length r1 - length ds)%nat with n by lia.
      (* rev (lc :: r1) = X^n qc (rev ds ++ [lcd]) + (rev r1 - X^n qc (rev ds)) *)
      assert (C : peq (rev (lc :: r1))
                      (padd (pshift n (pscale qc (rev ds ++ [lcd]))) (psub (rev r1) (pshift n (pscale qc (rev ds)))))).
      { apply peq_intro. intros i. cbn [rev]. rewrite coeff_padd, coeff_psub, !coeff_pshift, !coeff_pscale, !coeff_snoc, !rev_length.
        destruct (i <? length r1)%nat eqn:E1.
        - apply Nat.ltb_lt in E1. destruct (i <? n)%nat eqn:E2; [ring|]. apply Nat.ltb_ge in E2.
          replace (i - n <? length ds)%nat with true by (symmetry; apply Nat.ltb_lt; lia). ring.
        - apply Nat.ltb_ge in E1. replace (i <? n)%nat with false by (symmetry; apply Nat.ltb_ge; lia).
          replace (i - n <? length ds)%nat with false by (symmetry; apply Nat.ltb_ge; lia).
          rewrite (coeff_overflow fk (rev r1) i) by (rewrite rev_length; lia).
          rewrite (coeff_overflow fk (rev ds) (i - n)) by (rewrite rev_length; lia).
          destruct (i =? length r1)%nat eqn:E3.
          + apply Nat.eqb_eq in E3. replace (i - n =? length ds)%nat with true by (symmetry; apply Nat.eqb_eq; lia).
            unfold qc. transitivity (lc * (lcd * dinv)); [rewrite Hinv; ring|ring].
          + apply Nat.eqb_neq in E3. replace (i - n =? length ds)%nat with false by (symmetry; apply Nat.eqb_neq; lia). ring. }
      rewrite C. ring.
  Qed.
End KDiv.

(* the model loop refines the K-level loop and never panics on well-sized arguments *)
Section DivModel.
  Context {F K : Type} (o : fops F) (fk : fieldK K) (ok : F -> Prop) (den : F -> K).
  Hypothesis H : field_ok o fk ok den.
  Local Notation "0" := (k0 fk).
  Local Notation "1" := (k1 fk).
  Local Infix "+" := (kadd fk).
  Local Infix "*" := (kmul fk).
  Local Infix "-" := (ksub fk).
  Local Notation D := (map den).
  Local Notation okl := (Forall ok).
  Local Notation peq := (peq fk).
  Local Notation pzero := (pzero fk).
  Local Notation padd := (padd fk).
  Local Notation pmul := (pmul fk).
  Local Notation pdeg := (pdeg fk).
  Add Field kfield_PolyDivProofs_DivModel : (kFT fk).
  Add Ring polyring_PolyDivProofs_DivModel : (poly_ring_theory fk) (setoid (peq_Equivalence fk) (poly_ring_ext fk)).

  Lemma sub_row_D qc ds : ok qc -> okl ds -> forall r, okl r -> (length ds <= length r)%nat ->
    exists t, pdiv_sub_row o qc ds r = Some t /\ okl t /\ D t = ksub_row fk (den qc) (D ds) (D r).
  Proof.
    intros Hq Hds. induction Hds as [|d ds Hd Hds IH]; intros r Hr Hl.
    - exists r. split; [reflexivity|]. split; [exact Hr|]. destruct r; reflexivity.
    - destruct r as [|x r]; [cbn in Hl; lia|]. inversion Hr as [|? ? Hx Hr']; subst. cbn [length] in Hl.
      destruct (IH r Hr' ltac:(lia)) as [t [E1 [E2 E3]]]. cbn [pdiv_sub_row]. rewrite E1.
      exists (fsub o x (fmul o qc d) :: t). split; [reflexivity|].
      destruct (fo_mul _ _ _ _ H qc d Hq Hd) as [M1 M2].
      destruct (fo_sub _ _ _ _ H x (fmul o qc d) Hx M1) as [S1 S2].
      split; [constructor; assumption|]. cbn [map ksub_row]. rewrite S2, M2, E3. reflexivity.
  Qed.
  Lemma div_loop_D dinv ds : ok dinv -> okl ds -> forall n r q, okl r -> okl q -> length r = (n + length ds)%nat ->
    exists q' r', pdiv_div_loop o n dinv ds r q = Some (q', r') /\ okl q' /\ okl r' /\
                  (D q', D r') = kdiv_loop fk n (den dinv) (D ds) (D r) (D q).
  Proof.
    intros Hdi Hds. induction n as [|n IH]; intros r q Hr Hq Hl.
    - exists q, r. repeat split; assumption.
    - destruct r as [|lc r1]; [cbn in Hl; lia|]. inversion Hr as [|? ? Hlc Hr1]; subst. cbn [length] in Hl.
      cbn [pdiv_div_loop map kdiv_loop].
      destruct (fo_mul _ _ _ _ H lc dinv Hlc Hdi) as [M1 M2].
      destruct (fis_zero o (fmul o lc dinv)) eqn:Ez.
      + apply (is0_iff o fk ok den H _ M1) in Ez.
        destruct (IH r1 (fmul o lc dinv :: q) Hr1 ltac:(constructor; assumption) ltac:(lia)) as [q' [r' [E1 [E2 [E3 E4]]]]].
        exists q', r'. split; [exact E1|]. split; [exact E2|]. split; [exact E3|].
        rewrite E4. cbn [map]. rewrite <- M2, Ez, ksub_row_zero. reflexivity.
      + destruct (sub_row_D (fmul o lc dinv) ds M1 Hds r1 Hr1 ltac:(lia)) as [t [T1 [T2 T3]]]. rewrite T1.
        assert (Lt : length t = (n + length ds)%nat).
        { rewrite <- (map_length den t), T3, ksub_row_length, map_length. lia. }
        destruct (IH t (fmul o lc dinv :: q) T2 ltac:(constructor; assumption) Lt) as [q' [r' [E1 [E2 [E3 E4]]]]].
        exists q', r'. split; [exact E1|]. split; [exact E2|]. split; [exact E3|].
        rewrite E4. cbn [map]. rewrite T3, M2. reflexivity.
  Qed.

  Lemma firstn_S_nth_error {A} (l : list A) k c : nth_error l k = Some c -> firstn (S k) l = firstn k l ++ [c].
  Proof.
    revert k. induction l as [|x l IH]; intros [|k] E; cbn in E; try discriminate.
    - inversion E. reflexivity.
    - cbn [firstn app]. f_equal. apply IH. exact E.
  Qed.
  (* the reversed normalised divisor starts with the leading coefficient *)
  Lemma rev_normalize_head d lc : poly_leading_coefficient o d = Some (Some lc) ->
    exists ds, rev (poly_normalize o d) = lc :: ds /\ Z.of_nat (length ds) = poly_degree o d.
  Proof.
    unfold poly_leading_coefficient. destruct (poly_degree o d =? -1) eqn:E0; [discriminate|]. apply Z.eqb_neq in E0.
    pose proof (degree_ge o d) as G.
    destruct (idx d (poly_degree o d)) as [c|] eqn:E1; [|discriminate]. intros X. inversion X; subst c. clear X.
    unfold idx in E1. destruct (poly_degree o d <? 0) eqn:E2; [discriminate|].
    rewrite (normalize_prefix o d).
    assert (L : length (poly_normalize o d) = S (Z.to_nat (poly_degree o d))).
    { unfold poly_degree, zlen in *. lia. }
    rewrite L, (firstn_S_nth_error d _ lc E1), rev_app_distr. cbn [rev app].
    exists (rev (firstn (Z.to_nat (poly_degree o d)) d)). split; [reflexivity|].
    rewrite rev_length, firstn_length.
    assert (Z.to_nat (poly_degree o d) < length d)%nat by (apply nth_error_Some; rewrite E1; discriminate). lia.
  Qed.
  Lemma pshift_nil_peq n : peq (pshift fk n []) [].
  Proof. apply peq_intro. intros i. rewrite coeff_pshift, !coeff_nil. destruct (i <? n)%nat; reflexivity. Qed.

  (* divide: a = q d + r with deg r < deg d, for every non-zero divisor; no panic *)
  Theorem naive_divide_spec a d : okl a -> okl d -> ~ pzero (D d) ->
    exists q r, pdiv_naive_divide o a d = Some (q, r) /\ okl q /\ okl r /\ is_divmod fk (D a) (D d) (D q) (D r).
  Proof.
    intros Ha Hd NZ. unfold pdiv_naive_divide.
    destruct (proj2 (leading_coeff_nonzero o fk ok den H d Hd) NZ) as [lc [E1 [Hlc [E2 E3]]]]. rewrite E1.
    destruct (fo_inv _ _ _ _ H lc Hlc E3) as [dinv [Ei [Hdi Edi]]]. rewrite Ei.
    pose proof (degree_pdeg o fk ok den H a Ha) as Da. pose proof (degree_pdeg o fk ok den H d Hd) as Dd.
    assert (Gd : (0 <= poly_degree o d)%Z) by (rewrite Dd; apply pdeg_nonneg_iff; exact NZ).
    destruct (poly_degree o a - poly_degree o d <? 0)%Z eqn:Eq.
    - apply Z.ltb_lt in Eq. exists [], a. split; [reflexivity|]. split; [constructor|]. split; [exact Ha|].
      split; [cbn [map PolySpec.pmul PolySpec.padd]; reflexivity|]. lia.
    - apply Z.ltb_ge in Eq.
      destruct (rev_normalize_head d lc E1) as [ds [R1 R2]].
      pose proof (normalize_ok o ok a Ha) as Han. pose proof (normalize_ok o ok d Hd) as Hdn.
      assert (Hds : okl ds).
      { assert (X : okl (rev (poly_normalize o d))) by (apply Forall_rev; exact Hdn). rewrite R1 in X. inversion X; assumption. }
      rewrite R1. cbn [tl].
      set (n := Z.to_nat (poly_degree o a - poly_degree o d + 1)).
      assert (Ln : length (rev (poly_normalize o a)) = (n + length ds)%nat).
      { rewrite rev_length. unfold n. unfold poly_degree, zlen in *. lia. }
      destruct (div_loop_D dinv ds Hdi Hds n (rev (poly_normalize o a)) [] (Forall_rev Han) (Forall_nil _) Ln)
        as [q' [r' [L1 [L2 [L3 L4]]]]].
      rewrite L1. exists q', (rev r'). split; [reflexivity|]. split; [exact L2|]. split; [apply Forall_rev; exact L3|].
      assert (Hinv : den lc * den dinv = 1) by (rewrite Edi; field; exact E3).
      assert (Ln' : length (D (rev (poly_normalize o a))) = (n + length (D ds))%nat) by (rewrite !map_length; exact Ln).
      destruct (kdiv_loop_spec fk (den lc) (den dinv) (D ds) Hinv n (D (rev (poly_normalize o a))) (D []) Ln') as [K1 K2].
      rewrite <- L4 in K1, K2. cbn [fst snd] in K1, K2.
      (* the divisor polynomial *)
      assert (Edp : rev (D ds) ++ [den lc] = D (poly_normalize o d)).
      { rewrite <- (rev_involutive (poly_normalize o d)), R1. cbn [rev]. rewrite map_app, map_rev. reflexivity. }
      rewrite Edp in K2. cbn [map] in K2. rewrite (pshift_nil_peq n) in K2.
      rewrite map_rev, rev_involutive in K2.
      rewrite (normalize_peq o fk ok den H a Ha), (normalize_peq o fk ok den H d Hd) in K2.
      split.
      + rewrite map_rev, <- K2. ring.
      + rewrite map_rev. assert (B : (pdeg (rev (D r')) < Z.of_nat (length ds))%Z).
        { apply pdeg_length_lt. rewrite rev_length, K1, map_length. lia. }
        lia.
  Qed.
  (* division by zero panics ("divisor should be non-zero") *)
  Theorem naive_divide_zero_divisor a d : okl d -> pzero (D d) -> pdiv_naive_divide o a d = None.
  Proof.
    intros Hd Z. unfold pdiv_naive_divide. rewrite (proj1 (leading_coeff_nonzero o fk ok den H d Hd) Z). reflexivity.
  Qed.
  (* hence the result is THE quotient and THE remainder *)
  Theorem naive_divide_unique a d q r q0 r0 : okl a -> okl d ->
    pdiv_naive_divide o a d = Some (q, r) -> is_divmod fk (D a) (D d) q0 r0 -> peq (D q) q0 /\ peq (D r) r0.
  Proof.
    intros Ha Hd E S0.
    assert (NZ : ~ pzero (D d)).
    { intros Z. rewrite (naive_divide_zero_divisor a d Hd Z) in E. discriminate. }
    destruct (naive_divide_spec a d Ha Hd NZ) as [q' [r' [E' [_ [_ S]]]]]. rewrite E in E'. inversion E'; subst q' r'.
    exact (is_divmod_unique fk _ _ _ _ _ _ S S0).
  Qed.
  Theorem naive_divide_panics_iff a d : okl a -> okl d -> (pdiv_naive_divide o a d = None <-> pzero (D d)).
  Proof.
    intros Ha Hd. split.
    - intros E. destruct (pdeg_neg_iff fk (D d)) as [X _]. destruct (Z.eq_dec (pdeg (D d)) (-1)) as [Y|Y]; [exact (X Y)|].
      exfalso. assert (NZ : ~ pzero (D d)) by (intros Z; apply pdeg_neg_iff in Z; contradiction).
      destruct (naive_divide_spec a d Ha Hd NZ) as [q [r [E' _]]]. rewrite E in E'. discriminate.
    - apply naive_divide_zero_divisor. exact Hd.
  Qed.

  (* Div, Rem, divide, reduce_long_division *)
  Theorem div_rem_spec a d : okl a -> okl d -> ~ pzero (D d) ->
    exists q r, pdiv_divide o a d = Some (q, r) /\ pdiv_div o a d = Some q /\ pdiv_rem o a d = Some r /\
                pdiv_reduce_long_division o a d = Some r /\ okl q /\ okl r /\ is_divmod fk (D a) (D d) (D q) (D r).
  Proof.
    intros Ha Hd NZ. destruct (naive_divide_spec a d Ha Hd NZ) as [q [r [E [Hq [Hr S]]]]]. exists q, r.
    unfold pdiv_divide, pdiv_div, pdiv_rem, pdiv_reduce_long_division, pdiv_divide. rewrite E. repeat split; try assumption; apply S.
  Qed.
  Lemma reduce_long_division_spec a d : okl a -> okl d -> ~ pzero (D d) ->
    exists r, pdiv_reduce_long_division o a d = Some r /\ okl r /\ is_rem fk (D a) (D d) (D r).
  Proof.
    intros Ha Hd NZ. destruct (div_rem_spec a d Ha Hd NZ) as [q [r [_ [_ [_ [E [_ [Hr [S1 S2]]]]]]]]].
    exists r. split; [exact E|]. split; [exact Hr|]. split; [exists (D q); exact S1|exact S2].
  Qed.
End DivModel.

(* ================================================================== 4. clean_divide
   `pdiv_clean_divide_gen fix1 fix2` over an arbitrary base-field record; the extension field, the transforms and batch
   inversion are parameters.  Proved here for EVERY value of the cutoff (so for the production 512 and the cfg(test) 0):
     - the long-division arm (deg d < cutoff): the exact quotient of every clean division; zero divisor = panic;
     - the removal of the root 0 keeps the division clean with the same quotient and, since 8b5e451, never panics;
     - the fallback of the NTT arm (since 87d4e9b): whenever a divisor evaluation is zero the exact quotient is returned.
   The zero-free NTT arm (pointwise division of the two codewords) is not proved here: see C09_clean_divide_full. *)
Section CleanDivideProofs.
  Context {F X K : Type} (o : fops F) (ox : fops X) (act : fact F X) (unlift : X -> option F) (offset : X).
  Variable nttx : list X -> option (list X).
  Variable inttx : list X -> option (list X).
  Variable batch_inv : list X -> option (list X).
  Context (fk : fieldK K) (ok : F -> Prop) (den : F -> K).
  Hypothesis H : field_ok o fk ok den.
  Local Notation "0" := (k0 fk).
  Local Infix "*" := (kmul fk).
  Local Notation D := (map den).
  Local Notation okl := (Forall ok).
  Local Notation peq := (peq fk).
  Local Notation pzero := (pzero fk).
  Local Notation pmul := (pmul fk).
  Local Notation clean := (pdiv_clean_divide_gen o ox act unlift offset nttx inttx batch_inv).
  Add Field kfield_PolyDivProofs_Clean : (kFT fk).
  Add Ring polyring_PolyDivProofs_Clean : (poly_ring_theory fk) (setoid (peq_Equivalence fk) (poly_ring_ext fk)).

  Lemma long_division_arm_spec dbg a d q0 : okl a -> okl d -> ~ pzero (D d) -> peq (D a) (pmul q0 (D d)) ->
    exists q, pdiv_long_division_arm o dbg a d = Some q /\ okl q /\ peq (D q) q0.
  Proof.
    intros Ha Hd NZ E. unfold pdiv_long_division_arm.
    destruct (div_rem_spec o fk ok den H a d Ha Hd NZ) as [q [r [E1 [_ [_ [_ [Hq [Hr S]]]]]]]]. rewrite E1.
    destruct (is_divmod_of_pdvd fk _ _ _ _ q0 NZ E S) as [Eq Zr].
    apply (is_zero_iff o fk ok den H r Hr) in Zr. rewrite Zr. cbn [negb]. rewrite andb_false_r.
    exists q. split; [reflexivity|]. split; [exact Hq|exact Eq].
  Qed.
  Lemma long_division_arm_zero_divisor dbg a d : okl d -> pzero (D d) -> pdiv_long_division_arm o dbg a d = None.
  Proof.
    intros Hd Z. unfold pdiv_long_division_arm, pdiv_divide. rewrite (naive_divide_zero_divisor o fk ok den H a d Hd Z). reflexivity.
  Qed.

  (* exact division below the cutoff: every cutoff, with and without debug assertions, every version of the code *)
  Theorem clean_divide_long_arm_spec fix1 fix2 cutoff dbg a d q0 :
    okl a -> okl d -> ~ pzero (D d) -> peq (D a) (pmul q0 (D d)) -> (poly_degree o d < cutoff)%Z ->
    exists q, clean fix1 fix2 cutoff dbg a d = Some q /\ okl q /\ peq (D q) q0.
  Proof.
    intros Ha Hd NZ E Hc. unfold pdiv_clean_divide_gen. apply Z.ltb_lt in Hc. rewrite Hc.
    apply long_division_arm_spec; assumption.
  Qed.
  (* the zero divisor panics, as documented (both cutoffs are >= 0) *)
  Theorem clean_divide_zero_divisor fix1 fix2 cutoff dbg a d : okl d -> pzero (D d) -> (0 <= cutoff)%Z ->
    clean fix1 fix2 cutoff dbg a d = None.
  Proof.
    intros Hd Z Hc. unfold pdiv_clean_divide_gen.
    assert (E : (poly_degree o d <? cutoff)%Z = true).
    { apply Z.ltb_lt. apply (degree_neg_pzero o fk ok den H d Hd) in Z. lia. }
    rewrite E. apply long_division_arm_zero_divisor; assumption.
  Qed.

  (* removal of the root 0 *)
  Lemma pmul_cons0_r q p : peq (pmul q (0 :: p)) (0 :: pmul q p).
  Proof. rewrite (pmul_comm fk q (0 :: p)), pmul_cons0_l. apply peq_cons; [reflexivity|apply pmul_comm]. Qed.
  Lemma remove_root0_spec fix2 a d q0 a1 d1 : okl a -> okl d -> ~ pzero (D d) -> peq (D a) (pmul q0 (D d)) ->
    pdiv_remove_root0 o fix2 a d = Some (a1, d1) ->
    okl a1 /\ okl d1 /\ ~ pzero (D d1) /\ peq (D a1) (pmul q0 (D d1)).
  Proof.
    intros Ha Hd NZ E. unfold pdiv_remove_root0. destruct d as [|c0 d']; [intros E9; inversion E9; subst; (split; [|split; [|split]]); assumption|].
    inversion Hd as [|? ? Hc0 Hd']; subst.
    destruct (fis_zero o c0) eqn:Ez; [|intros E9; inversion E9; subst; (split; [|split; [|split]]); assumption].
    apply (is0_iff o fk ok den H c0 Hc0) in Ez. cbn [map] in E, NZ. rewrite Ez in E, NZ.
    assert (NZ' : ~ pzero (D d')) by (intros Z; apply NZ; apply pzero_cons; split; [reflexivity|exact Z]).
    rewrite pmul_cons0_r in E.
    destruct a as [|x0 a'].
    - destruct fix2; [|discriminate]. intros E9; inversion E9; subst. split; [constructor|]. split; [exact Hd'|]. split; [exact NZ'|].
      apply peq_intro. intros i. pose proof (peq_elim fk _ _ E (S i)) as Ei. cbn [map] in *. rewrite coeff_cons_S in Ei.
      rewrite <- Ei. rewrite !coeff_nil. reflexivity.
    - inversion Ha as [|? ? Hx0 Ha']; subst. cbn [map] in E. apply peq_cons_inv in E. destruct E as [E0 E'].
      destruct (fis_zero o x0); [|discriminate]. intros E9; inversion E9; subst. (split; [|split; [|split]]); assumption.
  Qed.
  (* since 8b5e451 the workaround never panics on a clean division *)
  Lemma remove_root0_total a d q0 : okl a -> okl d -> peq (D a) (pmul q0 (D d)) ->
    exists a1 d1, pdiv_remove_root0 o true a d = Some (a1, d1).
  Proof.
    intros Ha Hd E. unfold pdiv_remove_root0. destruct d as [|c0 d']; [eexists; eexists; reflexivity|].
    inversion Hd as [|? ? Hc0 Hd']; subst.
    destruct (fis_zero o c0) eqn:Ez; [|eexists; eexists; reflexivity].
    apply (is0_iff o fk ok den H c0 Hc0) in Ez. cbn [map] in E. rewrite Ez, pmul_cons0_r in E.
    destruct a as [|x0 a']; [eexists; eexists; reflexivity|].
    inversion Ha as [|? ? Hx0 Ha']; subst. cbn [map] in E. apply peq_cons_inv in E. destruct E as [E0 _].
    apply (is0_iff o fk ok den H x0 Hx0) in E0. rewrite E0. eexists; eexists; reflexivity.
  Qed.

  (* the fallback of the NTT arm (code since 87d4e9b): a zero among the divisor evaluations -> long division, exact *)
  Theorem clean_divide_fallback_spec fix2 cutoff dbg a d q0 a1 d1 av dv :
    okl a -> okl d -> ~ pzero (D d) -> peq (D a) (pmul q0 (D d)) -> (cutoff <= poly_degree o d)%Z ->
    pdiv_remove_root0 o fix2 a d = Some (a1, d1) ->
    pdiv_clean_codewords o ox act offset nttx a1 d1 = Some (av, dv) -> existsb (fis_zero ox) dv = true ->
    exists q, clean true fix2 cutoff dbg a d = Some q /\ okl q /\ peq (D q) q0.
  Proof.
    intros Ha Hd NZ E Hc R C Z. unfold pdiv_clean_divide_gen.
    apply Z.ltb_ge in Hc. rewrite Hc, R, C, Z. cbn [andb].
    destruct (remove_root0_spec fix2 a d q0 a1 d1 Ha Hd NZ E R) as [Ha1 [Hd1 [NZ1 E1]]].
    apply long_division_arm_spec; assumption.
  Qed.
End CleanDivideProofs.

(* ---- concrete witnesses (base field BFieldElement, extension XFieldElement, the real transforms of model/Ntt.v),
   run with the cfg(test) cutoff 0 so that small degrees reach the NTT arm (the model is parametric in the cutoff; the
   production-cutoff replays of degree >= 512 are in corpus/C09 and were confirmed on the real code).
     dividend = (x^3 - x + 1)(x + 2), divisor = x^3 - x + 1: long division is clean, quotient x + 2;
     the divisor vanishes at the coset offset x (a root of x^3 - x + 1). *)
Definition pdiv_w_divisor : list Z := map bfe_new [1; 18446744069414584320; 0; 1].
Definition pdiv_w_quotient : list Z := map bfe_new [2; 1].
Definition pdiv_w_dividend : list Z := poly_mul bfe_ops pdiv_w_divisor pdiv_w_quotient.
(* HISTORICAL (code before 87d4e9b): panic "Cannot do batch inversion on zero" on a clean division *)
Lemma clean_divide_v0_refuted :
  exists a d q, pdiv_naive_divide bfe_ops a d = Some (q, [bfe_zero; bfe_zero; bfe_zero]) /\
                pdiv_clean_divide_v0 CLEAN_DIVIDE_CUTOFF_THRESHOLD_TEST false a d = None /\
                pdiv_clean_divide_v0 CLEAN_DIVIDE_CUTOFF_THRESHOLD_TEST true a d = None.
Proof. exists pdiv_w_dividend, pdiv_w_divisor, pdiv_w_quotient. vm_compute. repeat split. Qed.
(* HISTORICAL (code before 8b5e451, with or without the first repair): Polynomial::zero() divided by x * (x + 1):
   index out of bounds on dividend_coefficients[0], although 0 = 0 * d is a clean division *)
Lemma clean_divide_v1_empty_dividend_refuted :
  exists d, pdiv_naive_divide bfe_ops [] d = Some ([], []) /\
            pdiv_clean_divide_v0 CLEAN_DIVIDE_CUTOFF_THRESHOLD_TEST false [] d = None /\
            pdiv_clean_divide_v1 CLEAN_DIVIDE_CUTOFF_THRESHOLD_TEST false [] d = None.
Proof. exists (map bfe_new [0; 1; 1]). vm_compute. repeat split. Qed.
(* the current code on the same inputs, under the cfg(test) cutoff and the production cutoff *)
Lemma clean_divide_repaired_witnesses :
  (forall dbg, pdiv_clean_divide CLEAN_DIVIDE_CUTOFF_THRESHOLD_TEST dbg pdiv_w_dividend pdiv_w_divisor = Some pdiv_w_quotient) /\
  (forall dbg, pdiv_clean_divide CLEAN_DIVIDE_CUTOFF_THRESHOLD_PROD dbg pdiv_w_dividend pdiv_w_divisor = Some pdiv_w_quotient) /\
  (forall dbg, pdiv_clean_divide CLEAN_DIVIDE_CUTOFF_THRESHOLD_TEST dbg [] (map bfe_new [0; 1; 1]) = Some [bfe_zero]) /\
  (forall dbg, pdiv_clean_divide CLEAN_DIVIDE_CUTOFF_THRESHOLD_TEST dbg [bfe_zero] (map bfe_new [0; 0; 1]) = Some []).
Proof. repeat split; intros [|]; vm_compute; reflexivity. Qed.

(* ================================================================== 3. reduce: every arm returns THE remainder *)
Section ReduceProofs.
  Context {F K : Type} (o : fops F) (fk : fieldK K) (ok : F -> Prop) (den : F -> K).
  Hypothesis H : field_ok o fk ok den.
  Variable ntt : list F -> option (list F).
  Variable intt : list F -> option (list F).
  Local Notation "0" := (k0 fk).
  Local Infix "*" := (kmul fk).
  Local Notation D := (map den).
  Local Notation okl := (Forall ok).
  Local Notation peq := (peq fk).
  Local Notation pzero := (pzero fk).
  Local Notation padd := (padd fk).
  Local Notation pmul := (pmul fk).
  Local Notation pdeg := (pdeg fk).
  Add Field kfield_PolyDivProofs_Reduce : (kFT fk).
  Add Ring polyring_PolyDivProofs_Reduce : (poly_ring_theory fk) (setoid (peq_Equivalence fk) (poly_ring_ext fk)).

  (* modulo a non-zero constant everything is congruent to 0 *)
  Lemma is_rem_constant_modulus (a m : list K) : pdeg m = 0%Z -> is_rem fk a m [].
  Proof.
    intros Hm. split; [|rewrite Hm; change (pdeg []) with (-1)%Z; lia].
    destruct (coeff_at_pdeg fk m ltac:(lia)) as [C1 C2]. rewrite Hm in C1. change (Z.to_nat 0) with O in C1.
    set (c := plead fk m) in *.
    exists (pscale fk (kinv fk c) a). apply peq_intro. intros i. rewrite coeff_padd, coeff_nil, coeff_pmul.
    rewrite (ksum_single fk _ _ i); [|lia|].
    - rewrite Nat.sub_diag, C1, coeff_pscale. field. exact C2.
    - intros j Hj Hne. rewrite (coeff_above_pdeg fk m (i - j)) by lia. ring.
  Qed.
  Lemma is_rem_small (a m : list K) : (pdeg a < pdeg m)%Z -> is_rem fk a m a.
  Proof. intros Hlt. split; [exists []; cbn [PolySpec.pmul PolySpec.padd]; reflexivity|exact Hlt]. Qed.

  (* the arms of `reduce` that do not go through fast_reduce: constant modulus, already reduced, long division *)
  Theorem reduce_slow_arms_spec a m : okl a -> okl m -> ~ pzero (D m) -> pdiv_reduce_arm o a m <> 3%Z ->
    exists r, pdiv_reduce o ntt intt a m = Some r /\ okl r /\ is_rem fk (D a) (D m) (D r).
  Proof.
    intros Ha Hm NZ. unfold pdiv_reduce_arm, pdiv_reduce.
    pose proof (degree_pdeg o fk ok den H a Ha) as Da. pose proof (degree_pdeg o fk ok den H m Hm) as Dm.
    assert (Gm : (0 <= poly_degree o m)%Z) by (rewrite Dm; apply pdeg_nonneg_iff; exact NZ).
    destruct (poly_degree o m <? 0)%Z eqn:E0; [apply Z.ltb_lt in E0; lia|].
    destruct (poly_degree o m =? 0)%Z eqn:E1.
    - intros _. apply Z.eqb_eq in E1. exists []. split; [reflexivity|]. split; [constructor|].
      apply is_rem_constant_modulus. lia.
    - destruct (poly_degree o a <? poly_degree o m)%Z eqn:E2.
      + intros _. apply Z.ltb_lt in E2. exists a. split; [reflexivity|]. split; [exact Ha|]. apply is_rem_small. lia.
      + destruct (poly_degree o a >? FAST_REDUCE_MAKES_SENSE_MULTIPLE * poly_degree o m)%Z; [intros X; exfalso; apply X; reflexivity|].
        intros _. apply (reduce_long_division_spec o fk ok den H); assumption.
  Qed.
  (* above four times the modulus degree `reduce` IS fast_reduce *)
  Theorem reduce_fast_arm a m : pdiv_reduce_arm o a m = 3%Z -> pdiv_reduce o ntt intt a m = pdiv_fast_reduce o ntt intt a m.
  Proof.
    unfold pdiv_reduce_arm, pdiv_reduce.
    destruct (poly_degree o m <? 0)%Z; [discriminate|]. destruct (poly_degree o m =? 0)%Z; [discriminate|].
    destruct (poly_degree o a <? poly_degree o m)%Z; [discriminate|].
    destruct (poly_degree o a >? FAST_REDUCE_MAKES_SENSE_MULTIPLE * poly_degree o m)%Z; [reflexivity|discriminate].
  Qed.
  (* the zero modulus panics ("Cannot divide by zero; needed for reduce.") *)
  Theorem reduce_zero_modulus a m : okl m -> pzero (D m) -> pdiv_reduce o ntt intt a m = None.
  Proof.
    intros Hm Z. unfold pdiv_reduce. apply (degree_neg_pzero o fk ok den H m Hm) in Z.
    apply Z.ltb_lt in Z. rewrite Z. reflexivity.
  Qed.

  (* fast_reduce: the early exits are exact; the last stage (long division by the unmultiplied modulus) turns ANY
     intermediate remainder congruent to the input into THE remainder, by uniqueness.  What is not proved: that the two
     chunk-wise stages (NTT-friendly multiple, structured multiple) preserve the congruence - see C09_fast_reduce_full. *)
  Theorem fast_reduce_early_exits a m : okl a -> okl m -> ~ pzero (D m) ->
    (poly_degree o m = 0 \/ poly_degree o a < poly_degree o m)%Z ->
    exists r, pdiv_fast_reduce o ntt intt a m = Some r /\ okl r /\ is_rem fk (D a) (D m) (D r).
  Proof.
    intros Ha Hm NZ Hc. unfold pdiv_fast_reduce.
    pose proof (degree_pdeg o fk ok den H a Ha) as Da. pose proof (degree_pdeg o fk ok den H m Hm) as Dm.
    destruct (poly_degree o m =? 0)%Z eqn:E1.
    - apply Z.eqb_eq in E1. exists []. split; [reflexivity|]. split; [constructor|]. apply is_rem_constant_modulus. lia.
    - apply Z.eqb_neq in E1. destruct Hc as [Hc|Hc]; [contradiction|]. apply Z.ltb_lt in Hc. rewrite Hc.
      apply Z.ltb_lt in Hc. exists a. split; [reflexivity|]. split; [exact Ha|]. apply is_rem_small. lia.
  Qed.
  Theorem fast_reduce_final_stage a m ir : okl a -> okl m -> okl ir -> ~ pzero (D m) ->
    (exists k, peq (D a) (padd (pmul k (D m)) (D ir))) ->
    exists r, pdiv_reduce_long_division o ir m = Some r /\ okl r /\ is_rem fk (D a) (D m) (D r).
  Proof.
    intros Ha Hm Hir NZ Hk. destruct (reduce_long_division_spec o fk ok den H ir m Hir Hm NZ) as [r [E [Hr S]]].
    exists r. split; [exact E|]. split; [exact Hr|]. exact (is_rem_congr fk _ _ _ _ Hk S).
  Qed.
End ReduceProofs.
