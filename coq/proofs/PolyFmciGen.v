(* proofs/PolyFmciGen.v - fast_modular_coset_interpolate, its preprocessing and
   fast_modular_coset_interpolate_with_zerofiers_and_ntt_friendly_multiple: the GENERAL statement, for EVERY power-of-two
   codeword length the code accepts.

   PolyInterpProofs.fmci_small_spec (C08_fmci_small_partial) covers the Lagrange and INTT regimes (n <= 2^17).
   PolyDeepenFmci.fmci_go_spec / fmci_exact_all (C08_fmci_spec) cover the even / odd recursion, for n = 2^l with l <= lmax where
   lmax is the largest transform `intt` accepts (31 for the code).  But the recursion never transforms more than 2^17 elements:
   what a codeword of length n needs is the n-th root of unity (`primitive_root_of_unity(n).unwrap()`), and the table has roots up
   to order 2^32.  So the code accepts n = 2^32 as well, and nothing above (no root: C08_fmci_rejects_above).  This file separates
   the two maxima
       lmaxI   intt is the inverse DFT for lengths 2^l, l <= lmaxI            (31)
       lmaxR   the root table is sound and compatible up to 2^lmaxR            (32),   lmaxI <= lmaxR <= lmaxI + 1, 17 <= lmaxI
   and proves, for every l <= lmaxR (induction on l, as in PolyDeepenFmci; the true interpolants of the halves - needed only as
   mathematical objects - exist because the halves have length 2^(l-1) <= 2^lmaxI):
       fmci_go_gen      the loop invariant for every l <= lmaxR
       fmci_general     ..._with_zerofiers_and_ntt_friendly_multiple(cw, offset, m, preprocess(len cw, offset, m)) =
                        fast_modular_coset_interpolate(cw, offset, m) = r,  r well-formed, THE interpolant of cw on the coset
                        exists, and r is THE remainder of it modulo m (not merely congruent: deg r < deg m)
       preprocess_total_gen   the preprocessing does not panic
   Size hypothesis left: the modulus (degree + 1 <= MB with 2 MB <= the range of `multiply`); for the code MB = 2^29 + 1. *)
From Coq Require Import ZArith Lia List Bool Ring Field Setoid Morphisms.
From TF Require Import Word BFieldGen BField XField FieldOps FieldTheory PolyGen PolyCore PolySpec Ntt PolyDiv PolyInterp
  PolyInterpAlg PolyInterpBase BatchInvProofs Dft NttDft PolyCoreProofs PolyC07Wrap PolyDivProofs PolyInterpProofs
  PolyDeepenDiv PolyDeepenInterp PolyDeepenFmci.
Import ListNotations.
Open Scope Z_scope.
Ltac Zify.zify_post_hook ::= Z.div_mod_to_equations.

Section FmciGen.
  Context {F K : Type} (o : fops F) (fk : fieldK K) (ok : F -> Prop) (den : F -> K).
  Hypothesis H : field_ok o fk ok den.
  Variable ntt : list F -> option (list F).
  Variable intt : list F -> option (list F).
  Variables BND MB : Z.
  Hypothesis HBM : 2 * MB <= BND.
  Hypothesis HB257 : 257 <= BND.
  Variable act : fact Z F.
  Variables lmaxI lmaxR : nat.
  Variable wr : nat -> K.
  Variable emb : Z -> K.
  Declare Scope KH_scope.
  Delimit Scope KH_scope with K.
  Local Notation "0" := (k0 fk) : KH_scope.
  Local Notation "1" := (k1 fk) : KH_scope.
  Local Notation "x + y" := (kadd fk x y) : KH_scope.
  Local Notation "x * y" := (kmul fk x y) : KH_scope.
  Local Notation "x - y" := (ksub fk x y) : KH_scope.
  Local Notation "- x" := (kopp fk x) : KH_scope.
  Local Notation "/ x" := (kinv fk x) : KH_scope.
  Local Notation D := (map den).
  Local Notation okl := (Forall ok).
  Local Notation peq := (peq fk).
  Local Notation padd := (padd fk).
  Local Notation pmul := (pmul fk).
  Local Notation pdeg := (pdeg fk).
  Local Notation congruent := (congruent fk).
  Local Notation canon := BFieldProofs.canon.
  Local Notation cz := (cz fk).
  Local Notation mult := (poly_multiply o ntt intt).
  Local Notation THR_L := FAST_MODULAR_COSET_INTERPOLATE_CUTOFF_THRESHOLD_PREFER_LAGRANGE.
  Local Notation THR_I := FAST_MODULAR_COSET_INTERPOLATE_CUTOFF_THRESHOLD_PREFER_INTT.
  Local Notation cpts := (coset_points fk wr).
  Local Notation red_rem_b := (red_rem_b o fk ok den ntt intt MB).
  Local Notation fmci_res := (fmci_res fk ok den wr emb).
  Add Field kfield_PolyFmciGen : (kFT fk).

  Hypothesis Hmul : mul_exact o fk ok den ntt intt BND.
  Hypothesis Hrem : red_rem_b.
  Hypothesis Hrbnf : rbnf_exact_b o fk ok den ntt intt MB.
  Hypothesis Hintt : intt_ok fk ok den intt lmaxI wr.
  Hypothesis HrootsR : roots_ok fk lmaxR wr.
  Hypothesis Hlift : lift_ok o ok den emb.
  Hypothesis Hbinv : binv_ok fk emb.
  Hypothesis Hact : act_ok fk ok den act emb.
  Hypothesis HrootR : root_ok lmaxR wr emb.
  Hypothesis wr_sqR : forall l, (S l <= lmaxR)%nat -> (wr (S l) * wr (S l))%K = wr l.
  Hypothesis Hbmul : bmul_ok fk emb.
  Hypothesis Hbpow : bpow_ok fk emb.
  Hypothesis Hm2i : m2i_ok fk.
  Hypothesis HIR : (lmaxI <= lmaxR)%nat.
  Hypothesis HRI : (lmaxR <= S lmaxI)%nat.
  Hypothesis H17 : (17 <= lmaxI)%nat.
  Hypothesis HR32 : (lmaxR <= 32)%nat.

  (* the hypotheses at the smaller maximum *)
  Lemma HrootsI : roots_ok fk lmaxI wr.
  Proof.
    destruct HrootsR as [A [B C]]. split; [|split; [|exact C]].
    - intros l Hl. apply A. exact (Nat.le_trans _ _ _ Hl HIR).
    - intros l Hl. apply B. exact (Nat.le_trans _ _ _ Hl HIR).
  Qed.
  Lemma HrootI : root_ok lmaxI wr emb.
  Proof. intros l Hl. apply HrootR. exact (Nat.le_trans _ _ _ Hl HIR). Qed.
  Lemma wr_sqI : forall l, (S l <= lmaxI)%nat -> (wr (S l) * wr (S l))%K = wr l.
  Proof. intros l Hl. apply wr_sqR. exact (Nat.le_trans _ _ _ Hl HIR). Qed.
  Lemma HI32 : (lmaxI <= 32)%nat.
  Proof. exact (Nat.le_trans _ _ _ HIR HR32). Qed.

  Local Notation preprocess_specR :=
    (preprocess_spec o fk ok den H ntt intt BND MB HBM HB257 lmaxR wr emb Hmul Hrem Hrbnf HrootsR Hlift Hbinv HrootR wr_sqR Hbmul Hbpow HR32).
  Local Notation fmci_go_smallI :=
    (fmci_go_small o fk ok den H ntt intt BND MB HB257 act lmaxI wr emb Hmul Hrem Hrbnf Hintt HrootsI Hlift Hbinv Hact HrootI wr_sqI HI32).
  Local Notation eo_targets_specR := (eo_targets_spec o fk ok den H lmaxR wr wr_sqR HR32).
  Local Notation m2i_denR := (m2i_den o fk ok den H lmaxR wr wr_sqR HR32).
  Local Notation cis := (coset_interpolant_spec o fk ok den H intt lmaxI wr Hintt HrootsI emb Hlift Hbinv).

  Lemma pow2_Zn3 l : Z.of_nat (2 ^ l) = 2 ^ Z.of_nat l.
  Proof. rewrite Nat2Z.inj_pow. reflexivity. Qed.
  Lemma pow2_to_nat3 l : Z.to_nat (2 ^ Z.of_nat l) = (2 ^ l)%nat.
  Proof. rewrite <- pow2_Zn3. apply Nat2Z.id. Qed.

  (* THE interpolant of a codeword of length 2^l on the coset exists for every l <= lmaxR: by intt for l <= lmaxI, assembled
     from the interpolants of the even / odd halves for l = lmaxI + 1 *)
  Lemma coset_interpolant_exists l offset cw : (l <= lmaxR)%nat -> canon offset -> emb offset <> 0%K -> okl cw ->
    length cw = (2 ^ l)%nat -> exists ip, interpolates fk (cpts (emb offset) l) (D cw) ip.
  Proof.
    intros Hl Co Hnz Hcw Lcw. destruct (Nat.le_gt_cases l lmaxI) as [HlI|HlI].
    - destruct (cis l offset cw HlI Co Hnz Hcw Lcw) as [ip [_ [_ Iip]]]. exists (D ip). exact Iip.
    - destruct l as [|l']; [lia|]. assert (Hl' : (l' <= lmaxI)%nat) by lia.
      destruct (HrootR (S l') Hl) as [om [Eom [Com Dom]]].
      destruct (eo_targets_specR (2 ^ l') cw Hcw ltac:(rewrite Lcw; cbn [Nat.pow]; lia)) as [et [ot [_ [Oet [Oot [Let [Lot [Det Dot]]]]]]]].
      pose proof HrootsR as [Hhalf [Hwnz H2]].
      set (c := emb offset). set (w := wr (S l')).
      assert (Hw : w <> 0%K) by (apply Hwnz; exact Hl).
      assert (Hwh : kpow fk w (2 ^ l') = (- (1))%K) by exact (Hhalf (S l') Hl).
      assert (Hww : (w * w)%K = wr l') by (apply wr_sqR; exact Hl).
      destruct (Hbmul offset om Co Com) as [Cow Dow]. rewrite Dom in Dow. fold c w in Dow.
      assert (Nzw : emb (bfe_mul offset om) <> 0%K).
      { rewrite Dow. intros E. destruct (k_integral fk _ _ E) as [E'|E']; [exact (Hnz E')|exact (Hw E')]. }
      destruct (cis l' offset et Hl' Co Hnz Oet Let) as [ipe [_ [_ Iipe]]].
      destruct (cis l' (bfe_mul offset om) ot Hl' Cow Nzw Oot Lot) as [ipo [_ [_ Iipo]]].
      destruct m2i_denR as [_ Dm2].
      assert (Hm2 : (den (pint_m2i o) * - (1 + 1))%K = 1%K) by (rewrite Dm2; exact Hm2i).
      fold c in Iipe. rewrite Dow in Iipo. unfold coset_points in Iipe, Iipo. rewrite <- Hww, Det in Iipe. rewrite <- Hww, Dot in Iipo.
      pose proof (assemble_even_odd fk c w (den (pint_m2i o)) (2 ^ l') (D cw) (D ipe) (D ipo) Hnz Hw Hwh Hm2
                    ltac:(rewrite map_length, Lcw; cbn [Nat.pow]; lia) Iipe Iipo) as IR.
      eexists. unfold coset_points. fold w. replace (2 ^ S l')%nat with (2 * 2 ^ l')%nat by (cbn [Nat.pow]; lia). exact IR.
  Qed.

  (* every codeword length 2^l, l <= lmaxR: induction on l, the fuel only has to cover the levels above 2^17 *)
  Theorem fmci_go_gen dbg : forall l fuel offset cw m pre, (l <= lmaxR)%nat -> (l <= 17 + fuel)%nat ->
    canon offset -> emb offset <> 0%K -> okl cw -> length cw = (2 ^ l)%nat -> okl m -> ~ pzero fk (D m) -> poly_degree o m + 1 <= MB ->
    pint_fmci_preprocess o ntt intt (2 ^ Z.of_nat l) offset m = Some pre ->
    exists r, pint_fmci_go o act ntt intt dbg THR_L THR_I fuel cw offset m pre = Some r /\ fmci_res l offset cw m r.
  Proof.
    induction l as [|l' IH]; intros fuel offset cw m pre Hl Hfuel Co Hnz Hcw Lcw Om Nm Hmb Epre.
    - destruct fuel as [|f].
      + rewrite fmci_go_fuel0 by (unfold zlen; rewrite Lcw; cbn; unfold THR_I; lia).
        apply (fmci_go_smallI dbg O O offset cw m pre); try assumption; [lia|cbn; unfold THR_I; lia|exact (preprocess_shift o ntt intt _ _ _ _ Epre)].
      + apply (fmci_go_smallI dbg f O offset cw m pre); try assumption; [lia|cbn; unfold THR_I; lia|exact (preprocess_shift o ntt intt _ _ _ _ Epre)].
    - destruct (Nat.le_gt_cases (S l') 17) as [Hs|Hbig].
      { assert (Hsm : 2 ^ Z.of_nat (S l') <= THR_I) by (rewrite thr_I_pow; apply Z.pow_le_mono_r; lia).
        assert (HlI : (S l' <= lmaxI)%nat) by lia.
        destruct fuel as [|f].
        + rewrite fmci_go_fuel0 by (unfold zlen; rewrite Lcw, pow2_Zn3; exact Hsm).
          apply (fmci_go_smallI dbg O (S l') offset cw m pre); try assumption. exact (preprocess_shift o ntt intt _ _ _ _ Epre).
        + apply (fmci_go_smallI dbg f (S l') offset cw m pre); try assumption. exact (preprocess_shift o ntt intt _ _ _ _ Epre). }
      destruct fuel as [|f]; [lia|]. cbn [pint_fmci_go].
      assert (Hl' : (l' <= lmaxI)%nat) by lia.
      assert (Dm : 0 <= poly_degree o m) by (apply (nonzero_degree o fk ok den H); assumption).
      replace (poly_degree o m <? 0) with false by (symmetry; apply Z.ltb_ge; exact Dm).
      assert (Zn : zlen cw = 2 ^ Z.of_nat (S l')) by (unfold zlen; rewrite Lcw; apply pow2_Zn3).
      rewrite Zn. destruct (HrootR (S l') Hl) as [om [Eom [Com Dom]]]. rewrite Eom.
      assert (Hgt : THR_I < 2 ^ Z.of_nat (S l')) by (rewrite thr_I_pow; apply Z.pow_lt_mono_r; lia).
      replace (2 ^ Z.of_nat (S l') <? THR_L) with false by (symmetry; apply Z.ltb_ge; unfold THR_L, THR_I in *; lia).
      replace (2 ^ Z.of_nat (S l') <=? THR_I) with false by (symmetry; apply Z.leb_gt; exact Hgt).
      assert (Ehalf : 2 ^ Z.of_nat (S l') / 2 = 2 ^ Z.of_nat l').
      { rewrite Nat2Z.inj_succ, Z.pow_succ_r by lia. rewrite Z.mul_comm, Z.div_mul by lia. reflexivity. }
      rewrite Ehalf, pow2_to_nat3.
      destruct (eo_targets_specR (2 ^ l') cw Hcw ltac:(rewrite Lcw; cbn [Nat.pow]; lia)) as [et [ot [Eeo [Oet [Oot [Let [Lot [Det Dot]]]]]]]].
      rewrite Eeo.
      pose proof HrootsR as [Hhalf [Hwnz H2]].
      set (c := emb offset). set (w := wr (S l')).
      assert (Hw : w <> 0%K) by (apply Hwnz; exact Hl).
      assert (Hwh : kpow fk w (2 ^ l') = (- (1))%K) by exact (Hhalf (S l') Hl).
      assert (Hww : (w * w)%K = wr l') by (apply wr_sqR; exact Hl).
      destruct (Hbmul offset om Co Com) as [Cow Dow]. rewrite Dom in Dow. fold c w in Dow.
      assert (Nzw : emb (bfe_mul offset om) <> 0%K).
      { rewrite Dow. intros E. destruct (k_integral fk _ _ E) as [E'|E']; [exact (Hnz E')|exact (Hw E')]. }
      (* the two recursive calls *)
      assert (Zet : zlen et = 2 ^ Z.of_nat l') by (unfold zlen; rewrite Let; apply pow2_Zn3).
      assert (Zot : zlen ot = 2 ^ Z.of_nat l') by (unfold zlen; rewrite Lot; apply pow2_Zn3).
      destruct (preprocess_specR l' offset m ltac:(lia) Co Hnz Om Nm Hmb) as [pre1 [Ep1 _]].
      destruct (IH f offset et m pre1 ltac:(lia) ltac:(lia) Co Hnz Oet Let Om Nm Hmb Ep1) as [ei [Eei [Oei [Dei Cei]]]].
      rewrite Zet, Ep1, Eei.
      destruct (preprocess_specR l' (bfe_mul offset om) m ltac:(lia) Cow Nzw Om Nm Hmb) as [pre2 [Ep2 _]].
      destruct (IH f (bfe_mul offset om) ot m pre2 ltac:(lia) ltac:(lia) Cow Nzw Oot Lot Om Nm Hmb Ep2) as [oi [Eoi [Ooi [Doi Coi]]]].
      rewrite Zot, Ep2, Eoi.
      (* the stored zerofiers of the two half cosets *)
      destruct (preprocess_specR (S l') offset m Hl Co Hnz Om Nm Hmb) as [pre' [Ep' [_ Pz]]].
      rewrite Ep' in Epre. inversion Epre; subst pre'. clear Epre.
      unfold pint_ilog2. rewrite Z.log2_pow2 by lia.
      destruct (Pz l' ltac:(lia)) as [ez [oz [Iez [Ioz [Oez [Ooz [Cez [Coz [Dez Doz]]]]]]]]]. rewrite Ioz, Iez. fold c w in Cez, Coz.
      (* the products stay within the range of multiply *)
      assert (Bei : poly_degree o ei <= poly_degree o m - 1) by (rewrite (degree_pdeg o fk ok den H ei Oei), (degree_pdeg o fk ok den H m Om); lia).
      assert (Boi : poly_degree o oi <= poly_degree o m - 1) by (rewrite (degree_pdeg o fk ok den H oi Ooi), (degree_pdeg o fk ok den H m Om); lia).
      destruct (Hmul ei oz Oei Ooz ltac:(lia)) as [a [Ea [Oa [_ Pa]]]]. rewrite Ea.
      destruct (Hmul oi ez Ooi Oez ltac:(lia)) as [b [Eb [Ob [_ Pb]]]]. rewrite Eb.
      destruct (pb_add_spec o fk ok den H a b Oa Ob) as [Oab Dab].
      destruct (Hrem (poly_add o a b) m Oab Om Nm Hmb) as [r [Er [Or Ir]]]. exists r. split; [exact Er|].
      destruct (rem_res fk den _ m r Ir) as [R1 R2]. split; [exact Or|]. split; [exact R1|].
      intros ip Hip.
      (* the true interpolants of the halves exist (intt on the half cosets: 2^l' <= 2^lmaxI) *)
      destruct (cis l' offset et Hl' Co Hnz Oet Let) as [ipe [_ [_ Iipe]]].
      destruct (cis l' (bfe_mul offset om) ot Hl' Cow Nzw Oot Lot) as [ipo [_ [_ Iipo]]].
      pose proof (Cei _ Iipe) as CE. pose proof (Coi _ Iipo) as CO.
      destruct m2i_denR as [_ Dm2].
      assert (Hm2 : (den (pint_m2i o) * - (1 + 1))%K = 1%K) by (rewrite Dm2; exact Hm2i).
      fold c in Iipe. rewrite Dow in Iipo. unfold coset_points in Iipe, Iipo. rewrite <- Hww, Det in Iipe. rewrite <- Hww, Dot in Iipo.
      pose proof (assemble_even_odd fk c w (den (pint_m2i o)) (2 ^ l') (D cw) (D ipe) (D ipo) Hnz Hw Hwh Hm2
                    ltac:(rewrite map_length, Lcw; cbn [Nat.pow]; lia) Iipe Iipo) as IR.
      assert (Eip : peq ip (padd (pmul (D ipe) (cz (c * w)%K (2 ^ l'))) (pmul (D ipo) (cz c (2 ^ l'))))).
      { apply (interpolant_unique fk (cpts c (S l')) (D cw)); [exact (coset_points_NoDup fk lmaxR wr HrootsR c (S l') Hl Hnz)|exact Hip|].
        unfold coset_points. fold w. replace (2 ^ S l')%nat with (2 * 2 ^ l')%nat by (cbn [Nat.pow]; lia). exact IR. }
      apply (congruent_peq fk _ _ _ _ (peq_sym fk _ _ Eip)).
      apply (congruent_trans fk _ _ (D (poly_add o a b))); [|exact R2].
      rewrite Dab. apply (cong_peq_r fk _ _ (padd (pmul (D ei) (D oz)) (pmul (D oi) (D ez)))); [rewrite Pa, Pb; reflexivity|].
      apply cong_add; apply cong_mul; assumption.
  Qed.

  (* the preprocessing on its own: total, every l <= lmaxR *)
  Theorem preprocess_total_gen l offset m : (l <= lmaxR)%nat -> canon offset -> emb offset <> 0%K -> okl m -> ~ pzero fk (D m) ->
    poly_degree o m + 1 <= MB -> exists pre, pint_fmci_preprocess o ntt intt (2 ^ Z.of_nat l) offset m = Some pre.
  Proof. intros Hl Co Nz Om NZ Hmb. destruct (preprocess_specR l offset m Hl Co Nz Om NZ Hmb) as [pre [E _]]. exists pre. exact E. Qed.

  (* the general statement: both entry points, THE remainder of THE interpolant *)
  Theorem fmci_general dbg l offset cw m : (l <= lmaxR)%nat -> canon offset -> emb offset <> 0%K -> okl cw ->
    length cw = (2 ^ l)%nat -> okl m -> ~ pzero fk (D m) -> poly_degree o m + 1 <= MB ->
    exists pre r ip,
      pint_fmci_preprocess o ntt intt (zlen cw) offset m = Some pre /\
      pint_fmci_with_zerofiers_and_ntt_friendly_multiple o act ntt intt dbg cw offset m pre = Some r /\
      pint_fast_modular_coset_interpolate o act ntt intt dbg cw offset m = Some r /\ okl r /\
      interpolates fk (cpts (emb offset) l) (D cw) ip /\ is_rem fk ip (D m) (D r) /\
      forall ip', interpolates fk (cpts (emb offset) l) (D cw) ip' -> peq ip' ip /\ is_rem fk ip' (D m) (D r).
  Proof.
    intros Hl Co Hnz Hcw Lcw Om Nm Hmb.
    assert (Zn : zlen cw = 2 ^ Z.of_nat l) by (unfold zlen; rewrite Lcw; apply pow2_Zn3).
    destruct (preprocess_specR l offset m Hl Co Hnz Om Nm Hmb) as [pre [Ep _]].
    destruct (fmci_go_gen dbg l 64%nat offset cw m pre Hl ltac:(lia) Co Hnz Hcw Lcw Om Nm Hmb Ep) as [r [Er [Or [Dr Cr]]]].
    destruct (coset_interpolant_exists l offset cw Hl Co Hnz Hcw Lcw) as [ip Iip].
    assert (Rem : forall ip', interpolates fk (cpts (emb offset) l) (D cw) ip' -> is_rem fk ip' (D m) (D r)).
    { intros ip' Hip'. destruct (Cr ip' Hip') as [q Eq]. split; [exists q; exact Eq|exact Dr]. }
    exists pre, r, ip. rewrite Zn. split; [exact Ep|]. split; [exact Er|].
    split; [unfold pint_fast_modular_coset_interpolate; rewrite Zn, Ep; exact Er|].
    split; [exact Or|]. split; [exact Iip|]. split; [exact (Rem ip Iip)|].
    intros ip' Hip'. split; [|exact (Rem ip' Hip')].
    apply (interpolant_unique fk (cpts (emb offset) l) (D cw)); [|exact Hip'|exact Iip].
    exact (coset_points_NoDup fk lmaxR wr HrootsR (emb offset) l Hl Hnz).
  Qed.
  (* ... and for ANY preprocessing data the preprocessing returns for this length, offset and modulus (the shape of
     C08_fmci_small_partial, without the restriction to n <= 2^17) *)
  Theorem fmci_with_pre dbg l offset cw m pre : (l <= lmaxR)%nat -> canon offset -> emb offset <> 0%K -> okl cw ->
    length cw = (2 ^ l)%nat -> okl m -> ~ pzero fk (D m) -> poly_degree o m + 1 <= MB ->
    pint_fmci_preprocess o ntt intt (zlen cw) offset m = Some pre ->
    exists r, pint_fmci_with_zerofiers_and_ntt_friendly_multiple o act ntt intt dbg cw offset m pre = Some r /\
              pint_fast_modular_coset_interpolate o act ntt intt dbg cw offset m = Some r /\ okl r /\
              forall ip, interpolates fk (cpts (emb offset) l) (D cw) ip -> is_rem fk ip (D m) (D r).
  Proof.
    intros Hl Co Hnz Hcw Lcw Om Nm Hmb Epre.
    destruct (fmci_general dbg l offset cw m Hl Co Hnz Hcw Lcw Om Nm Hmb) as [pre' [r [ip [E1 [E2 [E3 [Or [_ [_ U]]]]]]]]].
    rewrite Epre in E1. inversion E1; subst pre'. exists r. split; [exact E2|]. split; [exact E3|]. split; [exact Or|].
    intros ip' Hip'. exact (proj2 (U ip' Hip')).
  Qed.
End FmciGen.

(* lengths the code does not accept: no root of unity of that order (`primitive_root_of_unity(n as u64).unwrap()`), for any
   field, any modulus, any preprocessing data *)
Lemma fmci_rejects_no_root {F} (o : fops F) act ntt intt dbg (cw : list F) offset m pre :
  primitive_root_of_unity (zlen cw) = None ->
  pint_fast_modular_coset_interpolate o act ntt intt dbg cw offset m = None /\
  pint_fmci_with_zerofiers_and_ntt_friendly_multiple o act ntt intt dbg cw offset m pre = None.
Proof.
  intros E. split.
  - unfold pint_fast_modular_coset_interpolate, pint_fmci_preprocess. rewrite E. reflexivity.
  - unfold pint_fmci_with_zerofiers_and_ntt_friendly_multiple, pint_fmci_with_thresholds. generalize 64%nat. intros fuel.
    destruct fuel as [|f]; cbn [pint_fmci_go]; (destruct (poly_degree o m <? 0); [reflexivity|]); rewrite E; reflexivity.
Qed.

(* ================================================================== Polynomial<BFieldElement>: nothing assumed *)
From TF Require Import BFieldProofs BFieldOk NttRoots NttProofs PolyValueSem PolyDeepenNewton.
Lemma wr_b_half32 l : (l <= 32)%nat -> half_root fp_field (wr_b l) l.
Proof.
  intros Hl. destruct (root_exists l Hl) as [w W]. unfold wr_b. rewrite W.
  exact (proj1 (proj2 (proj2 (roots_exact_order l w Hl W)))).
Qed.
Lemma wr_b_nonzero32 l : (l <= 32)%nat -> wr_b l <> k0 fp_field.
Proof.
  intros Hl. destruct (root_exists l Hl) as [w W]. unfold wr_b. rewrite W.
  exact (proj1 (proj2 (proj2 (proj2 (roots_exact_order l w Hl W))))).
Qed.
Lemma bfe_roots_ok32 : roots_ok fp_field 32 wr_b.
Proof. exact (conj wr_b_half32 (conj wr_b_nonzero32 fp_two_neq_0)). Qed.
Lemma bfe_root_ok32 : root_ok 32 wr_b bden.
Proof.
  intros l Hl. destruct (root_exists l Hl) as [w W]. exists w. split; [exact W|].
  split; [exact (proj1 (roots_exact_order l w Hl W))|]. unfold wr_b. rewrite W. reflexivity.
Qed.
(* no root of unity of order 2^l for l > 32, none for a length that is not a power of two *)
Lemma no_root_unless_pow2 n : 0 < n -> (forall l, (l <= 32)%nat -> n <> 2 ^ Z.of_nat l) -> primitive_root_of_unity n = None.
Proof.
  intros Hn Hno. destruct (primitive_root_of_unity n) eqn:E; [exfalso|reflexivity].
  destruct (proj1 (root_defined_iff n) ltac:(rewrite E; discriminate)) as [X|[k [K1 K2]]]; [lia|exact (Hno k K1 K2)].
Qed.

Local Notation okb := (Forall canon).
Local Notation Db := (map bden).

Theorem bfe_fmci_general dbg l offset cw m : (l <= 32)%nat -> canon offset -> bden offset <> k0 fp_field -> okb cw ->
  length cw = (2 ^ l)%nat -> okb m -> ~ pzero fp_field (Db m) -> poly_degree bfe_ops m <= 2 ^ 29 ->
  exists pre r ip,
    pint_fmci_preprocess bfe_ops ntt_b intt_b (zlen cw) offset m = Some pre /\
    pint_fmci_with_zerofiers_and_ntt_friendly_multiple bfe_ops bb_act ntt_b intt_b dbg cw offset m pre = Some r /\
    pint_fast_modular_coset_interpolate bfe_ops bb_act ntt_b intt_b dbg cw offset m = Some r /\ okb r /\
    interpolates fp_field (coset_points fp_field wr_b (bden offset) l) (Db cw) ip /\ is_rem fp_field ip (Db m) (Db r) /\
    forall ip', interpolates fp_field (coset_points fp_field wr_b (bden offset) l) (Db cw) ip' ->
                peq fp_field ip' ip /\ is_rem fp_field ip' (Db m) (Db r).
Proof.
  intros Hl Co Nz Hcw Lcw Om NZ Hd.
  apply (fmci_general bfe_ops fp_field canon bden bfe_field_ok ntt_b intt_b (2 ^ 31) BFE_MB ltac:(vm_compute; discriminate) ltac:(vm_compute; discriminate)
           bb_act 31 32 wr_b bden bfe_mul_exact_31 bfe_red_rem_b bfe_rbnf_exact_b bfe_intt_ok bfe_roots_ok32 bfe_lift_ok bfe_binv_ok bfe_act_ok
           bfe_root_ok32 bfe_wr_sq bfe_bmul_ok bfe_bpow_ok bfe_m2i_ok
           ltac:(apply Nat.leb_le; reflexivity) ltac:(apply Nat.leb_le; reflexivity) ltac:(apply Nat.leb_le; reflexivity) ltac:(apply Nat.leb_le; reflexivity)
           dbg l offset cw m Hl Co Nz Hcw Lcw Om NZ).
  unfold BFE_MB. lia.
Qed.
Theorem bfe_fmci_with_pre dbg l offset cw m pre : (l <= 32)%nat -> canon offset -> bden offset <> k0 fp_field -> okb cw ->
  length cw = (2 ^ l)%nat -> okb m -> ~ pzero fp_field (Db m) -> poly_degree bfe_ops m <= 2 ^ 29 ->
  pint_fmci_preprocess bfe_ops ntt_b intt_b (zlen cw) offset m = Some pre ->
  exists r, pint_fmci_with_zerofiers_and_ntt_friendly_multiple bfe_ops bb_act ntt_b intt_b dbg cw offset m pre = Some r /\
            pint_fast_modular_coset_interpolate bfe_ops bb_act ntt_b intt_b dbg cw offset m = Some r /\ okb r /\
            forall ip, interpolates fp_field (coset_points fp_field wr_b (bden offset) l) (Db cw) ip -> is_rem fp_field ip (Db m) (Db r).
Proof.
  intros Hl Co Nz Hcw Lcw Om NZ Hd.
  apply (fmci_with_pre bfe_ops fp_field canon bden bfe_field_ok ntt_b intt_b (2 ^ 31) BFE_MB ltac:(vm_compute; discriminate) ltac:(vm_compute; discriminate)
           bb_act 31 32 wr_b bden bfe_mul_exact_31 bfe_red_rem_b bfe_rbnf_exact_b bfe_intt_ok bfe_roots_ok32 bfe_lift_ok bfe_binv_ok bfe_act_ok
           bfe_root_ok32 bfe_wr_sq bfe_bmul_ok bfe_bpow_ok bfe_m2i_ok
           ltac:(apply Nat.leb_le; reflexivity) ltac:(apply Nat.leb_le; reflexivity) ltac:(apply Nat.leb_le; reflexivity) ltac:(apply Nat.leb_le; reflexivity)
           dbg l offset cw m pre Hl Co Nz Hcw Lcw Om NZ).
  unfold BFE_MB. lia.
Qed.
Theorem bfe_fmci_preprocess_total32 l offset m : (l <= 32)%nat -> canon offset -> bden offset <> k0 fp_field -> okb m ->
  ~ pzero fp_field (Db m) -> poly_degree bfe_ops m <= 2 ^ 29 ->
  exists pre, pint_fmci_preprocess bfe_ops ntt_b intt_b (2 ^ Z.of_nat l) offset m = Some pre.
Proof.
  intros Hl Co Nz Om NZ Hd.
  apply (preprocess_total_gen bfe_ops fp_field canon bden bfe_field_ok ntt_b intt_b (2 ^ 31) BFE_MB ltac:(vm_compute; discriminate) ltac:(vm_compute; discriminate)
           32 wr_b bden bfe_mul_exact_31 bfe_red_rem_b bfe_rbnf_exact_b bfe_roots_ok32 bfe_lift_ok bfe_binv_ok
           bfe_root_ok32 bfe_wr_sq bfe_bmul_ok bfe_bpow_ok ltac:(apply Nat.leb_le; reflexivity) l offset m Hl Co Nz Om NZ).
  unfold BFE_MB. lia.
Qed.
(* the codeword lengths the function accepts (offset and modulus as above): exactly the powers of two up to 2^32 *)
Theorem bfe_fmci_accepted_lengths dbg offset cw m : canon offset -> bden offset <> k0 fp_field -> okb cw -> okb m ->
  ~ pzero fp_field (Db m) -> poly_degree bfe_ops m <= 2 ^ 29 ->
  (pint_fast_modular_coset_interpolate bfe_ops bb_act ntt_b intt_b dbg cw offset m <> None <->
   exists l, (l <= 32)%nat /\ length cw = (2 ^ l)%nat).
Proof.
  intros Co Nz Hcw Om NZ Hd. split.
  - intros NN. destruct (Z.eq_dec (zlen cw) 0) as [E0|E0].
    { exfalso. apply NN. unfold pint_fast_modular_coset_interpolate, pint_fmci_preprocess. rewrite E0.
      destruct (primitive_root_of_unity 0); reflexivity. }
    destruct (primitive_root_of_unity (zlen cw)) eqn:E.
    + destruct (proj1 (root_defined_iff (zlen cw)) ltac:(rewrite E; discriminate)) as [X|[k [K1 K2]]]; [contradiction|].
      exists k. split; [exact K1|]. apply Nat2Z.inj. rewrite Nat2Z.inj_pow. exact K2.
    + exfalso. apply NN. exact (proj1 (fmci_rejects_no_root bfe_ops bb_act ntt_b intt_b dbg cw offset m (mk_preproc [] [] [] 0) E)).
  - intros [l [Hl Lcw]]. destruct (bfe_fmci_general dbg l offset cw m Hl Co Nz Hcw Lcw Om NZ Hd) as [pre [r [ip [_ [_ [E _]]]]]].
    rewrite E. discriminate.
Qed.

(* ================================================================== Polynomial<XFieldElement>: nothing assumed *)
From TF Require Import XFieldProofs XFieldOk XFieldNtt XFieldPoly PolyDeepenXfe.
Lemma wr_x_half32 l : (l <= 32)%nat -> half_root k3_field (wr_x l) l.
Proof.
  intros Hl. destruct (root_exists l Hl) as [w W]. unfold wr_x. rewrite W.
  apply half_root_iota. exact (proj1 (proj2 (proj2 (roots_exact_order l w Hl W)))).
Qed.
Lemma wr_x_nonzero32 l : (l <= 32)%nat -> wr_x l <> k0 k3_field.
Proof.
  intros Hl. destruct (root_exists l Hl) as [w W]. unfold wr_x. rewrite W.
  intros E. apply iota_0_iff in E. revert E.
  exact (proj1 (proj2 (proj2 (proj2 (roots_exact_order l w Hl W))))).
Qed.
Lemma xfe_roots_ok32 : roots_ok k3_field 32 wr_x.
Proof. exact (conj wr_x_half32 (conj wr_x_nonzero32 k3_two_nz)). Qed.
Lemma xfe_root_ok32 : root_ok 32 wr_x bden3.
Proof.
  intros l Hl. destruct (root_exists l Hl) as [w W]. exists w. split; [exact W|].
  split; [exact (proj1 (roots_exact_order l w Hl W))|]. unfold wr_x. rewrite W. reflexivity.
Qed.
Lemma xfe_wr_sq32 l : (S l <= 32)%nat -> kmul k3_field (wr_x (S l)) (wr_x (S l)) = wr_x l.
Proof.
  intros Hl. pose proof (bfe_wr_sq l Hl) as E. unfold wr_b in E. unfold wr_x.
  destruct (root_exists (S l) Hl) as [a Ea]. destruct (root_exists l ltac:(lia)) as [b Eb]. rewrite Ea, Eb in *.
  unfold bden3. rewrite <- iota_mul, E. reflexivity.
Qed.

Local Notation okx := (Forall canon3).
Local Notation Dx := (map denX).
Theorem xfe_fmci_general dbg l offset cw m : (l <= 32)%nat -> canon offset -> bden3 offset <> k0 k3_field -> okx cw ->
  length cw = (2 ^ l)%nat -> okx m -> ~ pzero k3_field (Dx m) -> poly_degree xfe_ops m <= 2 ^ 29 ->
  exists pre r ip,
    pint_fmci_preprocess xfe_ops ntt_x intt_x (zlen cw) offset m = Some pre /\
    pint_fmci_with_zerofiers_and_ntt_friendly_multiple xfe_ops xb_act ntt_x intt_x dbg cw offset m pre = Some r /\
    pint_fast_modular_coset_interpolate xfe_ops xb_act ntt_x intt_x dbg cw offset m = Some r /\ okx r /\
    interpolates k3_field (coset_points k3_field wr_x (bden3 offset) l) (Dx cw) ip /\ is_rem k3_field ip (Dx m) (Dx r) /\
    forall ip', interpolates k3_field (coset_points k3_field wr_x (bden3 offset) l) (Dx cw) ip' ->
                peq k3_field ip' ip /\ is_rem k3_field ip' (Dx m) (Dx r).
Proof.
  intros Hl Co Nz Hcw Lcw Om NZ Hd.
  apply (fmci_general xfe_ops k3_field canon3 denX xfe_field_ok ntt_x intt_x (2 ^ 31) BFE_MB ltac:(vm_compute; discriminate) ltac:(vm_compute; discriminate)
           xb_act 31 32 wr_x bden3 xfe_mul_exact xfe_red_rem_b xfe_rbnf_exact_b xfe_intt_ok xfe_roots_ok32 xfe_lift_ok xfe_binv_ok xfe_act_ok
           xfe_root_ok32 xfe_wr_sq32 xfe_bmul_ok xfe_bpow_ok xfe_m2i_ok
           ltac:(apply Nat.leb_le; reflexivity) ltac:(apply Nat.leb_le; reflexivity) ltac:(apply Nat.leb_le; reflexivity) ltac:(apply Nat.leb_le; reflexivity)
           dbg l offset cw m Hl Co Nz Hcw Lcw Om NZ).
  unfold BFE_MB. lia.
Qed.
Theorem xfe_fmci_with_pre dbg l offset cw m pre : (l <= 32)%nat -> canon offset -> bden3 offset <> k0 k3_field -> okx cw ->
  length cw = (2 ^ l)%nat -> okx m -> ~ pzero k3_field (Dx m) -> poly_degree xfe_ops m <= 2 ^ 29 ->
  pint_fmci_preprocess xfe_ops ntt_x intt_x (zlen cw) offset m = Some pre ->
  exists r, pint_fmci_with_zerofiers_and_ntt_friendly_multiple xfe_ops xb_act ntt_x intt_x dbg cw offset m pre = Some r /\
            pint_fast_modular_coset_interpolate xfe_ops xb_act ntt_x intt_x dbg cw offset m = Some r /\ okx r /\
            forall ip, interpolates k3_field (coset_points k3_field wr_x (bden3 offset) l) (Dx cw) ip -> is_rem k3_field ip (Dx m) (Dx r).
Proof.
  intros Hl Co Nz Hcw Lcw Om NZ Hd.
  apply (fmci_with_pre xfe_ops k3_field canon3 denX xfe_field_ok ntt_x intt_x (2 ^ 31) BFE_MB ltac:(vm_compute; discriminate) ltac:(vm_compute; discriminate)
           xb_act 31 32 wr_x bden3 xfe_mul_exact xfe_red_rem_b xfe_rbnf_exact_b xfe_intt_ok xfe_roots_ok32 xfe_lift_ok xfe_binv_ok xfe_act_ok
           xfe_root_ok32 xfe_wr_sq32 xfe_bmul_ok xfe_bpow_ok xfe_m2i_ok
           ltac:(apply Nat.leb_le; reflexivity) ltac:(apply Nat.leb_le; reflexivity) ltac:(apply Nat.leb_le; reflexivity) ltac:(apply Nat.leb_le; reflexivity)
           dbg l offset cw m pre Hl Co Nz Hcw Lcw Om NZ).
  unfold BFE_MB. lia.
Qed.
Theorem xfe_fmci_accepted_lengths dbg offset cw m : canon offset -> bden3 offset <> k0 k3_field -> okx cw -> okx m ->
  ~ pzero k3_field (Dx m) -> poly_degree xfe_ops m <= 2 ^ 29 ->
  (pint_fast_modular_coset_interpolate xfe_ops xb_act ntt_x intt_x dbg cw offset m <> None <->
   exists l, (l <= 32)%nat /\ length cw = (2 ^ l)%nat).
Proof.
  intros Co Nz Hcw Om NZ Hd. split.
  - intros NN. destruct (Z.eq_dec (zlen cw) 0) as [E0|E0].
    { exfalso. apply NN. unfold pint_fast_modular_coset_interpolate, pint_fmci_preprocess. rewrite E0.
      destruct (primitive_root_of_unity 0); reflexivity. }
    destruct (primitive_root_of_unity (zlen cw)) eqn:E.
    + destruct (proj1 (root_defined_iff (zlen cw)) ltac:(rewrite E; discriminate)) as [X|[k [K1 K2]]]; [contradiction|].
      exists k. split; [exact K1|]. apply Nat2Z.inj. rewrite Nat2Z.inj_pow. exact K2.
    + exfalso. apply NN. exact (proj1 (fmci_rejects_no_root xfe_ops xb_act ntt_x intt_x dbg cw offset m (mk_preproc [] [] [] 0) E)).
  - intros [l [Hl Lcw]]. destruct (xfe_fmci_general dbg l offset cw m Hl Co Nz Hcw Lcw Om NZ Hd) as [pre [r [ip [_ [_ [E _]]]]]].
    rewrite E. discriminate.
Qed.

(* ================================================================== a small instance
   codeword 3 1 4 1 5 9 2 6 on the coset 7 <w>, w of order 8, modulus X^3 + X^2 + 5.  Here: the theorems apply to it (nothing is
   executed).  The model is EXECUTED on it in proofs/PolyGenExamples.v (a file that the props files do not import: coqchk has no
   VM and needs minutes for it): the textbook route, fast_modular_coset_interpolate as the code runs it, and the even / odd
   recursion forced by small thresholds all return fmci_ex_result; so does the real code (harness c08, op modular_interpolate). *)
Definition fmci_ex_cw : list Z := map bfe_new [3; 1; 4; 1; 5; 9; 2; 6].
Definition fmci_ex_offset : Z := bfe_new 7.
Definition fmci_ex_modulus : list Z := map bfe_new [5; 0; 1; 1].
Definition fmci_ex_result : list Z := [6994998652885795454; 14288506600304993753; 2016016811993839514].
Lemma fmci_ex_hyps :
  canon fmci_ex_offset /\ bden fmci_ex_offset <> k0 fp_field /\ Forall canon fmci_ex_cw /\ length fmci_ex_cw = (2 ^ 3)%nat /\
  Forall canon fmci_ex_modulus /\ ~ pzero fp_field (map bden fmci_ex_modulus) /\ poly_degree bfe_ops fmci_ex_modulus <= 2 ^ 29.
Proof.
  assert (Cn : forall v, 0 <= v < 2 ^ 64 -> canon (bfe_new v)) by (intros v Hv; exact (proj1 (bden_new v Hv))).
  assert (Rn : forall v, (0 <=? v) && (v <? 2 ^ 64) = true -> 0 <= v < 2 ^ 64).
  { intros v Hv. apply andb_prop in Hv. destruct Hv as [A B]. split; [apply Z.leb_le; exact A|apply Z.ltb_lt; exact B]. }
  assert (E1 : bfe_new 1 = bfe_one) by (vm_compute; reflexivity).
  split; [unfold fmci_ex_offset; apply Cn, Rn; vm_compute; reflexivity|].
  split.
  { unfold fmci_ex_offset. rewrite (proj2 (bden_new 7 (Rn 7 eq_refl))). intros E.
    apply (f_equal fval) in E. vm_compute in E. discriminate. }
  split; [unfold fmci_ex_cw; cbn [map]; repeat (constructor; [apply Cn, Rn; vm_compute; reflexivity|]); constructor|].
  split; [reflexivity|].
  split; [unfold fmci_ex_modulus; cbn [map]; repeat (constructor; [apply Cn, Rn; vm_compute; reflexivity|]); constructor|].
  split; [|vm_compute; discriminate].
  intros Z0. specialize (Z0 3%nat). unfold fmci_ex_modulus in Z0. cbn [map] in Z0. unfold PolySpec.coeff in Z0. cbn [nth] in Z0.
  assert (D1 : bden bfe_one = k1 fp_field) by exact (proj2 (fo_one _ _ _ _ bfe_field_ok)).
  rewrite E1, D1 in Z0. exact (k1_neq_0 fp_field Z0).
Qed.
Lemma fmci_ex_applies :
  exists pre r ip,
    pint_fmci_preprocess bfe_ops ntt_b intt_b (zlen fmci_ex_cw) fmci_ex_offset fmci_ex_modulus = Some pre /\
    pint_fmci_with_zerofiers_and_ntt_friendly_multiple bfe_ops bb_act ntt_b intt_b false fmci_ex_cw fmci_ex_offset fmci_ex_modulus pre = Some r /\
    pint_fast_modular_coset_interpolate bfe_ops bb_act ntt_b intt_b false fmci_ex_cw fmci_ex_offset fmci_ex_modulus = Some r /\
    interpolates fp_field (coset_points fp_field wr_b (bden fmci_ex_offset) 3) (Db fmci_ex_cw) ip /\
    is_rem fp_field ip (Db fmci_ex_modulus) (Db r).
Proof.
  destruct fmci_ex_hyps as [A [B [C [D [E [G I]]]]]].
  destruct (bfe_fmci_general false 3 fmci_ex_offset fmci_ex_cw fmci_ex_modulus ltac:(apply Nat.leb_le; reflexivity) A B C D E G I)
    as [pre [r [ip [P1 [P2 [P3 [_ [P5 [P6 _]]]]]]]]].
  exists pre, r, ip. split; [exact P1|]. split; [exact P2|]. split; [exact P3|]. split; [exact P5|exact P6].
Qed.

(* the hypotheses of bfe_fmci_general are satisfiable at the largest length, 2^32 (nothing is executed: the zero codeword of
   2^32 elements, offset 1, modulus X) *)
Lemma fmci_ex_length_2_32 :
  exists r, pint_fast_modular_coset_interpolate bfe_ops bb_act ntt_b intt_b false (repeat bfe_zero (2 ^ 32)) bfe_one [bfe_zero; bfe_one] = Some r /\
            Forall canon r.
Proof.
  assert (C1 : canon bfe_one) by (split; vm_compute; [discriminate|reflexivity]).
  assert (C0 : canon bfe_zero) by (split; vm_compute; [discriminate|reflexivity]).
  assert (D1 : bden bfe_one = k1 fp_field) by exact (proj2 (fo_one _ _ _ _ bfe_field_ok)).
  assert (D0 : bden bfe_zero = k0 fp_field) by exact (proj2 (fo_zero _ _ _ _ bfe_field_ok)).
  destruct (bfe_fmci_general false 32 bfe_one (repeat bfe_zero (2 ^ 32)) [bfe_zero; bfe_one]) as [pre [r [ip [_ [_ [E [Or _]]]]]]].
  - apply Nat.le_refl.
  - exact C1.
  - rewrite D1. exact (k1_neq_0 fp_field).
  - apply Forall_forall. intros y Hy. apply repeat_spec in Hy. subst y. exact C0.
  - apply repeat_length.
  - constructor; [exact C0|constructor; [exact C1|constructor]].
  - intros Z0. specialize (Z0 1%nat). cbn [map] in Z0. unfold PolySpec.coeff in Z0. cbn [nth] in Z0. rewrite D1 in Z0.
    exact (k1_neq_0 fp_field Z0).
  - vm_compute. discriminate.
  - exists r. split; [exact E|exact Or].
Qed.
