(* proofs/PolyGenExamples.v - EXECUTED instances for props/C09c.v and props/C08c.v (bytecode VM, Montgomery words).

   Not imported by any props file: coqchk has no VM and would need minutes per run for these conversions (a 30 s VM run costs
   about 5 min there).  The file is a proof target of C08 and C09, so it is compiled (and cached) with everything else and
   breaks the build if the model stops computing these values.  The same inputs replayed on the real code through the harness
   (c09: `fpsi_newton b 4 | o0 1 1 0 ... 0 1`, c08: `modular_interpolate b 7 | 3 1 4 1 5 9 2 6 | o0 5 0 1 1`) print the same
   coefficients.

   newton_ex_executed   formal_power_series_inverse_newton on f = 1 + X + X^128 at precision 4 (last round in the NTT domain, domain
                        change 256 -> 512, full domain 1024): 1024 coefficients starting 1, -1, 1, -1; the schoolbook product of the
                        truncations starts 1, 0, 0, 0
   fmci_ex_textbook     inverse DFT, unscaling by 1/7, schoolbook long division                         \
   fmci_ex_run          fast_modular_coset_interpolate as the code runs it (n = 8: Lagrange regime)       > the same three coefficients
   fmci_ex_recursion    the even / odd recursion forced by small thresholds (one split, INTT regime below) /               *)
From Coq Require Import ZArith Bool List.
From TF Require Import Word BFieldGen BField XField FieldOps FieldTheory PolyGen PolyCore PolySpec Ntt PolyDiv PolyInterp
  PolyNewtonGen PolyFmciGen.
Import ListNotations.
Open Scope Z_scope.

Lemma newton_ex_executed :
  option_map (fun g => (zlen g, map bfe_value (firstn 4 g),
                        map bfe_value (firstn 4 (poly_naive_multiply bfe_ops (firstn 4 newton_ex_poly) (firstn 4 g)))))
             (pdiv_fpsi_newton bfe_ops ntt_b intt_b newton_ex_poly 4)
  = Some (1024, [1; 18446744069414584320; 1; 18446744069414584320], [1; 0; 0; 0]).
Proof. vm_cast_no_check (eq_refl (Some (1024, [1; 18446744069414584320; 1; 18446744069414584320], [1; 0; 0; 0]))). Qed.

Lemma fmci_ex_textbook :
  match pint_coset_interpolant bfe_ops intt_b fmci_ex_offset fmci_ex_cw with
  | Some ip => option_map (map bfe_value) (pint_reduce_long_division bfe_ops ip fmci_ex_modulus)
  | None => None
  end = Some fmci_ex_result.
Proof. vm_cast_no_check (eq_refl (Some fmci_ex_result)). Qed.
Lemma fmci_ex_run :
  option_map (map bfe_value) (pint_fast_modular_coset_interpolate bfe_ops bb_act ntt_b intt_b false fmci_ex_cw fmci_ex_offset fmci_ex_modulus)
  = Some fmci_ex_result.
Proof. vm_cast_no_check (eq_refl (Some fmci_ex_result)). Qed.
Lemma fmci_ex_recursion :
  match pint_fmci_preprocess bfe_ops ntt_b intt_b (zlen fmci_ex_cw) fmci_ex_offset fmci_ex_modulus with
  | Some pre => option_map (map bfe_value) (pint_fmci_with_thresholds bfe_ops bb_act ntt_b intt_b false 2 4 fmci_ex_cw fmci_ex_offset fmci_ex_modulus pre)
  | None => None
  end = Some fmci_ex_result.
Proof. vm_cast_no_check (eq_refl (Some fmci_ex_result)). Qed.
