(* proofs/PolyInterpAlg.v - the algebra behind property C08, over an abstract field (spec/PolySpec.v only; nothing
   here mentions the model):
     zspec rs            = prod (X - r_i)                               (the zerofier of the property)
     pquot p x           = the quotient of p by (X - x) (Horner / synthetic division), p = (X - x) * pquot p x + p(x)
     root_bound          : a polynomial with fewer than n coefficients (degree < n) that vanishes at n pairwise distinct
                           points is zero  (from the factor theorem and pdeg_pmul / pmul_integral of PolySpec)
     interpolant_unique  : two polynomials of degree < n that agree at n pairwise distinct points are equal
     interpolates xs ys p: p has degree < length xs and p(x_i) = y_i - THE interpolant by interpolant_unique *)
From Coq Require Import ZArith Lia List Bool Ring Field Setoid Morphisms.
From TF Require Import FieldOps FieldTheory PolySpec.
Import ListNotations.

Section Alg.
  Context {K : Type} (fk : fieldK K).
  Local Notation "0" := (k0 fk).
  Local Notation "1" := (k1 fk).
  Local Infix "+" := (kadd fk).
  Local Infix "*" := (kmul fk).
  Local Infix "-" := (ksub fk).
  Local Notation "- x" := (kopp fk x).
  Local Notation peq := (peq fk).
  Local Notation pmul := (pmul fk).
  Local Notation padd := (padd fk).
  Local Notation peval := (peval fk).
  Local Notation coeff := (coeff fk).
  Local Notation pdeg := (pdeg fk).
  Local Notation pzero := (pzero fk).
  Add Field kfield_PolyInterpAlg : (kFT fk).

  (* ---------------------------------------------------------------- degree below n, as a statement on coefficients *)
  Definition deg_lt (p : list K) (n : nat) : Prop := forall i, (n <= i)%nat -> coeff p i = 0.
  Lemma deg_lt_pdeg p n : deg_lt p n <-> (pdeg p < Z.of_nat n)%Z.
  Proof.
    split.
    - intros H. apply pdeg_bound. exact H.
    - intros H i Hi. apply coeff_above_pdeg. lia.
  Qed.
  Lemma deg_lt_length p : deg_lt p (length p).
  Proof. intros i Hi. apply coeff_overflow. exact Hi. Qed.
  Lemma deg_lt_le p n m : (n <= m)%nat -> deg_lt p n -> deg_lt p m.
  Proof. intros L H i Hi. apply H. lia. Qed.
  Lemma deg_lt_peq p q n : peq p q -> deg_lt p n -> deg_lt q n.
  Proof. intros E H i Hi. rewrite <- (peq_elim fk _ _ E). apply H. exact Hi. Qed.
  Lemma deg_lt_padd p q n : deg_lt p n -> deg_lt q n -> deg_lt (padd p q) n.
  Proof. intros Hp Hq i Hi. rewrite coeff_padd, Hp, Hq by exact Hi. ring. Qed.
  Lemma deg_lt_psub p q n : deg_lt p n -> deg_lt q n -> deg_lt (psub fk p q) n.
  Proof. intros Hp Hq i Hi. rewrite coeff_psub, Hp, Hq by exact Hi. ring. Qed.
  Lemma deg_lt_pscale c p n : deg_lt p n -> deg_lt (pscale fk c p) n.
  Proof. intros Hp i Hi. rewrite coeff_pscale, Hp by exact Hi. ring. Qed.
  Lemma deg_lt_pmul p q n m : deg_lt p n -> deg_lt q (S m) -> deg_lt (pmul p q) (n + m).
  Proof.
    intros Hp Hq i Hi. rewrite coeff_pmul. rewrite (ksum_ext fk _ (fun _ => 0)), ksum_0; [reflexivity|].
    intros j Hj. destruct (Nat.lt_ge_cases j n) as [L|G].
    - rewrite (Hq (i - j)%nat) by lia. ring.
    - rewrite (Hp j) by lia. ring.
  Qed.
  Lemma deg_lt_0_pzero p : deg_lt p 0 -> pzero p.
  Proof. intros H i. apply H. lia. Qed.

  (* ---------------------------------------------------------------- linear factors and the zerofier *)
  Definition plin (r : K) : list K := [- r; 1].
  Definition zspec (rs : list K) : list K := pprod fk (map plin rs).
  Lemma zspec_nil : zspec [] = pone fk. Proof. reflexivity. Qed.
  Lemma zspec_cons r rs : zspec (r :: rs) = pmul (plin r) (zspec rs). Proof. reflexivity. Qed.
  Lemma zspec_app a b : peq (zspec (a ++ b)) (pmul (zspec a) (zspec b)).
  Proof. unfold zspec. rewrite map_app. apply pprod_app. Qed.
  Lemma peval_plin r x : peval (plin r) x = x - r.
  Proof. unfold plin. cbn [PolySpec.peval]. ring. Qed.
  Lemma coeff_pmul_plin r p k :
    coeff (pmul (plin r) p) k = (- r) * coeff p k + match k with O => 0 | S k' => coeff p k' end.
  Proof.
    unfold plin. rewrite coeff_pmul_cons. f_equal. destruct k as [|k]; [reflexivity|].
    rewrite coeff_pmul_cons. destruct k; rewrite ?coeff_pmul_nil; ring.
  Qed.
  Lemma peval_zspec rs x : peval (zspec rs) x = fold_right (fun r acc => (x - r) * acc) 1 rs.
  Proof.
    induction rs as [|r rs IH]; [rewrite zspec_nil, peval_pone; reflexivity|]. rewrite zspec_cons, peval_pmul, peval_plin, IH. reflexivity.
  Qed.
  Lemma peval_zspec_root rs x : In x rs -> peval (zspec rs) x = 0.
  Proof.
    induction rs as [|r rs IH]; intros Hin; [destruct Hin|]. rewrite zspec_cons, peval_pmul, peval_plin.
    destruct Hin as [->|Hin]; [ring|]. rewrite (IH Hin). ring.
  Qed.
  Lemma peval_zspec_nonroot rs x : ~ In x rs -> peval (zspec rs) x <> 0.
  Proof.
    induction rs as [|r rs IH]; intros Hin.
    - rewrite zspec_nil, peval_pone. apply k1_neq_0.
    - rewrite zspec_cons, peval_pmul, peval_plin. intros E. destruct (k_integral fk _ _ E) as [E1|E1].
      + apply Hin. left. symmetry. transitivity (x - r + r); [ring|]. rewrite E1. ring.
      + apply IH in E1; [exact E1|]. intros X. apply Hin. right. exact X.
  Qed.
  (* degree n, monic *)
  Lemma zspec_deg_lt rs : deg_lt (zspec rs) (S (length rs)).
  Proof.
    induction rs as [|r rs IH].
    - rewrite zspec_nil. intros i Hi. apply coeff_overflow. cbn in *. lia.
    - rewrite zspec_cons. intros i Hi. rewrite coeff_pmul_plin. cbn [length] in Hi.
      rewrite (IH i) by lia. destruct i; [lia|]. rewrite (IH i) by lia. ring.
  Qed.
  Lemma zspec_monic rs : coeff (zspec rs) (length rs) = 1.
  Proof.
    induction rs as [|r rs IH]; [reflexivity|]. rewrite zspec_cons. cbn [length]. rewrite coeff_pmul_plin.
    rewrite (zspec_deg_lt rs (S (length rs))) by lia. rewrite IH. ring.
  Qed.
  Lemma zspec_not_pzero rs : ~ pzero (zspec rs).
  Proof. intros H. apply (k1_neq_0 fk). rewrite <- (zspec_monic rs). apply H. Qed.
  Lemma zspec_pdeg rs : pdeg (zspec rs) = Z.of_nat (length rs).
  Proof.
    apply Z.le_antisymm.
    - pose proof (proj1 (deg_lt_pdeg _ _) (zspec_deg_lt rs)). lia.
    - destruct (Z.lt_ge_cases (pdeg (zspec rs)) (Z.of_nat (length rs))) as [L|G]; [exfalso|lia].
      apply (k1_neq_0 fk). rewrite <- (zspec_monic rs). apply coeff_above_pdeg. exact L.
  Qed.

  (* ---------------------------------------------------------------- synthetic division by (X - x) *)
  Fixpoint pquot (p : list K) (x : K) : list K :=
    match p with
    | [] => []
    | _ :: p' => match p' with [] => [] | _ => peval p' x :: pquot p' x end
    end.
  Lemma pquot_length p x : length (pquot p x) = (length p - 1)%nat.
  Proof.
    induction p as [|a p IH]; [reflexivity|]. cbn [pquot]. destruct p as [|b p]; [reflexivity|].
    cbn [length] in *. rewrite IH. lia.
  Qed.
  Lemma coeff_single c i : coeff [c] i = match i with O => c | S _ => 0 end.
  Proof. destruct i as [|i]; [reflexivity|]. rewrite coeff_cons_S. apply coeff_nil. Qed.
  (* p = (X - x) * pquot p x + p(x) *)
  Lemma pquot_spec p x : peq p (padd (pmul (plin x) (pquot p x)) [peval p x]).
  Proof.
    induction p as [|a p IH].
    - change (pquot [] x) with (@nil K). change (peval [] x) with 0.
      apply peq_intro; intros i. rewrite coeff_padd, (peq_elim fk _ _ (pmul_nil_r fk (plin x))), coeff_single, coeff_nil.
      destruct i; ring.
    - destruct p as [|b p].
      + change (pquot [a] x) with (@nil K).
        apply peq_intro; intros i. rewrite coeff_padd, (peq_elim fk _ _ (pmul_nil_r fk (plin x))), !coeff_single, coeff_nil.
        change (peval [a] x) with (a + x * 0). destruct i; ring.
      + set (p' := b :: p) in *. change (pquot (a :: p') x) with (peval p' x :: pquot p' x).
        change (peval (a :: p') x) with (a + x * peval p' x).
        apply peq_intro; intros i. rewrite coeff_padd, coeff_pmul_plin, coeff_single.
        pose proof (peq_elim fk _ _ IH) as E.
        destruct i as [|i].
        * rewrite !coeff_cons_0. ring.
        * rewrite !coeff_cons_S. rewrite (E i), coeff_padd, coeff_pmul_plin, coeff_single.
          destruct i as [|i]; [rewrite !coeff_cons_0; ring|]. rewrite !coeff_cons_S. ring.
  Qed.
  Lemma factor_theorem p x : peval p x = 0 -> peq p (pmul (plin x) (pquot p x)).
  Proof.
    intros E. rewrite (pquot_spec p x) at 1. rewrite E. apply peq_intro; intros i. rewrite coeff_padd, coeff_single.
    destruct i; ring.
  Qed.
  Lemma peval_pquot_other p x y : peval p x = 0 -> peval p y = 0 -> y <> x -> peval (pquot p x) y = 0.
  Proof.
    intros Ex Ey Hne. pose proof (factor_theorem p x Ex) as F. rewrite F in Ey.
    rewrite peval_pmul, peval_plin in Ey. destruct (k_integral fk _ _ Ey) as [E|E]; [|exact E].
    exfalso. apply Hne. transitivity (y - x + x); [ring|]. rewrite E. ring.
  Qed.
  Lemma deg_lt_pquot p x n : deg_lt p (S n) -> deg_lt (pquot p x) n.
  Proof.
    revert n. induction p as [|a p IH]; intros n H i Hi; [apply coeff_nil|].
    destruct p as [|b p]; [apply coeff_nil|]. set (p' := b :: p) in *.
    change (pquot (a :: p') x) with (peval p' x :: pquot p' x).
    (* every coefficient of p' from index n on vanishes *)
    assert (Hp' : deg_lt p' n). { intros j Hj. pose proof (H (S j) ltac:(lia)) as E. rewrite coeff_cons_S in E. exact E. }
    destruct i as [|i].
    - (* n = 0: p' is zero *)
      rewrite coeff_cons_0. apply peval_peq_nil. apply deg_lt_0_pzero. assert (n = O) by lia. subst n. exact Hp'.
    - rewrite coeff_cons_S. destruct n as [|n]; [|apply (IH n Hp'); lia].
      (* p' zero: its quotient is zero too *)
      assert (Z : pzero p') by (apply deg_lt_0_pzero; exact Hp').
      clear - Z. revert i. induction p' as [|c q IHq]; intros i; [apply coeff_nil|].
      apply pzero_cons in Z. destruct Z as [-> Z]. destruct q as [|d q]; [apply coeff_nil|].
      change (pquot (0 :: d :: q) x) with (peval (d :: q) x :: pquot (d :: q) x).
      destruct i; [rewrite coeff_cons_0; apply peval_peq_nil; exact Z|]. rewrite coeff_cons_S. apply IHq. exact Z.
  Qed.

  (* ---------------------------------------------------------------- the root bound and uniqueness of the interpolant *)
  Theorem root_bound xs : NoDup xs -> forall p, deg_lt p (length xs) -> (forall x, In x xs -> peval p x = 0) -> pzero p.
  Proof.
    induction xs as [|x xs IH]; intros Hnd p Hdeg Hroots.
    - apply deg_lt_0_pzero. exact Hdeg.
    - inversion Hnd as [|? ? Hnotin Hnd']; subst.
      assert (Ex : peval p x = 0) by (apply Hroots; left; reflexivity).
      pose proof (factor_theorem p x Ex) as F.
      assert (Zq : pzero (pquot p x)).
      { apply (IH Hnd').
        - apply deg_lt_pquot. exact Hdeg.
        - intros y Hy. apply peval_pquot_other; [exact Ex|apply Hroots; right; exact Hy|].
          intros ->. apply Hnotin. exact Hy. }
      apply peq_nil_pzero. rewrite F. apply peq_nil_pzero. apply pmul_pzero_r. exact Zq.
  Qed.

  Definition interpolates (xs ys : list K) (p : list K) : Prop :=
    deg_lt p (length xs) /\ Forall2 (fun x y => peval p x = y) xs ys.

  Theorem interpolant_unique xs ys p q :
    NoDup xs -> interpolates xs ys p -> interpolates xs ys q -> peq p q.
  Proof.
    intros Hnd [Dp Vp] [Dq Vq].
    assert (Z : pzero (psub fk p q)).
    { apply (root_bound xs Hnd); [apply deg_lt_psub; assumption|].
      intros x Hx. rewrite peval_psub.
      clear - Vp Vq Hx. revert ys Vp Vq. induction xs as [|a xs IH]; intros ys Vp Vq; [destruct Hx|].
      inversion Vp as [|? y ? ys' E1 Vp']; subst. inversion Vq as [|? ? ? ? E2 Vq']; subst.
      destruct Hx as [->|Hx]; [rewrite E2; ring|]. exact (IH Hx ys' Vp' Vq'). }
    apply peq_intro; intros i. pose proof (Z i) as E. rewrite coeff_psub in E.
    transitivity (coeff p i - coeff q i + coeff q i); [ring|]. rewrite E. ring.
  Qed.
  Lemma interpolates_peq xs ys p q : peq p q -> interpolates xs ys p -> interpolates xs ys q.
  Proof.
    intros E [Dp Vp]. split; [exact (deg_lt_peq _ _ _ E Dp)|].
    clear Dp. induction Vp; constructor; [rewrite <- E; assumption|assumption].
  Qed.
  Lemma interpolates_nth xs ys p d e i :
    interpolates xs ys p -> (i < length xs)%nat -> peval p (nth i xs d) = nth i ys e.
  Proof.
    intros [_ V]. revert i. induction V; intros i Hi; [cbn in Hi; lia|].
    destruct i; [assumption|]. cbn [nth]. apply IHV. cbn in Hi. lia.
  Qed.
  Lemma interpolates_intro xs ys p d e :
    length ys = length xs -> deg_lt p (length xs) ->
    (forall i, (i < length xs)%nat -> peval p (nth i xs d) = nth i ys e) -> interpolates xs ys p.
  Proof.
    intros L Dp V. split; [exact Dp|]. clear Dp. revert ys L V. induction xs as [|x xs IH]; intros ys L V.
    - destruct ys; [constructor|discriminate].
    - destruct ys as [|y ys]; [discriminate|]. constructor.
      + exact (V O ltac:(cbn; lia)).
      + apply IH; [cbn in L; lia|]. intros i Hi. exact (V (S i) ltac:(cbn; lia)).
  Qed.

  (* the quotient of the zerofier by (X - x_i) does not vanish at x_i when the x are pairwise distinct *)
  Lemma zerofier_quotient_nonzero xs z x :
    NoDup xs -> In x xs -> peq z (zspec xs) -> length z = S (length xs) -> peval (pquot z x) x <> 0.
  Proof.
    intros Hnd Hin Ez Lz E.
    assert (Zx : forall y, In y xs -> peval z y = 0) by (intros y Hy; rewrite Ez; apply peval_zspec_root; exact Hy).
    assert (Zq : pzero (pquot z x)).
    { apply (root_bound xs Hnd).
      - apply deg_lt_pquot. rewrite <- Lz. apply deg_lt_length.
      - intros y Hy. destruct (keq_dec fk y x) as [->|Hne]; [exact E|].
        apply peval_pquot_other; [apply Zx; exact Hin|apply Zx; exact Hy|exact Hne]. }
    apply (zspec_not_pzero xs). apply peq_nil_pzero. rewrite <- Ez.
    rewrite (factor_theorem z x (Zx x Hin)). apply peq_nil_pzero. apply pmul_pzero_r. exact Zq.
  Qed.

  (* evaluation only sees the residue modulo a polynomial that vanishes at the point *)
  Lemma peval_congruent a q m r x : peq a (padd (pmul q m) r) -> peval m x = 0 -> peval a x = peval r x.
  Proof. intros E Hm. rewrite E, peval_padd, peval_pmul, Hm. ring. Qed.

  (* Horner as the code runs it, with the addition on the right *)
  Lemma peval_app_single p c x : peval (p ++ [c]) x = peval p x + kpow fk x (length p) * c.
  Proof.
    induction p as [|a p IH]; [cbn; ring|]. cbn [app PolySpec.peval length kpow]. rewrite IH. ring.
  Qed.
End Alg.
