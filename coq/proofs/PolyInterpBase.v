(* proofs/PolyInterpBase.v - the facts about model/PolyCore.v (raw-list helpers, normalize / degree / is_zero, evaluate,
   add, sub, scalar_mul, scale) that the C08 proofs need, against spec/PolySpec.v.  Self-contained (C07's
   proofs/PolyCoreProofs.v is being written concurrently; the overlapping lemmas are restated here under `pb_` names).

   Setting: `o : fops F` refines an abstract field `fk : fieldK K` through `field_ok o fk ok den`; a raw model list
   `l : list F` with `Forall ok l` denotes the polynomial `map den l`. *)
From Coq Require Import ZArith Lia List Bool Ring Field Setoid Morphisms.
From TF Require Import Word BFieldGen BField XField FieldOps FieldTheory PolyGen PolyCore PolySpec.
Import ListNotations.
Open Scope Z_scope.
Ltac Zify.zify_post_hook ::= Z.div_mod_to_equations.

(* ------------------------------------------------------------------ list helpers *)
Lemma pb_zlen_nonneg {A} (l : list A) : 0 <= zlen l. Proof. unfold zlen. lia. Qed.
Lemma pb_zlen_nil {A} : zlen (@nil A) = 0. Proof. reflexivity. Qed.
Lemma pb_zlen_cons {A} (x : A) l : zlen (x :: l) = zlen l + 1. Proof. unfold zlen. cbn [length]. lia. Qed.
Lemma pb_zlen_app {A} (a b : list A) : zlen (a ++ b) = zlen a + zlen b.
Proof. unfold zlen. rewrite app_length. lia. Qed.
Lemma pb_zlen_map {A B} (f : A -> B) l : zlen (map f l) = zlen l.
Proof. unfold zlen. rewrite map_length. reflexivity. Qed.
Lemma pb_zlen_zrepeat {A} (x : A) k : zlen (zrepeat x k) = Z.max 0 k.
Proof. unfold zlen, zrepeat. rewrite repeat_length. lia. Qed.
Lemma pb_zlen_take {A} k (l : list A) : zlen (take k l) = Z.max 0 (Z.min k (zlen l)).
Proof. unfold zlen, take. rewrite firstn_length. lia. Qed.
Lemma pb_zlen_drop {A} k (l : list A) : zlen (drop k l) = zlen l - Z.max 0 (Z.min k (zlen l)).
Proof. unfold zlen, drop. rewrite skipn_length. lia. Qed.
Lemma pb_take_drop {A} k (l : list A) : take k l ++ drop k l = l.
Proof. unfold take, drop. apply firstn_skipn. Qed.
Lemma pb_take_all {A} k (l : list A) : zlen l <= k -> take k l = l.
Proof. intros H. unfold take. apply firstn_all2. unfold zlen in H. lia. Qed.
Lemma pb_length_take {A} k (l : list A) : 0 <= k <= zlen l -> length (take k l) = Z.to_nat k.
Proof. intros H. unfold take, zlen in *. rewrite firstn_length. lia. Qed.
Lemma pb_length_drop {A} k (l : list A) : 0 <= k <= zlen l -> length (drop k l) = (length l - Z.to_nat k)%nat.
Proof. intros H. unfold drop. rewrite skipn_length. reflexivity. Qed.
Lemma pb_Forall_firstn {A} (P : A -> Prop) n l : Forall P l -> Forall P (firstn n l).
Proof.
  revert n. induction l as [|a l IH]; intros n Hl; [rewrite firstn_nil; constructor|].
  destruct n; [constructor|]. inversion Hl; subst. cbn [firstn]. constructor; [assumption|apply IH; assumption].
Qed.
Lemma pb_Forall_skipn {A} (P : A -> Prop) n l : Forall P l -> Forall P (skipn n l).
Proof.
  revert n. induction l as [|a l IH]; intros n Hl; [rewrite skipn_nil; constructor|].
  destruct n; [exact Hl|]. inversion Hl; subst. cbn [skipn]. apply IH. assumption.
Qed.
Lemma pb_Forall_take {A} (P : A -> Prop) k l : Forall P l -> Forall P (take k l).
Proof. apply pb_Forall_firstn. Qed.
Lemma pb_Forall_drop {A} (P : A -> Prop) k l : Forall P l -> Forall P (drop k l).
Proof. apply pb_Forall_skipn. Qed.
Lemma pb_Forall_zrepeat {A} (P : A -> Prop) x k : P x -> Forall P (zrepeat x k).
Proof. intros H. unfold zrepeat. apply Forall_forall. intros y Hy. apply repeat_spec in Hy. subst. exact H. Qed.
Lemma pb_map_take {A B} (f : A -> B) k l : map f (take k l) = take k (map f l).
Proof. unfold take. symmetry. apply firstn_map. Qed.
Lemma pb_map_drop {A B} (f : A -> B) k l : map f (drop k l) = drop k (map f l).
Proof. unfold drop. symmetry. apply skipn_map. Qed.
Lemma pb_map_zrepeat {A B} (f : A -> B) x k : map f (zrepeat x k) = zrepeat (f x) k.
Proof. unfold zrepeat. induction (Z.to_nat k) as [|n IH]; [reflexivity|]. cbn [repeat map]. rewrite IH. reflexivity. Qed.
Lemma pb_idx_nth_error {A} (l : list A) i : 0 <= i -> idx l i = nth_error l (Z.to_nat i).
Proof. intros H. unfold idx. destruct (i <? 0) eqn:E; [lia|reflexivity]. Qed.
Lemma pb_idx_of_nat {A} (l : list A) n : idx l (Z.of_nat n) = nth_error l n.
Proof. rewrite pb_idx_nth_error by lia. rewrite Nat2Z.id. reflexivity. Qed.
Lemma pb_idx_some {A} (l : list A) i : 0 <= i < zlen l -> exists x, idx l i = Some x.
Proof.
  intros H. rewrite pb_idx_nth_error by lia. destruct (nth_error l (Z.to_nat i)) eqn:E; [eexists; reflexivity|].
  apply nth_error_None in E. unfold zlen in H. lia.
Qed.
Lemma pb_Forall_nth_error {A} (P : A -> Prop) l n x : Forall P l -> nth_error l n = Some x -> P x.
Proof. intros H E. rewrite Forall_forall in H. apply H. eapply nth_error_In. exact E. Qed.
Lemma pb_map2_length {A B C} (f : A -> B -> C) a b : length (map2 f a b) = Nat.min (length a) (length b).
Proof. revert b. induction a as [|x a IH]; intros [|y b]; cbn [map2 length]; try reflexivity. rewrite IH. reflexivity. Qed.
Lemma pb_map_opt_Some {A B} (f : A -> option B) (P : A -> Prop) (Q : B -> Prop) l :
  (forall x, P x -> exists y, f x = Some y /\ Q y) -> Forall P l ->
  exists r, map_opt f l = Some r /\ Forall2 (fun x y => f x = Some y /\ Q y) l r.
Proof.
  intros Hf. induction l as [|x l IH]; intros Hl; [exists []; split; [reflexivity|constructor]|].
  inversion Hl as [|? ? Hx Hl']; subst. destruct (Hf x Hx) as [y [E Qy]]. destruct (IH Hl') as [r [Er Fr]].
  exists (y :: r). cbn [map_opt]. rewrite E, Er. split; [reflexivity|]. constructor; [split; assumption|assumption].
Qed.
(* chunks: concatenation gives the list back, every chunk is non-empty and at most n long *)
Lemma pb_chunks_go_concat {A} fuel n (l : list A) : (0 < n)%nat -> (length l <= fuel)%nat -> concat (chunks_go fuel n l) = l.
Proof.
  intros Hn. revert l. induction fuel as [|f IH]; intros l Hl.
  - destruct l; [reflexivity|cbn in Hl; lia].
  - cbn [chunks_go]. destruct l as [|x l]; [reflexivity|]. set (l0 := x :: l) in *.
    cbn [concat]. rewrite IH; [apply firstn_skipn|]. rewrite skipn_length. subst l0. cbn [length] in *. lia.
Qed.
Lemma pb_chunks_concat {A} n (l : list A) : 0 < n -> concat (chunks n l) = l.
Proof. intros Hn. unfold chunks. apply pb_chunks_go_concat; lia. Qed.
Lemma pb_chunks_go_Forall {A} (P : A -> Prop) fuel n (l : list A) : Forall P l -> Forall (Forall P) (chunks_go fuel n l).
Proof.
  revert l. induction fuel as [|f IH]; intros l Hl; [constructor|]. cbn [chunks_go]. destruct l as [|x l]; [constructor|].
  constructor; [apply pb_Forall_firstn; exact Hl|apply IH; apply pb_Forall_skipn; exact Hl].
Qed.
Lemma pb_chunks_Forall {A} (P : A -> Prop) n (l : list A) : Forall P l -> Forall (Forall P) (chunks n l).
Proof. apply pb_chunks_go_Forall. Qed.
Lemma pb_chunks_go_length_le {A} fuel n (l : list A) : (0 < n)%nat -> Forall (fun c => (length c <= n)%nat /\ c <> []) (chunks_go fuel n l).
Proof.
  intros Hn. revert l. induction fuel as [|f IH]; intros l; [constructor|]. cbn [chunks_go]. destruct l as [|x l]; [constructor|].
  constructor; [|apply IH]. split; [rewrite firstn_length; lia|]. destruct n; [lia|]. cbn [firstn]. discriminate.
Qed.

Section Base.
  Context {F K : Type} (o : fops F) (fk : fieldK K) (ok : F -> Prop) (den : F -> K).
  Hypothesis H : field_ok o fk ok den.
  Local Notation "0" := (k0 fk).
  Local Notation "1" := (k1 fk).
  Local Infix "+" := (kadd fk).
  Local Infix "*" := (kmul fk).
  Local Infix "-" := (ksub fk).
  Local Notation "- x" := (kopp fk x).
  Local Notation D := (map den).
  Local Notation okl := (Forall ok).
  Local Notation peq := (peq fk).
  Add Field kfield_PolyInterpBase : (kFT fk).

  Lemma pb_ok0 : ok (fzero o). Proof. exact (proj1 (fo_zero _ _ _ _ H)). Qed.
  Lemma pb_den0 : den (fzero o) = 0. Proof. exact (proj2 (fo_zero _ _ _ _ H)). Qed.
  Lemma pb_ok1 : ok (fone o). Proof. exact (proj1 (fo_one _ _ _ _ H)). Qed.
  Lemma pb_den1 : den (fone o) = 1. Proof. exact (proj2 (fo_one _ _ _ _ H)). Qed.
  Lemma pb_ok_add a b : ok a -> ok b -> ok (fadd o a b). Proof. intros A B. exact (proj1 (fo_add _ _ _ _ H a b A B)). Qed.
  Lemma pb_den_add a b : ok a -> ok b -> den (fadd o a b) = den a + den b. Proof. intros A B. exact (proj2 (fo_add _ _ _ _ H a b A B)). Qed.
  Lemma pb_ok_sub a b : ok a -> ok b -> ok (fsub o a b). Proof. intros A B. exact (proj1 (fo_sub _ _ _ _ H a b A B)). Qed.
  Lemma pb_den_sub a b : ok a -> ok b -> den (fsub o a b) = den a - den b. Proof. intros A B. exact (proj2 (fo_sub _ _ _ _ H a b A B)). Qed.
  Lemma pb_ok_mul a b : ok a -> ok b -> ok (fmul o a b). Proof. intros A B. exact (proj1 (fo_mul _ _ _ _ H a b A B)). Qed.
  Lemma pb_den_mul a b : ok a -> ok b -> den (fmul o a b) = den a * den b. Proof. intros A B. exact (proj2 (fo_mul _ _ _ _ H a b A B)). Qed.
  Lemma pb_ok_neg a : ok a -> ok (fneg o a). Proof. intros A. exact (proj1 (fo_neg _ _ _ _ H a A)). Qed.
  Lemma pb_den_neg a : ok a -> den (fneg o a) = - den a. Proof. intros A. exact (proj2 (fo_neg _ _ _ _ H a A)). Qed.
  Lemma pb_is0_iff a : ok a -> (fis_zero o a = true <-> den a = 0).
  Proof. exact (fo_is_zero o fk ok den H a). Qed.
  Lemma pb_is0_false_iff a : ok a -> (fis_zero o a = false <-> den a <> 0).
  Proof.
    intros Ha. pose proof (pb_is0_iff a Ha) as E. destruct (fis_zero o a); split; intros X; try congruence.
    - exfalso. apply X. apply E. reflexivity.
    - intros Y. apply E in Y. discriminate.
  Qed.
  Lemma pb_is0_zero : fis_zero o (fzero o) = true.
  Proof. apply pb_is0_iff; [exact pb_ok0|exact pb_den0]. Qed.
  (* fdiv = multiplication by the inverse; None exactly for a zero divisor *)
  Lemma pb_fdiv_some a b : ok a -> ok b -> den b <> 0 ->
    exists c, fdiv o a b = Some c /\ ok c /\ den c = den a * kinv fk (den b).
  Proof.
    intros A B Nz. unfold fdiv. destruct (fo_inv _ _ _ _ H b B Nz) as [y [E [Oy Dy]]]. rewrite E.
    eexists. split; [reflexivity|]. split; [apply pb_ok_mul; assumption|]. rewrite pb_den_mul, Dy by assumption. reflexivity.
  Qed.
  Lemma pb_fdiv_none a b : ok b -> den b = 0 -> fdiv o a b = None.
  Proof. intros B Z. unfold fdiv. rewrite (fo_inv0 _ _ _ _ H b B Z). reflexivity. Qed.

  Lemma pb_D_zeros k : D (zrepeat (fzero o) k) = zrepeat 0 k.
  Proof. rewrite pb_map_zrepeat, pb_den0. reflexivity. Qed.
  Lemma pb_okl_zeros k : okl (zrepeat (fzero o) k).
  Proof. apply pb_Forall_zrepeat. exact pb_ok0. Qed.
  Lemma pb_peq_zeros k : peq (zrepeat 0 k) [].
  Proof. unfold zrepeat. rewrite <- (app_nil_l (repeat 0 (Z.to_nat k))). apply peq_app_zeros. Qed.
  Lemma pb_coeff_D l i : coeff fk (D l) i = match nth_error l i with Some c => den c | None => 0 end.
  Proof.
    revert i. induction l as [|a l IH]; intros [|i]; cbn [map nth_error]; try reflexivity. apply IH.
  Qed.

  (* ---------------------------------------------------------------- normalize = pnorm, degree = pdeg *)
  Lemma pb_drop_zeros_app r a :
    drop_zeros o (r ++ [a]) =
    match drop_zeros o r with [] => if fis_zero o a then [] else [a] | r' => r' ++ [a] end.
  Proof.
    induction r as [|x r IH]; cbn [drop_zeros app]; [reflexivity|].
    destruct (fis_zero o x); [exact IH|reflexivity].
  Qed.
  Lemma pb_normalize_cons a l :
    poly_normalize o (a :: l) =
    match poly_normalize o l with [] => if fis_zero o a then [] else [a] | r => a :: r end.
  Proof.
    unfold poly_normalize. cbn [rev]. rewrite pb_drop_zeros_app.
    destruct (drop_zeros o (rev l)) as [|y r'] eqn:E.
    - cbn [rev]. destruct (fis_zero o a); reflexivity.
    - rewrite rev_app_distr. cbn [rev app]. destruct (rev r' ++ [y]) eqn:E2; [|reflexivity].
      destruct (rev r'); discriminate.
  Qed.
  Lemma pb_normalize_pnorm l : okl l -> D (poly_normalize o l) = pnorm fk (D l).
  Proof.
    induction l as [|a l IH]; intros Hl; [reflexivity|]. inversion Hl as [|? ? Ha Hl']; subst.
    rewrite pb_normalize_cons. cbn [map pnorm]. rewrite <- (IH Hl').
    destruct (poly_normalize o l) as [|b r]; cbn [map].
    - destruct (keq_dec fk (den a) 0) as [E|E].
      + apply (pb_is0_iff a Ha) in E. rewrite E. reflexivity.
      + apply (pb_is0_false_iff a Ha) in E. rewrite E. reflexivity.
    - reflexivity.
  Qed.
  Lemma pb_normalize_ok l : okl l -> okl (poly_normalize o l).
  Proof.
    induction l as [|a l IH]; intros Hl; [constructor|]. inversion Hl as [|? ? Ha Hl']; subst.
    rewrite pb_normalize_cons. pose proof (IH Hl') as Hn. destruct (poly_normalize o l) as [|b r].
    - destruct (fis_zero o a); constructor; [exact Ha|constructor].
    - constructor; assumption.
  Qed.
  Lemma pb_normalize_length_le l : (length (poly_normalize o l) <= length l)%nat.
  Proof.
    induction l as [|a l IH]; [cbn; lia|]. rewrite pb_normalize_cons. destruct (poly_normalize o l).
    - destruct (fis_zero o a); cbn; lia.
    - cbn [length] in *. lia.
  Qed.
  Lemma pb_degree_pdeg l : okl l -> poly_degree o l = pdeg fk (D l).
  Proof.
    intros Hl. unfold poly_degree, pdeg, zlen. rewrite <- (pb_normalize_pnorm l Hl), map_length. reflexivity.
  Qed.
  Lemma pb_normalize_peq l : okl l -> peq (D (poly_normalize o l)) (D l).
  Proof. intros Hl. rewrite (pb_normalize_pnorm l Hl). apply pnorm_peq. Qed.
  Lemma pb_degree_ge l : -1 <= poly_degree o l. Proof. unfold poly_degree, zlen. lia. Qed.
  Lemma pb_degree_lt_len l : poly_degree o l < zlen l.
  Proof. unfold poly_degree, zlen. pose proof (pb_normalize_length_le l). lia. Qed.
  Lemma pb_degree_neg_pzero l : okl l -> (poly_degree o l < 0 <-> pzero fk (D l)).
  Proof.
    intros Hl. rewrite (pb_degree_pdeg l Hl), <- pdeg_neg_iff. pose proof (pdeg_ge fk (D l)). lia.
  Qed.
  (* Zero::is_zero decides pzero *)
  Lemma pb_all_eq_nil a : all_eq o a [] = true.
  Proof. destruct a; reflexivity. Qed.
  Lemma pb_is_zero_iff l : okl l -> (poly_is_zero o l = true <-> pzero fk (D l)).
  Proof.
    intros Hl. unfold poly_is_zero, poly_eqb, poly_zero. rewrite pb_all_eq_nil.
    change (poly_degree o []) with (-1). rewrite <- (pb_degree_neg_pzero l Hl). pose proof (pb_degree_ge l).
    destruct (poly_degree o l =? -1) eqn:E; [apply Z.eqb_eq in E|apply Z.eqb_neq in E]; split; intros X; try reflexivity; try lia; discriminate.
  Qed.

  (* ---------------------------------------------------------------- evaluation = Horner *)
  Lemma pb_fold_horner r x acc : okl r -> ok x -> ok acc ->
    ok (fold_left (fun acc c => fadd o (fmul o acc x) c) r acc) /\
    den (fold_left (fun acc c => fadd o (fmul o acc x) c) r acc) = fold_left (fun acc c => acc * den x + c) (D r) (den acc).
  Proof.
    intros Hr Hx. revert acc. induction r as [|c r IH]; intros acc Ha; [split; [exact Ha|reflexivity]|].
    inversion Hr as [|? ? Hc Hr']; subst. cbn [fold_left map].
    rewrite <- (pb_den_mul acc x Ha Hx), <- (pb_den_add _ c (pb_ok_mul _ _ Ha Hx) Hc).
    apply (IH Hr'). apply pb_ok_add; [apply pb_ok_mul|]; assumption.
  Qed.
  Lemma pb_evaluate_spec l x : okl l -> ok x ->
    ok (poly_evaluate o l x) /\ den (poly_evaluate o l x) = peval fk (D l) (den x).
  Proof.
    intros Hl Hx. unfold poly_evaluate, poly_evaluate_gen. rewrite <- (peval_fold_rev fk (D l) (den x)).
    rewrite <- map_rev, <- pb_den0. apply pb_fold_horner; [apply Forall_rev; exact Hl|exact Hx|exact pb_ok0].
  Qed.

  (* ---------------------------------------------------------------- add / sub / scalar_mul / scale / map2 *)
  Lemma pb_add_spec a b : okl a -> okl b -> okl (poly_add o a b) /\ D (poly_add o a b) = padd fk (D a) (D b).
  Proof.
    revert b. induction a as [|x a IH]; intros b Ha Hb; [split; [exact Hb|reflexivity]|].
    destruct b as [|y b]; [split; [exact Ha|reflexivity]|].
    inversion Ha as [|? ? Hx Ha']; inversion Hb as [|? ? Hy Hb']; subst. destruct (IH b Ha' Hb') as [O1 E1].
    cbn [poly_add map padd]. split; [constructor; [apply pb_ok_add; assumption|exact O1]|].
    rewrite E1, pb_den_add by assumption. reflexivity.
  Qed.
  Lemma pb_sub_spec a b : okl a -> okl b -> okl (poly_sub o a b) /\ peq (D (poly_sub o a b)) (psub fk (D a) (D b)).
  Proof.
    revert b. induction a as [|x a IH]; intros b Ha Hb.
    - cbn [poly_sub]. split.
      + apply Forall_forall. intros z Hz. apply in_map_iff in Hz. destruct Hz as [r [<- Hr]].
        apply pb_ok_sub; [exact pb_ok0|]. rewrite Forall_forall in Hb. apply Hb. exact Hr.
      + apply peq_intro; intros i. rewrite coeff_psub. change (map den []) with (@nil K). rewrite coeff_nil.
        rewrite !pb_coeff_D. rewrite nth_error_map. destruct (nth_error b i) as [c|] eqn:E; cbn [option_map].
        * rewrite pb_den_sub, pb_den0; [ring|exact pb_ok0|]. eapply pb_Forall_nth_error; eassumption.
        * ring.
    - destruct b as [|y b].
      + cbn [poly_sub]. split; [exact Ha|]. apply peq_intro; intros i. rewrite coeff_psub. cbn [map]. rewrite coeff_nil. ring.
      + inversion Ha as [|? ? Hx Ha']; inversion Hb as [|? ? Hy Hb']; subst. destruct (IH b Ha' Hb') as [O1 E1].
        cbn [poly_sub map]. split; [constructor; [apply pb_ok_sub; assumption|exact O1]|].
        apply peq_intro; intros i. rewrite coeff_psub. destruct i as [|i].
        * rewrite !coeff_cons_0. apply pb_den_sub; assumption.
        * rewrite !coeff_cons_S, (peq_elim fk _ _ E1 i), coeff_psub. reflexivity.
  Qed.
  Lemma pb_scalar_mul_spec l s : okl l -> ok s ->
    okl (poly_scalar_mul o l s) /\ peq (D (poly_scalar_mul o l s)) (pscale fk (den s) (D l)).
  Proof.
    intros Hl Hs. unfold poly_scalar_mul, poly_scalar_mul_gen. split.
    - apply Forall_forall. intros z Hz. apply in_map_iff in Hz. destruct Hz as [c [<- Hc]].
      apply pb_ok_mul; [|exact Hs]. rewrite Forall_forall in Hl. apply Hl. exact Hc.
    - apply peq_intro; intros i. rewrite coeff_pscale, !pb_coeff_D, nth_error_map.
      destruct (nth_error l i) as [c|] eqn:E; cbn [option_map]; [|ring].
      rewrite pb_den_mul; [ring| |exact Hs]. eapply pb_Forall_nth_error; eassumption.
  Qed.
  Lemma pb_scale_go_spec l alpha pw : okl l -> ok alpha -> ok pw ->
    okl (scale_go (fmul o) (fmul o) alpha pw l) /\
    D (scale_go (fmul o) (fmul o) alpha pw l) = pcompscale_go fk (D l) (den alpha) (den pw).
  Proof.
    intros Hl Ha. revert pw. induction l as [|c l IH]; intros pw Hp; [split; [constructor|reflexivity]|].
    inversion Hl as [|? ? Hc Hl']; subst. cbn [scale_go map pcompscale_go].
    destruct (IH Hl' (fmul o pw alpha) (pb_ok_mul _ _ Hp Ha)) as [O1 E1].
    split; [constructor; [apply pb_ok_mul; assumption|exact O1]|].
    rewrite E1, !pb_den_mul by assumption. reflexivity.
  Qed.
  Lemma pb_scale_spec l alpha : okl l -> ok alpha ->
    okl (poly_scale o l alpha) /\ D (poly_scale o l alpha) = pcompscale fk (D l) (den alpha).
  Proof.
    intros Hl Ha. unfold poly_scale, poly_scale_gen, pcompscale. rewrite <- pb_den1.
    apply pb_scale_go_spec; [exact Hl|exact Ha|exact pb_ok1].
  Qed.
  Lemma pb_scale_length l alpha : length (poly_scale o l alpha) = length l.
  Proof.
    unfold poly_scale, poly_scale_gen. generalize (fone o). induction l as [|c l IH]; intros pw; [reflexivity|].
    cbn [scale_go length]. rewrite IH. reflexivity.
  Qed.
  (* resize that only cuts / appends stored zeros *)
  Lemma pb_resize_peq l n : okl l -> poly_degree o l < n ->
    okl (resize l n (fzero o)) /\ peq (D (resize l n (fzero o))) (D l) /\ zlen (resize l n (fzero o)) = Z.max 0 n.
  Proof.
    intros Hl Hd. unfold resize. split; [|split].
    - apply Forall_app. split; [apply pb_Forall_take; exact Hl|apply pb_okl_zeros].
    - rewrite map_app, pb_D_zeros. unfold zrepeat. rewrite peq_app_zeros.
      apply peq_intro; intros i. rewrite pb_map_take. unfold take. rewrite coeff_firstn.
      destruct (i <? Z.to_nat n)%nat eqn:E; [reflexivity|]. apply Nat.ltb_ge in E. symmetry.
      apply coeff_above_pdeg. rewrite <- (pb_degree_pdeg l Hl). pose proof (pb_degree_ge l). lia.
    - rewrite pb_zlen_app, pb_zlen_take, pb_zlen_zrepeat. pose proof (pb_zlen_nonneg l). lia.
  Qed.
End Base.
