(* proofs/PolyNewtonGen.v - formal_power_series_inverse_newton: the GENERAL theorem.

   PolyDivProofs.v (constant case, rounds on coefficient lists) and PolyDeepenNewton.v (rounds in the NTT domain) prove
   "no panic and f * g = 1 mod X^precision" under SUFFICIENT size conditions.  This file closes the gap to the code's actual
   domain of definition:

     newton_total     the model returns Some g  <->  the constant coefficient exists and is invertible, and
                                                     (degree = 0  \/  num_rounds <= switch_point  \/  full_domain_length <= 2^lmax)
     newton_sound     whenever the model returns Some g (for ANY input of well-formed coefficients and ANY precision >= 0):
                      g is well-formed and f * g = 1 mod X^precision

   i.e. the function is correct on every input it accepts, and the set of inputs it accepts is characterised exactly.  The only
   new hypothesis is that `ntt` rejects what it cannot transform (slices of 2 * 2^lmax elements or more: `u32::try_from(len)`
   for lmax = 31) and that the coefficient rounds stay small (FORMAL_POWER_SERIES_INVERSE_CUTOFF <= 2^lmax).
   Instances: Polynomial<BFieldElement>, Polynomial<XFieldElement> (lmax = 31), nothing assumed. *)
From Coq Require Import ZArith Lia List Bool.
From TF Require Import Word BFieldGen BField XField FieldOps FieldTheory PolyGen PolyCore PolySpec Ntt PolyDiv
  PolyCoreProofs Dft NttDft PolyDivProofs PolyInterpAlg PolyInterpBase PolyDeepenNewton.
Import ListNotations.
Open Scope Z_scope.
Ltac Zify.zify_post_hook ::= Z.div_mod_to_equations.

(* the three numbers the code derives from (degree, precision) *)
Definition newton_num_rounds (n : Z) : Z := Z.log2 (next_pow2 n).
Definition newton_switch_point (sd : Z) : Z :=
  if FORMAL_POWER_SERIES_INVERSE_CUTOFF <? sd then 0 else Z.log2 (FORMAL_POWER_SERIES_INVERSE_CUTOFF / sd).
Definition newton_full_domain (sd n : Z) : Z := next_pow2 (2 ^ (newton_num_rounds n + 1) * sd).
(* the size condition under which the code does not run into a rejected transform *)
Definition newton_fits (lmax : nat) (sd n : Z) : Prop :=
  sd = 0 \/ newton_num_rounds n <= newton_switch_point sd \/ newton_full_domain sd n <= 2 ^ Z.of_nat lmax.

Section NewtonGen.
  Context {F K : Type} (o : fops F) (fk : fieldK K) (ok : F -> Prop) (den : F -> K).
  Hypothesis H : field_ok o fk ok den.
  Variable ntt : list F -> option (list F).
  Variable intt : list F -> option (list F).
  Variable lmax : nat.
  Variable wr : nat -> K.
  Hypothesis ntt_is_dft : forall l x, (l <= lmax)%nat -> length x = (2 ^ l)%nat -> Forall ok x ->
    exists y, ntt x = Some y /\ Forall ok y /\ length y = length x /\ map den y = dft fk (wr l) (map den x).
  Hypothesis intt_is_idft : forall l x, (l <= lmax)%nat -> length x = (2 ^ l)%nat -> Forall ok x ->
    exists y, intt x = Some y /\ Forall ok y /\ length y = length x /\ map den y = idft fk (wr l) (map den x).
  Hypothesis wr_half_root : forall l, (l <= lmax)%nat -> half_root fk (wr l) l.
  Hypothesis wr_nonzero : forall l, (l <= lmax)%nat -> wr l <> k0 fk.
  Hypothesis two_nz : two_neq_0 fk.
  Hypothesis wr_sq : forall l, (S l <= lmax)%nat -> kmul fk (wr (S l)) (wr (S l)) = wr l.
  (* new: ntt rejects slices it has no root for / whose length does not fit u32 *)
  Hypothesis ntt_rejects : forall x, 2 * 2 ^ Z.of_nat lmax <= zlen x -> ntt x = None.
  Hypothesis cutoff_small : FORMAL_POWER_SERIES_INVERSE_CUTOFF <= 2 ^ Z.of_nat lmax.
  Local Notation D := (map den).
  Local Notation okl := (Forall ok).

  (* degree 0 means that the constant coefficient is there and non-zero; degree >= 0 that the list is not empty *)
  Lemma degree0_head l : okl l -> poly_degree o l = 0 -> exists c0 cs, l = c0 :: cs /\ den c0 <> k0 fk.
  Proof.
    intros Hl Ed. pose proof (degree_pdeg o fk ok den H l Hl) as Dd. rewrite Ed in Dd.
    destruct (coeff_at_pdeg fk (D l) ltac:(lia)) as [C1 C2]. rewrite <- Dd in C1. change (Z.to_nat 0) with O in C1.
    destruct l as [|c0 cs].
    - exfalso. apply C2. rewrite <- C1. cbn [map]. apply coeff_nil.
    - exists c0, cs. split; [reflexivity|]. cbn [map] in C1. rewrite coeff_cons_0 in C1. rewrite C1. exact C2.
  Qed.
  Lemma head_nonzero_degree c0 cs : okl (c0 :: cs) -> den c0 <> k0 fk -> 0 <= poly_degree o (c0 :: cs).
  Proof.
    intros Hl Nz. destruct (Z_lt_ge_dec (poly_degree o (c0 :: cs)) 0) as [X|X]; [exfalso|lia].
    apply (degree_neg_pzero o fk ok den H _ Hl) in X. apply Nz. exact (X O).
  Qed.

  (* ---------------------------------------------------------------- the panics *)
  Lemma newton_none_head l n : okl l -> ~ (exists c0 cs, l = c0 :: cs /\ den c0 <> k0 fk) ->
    pdiv_fpsi_newton o ntt intt l n = None.
  Proof.
    intros Hl No. unfold pdiv_fpsi_newton.
    destruct (poly_degree o l =? 0) eqn:E0.
    { apply Z.eqb_eq in E0. exfalso. apply No. exact (degree0_head l Hl E0). }
    destruct (poly_degree o l <? 0) eqn:E1; [reflexivity|].
    destruct l as [|c0 cs].
    - reflexivity.
    - change (idx (c0 :: cs) 0) with (Some c0).
      destruct (keq_dec fk (den c0) (k0 fk)) as [Z0|Nz].
      + inversion Hl; subst. rewrite (fo_inv0 _ _ _ _ H c0 ltac:(assumption) Z0). reflexivity.
      + exfalso. apply No. exists c0, cs. split; [reflexivity|exact Nz].
  Qed.
  Lemma newton_none_size l n : 1 <= poly_degree o l -> 0 <= n ->
    newton_switch_point (poly_degree o l) < newton_num_rounds n ->
    2 ^ Z.of_nat lmax < newton_full_domain (poly_degree o l) n ->
    pdiv_fpsi_newton o ntt intt l n = None.
  Proof.
    intros Hsd Hn Hrs Hfull. unfold pdiv_fpsi_newton.
    replace (poly_degree o l =? 0) with false by (symmetry; apply Z.eqb_neq; lia).
    replace (poly_degree o l <? 0) with false by (symmetry; apply Z.ltb_ge; lia).
    destruct (idx l 0) as [cc|]; [|reflexivity]. destruct (finv o cc) as [cci|]; [|reflexivity].
    fold (newton_switch_point (poly_degree o l)). fold (newton_num_rounds n).
    destruct (pdiv_newton_std_loop o ntt intt _ l (ffrom_u64 o 2) [cci]) as [f|]; [|reflexivity].
    replace (newton_num_rounds n <=? newton_switch_point (poly_degree o l)) with false by (symmetry; apply Z.leb_gt; lia).
    fold (newton_full_domain (poly_degree o l) n).
    rewrite ntt_rejects; [reflexivity|].
    pose proof (Z.log2_nonneg (next_pow2 n)) as Hnr. fold (newton_num_rounds n) in Hnr.
    assert (Hpos : 1 <= 2 ^ (newton_num_rounds n + 1) * poly_degree o l).
    { pose proof (Z.pow_pos_nonneg 2 (newton_num_rounds n + 1) ltac:(lia) ltac:(lia)). nia. }
    destruct (next_pow2_spec _ Hpos) as [L [N1 [N2 _]]]. fold (newton_full_domain (poly_degree o l) n) in N1, N2.
    rewrite zlen_resize by (rewrite N1; apply Z.lt_le_incl, Z.pow_pos_nonneg; lia).
    rewrite N1 in *. assert (HL : (lmax < L)%nat).
    { destruct (Nat.le_gt_cases L lmax) as [X|X]; [exfalso|exact X].
      assert (2 ^ Z.of_nat L <= 2 ^ Z.of_nat lmax) by (apply Z.pow_le_mono_r; lia). lia. }
    replace (2 * 2 ^ Z.of_nat lmax) with (2 ^ Z.of_nat (S lmax)) by (rewrite Nat2Z.inj_succ, Z.pow_succ_r by lia; reflexivity).
    apply Z.pow_le_mono_r; lia.
  Qed.

  (* ---------------------------------------------------------------- the successes *)
  Lemma std_rounds_small sd nr : 1 <= sd -> 0 <= nr -> nr <= newton_switch_point sd ->
    newton_len sd (Z.to_nat nr) <= 2 ^ Z.of_nat lmax.
  Proof.
    intros Hsd Hnr Hrs. rewrite newton_len_closed, Z2Nat.id by lia. unfold newton_switch_point in Hrs.
    destruct (FORMAL_POWER_SERIES_INVERSE_CUTOFF <? sd) eqn:E.
    - replace nr with 0 by lia. change (2 ^ 0) with 1.
      pose proof (Z.pow_pos_nonneg 2 (Z.of_nat lmax) ltac:(lia) ltac:(lia)). lia.
    - apply Z.ltb_ge in E. set (q := FORMAL_POWER_SERIES_INVERSE_CUTOFF / sd) in *.
      assert (Hq : 1 <= q) by (unfold q; apply Z.div_le_lower_bound; lia).
      pose proof (Z.log2_spec q ltac:(lia)) as [S1 _].
      assert (2 ^ nr <= 2 ^ Z.log2 q) by (apply Z.pow_le_mono_r; lia).
      assert (q * sd <= FORMAL_POWER_SERIES_INVERSE_CUTOFF) by (unfold q; rewrite Z.mul_comm; apply Z.mul_div_le; lia).
      pose proof (Z.pow_pos_nonneg 2 nr ltac:(lia) Hnr). nia.
  Qed.

  Theorem newton_accepts c0 cs n : okl (c0 :: cs) -> den c0 <> k0 fk -> 0 <= n ->
    newton_fits lmax (poly_degree o (c0 :: cs)) n ->
    exists g, pdiv_fpsi_newton o ntt intt (c0 :: cs) n = Some g /\ okl g /\
              pmodx fk (Z.to_nat n) (pmul fk (D (c0 :: cs)) (D g)) (pone fk).
  Proof.
    intros Hl Nz Hn Hfit. set (l := c0 :: cs) in *.
    pose proof (head_nonzero_degree c0 cs Hl Nz) as Dl. fold l in Dl.
    destruct (Z.eq_dec (poly_degree o l) 0) as [E0|E0].
    - destruct (fpsi_newton_constant o fk ok den H ntt intt l n Hl E0) as [g [E [Og Pg]]]. exists g. split; [exact E|].
      split; [exact Og|]. intros i _. apply (peq_elim fk _ _ Pg).
    - assert (Hsd : 1 <= poly_degree o l) by lia.
      destruct (Z_le_gt_dec (newton_num_rounds n) (newton_switch_point (poly_degree o l))) as [Lrs|Grs].
      + apply (fpsi_newton_std_dft o fk ok den H ntt intt lmax wr ntt_is_dft intt_is_idft wr_half_root wr_nonzero two_nz
                 c0 cs n Hl Nz Hn Hsd Lrs).
        apply std_rounds_small; [exact Hsd|apply Z.log2_nonneg|exact Lrs].
      + destruct Hfit as [X|[X|X]]; [lia|lia|].
        exact (fpsi_newton_ntt_spec o fk ok den H ntt intt lmax wr ntt_is_dft intt_is_idft wr_half_root wr_nonzero two_nz wr_sq
                 c0 cs n Hl Nz Hn Hsd (Z.gt_lt _ _ Grs) X).
  Qed.

  (* ---------------------------------------------------------------- exact domain of definition, and correctness on it *)
  Theorem newton_total l n : okl l -> 0 <= n ->
    (pdiv_fpsi_newton o ntt intt l n <> None <->
     (exists c0 cs, l = c0 :: cs /\ den c0 <> k0 fk) /\ newton_fits lmax (poly_degree o l) n).
  Proof.
    intros Hl Hn. split.
    - intros NN.
      assert (Hh : exists c0 cs, l = c0 :: cs /\ den c0 <> k0 fk).
      { destruct l as [|c0 cs]; [exfalso; apply NN; apply newton_none_head; [exact Hl|intros [? [? [X _]]]; discriminate]|].
        destruct (keq_dec fk (den c0) (k0 fk)) as [Z0|Nz]; [|exists c0, cs; split; [reflexivity|exact Nz]].
        exfalso. apply NN. apply newton_none_head; [exact Hl|]. intros [c [cs' [X Y]]]. inversion X; subst. exact (Y Z0). }
      split; [exact Hh|]. destruct Hh as [c0 [cs [-> Nz]]].
      pose proof (head_nonzero_degree c0 cs Hl Nz) as Dl. unfold newton_fits.
      destruct (Z.eq_dec (poly_degree o (c0 :: cs)) 0) as [E0|E0]; [left; exact E0|right].
      destruct (Z_le_gt_dec (newton_num_rounds n) (newton_switch_point (poly_degree o (c0 :: cs)))) as [Lrs|Grs]; [left; exact Lrs|right].
      destruct (Z_le_gt_dec (newton_full_domain (poly_degree o (c0 :: cs)) n) (2 ^ Z.of_nat lmax)) as [Lf|Gf]; [exact Lf|].
      exfalso. apply NN. apply newton_none_size; lia.
    - intros [[c0 [cs [-> Nz]]] Hfit]. destruct (newton_accepts c0 cs n Hl Nz Hn Hfit) as [g [E _]]. rewrite E. discriminate.
  Qed.

  Theorem newton_sound l n g : okl l -> 0 <= n -> pdiv_fpsi_newton o ntt intt l n = Some g ->
    okl g /\ pmodx fk (Z.to_nat n) (pmul fk (D l) (D g)) (pone fk).
  Proof.
    intros Hl Hn E.
    destruct (proj1 (newton_total l n Hl Hn) ltac:(rewrite E; discriminate)) as [[c0 [cs [-> Nz]]] Hfit].
    destruct (newton_accepts c0 cs n Hl Nz Hn Hfit) as [g' [E' [Og Pg]]]. rewrite E in E'. inversion E'; subst g'.
    split; [exact Og|exact Pg].
  Qed.

  (* the two panics of the documentation / of the implementation, separately *)
  Theorem newton_panics_iff l n : okl l -> 0 <= n ->
    (pdiv_fpsi_newton o ntt intt l n = None <->
     ~ (exists c0 cs, l = c0 :: cs /\ den c0 <> k0 fk) \/
     (1 <= poly_degree o l /\ newton_switch_point (poly_degree o l) < newton_num_rounds n /\
      2 ^ Z.of_nat lmax < newton_full_domain (poly_degree o l) n)).
  Proof.
    intros Hl Hn. split.
    - intros EN.
      destruct l as [|c0 cs]; [left; intros [? [? [X _]]]; discriminate|].
      destruct (keq_dec fk (den c0) (k0 fk)) as [Z0|Nz]; [left; intros [c [cs' [X Y]]]; inversion X; subst; exact (Y Z0)|].
      right. pose proof (head_nonzero_degree c0 cs Hl Nz) as Dl.
      destruct (Z.eq_dec (poly_degree o (c0 :: cs)) 0) as [E0|E0].
      { exfalso. destruct (newton_accepts c0 cs n Hl Nz Hn (or_introl E0)) as [g [E _]]. congruence. }
      destruct (Z_le_gt_dec (newton_num_rounds n) (newton_switch_point (poly_degree o (c0 :: cs)))) as [Lrs|Grs].
      { exfalso. destruct (newton_accepts c0 cs n Hl Nz Hn (or_intror (or_introl Lrs))) as [g [E _]]. congruence. }
      destruct (Z_le_gt_dec (newton_full_domain (poly_degree o (c0 :: cs)) n) (2 ^ Z.of_nat lmax)) as [Lf|Gf].
      { exfalso. destruct (newton_accepts c0 cs n Hl Nz Hn (or_intror (or_intror Lf))) as [g [E _]]. congruence. }
      split; [lia|]. split; lia.
    - intros [No|[A [B C]]]; [exact (newton_none_head l n Hl No)|exact (newton_none_size l n A Hn B C)].
  Qed.
End NewtonGen.

(* ------------------------------------------------------------------ Polynomial<BFieldElement> *)
From TF Require Import BFieldProofs BFieldOk NttRoots NttProofs PolyValueSem.
Lemma ntt_b_rejects (x : list Z) : 2 * 2 ^ Z.of_nat 31 <= zlen x -> ntt_b x = None.
Proof.
  intros Hx. unfold ntt_b, ntt, prologue. change (Z.of_nat (length x)) with (zlen x).
  replace (zlen x >? 4294967295) with true; [reflexivity|]. symmetry. apply Z.gtb_lt.
  change (2 * 2 ^ Z.of_nat 31) with 4294967296 in Hx. lia.
Qed.
Lemma cutoff_le_2_31 : FORMAL_POWER_SERIES_INVERSE_CUTOFF <= 2 ^ Z.of_nat 31.
Proof. vm_compute. discriminate. Qed.
Local Notation bfe_wr_sq31 := (fun l Hl => bfe_wr_sq l (Nat.le_trans _ _ _ Hl (proj1 (Nat.leb_le 31 32) eq_refl))).

Theorem bfe_newton_total l n : Forall canon l -> 0 <= n ->
  (pdiv_fpsi_newton bfe_ops ntt_b intt_b l n <> None <->
   (exists c0 cs, l = c0 :: cs /\ bden c0 <> k0 fp_field) /\ newton_fits 31 (poly_degree bfe_ops l) n).
Proof.
  exact (newton_total bfe_ops fp_field canon bden bfe_field_ok ntt_b intt_b 31 wr_b ntt_b_hyp intt_b_hyp wr_b_half wr_b_nonzero
           fp_two_neq_0 bfe_wr_sq31 ntt_b_rejects cutoff_le_2_31 l n).
Qed.
Theorem bfe_newton_sound l n g : Forall canon l -> 0 <= n -> pdiv_fpsi_newton bfe_ops ntt_b intt_b l n = Some g ->
  Forall canon g /\ pmodx fp_field (Z.to_nat n) (pmul fp_field (map bden l) (map bden g)) (pone fp_field).
Proof.
  exact (newton_sound bfe_ops fp_field canon bden bfe_field_ok ntt_b intt_b 31 wr_b ntt_b_hyp intt_b_hyp wr_b_half wr_b_nonzero
           fp_two_neq_0 bfe_wr_sq31 ntt_b_rejects cutoff_le_2_31 l n g).
Qed.
Theorem bfe_newton_accepts c0 cs n : Forall canon (c0 :: cs) -> bden c0 <> k0 fp_field -> 0 <= n ->
  newton_fits 31 (poly_degree bfe_ops (c0 :: cs)) n ->
  exists g, pdiv_fpsi_newton bfe_ops ntt_b intt_b (c0 :: cs) n = Some g /\ Forall canon g /\
            pmodx fp_field (Z.to_nat n) (pmul fp_field (map bden (c0 :: cs)) (map bden g)) (pone fp_field).
Proof.
  exact (newton_accepts bfe_ops fp_field canon bden bfe_field_ok ntt_b intt_b 31 wr_b ntt_b_hyp intt_b_hyp wr_b_half wr_b_nonzero
           fp_two_neq_0 bfe_wr_sq31 ntt_b_rejects cutoff_le_2_31 c0 cs n).
Qed.
Theorem bfe_newton_panics_iff l n : Forall canon l -> 0 <= n ->
  (pdiv_fpsi_newton bfe_ops ntt_b intt_b l n = None <->
   ~ (exists c0 cs, l = c0 :: cs /\ bden c0 <> k0 fp_field) \/
   (1 <= poly_degree bfe_ops l /\ newton_switch_point (poly_degree bfe_ops l) < newton_num_rounds n /\
    2 ^ Z.of_nat 31 < newton_full_domain (poly_degree bfe_ops l) n)).
Proof.
  exact (newton_panics_iff bfe_ops fp_field canon bden bfe_field_ok ntt_b intt_b 31 wr_b ntt_b_hyp intt_b_hyp wr_b_half wr_b_nonzero
           fp_two_neq_0 bfe_wr_sq31 ntt_b_rejects cutoff_le_2_31 l n).
Qed.

(* ------------------------------------------------------------------ Polynomial<XFieldElement> *)
From TF Require Import XFieldProofs XFieldOk XFieldNtt XFieldPoly PolyDeepenXfe.
Lemma ntt_x_rejects (x : list xfe) : 2 * 2 ^ Z.of_nat 31 <= zlen x -> ntt_x x = None.
Proof.
  intros Hx. unfold ntt_x, ntt, prologue. change (Z.of_nat (length x)) with (zlen x).
  replace (zlen x >? 4294967295) with true; [reflexivity|]. symmetry. apply Z.gtb_lt.
  change (2 * 2 ^ Z.of_nat 31) with 4294967296 in Hx. lia.
Qed.
Theorem xfe_newton_total l n : Forall canon3 l -> 0 <= n ->
  (pdiv_fpsi_newton xfe_ops ntt_x intt_x l n <> None <->
   (exists c0 cs, l = c0 :: cs /\ denX c0 <> k0 k3_field) /\ newton_fits 31 (poly_degree xfe_ops l) n).
Proof.
  destruct xfe_roots_ok as [R1 [R2 R3]].
  exact (newton_total xfe_ops k3_field canon3 denX xfe_field_ok ntt_x intt_x 31 wr_x xfe_ntt_ok xfe_intt_ok R1 R2 R3 xfe_wr_sq
           ntt_x_rejects cutoff_le_2_31 l n).
Qed.
Theorem xfe_newton_sound l n g : Forall canon3 l -> 0 <= n -> pdiv_fpsi_newton xfe_ops ntt_x intt_x l n = Some g ->
  Forall canon3 g /\ pmodx k3_field (Z.to_nat n) (pmul k3_field (map denX l) (map denX g)) (pone k3_field).
Proof.
  destruct xfe_roots_ok as [R1 [R2 R3]].
  exact (newton_sound xfe_ops k3_field canon3 denX xfe_field_ok ntt_x intt_x 31 wr_x xfe_ntt_ok xfe_intt_ok R1 R2 R3 xfe_wr_sq
           ntt_x_rejects cutoff_le_2_31 l n g).
Qed.
Theorem xfe_newton_panics_iff l n : Forall canon3 l -> 0 <= n ->
  (pdiv_fpsi_newton xfe_ops ntt_x intt_x l n = None <->
   ~ (exists c0 cs, l = c0 :: cs /\ denX c0 <> k0 k3_field) \/
   (1 <= poly_degree xfe_ops l /\ newton_switch_point (poly_degree xfe_ops l) < newton_num_rounds n /\
    2 ^ Z.of_nat 31 < newton_full_domain (poly_degree xfe_ops l) n)).
Proof.
  destruct xfe_roots_ok as [R1 [R2 R3]].
  exact (newton_panics_iff xfe_ops k3_field canon3 denX xfe_field_ok ntt_x intt_x 31 wr_x xfe_ntt_ok xfe_intt_ok R1 R2 R3 xfe_wr_sq
           ntt_x_rejects cutoff_le_2_31 l n).
Qed.

(* ------------------------------------------------------------------ an instance whose last round runs in the NTT domain
   f = 1 + X + X^128, precision 4: switch_point = ilog2(256 / 128) = 1 < num_rounds = 2; one round on coefficient lists, one
   pointwise round (domain change 256 -> 512) against the transform of f on the full domain of 1024 points.  Here: the theorems
   apply to it (nothing is executed).  The model is EXECUTED on it in proofs/PolyGenExamples.v (30 s in the VM, a file that the
   props files do not import: coqchk has no VM and needs minutes for it): 1024 coefficients starting 1, -1, 1, -1. *)
Definition newton_ex_poly : list Z := map bfe_new (1 :: 1 :: repeat 0 126 ++ [1]).
Lemma newton_ex_canon : Forall canon newton_ex_poly.
Proof.
  assert (C1 : canon (bfe_new 1)) by (split; vm_compute; [discriminate|reflexivity]).
  assert (C0 : canon (bfe_new 0)) by (split; vm_compute; [discriminate|reflexivity]).
  unfold newton_ex_poly. cbn [map]. constructor; [exact C1|]. constructor; [exact C1|]. rewrite map_app. apply Forall_app. split.
  - apply Forall_forall. intros y Hy. apply in_map_iff in Hy. destruct Hy as [x [<- Hx]]. apply repeat_spec in Hx. subst x. exact C0.
  - constructor; [exact C1|constructor].
Qed.
Lemma newton_ex_ntt_phase :
  poly_degree bfe_ops newton_ex_poly = 128 /\ pdiv_fpsi_newton_uses_ntt bfe_ops newton_ex_poly 4 = true /\
  newton_full_domain 128 4 = 1024 /\
  exists g, pdiv_fpsi_newton bfe_ops ntt_b intt_b newton_ex_poly 4 = Some g /\ Forall canon g /\
            pmodx fp_field 4 (pmul fp_field (map bden newton_ex_poly) (map bden g)) (pone fp_field).
Proof.
  assert (Ed : poly_degree bfe_ops newton_ex_poly = 128) by (vm_compute; reflexivity).
  split; [exact Ed|]. split; [vm_compute; reflexivity|]. split; [vm_compute; reflexivity|].
  assert (E1 : bfe_new 1 = bfe_one) by (vm_compute; reflexivity).
  assert (D1 : bden (bfe_new 1) = k1 fp_field) by (rewrite E1; exact (proj2 (fo_one _ _ _ _ bfe_field_ok))).
  pose proof newton_ex_canon as Hc.
  change newton_ex_poly with (bfe_new 1 :: map bfe_new (1 :: repeat 0 126 ++ [1])) in Hc |- *.
  apply (bfe_newton_accepts (bfe_new 1) (map bfe_new (1 :: repeat 0 126 ++ [1])) 4 Hc).
  - rewrite D1. exact (k1_neq_0 fp_field).
  - vm_compute. discriminate.
  - change (bfe_new 1 :: map bfe_new (1 :: repeat 0 126 ++ [1])) with newton_ex_poly. rewrite Ed.
    right. right. vm_compute. discriminate.
Qed.
