(* proofs/PolyValueSem.v - C17: every operation of model/PolyCore.v is a function of the DENOTED polynomial.
   `same a a'` : two well-formed raw lists that denote the same polynomial (e.g. `l ++ repeat 0 k` and `l`:
   same_app_zeros).  Each theorem says that replacing an argument by a `same` one does not change the result
   (as a polynomial / value / boolean / encoding) and that neither call panics.
   Also here: the base-field instances of the C07 theorems with the C06 hypotheses DISCHARGED
   (proofs/NttProofs.v), and the historical refutations of the four defects of the originally pinned tree. *)
From Coq Require Import ZArith Lia List Bool Ring Field Setoid Morphisms.
From TF Require Import Word BFieldGen BField XField FieldOps FieldTheory PolyGen PolyCore PolySpec PolyCoreProofs.
From TF Require Import Dft NttDft BFieldProofs BFieldOk Ntt NttProofs PolyC07Wrap.
Import ListNotations.
Open Scope Z_scope.

Section ValueSemantics.
  Context {F K : Type} (o : fops F) (fk : fieldK K) (ok : F -> Prop) (den : F -> K).
  Hypothesis H : field_ok o fk ok den.
  Local Notation D := (map den).
  Local Notation okl := (Forall ok).
  Local Notation peq := (peq fk).

  Definition same (a a' : list F) : Prop := okl a /\ okl a' /\ peq (D a) (D a').
  Lemma same_refl a : okl a -> same a a.
  Proof. intros Ha. split; [exact Ha|]. split; [exact Ha|reflexivity]. Qed.
  Lemma same_app_zeros l k : okl l -> same (l ++ repeat (fzero o) k) l.
  Proof.
    intros Hl. split; [apply (okl_app_zeros o fk ok den H); exact Hl|]. split; [exact Hl|].
    apply (peq_D_app_zeros o fk ok den H).
  Qed.
  Lemma same_iff_eqb a a' : okl a -> okl a' -> (same a a' <-> poly_eqb o a a' = true).
  Proof.
    intros Ha Ha'. rewrite (eq_iff_denote o fk ok den H a a' Ha Ha'). split; [intros [_ [_ E]]; exact E|].
    intros E. split; [exact Ha|]. split; [exact Ha'|exact E].
  Qed.

  (* ---- accessors *)
  Theorem vs_degree a a' : same a a' -> poly_degree o a = poly_degree o a'.
  Proof. intros [Ha [Ha' E]]. rewrite !(degree_pdeg o fk ok den H) by assumption. apply pdeg_peq. exact E. Qed.
  Theorem vs_coefficients a a' : same a a' -> poly_coefficients o a = poly_coefficients o a'.
  Proof. intros [Ha [Ha' E]]. apply (coefficients_canonical o fk ok den H); assumption. Qed.
  Theorem vs_into_coefficients a a' : same a a' -> poly_into_coefficients o a = poly_into_coefficients o a'.
  Proof. exact (vs_coefficients a a'). Qed.
  Theorem vs_leading_coefficient a a' : same a a' ->
    poly_leading_coefficient o a = poly_leading_coefficient o a' /\ exists r, poly_leading_coefficient o a = Some r.
  Proof.
    intros S. pose proof S as [Ha [Ha' E]]. split; [|apply (leading_coefficient_total o fk ok den H); exact Ha].
    destruct (leading_coeff_nonzero o fk ok den H a Ha) as [A1 A2]. destruct (leading_coeff_nonzero o fk ok den H a' Ha') as [B1 B2].
    destruct (Z.eq_dec (pdeg fk (D a)) (-1)) as [Z|NZ].
    - pose proof (proj1 (pdeg_neg_iff fk (D a)) Z) as Za.
      assert (Za' : pzero fk (D a')) by (apply pdeg_neg_iff; rewrite <- (pdeg_peq fk _ _ E); exact Z).
      rewrite (A1 Za), (B1 Za'). reflexivity.
    - assert (Na : ~ pzero fk (D a)) by (intros X; apply pdeg_neg_iff in X; contradiction).
      assert (Na' : ~ pzero fk (D a')) by (intros X; apply pdeg_neg_iff in X; rewrite <- (pdeg_peq fk _ _ E) in X; contradiction).
      destruct (A2 Na) as [c [C1 [C2 [C3 _]]]]. destruct (B2 Na') as [c' [C1' [C2' [C3' _]]]].
      rewrite C1, C1'. do 2 f_equal. apply (fo_inj _ _ _ _ H c c' C2 C2'). rewrite C3, C3'. apply plead_peq. exact E.
  Qed.
  Theorem vs_eqb a a' b b' : same a a' -> same b b' -> poly_eqb o a b = poly_eqb o a' b'.
  Proof.
    intros [Ha [Ha' Ea]] [Hb [Hb' Eb]].
    pose proof (eq_iff_denote o fk ok den H a b Ha Hb) as X. pose proof (eq_iff_denote o fk ok den H a' b' Ha' Hb') as Y.
    destruct (poly_eqb o a b) eqn:E1; destruct (poly_eqb o a' b') eqn:E2; try reflexivity; exfalso.
    - assert (T : true = true) by reflexivity. apply X in T. assert (Q : peq (D a') (D b')) by (rewrite <- Ea, <- Eb; exact T).
      apply Y in Q. discriminate.
    - assert (T : true = true) by reflexivity. apply Y in T. assert (Q : peq (D a) (D b)) by (rewrite Ea, Eb; exact T).
      apply X in Q. discriminate.
  Qed.
  Theorem vs_is_zero a a' : same a a' -> poly_is_zero o a = poly_is_zero o a'.
  Proof. intros S. unfold poly_is_zero. apply vs_eqb; [exact S|apply same_refl; constructor]. Qed.
  Theorem vs_is_one a a' : same a a' -> poly_is_one o a = poly_is_one o a' /\ exists b, poly_is_one o a = Some b.
  Proof.
    intros [Ha [Ha' E]]. destruct (is_one_spec o fk ok den H a Ha) as [b [B1 B2]]. destruct (is_one_spec o fk ok den H a' Ha') as [b' [B1' B2']].
    split; [|exists b; exact B1]. rewrite B1, B1'. f_equal. destruct b, b'; try reflexivity; exfalso.
    - assert (T : true = true) by reflexivity. apply B2 in T. rewrite E in T. apply B2' in T. discriminate.
    - assert (T : true = true) by reflexivity. apply B2' in T. rewrite <- E in T. apply B2 in T. discriminate.
  Qed.
  Theorem vs_hash a a' : same a a' -> poly_hash_feed_v1 o a = poly_hash_feed_v1 o a'.
  Proof. exact (vs_coefficients a a'). Qed.
  Theorem vs_encode enc a a' : same a a' -> poly_encode o enc a = poly_encode o enc a'.
  Proof. intros [Ha [Ha' E]]. apply (encode_normalised o fk ok den H); assumption. Qed.
  Theorem vs_evaluate a a' x : same a a' -> ok x -> poly_evaluate o a x = poly_evaluate o a' x.
  Proof.
    intros [Ha [Ha' E]] Hx. destruct (evaluate_spec o fk ok den H a x Ha Hx) as [A1 A2].
    destruct (evaluate_spec o fk ok den H a' x Ha' Hx) as [B1 B2]. apply (fo_inj _ _ _ _ H _ _ A1 B1). rewrite A2, B2.
    apply peval_peq. exact E.
  Qed.

  (* ---- ring operations: results denote the same polynomial, operands in every position *)
  Theorem vs_add a a' b b' : same a a' -> same b b' -> same (poly_add o a b) (poly_add o a' b').
  Proof.
    intros [Ha [Ha' Ea]] [Hb [Hb' Eb]]. split; [apply (add_ok o fk ok den H); assumption|].
    split; [apply (add_ok o fk ok den H); assumption|]. rewrite !(add_D o fk ok den H) by assumption. rewrite Ea, Eb. reflexivity.
  Qed.
  Theorem vs_sub a a' b b' : same a a' -> same b b' -> same (poly_sub o a b) (poly_sub o a' b').
  Proof.
    intros [Ha [Ha' Ea]] [Hb [Hb' Eb]]. split; [apply (sub_ok o fk ok den H); assumption|].
    split; [apply (sub_ok o fk ok den H); assumption|]. rewrite !(sub_D o fk ok den H) by assumption. rewrite Ea, Eb. reflexivity.
  Qed.
  Theorem vs_neg a a' : same a a' -> same (poly_neg o a) (poly_neg o a').
  Proof.
    intros [Ha [Ha' Ea]]. split; [apply (neg_ok o fk ok den H); assumption|].
    split; [apply (neg_ok o fk ok den H); assumption|]. rewrite !(neg_D o fk ok den H) by assumption. rewrite Ea. reflexivity.
  Qed.
  Theorem vs_scalar_mul a a' s : same a a' -> ok s -> same (poly_scalar_mul o a s) (poly_scalar_mul o a' s).
  Proof.
    intros [Ha [Ha' Ea]] Hs. split; [apply (scalar_mul_ok o fk ok den H); assumption|].
    split; [apply (scalar_mul_ok o fk ok den H); assumption|]. rewrite !(scalar_mul_D o fk ok den H) by assumption. rewrite Ea. reflexivity.
  Qed.
  Theorem vs_scale a a' s : same a a' -> ok s -> same (poly_scale o a s) (poly_scale o a' s).
  Proof.
    intros [Ha [Ha' Ea]] Hs. split; [apply (scale_ok o fk ok den H); assumption|].
    split; [apply (scale_ok o fk ok den H); assumption|]. rewrite !(scale_D o fk ok den H) by assumption.
    apply (pcompscale_peq fk). exact Ea.
  Qed.
  Theorem vs_shift a a' n : same a a' -> same (poly_shift_coefficients o a n) (poly_shift_coefficients o a' n).
  Proof.
    intros [Ha [Ha' Ea]]. split; [apply (shift_ok o fk ok den H); assumption|].
    split; [apply (shift_ok o fk ok den H); assumption|]. rewrite !(shift_D o fk ok den H). apply pshift_peq. exact Ea.
  Qed.
  Theorem vs_formal_derivative a a' : same a a' -> zlen a <= 2 ^ 64 -> zlen a' <= 2 ^ 64 ->
    same (poly_formal_derivative o a) (poly_formal_derivative o a').
  Proof.
    intros [Ha [Ha' Ea]] L L'. split; [apply (formal_derivative_ok o fk ok den H); assumption|].
    split; [apply (formal_derivative_ok o fk ok den H); assumption|]. rewrite !(formal_derivative_D o fk ok den H) by assumption.
    apply (pderiv_peq fk). exact Ea.
  Qed.
  Theorem vs_mod_x_to_the_n a a' n : same a a' -> 0 <= n -> peq (D (poly_mod_x_to_the_n a n)) (D (poly_mod_x_to_the_n a' n)).
  Proof. intros [_ [_ E]] Hn. apply (mod_x_to_the_n_peq fk den); assumption. Qed.
  Theorem vs_truncate a a' k : same a a' -> poly_truncate_v1 o a k = poly_truncate_v1 o a' k.
  Proof. intros [Ha [Ha' E]]. apply (truncate_v1_canonical o fk ok den H); assumption. Qed.

  (* ---- products *)
  Theorem vs_naive_multiply a a' b b' : same a a' -> same b b' -> same (poly_naive_multiply o a b) (poly_naive_multiply o a' b').
  Proof.
    intros [Ha [Ha' Ea]] [Hb [Hb' Eb]]. destruct (naive_multiply_spec o fk ok den H a b Ha Hb) as [S1 S2].
    destruct (naive_multiply_spec o fk ok den H a' b' Ha' Hb') as [T1 T2]. split; [exact S1|]. split; [exact T1|].
    rewrite S2, T2, Ea, Eb. reflexivity.
  Qed.
  Theorem vs_slow_square a a' : same a a' ->
    exists r r', poly_slow_square_v1 o a = Some r /\ poly_slow_square_v1 o a' = Some r' /\ same r r'.
  Proof.
    intros [Ha [Ha' Ea]]. destruct (slow_square_v1_spec o fk ok den H a Ha) as [r [R1 [R2 [_ R3]]]].
    destruct (slow_square_v1_spec o fk ok den H a' Ha') as [r' [R1' [R2' [_ R3']]]]. exists r, r'. split; [exact R1|]. split; [exact R1'|].
    split; [exact R2|]. split; [exact R2'|]. rewrite R3, R3', Ea. reflexivity.
  Qed.
  Theorem vs_pow a a' e : same a a' -> 0 <= e ->
    exists r r', poly_pow o a e = Some r /\ poly_pow o a' e = Some r' /\ same r r'.
  Proof.
    intros [Ha [Ha' Ea]] He. destruct (pow_spec o fk ok den H a e Ha He) as [r [R1 [R2 R3]]].
    destruct (pow_spec o fk ok den H a' e Ha' He) as [r' [R1' [R2' R3']]]. exists r, r'. split; [exact R1|]. split; [exact R1'|].
    split; [exact R2|]. split; [exact R2'|]. rewrite R3, R3'. apply ppow_peq. exact Ea.
  Qed.
End ValueSemantics.

(* ------------------------------------------------------------------ the base field: C06 hypotheses discharged *)
Definition wr_b (l : nat) : Fp :=
  match primitive_root_of_unity (2 ^ Z.of_nat l) with Some w => bden w | None => k1 fp_field end.
Lemma ntt_b_hyp l x : (l <= 31)%nat -> length x = (2 ^ l)%nat -> Forall canon x ->
  exists y, ntt_b x = Some y /\ Forall canon y /\ length y = length x /\ map bden y = dft fp_field (wr_b l) (map bden x).
Proof.
  intros Hl Hx Hc. destruct (ntt_b_is_dft l x Hl Hx Hc) as [y [w [W [Y1 [Y2 [Y3 Y4]]]]]].
  exists y. unfold wr_b. rewrite W. repeat split; assumption.
Qed.
Lemma intt_b_hyp l x : (l <= 31)%nat -> length x = (2 ^ l)%nat -> Forall canon x ->
  exists y, intt_b x = Some y /\ Forall canon y /\ length y = length x /\ map bden y = idft fp_field (wr_b l) (map bden x).
Proof.
  intros Hl Hx Hc. destruct (intt_b_is_idft l x Hl Hx Hc) as [y [w [W [Y1 [Y2 [Y3 Y4]]]]]].
  exists y. unfold wr_b. rewrite W. repeat split; assumption.
Qed.
Lemma wr_b_half l : (l <= 31)%nat -> half_root fp_field (wr_b l) l.
Proof.
  intros Hl. destruct (root_exists l ltac:(lia)) as [w W]. unfold wr_b. rewrite W.
  exact (proj1 (proj2 (proj2 (roots_exact_order l w ltac:(lia) W)))).
Qed.
Lemma wr_b_nonzero l : (l <= 31)%nat -> wr_b l <> k0 fp_field.
Proof.
  intros Hl. destruct (root_exists l ltac:(lia)) as [w W]. unfold wr_b. rewrite W.
  exact (proj1 (proj2 (proj2 (proj2 (roots_exact_order l w ltac:(lia) W))))).
Qed.

Local Notation Db := (map bden).
Local Notation okb := (Forall canon).

(* Polynomial<BFieldElement>: unconditional theorems (transform lengths up to 2^31) *)
Theorem bfe_naive_multiply_spec a b : okb a -> okb b ->
  okb (poly_naive_multiply bfe_ops a b) /\ peq fp_field (Db (poly_naive_multiply bfe_ops a b)) (pmul fp_field (Db a) (Db b)).
Proof. apply (naive_multiply_spec bfe_ops fp_field canon bden bfe_field_ok). Qed.
Theorem bfe_fast_multiply_spec a b : okb a -> okb b -> poly_degree bfe_ops a + poly_degree bfe_ops b + 1 <= 2 ^ 31 ->
  exists r, poly_fast_multiply bfe_ops ntt_b intt_b a b = Some r /\ okb r /\
            zlen r <= Z.max 0 (poly_degree bfe_ops a + poly_degree bfe_ops b + 1) /\
            peq fp_field (Db r) (pmul fp_field (Db a) (Db b)).
Proof.
  apply (fast_multiply_spec bfe_ops fp_field canon bden bfe_field_ok ntt_b intt_b 31 wr_b ntt_b_hyp intt_b_hyp wr_b_half wr_b_nonzero
           fp_two_neq_0).
Qed.
Theorem bfe_multiply_spec a b : okb a -> okb b -> poly_degree bfe_ops a + poly_degree bfe_ops b + 1 <= 2 ^ 31 ->
  exists r, poly_multiply bfe_ops ntt_b intt_b a b = Some r /\ okb r /\
            zlen r <= Z.max 0 (poly_degree bfe_ops a + poly_degree bfe_ops b + 1) /\
            peq fp_field (Db r) (pmul fp_field (Db a) (Db b)).
Proof.
  apply (multiply_spec bfe_ops fp_field canon bden bfe_field_ok ntt_b intt_b 31 wr_b ntt_b_hyp intt_b_hyp wr_b_half wr_b_nonzero
           fp_two_neq_0).
Qed.
Theorem bfe_square_spec l : okb l -> 2 * poly_degree bfe_ops l + 1 <= 2 ^ 31 ->
  exists r, poly_square bfe_ops ntt_b intt_b l = Some r /\ okb r /\ peq fp_field (Db r) (pmul fp_field (Db l) (Db l)).
Proof.
  apply (square_v1_spec bfe_ops fp_field canon bden bfe_field_ok ntt_b intt_b 31 wr_b ntt_b_hyp intt_b_hyp wr_b_half wr_b_nonzero
           fp_two_neq_0).
Qed.
Theorem bfe_fast_square_spec l : okb l -> 2 * poly_degree bfe_ops l + 1 <= 2 ^ 31 ->
  exists r, poly_fast_square bfe_ops ntt_b intt_b l = Some r /\ okb r /\ peq fp_field (Db r) (pmul fp_field (Db l) (Db l)).
Proof.
  apply (fast_square_spec bfe_ops fp_field canon bden bfe_field_ok ntt_b intt_b 31 wr_b ntt_b_hyp intt_b_hyp wr_b_half wr_b_nonzero
           fp_two_neq_0).
Qed.
Theorem bfe_pow_spec l e : okb l -> 0 <= e ->
  exists r, poly_pow bfe_ops l e = Some r /\ okb r /\ peq fp_field (Db r) (ppow fp_field (Db l) (Z.to_nat e)).
Proof. apply (pow_spec bfe_ops fp_field canon bden bfe_field_ok). Qed.
Theorem bfe_fast_pow_spec l e : okb l -> 0 <= e -> Z.max 0 (poly_degree bfe_ops l) * e * 2 + 1 <= 2 ^ 31 ->
  exists r, poly_fast_pow bfe_ops ntt_b intt_b l e = Some r /\ okb r /\ peq fp_field (Db r) (ppow fp_field (Db l) (Z.to_nat e)).
Proof.
  apply (fast_pow_spec bfe_ops fp_field canon bden bfe_field_ok ntt_b intt_b 31 wr_b ntt_b_hyp intt_b_hyp wr_b_half wr_b_nonzero
           fp_two_neq_0).
Qed.
Theorem bfe_batch_multiply_spec ps : Forall okb ps -> total_len ps <= 2 ^ 31 ->
  exists r, poly_batch_multiply bfe_ops ntt_b intt_b ps = Some r /\ okb r /\
            peq fp_field (Db r) (pprod fp_field (map Db ps)).
Proof.
  apply (batch_multiply_spec bfe_ops fp_field canon bden bfe_field_ok ntt_b intt_b 31 wr_b ntt_b_hyp intt_b_hyp wr_b_half wr_b_nonzero
           fp_two_neq_0).
Qed.
Theorem bfe_par_batch_multiply_spec nt ps : 1 <= nt -> Forall okb ps -> total_len ps <= 2 ^ 31 ->
  exists r, poly_par_batch_multiply bfe_ops ntt_b intt_b nt ps = Some r /\ okb r /\
            peq fp_field (Db r) (pprod fp_field (map Db ps)).
Proof.
  apply (par_batch_multiply_spec bfe_ops fp_field canon bden bfe_field_ok ntt_b intt_b 31 wr_b ntt_b_hyp intt_b_hyp wr_b_half
           wr_b_nonzero fp_two_neq_0).
Qed.

(* ------------------------------------------------------------------ HISTORICAL: the four defects of the originally
   pinned tree, refuted on the `_v0` models (the code before commit 0fd3b2b) with concrete witnesses.
   The polynomial 1 stored as [1, 0]; 5 + 7x stored as [5, 7, 0]. *)
Definition w_one_stored : list Z := [bfe_one; bfe_zero].
Definition w_lin : list Z := [bfe_new 5; bfe_new 7].
Definition w_lin_stored : list Z := w_lin ++ [bfe_zero].
Lemma w_one_stored_eq : poly_eqb bfe_ops w_one_stored [bfe_one] = true. Proof. vm_compute. reflexivity. Qed.
Lemma w_lin_stored_eq : poly_eqb bfe_ops w_lin_stored w_lin = true. Proof. vm_compute. reflexivity. Qed.
Theorem slow_square_v0_refuted :
  exists l, poly_eqb bfe_ops l [bfe_one] = true /\ poly_slow_square_v0 bfe_ops [bfe_one] = Some [bfe_one] /\
            poly_slow_square_v0 bfe_ops l = None.
Proof. exists w_one_stored. vm_compute. repeat split; reflexivity. Qed.
Theorem slow_square_v1_on_witness : poly_slow_square_v1 bfe_ops w_one_stored = Some [bfe_one].
Proof. vm_compute. reflexivity. Qed.
Theorem square_v0_refuted :
  exists l, poly_eqb bfe_ops l [bfe_one] = true /\ poly_square_v0 bfe_ops ntt_b intt_b [bfe_one] = Some [bfe_one] /\
            poly_square_v0 bfe_ops ntt_b intt_b l = None.
Proof. exists w_one_stored. vm_compute. repeat split; reflexivity. Qed.
Theorem square_v1_on_witness : poly_square_v1 bfe_ops ntt_b intt_b w_one_stored = Some [bfe_one].
Proof. vm_compute. reflexivity. Qed.
Theorem truncate_v0_refuted :
  exists l l' r r', poly_eqb bfe_ops l l' = true /\ poly_truncate_v0 bfe_ops l 0 = Some r /\
                    poly_truncate_v0 bfe_ops l' 0 = Some r' /\ poly_eqb bfe_ops r r' = false.
Proof. exists w_lin_stored, w_lin, [bfe_zero], [bfe_new 7]. vm_compute. repeat split; reflexivity. Qed.
Theorem truncate_v1_on_witness : poly_truncate_v1 bfe_ops w_lin_stored 0 = poly_truncate_v1 bfe_ops w_lin 0.
Proof. vm_compute. reflexivity. Qed.
Theorem hash_v0_refuted :
  exists a b, poly_eqb bfe_ops a b = true /\ poly_hash_feed_v0 bfe_ops a <> poly_hash_feed_v0 bfe_ops b.
Proof. exists w_one_stored, [bfe_one]. split; [exact w_one_stored_eq|]. vm_compute. discriminate. Qed.

(* the hypotheses of the theorems are satisfiable: canonical words, and the witnesses above are well formed *)
Example okb_witnesses : okb w_one_stored /\ okb w_lin_stored /\ okb w_lin.
Proof.
  assert (C0 : canon bfe_zero) by exact (proj1 (fo_zero _ _ _ _ bfe_field_ok)).
  assert (C1 : canon bfe_one) by exact (proj1 (fo_one _ _ _ _ bfe_field_ok)).
  assert (C5 : canon (bfe_new 5)) by (apply bden_new; lia).
  assert (C7 : canon (bfe_new 7)) by (apply bden_new; lia).
  unfold w_one_stored, w_lin_stored, w_lin. cbn [app]. repeat split; repeat (constructor; try assumption).
Qed.

(* ------------------------------------------------------------------ value semantics of the NTT-based family
   (corollaries of the C07 equations: both calls return the product of the denotations) *)
Section ValueSemanticsFast.
  Context {F K : Type} (o : fops F) (fk : fieldK K) (ok : F -> Prop) (den : F -> K).
  Hypothesis H : field_ok o fk ok den.
  Variables (ntt intt : list F -> option (list F)) (lmax : nat) (wr : nat -> K).
  Hypothesis N1 : ntt_ok fk ok den ntt lmax wr.
  Hypothesis N2 : intt_ok fk ok den intt lmax wr.
  Hypothesis R : roots_ok fk lmax wr.
  Local Notation D := (map den).
  Local Notation same := (same fk ok den).

  Theorem vs_multiply a a' b b' : same a a' -> same b b' ->
    zlen a + zlen b <= 2 ^ Z.of_nat lmax -> zlen a' + zlen b' <= 2 ^ Z.of_nat lmax ->
    exists r r', poly_multiply o ntt intt a b = Some r /\ poly_multiply o ntt intt a' b' = Some r' /\ same r r'.
  Proof.
    intros [Ha [Ha' Ea]] [Hb [Hb' Eb]] L L'. destruct R as [R1 [R2 R3]].
    destruct (multiply_Hmult o fk ok den H ntt intt lmax wr N1 N2 R1 R2 R3 a b Ha Hb L) as [r [S1 [S2 [_ S3]]]].
    destruct (multiply_Hmult o fk ok den H ntt intt lmax wr N1 N2 R1 R2 R3 a' b' Ha' Hb' L') as [r' [T1 [T2 [_ T3]]]].
    exists r, r'. split; [exact S1|]. split; [exact T1|]. split; [exact S2|]. split; [exact T2|]. rewrite S3, T3, Ea, Eb. reflexivity.
  Qed.
  Theorem vs_square a a' : same a a' -> 2 * zlen a <= 2 ^ Z.of_nat lmax -> 2 * zlen a' <= 2 ^ Z.of_nat lmax ->
    exists r r', poly_square o ntt intt a = Some r /\ poly_square o ntt intt a' = Some r' /\ same r r'.
  Proof.
    intros [Ha [Ha' Ea]] L L'. pose proof (degree_lt_len o a). pose proof (degree_lt_len o a').
    destruct (w_square o fk ok den H ntt intt lmax wr N1 N2 R a Ha ltac:(lia)) as [r [S1 [S2 S3]]].
    destruct (w_square o fk ok den H ntt intt lmax wr N1 N2 R a' Ha' ltac:(lia)) as [r' [T1 [T2 T3]]].
    exists r, r'. split; [exact S1|]. split; [exact T1|]. split; [exact S2|]. split; [exact T2|]. rewrite S3, T3, Ea. reflexivity.
  Qed.
  Lemma pprod_same ps ps' : Forall2 same ps ps' -> peq fk (pprod fk (map D ps)) (pprod fk (map D ps')).
  Proof.
    induction 1 as [|a a' ps ps' [_ [_ E]] _ IH]; [reflexivity|]. cbn [map]. rewrite !pprod_cons, E, IH. reflexivity.
  Qed.
  Theorem vs_batch_multiply ps ps' : Forall2 same ps ps' ->
    total_len ps <= 2 ^ Z.of_nat lmax -> total_len ps' <= 2 ^ Z.of_nat lmax ->
    exists r r', poly_batch_multiply o ntt intt ps = Some r /\ poly_batch_multiply o ntt intt ps' = Some r' /\ same r r'.
  Proof.
    intros S L L'.
    assert (O1 : Forall (Forall ok) ps) by (clear -S; induction S as [|? ? ? ? [X _]]; constructor; assumption).
    assert (O2 : Forall (Forall ok) ps') by (clear -S; induction S as [|? ? ? ? [_ [X _]]]; constructor; assumption).
    destruct (w_batch_multiply o fk ok den H ntt intt lmax wr N1 N2 R ps O1 L) as [r [S1 [S2 S3]]].
    destruct (w_batch_multiply o fk ok den H ntt intt lmax wr N1 N2 R ps' O2 L') as [r' [T1 [T2 T3]]].
    exists r, r'. split; [exact S1|]. split; [exact T1|]. split; [exact S2|]. split; [exact T2|]. rewrite S3, T3. apply pprod_same. exact S.
  Qed.
  Theorem vs_par_batch_multiply nt nt' ps ps' : 1 <= nt -> 1 <= nt' -> Forall2 same ps ps' ->
    total_len ps <= 2 ^ Z.of_nat lmax -> total_len ps' <= 2 ^ Z.of_nat lmax ->
    exists r r', poly_par_batch_multiply o ntt intt nt ps = Some r /\ poly_par_batch_multiply o ntt intt nt' ps' = Some r' /\ same r r'.
  Proof.
    intros Hn Hn' S L L'.
    assert (O1 : Forall (Forall ok) ps) by (clear -S; induction S as [|? ? ? ? [X _]]; constructor; assumption).
    assert (O2 : Forall (Forall ok) ps') by (clear -S; induction S as [|? ? ? ? [_ [X _]]]; constructor; assumption).
    destruct (w_par_batch_multiply o fk ok den H ntt intt lmax wr N1 N2 R nt ps Hn O1 L) as [r [S1 [S2 S3]]].
    destruct (w_par_batch_multiply o fk ok den H ntt intt lmax wr N1 N2 R nt' ps' Hn' O2 L') as [r' [T1 [T2 T3]]].
    exists r, r'. split; [exact S1|]. split; [exact T1|]. split; [exact S2|]. split; [exact T2|]. rewrite S3, T3. apply pprod_same. exact S.
  Qed.
End ValueSemanticsFast.

(* ------------------------------------------------------------------ is_x *)
Section IsX.
  Context {F K : Type} (o : fops F) (fk : fieldK K) (ok : F -> Prop) (den : F -> K).
  Hypothesis H : field_ok o fk ok den.
  Local Notation D := (map den).
  Theorem is_x_spec l : Forall ok l -> exists b, poly_is_x o l = Some b /\ (b = true <-> peq fk (D l) (pXn fk 1)).
  Proof.
    intros Hl. unfold poly_is_x. rewrite (degree_pdeg o fk ok den H l Hl).
    assert (X2 : forall i, coeff fk (pXn fk 1) (S (S i)) = k0 fk) by (intros i; unfold pXn; cbn [repeat app]; rewrite !coeff_cons_S; apply coeff_nil).
    assert (DX : pdeg fk (pXn fk 1) = 1).
    { unfold pdeg, pXn. cbn [repeat app pnorm]. destruct (keq_dec fk (k1 fk) (k0 fk)) as [E|E]; [exfalso; exact (k1_neq_0 fk E)|reflexivity]. }
    destruct (pdeg fk (D l) =? 1) eqn:E.
    - apply Z.eqb_eq in E. pose proof (pdeg_le_length fk (D l)) as B. rewrite map_length in B.
      destruct (idx_lookup l 0 ltac:(unfold zlen; lia)) as [c0 [A1 A2]]. destruct (idx_lookup l 1 ltac:(unfold zlen; lia)) as [c1 [B1 B2]].
      rewrite A1. pose proof (nth_error_ok ok l _ c0 Hl A2) as Hc0. pose proof (nth_error_ok ok l _ c1 Hl B2) as Hc1.
      assert (C0 : coeff fk (D l) 0 = den c0) by (rewrite coeff_D; change (Z.to_nat 0) with O in A2; rewrite A2; reflexivity).
      assert (C1 : coeff fk (D l) 1 = den c1) by (rewrite coeff_D; change (Z.to_nat 1) with 1%nat in B2; rewrite B2; reflexivity).
      destruct (fis_zero o c0) eqn:Z0.
      + rewrite B1. eexists. split; [reflexivity|]. rewrite (fo_eqb _ _ _ _ H c1 (fone o) Hc1 (ok1 o fk ok den H)), (den1 o fk ok den H).
        apply (is0_iff o fk ok den H c0 Hc0) in Z0. split.
        * intros E1. apply peq_intro. intros [|[|i]].
          -- rewrite C0, Z0. reflexivity.
          -- rewrite C1, E1. reflexivity.
          -- rewrite X2. apply coeff_above_pdeg. lia.
        * intros P. rewrite <- C1, (peq_elim fk _ _ P). reflexivity.
      + exists false. split; [reflexivity|]. split; [discriminate|]. intros P. exfalso.
        apply (is0_false_iff o fk ok den H c0 Hc0) in Z0. apply Z0. rewrite <- C0, (peq_elim fk _ _ P). reflexivity.
    - exists false. split; [reflexivity|]. split; [discriminate|]. intros P. apply Z.eqb_neq in E. exfalso. apply E.
      rewrite (pdeg_peq fk _ _ P). exact DX.
  Qed.
  Theorem vs_is_x a a' : same fk ok den a a' -> poly_is_x o a = poly_is_x o a' /\ exists b, poly_is_x o a = Some b.
  Proof.
    intros [Ha [Ha' E]]. destruct (is_x_spec a Ha) as [b [B1 B2]]. destruct (is_x_spec a' Ha') as [b' [B1' B2']].
    split; [|exists b; exact B1]. rewrite B1, B1'. f_equal. destruct b, b'; try reflexivity; exfalso.
    - assert (T : true = true) by reflexivity. apply B2 in T. rewrite E in T. apply B2' in T. discriminate.
    - assert (T : true = true) by reflexivity. apply B2' in T. rewrite <- E in T. apply B2 in T. discriminate.
  Qed.
End IsX.
