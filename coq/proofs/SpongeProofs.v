(* SpongeProofs.v - theorems about the sponge part of the Tip5 model (model/Tip5.v): padding, domain separation,
   hash_varlen, index and scalar sampling (property C15). *)
From Coq Require Import ZArith Bool Lia List Arith.
From TF Require Import Word BFieldGen BFieldProofs Tip5Ssa Tip5Gen Tip5 Tip5Spec Tip5Proofs.
Import ListNotations.
Open Scope Z_scope.

(* ================================================================ domain separation *)
(* the two initial states differ - in the capacity, before any absorption or permutation *)
Theorem domains_differ :
  tip5_new VariableLength <> tip5_new FixedLength /\
  skipn nrate (tip5_new VariableLength) <> skipn nrate (tip5_new FixedLength) /\
  firstn nrate (tip5_new VariableLength) = firstn nrate (tip5_new FixedLength) /\
  map val (tip5_new VariableLength) = repeat 0 16 /\
  map val (tip5_new FixedLength) = repeat 0 10 ++ repeat 1 6.
Proof. vm_compute. repeat split; try reflexivity; discriminate. Qed.
