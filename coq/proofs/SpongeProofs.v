(* SpongeProofs.v - theorems about the sponge part of the Tip5 model (model/Tip5.v): padding, domain separation,
   hash_varlen, index and scalar sampling (property C15). *)
From Coq Require Import ZArith Bool Lia List Arith.
From TF Require Import Word BFieldGen BFieldProofs Tip5Ssa Tip5Gen Tip5 Tip5Spec Tip5Proofs.
Import ListNotations.
Open Scope Z_scope.
Ltac Zify.zify_post_hook ::= Z.div_mod_to_equations.

(* ================================================================ domain separation *)
(* the two initial states differ - in the capacity, before any absorption or permutation *)
Theorem domains_differ :
  tip5_new VariableLength <> tip5_new FixedLength /\
  skipn nrate (tip5_new VariableLength) <> skipn nrate (tip5_new FixedLength) /\
  firstn nrate (tip5_new VariableLength) = firstn nrate (tip5_new FixedLength) /\
  map val (tip5_new VariableLength) = repeat 0 16 /\
  map val (tip5_new FixedLength) = repeat 0 10 ++ repeat 1 6.
Proof. vm_compute. repeat split; try reflexivity; discriminate. Qed.

(* ================================================================ padding *)
Lemma srate_is : srate = 10%nat. Proof. reflexivity. Qed.
Lemma nrate_is : nrate = 10%nat. Proof. reflexivity. Qed.
Lemma one_not_zero : bfe_one <> bfe_zero. Proof. vm_compute. discriminate. Qed.

Definition pad_zeros (n : nat) : nat := ((10 - (n + 1) mod 10) mod 10)%nat.

Lemma sub_mod_10 r : (r < 10 -> (10 - r) mod 10 = if Nat.eqb r 0 then 0 else 10 - r)%nat.
Proof. intros H. do 10 (destruct r as [|r]; [reflexivity|]). lia. Qed.
Lemma mod10_unique q s : (s < 10 -> (10 * q + s) mod 10 = s)%nat.
Proof. intros H. symmetry. apply (Nat.mod_unique _ 10 q s); lia. Qed.

(* the arithmetic of the padding length, by cases on r = (n + 1) mod 10 *)
Lemma pad_zeros_spec n :
  exists q r, (n + 1 = 10 * q + r /\ r < 10 /\ (n + 1) mod 10 = r /\ pad_zeros n = if Nat.eqb r 0 then 0 else 10 - r)%nat.
Proof.
  exists ((n + 1) / 10)%nat, ((n + 1) mod 10)%nat.
  pose proof (Nat.mod_upper_bound (n + 1) 10 ltac:(lia)) as Hb.
  split; [apply Nat.div_mod; lia|]. split; [exact Hb|]. split; [reflexivity|]. apply sub_mod_10. exact Hb.
Qed.

Lemma next_multiple_of_10 a : (next_multiple_of (a + 1) 10 = a + 1 + pad_zeros a)%nat.
Proof.
  unfold next_multiple_of. destruct (pad_zeros_spec a) as [q [r [E [Hr [Em Ez]]]]]. rewrite Ez, Em.
  destruct (Nat.eqb_spec r 0) as [Z|NZ]; lia.
Qed.

Lemma firstn_repeat {A} (x : A) k n : (k <= n)%nat -> firstn k (repeat x n) = repeat x k.
Proof.
  revert n. induction k as [|k IH]; intros n H; [reflexivity|].
  destruct n as [|n]; [lia|]. cbn [repeat firstn]. rewrite IH by lia. reflexivity.
Qed.

(* pad_shape: the padded input is the input, a single one, and k zeros, k < 10 the least number that makes the
   length a multiple of the rate *)
Theorem pad_shape input :
  let k := pad_zeros (length input) in
  pad input = input ++ bfe_one :: repeat bfe_zero k /\ (k < 10)%nat /\
  (length (pad input) mod 10 = 0)%nat /\
  (forall k', (k' < k)%nat -> ((length input + 1 + k') mod 10 <> 0)%nat).
Proof.
  intros k. unfold pad. rewrite srate_is, next_multiple_of_10. fold k.
  destruct (pad_zeros_spec (length input)) as [q [r [E [Hr [Em Ez]]]]]. fold k in Ez.
  assert (Hk : (k < 10)%nat) by (rewrite Ez; destruct (Nat.eqb_spec r 0); lia).
  assert (E2 : firstn (length input + 1 + k) (input ++ bfe_one :: repeat bfe_zero (length input + 1 + k))
              = input ++ bfe_one :: repeat bfe_zero k).
  { rewrite <- Nat.add_assoc, firstn_app_2. f_equal. cbn [Nat.add firstn]. f_equal. apply firstn_repeat. lia. }
  rewrite E2. split; [reflexivity|]. split; [exact Hk|]. split.
  - rewrite app_length. cbn [length]. rewrite repeat_length.
    replace (length input + S k)%nat with (length input + 1 + k)%nat by lia. rewrite E, Ez.
    destruct (Nat.eqb_spec r 0) as [Z|NZ].
    + rewrite Z. replace (10 * q + 0 + 0)%nat with (10 * q + 0)%nat by lia. apply mod10_unique. lia.
    + replace (10 * q + r + (10 - r))%nat with (10 * (q + 1) + 0)%nat by lia. apply mod10_unique. lia.
  - intros k' Hk'. rewrite E. rewrite Ez in Hk'. destruct (Nat.eqb_spec r 0) as [Z|NZ]; [lia|].
    replace (10 * q + r + k')%nat with (10 * q + (r + k'))%nat by lia. rewrite mod10_unique by lia. lia.
Qed.

Lemma repeat_snoc {A} (x : A) n : repeat x n ++ [x] = x :: repeat x n.
Proof. induction n as [|n IH]; [reflexivity|]. cbn [repeat app]. rewrite IH. reflexivity. Qed.
Lemma rev_repeat {A} (x : A) n : rev (repeat x n) = repeat x n.
Proof. induction n as [|n IH]; [reflexivity|]. cbn [repeat rev]. rewrite IH. apply repeat_snoc. Qed.

Lemma repeat_marker_inj {A} (z o : A) k1 k2 x y : o <> z ->
  repeat z k1 ++ o :: x = repeat z k2 ++ o :: y -> k1 = k2 /\ x = y.
Proof.
  intros Hne. revert k2. induction k1 as [|k1 IH]; intros k2 H.
  - destruct k2 as [|k2]; cbn in H.
    + inversion H. auto.
    + inversion H. contradiction.
  - destruct k2 as [|k2]; cbn in H.
    + inversion H. symmetry in H1. contradiction.
    + inversion H as [H1]. destruct (IH k2 H1) as [-> ->]. auto.
Qed.

(* pad_injective: different inputs are padded differently *)
Theorem pad_injective a b : pad a = pad b -> a = b.
Proof.
  intros H. destruct (pad_shape a) as [Ea _]. destruct (pad_shape b) as [Eb _]. cbv zeta in Ea, Eb.
  rewrite Ea, Eb in H. apply (f_equal (@rev Z)) in H.
  rewrite !rev_app_distr in H. cbn [rev] in H. rewrite !rev_repeat, <- !app_assoc in H. cbn [app] in H.
  destruct (repeat_marker_inj _ _ _ _ _ _ one_not_zero H) as [_ E].
  rewrite <- (rev_involutive a), <- (rev_involutive b), E. reflexivity.
Qed.

(* on values: the specification's padding *)
Theorem pad_values input : map val (pad input) = spec_pad (map val input).
Proof.
  destruct (pad_shape input) as [E _]. cbv zeta in E. rewrite E. unfold spec_pad.
  rewrite map_app, map_length. cbn [map app]. apply f_equal.
  fold (pad_zeros (length input)). generalize (pad_zeros (length input)). intros k.
  assert (E1 : val bfe_one = 1) by (vm_compute; reflexivity). rewrite E1. apply f_equal.
  assert (E0 : val bfe_zero = 0) by (vm_compute; reflexivity).
  induction k as [|k IH]; [reflexivity|]. cbn [repeat map]. rewrite IH, E0. reflexivity.
Qed.

(* ================================================================ chunking and pad_and_absorb_all *)
Lemma chunks_go_mult k : forall fuel l, length l = (10 * k)%nat -> (k <= fuel)%nat ->
  Forall (fun c => length c = 10%nat) (chunks_go fuel 10 l) /\ concat (chunks_go fuel 10 l) = l /\
  length (chunks_go fuel 10 l) = k.
Proof.
  induction k as [|k IH]; intros fuel l Hl Hf.
  - destruct l; [|cbn in Hl; lia]. destruct fuel; cbn; auto.
  - destruct fuel as [|f]; [lia|]. destruct l as [|x l]; [cbn in Hl; lia|].
    cbn [chunks_go]. remember (x :: l) as l' eqn:El'.
    assert (L1 : length (firstn 10 l') = 10%nat) by (rewrite firstn_length; lia).
    assert (L2 : length (skipn 10 l') = (10 * k)%nat) by (rewrite skipn_length; lia).
    destruct (IH f (skipn 10 l') L2 ltac:(lia)) as [I1 [I2 I3]].
    split; [constructor; assumption|]. split.
    + cbn [concat]. rewrite I2. apply firstn_skipn.
    + cbn [length]. rewrite I3. reflexivity.
Qed.

Lemma pad_length input : exists k, length (pad input) = (10 * k)%nat /\ (1 <= k)%nat.
Proof.
  destruct (pad_shape input) as [E [Hk [Hm _]]]. cbv zeta in *.
  assert (H1 : (1 <= length (pad input))%nat) by (rewrite E, app_length; cbn [length]; lia).
  pose proof (Nat.div_mod (length (pad input)) 10 ltac:(lia)) as D. rewrite Hm in D.
  exists (length (pad input) / 10)%nat. revert D H1. generalize (length (pad input) / 10)%nat.
  generalize (length (pad input)). clear. intros L q D H1. split; lia.
Qed.

Lemma absorb_chunks_ok {S} (ab : S -> list Z -> S) cs : Forall (fun c => length c = 10%nat) cs ->
  forall s, absorb_chunks S ab s cs = Some (fold_left ab cs s).
Proof.
  induction 1 as [|c cs Hc _ IH]; intros s; [reflexivity|].
  cbn [absorb_chunks fold_left]. rewrite srate_is, Hc, Nat.eqb_refl. apply IH.
Qed.

(* pad_and_absorb_all never panics and absorbs exactly the chunks of the padded input, in order; the chunks
   all have RATE elements and concatenate to  input ++ [1] ++ 0^k *)
Theorem pad_and_absorb_all_spec {S} (ab : S -> list Z -> S) s input :
  let cs := chunks 10 (pad input) in
  pad_and_absorb_all S ab s input = Some (fold_left ab cs s) /\
  Forall (fun c => length c = 10%nat) cs /\ concat cs = pad input /\ (10 * length cs = length (pad input))%nat.
Proof.
  intros cs. destruct (pad_length input) as [k [Hk Hk1]].
  destruct (chunks_go_mult k (length (pad input)) (pad input) Hk ltac:(lia)) as [C1 [C2 C3]].
  fold (chunks 10 (pad input)) in C1, C2, C3. fold cs in C1, C2, C3.
  unfold pad_and_absorb_all. rewrite srate_is. fold cs.
  split; [apply absorb_chunks_ok; exact C1|]. split; [exact C1|]. split; [exact C2|]. lia.
Qed.

(* the recording sponge: what is absorbed is, concatenated, exactly the padded input *)
Theorem recording_spec input : exists cs,
  recording_pad_and_absorb_all [] input = Some cs /\ concat cs = input ++ bfe_one :: repeat bfe_zero (pad_zeros (length input)) /\
  Forall (fun c => length c = 10%nat) cs.
Proof.
  destruct (pad_and_absorb_all_spec (fun (s : list (list Z)) c => s ++ [c]) [] input) as [E [C1 [C2 _]]].
  cbv zeta in *. exists (chunks 10 (pad input)). unfold recording_pad_and_absorb_all. rewrite E.
  assert (F : forall cs s, fold_left (fun (s : list (list Z)) c => s ++ [c]) cs s = s ++ cs).
  { induction cs as [|c cs IH]; intros s; cbn [fold_left]; [rewrite app_nil_r; reflexivity|].
    rewrite IH, <- app_assoc. reflexivity. }
  rewrite F. cbn [app]. split; [reflexivity|]. split; [|exact C1].
  rewrite C2. apply pad_shape.
Qed.
