(* SpongeProofs.v - theorems about the sponge part of the Tip5 model (model/Tip5.v): padding, domain separation,
   hash_varlen, index and scalar sampling (property C15). *)
From Coq Require Import ZArith Bool Lia List Arith.
From TF Require Import Word BFieldGen BFieldProofs Tip5Ssa Tip5Gen Tip5 Tip5Spec Tip5Proofs.
Import ListNotations.
Open Scope Z_scope.
Ltac Zify.zify_post_hook ::= Z.div_mod_to_equations.

(* ================================================================ domain separation *)
(* the two initial states differ - in the capacity, before any absorption or permutation *)
Theorem domains_differ :
  tip5_new VariableLength <> tip5_new FixedLength /\
  skipn nrate (tip5_new VariableLength) <> skipn nrate (tip5_new FixedLength) /\
  firstn nrate (tip5_new VariableLength) = firstn nrate (tip5_new FixedLength) /\
  map val (tip5_new VariableLength) = repeat 0 16 /\
  map val (tip5_new FixedLength) = repeat 0 10 ++ repeat 1 6.
Proof. vm_compute. repeat split; try reflexivity; discriminate. Qed.

(* ================================================================ padding *)
Lemma srate_is : srate = 10%nat. Proof. reflexivity. Qed.
Lemma nrate_is : nrate = 10%nat. Proof. reflexivity. Qed.
Lemma one_not_zero : bfe_one <> bfe_zero. Proof. vm_compute. discriminate. Qed.

Definition pad_zeros (n : nat) : nat := ((10 - (n + 1) mod 10) mod 10)%nat.

Lemma sub_mod_10 r : (r < 10 -> (10 - r) mod 10 = if Nat.eqb r 0 then 0 else 10 - r)%nat.
Proof. intros H. do 10 (destruct r as [|r]; [reflexivity|]). lia. Qed.
Lemma mod10_unique q s : (s < 10 -> (10 * q + s) mod 10 = s)%nat.
Proof. intros H. symmetry. apply (Nat.mod_unique _ 10 q s); lia. Qed.

(* the arithmetic of the padding length, by cases on r = (n + 1) mod 10 *)
Lemma pad_zeros_spec n :
  exists q r, (n + 1 = 10 * q + r /\ r < 10 /\ (n + 1) mod 10 = r /\ pad_zeros n = if Nat.eqb r 0 then 0 else 10 - r)%nat.
Proof.
  exists ((n + 1) / 10)%nat, ((n + 1) mod 10)%nat.
  pose proof (Nat.mod_upper_bound (n + 1) 10 ltac:(lia)) as Hb.
  split; [apply Nat.div_mod; lia|]. split; [exact Hb|]. split; [reflexivity|]. apply sub_mod_10. exact Hb.
Qed.

Lemma next_multiple_of_10 a : (next_multiple_of (a + 1) 10 = a + 1 + pad_zeros a)%nat.
Proof.
  unfold next_multiple_of. destruct (pad_zeros_spec a) as [q [r [E [Hr [Em Ez]]]]]. rewrite Ez, Em.
  destruct (Nat.eqb_spec r 0) as [Z|NZ]; lia.
Qed.

Lemma firstn_repeat {A} (x : A) k n : (k <= n)%nat -> firstn k (repeat x n) = repeat x k.
Proof.
  revert n. induction k as [|k IH]; intros n H; [reflexivity|].
  destruct n as [|n]; [lia|]. cbn [repeat firstn]. rewrite IH by lia. reflexivity.
Qed.

(* pad_shape: the padded input is the input, a single one, and k zeros, k < 10 the least number that makes the
   length a multiple of the rate *)
Theorem pad_shape input :
  let k := pad_zeros (length input) in
  pad input = input ++ bfe_one :: repeat bfe_zero k /\ (k < 10)%nat /\
  (length (pad input) mod 10 = 0)%nat /\
  (forall k', (k' < k)%nat -> ((length input + 1 + k') mod 10 <> 0)%nat).
Proof.
  intros k. unfold pad. rewrite srate_is, next_multiple_of_10. fold k.
  destruct (pad_zeros_spec (length input)) as [q [r [E [Hr [Em Ez]]]]]. fold k in Ez.
  assert (Hk : (k < 10)%nat) by (rewrite Ez; destruct (Nat.eqb_spec r 0); lia).
  assert (E2 : firstn (length input + 1 + k) (input ++ bfe_one :: repeat bfe_zero (length input + 1 + k))
              = input ++ bfe_one :: repeat bfe_zero k).
  { rewrite <- Nat.add_assoc, firstn_app_2. f_equal. cbn [Nat.add firstn]. f_equal. apply firstn_repeat. lia. }
  rewrite E2. split; [reflexivity|]. split; [exact Hk|]. split.
  - rewrite app_length. cbn [length]. rewrite repeat_length.
    replace (length input + S k)%nat with (length input + 1 + k)%nat by lia. rewrite E, Ez.
    destruct (Nat.eqb_spec r 0) as [Z|NZ].
    + rewrite Z. replace (10 * q + 0 + 0)%nat with (10 * q + 0)%nat by lia. apply mod10_unique. lia.
    + replace (10 * q + r + (10 - r))%nat with (10 * (q + 1) + 0)%nat by lia. apply mod10_unique. lia.
  - intros k' Hk'. rewrite E. rewrite Ez in Hk'. destruct (Nat.eqb_spec r 0) as [Z|NZ]; [lia|].
    replace (10 * q + r + k')%nat with (10 * q + (r + k'))%nat by lia. rewrite mod10_unique by lia. lia.
Qed.

Lemma repeat_snoc {A} (x : A) n : repeat x n ++ [x] = x :: repeat x n.
Proof. induction n as [|n IH]; [reflexivity|]. cbn [repeat app]. rewrite IH. reflexivity. Qed.
Lemma rev_repeat {A} (x : A) n : rev (repeat x n) = repeat x n.
Proof. induction n as [|n IH]; [reflexivity|]. cbn [repeat rev]. rewrite IH. apply repeat_snoc. Qed.

Lemma repeat_marker_inj {A} (z o : A) k1 k2 x y : o <> z ->
  repeat z k1 ++ o :: x = repeat z k2 ++ o :: y -> k1 = k2 /\ x = y.
Proof.
  intros Hne. revert k2. induction k1 as [|k1 IH]; intros k2 H.
  - destruct k2 as [|k2]; cbn in H.
    + inversion H. auto.
    + inversion H. contradiction.
  - destruct k2 as [|k2]; cbn in H.
    + inversion H. symmetry in H1. contradiction.
    + inversion H as [H1]. destruct (IH k2 H1) as [-> ->]. auto.
Qed.

(* pad_injective: different inputs are padded differently *)
Theorem pad_injective a b : pad a = pad b -> a = b.
Proof.
  intros H. destruct (pad_shape a) as [Ea _]. destruct (pad_shape b) as [Eb _]. cbv zeta in Ea, Eb.
  rewrite Ea, Eb in H. apply (f_equal (@rev Z)) in H.
  rewrite !rev_app_distr in H. cbn [rev] in H. rewrite !rev_repeat, <- !app_assoc in H. cbn [app] in H.
  destruct (repeat_marker_inj _ _ _ _ _ _ one_not_zero H) as [_ E].
  rewrite <- (rev_involutive a), <- (rev_involutive b), E. reflexivity.
Qed.

(* on values: the specification's padding *)
Theorem pad_values input : map val (pad input) = spec_pad (map val input).
Proof.
  destruct (pad_shape input) as [E _]. cbv zeta in E. rewrite E. unfold spec_pad.
  rewrite map_app, map_length. cbn [map app]. apply f_equal.
  fold (pad_zeros (length input)). generalize (pad_zeros (length input)). intros k.
  assert (E1 : val bfe_one = 1) by (vm_compute; reflexivity). rewrite E1. apply f_equal.
  assert (E0 : val bfe_zero = 0) by (vm_compute; reflexivity).
  induction k as [|k IH]; [reflexivity|]. cbn [repeat map]. rewrite IH, E0. reflexivity.
Qed.

(* ================================================================ chunking and pad_and_absorb_all *)
Lemma chunks_go_mult k : forall fuel l, length l = (10 * k)%nat -> (k <= fuel)%nat ->
  Forall (fun c => length c = 10%nat) (chunks_go fuel 10 l) /\ concat (chunks_go fuel 10 l) = l /\
  length (chunks_go fuel 10 l) = k.
Proof.
  induction k as [|k IH]; intros fuel l Hl Hf.
  - destruct l; [|cbn in Hl; lia]. destruct fuel; cbn; auto.
  - destruct fuel as [|f]; [lia|]. destruct l as [|x l]; [cbn in Hl; lia|].
    cbn [chunks_go]. remember (x :: l) as l' eqn:El'.
    assert (L1 : length (firstn 10 l') = 10%nat) by (rewrite firstn_length; lia).
    assert (L2 : length (skipn 10 l') = (10 * k)%nat) by (rewrite skipn_length; lia).
    destruct (IH f (skipn 10 l') L2 ltac:(lia)) as [I1 [I2 I3]].
    split; [constructor; assumption|]. split.
    + cbn [concat]. rewrite I2. apply firstn_skipn.
    + cbn [length]. rewrite I3. reflexivity.
Qed.

Lemma pad_length input : exists k, length (pad input) = (10 * k)%nat /\ (1 <= k)%nat.
Proof.
  destruct (pad_shape input) as [E [Hk [Hm _]]]. cbv zeta in *.
  assert (H1 : (1 <= length (pad input))%nat) by (rewrite E, app_length; cbn [length]; lia).
  pose proof (Nat.div_mod (length (pad input)) 10 ltac:(lia)) as D. rewrite Hm in D.
  exists (length (pad input) / 10)%nat. revert D H1. generalize (length (pad input) / 10)%nat.
  generalize (length (pad input)). clear. intros L q D H1. split; lia.
Qed.

Lemma absorb_chunks_ok {S} (ab : S -> list Z -> S) cs : Forall (fun c => length c = 10%nat) cs ->
  forall s, absorb_chunks S ab s cs = Some (fold_left ab cs s).
Proof.
  induction 1 as [|c cs Hc _ IH]; intros s; [reflexivity|].
  cbn [absorb_chunks fold_left]. rewrite srate_is, Hc, Nat.eqb_refl. apply IH.
Qed.

(* pad_and_absorb_all never panics and absorbs exactly the chunks of the padded input, in order; the chunks
   all have RATE elements and concatenate to  input ++ [1] ++ 0^k *)
Theorem pad_and_absorb_all_spec {S} (ab : S -> list Z -> S) s input :
  let cs := chunks 10 (pad input) in
  pad_and_absorb_all S ab s input = Some (fold_left ab cs s) /\
  Forall (fun c => length c = 10%nat) cs /\ concat cs = pad input /\ (10 * length cs = length (pad input))%nat.
Proof.
  intros cs. destruct (pad_length input) as [k [Hk Hk1]].
  destruct (chunks_go_mult k (length (pad input)) (pad input) Hk ltac:(lia)) as [C1 [C2 C3]].
  fold (chunks 10 (pad input)) in C1, C2, C3. fold cs in C1, C2, C3.
  unfold pad_and_absorb_all. rewrite srate_is. fold cs.
  split; [apply absorb_chunks_ok; exact C1|]. split; [exact C1|]. split; [exact C2|]. lia.
Qed.

(* the recording sponge: what is absorbed is, concatenated, exactly the padded input *)
Theorem recording_spec input : exists cs,
  recording_pad_and_absorb_all [] input = Some cs /\ concat cs = input ++ bfe_one :: repeat bfe_zero (pad_zeros (length input)) /\
  Forall (fun c => length c = 10%nat) cs.
Proof.
  destruct (pad_and_absorb_all_spec (fun (s : list (list Z)) c => s ++ [c]) [] input) as [E [C1 [C2 _]]].
  cbv zeta in *. exists (chunks 10 (pad input)). unfold recording_pad_and_absorb_all. rewrite E.
  assert (F : forall cs s, fold_left (fun (s : list (list Z)) c => s ++ [c]) cs s = s ++ cs).
  { induction cs as [|c cs IH]; intros s; cbn [fold_left]; [rewrite app_nil_r; reflexivity|].
    rewrite IH, <- app_assoc. reflexivity. }
  rewrite F. cbn [app]. split; [reflexivity|]. split; [|exact C1].
  rewrite C2. apply pad_shape.
Qed.

(* ================================================================ absorb, squeeze, hash_varlen *)
Opaque permutation spec_permutation.
Theorem absorb_refines st chunk : Forall canon st -> Forall canon chunk ->
  Forall canon (absorb st chunk) /\ map val (absorb st chunk) = spec_absorb (map val st) (map val chunk) /\
  length (absorb st chunk) = 16%nat.
Proof.
  intros Hst Hc. unfold absorb, spec_absorb. rewrite nrate_is.
  assert (H : Forall canon (chunk ++ skipn 10 st)).
  { apply Forall_app. split; [exact Hc|]. apply (Forall_firstn_skipn canon 10 st Hst). }
  destruct (permutation_refines _ H) as [P1 [P2 P3]]. split; [exact P1|]. split; [|exact P3].
  rewrite P2, map_app, skipn_map. reflexivity.
Qed.

Theorem squeeze_refines st : Forall canon st ->
  let '(out, st') := squeeze st in
  Forall canon out /\ Forall canon st' /\ length st' = 16%nat /\
  (map val out, map val st') = spec_squeeze (map val st).
Proof.
  intros Hst. unfold squeeze, spec_squeeze. rewrite nrate_is.
  destruct (permutation_refines _ Hst) as [P1 [P2 P3]].
  split; [apply firstn_canon; exact Hst|]. split; [exact P1|]. split; [exact P3|].
  rewrite P2, firstn_map. reflexivity.
Qed.

Lemma firstn_skipn_app {A} (l1 l2 : list A) n : length l1 = n -> firstn n (l1 ++ l2) = l1 /\ skipn n (l1 ++ l2) = l2.
Proof.
  intros <-. split.
  - rewrite <- (Nat.add_0_r (length l1)), firstn_app_2. cbn. apply app_nil_r.
  - induction l1 as [|x l1 IH]; [reflexivity|]. cbn [length app skipn]. exact IH.
Qed.

Lemma Forall_concat_inv {A} (Q : A -> Prop) cs : Forall Q (concat cs) -> Forall (Forall Q) cs.
Proof.
  induction cs as [|c cs IH]; intros H; [constructor|]. cbn [concat] in H. apply Forall_app in H.
  destruct H as [H1 H2]. constructor; [exact H1|]. apply IH. exact H2.
Qed.

Lemma absorb_all_refines cs : forall st fuel, Forall (fun c => length c = 10%nat) cs -> Forall (Forall canon) cs ->
  Forall canon st -> (length cs <= fuel)%nat ->
  Forall canon (fold_left absorb cs st) /\
  map val (fold_left absorb cs st) = spec_absorb_all fuel (map val st) (map val (concat cs)).
Proof.
  induction cs as [|c cs IH]; intros st fuel HL HC Hst Hf.
  - cbn [fold_left concat map]. split; [exact Hst|]. destruct fuel; reflexivity.
  - destruct fuel as [|f]; [cbn [length] in Hf; lia|].
    inversion HL as [|? ? Lc HL']; subst. inversion HC as [|? ? Cc HC']; subst.
    destruct (absorb_refines st c Hst Cc) as [A1 [A2 _]].
    destruct (IH (absorb st c) f HL' HC' A1 ltac:(cbn [length] in Hf; lia)) as [I1 I2].
    cbn [fold_left]. split; [exact I1|]. rewrite I2, A2. cbn [concat]. rewrite map_app.
    assert (Lm : length (map val c) = 10%nat) by (rewrite map_length; exact Lc).
    destruct (firstn_skipn_app (map val c) (map val (concat cs)) 10 Lm) as [F1 F2].
    cbn [spec_absorb_all]. rewrite F1, F2.
    destruct c as [|x c]; [cbn in Lc; lia|]. reflexivity.
Qed.

Lemma hash_varlen_unfold input :
  hash_varlen input = Some (firstn 5 (fold_left absorb (chunks 10 (pad input)) tip5_init)).
Proof.
  unfold hash_varlen, tip5_pad_and_absorb_all.
  destruct (pad_and_absorb_all_spec absorb tip5_init input) as [E _]. cbv zeta in E. rewrite E.
  unfold squeeze. cbn [fst]. rewrite nrate_is. change ndigest with 5%nat. rewrite firstn_firstn. reflexivity.
Qed.

Lemma init_canon : Forall canon tip5_init /\ map val tip5_init = repeat 0 16.
Proof.
  split; [|vm_compute; reflexivity].
  apply Forall_forall. intros x Hx. apply repeat_spec in Hx. subst x. vm_compute. split; congruence.
Qed.

Lemma pad_canon input : Forall canon input -> Forall canon (pad input).
Proof.
  intros Hin. destruct (pad_shape input) as [Ep _]. cbv zeta in Ep. rewrite Ep. apply Forall_app. split; [exact Hin|].
  constructor; [vm_compute; split; congruence|]. apply Forall_forall. intros x Hx. apply repeat_spec in Hx.
  subst x. vm_compute. split; congruence.
Qed.

Lemma fold_absorb_length cs : forall st, cs <> [] -> Forall (Forall canon) cs -> Forall canon st ->
  length (fold_left absorb cs st) = 16%nat.
Proof.
  induction cs as [|c cs IH]; intros st Hne Hc Hst; [congruence|].
  inversion Hc as [|? ? Hc1 Hc2]; subst. cbn [fold_left].
  destruct (absorb_refines st c Hst Hc1) as [A1 [_ A3]].
  destruct cs as [|c' cs']; [exact A3|]. apply IH; [discriminate|exact Hc2|exact A1].
Qed.

(* hash_varlen: never panics; zero initial state, absorbs the padded input block by block, outputs the first five
   elements of one squeeze - exactly the specification's variable-length hash, and canonical *)
Theorem hash_varlen_spec input : Forall canon input ->
  exists d, hash_varlen input = Some d /\ Forall canon d /\ map val d = spec_hash_varlen (map val input) /\
            length d = 5%nat.
Proof.
  intros Hin. rewrite hash_varlen_unfold.
  destruct (pad_and_absorb_all_spec absorb tip5_init input) as [_ [C1 [C2 C3]]]. cbv zeta in *.
  set (cs := chunks 10 (pad input)) in *.
  pose proof (pad_canon input Hin) as Hpad.
  assert (Hcs : Forall (Forall canon) cs) by (apply Forall_concat_inv; rewrite C2; exact Hpad).
  destruct init_canon as [Hinit Vinit].
  destruct (absorb_all_refines cs tip5_init (length (spec_pad (map val input))) C1 Hcs Hinit) as [A1 A2].
  { rewrite <- pad_values, map_length. lia. }
  exists (firstn 5 (fold_left absorb cs tip5_init)). split; [reflexivity|].
  split; [apply firstn_canon; exact A1|]. split.
  - rewrite <- firstn_map, A2, C2, pad_values, Vinit. reflexivity.
  - rewrite firstn_length, fold_absorb_length; [reflexivity| |exact Hcs|exact Hinit].
    destruct (pad_length input) as [k [Hk Hk1]]. intros Ecs. rewrite Ecs in C3. cbn [length] in C3. lia.
Qed.

(* ================================================================ index sampling (model level) *)
Definition acc_w (e : Z) : bool := negb (e =? max_elem).
Definition idx_of (ub e : Z) : Z := (ucast 32 (bfe_value e)) mod ub.

Lemma squeeze_n_S k st :
  fst (squeeze_n (S k) st) = firstn 10 st ++ fst (squeeze_n k (permutation st)) /\
  snd (squeeze_n (S k) st) = snd (squeeze_n k (permutation st)).
Proof.
  cbn [squeeze_n]. unfold squeeze. rewrite nrate_is. destruct (squeeze_n k (permutation st)) as [r st2].
  split; reflexivity.
Qed.

(* what the loop guarantees when it returns: k squeezes were made; the indices are, in order, the images of the
   first `rem` accepted elements of  buf ++ (the k squeezed blocks); k is the least number of squeezes that
   supplies them; the sponge is left in the state after those k squeezes *)
Definition go_post (st buf : list Z) (ub : Z) (rem : nat) (acc idx st' : list Z) : Prop :=
  exists k, st' = snd (squeeze_n k st) /\
    idx = rev acc ++ firstn rem (map (idx_of ub) (filter acc_w (buf ++ fst (squeeze_n k st)))) /\
    (rem <= length (filter acc_w (buf ++ fst (squeeze_n k st))))%nat /\
    (forall k', (k' < k)%nat -> (length (filter acc_w (buf ++ fst (squeeze_n k' st))) < rem)%nat).

Definition go_ok (fuel : nat) : Prop := forall st buf ub rem acc idx st',
  sample_indices_go fuel st buf ub rem acc = Ok (idx, st') -> go_post st buf ub rem acc idx st'.

Lemma go_step_nonempty f : go_ok f -> forall st e buf' ub r acc idx st',
  sample_indices_go (S f) st (e :: buf') ub (S r) acc = Ok (idx, st') ->
  go_post st (e :: buf') ub (S r) acc idx st'.
Proof.
  intros IH st e buf' ub r acc idx st' H. cbn [sample_indices_go] in H.
  destruct (e =? max_elem) eqn:Erej.
  - destruct (IH _ _ _ _ _ _ _ H) as [k [K1 [K2 [K3 K4]]]]. exists k.
    assert (F : forall X, filter acc_w ((e :: buf') ++ X) = filter acc_w (buf' ++ X)).
    { intros X. cbn [app filter]. unfold acc_w at 1. rewrite Erej. reflexivity. }
    rewrite F. split; [exact K1|]. split; [exact K2|]. split; [exact K3|].
    intros k' Hk'. rewrite F. apply K4. exact Hk'.
  - destruct (ub =? 0); [discriminate|].
    destruct (IH _ _ _ _ _ _ _ H) as [k [K1 [K2 [K3 K4]]]]. exists k.
    assert (F : forall X, filter acc_w ((e :: buf') ++ X) = e :: filter acc_w (buf' ++ X)).
    { intros X. cbn [app filter]. unfold acc_w at 1. rewrite Erej. reflexivity. }
    rewrite F. split; [exact K1|]. split; [|split].
    + rewrite K2. cbn [rev map firstn]. rewrite <- app_assoc. reflexivity.
    + cbn [length]. lia.
    + intros k' Hk'. rewrite F. cbn [length]. specialize (K4 k' Hk'). lia.
Qed.

Theorem sample_indices_go_ok fuel : go_ok fuel.
Proof.
  induction fuel as [|f IH]; intros st buf ub rem acc idx st' H.
  - destruct rem; [|discriminate]. cbn in H. inversion H; subst. exists 0%nat. cbn [squeeze_n fst snd].
    split; [reflexivity|]. split; [cbn [firstn]; rewrite app_nil_r; reflexivity|]. split; [lia|]. intros; lia.
  - destruct rem as [|r].
    + cbn in H. inversion H; subst. exists 0%nat. cbn [squeeze_n fst snd].
      split; [reflexivity|]. split; [cbn [firstn]; rewrite app_nil_r; reflexivity|]. split; [lia|]. intros; lia.
    + destruct buf as [|e buf'].
      * (* refill: one squeeze, then as with a non-empty buffer on the permuted state *)
        destruct (firstn 10 st) as [|e buf'] eqn:Ebuf.
        { cbn [sample_indices_go] in H. unfold squeeze in H. rewrite nrate_is, Ebuf in H. discriminate. }
        assert (H' : sample_indices_go (S f) (permutation st) (e :: buf') ub (S r) acc = Ok (idx, st')).
        { cbn [sample_indices_go] in H |- *. unfold squeeze in H. rewrite nrate_is, Ebuf in H. exact H. }
        destruct (go_step_nonempty f IH _ _ _ _ _ _ _ _ H') as [k [K1 [K2 [K3 K4]]]].
        exists (S k). destruct (squeeze_n_S k st) as [S1 S2]. rewrite S1, S2, Ebuf. cbn [app].
        split; [exact K1|]. split; [exact K2|]. split; [exact K3|].
        intros k' Hk'. destruct k' as [|k''].
        -- cbn [squeeze_n fst filter length]. lia.
        -- destruct (squeeze_n_S k'' st) as [S1' _]. rewrite S1', Ebuf. apply K4. lia.
      * apply (go_step_nonempty f IH). exact H.
Qed.

Theorem sample_indices_model dbg fuel st ub n idx st' :
  sample_indices dbg fuel st ub n = Ok (idx, st') ->
  exists k, st' = snd (squeeze_n k st) /\
    idx = firstn n (map (idx_of ub) (filter acc_w (fst (squeeze_n k st)))) /\ length idx = n /\
    (forall k', (k' < k)%nat -> (length (filter acc_w (fst (squeeze_n k' st))) < n)%nat).
Proof.
  unfold sample_indices. destruct (dbg && negb (is_pow2 ub)); [discriminate|]. intros H.
  destruct (sample_indices_go_ok fuel _ _ _ _ _ _ _ H) as [k [K1 [K2 [K3 K4]]]]. cbn [app rev] in *.
  exists k. split; [exact K1|]. split; [exact K2|]. split; [|exact K4].
  rewrite K2, firstn_length, map_length. lia.
Qed.

(* ================================================================ the squeezed stream, on values *)
Lemma squeeze_n_refines k : forall st, Forall canon st ->
  Forall canon (fst (squeeze_n k st)) /\ Forall canon (snd (squeeze_n k st)) /\
  (map val (fst (squeeze_n k st)), map val (snd (squeeze_n k st))) = spec_stream k (map val st).
Proof.
  induction k as [|k IH]; intros st Hst.
  - cbn [squeeze_n spec_stream fst snd map]. auto.
  - destruct (squeeze_n_S k st) as [S1 S2]. rewrite S1, S2.
    destruct (permutation_refines st Hst) as [P1 [P2 _]].
    destruct (IH (permutation st) P1) as [I1 [I2 I3]].
    split; [apply Forall_app; split; [apply firstn_canon; exact Hst|exact I1]|]. split; [exact I2|].
    cbn [spec_stream]. unfold spec_squeeze. rewrite <- P2, <- I3, map_app, firstn_map. reflexivity.
Qed.

Lemma squeeze_n_length k : forall st, Forall canon st -> length st = 16%nat ->
  length (fst (squeeze_n k st)) = (10 * k)%nat /\ length (snd (squeeze_n k st)) = 16%nat.
Proof.
  induction k as [|k IH]; intros st Hst L.
  - cbn [squeeze_n fst snd length]. lia.
  - destruct (squeeze_n_S k st) as [S1 S2]. rewrite S1, S2.
    destruct (permutation_refines st Hst) as [P1 [_ P3]].
    destruct (IH (permutation st) P1 P3) as [I1 I2]. split; [|exact I2].
    rewrite app_length, I1, firstn_length. lia.
Qed.

Lemma max_elem_facts : canon max_elem /\ val max_elem = spec_p - 1.
Proof. vm_compute. repeat split; congruence. Qed.

Lemma acc_w_val e : canon e -> acc_w e = negb (val e =? spec_p - 1).
Proof.
  intros He. unfold acc_w. f_equal. destruct max_elem_facts as [Cm Vm].
  destruct (Z.eqb_spec e max_elem) as [E|E]; destruct (Z.eqb_spec (val e) (spec_p - 1)) as [V|V]; try reflexivity.
  - exfalso. apply V. rewrite E. exact Vm.
  - exfalso. apply E. apply repr_unique; [exact He|exact Cm|]. rewrite V, Vm. reflexivity.
Qed.

Lemma idx_of_val ub e : canon e -> idx_of ub e = low32_mod ub (val e).
Proof.
  intros He. unfold idx_of, low32_mod, ucast, wrap.
  destruct (value_spec e (canon_word_ok e He)) as [E _]. rewrite E. reflexivity.
Qed.

Lemma accepted_map l : Forall canon l ->
  map val (filter acc_w l) = accepted (map val l) /\
  forall ub, map (idx_of ub) (filter acc_w l) = map (low32_mod ub) (accepted (map val l)).
Proof.
  induction 1 as [|e l He Hl [IH1 IH2]]; [split; reflexivity|].
  unfold accepted in *. cbn [filter map]. rewrite (acc_w_val e He).
  destruct (negb (val e =? spec_p - 1)); cbn [map].
  - split; [rewrite IH1; reflexivity|]. intros ub. rewrite IH2, (idx_of_val ub e He). reflexivity.
  - split; [exact IH1|exact IH2].
Qed.

(* sample_indices: if it returns, it returns - in order - the low 32 bits modulo the bound of the squeezed elements
   other than p-1, exactly n of them, and leaves the sponge after k squeezes where k is the FEWEST number of
   squeezes whose stream contains n accepted elements *)
Theorem sample_indices_spec dbg fuel st ub n idx st' : Forall canon st ->
  sample_indices dbg fuel st ub n = Ok (idx, st') ->
  exists k, (idx, map val st') = spec_sample_indices k (map val st) ub n /\
            Forall canon st' /\ length idx = n /\
            enough_squeezes k (map val st) n = true /\
            (forall k', (k' < k)%nat -> enough_squeezes k' (map val st) n = false).
Proof.
  intros Hst H. destruct (sample_indices_model _ _ _ _ _ _ _ H) as [k [K1 [K2 [K3 K4]]]].
  exists k. destruct (squeeze_n_refines k st Hst) as [R1 [R2 R3]].
  destruct (accepted_map _ R1) as [A1 A2].
  unfold spec_sample_indices, enough_squeezes. rewrite <- R3. cbn [fst].
  split; [rewrite K1, K2, A2; reflexivity|]. split; [rewrite K1; exact R2|]. split; [exact K3|]. split.
  - apply Nat.leb_le. rewrite <- A1, map_length.
    rewrite K2, firstn_length, map_length in K3. lia.
  - intros k' Hk'. apply Nat.leb_gt. destruct (squeeze_n_refines k' st Hst) as [R1' [_ R3']].
    destruct (accepted_map _ R1') as [A1' _]. rewrite <- R3'. cbn [fst]. rewrite <- A1', map_length.
    apply K4. exact Hk'.
Qed.

(* ================================================================ scalar sampling *)
Lemma triples_chunks n : forall l fuel, (3 * n <= length l)%nat -> (length l <= fuel)%nat ->
  triples (firstn n (chunks_go fuel 3 l)) = Some (firstn n (groups3 l)).
Proof.
  induction n as [|n IH]; intros l fuel Hl Hf; [reflexivity|].
  destruct l as [|a [|b [|c r]]]; cbn [length] in Hl; try lia.
  destruct fuel as [|f]; [cbn [length] in Hf; lia|].
  cbn [chunks_go firstn skipn groups3 triples]. rewrite (IH r f); [reflexivity| |]; cbn [length] in Hf; lia.
Qed.

Lemma groups3_map (f : Z -> Z) l : map (map f) (groups3 l) = groups3 (map f l).
Proof.
  assert (H : forall n l, (length l <= n)%nat -> map (map f) (groups3 l) = groups3 (map f l)).
  { induction n as [|n IH]; intros l' Hl.
    - destruct l'; [reflexivity|cbn in Hl; lia].
    - destruct l' as [|a [|b [|c r]]]; try reflexivity. cbn [groups3 map]. rewrite IH; [reflexivity|].
      cbn [length] in Hl. lia. }
  apply (H (length l)). lia.
Qed.

Theorem sample_scalars_spec st n : Forall canon st -> length st = 16%nat ->
  exists xs st', sample_scalars st n = Ok (xs, st') /\
    (map (map val) xs, map val st') = spec_sample_scalars (map val st) n /\
    Forall canon st' /\ length xs = n /\
    st' = snd (squeeze_n ((3 * n + 9) / 10) st).
Proof.
  intros Hst L. unfold sample_scalars, spec_sample_scalars.
  assert (Ek : div_ceil (n * Z.to_nat EXTENSION_DEGREE) nrate = ((3 * n + 9) / 10)%nat).
  { unfold div_ceil. rewrite nrate_is. change (Z.to_nat EXTENSION_DEGREE) with 3%nat. f_equal. lia. }
  rewrite Ek. set (k := ((3 * n + 9) / 10)%nat).
  assert (Hk : (3 * n <= 10 * k)%nat).
  { pose proof (Nat.div_mod (3 * n + 9) 10 ltac:(lia)) as D.
    pose proof (Nat.mod_upper_bound (3 * n + 9) 10 ltac:(lia)) as B. fold k in D. lia. }
  destruct (squeeze_n_refines k st Hst) as [R1 [R2 R3]].
  destruct (squeeze_n_length k st Hst L) as [L1 _].
  destruct (squeeze_n k st) as [elems st'] eqn:Esq. cbn [fst snd] in *.
  unfold chunks. rewrite (triples_chunks n elems (length elems)) by lia.
  exists (firstn n (groups3 elems)), st'. split; [reflexivity|]. rewrite <- R3.
  split; [rewrite <- firstn_map, groups3_map; reflexivity|]. split; [exact R2|]. split; [|reflexivity].
  rewrite firstn_length.
  assert (G : forall m l, (3 * m <= length l)%nat -> (m <= length (groups3 l))%nat).
  { induction m as [|m IH]; intros l Hl; [lia|]. destruct l as [|a [|b [|c r]]]; cbn [length] in Hl; try lia.
    cbn [groups3 length]. specialize (IH r). lia. }
  specialize (G n elems). lia.
Qed.

(* ================================================================ index sampling terminates when the stream supplies enough elements *)
Definition good_state (st : list Z) : Prop := Forall canon st /\ length st = 16%nat.

Definition go_total (fuel : nat) : Prop := forall st buf ub rem acc k,
  good_state st -> ub <> 0 ->
  (rem <= length (filter acc_w (buf ++ fst (squeeze_n k st))))%nat ->
  (length buf + 10 * k <= fuel)%nat ->
  exists idx st', sample_indices_go fuel st buf ub rem acc = Ok (idx, st').

Lemma go_total_nonempty f : go_total f -> forall st e buf' ub r acc k,
  good_state st -> ub <> 0 ->
  (S r <= length (filter acc_w ((e :: buf') ++ fst (squeeze_n k st))))%nat ->
  (length (e :: buf') + 10 * k <= S f)%nat ->
  exists idx st', sample_indices_go (S f) st (e :: buf') ub (S r) acc = Ok (idx, st').
Proof.
  intros IH st e buf' ub r acc k G Hub Hlen Hf. cbn [sample_indices_go].
  cbn [app filter] in Hlen. unfold acc_w at 1 in Hlen. cbn [length] in Hf.
  destruct (e =? max_elem) eqn:Erej; cbn [negb] in Hlen.
  - apply (IH st buf' ub (S r) acc k G Hub Hlen). lia.
  - destruct (Z.eqb_spec ub 0) as [E|_]; [contradiction|].
    cbn [length] in Hlen. apply (IH st buf' ub r _ k G Hub); lia.
Qed.

Theorem sample_indices_go_total fuel : go_total fuel.
Proof.
  induction fuel as [|f IH]; intros st buf ub rem acc k G Hub Hlen Hf.
  - destruct rem as [|r]; [cbn; eauto|]. exfalso.
    assert (length buf = 0%nat /\ k = 0%nat) as [Hb Hk] by lia. destruct buf; [|discriminate]. subst k.
    cbn in Hlen. lia.
  - destruct rem as [|r]; [cbn; eauto|]. destruct buf as [|e buf'].
    + destruct k as [|k]; [cbn in Hlen; lia|].
      destruct G as [Gc Gl]. destruct (squeeze_n_S k st) as [S1 _]. rewrite S1 in Hlen. cbn [app] in Hlen.
      destruct (firstn 10 st) as [|e buf'] eqn:Ebuf.
      { apply (f_equal (@length Z)) in Ebuf. rewrite firstn_length, Gl in Ebuf. cbn in Ebuf. lia. }
      assert (Lb : length (e :: buf') = 10%nat) by (rewrite <- Ebuf, firstn_length, Gl; reflexivity).
      destruct (permutation_refines st Gc) as [P1 [_ P3]].
      destruct (go_total_nonempty f IH (permutation st) e buf' ub r acc k (conj P1 P3) Hub Hlen) as [idx [st' H]].
      { rewrite Lb. cbn [length] in Hf. lia. }
      exists idx, st'. cbn [sample_indices_go] in H |- *. unfold squeeze. rewrite nrate_is, Ebuf. exact H.
    + apply (go_total_nonempty f IH st e buf' ub r acc k G Hub Hlen Hf).
Qed.

(* if k squeezes supply n accepted elements and the fuel covers the 10k elements, sample_indices returns *)
Theorem sample_indices_total dbg fuel st ub n k : Forall canon st -> length st = 16%nat -> ub <> 0 ->
  dbg && negb (is_pow2 ub) = false ->
  enough_squeezes k (map val st) n = true -> (10 * k <= fuel)%nat ->
  exists idx st', sample_indices dbg fuel st ub n = Ok (idx, st').
Proof.
  intros Hst L Hub Hdbg Hen Hf. unfold sample_indices. rewrite Hdbg.
  apply (sample_indices_go_total fuel st [] ub n [] k (conj Hst L) Hub); [|cbn [length]; lia].
  cbn [app]. unfold enough_squeezes in Hen. apply Nat.leb_le in Hen.
  destruct (squeeze_n_refines k st Hst) as [R1 [_ R3]]. destruct (accepted_map _ R1) as [A1 _].
  rewrite <- R3 in Hen. cbn [fst] in Hen. rewrite <- A1, map_length in Hen. exact Hen.
Qed.

(* ceil(3n/10) is the fewest number of squeezes that supplies the 3n elements of n scalars *)
Lemma scalar_squeezes_minimal n :
  (3 * n <= 10 * ((3 * n + 9) / 10))%nat /\ forall k', (k' < (3 * n + 9) / 10)%nat -> (10 * k' < 3 * n)%nat.
Proof.
  pose proof (Nat.div_mod (3 * n + 9) 10 ltac:(lia)) as D.
  pose proof (Nat.mod_upper_bound (3 * n + 9) 10 ltac:(lia)) as B.
  revert D B. generalize ((3 * n + 9) / 10)%nat ((3 * n + 9) mod 10)%nat. intros q r D B. split; [lia|]. intros k' Hk'. lia.
Qed.
