(* Tip5Proofs.v - theorems about the REGENERATED Tip5 definitions (gen/Tip5Gen.v, gen/BFieldGen.v) and the
   hand-written model (model/Tip5.v) against the value-level specification (spec/Tip5Spec.v). *)
From Coq Require Import ZArith Bool Lia List FMapPositive.
From TF Require Import Word BFieldGen BFieldProofs Tip5Ssa Tip5Gen Tip5 Tip5Spec.
Import ListNotations.
Open Scope Z_scope.
Ltac Zify.zify_post_hook ::= Z.div_mod_to_equations.

(* ================================================================ A. tables and constants *)
Definition bytes256 : list Z := map Z.of_nat (seq 0 256).
Lemma bytes256_all i : 0 <= i < 256 -> In i bytes256.
Proof.
  intros H. unfold bytes256. rewrite <- (Z2Nat.id i) by lia. apply in_map. apply in_seq. lia.
Qed.
Lemma byte_forall (f : Z -> bool) : forallb f bytes256 = true -> forall i, 0 <= i < 256 -> f i = true.
Proof. intros H i Hi. rewrite forallb_forall in H. apply H. apply bytes256_all. exact Hi. Qed.

(* the table of the source is the offset Fermat cube map of the specification, entry by entry *)
Theorem lookup_table_is_formula : forall i, 0 <= i < 256 -> lookup i = fermat_cube i.
Proof.
  intros i Hi. apply Z.eqb_eq.
  exact (byte_forall (fun i => lookup i =? fermat_cube i) ltac:(vm_compute; reflexivity) i Hi).
Qed.
Lemma lookup_table_length : length LOOKUP_TABLE = 256%nat.
Proof. vm_compute. reflexivity. Qed.

(* the translated const fn offset_fermat_cube_map is the same map and never overflows on a byte *)
Theorem offset_fermat_cube_map_is_formula : forall i, 0 <= i < 256 ->
  offset_fermat_cube_map i = fermat_cube i /\ offset_fermat_cube_map_ok i = true.
Proof.
  intros i Hi.
  pose proof (byte_forall (fun i => (offset_fermat_cube_map i =? fermat_cube i) && offset_fermat_cube_map_ok i)
                ltac:(vm_compute; reflexivity) i Hi) as H.
  apply andb_true_iff in H. destruct H as [H1 H2]. apply Z.eqb_eq in H1. split; assumption.
Qed.

(* 0x00 and 0xff are fixed points, nothing else maps to them, and the table stays within a byte *)
Lemma lookup_facts : forall b, 0 <= b < 256 ->
  0 <= lookup b < 256 /\ (lookup b = 255 -> b = 255) /\ (lookup b = 0 -> b = 0) /\ (b = 0 -> lookup b = 0) /\ (b = 255 -> lookup b = 255).
Proof.
  intros b Hb.
  pose proof (byte_forall (fun b => (0 <=? lookup b) && (lookup b <? 256) && (negb (lookup b =? 255) || (b =? 255))
                                     && (negb (lookup b =? 0) || (b =? 0)) && (negb (b =? 0) || (lookup b =? 0))
                                     && (negb (b =? 255) || (lookup b =? 255)))
                ltac:(vm_compute; reflexivity) b Hb) as H.
  cbv beta in H. generalize dependent (lookup b). intros t H. lia.
Qed.

(* regenerated tables and constants of the source = golden literals of the specification *)
Theorem consts_match :
  ROUND_CONSTANTS = map mont SPEC_RC /\ map bfe_value ROUND_CONSTANTS = SPEC_RC /\
  MDS_MATRIX_FIRST_COLUMN = SPEC_COL /\ P = spec_p /\ Rinv = Rmont_inv /\
  STATE_SIZE = 16 /\ RATE = 10 /\ CAPACITY = 6 /\ NUM_ROUNDS = 5 /\ NUM_SPLIT_AND_LOOKUP = 4 /\ DIGEST_LEN = 5 /\
  SPONGE_RATE = 10 /\ EXTENSION_DEGREE = 3 /\ length ROUND_CONSTANTS = 80%nat.
Proof. vm_compute. repeat split; reflexivity. Qed.

(* every Montgomery-form round constant is canonical and at least 2^32 below p *)
Theorem rc_margin : Forall (fun c => 0 <= c <= P - 2 ^ 32) ROUND_CONSTANTS.
Proof.
  apply Forall_forall. intros c Hc.
  assert (H : forallb (fun c => (0 <=? c) && (c <=? P - 2 ^ 32)) ROUND_CONSTANTS = true) by (vm_compute; reflexivity).
  rewrite forallb_forall in H. specialize (H c Hc). lia.
Qed.

(* ================================================================ B. the SSA language: wrapping evaluation is linear *)
Lemma M64_pos : 0 < M64. Proof. reflexivity. Qed.
Lemma M64_is : M64 = 2 ^ 64. Proof. reflexivity. Qed.

Lemma dot_nil_r r : dot r [] = 0.
Proof. destruct r; reflexivity. Qed.

Lemma dot_radd a b x : (dot (radd a b) x) mod M64 = (dot a x + dot b x) mod M64.
Proof.
  revert b x. induction a as [|u a IH]; intros b x.
  - reflexivity.
  - destruct b as [|v b].
    + cbn [radd]. destruct x; cbn [dot]; f_equal; lia.
    + destruct x as [|c x]; [reflexivity|]. cbn [radd dot].
      rewrite Z.add_mod by (unfold M64; lia). rewrite IH.
      rewrite Z.mul_mod_idemp_l by (unfold M64; lia).
      rewrite <- Z.add_mod by (unfold M64; lia). f_equal. ring.
Qed.

Lemma dot_rscale c a x : (dot (rscale c a) x) mod M64 = (c * dot a x) mod M64.
Proof.
  revert x. induction a as [|u a IH]; intros x.
  - cbn [rscale map dot]. now rewrite Z.mul_0_r.
  - destruct x as [|b x]; [cbn [rscale map dot]; now rewrite Z.mul_0_r|]. cbn [rscale map dot].
    rewrite Z.add_mod by (unfold M64; lia). fold (rscale c a). rewrite IH.
    rewrite Z.mul_mod_idemp_l by (unfold M64; lia).
    rewrite <- Z.add_mod by (unfold M64; lia). f_equal. ring.
Qed.

Lemma dot_rsub a b x : (dot (rsub a b) x) mod M64 = (dot a x - dot b x) mod M64.
Proof.
  unfold rsub. rewrite dot_radd. rewrite Z.add_mod by (unfold M64; lia). rewrite dot_rscale.
  rewrite <- Z.add_mod by (unfold M64; lia). f_equal; ring.
Qed.

Lemma dot_runit k x : dot (runit k) x = nth k x 0.
Proof.
  revert x. induction k as [|k IH]; intros x.
  - destruct x as [|b x]; [reflexivity|]. cbn [runit repeat app dot nth]. lia.
  - destruct x as [|b x]; [reflexivity|]. cbn [runit repeat app dot nth]. fold (runit k). rewrite IH. lia.
Qed.

Definition inputs_ok (x : list Z) : Prop := Forall (fun v => 0 <= v < M64) x.
Lemma nth_inputs_ok x k : inputs_ok x -> 0 <= nth k x 0 < M64.
Proof.
  intros H. destruct (nth_in_or_default k x 0) as [Hin | ->]; [|unfold M64; lia].
  unfold inputs_ok in H. rewrite Forall_forall in H. apply H. exact Hin.
Qed.

(* the invariant: every node's wrapped value is its coefficient row applied to the inputs, modulo 2^64 *)
Definition linked (x : list Z) (m : env) (lm : lenv) : Prop :=
  forall i, get m i = (dot (getrow lm i) x) mod M64.

Lemma eval_op_linear x m lm o : inputs_ok x -> linked x m lm ->
  eval_op x m o = (dot (lin_op lm o) x) mod M64.
Proof.
  intros Hx L. destruct o as [k | i j | i j | c i]; cbn [eval_op lin_op].
  - rewrite dot_runit. symmetry. apply Z.mod_small. apply nth_inputs_ok. exact Hx.
  - unfold wadd, wrap. change (2 ^ 64) with M64. rewrite dot_radd, (L i), (L j).
    rewrite <- Z.add_mod by (unfold M64; lia). reflexivity.
  - unfold wsub, wrap. change (2 ^ 64) with M64. rewrite dot_rsub, (L i), (L j).
    rewrite <- Zminus_mod. reflexivity.
  - unfold wmul, wrap. change (2 ^ 64) with M64. rewrite dot_rscale, (L i).
    rewrite Z.mul_mod_idemp_l by (unfold M64; lia). f_equal. ring.
Qed.

Lemma linked_add x m lm id v row : linked x m lm -> v = (dot row x) mod M64 ->
  linked x (PositiveMap.add id v m) (PositiveMap.add id row lm).
Proof.
  intros L Hv i. unfold get, getrow. destruct (Pos.eq_dec i id) as [->|Hne].
  - rewrite !PositiveMap.gss. exact Hv.
  - rewrite !PositiveMap.gso by exact Hne. apply L.
Qed.

Theorem ssa_linear_gen prog x : inputs_ok x -> forall m lm, linked x m lm ->
  linked x (eval_prog prog x m) (lin_prog prog lm).
Proof.
  intros Hx. induction prog as [|[id o] prog IH]; intros m lm L.
  - exact L.
  - cbn [eval_prog lin_prog]. apply IH. apply linked_add; [exact L|]. apply eval_op_linear; assumption.
Qed.

Lemma linked_empty x : linked x (PositiveMap.empty Z) (PositiveMap.empty (list Z)).
Proof. intros i. unfold get, getrow. rewrite !PositiveMap.gempty. reflexivity. Qed.

(* for ANY program of the language: the wrapping u64 evaluation of every output is
   (row of the coefficient matrix) . (input) mod 2^64 *)
Theorem ssa_linear prog outs x : inputs_ok x ->
  eval_ssa prog outs x = map (fun row => (dot row x) mod M64) (ssa_matrix prog outs).
Proof.
  intros Hx. unfold eval_ssa, ssa_matrix. rewrite map_map. apply map_ext. intros o.
  apply (ssa_linear_gen prog x Hx _ _ (linked_empty x)).
Qed.
