(* Tip5Proofs.v - theorems about the REGENERATED Tip5 definitions (gen/Tip5Gen.v, gen/BFieldGen.v) and the
   hand-written model (model/Tip5.v) against the value-level specification (spec/Tip5Spec.v). *)
From Coq Require Import ZArith Bool Lia List FMapPositive.
From TF Require Import Word BFieldGen BFieldProofs Tip5Ssa Tip5Gen Tip5 Tip5Spec.
Import ListNotations.
Open Scope Z_scope.
Ltac Zify.zify_post_hook ::= Z.div_mod_to_equations.

(* ================================================================ A. tables and constants *)
Definition bytes256 : list Z := map Z.of_nat (seq 0 256).
Lemma bytes256_all i : 0 <= i < 256 -> In i bytes256.
Proof.
  intros H. unfold bytes256. rewrite <- (Z2Nat.id i) by lia. apply in_map. apply in_seq. lia.
Qed.
Lemma byte_forall (f : Z -> bool) : forallb f bytes256 = true -> forall i, 0 <= i < 256 -> f i = true.
Proof. intros H i Hi. rewrite forallb_forall in H. apply H. apply bytes256_all. exact Hi. Qed.

(* the table of the source is the offset Fermat cube map of the specification, entry by entry *)
Theorem lookup_table_is_formula : forall i, 0 <= i < 256 -> lookup i = fermat_cube i.
Proof.
  intros i Hi. apply Z.eqb_eq.
  exact (byte_forall (fun i => lookup i =? fermat_cube i) ltac:(vm_compute; reflexivity) i Hi).
Qed.
Lemma lookup_table_length : length LOOKUP_TABLE = 256%nat.
Proof. vm_compute. reflexivity. Qed.

(* the translated const fn offset_fermat_cube_map is the same map and never overflows on a byte *)
Theorem offset_fermat_cube_map_is_formula : forall i, 0 <= i < 256 ->
  offset_fermat_cube_map i = fermat_cube i /\ offset_fermat_cube_map_ok i = true.
Proof.
  intros i Hi.
  pose proof (byte_forall (fun i => (offset_fermat_cube_map i =? fermat_cube i) && offset_fermat_cube_map_ok i)
                ltac:(vm_compute; reflexivity) i Hi) as H.
  apply andb_true_iff in H. destruct H as [H1 H2]. apply Z.eqb_eq in H1. split; assumption.
Qed.

(* 0x00 and 0xff are fixed points, nothing else maps to them, and the table stays within a byte *)
Lemma lookup_facts : forall b, 0 <= b < 256 ->
  0 <= lookup b < 256 /\ (lookup b = 255 -> b = 255) /\ (lookup b = 0 -> b = 0) /\ (b = 0 -> lookup b = 0) /\ (b = 255 -> lookup b = 255).
Proof.
  intros b Hb.
  pose proof (byte_forall (fun b => (0 <=? lookup b) && (lookup b <? 256) && (negb (lookup b =? 255) || (b =? 255))
                                     && (negb (lookup b =? 0) || (b =? 0)) && (negb (b =? 0) || (lookup b =? 0))
                                     && (negb (b =? 255) || (lookup b =? 255)))
                ltac:(vm_compute; reflexivity) b Hb) as H.
  cbv beta in H. generalize dependent (lookup b). intros t H. lia.
Qed.

(* regenerated tables and constants of the source = golden literals of the specification *)
Theorem consts_match :
  ROUND_CONSTANTS = map mont SPEC_RC /\ map bfe_value ROUND_CONSTANTS = SPEC_RC /\
  MDS_MATRIX_FIRST_COLUMN = SPEC_COL /\ P = spec_p /\ Rinv = Rmont_inv /\
  STATE_SIZE = 16 /\ RATE = 10 /\ CAPACITY = 6 /\ NUM_ROUNDS = 5 /\ NUM_SPLIT_AND_LOOKUP = 4 /\ DIGEST_LEN = 5 /\
  SPONGE_RATE = 10 /\ EXTENSION_DEGREE = 3 /\ length ROUND_CONSTANTS = 80%nat.
Proof. vm_compute. repeat split; reflexivity. Qed.

(* every Montgomery-form round constant is canonical and at least 2^32 below p *)
Theorem rc_margin : Forall (fun c => 0 <= c <= P - 2 ^ 32) ROUND_CONSTANTS.
Proof.
  apply Forall_forall. intros c Hc.
  assert (H : forallb (fun c => (0 <=? c) && (c <=? P - 2 ^ 32)) ROUND_CONSTANTS = true) by (vm_compute; reflexivity).
  rewrite forallb_forall in H. specialize (H c Hc). lia.
Qed.

(* ================================================================ B. the SSA language: wrapping evaluation is linear *)
Lemma M64_pos : 0 < M64. Proof. reflexivity. Qed.
Lemma M64_is : M64 = 2 ^ 64. Proof. reflexivity. Qed.

Lemma dot_nil_r r : dot r [] = 0.
Proof. destruct r; reflexivity. Qed.

Lemma dot_radd a b x : (dot (radd a b) x) mod M64 = (dot a x + dot b x) mod M64.
Proof.
  revert b x. induction a as [|u a IH]; intros b x.
  - reflexivity.
  - destruct b as [|v b].
    + cbn [radd]. destruct x; cbn [dot]; f_equal; lia.
    + destruct x as [|c x]; [reflexivity|]. cbn [radd dot].
      rewrite Z.add_mod by (unfold M64; lia). rewrite IH.
      rewrite Z.mul_mod_idemp_l by (unfold M64; lia).
      rewrite <- Z.add_mod by (unfold M64; lia). f_equal. ring.
Qed.

Lemma dot_rscale c a x : (dot (rscale c a) x) mod M64 = (c * dot a x) mod M64.
Proof.
  revert x. induction a as [|u a IH]; intros x.
  - cbn [rscale map dot]. now rewrite Z.mul_0_r.
  - destruct x as [|b x]; [cbn [rscale map dot]; now rewrite Z.mul_0_r|]. cbn [rscale map dot].
    rewrite Z.add_mod by (unfold M64; lia). fold (rscale c a). rewrite IH.
    rewrite Z.mul_mod_idemp_l by (unfold M64; lia).
    rewrite <- Z.add_mod by (unfold M64; lia). f_equal. ring.
Qed.

Lemma dot_rsub a b x : (dot (rsub a b) x) mod M64 = (dot a x - dot b x) mod M64.
Proof.
  unfold rsub. rewrite dot_radd. rewrite Z.add_mod by (unfold M64; lia). rewrite dot_rscale.
  rewrite <- Z.add_mod by (unfold M64; lia). f_equal; ring.
Qed.

Lemma dot_runit k x : dot (runit k) x = nth k x 0.
Proof.
  revert x. induction k as [|k IH]; intros x.
  - destruct x as [|b x]; [reflexivity|]. cbn [runit repeat app dot nth]. lia.
  - destruct x as [|b x]; [reflexivity|]. cbn [runit repeat app dot nth]. fold (runit k). rewrite IH. lia.
Qed.

Definition inputs_ok (x : list Z) : Prop := Forall (fun v => 0 <= v < M64) x.
Lemma nth_inputs_ok x k : inputs_ok x -> 0 <= nth k x 0 < M64.
Proof.
  intros H. destruct (nth_in_or_default k x 0) as [Hin | ->]; [|unfold M64; lia].
  unfold inputs_ok in H. rewrite Forall_forall in H. apply H. exact Hin.
Qed.

(* the invariant: every node's wrapped value is its coefficient row applied to the inputs, modulo 2^64 *)
Definition linked (x : list Z) (m : env) (lm : lenv) : Prop :=
  forall i, get m i = (dot (getrow lm i) x) mod M64.

Lemma eval_op_linear x m lm o : inputs_ok x -> linked x m lm ->
  eval_op x m o = (dot (lin_op lm o) x) mod M64.
Proof.
  intros Hx L. destruct o as [k | i j | i j | c i]; cbn [eval_op lin_op].
  - rewrite dot_runit. symmetry. apply Z.mod_small. apply nth_inputs_ok. exact Hx.
  - unfold wadd, wrap. change (2 ^ 64) with M64. rewrite dot_radd, (L i), (L j).
    rewrite <- Z.add_mod by (unfold M64; lia). reflexivity.
  - unfold wsub, wrap. change (2 ^ 64) with M64. rewrite dot_rsub, (L i), (L j).
    rewrite <- Zminus_mod. reflexivity.
  - unfold wmul, wrap. change (2 ^ 64) with M64. rewrite dot_rscale, (L i).
    rewrite Z.mul_mod_idemp_l by (unfold M64; lia). f_equal. ring.
Qed.

Lemma linked_add x m lm id v row : linked x m lm -> v = (dot row x) mod M64 ->
  linked x (PositiveMap.add id v m) (PositiveMap.add id row lm).
Proof.
  intros L Hv i. unfold get, getrow. destruct (Pos.eq_dec i id) as [->|Hne].
  - rewrite !PositiveMap.gss. exact Hv.
  - rewrite !PositiveMap.gso by exact Hne. apply L.
Qed.

Theorem ssa_linear_gen prog x : inputs_ok x -> forall m lm, linked x m lm ->
  linked x (eval_prog prog x m) (lin_prog prog lm).
Proof.
  intros Hx. induction prog as [|[id o] prog IH]; intros m lm L.
  - exact L.
  - cbn [eval_prog lin_prog]. apply IH. apply linked_add; [exact L|]. apply eval_op_linear; assumption.
Qed.

Lemma linked_empty x : linked x (PositiveMap.empty Z) (PositiveMap.empty (list Z)).
Proof. intros i. unfold get, getrow. rewrite !PositiveMap.gempty. reflexivity. Qed.

(* for ANY program of the language: the wrapping u64 evaluation of every output is
   (row of the coefficient matrix) . (input) mod 2^64 *)
Theorem ssa_linear prog outs x : inputs_ok x ->
  eval_ssa prog outs x = map (fun row => (dot row x) mod M64) (ssa_matrix prog outs).
Proof.
  intros Hx. unfold eval_ssa, ssa_matrix. rewrite map_map. apply map_ext. intros o.
  apply (ssa_linear_gen prog x Hx _ _ (linked_empty x)).
Qed.

(* ================================================================ C. generated_function is 16 * (circulant matrix) *)
Definition crow (r : nat) : list Z := circ_row MDS_MATRIX_FIRST_COLUMN r.
Definition rsum (r : list Z) : Z := fold_right Z.add 0 r.

(* the coefficient matrix of the REGENERATED program, computed inside Coq, is 16 * M with M[r][j] = col[(r - j) mod 16] *)
Theorem gf_matrix : ssa_matrix GF_PROG GF_OUT = map (fun r => map (Z.mul 16) (crow r)) (seq 0 16).
Proof. vm_compute. reflexivity. Qed.
Theorem gf_wf : ssa_wf 16 GF_PROG GF_OUT = true.
Proof. vm_compute. reflexivity. Qed.

Lemma crow_facts r : (r < 16)%nat -> Forall (fun c => 0 <= c) (crow r) /\ rsum (crow r) = 524757 /\ length (crow r) = 16%nat.
Proof.
  intros Hr.
  assert (H : forallb (fun r => forallb (fun c => 0 <=? c) (crow r) && (rsum (crow r) =? 524757) && Nat.eqb (length (crow r)) 16)
                (seq 0 16) = true) by (vm_compute; reflexivity).
  rewrite forallb_forall in H. specialize (H r). rewrite in_seq in H. specialize (H ltac:(lia)).
  apply andb_true_iff in H. destruct H as [H H3]. apply andb_true_iff in H. destruct H as [H1 H2].
  split; [|split].
  - apply Forall_forall. intros c Hc. rewrite forallb_forall in H1. specialize (H1 c Hc). lia.
  - lia.
  - apply Nat.eqb_eq. exact H3.
Qed.

Lemma dot_scale c r x : dot (map (Z.mul c) r) x = c * dot r x.
Proof.
  revert x. induction r as [|a r IH]; intros x; [cbn [map dot]; lia|].
  destruct x as [|b x]; [cbn [map dot]; lia|]. cbn [map dot]. rewrite IH. ring.
Qed.

Lemma rsum_cons a r : rsum (a :: r) = a + rsum r.
Proof. reflexivity. Qed.
Lemma rsum_nonneg r : Forall (fun c => 0 <= c) r -> 0 <= rsum r.
Proof. induction 1 as [|a r Ha Hr IH]; [cbn; lia|]. rewrite rsum_cons. lia. Qed.

Lemma dot_bound r x B : 0 <= B -> Forall (fun c => 0 <= c) r -> Forall (fun v => 0 <= v <= B) x ->
  0 <= dot r x <= rsum r * B.
Proof.
  intros HB Hr. revert x. induction Hr as [|a r Ha Hr IH]; intros x Hx.
  - cbn. lia.
  - pose proof (rsum_nonneg r Hr) as Hs. rewrite rsum_cons.
    destruct x as [|b x]; [cbn [dot]; nia|].
    inversion Hx as [|? ? Hb Hx']; subst. specialize (IH x Hx').
    cbn [dot]. nia.
Qed.

(* for inputs below 2^32 nothing wraps: generated_function x = 16 * (M x), exactly, as integers *)
Theorem gf_spec x : Forall (fun v => 0 <= v < 2 ^ 32) x ->
  generated_function x = map (fun r => 16 * dot (crow r) x) (seq 0 16).
Proof.
  intros Hx. unfold generated_function. rewrite ssa_linear.
  2:{ eapply Forall_impl; [|exact Hx]. cbv beta. unfold M64. intros v Hv. change (2 ^ 32) with 4294967296 in Hv. lia. }
  rewrite gf_matrix, map_map. apply map_ext_in. intros r Hr. apply in_seq in Hr.
  rewrite dot_scale. apply Z.mod_small.
  destruct (crow_facts r ltac:(lia)) as [Hc [Hs _]].
  assert (Hb : 0 <= dot (crow r) x <= rsum (crow r) * 4294967295).
  { apply dot_bound; [lia|exact Hc|]. eapply Forall_impl; [|exact Hx]. cbv beta. intros v Hv.
    change (2 ^ 32) with 4294967296 in Hv. lia. }
  rewrite Hs in Hb. unfold M64. lia.
Qed.

(* ================================================================ D. the lane recombination of mds_generated *)
Ltac word_unfold2 :=
  word_unfold;
  change (2 ^ 4) with 16 in *; change (2 ^ 28) with 268435456 in *; change (2 ^ 52) with 4503599627370496 in *.

(* bottom-up elimination of `/` and `mod` by literal moduli: an innermost  t mod K  is replaced by t when lia proves
   0 <= t < K; otherwise quotient and remainder become fresh variables constrained by the division equations.
   Every lia call is small, and the script does not depend on how the source writes the lane body (it also proves
   the `(s_hi << 32) - s_hi` form of the dead mds_cyclomul code path). *)
Ltac no_divmod t :=
  lazymatch t with
  | context [_ mod _] => fail
  | context [_ / _] => fail
  | context [if _ then _ else _] => fail
  | _ => idtac
  end.
Ltac dm_abstract t K :=
  let q := fresh "q" in let r := fresh "r" in let Hq := fresh "Hdm" in
  assert (Hq : t = K * (t / K) + t mod K /\ 0 <= t mod K < K)
    by (split; [apply Z.div_mod; lia | apply Z.mod_pos_bound; lia]);
  set (q := t / K) in *; set (r := t mod K) in *; clearbody q r.
Ltac dm_step :=
  match goal with
  | |- context [?t mod ?K] =>
      no_divmod t;
      first [ let E := fresh in assert (E : t mod K = t) by (apply Z.mod_small; lia); rewrite !E; clear E
            | dm_abstract t K ]
  | |- context [?t / ?K] => no_divmod t; dm_abstract t K
  end.

Theorem mds_lane_spec a b : 0 <= a < 2 ^ 52 -> 0 <= b < 2 ^ 52 ->
  0 <= mds_lane (16 * a) (16 * b) < 2 ^ 64 /\
  (mds_lane (16 * a) (16 * b)) mod P = (a + 2 ^ 32 * b) mod P /\
  mds_lane_ok (16 * a) (16 * b) = true.
Proof.
  intros Ha Hb. unfold mds_lane, mds_lane_ok, P. word_unfold2. cbv zeta.
  repeat dm_step.
  repeat match goal with |- context [if ?c then _ else _] => destruct c eqn:? end; cbn [fst snd].
  all: repeat split; lia.
Qed.

(* ================================================================ E. mds_generated on arbitrary u64 words *)
Definition word_ok (w : Z) : Prop := 0 <= w < 2 ^ 64.

Lemma t5_land_mask32 a : Z.land a 4294967295 = a mod 4294967296.
Proof. change 4294967295 with (Z.ones 32). rewrite Z.land_ones by lia. reflexivity. Qed.
Lemma t5_land_mask32' a : Z.land 4294967295 a = a mod 4294967296.
Proof. rewrite Z.land_comm. apply t5_land_mask32. Qed.

Lemma split_word w : word_ok w ->
  0 <= mds_split_lo w < 2 ^ 32 /\ 0 <= mds_split_hi w < 2 ^ 32 /\
  w = mds_split_lo w + 2 ^ 32 * mds_split_hi w /\ mds_split_hi_ok w = true /\ mds_split_lo_ok w = true.
Proof.
  unfold word_ok, mds_split_lo, mds_split_hi, mds_split_hi_ok, mds_split_lo_ok. intros Hw.
  (* the low half may be written `b & 0xffffffff` (either operand order) or `(b as u32) as u64`; the high half `b >> 32` *)
  rewrite ?t5_land_mask32, ?t5_land_mask32'. word_unfold. lia.
Qed.

Lemma dot_split r st : Forall word_ok st ->
  dot r st = dot r (map mds_split_lo st) + 2 ^ 32 * dot r (map mds_split_hi st).
Proof.
  intros Hst. revert r. induction Hst as [|w st Hw Hst IH]; intros r.
  - destruct r; cbn [map dot]; lia.
  - destruct r as [|a r]; [cbn [map dot]; lia|]. cbn [map dot]. rewrite (IH r).
    destruct (split_word w Hw) as [_ [_ [E _]]]. rewrite E at 1. ring.
Qed.

Lemma combine_map_same {A B C} (f : A -> B) (g : A -> C) l :
  combine (map f l) (map g l) = map (fun x => (f x, g x)) l.
Proof. induction l as [|x l IH]; [reflexivity|]. cbn [map combine]. rewrite IH. reflexivity. Qed.

Definition mds_out (st : list Z) (r : nat) : Z :=
  mds_lane (16 * dot (crow r) (map mds_split_lo st)) (16 * dot (crow r) (map mds_split_hi st)).

Lemma mds_generated_unfold st : Forall word_ok st -> mds_generated st = map (mds_out st) (seq 0 16).
Proof.
  intros Hst. unfold mds_generated.
  assert (Hlo : Forall (fun v => 0 <= v < 2 ^ 32) (map mds_split_lo st)).
  { apply Forall_map. eapply Forall_impl; [|exact Hst]. intros w Hw. apply (split_word w Hw). }
  assert (Hhi : Forall (fun v => 0 <= v < 2 ^ 32) (map mds_split_hi st)).
  { apply Forall_map. eapply Forall_impl; [|exact Hst]. intros w Hw. apply (split_word w Hw). }
  rewrite (gf_spec _ Hlo), (gf_spec _ Hhi), combine_map_same, map_map. reflexivity.
Qed.

Lemma half_dot_bound r x : (r < 16)%nat -> Forall (fun v => 0 <= v < 2 ^ 32) x -> 0 <= dot (crow r) x < 2 ^ 52.
Proof.
  intros Hr Hx. destruct (crow_facts r Hr) as [Hc [Hs _]].
  assert (Hb : 0 <= dot (crow r) x <= rsum (crow r) * 4294967295).
  { apply dot_bound; [lia|exact Hc|]. eapply Forall_impl; [|exact Hx]. cbv beta. intros v Hv.
    change (2 ^ 32) with 4294967296 in Hv. lia. }
  rewrite Hs in Hb. change (2 ^ 52) with 4503599627370496. lia.
Qed.

(* recombination: every lane is a u64 congruent to (row r of M) . (raw words) modulo p - possibly not below p -
   and no unchecked operator of the lane body overflows *)
Theorem mds_out_spec st r : (r < 16)%nat -> Forall word_ok st ->
  0 <= mds_out st r < 2 ^ 64 /\ (mds_out st r) mod P = (dot (crow r) st) mod P /\
  mds_lane_ok (16 * dot (crow r) (map mds_split_lo st)) (16 * dot (crow r) (map mds_split_hi st)) = true.
Proof.
  intros Hr Hst. unfold mds_out.
  assert (Hlo : Forall (fun v => 0 <= v < 2 ^ 32) (map mds_split_lo st)).
  { apply Forall_map. eapply Forall_impl; [|exact Hst]. intros w Hw. apply (split_word w Hw). }
  assert (Hhi : Forall (fun v => 0 <= v < 2 ^ 32) (map mds_split_hi st)).
  { apply Forall_map. eapply Forall_impl; [|exact Hst]. intros w Hw. apply (split_word w Hw). }
  destruct (mds_lane_spec _ _ (half_dot_bound r _ Hr Hlo) (half_dot_bound r _ Hr Hhi)) as [H1 [H2 H3]].
  split; [exact H1|]. split; [|exact H3]. rewrite H2. rewrite (dot_split (crow r) st Hst). reflexivity.
Qed.

(* ================================================================ F. field-level lemmas *)
Lemma P_lit : P = 18446744069414584321. Proof. reflexivity. Qed.

Lemma dot_val r x : (dot r x * Rinv) mod P = (dot r (map val x)) mod P.
Proof.
  revert x. induction r as [|a r IH]; intros x; [reflexivity|].
  destruct x as [|b x]; [reflexivity|]. cbn [map dot].
  rewrite Z.mul_add_distr_r, Z.add_mod by (rewrite P_lit; lia). rewrite IH.
  unfold val at 2. rewrite (Z.add_mod (a * _)) by (rewrite P_lit; lia).
  rewrite Z.mul_mod_idemp_r by (rewrite P_lit; lia).
  f_equal. f_equal. f_equal. ring.
Qed.

Lemma val_congr a b : a mod P = b mod P -> val a = val b.
Proof.
  intros H. unfold val. rewrite <- (Z.mul_mod_idemp_l a), <- (Z.mul_mod_idemp_l b) by (rewrite P_lit; lia).
  rewrite H. reflexivity.
Qed.

(* bfe_add with a NON-canonical left operand (any u64) and a right operand at least 2^32 below p *)
Theorem add_noncanon a c : 0 <= a < 2 ^ 64 -> 0 <= c <= P - 2 ^ 32 ->
  bfe_add a c = (a + c) mod P /\ bfe_add_ok a c = true.
Proof.
  intros Ha Hc. unfold bfe_add, bfe_add_ok, P in *. word_unfold.
  destruct (a <? (18446744069414584321 - c) mod 18446744073709551616) eqn:E; cbn [fst snd]; split; lia.
Qed.

Lemma add_noncanon_val a c : 0 <= a < 2 ^ 64 -> 0 <= c <= P - 2 ^ 32 ->
  canon (bfe_add a c) /\ val (bfe_add a c) = (val a + val c) mod P.
Proof.
  intros Ha Hc. destruct (add_noncanon a c Ha Hc) as [E _]. rewrite E. split.
  - apply Z.mod_pos_bound. exact P_pos.
  - unfold val. rewrite Z.mul_mod_idemp_l by (rewrite P_lit; lia).
    rewrite <- Z.add_mod by (rewrite P_lit; lia). f_equal. ring.
Qed.

Lemma mulm a b : (a mod P * b) mod P = (a * b) mod P.
Proof. apply Z.mul_mod_idemp_l. rewrite P_lit. lia. Qed.
Lemma mulm_r a b : (a * (b mod P)) mod P = (a * b) mod P.
Proof. apply Z.mul_mod_idemp_r. rewrite P_lit. lia. Qed.

Theorem pow7_spec x : canon x -> canon (pow7 x) /\ val (pow7 x) = (val x) ^ 7 mod P.
Proof.
  intros Hx. unfold pow7.
  destruct (mul_spec x x Hx Hx) as [Csq Vsq].
  destruct (mul_spec _ _ Csq Csq) as [Cqu Vqu].
  destruct (mul_spec _ _ Csq Cqu) as [C6 V6].
  destruct (mul_spec _ _ Hx C6) as [C7 V7].
  split; [exact C7|]. rewrite V7, V6, Vqu, Vsq.
  set (v := val x).
  repeat (rewrite mulm || rewrite mulm_r). rewrite !Z.mul_assoc. repeat (rewrite mulm || rewrite mulm_r). f_equal. ring.
Qed.

(* ================================================================ G. split_and_lookup *)
Definition wbyte (w i : Z) : Z := (w / 256 ^ i) mod 256.

Lemma split_and_lookup_unfold w :
  split_and_lookup w =
  lookup (wbyte w 0) + 256 * (lookup (wbyte w 1) + 256 * (lookup (wbyte w 2) + 256 * (lookup (wbyte w 3) + 256 *
  (lookup (wbyte w 4) + 256 * (lookup (wbyte w 5) + 256 * (lookup (wbyte w 6) + 256 * (lookup (wbyte w 7) + 256 * 0))))))).
Proof. reflexivity. Qed.

Lemma wbyte_range w i : 0 <= wbyte w i < 256.
Proof. unfold wbyte. apply Z.mod_pos_bound. lia. Qed.

Lemma word_bytes w : 0 <= w < 2 ^ 64 ->
  w = wbyte w 0 + 256 * (wbyte w 1 + 256 * (wbyte w 2 + 256 * (wbyte w 3 + 256 *
      (wbyte w 4 + 256 * (wbyte w 5 + 256 * (wbyte w 6 + 256 * wbyte w 7)))))).
Proof.
  intros Hw. unfold wbyte.
  change (256 ^ 0) with 1; change (256 ^ 1) with 256; change (256 ^ 2) with 65536; change (256 ^ 3) with 16777216;
  change (256 ^ 4) with 4294967296; change (256 ^ 5) with 1099511627776; change (256 ^ 6) with 281474976710656;
  change (256 ^ 7) with 72057594037927936; change (2 ^ 64) with 18446744073709551616 in Hw.
  lia.
Qed.

Lemma canon_bytes_aux b0 b1 b2 b3 b4 b5 b6 b7 t0 t1 t2 t3 t4 t5 t6 t7 :
  0 <= b0 < 256 -> 0 <= b1 < 256 -> 0 <= b2 < 256 -> 0 <= b3 < 256 ->
  0 <= t0 < 256 -> 0 <= t1 < 256 -> 0 <= t2 < 256 -> 0 <= t3 < 256 ->
  0 <= t4 < 256 -> 0 <= t5 < 256 -> 0 <= t6 < 256 -> 0 <= t7 < 256 ->
  (t4 = 255 -> b4 = 255) -> (t5 = 255 -> b5 = 255) -> (t6 = 255 -> b6 = 255) -> (t7 = 255 -> b7 = 255) ->
  (b0 = 0 -> t0 = 0) -> (b1 = 0 -> t1 = 0) -> (b2 = 0 -> t2 = 0) -> (b3 = 0 -> t3 = 0) ->
  b0 + 256 * (b1 + 256 * (b2 + 256 * (b3 + 256 * (b4 + 256 * (b5 + 256 * (b6 + 256 * b7)))))) < 18446744069414584321 ->
  0 <= t0 + 256 * (t1 + 256 * (t2 + 256 * (t3 + 256 * (t4 + 256 * (t5 + 256 * (t6 + 256 * (t7 + 256 * 0))))))) < 18446744069414584321.
Proof.
  intros R0 R1 R2 R3 T0 T1 T2 T3 T4 T5 T6 T7 H4 H5 H6 H7 Z0 Z1 Z2 Z3 Hw.
  split; [clear - T0 T1 T2 T3 T4 T5 T6 T7; lia|].
  (* suppose the image is >= p: its four high bytes are 0xff and its low half is non-zero *)
  destruct (Z_lt_ge_dec (t0 + 256 * (t1 + 256 * (t2 + 256 * (t3 + 256 * (t4 + 256 * (t5 + 256 * (t6 + 256 * (t7 + 256 * 0)))))))) 18446744069414584321) as [Hlt|Hge]; [exact Hlt|exfalso].
  assert (t7 = 255) by (clear - Hge T0 T1 T2 T3 T4 T5 T6 T7; lia).
  assert (t6 = 255) by (clear - Hge T0 T1 T2 T3 T4 T5 T6 T7; lia).
  assert (t5 = 255) by (clear - Hge T0 T1 T2 T3 T4 T5 T6 T7; lia).
  assert (t4 = 255) by (clear - Hge T0 T1 T2 T3 T4 T5 T6 T7; lia).
  assert (B7 : b7 = 255) by (apply H7; assumption). assert (B6 : b6 = 255) by (apply H6; assumption).
  assert (B5 : b5 = 255) by (apply H5; assumption). assert (B4 : b4 = 255) by (apply H4; assumption).
  subst t7 t6 t5 t4 b7 b6 b5 b4.
  assert (Hlo : 1 <= t0 + 256 * (t1 + 256 * (t2 + 256 * t3))) by (clear - Hge T0 T1 T2 T3; lia).
  assert (Hblo : b0 + 256 * (b1 + 256 * (b2 + 256 * b3)) = 0) by (clear - Hw R0 R1 R2 R3; lia).
  assert (b0 = 0) by (clear - Hblo R0 R1 R2 R3; lia). assert (b1 = 0) by (clear - Hblo R0 R1 R2 R3; lia).
  assert (b2 = 0) by (clear - Hblo R0 R1 R2 R3; lia). assert (b3 = 0) by (clear - Hblo R0 R1 R2 R3; lia).
  rewrite (Z0 ltac:(assumption)), (Z1 ltac:(assumption)), (Z2 ltac:(assumption)), (Z3 ltac:(assumption)) in Hlo.
  clear - Hlo. lia.
Qed.

(* the lookup S-box maps canonical words to canonical words: 0x00 and 0xff are fixed points and nothing else
   maps to them, so "high half all ones and low half non-zero" is preserved in both directions *)
Theorem split_and_lookup_canon w : canon w -> canon (split_and_lookup w).
Proof.
  intros Hw. unfold canon in *. rewrite P_lit in *.
  assert (Hw64 : 0 <= w < 2 ^ 64) by (change (2 ^ 64) with 18446744073709551616; lia).
  pose proof (word_bytes w Hw64) as E. rewrite split_and_lookup_unfold.
  apply (canon_bytes_aux (wbyte w 0) (wbyte w 1) (wbyte w 2) (wbyte w 3) (wbyte w 4) (wbyte w 5) (wbyte w 6) (wbyte w 7));
    try apply wbyte_range; try (apply lookup_facts; apply wbyte_range).
  rewrite <- E. apply Hw.
Qed.

Theorem split_and_lookup_spec w : canon w ->
  canon (split_and_lookup w) /\ val (split_and_lookup w) = spec_L (val w).
Proof.
  intros Hw. split; [apply split_and_lookup_canon; exact Hw|].
  unfold spec_L. change (to_mont (val w)) with (mont (val w)). rewrite (mont_val w Hw).
  cbv zeta. cbn [fold_right]. change from_mont with val. f_equal.
  rewrite split_and_lookup_unfold.
  change byte_of with wbyte.
  rewrite <- !lookup_table_is_formula by apply wbyte_range.
  ring.
Qed.

(* ================================================================ H. layers, round, permutation, trace *)
Lemma canon_word_ok a : canon a -> word_ok a.
Proof. unfold canon, word_ok. rewrite P_lit. change (2 ^ 64) with 18446744073709551616. lia. Qed.

Lemma Forall_firstn_skipn {A} (Q : A -> Prop) n l : Forall Q l -> Forall Q (firstn n l) /\ Forall Q (skipn n l).
Proof. intros H. rewrite <- (firstn_skipn n l) in H. apply Forall_app in H. exact H. Qed.

Lemma map_ext_Forall {A B} (f g : A -> B) (Q : A -> Prop) l :
  (forall x, Q x -> f x = g x) -> Forall Q l -> map f l = map g l.
Proof. intros H HF. induction HF as [|x l Hx _ IH]; [reflexivity|]. cbn [map]. rewrite H, IH by exact Hx. reflexivity. Qed.

Lemma Forall_map_impl {A B} (f : A -> B) (Q : A -> Prop) (R : B -> Prop) l :
  (forall x, Q x -> R (f x)) -> Forall Q l -> Forall R (map f l).
Proof. intros H HF. apply Forall_map. eapply Forall_impl; [|exact HF]. exact H. Qed.

Theorem sbox_layer_spec st : Forall canon st ->
  Forall canon (sbox_layer st) /\ map val (sbox_layer st) = spec_sbox (map val st) /\
  length (sbox_layer st) = length st.
Proof.
  intros Hst. unfold sbox_layer, spec_sbox. change nlookup with 4%nat.
  destruct (Forall_firstn_skipn canon 4 st Hst) as [H1 H2].
  split; [|split].
  - apply Forall_app. split.
    + apply (Forall_map_impl _ canon); [|exact H1]. intros w Hw. apply split_and_lookup_spec. exact Hw.
    + apply (Forall_map_impl _ canon); [|exact H2]. intros w Hw. apply pow7_spec. exact Hw.
  - rewrite map_app, !map_map, firstn_map, skipn_map, !map_map. f_equal.
    + apply (map_ext_Forall _ _ canon); [|exact H1]. intros w Hw. apply split_and_lookup_spec. exact Hw.
    + apply (map_ext_Forall _ _ canon); [|exact H2]. intros w Hw.
      destruct (pow7_spec w Hw) as [_ E]. rewrite E. reflexivity.
  - rewrite app_length, !map_length, <- app_length, firstn_skipn. reflexivity.
Qed.

Lemma sdot_dot r x : sdot r x = dot r x.
Proof. revert x. induction r as [|a r IH]; intros x; [reflexivity|]. destruct x; [reflexivity|]. cbn [sdot dot]. rewrite IH. reflexivity. Qed.

Theorem mds_generated_spec st : Forall word_ok st ->
  Forall word_ok (mds_generated st) /\ map val (mds_generated st) = spec_mds (map val st) /\
  length (mds_generated st) = 16%nat.
Proof.
  intros Hst. rewrite (mds_generated_unfold st Hst). split; [|split].
  - apply Forall_map. apply Forall_forall. intros r Hr. apply in_seq in Hr.
    apply (mds_out_spec st r ltac:(lia) Hst).
  - unfold spec_mds. rewrite map_map. apply map_ext_in. intros r Hr. apply in_seq in Hr.
    destruct (mds_out_spec st r ltac:(lia) Hst) as [_ [E _]].
    rewrite (val_congr _ _ E). unfold val at 1. rewrite dot_val. reflexivity.
  - rewrite map_length, seq_length. reflexivity.
Qed.

Definition rc_ok (c : Z) : Prop := 0 <= c <= P - 2 ^ 32.

Theorem add_constants_spec ys rcs : Forall word_ok ys -> Forall rc_ok rcs ->
  Forall canon (add_constants ys rcs) /\
  map val (add_constants ys rcs) = map (fun ac => (fst ac + snd ac) mod P) (combine (map val ys) (map val rcs)) /\
  length (add_constants ys rcs) = Nat.min (length ys) (length rcs).
Proof.
  intros Hys. revert rcs. unfold add_constants. induction Hys as [|y ys Hy Hys IH]; intros rcs Hrc.
  - cbn. auto.
  - destruct Hrc as [|c rcs Hc Hrc]; [cbn; auto|]. cbn [combine map fst snd length Nat.min].
    destruct (IH rcs Hrc) as [I1 [I2 I3]]. destruct (add_noncanon_val y c Hy Hc) as [A1 A2].
    split; [|split].
    + constructor; assumption.
    + rewrite A2, I2. reflexivity.
    + rewrite I3. reflexivity.
Qed.

Lemma round_constants_spec i : (i < 5)%nat ->
  Forall rc_ok (round_constants i) /\ map val (round_constants i) = spec_rc i /\ length (round_constants i) = 16%nat.
Proof.
  intros Hi. split; [|split].
  - unfold round_constants. apply Forall_firstn_skipn. apply Forall_firstn_skipn. exact rc_margin.
  - do 5 (destruct i as [|i]; [vm_compute; reflexivity|]). lia.
  - do 5 (destruct i as [|i]; [vm_compute; reflexivity|]). lia.
Qed.

(* one round: canonical state in, canonical state out, and the values are those of the specification's round *)
Theorem round_refines i st : (i < 5)%nat -> Forall canon st ->
  Forall canon (round i st) /\ map val (round i st) = spec_round i (map val st) /\ length (round i st) = 16%nat.
Proof.
  intros Hi Hst. unfold round, spec_round.
  destruct (sbox_layer_spec st Hst) as [S1 [S2 _]].
  assert (S1' : Forall word_ok (sbox_layer st)) by (eapply Forall_impl; [|exact S1]; exact canon_word_ok).
  destruct (mds_generated_spec _ S1') as [M1 [M2 M3]].
  destruct (round_constants_spec i Hi) as [R1 [R2 R3]].
  destruct (add_constants_spec _ _ M1 R1) as [A1 [A2 A3]].
  split; [exact A1|]. split.
  - rewrite A2, M2, S2, R2. reflexivity.
  - rewrite A3, M3, R3. reflexivity.
Qed.

Lemma permutation_unfold st : permutation st = round 4 (round 3 (round 2 (round 1 (round 0 st)))).
Proof. reflexivity. Qed.

(* the permutation: five rounds *)
Theorem permutation_refines st : Forall canon st ->
  Forall canon (permutation st) /\ map val (permutation st) = spec_permutation (map val st) /\
  length (permutation st) = 16%nat.
Proof.
  intros H0. rewrite permutation_unfold. unfold spec_permutation.
  destruct (round_refines 0 st ltac:(lia) H0) as [C1 [V1 _]].
  destruct (round_refines 1 _ ltac:(lia) C1) as [C2 [V2 _]].
  destruct (round_refines 2 _ ltac:(lia) C2) as [C3 [V3 _]].
  destruct (round_refines 3 _ ltac:(lia) C3) as [C4 [V4 _]].
  destruct (round_refines 4 _ ltac:(lia) C4) as [C5 [V5 L5]].
  split; [exact C5|]. split; [|exact L5]. rewrite V5, V4, V3, V2, V1. reflexivity.
Qed.

Lemma trace_unfold st :
  trace st = let s1 := round 0 st in let s2 := round 1 s1 in let s3 := round 2 s2 in
             let s4 := round 3 s3 in let s5 := round 4 s4 in [st; s1; s2; s3; s4; s5].
Proof. reflexivity. Qed.

(* the trace: initial state and the state after every round; all six states canonical; the sponge ends in the
   last one, which is the permutation's result *)
Theorem trace_refines st : Forall canon st ->
  Forall (Forall canon) (trace st) /\ map (map val) (trace st) = spec_trace (map val st) /\
  last (trace st) [] = permutation st /\ length (trace st) = 6%nat.
Proof.
  intros H0. rewrite trace_unfold, permutation_unfold. unfold spec_trace. cbv zeta.
  destruct (round_refines 0 st ltac:(lia) H0) as [C1 [V1 _]].
  destruct (round_refines 1 _ ltac:(lia) C1) as [C2 [V2 _]].
  destruct (round_refines 2 _ ltac:(lia) C2) as [C3 [V3 _]].
  destruct (round_refines 3 _ ltac:(lia) C3) as [C4 [V4 _]].
  destruct (round_refines 4 _ ltac:(lia) C4) as [C5 [V5 L5]].
  split; [repeat (apply Forall_cons; [assumption|]); apply Forall_nil|]. split; [|split; reflexivity].
  cbn [map]. rewrite V5, V4, V3, V2, V1. reflexivity.
Qed.

(* ================================================================ I. fixed-length hashes *)
Lemma firstn_canon n st : Forall canon st -> Forall canon (firstn n st).
Proof. intros H. apply (Forall_firstn_skipn canon n st H). Qed.

Lemma fixed_capacity : skipn 10 (tip5_new FixedLength) = repeat bfe_one 6 /\ Forall canon (repeat bfe_one 6) /\
  map val (repeat bfe_one 6) = [1; 1; 1; 1; 1; 1].
Proof.
  split; [reflexivity|]. split; [|vm_compute; reflexivity].
  apply Forall_forall. intros x Hx. apply repeat_spec in Hx. subst x. vm_compute. split; congruence.
Qed.

Theorem hash_10_spec input : Forall canon input ->
  Forall canon (hash_10 input) /\ map val (hash_10 input) = spec_hash_10 (map val input).
Proof.
  intros Hin. unfold hash_10, spec_hash_10. destruct fixed_capacity as [E [C V]]. rewrite E.
  assert (Hst : Forall canon (input ++ repeat bfe_one 6)) by (apply Forall_app; split; assumption).
  destruct (permutation_refines _ Hst) as [P1 [P2 _]].
  change ndigest with 5%nat. split; [apply firstn_canon; exact P1|].
  rewrite <- firstn_map, P2, map_app, V. reflexivity.
Qed.

Theorem hash_pair_spec l r : Forall canon l -> Forall canon r -> length l = 5%nat -> length r = 5%nat ->
  Forall canon (hash_pair l r) /\ map val (hash_pair l r) = spec_hash_pair (map val l) (map val r) /\
  hash_pair l r = hash_10 (l ++ r).
Proof.
  intros Hl Hr Ll Lr.
  assert (E : hash_pair l r = hash_10 (l ++ r)).
  { unfold hash_pair, hash_10. rewrite <- app_assoc. reflexivity. }
  rewrite E. unfold spec_hash_pair. rewrite <- map_app.
  split; [|split; [|reflexivity]]; apply hash_10_spec; apply Forall_app; split; assumption.
Qed.

Theorem digest_hash_spec d : Forall canon d -> length d = 5%nat ->
  Forall canon (digest_hash d) /\ map val (digest_hash d) = spec_digest_hash (map val d).
Proof.
  intros Hd Ld. unfold digest_hash, spec_digest_hash.
  assert (Hz : Forall canon (repeat bfe_zero ndigest)) by (apply Forall_forall; intros x Hx; apply repeat_spec in Hx; subst x; vm_compute; split; congruence).
  destruct (hash_pair_spec d (repeat bfe_zero ndigest) Hd Hz Ld eq_refl) as [H1 [H2 _]].
  split; [exact H1|]. rewrite H2. reflexivity.
Qed.

(* ================================================================ J. the statements in terms of the public API *)
(* a state built with BFieldElement::new from arbitrary u64 values *)
Lemma state_of_values vs : Forall (fun v => 0 <= v < 2 ^ 64) vs ->
  Forall canon (map bfe_new vs) /\ map val (map bfe_new vs) = map (fun v => v mod P) vs.
Proof.
  intros H. split.
  - apply (Forall_map_impl _ (fun v => 0 <= v < 2 ^ 64)); [|exact H]. intros v Hv. apply new_spec. exact Hv.
  - rewrite map_map. apply (map_ext_Forall _ _ (fun v => 0 <= v < 2 ^ 64)); [|exact H].
    intros v Hv. destruct (new_spec v Hv) as [_ E]. rewrite E. apply val_mont.
Qed.

(* `.value()` of canonical words *)
Lemma values_of_state st : Forall canon st -> map bfe_value st = map val st.
Proof.
  intros H. apply (map_ext_Forall _ _ canon); [|exact H]. intros a Ha. apply value_spec. apply canon_word_ok. exact Ha.
Qed.

(* canonical words are determined by their values: model = to_mont (spec) *)
Lemma words_of_values st vs : Forall canon st -> map val st = vs -> st = map mont vs.
Proof.
  intros H <-. rewrite map_map. induction H as [|a st Ha _ IH]; [reflexivity|].
  cbn [map]. rewrite (mont_val a Ha), <- IH. reflexivity.
Qed.

Theorem permutation_api vs : Forall (fun v => 0 <= v < 2 ^ 64) vs ->
  let out := permutation (map bfe_new vs) in
  Forall canon out /\ map bfe_value out = spec_permutation (map (fun v => v mod P) vs) /\
  out = map mont (spec_permutation (map (fun v => v mod P) vs)).
Proof.
  intros H out. destruct (state_of_values vs H) as [C V].
  destruct (permutation_refines _ C) as [C' [V' _]]. rewrite V in V'. subst out.
  split; [exact C'|]. split.
  - rewrite (values_of_state _ C'). exact V'.
  - apply words_of_values; assumption.
Qed.
