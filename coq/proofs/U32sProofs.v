(* U32sProofs.v - lemmas about the U32s model (model/U32s.v) against the big-integer spec (spec/U32sSpec.v).
   N is an arbitrary nat throughout. *)
From Coq Require Import ZArith Bool List Lia.
From TF Require Import Word BFieldGen U32sGen U32s U32sSpec.
From TF Require BFieldProofs.
Import ListNotations.
Open Scope Z_scope.
Ltac Zify.zify_post_hook ::= Z.div_mod_to_equations.

Notation B32 := 4294967296 (only parsing).
Definition limb (x : Z) : Prop := 0 <= x < 2 ^ 32.
Definition T (n : nat) : Z := 2 ^ (32 * Z.of_nat n).        (* 2^(32 n) *)
Arguments T : simpl never.

Lemma pow32 : 2 ^ 32 = B32. Proof. reflexivity. Qed.
Lemma T_pos n : 0 < T n. Proof. unfold T. apply Z.pow_pos_nonneg; lia. Qed.
Lemma T_0 : T 0 = 1. Proof. reflexivity. Qed.
Lemma T_S n : T (S n) = B32 * T n.
Proof.
  unfold T. replace (32 * Z.of_nat (S n)) with (32 + 32 * Z.of_nat n) by lia.
  rewrite Z.pow_add_r by lia. reflexivity.
Qed.
Lemma T_add n m : T (n + m) = T n * T m.
Proof.
  unfold T. replace (32 * Z.of_nat (n + m)) with (32 * Z.of_nat n + 32 * Z.of_nat m) by lia.
  apply Z.pow_add_r; lia.
Qed.
Lemma T_le n m : (n <= m)%nat -> T n <= T m.
Proof. intros H. unfold T. apply Z.pow_le_mono_r; lia. Qed.
Lemma fits_T N v : u32s_fits N v <-> 0 <= v < T N.
Proof. reflexivity. Qed.

Lemma wf_iff N l : u32s_wf N l <-> length l = N /\ Forall limb l.
Proof. reflexivity. Qed.

(* ------------------------------------------------------------------ value *)
Lemma value_cons x t : u32s_value (x :: t) = x + B32 * u32s_value t.
Proof. reflexivity. Qed.

Lemma value_range l : Forall limb l -> 0 <= u32s_value l < T (length l).
Proof.
  induction 1 as [|x t Hx Ht IH].
  - cbn [length u32s_value]. rewrite T_0. lia.
  - cbn [length]. rewrite T_S, value_cons. unfold limb in Hx. rewrite pow32 in Hx. lia.
Qed.

Lemma value_app a b : u32s_value (a ++ b) = u32s_value a + T (length a) * u32s_value b.
Proof.
  induction a as [|x a IH].
  - cbn [app length u32s_value]. rewrite T_0. lia.
  - cbn [app length]. rewrite !value_cons, IH, T_S. ring.
Qed.

Lemma value_repeat0 n : u32s_value (repeat 0 n) = 0.
Proof. induction n; cbn [repeat]; [reflexivity|]. rewrite value_cons, IHn. reflexivity. Qed.

Lemma Forall_repeat0 n : Forall limb (repeat 0 n).
Proof. induction n; cbn; constructor; auto. unfold limb. rewrite pow32. lia. Qed.

Lemma zero_wf N : u32s_wf N (u32s_zero N).
Proof. split. apply repeat_length. apply Forall_repeat0. Qed.
Lemma zero_value N : u32s_value (u32s_zero N) = 0.
Proof. apply value_repeat0. Qed.

Lemma value_inj a b : length a = length b -> Forall limb a -> Forall limb b ->
  u32s_value a = u32s_value b -> a = b.
Proof.
  revert b. induction a as [|x a IH]; intros [|y b] Hl Ha Hb Hv; try discriminate; [reflexivity|].
  inversion Ha as [|? ? Hx Ha']; inversion Hb as [|? ? Hy Hb']; subst.
  rewrite !value_cons in Hv. unfold limb in Hx, Hy. rewrite pow32 in Hx, Hy.
  assert (x = y /\ u32s_value a = u32s_value b) as [-> E] by lia.
  f_equal. apply IH; auto.
Qed.

Lemma wf_value_inj N a b : u32s_wf N a -> u32s_wf N b -> u32s_value a = u32s_value b -> a = b.
Proof. intros [La Fa] [Lb Fb]. apply value_inj; auto. congruence. Qed.

Lemma wf_fits N l : u32s_wf N l -> u32s_fits N (u32s_value l).
Proof. intros [L F]. apply fits_T. rewrite <- L. apply value_range; auto. Qed.

Lemma is_zero_spec l : Forall limb l -> u32s_is_zero l = true <-> u32s_value l = 0.
Proof.
  induction 1 as [|x t Hx Ht IH]; cbn [u32s_is_zero forallb].
  - cbn. tauto.
  - rewrite value_cons. fold (u32s_is_zero t). rewrite andb_true_iff, IH, Z.eqb_eq.
    pose proof (value_range t Ht). unfold limb in Hx. lia.
Qed.

(* ------------------------------------------------------------------ Add *)
Lemma add_loop_spec : forall a b c, length a = length b -> Forall limb a -> Forall limb b ->
  let '(r, cf) := u32s_add_loop c a b in
  length r = length a /\ Forall limb r /\
  u32s_value r + T (length a) * b2z cf = u32s_value a + u32s_value b + b2z c.
Proof.
  induction a as [|x a IH]; intros [|y b] c Hl Ha Hb; try discriminate.
  - cbn. rewrite T_0. repeat split; auto; lia.
  - inversion Ha as [|? ? Hx Ha']; inversion Hb as [|? ? Hy Hb']; subst.
    cbn [u32s_add_loop].
    unfold ovf_add at 1. cbv zeta. unfold ovf_add at 1. cbv zeta.
    specialize (IH b ((2 ^ 32 <=? x + y) || (2 ^ 32 <=? wrap 32 (x + y) + b2z c)) ltac:(cbn in Hl; lia) Ha' Hb').
    destruct (u32s_add_loop _ a b) as [t cf]. destruct IH as (L & F & V).
    cbn [length]. rewrite T_S, !value_cons.
    unfold limb in *. unfold wrap in *. rewrite pow32 in *.
    assert (Hc : 0 <= b2z c <= 1) by (destruct c; cbn; lia).
    split; [lia|]. split.
    + constructor; auto. lia.
    + destruct (B32 <=? x + y) eqn:E1; destruct (B32 <=? (x + y) mod B32 + b2z c) eqn:E2;
        cbn [orb b2z] in V; lia.
Qed.

Theorem add_spec N a b : u32s_wf N a -> u32s_wf N b ->
  match u32s_add a b with
  | Some r => u32s_wf N r /\ u32s_value r = u32s_value a + u32s_value b
  | None => T N <= u32s_value a + u32s_value b
  end.
Proof.
  intros [La Fa] [Lb Fb]. unfold u32s_add.
  pose proof (add_loop_spec a b false ltac:(congruence) Fa Fb) as H.
  destruct (u32s_add_loop false a b) as [r cf]. destruct H as (L & F & V).
  rewrite La in *. pose proof (value_range r F) as R. rewrite L in R.
  destruct cf; cbn [b2z] in V.
  - lia.
  - split; [split; auto; lia|lia].
Qed.

(* ------------------------------------------------------------------ Sub *)
Lemma sub_loop_spec : forall a b c, length a = length b -> Forall limb a -> Forall limb b ->
  let '(r, cf) := u32s_sub_loop c a b in
  length r = length a /\ Forall limb r /\
  u32s_value r - T (length a) * b2z cf = u32s_value a - u32s_value b - b2z c.
Proof.
  induction a as [|x a IH]; intros [|y b] c Hl Ha Hb; try discriminate.
  - cbn. rewrite T_0. repeat split; auto; lia.
  - inversion Ha as [|? ? Hx Ha']; inversion Hb as [|? ? Hy Hb']; subst.
    cbn [u32s_sub_loop].
    unfold ovf_sub at 1. cbv zeta. unfold ovf_sub at 1. cbv zeta.
    specialize (IH b ((x <? y) || (wrap 32 (x - y) <? b2z c)) ltac:(cbn in Hl; lia) Ha' Hb').
    destruct (u32s_sub_loop _ a b) as [t cf]. destruct IH as (L & F & V).
    cbn [length]. rewrite T_S, !value_cons.
    unfold limb in *. unfold wrap in *. rewrite pow32 in *.
    assert (Hc : 0 <= b2z c <= 1) by (destruct c; cbn; lia).
    split; [lia|]. split.
    + constructor; auto. lia.
    + destruct (x <? y) eqn:E1; destruct ((x - y) mod B32 <? b2z c) eqn:E2;
        cbn [orb b2z] in V; lia.
Qed.

Theorem sub_spec N a b : u32s_wf N a -> u32s_wf N b ->
  match u32s_sub a b with
  | Some r => u32s_wf N r /\ u32s_value r = u32s_value a - u32s_value b
  | None => u32s_value a - u32s_value b < 0
  end.
Proof.
  intros [La Fa] [Lb Fb]. unfold u32s_sub.
  pose proof (sub_loop_spec a b false ltac:(congruence) Fa Fb) as H.
  destruct (u32s_sub_loop false a b) as [r cf]. destruct H as (L & F & V).
  rewrite La in *. pose proof (value_range r F) as R. rewrite L in R.
  destruct cf; cbn [b2z] in V.
  - lia.
  - split; [split; auto; lia|lia].
Qed.

(* ------------------------------------------------------------------ mul_two *)
Lemma mul_two_loop_spec : forall l c, Forall limb l ->
  let '(r, cf) := u32s_mul_two_loop c l in
  length r = length l /\ Forall limb r /\
  u32s_value r + T (length l) * b2z cf = 2 * u32s_value l + b2z c.
Proof.
  induction l as [|x l IH]; intros c Hl.
  - cbn. rewrite T_0. repeat split; auto; lia.
  - inversion Hl as [|? ? Hx Hl']; subst.
    cbn [u32s_mul_two_loop]. unfold ovf_mul, ovf_add. cbv zeta.
    specialize (IH ((2 ^ 32 <=? wrap 32 (x * 2) + b2z c) || (2 ^ 32 <=? x * 2)) Hl').
    destruct (u32s_mul_two_loop _ l) as [t cf]. destruct IH as (L & F & V).
    cbn [length]. rewrite T_S, !value_cons.
    unfold limb in *. unfold wrap in *. rewrite pow32 in *.
    assert (Hc : 0 <= b2z c <= 1) by (destruct c; cbn; lia).
    split; [lia|]. split.
    + constructor; auto. lia.
    + destruct (B32 <=? (x * 2) mod B32 + b2z c) eqn:E1; destruct (B32 <=? x * 2) eqn:E2;
        cbn [orb b2z] in V; lia.
Qed.

Theorem mul_two_spec N l : u32s_wf N l ->
  match u32s_mul_two l with
  | Some r => u32s_wf N r /\ u32s_value r = 2 * u32s_value l
  | None => T N <= 2 * u32s_value l
  end.
Proof.
  intros [L0 F0]. unfold u32s_mul_two.
  pose proof (mul_two_loop_spec l false F0) as H.
  destruct (u32s_mul_two_loop false l) as [r cf]. destruct H as (L & F & V).
  rewrite L0 in *. pose proof (value_range r F) as R. rewrite L in R.
  destruct cf; cbn [b2z] in V.
  - lia.
  - split; [split; auto; lia|lia].
Qed.

(* ------------------------------------------------------------------ div_two *)
Lemma land_1 x : Z.land x 1 = x mod 2.
Proof. change 1 with (Z.ones 1) at 1. rewrite Z.land_ones by lia. reflexivity. Qed.

Lemma div_two_fold_spec l : Forall limb l ->
  let '(acc, carry) := fold_right u32s_div_two_step ([], false) l in
  length acc = length l /\ Forall limb acc /\ 2 * u32s_value acc + b2z carry = u32s_value l.
Proof.
  induction 1 as [|x t Hx Ht IH].
  - cbn. repeat split; auto.
  - cbn [fold_right]. destruct (fold_right u32s_div_two_step ([], false) t) as [acc carry].
    destruct IH as (L & F & V). unfold u32s_div_two_step.
    rewrite land_1. unfold wshr. change (wshl 32 1 31) with 2147483648. change (2 ^ 1) with 2.
    cbn [length]. rewrite !value_cons. unfold limb in *. rewrite pow32 in *.
    split; [lia|]. split.
    + constructor; auto. destruct carry; lia.
    + destruct (x mod 2 =? 1) eqn:E; destruct carry; cbn [b2z] in *; lia.
Qed.

Theorem div_two_spec N l : u32s_wf N l ->
  u32s_wf N (u32s_div_two l) /\ u32s_value (u32s_div_two l) = u32s_value l / 2.
Proof.
  intros [L0 F0]. unfold u32s_div_two.
  pose proof (div_two_fold_spec l F0) as H.
  destruct (fold_right u32s_div_two_step ([], false) l) as [acc carry]. destruct H as (L & F & V).
  cbn [fst]. split; [split; auto; lia|].
  assert (0 <= b2z carry <= 1) by (destruct carry; cbn; lia). lia.
Qed.

(* ------------------------------------------------------------------ Ord *)
Lemma lex_cmp_spec : forall a b, length a = length b -> Forall limb a -> Forall limb b ->
  lex_cmp a b = (u32s_value (rev a) ?= u32s_value (rev b)).
Proof.
  induction a as [|x a IH]; intros [|y b] Hl Ha Hb; try discriminate.
  - reflexivity.
  - inversion Ha as [|? ? Hx Ha']; inversion Hb as [|? ? Hy Hb']; subst.
    cbn [lex_cmp rev]. rewrite !value_app, !rev_length. cbn [u32s_value].
    assert (Hlen : length a = length b) by (cbn in Hl; lia).
    pose proof (value_range (rev a) ltac:(apply Forall_rev; auto)) as Ra.
    pose proof (value_range (rev b) ltac:(apply Forall_rev; auto)) as Rb.
    rewrite rev_length in Ra, Rb. rewrite <- Hlen in *.
    pose proof (T_pos (length a)) as Tp. set (t := T (length a)) in *.
    rewrite !Z.mul_0_r, !Z.add_0_r.
    destruct (Z.compare_spec x y) as [E|E|E].
    + subst y. rewrite IH by auto.
      destruct (Z.compare_spec (u32s_value (rev a)) (u32s_value (rev b))); symmetry;
        [apply Z.compare_eq_iff|apply Z.compare_lt_iff|apply Z.compare_gt_iff]; lia.
    + symmetry. apply Z.compare_lt_iff.
      assert (t * (x + 1) <= t * y) by (apply Z.mul_le_mono_nonneg_l; lia). lia.
    + symmetry. apply Z.compare_gt_iff.
      assert (t * (y + 1) <= t * x) by (apply Z.mul_le_mono_nonneg_l; lia). lia.
Qed.

Theorem cmp_spec N a b : u32s_wf N a -> u32s_wf N b ->
  u32s_cmp a b = (u32s_value a ?= u32s_value b).
Proof.
  intros [La Fa] [Lb Fb]. unfold u32s_cmp.
  rewrite lex_cmp_spec by (rewrite ?rev_length; try congruence; apply Forall_rev; auto).
  rewrite !rev_involutive. reflexivity.
Qed.

Lemma ge_spec N a b : u32s_wf N a -> u32s_wf N b ->
  u32s_ge a b = (u32s_value b <=? u32s_value a).
Proof.
  intros Ha Hb. unfold u32s_ge. rewrite (cmp_spec N) by auto.
  destruct (Z.compare_spec (u32s_value a) (u32s_value b)); symmetry;
    [apply Z.leb_le|apply Z.leb_gt|apply Z.leb_le]; lia.
Qed.

Lemma eqb_spec N a b : u32s_wf N a -> u32s_wf N b ->
  u32s_eqb a b = (u32s_value a =? u32s_value b).
Proof.
  intros Ha Hb.
  assert (E : u32s_eqb a b = true <-> a = b).
  { clear. revert b. induction a as [|x a IH]; intros [|y b]; cbn; try (split; [discriminate|discriminate]).
    - tauto.
    - rewrite andb_true_iff, Z.eqb_eq, IH. split; [intros [-> ->]; reflexivity|intros H; inversion H; auto]. }
  destruct (Z.eqb_spec (u32s_value a) (u32s_value b)) as [Hv|Hv].
  - apply E. apply (wf_value_inj N); auto.
  - destruct (u32s_eqb a b) eqn:Eb; [|reflexivity]. exfalso. apply Hv. f_equal. apply E. reflexivity.
Qed.

(* ------------------------------------------------------------------ single-limb bit operations *)
Lemma pow2_e_range e : 0 <= e < 32 -> 0 < 2 ^ e < B32.
Proof.
  intros H. split. apply Z.pow_pos_nonneg; lia.
  change B32 with (2 ^ 32). apply Z.pow_lt_mono_r; lia.
Qed.

Lemma wshl_1 e : 0 <= e < 32 -> wshl 32 1 e = 2 ^ e.
Proof.
  intros H. unfold wshl, wrap. rewrite Z.mul_1_l. apply Z.mod_small.
  pose proof (pow2_e_range e H). rewrite pow32. lia.
Qed.

Lemma wshl_b v e : 0 <= e < 32 -> wshl 32 (b2z v) e = b2z v * 2 ^ e.
Proof.
  intros H. unfold wshl, wrap. apply Z.mod_small.
  pose proof (pow2_e_range e H). rewrite pow32. destruct v; cbn [b2z]; lia.
Qed.

(* x & 2^e isolates bit e *)
Lemma land_pow2 x e : 0 <= e -> Z.land x (2 ^ e) = 2 ^ e * ((x / 2 ^ e) mod 2).
Proof.
  intros He. rewrite <- Z.testbit_spec' by lia.
  apply Z.bits_inj'. intros n Hn. rewrite Z.land_spec, Z.pow2_bits_eqb by lia.
  destruct (Z.testbit x e) eqn:Eb; cbn [Z.b2z].
  - rewrite Z.mul_1_r, Z.pow2_bits_eqb by lia.
    destruct (Z.eqb_spec e n) as [->|]; [rewrite Eb; reflexivity|apply andb_false_r].
  - rewrite Z.mul_0_r, Z.bits_0.
    destruct (Z.eqb_spec e n) as [->|]; [rewrite Eb; reflexivity|apply andb_false_r].
Qed.

(* x = (x & m) + (x & !m) *)
Lemma land_split x m : Z.land x m + Z.land x (Z.lnot m) = x.
Proof.
  rewrite Z.add_nocarry_lxor, Z.lxor_lor.
  - rewrite <- Z.land_lor_distr_r, Z.lor_lnot_diag. apply Z.land_m1_r.
  - rewrite Z.land_assoc, (Z.land_comm (Z.land x m) x), Z.land_assoc, Z.land_diag,
      <- Z.land_assoc, Z.land_lnot_diag. apply Z.land_0_r.
  - rewrite Z.land_assoc, (Z.land_comm (Z.land x m) x), Z.land_assoc, Z.land_diag,
      <- Z.land_assoc, Z.land_lnot_diag. apply Z.land_0_r.
Qed.

Lemma land_wnot x m : limb x -> 0 <= m < B32 -> Z.land x (wnot 32 m) = Z.land x (Z.lnot m).
Proof.
  intros Hx Hm. unfold limb in Hx. rewrite pow32 in Hx.
  assert (E : wnot 32 m = Z.land (Z.lnot m) (Z.ones 32)).
  { rewrite Z.land_ones by lia. unfold wnot, Z.lnot. rewrite pow32. lia. }
  rewrite E, (Z.land_comm (Z.lnot m)), Z.land_assoc, Z.land_ones by lia.
  rewrite pow32, Z.mod_small by lia. reflexivity.
Qed.

Definition bit_of (x e : Z) : Z := (x / 2 ^ e) mod 2.

Lemma lor_limb a b : limb a -> limb b -> limb (Z.lor a b).
Proof.
  unfold limb. intros Ha Hb. split. apply Z.lor_nonneg; lia.
  destruct (Z.eq_dec (Z.lor a b) 0) as [->|Hn]; [reflexivity|].
  apply Z.log2_lt_pow2.
  - assert (0 <= Z.lor a b) by (apply Z.lor_nonneg; lia). lia.
  - rewrite Z.log2_lor by lia.
    assert (Z.log2 a < 32) by (destruct (Z.eq_dec a 0) as [->|]; [cbn; lia|apply Z.log2_lt_pow2; lia]).
    assert (Z.log2 b < 32) by (destruct (Z.eq_dec b 0) as [->|]; [cbn; lia|apply Z.log2_lt_pow2; lia]).
    lia.
Qed.

Lemma limb_get_bit x e : limb x -> 0 <= e < 32 ->
  negb (Z.land x (wshl 32 1 e) =? 0) = (bit_of x e =? 1).
Proof.
  intros Hx He. rewrite wshl_1, land_pow2 by lia. fold (bit_of x e).
  pose proof (pow2_e_range e He). assert (0 <= bit_of x e < 2) by (unfold bit_of; apply Z.mod_pos_bound; lia).
  destruct (Z.eqb_spec (bit_of x e) 1) as [->|Hn].
  - rewrite Z.mul_1_r. destruct (Z.eqb_spec (2 ^ e) 0); [lia|reflexivity].
  - assert (bit_of x e = 0) as -> by lia. rewrite Z.mul_0_r. reflexivity.
Qed.

Lemma limb_set_bit x e v : limb x -> 0 <= e < 32 ->
  let x' := Z.lor (Z.land x (wnot 32 (wshl 32 1 e))) (wshl 32 (b2z v) e) in
  limb x' /\ x' = x - 2 ^ e * bit_of x e + 2 ^ e * b2z v.
Proof.
  intros Hx He. cbv zeta. pose proof (pow2_e_range e He) as Hp.
  rewrite wshl_1, wshl_b by lia. rewrite land_wnot by (auto; lia).
  pose proof (land_split x (2 ^ e)) as S. rewrite land_pow2 in S by lia. fold (bit_of x e) in S.
  set (c := Z.land x (Z.lnot (2 ^ e))) in *.
  assert (Hb : 0 <= bit_of x e < 2) by (unfold bit_of; apply Z.mod_pos_bound; lia).
  assert (Ec : c = x - 2 ^ e * bit_of x e) by lia.
  assert (Hc0 : 0 <= c) by (subst c; apply Z.land_nonneg; left; unfold limb in Hx; lia).
  assert (Hc : limb c).
  { unfold limb in *. rewrite pow32 in *. split; [lia|]. assert (0 <= 2 ^ e * bit_of x e) by (apply Z.mul_nonneg_nonneg; lia). lia. }
  assert (Hv : limb (b2z v * 2 ^ e)).
  { unfold limb. rewrite pow32. destruct v; cbn [b2z]; lia. }
  split. apply lor_limb; auto.
  destruct v; cbn [b2z].
  - rewrite Z.mul_1_l, Z.mul_1_r.
    assert (Z.land c (2 ^ e) = 0).
    { rewrite land_pow2 by lia.
      assert ((c / 2 ^ e) mod 2 = 0); [|lia].
      rewrite Ec. unfold bit_of. set (p := 2 ^ e) in *. set (q := x / p).
      assert (x = p * q + x mod p) by (apply Z.div_mod; lia).
      assert (0 <= x mod p < p) by (apply Z.mod_pos_bound; lia).
      replace (x - p * (q mod 2)) with ((q - q mod 2) * p + x mod p) by lia.
      rewrite Z.div_add_l, Z.div_small by lia. lia. }
    rewrite <- Z.lxor_lor, <- Z.add_nocarry_lxor by auto. lia.
  - rewrite Z.mul_0_l, Z.lor_0_r. lia.
Qed.

(* ------------------------------------------------------------------ arrays *)
Lemma upd_spec : forall l k x v, nth_error l k = Some x ->
  exists l', u32s_upd l k v = Some l' /\ length l' = length l /\
    u32s_value l' = u32s_value l + T k * (v - x) /\
    (limb v -> Forall limb l -> Forall limb l').
Proof.
  induction l as [|y l IH]; intros [|k] x v H; try discriminate.
  - cbn in H. injection H as ->. exists (v :: l). cbn [u32s_upd length]. rewrite !value_cons, T_0.
    repeat split; auto; [lia|]. intros Hv Hl. inversion Hl; subst. constructor; auto.
  - cbn in H. destruct (IH k x v H) as (l' & E & L & V & F).
    exists (y :: l'). cbn [u32s_upd length]. rewrite E. cbn [option_map]. rewrite !value_cons, V, T_S.
    repeat split; auto; [lia|]. intros Hv Hl. inversion Hl; subst. constructor; auto.
Qed.

Lemma nth_error_bit : forall l k x e, Forall limb l -> nth_error l k = Some x -> 0 <= e < 32 ->
  bit_of (u32s_value l) (32 * Z.of_nat k + e) = bit_of x e.
Proof.
  induction l as [|y l IH]; intros [|k] x e Hl H He; try discriminate;
    inversion Hl as [|? ? Hy Hl']; subst; unfold limb in Hy; rewrite pow32 in Hy.
  - cbn in H. injection H as ->. rewrite value_cons. unfold bit_of.
    replace (32 * Z.of_nat 0 + e) with e by lia.
    pose proof (pow2_e_range e He) as Hp.
    assert (E : B32 = 2 ^ e * (2 * 2 ^ (31 - e))).
    { rewrite <- (Z.pow_succ_r 2 (31 - e)), <- Z.pow_add_r by lia. replace (e + Z.succ (31 - e)) with 32 by lia. reflexivity. }
    rewrite E. replace (x + 2 ^ e * (2 * 2 ^ (31 - e)) * u32s_value l) with (x + (2 ^ (31 - e) * u32s_value l * 2) * 2 ^ e) by ring.
    rewrite Z.div_add by lia. rewrite Z.mod_add by lia. reflexivity.
  - cbn in H. rewrite value_cons. unfold bit_of in *. rewrite <- (IH k x e Hl' H He).
    replace (32 * Z.of_nat (S k) + e) with (32 + (32 * Z.of_nat k + e)) by lia.
    rewrite Z.pow_add_r by lia. rewrite <- Z.div_div by (try apply Z.pow_pos_nonneg; lia).
    rewrite pow32. replace (y + B32 * u32s_value l) with (y + u32s_value l * B32) by ring.
    rewrite Z.div_add by lia. rewrite (Z.div_small y) by lia. reflexivity.
Qed.

Lemma bit_index_split (l : list Z) i : 0 <= i < 32 * Z.of_nat (length l) ->
  exists k e x, Z.to_nat (i / 32) = k /\ i mod 32 = e /\ nth_error l k = Some x /\ 0 <= e < 32 /\
                i = 32 * Z.of_nat k + e.
Proof.
  intros H. assert (Hk : (Z.to_nat (i / 32) < length l)%nat) by (apply Nat2Z.inj_lt; rewrite Z2Nat.id; lia).
  destruct (nth_error l (Z.to_nat (i / 32))) as [x|] eqn:E.
  - exists (Z.to_nat (i / 32)), (i mod 32), x. repeat split; auto; try lia. rewrite Z2Nat.id by lia. lia.
  - apply nth_error_None in E. lia.
Qed.

Theorem get_bit_spec l i : Forall limb l -> 0 <= i ->
  if i <? 32 * Z.of_nat (length l)
  then exists b, u32s_get_bit l i = Some b /\ b2z b = bit_of (u32s_value l) i
  else u32s_get_bit l i = None.
Proof.
  intros Hl Hi. unfold u32s_get_bit, u32s_get. destruct (Z.ltb_spec i (32 * Z.of_nat (length l))) as [H|H]; [|reflexivity].
  destruct (bit_index_split l i ltac:(lia)) as (k & e & x & Ek & Ee & E & He & Ei). rewrite Ek, Ee, E.
  eexists. split; [reflexivity|].
  assert (Hx : limb x) by (eapply Forall_forall; [exact Hl|eapply nth_error_In; exact E]).
  rewrite limb_get_bit by auto. rewrite Ei. rewrite (nth_error_bit l k x) by auto.
  assert (0 <= bit_of x e < 2) by (unfold bit_of; apply Z.mod_pos_bound; lia).
  destruct (Z.eqb_spec (bit_of x e) 1); cbn [b2z]; lia.
Qed.

Theorem set_bit_spec N l i v : u32s_wf N l -> 0 <= i ->
  if i <? 32 * Z.of_nat N
  then exists l', u32s_set_bit l i v = Some l' /\ u32s_wf N l' /\
         u32s_value l' = u32s_value l - 2 ^ i * bit_of (u32s_value l) i + 2 ^ i * b2z v
  else u32s_set_bit l i v = None.
Proof.
  intros [L Hl] Hi. unfold u32s_set_bit, u32s_get. rewrite L.
  destruct (Z.ltb_spec i (32 * Z.of_nat N)) as [H|H]; [|reflexivity].
  destruct (bit_index_split l i ltac:(lia)) as (k & e & x & Ek & Ee & E & He & Ei). rewrite Ek, Ee, E.
  assert (Hx : limb x) by (eapply Forall_forall; [exact Hl|eapply nth_error_In; exact E]).
  pose proof (limb_set_bit x e v Hx He) as [Hx' Ex']. cbv zeta in Hx', Ex'.
  destruct (upd_spec l k x (Z.lor (Z.land x (wnot 32 (wshl 32 1 e))) (wshl 32 (b2z v) e)) E)
    as (l' & U & L' & V & F).
  exists l'. split; [exact U|]. split; [split; [lia|auto]|].
  rewrite V, Ex'. rewrite Ei. rewrite (nth_error_bit l k x) by auto.
  assert (Ep : 2 ^ (32 * Z.of_nat k + e) = T k * 2 ^ e).
  { unfold T. rewrite Z.pow_add_r by lia. reflexivity. }
  rewrite Ep. ring.
Qed.
