(* U32sProofs.v - lemmas about the U32s model (model/U32s.v) against the big-integer spec (spec/U32sSpec.v).
   N is an arbitrary nat throughout. *)
From Coq Require Import ZArith Bool List Lia.
From TF Require Import Word BFieldGen U32sGen U32s U32sSpec.
From TF Require BFieldProofs.
Import ListNotations.
Open Scope Z_scope.
Ltac Zify.zify_post_hook ::= Z.div_mod_to_equations.

Notation B32 := 4294967296 (only parsing).
Definition limb (x : Z) : Prop := 0 <= x < 2 ^ 32.
Definition T (n : nat) : Z := 2 ^ (32 * Z.of_nat n).        (* 2^(32 n) *)
Arguments T : simpl never.

Lemma pow32 : 2 ^ 32 = B32. Proof. reflexivity. Qed.
Lemma T_pos n : 0 < T n. Proof. unfold T. apply Z.pow_pos_nonneg; lia. Qed.
Lemma T_0 : T 0 = 1. Proof. reflexivity. Qed.
Lemma T_S n : T (S n) = B32 * T n.
Proof.
  unfold T. replace (32 * Z.of_nat (S n)) with (32 + 32 * Z.of_nat n) by lia.
  rewrite Z.pow_add_r by lia. reflexivity.
Qed.
Lemma T_add n m : T (n + m) = T n * T m.
Proof.
  unfold T. replace (32 * Z.of_nat (n + m)) with (32 * Z.of_nat n + 32 * Z.of_nat m) by lia.
  apply Z.pow_add_r; lia.
Qed.
Lemma T_le n m : (n <= m)%nat -> T n <= T m.
Proof. intros H. unfold T. apply Z.pow_le_mono_r; lia. Qed.
Lemma fits_T N v : u32s_fits N v <-> 0 <= v < T N.
Proof. reflexivity. Qed.

Lemma wf_iff N l : u32s_wf N l <-> length l = N /\ Forall limb l.
Proof. reflexivity. Qed.

(* ------------------------------------------------------------------ value *)
Lemma value_cons x t : u32s_value (x :: t) = x + B32 * u32s_value t.
Proof. reflexivity. Qed.

Lemma value_range l : Forall limb l -> 0 <= u32s_value l < T (length l).
Proof.
  induction 1 as [|x t Hx Ht IH].
  - cbn [length u32s_value]. rewrite T_0. lia.
  - cbn [length]. rewrite T_S, value_cons. unfold limb in Hx. rewrite pow32 in Hx. lia.
Qed.

Lemma value_app a b : u32s_value (a ++ b) = u32s_value a + T (length a) * u32s_value b.
Proof.
  induction a as [|x a IH].
  - cbn [app length u32s_value]. rewrite T_0. lia.
  - cbn [app length]. rewrite !value_cons, IH, T_S. ring.
Qed.

Lemma value_repeat0 n : u32s_value (repeat 0 n) = 0.
Proof. induction n; cbn [repeat]; [reflexivity|]. rewrite value_cons, IHn. reflexivity. Qed.

Lemma Forall_repeat0 n : Forall limb (repeat 0 n).
Proof. induction n; cbn; constructor; auto. unfold limb. rewrite pow32. lia. Qed.

Lemma zero_wf N : u32s_wf N (u32s_zero N).
Proof. split. apply repeat_length. apply Forall_repeat0. Qed.
Lemma zero_value N : u32s_value (u32s_zero N) = 0.
Proof. apply value_repeat0. Qed.

Lemma value_inj a b : length a = length b -> Forall limb a -> Forall limb b ->
  u32s_value a = u32s_value b -> a = b.
Proof.
  revert b. induction a as [|x a IH]; intros [|y b] Hl Ha Hb Hv; try discriminate; [reflexivity|].
  inversion Ha as [|? ? Hx Ha']; inversion Hb as [|? ? Hy Hb']; subst.
  rewrite !value_cons in Hv. unfold limb in Hx, Hy. rewrite pow32 in Hx, Hy.
  assert (x = y /\ u32s_value a = u32s_value b) as [-> E] by lia.
  f_equal. apply IH; auto.
Qed.

Lemma wf_value_inj N a b : u32s_wf N a -> u32s_wf N b -> u32s_value a = u32s_value b -> a = b.
Proof. intros [La Fa] [Lb Fb]. apply value_inj; auto. congruence. Qed.

Lemma wf_fits N l : u32s_wf N l -> u32s_fits N (u32s_value l).
Proof. intros [L F]. apply fits_T. rewrite <- L. apply value_range; auto. Qed.

Lemma wf_range N l : u32s_wf N l -> 0 <= u32s_value l < T N.
Proof. intros [L F]. rewrite <- L. apply value_range; auto. Qed.

Lemma is_zero_spec l : Forall limb l -> u32s_is_zero l = true <-> u32s_value l = 0.
Proof.
  induction 1 as [|x t Hx Ht IH]; cbn [u32s_is_zero forallb].
  - cbn. tauto.
  - rewrite value_cons. fold (u32s_is_zero t). rewrite andb_true_iff, IH, Z.eqb_eq.
    pose proof (value_range t Ht). unfold limb in Hx. lia.
Qed.

(* ------------------------------------------------------------------ Add *)
Lemma add_loop_spec : forall a b c, length a = length b -> Forall limb a -> Forall limb b ->
  let '(r, cf) := u32s_add_loop c a b in
  length r = length a /\ Forall limb r /\
  u32s_value r + T (length a) * b2z cf = u32s_value a + u32s_value b + b2z c.
Proof.
  induction a as [|x a IH]; intros [|y b] c Hl Ha Hb; try discriminate.
  - cbn. rewrite T_0. repeat split; auto; lia.
  - inversion Ha as [|? ? Hx Ha']; inversion Hb as [|? ? Hy Hb']; subst.
    cbn [u32s_add_loop].
    unfold ovf_add at 1. cbv zeta. unfold ovf_add at 1. cbv zeta.
    specialize (IH b ((2 ^ 32 <=? x + y) || (2 ^ 32 <=? wrap 32 (x + y) + b2z c)) ltac:(cbn in Hl; lia) Ha' Hb').
    destruct (u32s_add_loop _ a b) as [t cf]. destruct IH as (L & F & V).
    cbn [length]. rewrite T_S, !value_cons.
    unfold limb in *. unfold wrap in *. rewrite pow32 in *.
    assert (Hc : 0 <= b2z c <= 1) by (destruct c; cbn; lia).
    split; [lia|]. split.
    + constructor; auto. lia.
    + destruct (B32 <=? x + y) eqn:E1; destruct (B32 <=? (x + y) mod B32 + b2z c) eqn:E2;
        cbn [orb b2z] in V; lia.
Qed.

Theorem add_spec N a b : u32s_wf N a -> u32s_wf N b ->
  match u32s_add a b with
  | Some r => u32s_wf N r /\ u32s_value r = u32s_value a + u32s_value b
  | None => T N <= u32s_value a + u32s_value b
  end.
Proof.
  intros [La Fa] [Lb Fb]. unfold u32s_add.
  pose proof (add_loop_spec a b false ltac:(congruence) Fa Fb) as H.
  destruct (u32s_add_loop false a b) as [r cf]. destruct H as (L & F & V).
  rewrite La in *. pose proof (value_range r F) as R. rewrite L in R.
  destruct cf; cbn [b2z] in V.
  - lia.
  - split; [split; auto; lia|lia].
Qed.

(* ------------------------------------------------------------------ Sub *)
Lemma sub_loop_spec : forall a b c, length a = length b -> Forall limb a -> Forall limb b ->
  let '(r, cf) := u32s_sub_loop c a b in
  length r = length a /\ Forall limb r /\
  u32s_value r - T (length a) * b2z cf = u32s_value a - u32s_value b - b2z c.
Proof.
  induction a as [|x a IH]; intros [|y b] c Hl Ha Hb; try discriminate.
  - cbn. rewrite T_0. repeat split; auto; lia.
  - inversion Ha as [|? ? Hx Ha']; inversion Hb as [|? ? Hy Hb']; subst.
    cbn [u32s_sub_loop].
    unfold ovf_sub at 1. cbv zeta. unfold ovf_sub at 1. cbv zeta.
    specialize (IH b ((x <? y) || (wrap 32 (x - y) <? b2z c)) ltac:(cbn in Hl; lia) Ha' Hb').
    destruct (u32s_sub_loop _ a b) as [t cf]. destruct IH as (L & F & V).
    cbn [length]. rewrite T_S, !value_cons.
    unfold limb in *. unfold wrap in *. rewrite pow32 in *.
    assert (Hc : 0 <= b2z c <= 1) by (destruct c; cbn; lia).
    split; [lia|]. split.
    + constructor; auto. lia.
    + destruct (x <? y) eqn:E1; destruct ((x - y) mod B32 <? b2z c) eqn:E2;
        cbn [orb b2z] in V; lia.
Qed.

Theorem sub_spec N a b : u32s_wf N a -> u32s_wf N b ->
  match u32s_sub a b with
  | Some r => u32s_wf N r /\ u32s_value r = u32s_value a - u32s_value b
  | None => u32s_value a - u32s_value b < 0
  end.
Proof.
  intros [La Fa] [Lb Fb]. unfold u32s_sub.
  pose proof (sub_loop_spec a b false ltac:(congruence) Fa Fb) as H.
  destruct (u32s_sub_loop false a b) as [r cf]. destruct H as (L & F & V).
  rewrite La in *. pose proof (value_range r F) as R. rewrite L in R.
  destruct cf; cbn [b2z] in V.
  - lia.
  - split; [split; auto; lia|lia].
Qed.

(* ------------------------------------------------------------------ mul_two *)
Lemma mul_two_loop_spec : forall l c, Forall limb l ->
  let '(r, cf) := u32s_mul_two_loop c l in
  length r = length l /\ Forall limb r /\
  u32s_value r + T (length l) * b2z cf = 2 * u32s_value l + b2z c.
Proof.
  induction l as [|x l IH]; intros c Hl.
  - cbn. rewrite T_0. repeat split; auto; lia.
  - inversion Hl as [|? ? Hx Hl']; subst.
    cbn [u32s_mul_two_loop]. unfold ovf_mul, ovf_add. cbv zeta.
    specialize (IH ((2 ^ 32 <=? wrap 32 (x * 2) + b2z c) || (2 ^ 32 <=? x * 2)) Hl').
    destruct (u32s_mul_two_loop _ l) as [t cf]. destruct IH as (L & F & V).
    cbn [length]. rewrite T_S, !value_cons.
    unfold limb in *. unfold wrap in *. rewrite pow32 in *.
    assert (Hc : 0 <= b2z c <= 1) by (destruct c; cbn; lia).
    split; [lia|]. split.
    + constructor; auto. lia.
    + destruct (B32 <=? (x * 2) mod B32 + b2z c) eqn:E1; destruct (B32 <=? x * 2) eqn:E2;
        cbn [orb b2z] in V; lia.
Qed.

Theorem mul_two_spec N l : u32s_wf N l ->
  match u32s_mul_two l with
  | Some r => u32s_wf N r /\ u32s_value r = 2 * u32s_value l
  | None => T N <= 2 * u32s_value l
  end.
Proof.
  intros [L0 F0]. unfold u32s_mul_two.
  pose proof (mul_two_loop_spec l false F0) as H.
  destruct (u32s_mul_two_loop false l) as [r cf]. destruct H as (L & F & V).
  rewrite L0 in *. pose proof (value_range r F) as R. rewrite L in R.
  destruct cf; cbn [b2z] in V.
  - lia.
  - split; [split; auto; lia|lia].
Qed.

(* ------------------------------------------------------------------ div_two *)
Lemma land_1 x : Z.land x 1 = x mod 2.
Proof. change 1 with (Z.ones 1) at 1. rewrite Z.land_ones by lia. reflexivity. Qed.

Lemma div_two_fold_spec l : Forall limb l ->
  let '(acc, carry) := fold_right u32s_div_two_step ([], false) l in
  length acc = length l /\ Forall limb acc /\ 2 * u32s_value acc + b2z carry = u32s_value l.
Proof.
  induction 1 as [|x t Hx Ht IH].
  - cbn. repeat split; auto.
  - cbn [fold_right]. destruct (fold_right u32s_div_two_step ([], false) t) as [acc carry].
    destruct IH as (L & F & V). unfold u32s_div_two_step.
    rewrite land_1. unfold wshr. change (wshl 32 1 31) with 2147483648. change (2 ^ 1) with 2.
    cbn [length]. rewrite !value_cons. unfold limb in *. rewrite pow32 in *.
    split; [lia|]. split.
    + constructor; auto. destruct carry; lia.
    + destruct (x mod 2 =? 1) eqn:E; destruct carry; cbn [b2z] in *; lia.
Qed.

Theorem div_two_spec N l : u32s_wf N l ->
  u32s_wf N (u32s_div_two l) /\ u32s_value (u32s_div_two l) = u32s_value l / 2.
Proof.
  intros [L0 F0]. unfold u32s_div_two.
  pose proof (div_two_fold_spec l F0) as H.
  destruct (fold_right u32s_div_two_step ([], false) l) as [acc carry]. destruct H as (L & F & V).
  cbn [fst]. split; [split; auto; lia|].
  assert (0 <= b2z carry <= 1) by (destruct carry; cbn; lia). lia.
Qed.

(* ------------------------------------------------------------------ Ord *)
Lemma lex_cmp_spec : forall a b, length a = length b -> Forall limb a -> Forall limb b ->
  lex_cmp a b = (u32s_value (rev a) ?= u32s_value (rev b)).
Proof.
  induction a as [|x a IH]; intros [|y b] Hl Ha Hb; try discriminate.
  - reflexivity.
  - inversion Ha as [|? ? Hx Ha']; inversion Hb as [|? ? Hy Hb']; subst.
    cbn [lex_cmp rev]. rewrite !value_app, !rev_length. cbn [u32s_value].
    assert (Hlen : length a = length b) by (cbn in Hl; lia).
    pose proof (value_range (rev a) ltac:(apply Forall_rev; auto)) as Ra.
    pose proof (value_range (rev b) ltac:(apply Forall_rev; auto)) as Rb.
    rewrite rev_length in Ra, Rb. rewrite <- Hlen in *.
    pose proof (T_pos (length a)) as Tp. set (t := T (length a)) in *.
    rewrite !Z.mul_0_r, !Z.add_0_r.
    destruct (Z.compare_spec x y) as [E|E|E].
    + subst y. rewrite IH by auto.
      destruct (Z.compare_spec (u32s_value (rev a)) (u32s_value (rev b))); symmetry;
        [apply Z.compare_eq_iff|apply Z.compare_lt_iff|apply Z.compare_gt_iff]; lia.
    + symmetry. apply Z.compare_lt_iff.
      assert (t * (x + 1) <= t * y) by (apply Z.mul_le_mono_nonneg_l; lia). lia.
    + symmetry. apply Z.compare_gt_iff.
      assert (t * (y + 1) <= t * x) by (apply Z.mul_le_mono_nonneg_l; lia). lia.
Qed.

Theorem cmp_spec N a b : u32s_wf N a -> u32s_wf N b ->
  u32s_cmp a b = (u32s_value a ?= u32s_value b).
Proof.
  intros [La Fa] [Lb Fb]. unfold u32s_cmp.
  rewrite lex_cmp_spec by (rewrite ?rev_length; try congruence; apply Forall_rev; auto).
  rewrite !rev_involutive. reflexivity.
Qed.

Lemma ge_spec N a b : u32s_wf N a -> u32s_wf N b ->
  u32s_ge a b = (u32s_value b <=? u32s_value a).
Proof.
  intros Ha Hb. unfold u32s_ge. rewrite (cmp_spec N) by auto.
  destruct (Z.compare_spec (u32s_value a) (u32s_value b)); symmetry;
    [apply Z.leb_le|apply Z.leb_gt|apply Z.leb_le]; lia.
Qed.

Lemma eqb_spec N a b : u32s_wf N a -> u32s_wf N b ->
  u32s_eqb a b = (u32s_value a =? u32s_value b).
Proof.
  intros Ha Hb.
  assert (E : u32s_eqb a b = true <-> a = b).
  { clear. revert b. induction a as [|x a IH]; intros [|y b]; cbn; try (split; [discriminate|discriminate]).
    - tauto.
    - rewrite andb_true_iff, Z.eqb_eq, IH. split; [intros [-> ->]; reflexivity|intros H; inversion H; auto]. }
  destruct (Z.eqb_spec (u32s_value a) (u32s_value b)) as [Hv|Hv].
  - apply E. apply (wf_value_inj N); auto.
  - destruct (u32s_eqb a b) eqn:Eb; [|reflexivity]. exfalso. apply Hv. f_equal. apply E. reflexivity.
Qed.

(* ------------------------------------------------------------------ single-limb bit operations *)
Lemma pow2_e_range e : 0 <= e < 32 -> 0 < 2 ^ e < B32.
Proof.
  intros H. split. apply Z.pow_pos_nonneg; lia.
  change B32 with (2 ^ 32). apply Z.pow_lt_mono_r; lia.
Qed.

Lemma wshl_1 e : 0 <= e < 32 -> wshl 32 1 e = 2 ^ e.
Proof.
  intros H. unfold wshl, wrap. rewrite Z.mul_1_l. apply Z.mod_small.
  pose proof (pow2_e_range e H). rewrite pow32. lia.
Qed.

Lemma wshl_b v e : 0 <= e < 32 -> wshl 32 (b2z v) e = b2z v * 2 ^ e.
Proof.
  intros H. unfold wshl, wrap. apply Z.mod_small.
  pose proof (pow2_e_range e H). rewrite pow32. destruct v; cbn [b2z]; lia.
Qed.

(* x & 2^e isolates bit e *)
Lemma land_pow2 x e : 0 <= e -> Z.land x (2 ^ e) = 2 ^ e * ((x / 2 ^ e) mod 2).
Proof.
  intros He. rewrite <- Z.testbit_spec' by lia.
  apply Z.bits_inj'. intros n Hn. rewrite Z.land_spec, Z.pow2_bits_eqb by lia.
  destruct (Z.testbit x e) eqn:Eb; cbn [Z.b2z].
  - rewrite Z.mul_1_r, Z.pow2_bits_eqb by lia.
    destruct (Z.eqb_spec e n) as [->|]; [rewrite Eb; reflexivity|apply andb_false_r].
  - rewrite Z.mul_0_r, Z.bits_0.
    destruct (Z.eqb_spec e n) as [->|]; [rewrite Eb; reflexivity|apply andb_false_r].
Qed.

(* x = (x & m) + (x & !m) *)
Lemma land_split x m : Z.land x m + Z.land x (Z.lnot m) = x.
Proof.
  rewrite Z.add_nocarry_lxor, Z.lxor_lor.
  - rewrite <- Z.land_lor_distr_r, Z.lor_lnot_diag. apply Z.land_m1_r.
  - rewrite Z.land_assoc, (Z.land_comm (Z.land x m) x), Z.land_assoc, Z.land_diag,
      <- Z.land_assoc, Z.land_lnot_diag. apply Z.land_0_r.
  - rewrite Z.land_assoc, (Z.land_comm (Z.land x m) x), Z.land_assoc, Z.land_diag,
      <- Z.land_assoc, Z.land_lnot_diag. apply Z.land_0_r.
Qed.

Lemma land_wnot x m : limb x -> 0 <= m < B32 -> Z.land x (wnot 32 m) = Z.land x (Z.lnot m).
Proof.
  intros Hx Hm. unfold limb in Hx. rewrite pow32 in Hx.
  assert (E : wnot 32 m = Z.land (Z.lnot m) (Z.ones 32)).
  { rewrite Z.land_ones by lia. unfold wnot, Z.lnot. rewrite pow32. lia. }
  rewrite E, (Z.land_comm (Z.lnot m)), Z.land_assoc, Z.land_ones by lia.
  rewrite pow32, Z.mod_small by lia. reflexivity.
Qed.

Definition bit_of (x e : Z) : Z := (x / 2 ^ e) mod 2.

Lemma lor_limb a b : limb a -> limb b -> limb (Z.lor a b).
Proof.
  unfold limb. intros Ha Hb. split. apply Z.lor_nonneg; lia.
  destruct (Z.eq_dec (Z.lor a b) 0) as [->|Hn]; [reflexivity|].
  apply Z.log2_lt_pow2.
  - assert (0 <= Z.lor a b) by (apply Z.lor_nonneg; lia). lia.
  - rewrite Z.log2_lor by lia.
    assert (Z.log2 a < 32) by (destruct (Z.eq_dec a 0) as [->|]; [cbn; lia|apply Z.log2_lt_pow2; lia]).
    assert (Z.log2 b < 32) by (destruct (Z.eq_dec b 0) as [->|]; [cbn; lia|apply Z.log2_lt_pow2; lia]).
    lia.
Qed.

Lemma limb_get_bit x e : limb x -> 0 <= e < 32 ->
  negb (Z.land x (wshl 32 1 e) =? 0) = (bit_of x e =? 1).
Proof.
  intros Hx He. rewrite wshl_1, land_pow2 by lia. fold (bit_of x e).
  pose proof (pow2_e_range e He). assert (0 <= bit_of x e < 2) by (unfold bit_of; apply Z.mod_pos_bound; lia).
  destruct (Z.eqb_spec (bit_of x e) 1) as [->|Hn].
  - rewrite Z.mul_1_r. destruct (Z.eqb_spec (2 ^ e) 0); [lia|reflexivity].
  - assert (bit_of x e = 0) as -> by lia. rewrite Z.mul_0_r. reflexivity.
Qed.

Lemma limb_set_bit x e v : limb x -> 0 <= e < 32 ->
  let x' := Z.lor (Z.land x (wnot 32 (wshl 32 1 e))) (wshl 32 (b2z v) e) in
  limb x' /\ x' = x - 2 ^ e * bit_of x e + 2 ^ e * b2z v.
Proof.
  intros Hx He. cbv zeta. pose proof (pow2_e_range e He) as Hp.
  rewrite wshl_1, wshl_b by lia. rewrite land_wnot by (auto; lia).
  pose proof (land_split x (2 ^ e)) as S. rewrite land_pow2 in S by lia. fold (bit_of x e) in S.
  set (c := Z.land x (Z.lnot (2 ^ e))) in *.
  assert (Hb : 0 <= bit_of x e < 2) by (unfold bit_of; apply Z.mod_pos_bound; lia).
  assert (Ec : c = x - 2 ^ e * bit_of x e) by lia.
  assert (Hc0 : 0 <= c) by (subst c; apply Z.land_nonneg; left; unfold limb in Hx; lia).
  assert (Hc : limb c).
  { unfold limb in *. rewrite pow32 in *. split; [lia|]. assert (0 <= 2 ^ e * bit_of x e) by (apply Z.mul_nonneg_nonneg; lia). lia. }
  assert (Hv : limb (b2z v * 2 ^ e)).
  { unfold limb. rewrite pow32. destruct v; cbn [b2z]; lia. }
  split. apply lor_limb; auto.
  destruct v; cbn [b2z].
  - rewrite Z.mul_1_l, Z.mul_1_r.
    assert (Z.land c (2 ^ e) = 0).
    { rewrite land_pow2 by lia.
      assert ((c / 2 ^ e) mod 2 = 0); [|lia].
      rewrite Ec. unfold bit_of. set (p := 2 ^ e) in *. set (q := x / p).
      assert (x = p * q + x mod p) by (apply Z.div_mod; lia).
      assert (0 <= x mod p < p) by (apply Z.mod_pos_bound; lia).
      replace (x - p * (q mod 2)) with ((q - q mod 2) * p + x mod p) by lia.
      rewrite Z.div_add_l, Z.div_small by lia. lia. }
    rewrite <- Z.lxor_lor, <- Z.add_nocarry_lxor by auto. lia.
  - rewrite Z.mul_0_l, Z.lor_0_r. lia.
Qed.

(* ------------------------------------------------------------------ arrays *)
Lemma upd_spec : forall l k x v, nth_error l k = Some x ->
  exists l', u32s_upd l k v = Some l' /\ length l' = length l /\
    u32s_value l' = u32s_value l + T k * (v - x) /\
    (limb v -> Forall limb l -> Forall limb l').
Proof.
  induction l as [|y l IH]; intros [|k] x v H; try discriminate.
  - cbn in H. injection H as ->. exists (v :: l). cbn [u32s_upd length]. rewrite !value_cons, T_0.
    repeat split; auto; [lia|]. intros Hv Hl. inversion Hl; subst. constructor; auto.
  - cbn in H. destruct (IH k x v H) as (l' & E & L & V & F).
    exists (y :: l'). cbn [u32s_upd length]. rewrite E. cbn [option_map]. rewrite !value_cons, V, T_S.
    repeat split; auto; [lia|]. intros Hv Hl. inversion Hl; subst. constructor; auto.
Qed.

Lemma nth_error_bit : forall l k x e, Forall limb l -> nth_error l k = Some x -> 0 <= e < 32 ->
  bit_of (u32s_value l) (32 * Z.of_nat k + e) = bit_of x e.
Proof.
  induction l as [|y l IH]; intros [|k] x e Hl H He; try discriminate;
    inversion Hl as [|? ? Hy Hl']; subst; unfold limb in Hy; rewrite pow32 in Hy.
  - cbn in H. injection H as ->. rewrite value_cons. unfold bit_of.
    replace (32 * Z.of_nat 0 + e) with e by lia.
    pose proof (pow2_e_range e He) as Hp.
    assert (E : B32 = 2 ^ e * (2 * 2 ^ (31 - e))).
    { rewrite <- (Z.pow_succ_r 2 (31 - e)), <- Z.pow_add_r by lia. replace (e + Z.succ (31 - e)) with 32 by lia. reflexivity. }
    rewrite E. replace (x + 2 ^ e * (2 * 2 ^ (31 - e)) * u32s_value l) with (x + (2 ^ (31 - e) * u32s_value l * 2) * 2 ^ e) by ring.
    rewrite Z.div_add by lia. rewrite Z.mod_add by lia. reflexivity.
  - cbn in H. rewrite value_cons. unfold bit_of in *. rewrite <- (IH k x e Hl' H He).
    replace (32 * Z.of_nat (S k) + e) with (32 + (32 * Z.of_nat k + e)) by lia.
    rewrite Z.pow_add_r by lia. rewrite <- Z.div_div by (try apply Z.pow_pos_nonneg; lia).
    rewrite pow32. replace (y + B32 * u32s_value l) with (y + u32s_value l * B32) by ring.
    rewrite Z.div_add by lia. rewrite (Z.div_small y) by lia. reflexivity.
Qed.

Lemma bit_index_split (l : list Z) i : 0 <= i < 32 * Z.of_nat (length l) ->
  exists k e x, Z.to_nat (i / 32) = k /\ i mod 32 = e /\ nth_error l k = Some x /\ 0 <= e < 32 /\
                i = 32 * Z.of_nat k + e.
Proof.
  intros H. assert (Hk : (Z.to_nat (i / 32) < length l)%nat) by (apply Nat2Z.inj_lt; rewrite Z2Nat.id; lia).
  destruct (nth_error l (Z.to_nat (i / 32))) as [x|] eqn:E.
  - exists (Z.to_nat (i / 32)), (i mod 32), x. repeat split; auto; try lia; rewrite Z2Nat.id by lia; lia.
  - apply nth_error_None in E. lia.
Qed.

Theorem get_bit_spec l i : Forall limb l -> 0 <= i ->
  if i <? 32 * Z.of_nat (length l)
  then exists b, u32s_get_bit l i = Some b /\ b2z b = bit_of (u32s_value l) i
  else u32s_get_bit l i = None.
Proof.
  intros Hl Hi. unfold u32s_get_bit, u32s_get. destruct (Z.ltb_spec i (32 * Z.of_nat (length l))) as [H|H]; [|reflexivity].
  destruct (bit_index_split l i ltac:(lia)) as (k & e & x & Ek & Ee & E & He & Ei). rewrite Ek, Ee, E.
  eexists. split; [reflexivity|].
  assert (Hx : limb x) by (eapply Forall_forall; [exact Hl|eapply nth_error_In; exact E]).
  rewrite limb_get_bit by auto. rewrite Ei. rewrite (nth_error_bit l k x) by auto.
  assert (0 <= bit_of x e < 2) by (unfold bit_of; apply Z.mod_pos_bound; lia).
  destruct (Z.eqb_spec (bit_of x e) 1); cbn [b2z]; lia.
Qed.

Theorem set_bit_spec N l i v : u32s_wf N l -> 0 <= i ->
  if i <? 32 * Z.of_nat N
  then exists l', u32s_set_bit l i v = Some l' /\ u32s_wf N l' /\
         u32s_value l' = u32s_value l - 2 ^ i * bit_of (u32s_value l) i + 2 ^ i * b2z v
  else u32s_set_bit l i v = None.
Proof.
  intros [L Hl] Hi. unfold u32s_set_bit, u32s_get. rewrite L.
  destruct (Z.ltb_spec i (32 * Z.of_nat N)) as [H|H]; [|reflexivity].
  destruct (bit_index_split l i ltac:(lia)) as (k & e & x & Ek & Ee & E & He & Ei). rewrite Ek, Ee, E.
  assert (Hx : limb x) by (eapply Forall_forall; [exact Hl|eapply nth_error_In; exact E]).
  pose proof (limb_set_bit x e v Hx He) as [Hx' Ex']. cbv zeta in Hx', Ex'.
  destruct (upd_spec l k x (Z.lor (Z.land x (wnot 32 (wshl 32 1 e))) (wshl 32 (b2z v) e)) E)
    as (l' & U & L' & V & F).
  exists l'. split; [exact U|]. split; [split; [lia|auto]|].
  rewrite V, Ex'. rewrite Ei. rewrite (nth_error_bit l k x) by auto.
  assert (Ep : 2 ^ (32 * Z.of_nat k + e) = T k * 2 ^ e).
  { unfold T. rewrite Z.pow_add_r by lia. reflexivity. }
  rewrite Ep. ring.
Qed.

(* ------------------------------------------------------------------ rem_div *)
Lemma bit_of_range x e : 0 <= bit_of x e < 2.
Proof. unfold bit_of. apply Z.mod_pos_bound. lia. Qed.

Lemma bit_of_double x : bit_of (2 * x) 0 = 0.
Proof. unfold bit_of. rewrite Z.pow_0_r, Z.div_1_r. lia. Qed.

Lemma bit_of_mul_pow2 i Q : 0 <= i -> bit_of (2 ^ (i + 1) * Q) i = 0.
Proof.
  intros Hi. unfold bit_of. rewrite Z.pow_add_r by lia. change (2 ^ 1) with 2.
  replace (2 ^ i * 2 * Q) with ((2 * Q) * 2 ^ i) by ring.
  rewrite Z.div_mul by (apply Z.pow_nonzero; lia). lia.
Qed.

Lemma div_pow2_step A i : 0 <= i -> A / 2 ^ i = 2 * (A / 2 ^ (i + 1)) + bit_of A i.
Proof.
  intros Hi. unfold bit_of. rewrite Z.pow_add_r by lia. change (2 ^ 1) with 2.
  rewrite <- Z.div_div by (try apply Z.pow_pos_nonneg; lia). lia.
Qed.

Lemma rem_div_step_spec N a d i q r Q :
  u32s_wf N a -> u32s_wf N d -> 0 < u32s_value d ->
  u32s_wf N q -> u32s_wf N r ->
  0 <= i < 32 * Z.of_nat N ->
  u32s_value q = 2 ^ (i + 1) * Q ->
  u32s_value a / 2 ^ (i + 1) = Q * u32s_value d + u32s_value r ->
  u32s_value r < u32s_value d ->
  exists q' r' Q', u32s_rem_div_step a d i q r = Some (q', r') /\ u32s_wf N q' /\ u32s_wf N r' /\
    u32s_value q' = 2 ^ i * Q' /\
    u32s_value a / 2 ^ i = Q' * u32s_value d + u32s_value r' /\
    u32s_value r' < u32s_value d.
Proof.
  intros Ha Hd HD Hq Hr Hi Vq Inv Rlt.
  pose proof (wf_range N a Ha) as FA. pose proof (wf_range N r Hr) as FR. pose proof (wf_range N q Hq) as FQ.
  set (A := u32s_value a) in *. set (D := u32s_value d) in *. set (R := u32s_value r) in *.
  assert (Hp1 : 0 < 2 ^ (i + 1)) by (apply Z.pow_pos_nonneg; lia).
  assert (Hp : 0 < 2 ^ i) by (apply Z.pow_pos_nonneg; lia).
  assert (HQ : 0 <= Q).
  { destruct (Z.le_gt_cases 0 Q) as [|Hneg]; auto. exfalso.
    assert (2 ^ (i + 1) * Q < 0) by (apply Z.mul_pos_neg; lia). lia. }
  assert (HQD : 0 <= Q * D) by (apply Z.mul_nonneg_nonneg; lia).
  (* the doubling cannot overflow: R <= A / 2^(i+1) <= A / 2 *)
  assert (H2R : 2 * R < T N).
  { assert (A / 2 ^ (i + 1) <= A / 2).
    { apply Z.div_le_compat_l; [lia|]. split; [lia|]. rewrite Z.pow_add_r by lia. change (2 ^ 1) with 2. lia. }
    lia. }
  unfold u32s_rem_div_step.
  pose proof (mul_two_spec N r Hr) as M. destruct (u32s_mul_two r) as [r1|]; [|fold R in M; lia].
  destruct M as [Hr1 V1]. fold R in V1.
  pose proof (get_bit_spec a i (proj2 Ha) ltac:(lia)) as G. rewrite (proj1 Ha) in G.
  destruct (Z.ltb_spec i (32 * Z.of_nat N)) as [_|]; [|lia].
  destruct G as (bit & -> & Hbit). fold A in Hbit.
  pose proof (set_bit_spec N r1 0 bit Hr1 ltac:(lia)) as S.
  destruct (Z.ltb_spec 0 (32 * Z.of_nat N)) as [_|]; [|lia].
  destruct S as (r2 & -> & Hr2 & V2). rewrite V1, bit_of_double, Z.pow_0_r, Hbit in V2.
  pose proof (bit_of_range A i) as Hb.
  pose proof (div_pow2_step A i ltac:(lia)) as Estep. rewrite Inv in Estep.
  rewrite (ge_spec N) by auto. fold D.
  destruct (Z.leb_spec D (u32s_value r2)) as [Hge|Hlt].
  - pose proof (sub_spec N r2 d Hr2 Hd) as Sb. destruct (u32s_sub r2 d) as [r3|]; [|fold D in Sb; lia].
    destruct Sb as [Hr3 V3]. fold D in V3.
    pose proof (set_bit_spec N q i true Hq ltac:(lia)) as S.
    destruct (Z.ltb_spec i (32 * Z.of_nat N)) as [_|]; [|lia].
    destruct S as (q1 & -> & Hq1 & Vq1). rewrite Vq, bit_of_mul_pow2 in Vq1 by lia. cbn [b2z] in Vq1.
    exists q1, r3, (2 * Q + 1). split; [reflexivity|]. split; [exact Hq1|]. split; [exact Hr3|]. repeat split.
    + rewrite Vq1. rewrite Z.pow_add_r by lia. change (2 ^ 1) with 2. ring.
    + rewrite Estep, V3, V2. ring.
    + lia.
  - exists q, r2, (2 * Q). split; [reflexivity|]. split; [exact Hq|]. split; [exact Hr2|]. repeat split.
    + rewrite Vq. rewrite Z.pow_add_r by lia. change (2 ^ 1) with 2. ring.
    + rewrite Estep, V2. ring.
    + lia.
Qed.

Lemma rem_div_loop_spec N a d :
  u32s_wf N a -> u32s_wf N d -> 0 < u32s_value d ->
  forall n q r Q, (n <= 32 * N)%nat -> u32s_wf N q -> u32s_wf N r ->
    u32s_value q = 2 ^ Z.of_nat n * Q ->
    u32s_value a / 2 ^ Z.of_nat n = Q * u32s_value d + u32s_value r ->
    u32s_value r < u32s_value d ->
    exists q' r', u32s_rem_div_loop a d n q r = Some (q', r') /\ u32s_wf N q' /\ u32s_wf N r' /\
      u32s_value a = u32s_value q' * u32s_value d + u32s_value r' /\ u32s_value r' < u32s_value d.
Proof.
  intros Ha Hd HD. induction n as [|n IH]; intros q r Q Hn Hq Hr Vq Inv Rlt.
  - exists q, r. cbn [u32s_rem_div_loop]. change (2 ^ Z.of_nat 0) with 1 in *.
    rewrite Z.div_1_r in Inv. split; [reflexivity|]. split; [exact Hq|]. split; [exact Hr|]. split; [|exact Rlt].
    rewrite Vq, Inv. ring.
  - cbn [u32s_rem_div_loop].
    replace (Z.of_nat (S n)) with (Z.of_nat n + 1) in * by lia.
    destruct (rem_div_step_spec N a d (Z.of_nat n) q r Q Ha Hd HD Hq Hr ltac:(lia) Vq Inv Rlt)
      as (q' & r' & Q' & -> & Hq' & Hr' & Vq' & Inv' & Rlt').
    apply (IH q' r' Q'); auto. lia.
Qed.

Theorem rem_div_spec N a d : u32s_wf N a -> u32s_wf N d ->
  match u32s_rem_div a d with
  | Some (q, r) => u32s_value d <> 0 /\ u32s_wf N q /\ u32s_wf N r /\
                   u32s_value a = u32s_value q * u32s_value d + u32s_value r /\
                   0 <= u32s_value r < u32s_value d
  | None => u32s_value d = 0
  end.
Proof.
  intros Ha Hd. unfold u32s_rem_div.
  pose proof (is_zero_spec d (proj2 Hd)) as Z0.
  destruct (u32s_is_zero d); [apply Z0; reflexivity|].
  assert (HD : 0 < u32s_value d).
  { pose proof (wf_range N d Hd) as F.
    destruct (Z.eq_dec (u32s_value d) 0) as [E|]; [apply Z0 in E; discriminate|lia]. }
  rewrite (proj1 Ha).
  pose proof (wf_range N a Ha) as FA.
  assert (E32 : Z.of_nat (N * 32) = 32 * Z.of_nat N) by lia.
  destruct (rem_div_loop_spec N a d Ha Hd HD (N * 32) (u32s_zero N) (u32s_zero N) 0 ltac:(lia)
              (zero_wf N) (zero_wf N)) as (q & r & -> & Hq & Hr & V & Rlt).
  - rewrite zero_value. ring.
  - rewrite zero_value, E32. fold (T N). rewrite Z.div_small by lia. ring.
  - rewrite zero_value. exact HD.
  - pose proof (wf_range N r Hr) as FR. split; [lia|]. split; [exact Hq|]. split; [exact Hr|]. split; [exact V|lia].
Qed.

Theorem div_rem_spec N a d : u32s_wf N a -> u32s_wf N d ->
  match u32s_div a d, u32s_rem a d with
  | Some q, Some r => u32s_value d <> 0 /\ u32s_wf N q /\ u32s_wf N r /\
                      u32s_value q = u32s_value a / u32s_value d /\ u32s_value r = u32s_value a mod u32s_value d
  | None, None => u32s_value d = 0
  | _, _ => False
  end.
Proof.
  intros Ha Hd. unfold u32s_div, u32s_rem. pose proof (rem_div_spec N a d Ha Hd) as H.
  destruct (u32s_rem_div a d) as [[q r]|]; cbn [option_map fst snd]; [|exact H].
  destruct H as (HD & Hq & Hr & V & R). split; [exact HD|]. split; [exact Hq|]. split; [exact Hr|]. split.
  - apply Z.div_unique_pos with (u32s_value r); lia.
  - apply Z.mod_unique_pos with (u32s_value q); lia.
Qed.

(* ------------------------------------------------------------------ Mul *)
Lemma ripple_spec l : Forall limb l ->
  match u32s_ripple l with
  | Some l' => length l' = length l /\ Forall limb l' /\ u32s_value l' = u32s_value l + 1
  | None => u32s_value l + 1 = T (length l)
  end.
Proof.
  induction 1 as [|x t Hx Ht IH].
  - cbn. reflexivity.
  - cbn [u32s_ripple]. unfold ovf_add. cbn [b2z]. unfold wrap. rewrite pow32.
    unfold limb in Hx. rewrite pow32 in Hx.
    destruct (Z.leb_spec B32 (x + 1)) as [Hc|Hc].
    + destruct (u32s_ripple t) as [t'|]; cbn [option_map length]; rewrite ?T_S, !value_cons.
      * destruct IH as (L & F & V). split; [lia|]. split; [constructor; auto; unfold limb; rewrite pow32; lia|]. lia.
      * lia.
    + cbn [length]. rewrite !value_cons. split; [reflexivity|].
      split; [constructor; auto; unfold limb; rewrite pow32; lia|]. lia.
Qed.

Lemma firstn_skipn_value (l : list Z) pos :
  u32s_value l = u32s_value (firstn pos l) + T (length (firstn pos l)) * u32s_value (skipn pos l).
Proof. rewrite <- value_app, firstn_skipn. reflexivity. Qed.

Lemma add_at_spec res pos x : Forall limb res -> limb x -> (pos < length res)%nat ->
  match u32s_add_at res pos x with
  | Some r => length r = length res /\ Forall limb r /\ u32s_value r = u32s_value res + T pos * x
  | None => T (length res) <= u32s_value res + T pos * x
  end.
Proof.
  intros Hr Hx Hpos. unfold u32s_add_at.
  pose proof (firstn_skipn pos res) as Esplit.
  pose proof (firstn_length_le res (n := pos) ltac:(lia)) as Lpre.
  assert (Fboth : Forall limb (firstn pos res) /\ Forall limb (skipn pos res)).
  { apply Forall_app. rewrite Esplit. exact Hr. }
  destruct Fboth as [Fpre Fsuf].
  pose proof (firstn_skipn_value res pos) as V0. rewrite Lpre in V0.
  assert (Lsuf : length (skipn pos res) = (length res - pos)%nat) by apply skipn_length.
  destruct (skipn pos res) as [|y t] eqn:Es; [cbn in Lsuf; lia|].
  inversion Fsuf as [|? ? Hy Ht]; subst.
  unfold ovf_add, wrap. rewrite pow32. unfold limb in Hx, Hy. rewrite pow32 in Hx, Hy.
  rewrite value_cons in V0.
  pose proof (value_range _ Fpre) as Rpre. rewrite Lpre in Rpre.
  pose proof (T_pos pos) as Tp.
  assert (Elen : length res = (pos + S (length t))%nat) by (cbn in Lsuf; lia).
  destruct (Z.leb_spec B32 (y + x)) as [Hc|Hc].
  - pose proof (ripple_spec t Ht) as Rp. destruct (u32s_ripple t) as [t'|]; cbn [option_map].
    + destruct Rp as (L & F & V). rewrite app_length. cbn [length]. rewrite Lpre, L.
      split; [lia|]. split.
      * apply Forall_app. split; auto. constructor; auto. unfold limb. rewrite pow32. lia.
      * rewrite value_app, Lpre, value_cons, V, V0.
        replace ((y + x) mod B32) with (y + x - B32) by lia. ring.
    + rewrite Elen, T_add, T_S, V0.
      assert (E : u32s_value (firstn pos res) + T pos * (y + B32 * u32s_value t) + T pos * x
                  = u32s_value (firstn pos res) + T pos * (y + x - B32) + T pos * (B32 * T (length t))) by (rewrite <- Rp; ring).
      rewrite E. assert (0 <= T pos * (y + x - B32)) by (apply Z.mul_nonneg_nonneg; lia). lia.
  - rewrite app_length. cbn [length]. rewrite Lpre. split; [lia|]. split.
    + apply Forall_app. split; auto. constructor; auto. unfold limb. rewrite pow32. lia.
    + rewrite value_app, Lpre, value_cons, V0. rewrite Z.mod_small by lia. ring.
Qed.

Lemma mul_hi_lo ai bj : limb ai -> limb bj ->
  let hi := ucast 32 (wshr (ai * bj) 32) in let lo := ucast 32 (ai * bj) in
  limb hi /\ limb lo /\ ai * bj = hi * B32 + lo /\ 0 <= ai * bj < 2 ^ 64.
Proof.
  unfold limb, ucast, wshr, wrap. rewrite pow32. intros Ha Hb. cbv zeta.
  assert (0 <= ai * bj) by (apply Z.mul_nonneg_nonneg; lia).
  assert (ai * bj <= 4294967295 * 4294967295) by (apply Z.mul_le_mono_nonneg; lia).
  change (2 ^ 64) with 18446744073709551616. lia.
Qed.

Lemma mul_cell_spec N ai bj i j res : u32s_wf N res -> limb ai -> limb bj ->
  match u32s_mul_cell N ai bj i j res with
  | Some r => u32s_wf N r /\ u32s_value r = u32s_value res + ai * bj * T (i + j)
  | None => T N <= u32s_value res + ai * bj * T (i + j)
  end.
Proof.
  intros [L F] Ha Hb. unfold u32s_mul_cell. cbv zeta.
  destruct (mul_hi_lo ai bj Ha Hb) as (Hhi & Hlo & E & _). cbv zeta in Hhi, Hlo, E.
  set (hi := ucast 32 (wshr (ai * bj) 32)) in *. set (lo := ucast 32 (ai * bj)) in *.
  pose proof (value_range res F) as Rres. rewrite L in Rres.
  pose proof (T_pos (i + j)) as Tp.
  unfold limb in Hhi, Hlo. rewrite pow32 in Hhi, Hlo.
  destruct (Z.eqb_spec hi 0) as [Eh|Eh]; destruct (Z.eqb_spec lo 0) as [El|El]; cbn [andb].
  - (* product is zero *)
    rewrite orb_true_r. cbn [negb]. rewrite E, Eh, El. split; [split; auto|ring].
  - rewrite orb_false_r. destruct (Nat.ltb_spec (i + j) N) as [Hij|Hij]; cbn [negb].
    + pose proof (add_at_spec res (i + j) lo F ltac:(unfold limb; rewrite pow32; lia) ltac:(lia)) as A1.
      destruct (u32s_add_at res (i + j) lo) as [res1|].
      * destruct A1 as (L1 & F1 & V1). split; [split; auto; lia|]. rewrite V1, E, Eh. ring.
      * rewrite L in A1. rewrite E, Eh. lia.
    + assert (T N <= T (i + j)) by (apply T_le; lia).
      assert (1 * T (i + j) <= ai * bj * T (i + j)) by (apply Z.mul_le_mono_nonneg_r; lia). lia.
  - rewrite orb_false_r. destruct (Nat.ltb_spec (i + j) N) as [Hij|Hij]; cbn [negb].
    + pose proof (add_at_spec res (i + j) lo F ltac:(unfold limb; rewrite pow32; lia) ltac:(lia)) as A1.
      destruct (u32s_add_at res (i + j) lo) as [res1|].
      * destruct A1 as (L1 & F1 & V1).
        destruct (Nat.ltb_spec (i + j + 1) N) as [Hij1|Hij1]; cbn [negb].
        -- pose proof (add_at_spec res1 (i + j + 1) hi F1 ltac:(unfold limb; rewrite pow32; lia) ltac:(lia)) as A2.
           replace (T (i + j + 1)) with (B32 * T (i + j)) in A2 by (rewrite <- T_S; f_equal; lia).
           destruct (u32s_add_at res1 (i + j + 1) hi) as [res2|].
           ++ destruct A2 as (L2 & F2 & V2). split; [split; auto; lia|]. rewrite V2, V1, E. ring.
           ++ rewrite L1, L in A2. rewrite V1 in A2. rewrite E. lia.
        -- assert (T N <= T (i + j + 1)) by (apply T_le; lia).
           replace (T (i + j + 1)) with (B32 * T (i + j)) in * by (rewrite <- T_S; f_equal; lia).
           assert (1 * (B32 * T (i + j)) <= hi * (B32 * T (i + j))) by (apply Z.mul_le_mono_nonneg_r; lia).
           rewrite E. pose proof (value_range res1 F1). 
           assert (0 <= lo * T (i + j)) by (apply Z.mul_nonneg_nonneg; lia). lia.
      * rewrite L in A1. rewrite E.
        assert (0 <= hi * B32 * T (i + j)) by (apply Z.mul_nonneg_nonneg; lia). lia.
    + assert (T N <= T (i + j)) by (apply T_le; lia).
      assert (1 * T (i + j) <= ai * bj * T (i + j)) by (apply Z.mul_le_mono_nonneg_r; lia). lia.
  - rewrite orb_false_r. destruct (Nat.ltb_spec (i + j) N) as [Hij|Hij]; cbn [negb].
    + pose proof (add_at_spec res (i + j) lo F ltac:(unfold limb; rewrite pow32; lia) ltac:(lia)) as A1.
      destruct (u32s_add_at res (i + j) lo) as [res1|].
      * destruct A1 as (L1 & F1 & V1).
        destruct (Nat.ltb_spec (i + j + 1) N) as [Hij1|Hij1]; cbn [negb].
        -- pose proof (add_at_spec res1 (i + j + 1) hi F1 ltac:(unfold limb; rewrite pow32; lia) ltac:(lia)) as A2.
           replace (T (i + j + 1)) with (B32 * T (i + j)) in A2 by (rewrite <- T_S; f_equal; lia).
           destruct (u32s_add_at res1 (i + j + 1) hi) as [res2|].
           ++ destruct A2 as (L2 & F2 & V2). split; [split; auto; lia|]. rewrite V2, V1, E. ring.
           ++ rewrite L1, L in A2. rewrite V1 in A2. rewrite E. lia.
        -- assert (T N <= T (i + j + 1)) by (apply T_le; lia).
           replace (T (i + j + 1)) with (B32 * T (i + j)) in * by (rewrite <- T_S; f_equal; lia).
           assert (1 * (B32 * T (i + j)) <= hi * (B32 * T (i + j))) by (apply Z.mul_le_mono_nonneg_r; lia).
           rewrite E. pose proof (value_range res1 F1).
           assert (0 <= lo * T (i + j)) by (apply Z.mul_nonneg_nonneg; lia). lia.
      * rewrite L in A1. rewrite E.
        assert (0 <= hi * B32 * T (i + j)) by (apply Z.mul_nonneg_nonneg; lia). lia.
    + assert (T N <= T (i + j)) by (apply T_le; lia).
      assert (1 * T (i + j) <= ai * bj * T (i + j)) by (apply Z.mul_le_mono_nonneg_r; lia). lia.
Qed.

Lemma mul_inner_spec N ai i : limb ai -> forall bs j res, Forall limb bs -> u32s_wf N res ->
  match u32s_mul_inner N ai i bs j res with
  | Some r => u32s_wf N r /\ u32s_value r = u32s_value res + ai * u32s_value bs * T (i + j)
  | None => T N <= u32s_value res + ai * u32s_value bs * T (i + j)
  end.
Proof.
  intros Ha. induction bs as [|bj bs IH]; intros j res Hbs Hres.
  - cbn [u32s_mul_inner u32s_value]. split; [exact Hres|ring].
  - inversion Hbs as [|? ? Hb Hbs']; subst. cbn [u32s_mul_inner]. rewrite value_cons.
    pose proof (mul_cell_spec N ai bj i j res Hres Ha Hb) as C.
    pose proof (value_range bs Hbs') as Rbs. pose proof (T_pos (i + j)) as Tp.
    unfold limb in Ha, Hb. rewrite pow32 in Ha, Hb.
    assert (Hrest : 0 <= ai * (B32 * u32s_value bs) * T (i + j)).
    { apply Z.mul_nonneg_nonneg; [|lia]. apply Z.mul_nonneg_nonneg; lia. }
    destruct (u32s_mul_cell N ai bj i j res) as [res'|].
    + destruct C as [Hres' V']. specialize (IH (S j) res' Hbs' Hres').
      replace (T (i + S j)) with (B32 * T (i + j)) in IH by (rewrite <- T_S; f_equal; lia).
      destruct (u32s_mul_inner N ai i bs (S j) res') as [r|].
      * destruct IH as [Hr V]. split; [exact Hr|]. rewrite V, V'. ring.
      * rewrite V' in IH. replace (ai * (bj + B32 * u32s_value bs) * T (i + j))
          with (ai * bj * T (i + j) + ai * u32s_value bs * (B32 * T (i + j))) by ring. lia.
    + replace (ai * (bj + B32 * u32s_value bs) * T (i + j))
        with (ai * bj * T (i + j) + ai * (B32 * u32s_value bs) * T (i + j)) by ring. lia.
Qed.

Lemma mul_outer_spec N b : Forall limb b -> forall as_ i res, Forall limb as_ -> u32s_wf N res ->
  match u32s_mul_outer N as_ i b res with
  | Some r => u32s_wf N r /\ u32s_value r = u32s_value res + u32s_value as_ * u32s_value b * T i
  | None => T N <= u32s_value res + u32s_value as_ * u32s_value b * T i
  end.
Proof.
  intros Hb. induction as_ as [|ai as_ IH]; intros i res Has Hres.
  - cbn [u32s_mul_outer u32s_value]. split; [exact Hres|ring].
  - inversion Has as [|? ? Ha Has']; subst. cbn [u32s_mul_outer]. rewrite value_cons.
    pose proof (mul_inner_spec N ai i Ha b 0%nat res Hb Hres) as C.
    replace (i + 0)%nat with i in C by lia.
    pose proof (value_range as_ Has') as Ras. pose proof (value_range b Hb) as Rb. pose proof (T_pos i) as Tp.
    unfold limb in Ha. rewrite pow32 in Ha.
    assert (Hrest : 0 <= B32 * u32s_value as_ * u32s_value b * T i).
    { apply Z.mul_nonneg_nonneg; [|lia]. apply Z.mul_nonneg_nonneg; lia. }
    destruct (u32s_mul_inner N ai i b 0 res) as [res'|].
    + destruct C as [Hres' V']. specialize (IH (S i) res' Has' Hres'). rewrite T_S in IH.
      destruct (u32s_mul_outer N as_ (S i) b res') as [r|].
      * destruct IH as [Hr V]. split; [exact Hr|]. rewrite V, V'. ring.
      * rewrite V' in IH. replace ((ai + B32 * u32s_value as_) * u32s_value b * T i)
          with (ai * u32s_value b * T i + u32s_value as_ * u32s_value b * (B32 * T i)) by ring. lia.
    + replace ((ai + B32 * u32s_value as_) * u32s_value b * T i)
        with (ai * u32s_value b * T i + B32 * u32s_value as_ * u32s_value b * T i) by ring. lia.
Qed.

Theorem mul_spec N a b : u32s_wf N a -> u32s_wf N b ->
  match u32s_mul a b with
  | Some r => u32s_wf N r /\ u32s_value r = u32s_value a * u32s_value b
  | None => T N <= u32s_value a * u32s_value b
  end.
Proof.
  intros [La Fa] [Lb Fb]. unfold u32s_mul. rewrite La.
  pose proof (mul_outer_spec N b Fb a 0%nat (u32s_zero N) Fa (zero_wf N)) as H.
  rewrite zero_value, T_0 in H.
  destruct (u32s_mul_outer N a 0 b (u32s_zero N)) as [r|].
  - destruct H as [Hr V]. split; [exact Hr|]. rewrite V. ring.
  - lia.
Qed.

(* ------------------------------------------------------------------ Zero / One / From<u32> / is_one *)
Theorem from_u32_spec N n : limb n ->
  match u32s_from_u32 N n with
  | Some r => N <> 0%nat /\ u32s_wf N r /\ u32s_value r = n
  | None => N = 0%nat
  end.
Proof.
  intros Hn. unfold u32s_from_u32, u32s_zero. destruct N as [|N]; [reflexivity|].
  cbn [repeat u32s_upd]. split; [discriminate|]. split.
  - split; [cbn [length]; rewrite repeat_length; reflexivity|constructor; [exact Hn|apply Forall_repeat0]].
  - rewrite value_cons, value_repeat0. lia.
Qed.

Theorem one_spec N :
  match u32s_one N with
  | Some r => N <> 0%nat /\ u32s_wf N r /\ u32s_value r = 1
  | None => N = 0%nat
  end.
Proof. apply (from_u32_spec N 1). unfold limb. rewrite pow32. lia. Qed.

Theorem is_one_spec N l : u32s_wf N l ->
  match u32s_is_one l with
  | Some b => N <> 0%nat /\ b = (u32s_value l =? 1)
  | None => N = 0%nat
  end.
Proof.
  intros Hl. unfold u32s_is_one. rewrite (proj1 Hl). pose proof (one_spec N) as H.
  destruct (u32s_one N) as [o|]; cbn [option_map]; [|exact H].
  destruct H as (HN & Ho & Vo). split; [exact HN|]. rewrite (eqb_spec N) by auto. rewrite Vo. reflexivity.
Qed.

(* ------------------------------------------------------------------ Sum *)
Lemma sum_fold_none (ls : list (list Z)) :
  fold_left (fun acc b => match acc with None => None | Some a => u32s_add a b end) ls None = None.
Proof. induction ls; cbn; auto. Qed.

Fixpoint sum_values (ls : list (list Z)) : Z :=
  match ls with [] => 0 | l :: t => u32s_value l + sum_values t end.

Lemma sum_values_nonneg N ls : Forall (u32s_wf N) ls -> 0 <= sum_values ls.
Proof.
  induction 1 as [|l t Hl Ht IH]; cbn [sum_values]; [lia|]. pose proof (wf_range N l Hl). lia.
Qed.

Lemma sum_fold_spec N : forall ls acc, u32s_wf N acc -> Forall (u32s_wf N) ls ->
  match fold_left (fun acc b => match acc with None => None | Some a => u32s_add a b end) ls (Some acc) with
  | Some r => u32s_wf N r /\ u32s_value r = u32s_value acc + sum_values ls
  | None => T N <= u32s_value acc + sum_values ls
  end.
Proof.
  induction ls as [|l ls IH]; intros acc Hacc Hls.
  - cbn. split; [exact Hacc|lia].
  - inversion Hls as [|? ? Hl Hls']; subst. cbn [fold_left sum_values].
    pose proof (add_spec N acc l Hacc Hl) as A. destruct (u32s_add acc l) as [acc'|].
    + destruct A as [Hacc' V']. specialize (IH acc' Hacc' Hls').
      destruct (fold_left _ ls (Some acc')) as [r|].
      * destruct IH as [Hr V]. split; [exact Hr|lia].
      * lia.
    + rewrite sum_fold_none. pose proof (sum_values_nonneg N ls Hls'). lia.
Qed.

Theorem sum_spec N ls : Forall (u32s_wf N) ls ->
  match u32s_sum N ls with
  | Some r => u32s_wf N r /\ u32s_value r = sum_values ls
  | None => T N <= sum_values ls
  end.
Proof.
  intros H. unfold u32s_sum. pose proof (sum_fold_spec N ls (u32s_zero N) (zero_wf N) H) as S.
  rewrite zero_value in S. exact S.
Qed.

(* ------------------------------------------------------------------ BigUint conversions *)
Theorem to_big_spec l : u32s_to_big l = u32s_value l.
Proof.
  induction l as [|x t IH]; [reflexivity|].
  cbn [u32s_to_big fold_right]. fold (u32s_to_big t). rewrite IH, value_cons.
  rewrite Z.shiftl_mul_pow2 by lia. rewrite pow32. ring.
Qed.

Theorem from_big_spec : forall N v, 0 <= v ->
  exists l, u32s_from_big N v = Some l /\ u32s_wf N l /\ u32s_value l = v mod T N.
Proof.
  induction N as [|N IH]; intros v Hv.
  - exists []. cbn [u32s_from_big]. rewrite T_0, Z.mod_1_r. repeat split; constructor.
  - cbn [u32s_from_big]. unfold U32_MAX. rewrite pow32.
    destruct (Z.leb_spec (v mod B32) 4294967295) as [_|]; [|lia].
    destruct (IH (v / B32) ltac:(lia)) as (t & -> & [L F] & V). cbn [option_map].
    eexists. split; [reflexivity|]. split.
    + split; [cbn [length]; lia|constructor; auto; unfold limb; rewrite pow32; lia].
    + rewrite value_cons, V, T_S. pose proof (T_pos N). rewrite Z.rem_mul_r by lia. reflexivity.
Qed.

Theorem big_round_trip N l : u32s_wf N l -> u32s_from_big N (u32s_to_big l) = Some l.
Proof.
  intros Hl. pose proof (wf_range N l Hl) as R. rewrite to_big_spec.
  destruct (from_big_spec N (u32s_value l) ltac:(lia)) as (l' & -> & Hl' & V).
  rewrite Z.mod_small in V by lia. f_equal. apply (wf_value_inj N); auto.
Qed.

Theorem big_round_trip_value N v : u32s_fits N v ->
  exists l, u32s_from_big N v = Some l /\ u32s_wf N l /\ u32s_to_big l = v.
Proof.
  intros Hv. change (0 <= v < T N) in Hv. destruct (from_big_spec N v ltac:(lia)) as (l & E & Hl & V).
  exists l. rewrite to_big_spec, V, Z.mod_small by lia. auto.
Qed.

(* ------------------------------------------------------------------ TryFrom, generically in the (regenerated) guard *)
Lemma try_from_generic (rejects : bool) N v : 0 <= v -> (rejects = true <-> ~ u32s_fits N v) ->
  let res := if rejects then Rej else u32s_of_option (u32s_from_big N v) in
  (u32s_fits N v -> exists r, res = Done r /\ u32s_wf N r /\ u32s_value r = v) /\
  (~ u32s_fits N v -> res = Rej).
Proof.
  intros Hv G. cbv zeta. split.
  - intros Hf. destruct rejects; [exfalso; apply (proj1 G); auto|].
    destruct (from_big_spec N v Hv) as (l & -> & Hl & V). exists l. cbn [u32s_of_option].
    change (0 <= v < T N) in Hf. rewrite Z.mod_small in V by lia. auto.
  - intros Hf. apply G in Hf. rewrite Hf. reflexivity.
Qed.

Lemma T_ge_64 N : (2 <= N)%nat -> 2 ^ 64 <= T N.
Proof. intros H. change (2 ^ 64) with (T 2). apply T_le. exact H. Qed.
Lemma T_ge_128 N : (4 <= N)%nat -> 2 ^ 128 <= T N.
Proof. intros H. change (2 ^ 128) with (T 4). apply T_le. exact H. Qed.

(* TryFrom<u64>: exact for every N >= 1 *)
Theorem tryfrom_u64_guard_exact N v : N <> 0%nat -> 0 <= v < 2 ^ 64 ->
  tryfrom_u64_rejects (Z.of_nat N) v = true <-> ~ u32s_fits N v.
Proof.
  intros HN Hv. rewrite fits_T. unfold tryfrom_u64_rejects.
  destruct N as [|[|N]]; [contradiction| |].
  - change (Z.of_nat 1) with 1. cbn [Z.eqb Pos.eqb andb]. change (T 1) with B32. rewrite Z.gtb_ltb.
    destruct (Z.ltb_spec 4294967295 v); split; intros; try lia; try discriminate; reflexivity.
  - pose proof (T_ge_64 (S (S N)) ltac:(lia)).
    destruct (Z.eqb_spec (Z.of_nat (S (S N))) 0); [lia|]. destruct (Z.eqb_spec (Z.of_nat (S (S N))) 1); [lia|].
    cbn [andb]. split; [discriminate|]. intros; lia.
Qed.

Theorem try_from_u64_spec N v : N <> 0%nat -> 0 <= v < 2 ^ 64 ->
  (u32s_fits N v -> exists r, u32s_try_from_u64 N v = Done r /\ u32s_wf N r /\ u32s_value r = v) /\
  (~ u32s_fits N v -> u32s_try_from_u64 N v = Rej).
Proof.
  intros HN Hv. unfold u32s_try_from_u64.
  apply (try_from_generic (tryfrom_u64_rejects (Z.of_nat N) v) N v); [lia|]. apply tryfrom_u64_guard_exact; auto.
Qed.

(* TryFrom<u128> reduced to a statement about the regenerated guard alone *)
Theorem try_from_u128_of_guard N v : 0 <= v ->
  (tryfrom_u128_rejects (Z.of_nat N) v = true <-> ~ u32s_fits N v) ->
  (u32s_fits N v -> exists r, u32s_try_from_u128 N v = Done r /\ u32s_wf N r /\ u32s_value r = v) /\
  (~ u32s_fits N v -> u32s_try_from_u128 N v = Rej).
Proof.
  intros Hv G. unfold u32s_try_from_u128. apply (try_from_generic _ N v Hv G).
Qed.

(* the width-0 type: 0 fits (it is the only value), yet both conversions reject it and From<u32> panics *)
Theorem width0_zero_fits : u32s_fits 0 0.
Proof. unfold u32s_fits. cbn. lia. Qed.

(* ------------------------------------------------------------------ field elements and codec *)
Lemma bfe_value_new_limb v : limb v -> bfe_value (bfe_from_u32 v) = v.
Proof.
  intros Hv. unfold limb in Hv. rewrite pow32 in Hv. unfold bfe_from_u32.
  rewrite BFieldProofs.value_new by (change (2 ^ 64) with 18446744073709551616; lia).
  apply Z.mod_small. change P with 18446744069414584321. lia.
Qed.

Theorem to_bfes_spec l : Forall limb l ->
  length (u32s_to_bfes l) = length l /\ map bfe_value (u32s_to_bfes l) = l.
Proof.
  intros H. unfold u32s_to_bfes. split; [apply map_length|].
  induction H as [|x t Hx Ht IH]; cbn [map]; [reflexivity|]. rewrite bfe_value_new_limb, IH; auto.
Qed.

Lemma encode_is_to_bfes l : u32s_encode l = u32s_to_bfes l.
Proof. unfold u32s_encode, u32s_to_bfes. induction l as [|x l IH]; cbn [flat_map map app]; [reflexivity|]. rewrite IH. reflexivity. Qed.

Lemma skipn_S_tl : forall i (s : list Z), skipn (S i) s = tl (skipn i s).
Proof.
  induction i as [|i IH]; intros [|x s]; try reflexivity. cbn [skipn]. rewrite <- IH. reflexivity.
Qed.

Lemma decode_loop_values : forall n s i, (i + n = length s)%nat ->
  Forall (fun w => 0 <= bfe_value w <= U32_MAX) s ->
  u32s_decode_loop s i n = Done (map bfe_value (skipn i s)).
Proof.
  induction n as [|n IH]; intros s i Hlen Hs.
  - cbn [u32s_decode_loop]. rewrite skipn_all2 by lia. reflexivity.
  - cbn [u32s_decode_loop]. unfold u32s_slice1.
    destruct (Nat.leb_spec (i + 1) (length s)) as [_|]; [|lia].
    assert (Ls : length (skipn i s) = S n) by (rewrite skipn_length; lia).
    destruct (skipn i s) as [|w t] eqn:Es; [discriminate|].
    cbn [firstn u32_decode].
    assert (Hw : 0 <= bfe_value w <= U32_MAX).
    { pose proof (proj1 (Forall_forall _ _) Hs) as Hs'. apply Hs'. rewrite <- (firstn_skipn i s), Es. apply in_or_app. right. left. reflexivity. }
    destruct (Z.leb_spec (bfe_value w) U32_MAX) as [_|]; [|lia].
    rewrite (IH s (S i)) by (auto; lia).
    assert (Et : skipn (S i) s = t) by (rewrite skipn_S_tl, Es; reflexivity).
    rewrite Et. reflexivity.
Qed.

Lemma decode_loop_rej : forall n s i, (i + n = length s)%nat ->
  Exists (fun w => U32_MAX < bfe_value w) (skipn i s) -> u32s_decode_loop s i n = Rej.
Proof.
  induction n as [|n IH]; intros s i Hlen Hs.
  - rewrite skipn_all2 in Hs by lia. inversion Hs.
  - cbn [u32s_decode_loop]. unfold u32s_slice1.
    destruct (Nat.leb_spec (i + 1) (length s)) as [_|]; [|lia].
    assert (Ls : length (skipn i s) = S n) by (rewrite skipn_length; lia).
    assert (Et : skipn (S i) s = tl (skipn i s)) by apply skipn_S_tl.
    destruct (skipn i s) as [|w t] eqn:Es; [discriminate|]. cbn [tl] in Et.
    cbn [firstn u32_decode].
    destruct (Z.leb_spec (bfe_value w) U32_MAX) as [Hw|Hw]; [|reflexivity].
    rewrite (IH s (S i)); [reflexivity|lia|]. rewrite Et. inversion Hs; subst; [lia|assumption].
Qed.

(* decode is total (never panics), strict and exact *)
Theorem decode_spec N s : Forall (fun w => 0 <= bfe_value w) s ->
  if (length s =? N)%nat && forallb (fun w => bfe_value w <=? U32_MAX) s
  then u32s_decode N s = Done (map bfe_value s) /\ u32s_wf N (map bfe_value s)
  else u32s_decode N s = Rej.
Proof.
  intros Hnn. unfold u32s_decode.
  destruct (Nat.eqb_spec (length s) N) as [HL|HL]; cbn [andb].
  - assert (E1 : ((0 <? N)%nat && match s with [] => true | _ :: _ => false end) = false).
    { destruct s; cbn [length] in HL; subst; [reflexivity|apply andb_false_r]. }
    rewrite E1. destruct (Nat.ltb_spec (length s) N); [lia|]. destruct (Nat.ltb_spec N (length s)); [lia|].
    destruct (forallb (fun w => bfe_value w <=? U32_MAX) s) eqn:Ef.
    + assert (Hs : Forall (fun w => 0 <= bfe_value w <= U32_MAX) s).
      { rewrite forallb_forall in Ef. apply Forall_forall. intros w Hw.
        split; [eapply Forall_forall in Hnn; eauto|apply Z.leb_le, Ef, Hw]. }
      split; [rewrite (decode_loop_values N s 0) by (auto; lia); reflexivity|].
      split; [rewrite map_length; exact HL|].
      apply Forall_forall. intros x Hx. apply in_map_iff in Hx. destruct Hx as (w & <- & Hw).
      eapply Forall_forall in Hs; [|exact Hw]. unfold limb, U32_MAX in *. rewrite pow32. lia.
    + apply decode_loop_rej; [lia|]. cbn [skipn].
      apply Exists_exists.
      assert (Hex : exists w, In w s /\ (bfe_value w <=? U32_MAX) = false).
      { clear -Ef. induction s as [|w s IH]; [discriminate|]. cbn [forallb] in Ef. apply andb_false_iff in Ef.
        destruct Ef as [E|E]; [exists w; split; [left; reflexivity|exact E]|].
        destruct (IH E) as (w' & Hin & Hw'). exists w'. split; [right; exact Hin|exact Hw']. }
      destruct Hex as (w & Hin & Hw). exists w. split; [exact Hin|]. apply Z.leb_gt. exact Hw.
  - destruct ((0 <? N)%nat && match s with [] => true | _ :: _ => false end); [reflexivity|].
    destruct (Nat.ltb_spec (length s) N); [reflexivity|]. destruct (Nat.ltb_spec N (length s)); [reflexivity|lia].
Qed.

Theorem codec_round_trip N l : u32s_wf N l -> u32s_decode N (u32s_encode l) = Done l.
Proof.
  intros [L F]. rewrite encode_is_to_bfes. destruct (to_bfes_spec l F) as [Len Vals].
  pose proof (decode_spec N (u32s_to_bfes l)) as D.
  assert (Hnn : Forall (fun w => 0 <= bfe_value w) (u32s_to_bfes l)).
  { unfold u32s_to_bfes. apply Forall_forall. intros w Hw. apply in_map_iff in Hw. destruct Hw as (x & <- & Hx).
    eapply Forall_forall in F; [|exact Hx]. rewrite bfe_value_new_limb by auto. unfold limb in F. lia. }
  specialize (D Hnn). rewrite Len, L, Nat.eqb_refl in D. cbn [andb] in D.
  assert (Ef : forallb (fun w => bfe_value w <=? U32_MAX) (u32s_to_bfes l) = true).
  { apply forallb_forall. intros w Hw. unfold u32s_to_bfes in Hw. apply in_map_iff in Hw. destruct Hw as (x & <- & Hx).
    eapply Forall_forall in F; [|exact Hx]. rewrite bfe_value_new_limb by auto. unfold limb, U32_MAX in *. rewrite pow32 in F.
    apply Z.leb_le. lia. }
  rewrite Ef, Vals in D. apply D.
Qed.

Theorem bfes_round_trip N l : u32s_wf N l -> u32s_decode N (u32s_to_bfes l) = Done l.
Proof. intros H. rewrite <- encode_is_to_bfes. apply codec_round_trip. exact H. Qed.

Theorem encode_length N l : u32s_wf N l -> Some (length (u32s_encode l)) = u32s_static_length N.
Proof.
  intros [L F]. rewrite encode_is_to_bfes. unfold u32s_to_bfes, u32s_static_length. rewrite map_length, L. reflexivity.
Qed.

(* ------------------------------------------------------------------ the property's own shape: exact or panic *)
Lemma exact_or_panic N (o : option (list Z)) v :
  match o with Some r => u32s_wf N r /\ u32s_value r = v | None => ~ u32s_fits N v end ->
  (forall r, o = Some r -> u32s_wf N r /\ u32s_value r = v) /\ (o = None <-> ~ u32s_fits N v).
Proof.
  intros H. destruct o as [r|].
  - split; [intros r' E; injection E as <-; exact H|]. split; [discriminate|].
    intros Hn. exfalso. apply Hn. destruct H as [Hr <-]. apply wf_fits. exact Hr.
  - split; [discriminate|]. split; auto.
Qed.

Theorem add_exact N a b : u32s_wf N a -> u32s_wf N b ->
  (forall r, u32s_add a b = Some r -> u32s_wf N r /\ u32s_value r = u32s_value a + u32s_value b) /\
  (u32s_add a b = None <-> ~ u32s_fits N (u32s_value a + u32s_value b)).
Proof.
  intros Ha Hb. apply exact_or_panic. pose proof (add_spec N a b Ha Hb) as H.
  destruct (u32s_add a b); [exact H|]. rewrite fits_T. lia.
Qed.

Theorem sub_exact N a b : u32s_wf N a -> u32s_wf N b ->
  (forall r, u32s_sub a b = Some r -> u32s_wf N r /\ u32s_value r = u32s_value a - u32s_value b) /\
  (u32s_sub a b = None <-> ~ u32s_fits N (u32s_value a - u32s_value b)).
Proof.
  intros Ha Hb. apply exact_or_panic. pose proof (sub_spec N a b Ha Hb) as H.
  destruct (u32s_sub a b); [exact H|]. rewrite fits_T. lia.
Qed.

Theorem mul_exact N a b : u32s_wf N a -> u32s_wf N b ->
  (forall r, u32s_mul a b = Some r -> u32s_wf N r /\ u32s_value r = u32s_value a * u32s_value b) /\
  (u32s_mul a b = None <-> ~ u32s_fits N (u32s_value a * u32s_value b)).
Proof.
  intros Ha Hb. apply exact_or_panic. pose proof (mul_spec N a b Ha Hb) as H.
  destruct (u32s_mul a b); [exact H|]. rewrite fits_T. lia.
Qed.

Theorem mul_two_exact N a : u32s_wf N a ->
  (forall r, u32s_mul_two a = Some r -> u32s_wf N r /\ u32s_value r = 2 * u32s_value a) /\
  (u32s_mul_two a = None <-> ~ u32s_fits N (2 * u32s_value a)).
Proof.
  intros Ha. apply exact_or_panic. pose proof (mul_two_spec N a Ha) as H.
  destruct (u32s_mul_two a); [exact H|]. rewrite fits_T. lia.
Qed.

Theorem sum_exact N ls : Forall (u32s_wf N) ls ->
  (forall r, u32s_sum N ls = Some r -> u32s_wf N r /\ u32s_value r = sum_values ls) /\
  (u32s_sum N ls = None <-> ~ u32s_fits N (sum_values ls)).
Proof.
  intros H. apply exact_or_panic. pose proof (sum_spec N ls H) as S.
  destruct (u32s_sum N ls); [exact S|]. rewrite fits_T. lia.
Qed.

(* division: panics exactly on a zero divisor; in particular no internal mul_two / set_bit / sub ever panics *)
Theorem rem_div_exact N a d : u32s_wf N a -> u32s_wf N d ->
  (u32s_rem_div a d = None <-> u32s_value d = 0) /\
  (forall q r, u32s_rem_div a d = Some (q, r) ->
     u32s_wf N q /\ u32s_wf N r /\
     u32s_value a = u32s_value q * u32s_value d + u32s_value r /\ 0 <= u32s_value r < u32s_value d /\
     u32s_value q = u32s_value a / u32s_value d /\ u32s_value r = u32s_value a mod u32s_value d).
Proof.
  intros Ha Hd. pose proof (rem_div_spec N a d Ha Hd) as H.
  destruct (u32s_rem_div a d) as [[q r]|].
  - destruct H as (HD & Hq & Hr & V & R). split; [split; [discriminate|intros; contradiction]|].
    intros q' r' E. injection E as <- <-. split; [exact Hq|]. split; [exact Hr|]. split; [exact V|]. split; [exact R|]. split.
    + apply Z.div_unique_pos with (u32s_value r); lia.
    + apply Z.mod_unique_pos with (u32s_value q); lia.
  - split; [split; auto|discriminate].
Qed.

Theorem div_exact N a d : u32s_wf N a -> u32s_wf N d ->
  (u32s_div a d = None <-> u32s_value d = 0) /\
  (forall q, u32s_div a d = Some q -> u32s_wf N q /\ u32s_value q = u32s_value a / u32s_value d).
Proof.
  intros Ha Hd. destruct (rem_div_exact N a d Ha Hd) as [Hn Hs]. unfold u32s_div.
  destruct (u32s_rem_div a d) as [[q r]|]; cbn [option_map fst].
  - split; [split; [discriminate|intros E; apply Hn in E; discriminate]|].
    intros q' E. injection E as <-. destruct (Hs q r eq_refl) as (Hq & _ & _ & _ & Vq & _). auto.
  - split; [split; [intros _; apply Hn; reflexivity|reflexivity]|discriminate].
Qed.

Theorem rem_exact N a d : u32s_wf N a -> u32s_wf N d ->
  (u32s_rem a d = None <-> u32s_value d = 0) /\
  (forall r, u32s_rem a d = Some r -> u32s_wf N r /\ u32s_value r = u32s_value a mod u32s_value d).
Proof.
  intros Ha Hd. destruct (rem_div_exact N a d Ha Hd) as [Hn Hs]. unfold u32s_rem.
  destruct (u32s_rem_div a d) as [[q r]|]; cbn [option_map snd].
  - split; [split; [discriminate|intros E; apply Hn in E; discriminate]|].
    intros r' E. injection E as <-. destruct (Hs q r eq_refl) as (_ & Hr & _ & _ & _ & Vr). auto.
  - split; [split; [intros _; apply Hn; reflexivity|reflexivity]|discriminate].
Qed.

Theorem from_u32_exact N n : N <> 0%nat -> 0 <= n < 2 ^ 32 ->
  exists r, u32s_from_u32 N n = Some r /\ u32s_wf N r /\ u32s_value r = n.
Proof.
  intros HN Hn. pose proof (from_u32_spec N n Hn) as H. destruct (u32s_from_u32 N n) as [r|]; [|contradiction].
  exists r. destruct H as (_ & Hr & V). auto.
Qed.

Theorem one_exact N :
  (forall r, u32s_one N = Some r -> u32s_wf N r /\ u32s_value r = 1) /\ (u32s_one N = None <-> ~ u32s_fits N 1).
Proof.
  apply exact_or_panic. pose proof (one_spec N) as H. destruct (u32s_one N); [tauto|]. subst N.
  unfold u32s_fits. cbn. lia.
Qed.

Theorem from_big_fits N v : u32s_fits N v ->
  exists l, u32s_from_big N v = Some l /\ u32s_wf N l /\ u32s_value l = v.
Proof.
  intros Hv. change (0 <= v < T N) in Hv. destruct (from_big_spec N v ltac:(lia)) as (l & E & Hl & V).
  exists l. rewrite Z.mod_small in V by lia. auto.
Qed.

(* decode, for sequences of arbitrary u64 words *)
Lemma bfe_value_nonneg w : 0 <= w < 2 ^ 64 -> 0 <= bfe_value w < P.
Proof. intros H. destruct (BFieldProofs.value_spec w H) as [_ C]. exact C. Qed.

Theorem decode_spec_u64 N s : Forall (fun w => 0 <= w < 2 ^ 64) s ->
  if (length s =? N)%nat && forallb (fun w => bfe_value w <=? U32_MAX) s
  then u32s_decode N s = Done (map bfe_value s) /\ u32s_wf N (map bfe_value s)
  else u32s_decode N s = Rej.
Proof.
  intros H. apply decode_spec. apply Forall_forall. intros w Hw.
  pose proof (proj1 (Forall_forall _ _) H w Hw) as Hr. apply bfe_value_nonneg in Hr. lia.
Qed.

(* the encoding is unique: a canonical sequence that decodes to l is the encoding of l *)
Theorem decode_unique N s l : Forall BFieldProofs.canon s -> u32s_decode N s = Done l -> s = u32s_encode l.
Proof.
  intros Hc Hd.
  assert (H64 : Forall (fun w => 0 <= w < 2 ^ 64) s).
  { apply Forall_forall. intros w Hw. pose proof (proj1 (Forall_forall _ _) Hc w Hw) as C.
    unfold BFieldProofs.canon in C. change P with 18446744069414584321 in C. change (2 ^ 64) with 18446744073709551616. lia. }
  pose proof (decode_spec_u64 N s H64) as D.
  destruct ((length s =? N)%nat && forallb (fun w => bfe_value w <=? U32_MAX) s) eqn:E; [|rewrite D in Hd; discriminate].
  destruct D as [D _]. rewrite D in Hd. injection Hd as <-.
  apply andb_true_iff in E. destruct E as [_ Ef]. rewrite forallb_forall in Ef.
  rewrite encode_is_to_bfes. unfold u32s_to_bfes. rewrite map_map.
  clear D. induction s as [|w s IH]; [reflexivity|]. cbn [map].
  inversion Hc as [|? ? Cw Cs]; inversion H64 as [|? ? Hw Hs]; subst.
  rewrite <- IH by (auto; intros x Hx; apply Ef; right; exact Hx). f_equal.
  pose proof (Ef w (or_introl eq_refl)) as Hle. apply Z.leb_le in Hle. unfold U32_MAX in Hle.
  destruct (BFieldProofs.value_spec w Hw) as [Ev Cv].
  assert (Hx : 0 <= bfe_value w < 2 ^ 64) by (unfold BFieldProofs.canon in Cv; change (2 ^ 64) with 18446744073709551616; lia).
  destruct (BFieldProofs.new_spec (bfe_value w) Hx) as [Cn En].
  apply BFieldProofs.repr_unique; auto. unfold bfe_from_u32. rewrite En, BFieldProofs.val_mont, <- Ev.
  unfold BFieldProofs.canon in Cv. symmetry. apply Z.mod_small. lia.
Qed.
