From Coq Require Import ZArith Bool List Lia.
From TF Require Import Word BFieldGen U32sGen U32s U32sSpec.
Import ListNotations.
Open Scope Z_scope.
Lemma u32s_value_nil : u32s_value [] = 0. Proof. reflexivity. Qed.
