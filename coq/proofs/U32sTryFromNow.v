From Coq Require Import ZArith Bool List Lia.
From TF Require Import Word BFieldGen U32sGen U32s U32sSpec U32sProofs.
Open Scope Z_scope.
