(* U32sTryFromNow.v - what can be said about `TryFrom<u128> for U32s<N>` and the width-0 conversions on the tree as it
   is NOW.  Everything here is stated about the regenerated guard gen/U32sGen.v:tryfrom_u128_rejects.

   Two blocks.  Exactly one of them compiles against a given tree:
     [CURRENT]  the pinned tree: the N = 3 arm compares with u64::MAX * u32::MAX  ->  refutation + the exact gap
     [FIXED]    after the guard of the N = 3 arm is repaired (any expression equal to 2^96 - 1): the full theorem
   To switch: comment out the CURRENT block, uncomment the FIXED block (here and in props/C19.v). *)
From Coq Require Import ZArith Bool List Lia.
From TF Require Import Word BFieldGen U32sGen U32s U32sSpec U32sProofs.
Import ListNotations.
Open Scope Z_scope.
Ltac Zify.zify_post_hook ::= Z.div_mod_to_equations.

(* normalisation shared by both blocks: literals for the powers of two, Word operators unfolded *)
Ltac norm_guard :=
  unfold wmul, wadd, wsub, wshl, wshr, ucast, wnot, wrap, mul_ok, add_ok, sub_ok, shift_ok in *;
  change (2 ^ 128) with 340282366920938463463374607431768211456 in *;
  change (2 ^ 96) with 79228162514264337593543950336 in *;
  change (2 ^ 64) with 18446744073709551616 in *;
  change (2 ^ 32) with 4294967296 in *;
  change (T 1) with 4294967296 in *;
  change (T 2) with 18446744073709551616 in *;
  change (T 3) with 79228162514264337593543950336 in *.
(* evaluate the closed constant a guard compares `v` with (whatever expression the source uses for it) *)
Ltac close_consts v :=
  repeat match goal with
         | |- context [Z.gtb v ?c] => progress (let c' := eval vm_compute in c in change c with c')
         | |- context [Z.geb v ?c] => progress (let c' := eval vm_compute in c in change c with c')
         | |- context [Z.ltb v ?c] => progress (let c' := eval vm_compute in c in change c with c')
         | |- context [Z.leb v ?c] => progress (let c' := eval vm_compute in c in change c with c')
         | |- context [Z.gtb ?c v] => progress (let c' := eval vm_compute in c in change c with c')
         | |- context [Z.geb ?c v] => progress (let c' := eval vm_compute in c in change c with c')
         | |- context [Z.ltb ?c v] => progress (let c' := eval vm_compute in c in change c with c')
         | |- context [Z.leb ?c v] => progress (let c' := eval vm_compute in c in change c with c')
         end.
Ltac split_cmp :=
  rewrite ?Z.gtb_ltb, ?Z.geb_leb;
  repeat match goal with
         | |- context [Z.ltb ?a ?b] => destruct (Z.ltb_spec a b)
         | |- context [Z.leb ?a ?b] => destruct (Z.leb_spec a b)
         | |- context [Z.eqb ?a ?b] => destruct (Z.eqb_spec a b)
         end;
  cbn [andb orb negb]; split; intros; try discriminate; try reflexivity; try lia.

(* no unchecked operator inside a guard expression overflows (same behaviour in release and checked builds) *)
Theorem tryfrom_guards_ok N v :
  tryfrom_u64_rejects_ok N v = true /\ tryfrom_u128_rejects_ok N v = true.
Proof.
  unfold tryfrom_u64_rejects_ok, tryfrom_u128_rejects_ok. split; [reflexivity|].
  repeat match goal with |- context [Z.eqb ?a ?b] => destruct (Z.eqb_spec a b) end; reflexivity.
Qed.

(* arms N = 1, 2 and N >= 4 are exact on every tree *)
Theorem tryfrom_u128_guard_exact_not3 N v : N <> 0%nat -> N <> 3%nat -> 0 <= v < 2 ^ 128 ->
  tryfrom_u128_rejects (Z.of_nat N) v = true <-> ~ u32s_fits N v.
Proof.
  intros HN H3 Hv. rewrite fits_T. unfold tryfrom_u128_rejects.
  destruct N as [|[|[|[|N]]]]; try contradiction.
  - change (Z.of_nat 1) with 1. cbn [Z.eqb Pos.eqb andb]. norm_guard. split_cmp.
  - change (Z.of_nat 2) with 2. cbn [Z.eqb Pos.eqb andb]. norm_guard. split_cmp.
  - pose proof (T_ge_128 (S (S (S (S N)))) ltac:(lia)).
    repeat match goal with |- context [Z.eqb (Z.of_nat ?a) ?b] => destruct (Z.eqb_spec (Z.of_nat a) b); try lia end;
      cbn [andb]; (split; [discriminate|intros; lia]).
Qed.

(* width 0: the value 0 fits, the conversions do not succeed (recorded finding, not repaired) *)
Theorem try_from_u64_width0_refuted : exists v, 0 <= v < 2 ^ 64 /\ u32s_fits 0 v /\ u32s_try_from_u64 0 v = Rej.
Proof. exists 0. split; [split; [lia|reflexivity]|]. split; [exact width0_zero_fits|reflexivity]. Qed.
Theorem try_from_u128_width0_refuted : exists v, 0 <= v < 2 ^ 128 /\ u32s_fits 0 v /\ u32s_try_from_u128 0 v = Rej.
Proof. exists 0. split; [split; [lia|reflexivity]|]. split; [exact width0_zero_fits|reflexivity]. Qed.
Theorem from_u32_width0_refuted : exists n, 0 <= n < 2 ^ 32 /\ u32s_fits 0 n /\ u32s_from_u32 0 n = None.
Proof. exists 0. split; [split; [lia|reflexivity]|]. split; [exact width0_zero_fits|reflexivity]. Qed.


Lemma tryfrom_u128_guard3_fixed v : 0 <= v < 2 ^ 128 ->
  tryfrom_u128_rejects 3 v = true <-> ~ u32s_fits 3 v.
Proof.
  intros Hv. rewrite fits_T. unfold tryfrom_u128_rejects. cbn [Z.eqb Pos.eqb andb]. close_consts v. norm_guard. split_cmp.
Qed.

Theorem tryfrom_u128_guard_exact N v : N <> 0%nat -> 0 <= v < 2 ^ 128 ->
  tryfrom_u128_rejects (Z.of_nat N) v = true <-> ~ u32s_fits N v.
Proof.
  intros HN Hv. destruct (Nat.eq_dec N 3) as [->|Hn3]; [|apply tryfrom_u128_guard_exact_not3; auto].
  change (Z.of_nat 3) with 3. apply tryfrom_u128_guard3_fixed. exact Hv.
Qed.

Theorem try_from_u128_spec N v : N <> 0%nat -> 0 <= v < 2 ^ 128 ->
  (u32s_fits N v -> exists r, u32s_try_from_u128 N v = Done r /\ u32s_wf N r /\ u32s_value r = v) /\
  (~ u32s_fits N v -> u32s_try_from_u128 N v = Rej).
Proof.
  intros HN Hv. apply try_from_u128_of_guard; [lia|]. apply tryfrom_u128_guard_exact; auto.
Qed.
