(* proofs/XFieldCleanDivide.v - C09: the zero-free NTT arm of Polynomial<BFieldElement>::clean_divide, and with it
   the full statement for the code that exists (model/PolyDiv.v: pdiv_clean_divide = pdiv_clean_divide_v2).

   The arm lifts the two BFieldElement polynomials into the extension field, composes them with x * X for the coset
   offset x = [0, 1, 0], pads to a power of two n >= deg(dividend) + 1, transforms both (ntt on XFieldElement vectors),
   divides point-wise (batch inversion), transforms back, composes with x^-1 * X and unlifts.  With
     Q := the exact quotient (coefficients in the base field, embedded by iota),
   the dividend codeword is the point-wise product of the codewords of Q and of the divisor (convolution theorem,
   the product fits into n coefficients), so the quotient codeword is the codeword of Q whenever no divisor evaluation
   is zero, the inverse transform returns the padded coefficients of Q(x X), the unscaling gives the padded
   coefficients of Q, which lie in the base field, so every `unlift().unwrap()` succeeds.
   The other arms (long division below the cutoff, removal of the root 0, fallback to long division when a divisor
   evaluation is zero) are the theorems of proofs/PolyDivProofs.v; clean_divide_full puts them together. *)
From Coq Require Import ZArith Lia List Bool Ring Field.
From TF Require Import Word BFieldGen BField XField FieldOps Lucas FieldTheory BFieldProofs BFieldOk XFieldProofs XFieldOk
  Ntt Dft NttDft NttProofs XFieldNtt PolyGen PolyCore PolySpec PolyCoreProofs PolyDiv PolyDivProofs.
Import ListNotations.
Open Scope Z_scope.

Local Opaque bfe_mul bfe_add bfe_sub bfe_neg bfe_new inverse xmul xadd xsub xneg xscale xinverse ntt_x intt_x.

Add Field k3f_XFieldCleanDivide : (kFT k3_field).
Add Field fpf_XFieldCleanDivide : (kFT fp_field).

Local Notation Db := (map bden).
Local Notation Db3 := (map bden3).
Local Notation Dx := (map denX).
Local Notation okb := (Forall canon).
Local Notation okx := (Forall canon3).
Local Notation K3 := k3_field.

(* ------------------------------------------------------------------ polynomials over the embedded base field *)
Lemma coeff_map_iota p i : coeff K3 (map iota p) i = iota (coeff fp_field p i).
Proof. unfold coeff. apply (map_nth iota p (k0 fp_field) i). Qed.
Lemma Db3_Db l : Db3 l = map iota (Db l).
Proof. rewrite map_map. reflexivity. Qed.
Lemma iota_ksum f n : iota (ksum fp_field f n) = ksum K3 (fun j => iota (f j)) n.
Proof. induction n; cbn [ksum]; [reflexivity|]. rewrite iota_add, IHn. reflexivity. Qed.
Lemma peq_map_iota p q : peq fp_field p q <-> peq K3 (map iota p) (map iota q).
Proof.
  split; intros E; apply peq_intro; intros i.
  - rewrite !coeff_map_iota, (peq_elim _ _ _ E i). reflexivity.
  - apply iota_inj. rewrite <- !coeff_map_iota. apply (peq_elim _ _ _ E i).
Qed.
Lemma pzero_map_iota p : pzero fp_field p <-> pzero K3 (map iota p).
Proof.
  split; intros Z i.
  - rewrite coeff_map_iota, (Z i). reflexivity.
  - apply iota_inj. rewrite <- coeff_map_iota. apply (Z i).
Qed.
Lemma pmul_map_iota p q : peq K3 (map iota (pmul fp_field p q)) (pmul K3 (map iota p) (map iota q)).
Proof.
  apply peq_intro. intros k. rewrite coeff_map_iota, !coeff_pmul, iota_ksum. apply ksum_ext. intros i _.
  rewrite iota_mul, !coeff_map_iota. reflexivity.
Qed.

(* ------------------------------------------------------------------ polynomial / DFT facts over any field *)
Section KPoly.
  Context {K : Type} (fk : fieldK K).
  Local Notation "0" := (k0 fk).
  Local Notation "1" := (k1 fk).
  Local Infix "*" := (kmul fk).
  Add Field kfield_XFieldCleanDivide_KPoly : (kFT fk).

  Lemma ptrunc_peq_coeff n p : (forall i, (n <= i)%nat -> coeff fk p i = 0) -> peq fk (ptrunc fk n p) p.
  Proof.
    intros H. apply peq_intro. intros i. rewrite coeff_ptrunc. destruct (i <? n)%nat eqn:E; [reflexivity|].
    apply Nat.ltb_ge in E. symmetry. apply H. exact E.
  Qed.
  Lemma ptrunc_ext n p q : peq fk p q -> ptrunc fk n p = ptrunc fk n q.
  Proof.
    intros E. apply (list_eq_nth fk); [rewrite !ptrunc_length; reflexivity|]. intros i _.
    change (coeff fk (ptrunc fk n p) i = coeff fk (ptrunc fk n q) i). rewrite !coeff_ptrunc, (peq_elim _ _ _ E i). reflexivity.
  Qed.
  Lemma pcompscale_pmul p q a : peq fk (pcompscale fk (pmul fk p q) a) (pmul fk (pcompscale fk p a) (pcompscale fk q a)).
  Proof.
    apply peq_intro. intros k. rewrite coeff_pcompscale, !coeff_pmul, <- ksum_mul_r. apply ksum_ext. intros i Hi.
    rewrite !coeff_pcompscale.
    assert (E : kpow fk a k = kpow fk a i * kpow fk a (k - i)) by (rewrite <- kpow_add; f_equal; lia).
    rewrite E. ring.
  Qed.
  Lemma pcompscale_pzero p a : pzero fk p -> pzero fk (pcompscale fk p a).
  Proof. intros Z i. rewrite coeff_pcompscale, (Z i). ring. Qed.
  (* undoing the composition with a X on a truncated list *)
  Lemma coeff_unscale n p a i : a <> 0 ->
    coeff fk (pcompscale fk (ptrunc fk n (pcompscale fk p a)) (kinv fk a)) i = coeff fk (ptrunc fk n p) i.
  Proof.
    intros Ha. rewrite coeff_pcompscale, !coeff_ptrunc. destruct (i <? n)%nat; [|ring].
    rewrite coeff_pcompscale.
    transitivity (coeff fk p i * kpow fk (a * kinv fk a) i); [rewrite kpow_mul_l; ring|].
    rewrite (kinv_r fk a Ha), kpow_1_l. ring.
  Qed.
  Lemma pcompscale_go_length p a pw : length (pcompscale_go fk p a pw) = length p.
  Proof. revert pw. induction p as [|c p IH]; intros pw; cbn [pcompscale_go length]; [reflexivity|]. rewrite IH. reflexivity. Qed.
  Lemma unscale_ptrunc n p a : a <> 0 ->
    pcompscale fk (ptrunc fk n (pcompscale fk p a)) (kinv fk a) = ptrunc fk n p.
  Proof.
    intros Ha. apply (list_eq_nth fk).
    - unfold pcompscale at 1. rewrite pcompscale_go_length, !ptrunc_length. reflexivity.
    - intros i _. exact (coeff_unscale n p a i Ha).
  Qed.

  (* entries of the DFT are the evaluations at the powers of the root *)
  Lemma dft_nth_peval w v i : (i < length v)%nat -> nth i (dft fk w v) 0 = peval fk v (kpow fk w i).
  Proof. intros Hi. rewrite dft_nth by exact Hi. apply dft_at_peval. Qed.

  (* point-wise division of a product codeword by one factor's codeword *)
  Lemma map2_cancel (u dv inv : list K) : length u = length dv -> Forall2 (fun d e => e * d = 1) dv inv ->
    map2 (kmul fk) (map2 (kmul fk) u dv) inv = u.
  Proof.
    intros L F2. revert u L. induction F2 as [|d e dv inv Hde _ IH]; intros [|c u] L; try discriminate L; [reflexivity|].
    cbn [map2]. rewrite IH by (cbn in L; lia). f_equal. transitivity (c * (e * d)); [ring|]. rewrite Hde. ring.
  Qed.
  Lemma hadamard_divide w n (PQ PD inv : list K) : length PQ = n -> length PD = n ->
    (forall i, (n <= i)%nat -> coeff fk (pmul fk PQ PD) i = 0) ->
    Forall2 (fun d e => e * d = 1) (dft fk w PD) inv ->
    map2 (kmul fk) (dft fk w (ptrunc fk n (pmul fk PQ PD))) inv = dft fk w PQ.
  Proof.
    intros LQ LD Hfit F2. rewrite <- (dft_hadamard fk w n PQ PD LQ LD Hfit).
    apply map2_cancel; [rewrite !dft_length; lia|exact F2].
  Qed.
End KPoly.
