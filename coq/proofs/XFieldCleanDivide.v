(* proofs/XFieldCleanDivide.v - C09: the zero-free NTT arm of Polynomial<BFieldElement>::clean_divide, and with it
   the full statement for the code that exists (model/PolyDiv.v: pdiv_clean_divide = pdiv_clean_divide_v2).

   The arm lifts the two BFieldElement polynomials into the extension field, composes them with x * X for the coset
   offset x = [0, 1, 0], pads to a power of two n >= deg(dividend) + 1, transforms both (ntt on XFieldElement vectors),
   divides point-wise (batch inversion), transforms back, composes with x^-1 * X and unlifts.  With
     Q := the exact quotient (coefficients in the base field, embedded by iota),
   the dividend codeword is the point-wise product of the codewords of Q and of the divisor (convolution theorem,
   the product fits into n coefficients), so the quotient codeword is the codeword of Q whenever no divisor evaluation
   is zero, the inverse transform returns the padded coefficients of Q(x X), the unscaling gives the padded
   coefficients of Q, which lie in the base field, so every `unlift().unwrap()` succeeds.
   The other arms (long division below the cutoff, removal of the root 0, fallback to long division when a divisor
   evaluation is zero) are the theorems of proofs/PolyDivProofs.v; clean_divide_full puts them together. *)
From Coq Require Import ZArith Lia List Bool Ring Field.
From TF Require Import Word BFieldGen BField XField FieldOps Lucas FieldTheory BFieldProofs BFieldOk XFieldProofs XFieldOk
  Ntt Dft NttDft NttProofs XFieldNtt PolyGen PolyCore PolySpec PolyCoreProofs PolyDiv PolyDivProofs.
Import ListNotations.
Open Scope Z_scope.

Local Opaque bfe_mul bfe_add bfe_sub bfe_neg bfe_new inverse xmul xadd xsub xneg xscale xinverse ntt_x intt_x.

Add Field k3f_XFieldCleanDivide : (kFT k3_field).
Add Field fpf_XFieldCleanDivide : (kFT fp_field).

Local Notation Db := (map bden).
Local Notation Db3 := (map bden3).
Local Notation Dx := (map denX).
Local Notation okb := (Forall canon).
Local Notation okx := (Forall canon3).
Local Notation K3 := k3_field.

(* ------------------------------------------------------------------ polynomials over the embedded base field *)
Lemma coeff_map_iota p i : coeff K3 (map iota p) i = iota (coeff fp_field p i).
Proof. unfold coeff. apply (map_nth iota p (k0 fp_field) i). Qed.
Lemma Db3_Db l : Db3 l = map iota (Db l).
Proof. rewrite map_map. reflexivity. Qed.
Lemma iota_ksum f n : iota (ksum fp_field f n) = ksum K3 (fun j => iota (f j)) n.
Proof. induction n; cbn [ksum]; [reflexivity|]. rewrite iota_add, IHn. reflexivity. Qed.
Lemma peq_map_iota p q : peq fp_field p q <-> peq K3 (map iota p) (map iota q).
Proof.
  split; intros E; apply peq_intro; intros i.
  - rewrite !coeff_map_iota, (peq_elim _ _ _ E i). reflexivity.
  - apply iota_inj. rewrite <- !coeff_map_iota. apply (peq_elim _ _ _ E i).
Qed.
Lemma pzero_map_iota p : pzero fp_field p <-> pzero K3 (map iota p).
Proof.
  split; intros Z i.
  - rewrite coeff_map_iota, (Z i). reflexivity.
  - apply iota_inj. rewrite <- coeff_map_iota. apply (Z i).
Qed.
Lemma pmul_map_iota p q : peq K3 (map iota (pmul fp_field p q)) (pmul K3 (map iota p) (map iota q)).
Proof.
  apply peq_intro. intros k. rewrite coeff_map_iota, !coeff_pmul, iota_ksum. apply ksum_ext. intros i _.
  rewrite iota_mul, !coeff_map_iota. reflexivity.
Qed.

(* ------------------------------------------------------------------ polynomial / DFT facts over any field *)
Section KPoly.
  Context {K : Type} (fk : fieldK K).
  Local Notation "0" := (k0 fk).
  Local Notation "1" := (k1 fk).
  Local Infix "*" := (kmul fk).
  Add Field kfield_XFieldCleanDivide_KPoly : (kFT fk).

  Lemma ptrunc_peq_coeff n p : (forall i, (n <= i)%nat -> coeff fk p i = 0) -> peq fk (ptrunc fk n p) p.
  Proof.
    intros H. apply peq_intro. intros i. rewrite coeff_ptrunc. destruct (i <? n)%nat eqn:E; [reflexivity|].
    apply Nat.ltb_ge in E. symmetry. apply H. exact E.
  Qed.
  Lemma ptrunc_ext n p q : peq fk p q -> ptrunc fk n p = ptrunc fk n q.
  Proof.
    intros E. apply (list_eq_nth fk); [rewrite !ptrunc_length; reflexivity|]. intros i _.
    change (coeff fk (ptrunc fk n p) i = coeff fk (ptrunc fk n q) i). rewrite !coeff_ptrunc, (peq_elim _ _ _ E i). reflexivity.
  Qed.
  Lemma pcompscale_pmul p q a : peq fk (pcompscale fk (pmul fk p q) a) (pmul fk (pcompscale fk p a) (pcompscale fk q a)).
  Proof.
    apply peq_intro. intros k. rewrite coeff_pcompscale, !coeff_pmul, <- ksum_mul_r. apply ksum_ext. intros i Hi.
    rewrite !coeff_pcompscale.
    assert (E : kpow fk a k = kpow fk a i * kpow fk a (k - i)) by (rewrite <- kpow_add; f_equal; lia).
    rewrite E. ring.
  Qed.
  Lemma pcompscale_pzero p a : pzero fk p -> pzero fk (pcompscale fk p a).
  Proof. intros Z i. rewrite coeff_pcompscale, (Z i). ring. Qed.
  (* undoing the composition with a X on a truncated list *)
  Lemma coeff_unscale n p a i : a <> 0 ->
    coeff fk (pcompscale fk (ptrunc fk n (pcompscale fk p a)) (kinv fk a)) i = coeff fk (ptrunc fk n p) i.
  Proof.
    intros Ha. rewrite coeff_pcompscale, !coeff_ptrunc. destruct (i <? n)%nat; [|ring].
    rewrite coeff_pcompscale.
    transitivity (coeff fk p i * kpow fk (a * kinv fk a) i); [rewrite kpow_mul_l; ring|].
    rewrite (kinv_r fk a Ha), kpow_1_l. ring.
  Qed.
  Lemma pcompscale_go_length p a pw : length (pcompscale_go fk p a pw) = length p.
  Proof. revert pw. induction p as [|c p IH]; intros pw; cbn [pcompscale_go length]; [reflexivity|]. rewrite IH. reflexivity. Qed.
  Lemma unscale_ptrunc n p a : a <> 0 ->
    pcompscale fk (ptrunc fk n (pcompscale fk p a)) (kinv fk a) = ptrunc fk n p.
  Proof.
    intros Ha. apply (list_eq_nth fk).
    - unfold pcompscale at 1. rewrite pcompscale_go_length, !ptrunc_length. reflexivity.
    - intros i _. exact (coeff_unscale n p a i Ha).
  Qed.

  (* entries of the DFT are the evaluations at the powers of the root *)
  Lemma dft_nth_peval w v i : (i < length v)%nat -> nth i (dft fk w v) 0 = peval fk v (kpow fk w i).
  Proof. intros Hi. rewrite dft_nth by exact Hi. apply dft_at_peval. Qed.

  (* point-wise division of a product codeword by one factor's codeword *)
  Lemma map2_cancel (u dv inv : list K) : length u = length dv -> Forall2 (fun d e => e * d = 1) dv inv ->
    map2 (kmul fk) (map2 (kmul fk) u dv) inv = u.
  Proof.
    intros L F2. revert u L. induction F2 as [|d e dv inv Hde _ IH]; intros [|c u] L; try discriminate L; [reflexivity|].
    cbn [map2]. rewrite IH by (cbn in L; lia). f_equal. transitivity (c * (e * d)); [ring|]. rewrite Hde. ring.
  Qed.
  Lemma hadamard_divide w n (PQ PD inv : list K) : length PQ = n -> length PD = n ->
    (forall i, (n <= i)%nat -> coeff fk (pmul fk PQ PD) i = 0) ->
    Forall2 (fun d e => e * d = 1) (dft fk w PD) inv ->
    map2 (kmul fk) (dft fk w (ptrunc fk n (pmul fk PQ PD))) inv = dft fk w PQ.
  Proof.
    intros LQ LD Hfit F2. rewrite <- (dft_hadamard fk w n PQ PD LQ LD Hfit).
    apply map2_cancel; [rewrite !dft_length; lia|exact F2].
  Qed.
End KPoly.

(* ------------------------------------------------------------------ the pieces of the arm, on the words *)
Definition xoff : Fp3 := denX pdiv_offset.
Lemma offset_ok : canon3 pdiv_offset /\ xoff = (fp_of 0, fp_of 1, fp_of 0).
Proof.
  destruct (fo_zero _ _ _ _ bfe_field_ok) as [C0 E0]. destruct (fo_one _ _ _ _ bfe_field_ok) as [C1 E1].
  cbn [fzero fone bfe_ops k0 k1 fp_field] in *. split; [unfold pdiv_offset, canon3; auto|].
  unfold xoff, pdiv_offset, denX. rewrite E0, E1. reflexivity.
Qed.
Lemma xoff_nonzero : xoff <> k0 K3.
Proof.
  rewrite (proj2 offset_ok). intros E. apply f3_proj in E. destruct E as [_ [E _]].
  apply (f_equal fval) in E. discriminate E.
Qed.

(* Polynomial<BFE>::scale(offset : XFE) *)
Lemma scale_go_ext l alpha pw : okb l -> canon3 alpha -> canon3 pw ->
  okx (scale_go xmul (fun c p => xscale p c) alpha pw l) /\
  Dx (scale_go xmul (fun c p => xscale p c) alpha pw l) = pcompscale_go K3 (Db3 l) (denX alpha) (denX pw).
Proof.
  intros Hl Ca. revert pw. induction Hl as [|c l Cc Hl IH]; intros pw Cp; cbn [scale_go map pcompscale_go]; [split; [constructor|reflexivity]|].
  destruct (denX_xscale pw c Cp Cc) as [C1 E1]. destruct (denX_xmul pw alpha Cp Ca) as [C2 E2].
  destruct (IH _ C2) as [I1 I2]. split; [constructor; assumption|]. rewrite I2, E1, E2. f_equal.
  change f3mul with (kmul K3). unfold bden3. ring.
Qed.
Lemma scale_to_ext_spec l : okb l ->
  okx (pdiv_scale_to_ext xfe_ops xb_act pdiv_offset l) /\
  Dx (pdiv_scale_to_ext xfe_ops xb_act pdiv_offset l) = pcompscale K3 (Db3 l) xoff.
Proof.
  intros Hl. destruct (scale_go_ext l pdiv_offset xone Hl (proj1 offset_ok) (proj1 denX_xone)) as [S1 S2].
  split; [exact S1|]. unfold pdiv_scale_to_ext, poly_scale_gen. cbn [fone fmul xfe_ops smul xb_act].
  rewrite S2, (proj2 denX_xone). reflexivity.
Qed.
(* Vec::resize with ZERO *)
Lemma resize_x l (n : nat) : okx l ->
  okx (resize l (Z.of_nat n) xzero) /\ length (resize l (Z.of_nat n) xzero) = n /\
  Dx (resize l (Z.of_nat n) xzero) = ptrunc K3 n (Dx l).
Proof.
  intros Hl. unfold resize, take, zrepeat, ptrunc, zlen. rewrite Nat2Z.id.
  replace (Z.to_nat (Z.of_nat n - Z.of_nat (length l))) with (n - length l)%nat by lia. split; [|split].
  - apply Forall_app. split; [apply Forall_firstn; exact Hl|]. apply Forall_forall. intros x Hx. apply repeat_spec in Hx. subst.
    exact (proj1 denX_xzero).
  - rewrite app_length, firstn_length, repeat_length. lia.
  - rewrite map_app, firstn_map, map_repeat', (proj2 denX_xzero), map_length. reflexivity.
Qed.
(* the codeword of a polynomial on the coset xoff * <wr_x l> *)
Lemma codeword_spec p l : okb p -> (l <= 31)%nat ->
  exists v, ntt_x (resize (pdiv_scale_to_ext xfe_ops xb_act pdiv_offset p) (Z.of_nat (2 ^ l)) xzero) = Some v /\ okx v /\
            length v = (2 ^ l)%nat /\ Dx v = dft K3 (wr_x l) (ptrunc K3 (2 ^ l) (pcompscale K3 (Db3 p) xoff)).
Proof.
  intros Hp Hl. destruct (scale_to_ext_spec p Hp) as [S1 S2].
  destruct (resize_x _ (2 ^ l) S1) as [R1 [R2 R3]].
  destruct (ntt_x_hyp l _ Hl R2 R1) as [v [V1 [V2 [V3 V4]]]].
  exists v. split; [exact V1|]. split; [exact V2|]. split; [lia|]. rewrite V4, R3, S2. reflexivity.
Qed.

(* no zero among the divisor evaluations: batch inversion succeeds and inverts point-wise *)
Lemma existsb_zero_false dv : existsb (fis_zero xfe_ops) dv = false -> Forall (fun x => x <> xzero) dv.
Proof.
  intros E. apply Forall_forall. intros x Hx Ex. subst x.
  assert (T : existsb (fis_zero xfe_ops) dv = true) by (apply existsb_exists; exists xzero; split; [exact Hx|reflexivity]).
  congruence.
Qed.
Lemma batch_inv_D dv : okx dv -> existsb (fis_zero xfe_ops) dv = false ->
  exists inv, xbatch_inversion dv = Some inv /\ okx inv /\ Forall2 (fun d e => kmul K3 e d = k1 K3) (Dx dv) (Dx inv).
Proof.
  intros Hd Hz. destruct (xbatch_inversion_spec dv Hd (existsb_zero_false dv Hz)) as [inv [E F2]].
  exists inv. split; [exact E|]. clear E Hz. induction F2 as [|x y dv inv [Cy [Hy _]] _ IH].
  - split; constructor.
  - destruct (IH (Forall_inv_tail Hd)) as [I1 I2]. split; [constructor; assumption|]. cbn [map]. constructor; [|exact I2].
    destruct (denX_xmul y x Cy (Forall_inv Hd)) as [_ E]. rewrite Hy, (proj2 denX_xone) in E. symmetry. exact E.
Qed.
Lemma map2_xmul_D a b : okx a -> okx b -> okx (map2 xmul a b) /\ Dx (map2 xmul a b) = map2 (kmul K3) (Dx a) (Dx b).
Proof.
  intros Ha. revert b. induction Ha as [|x a Cx Ha IH]; intros [|y b] Hb; cbn [map2 map]; try (split; [constructor|reflexivity]).
  destruct (IH b (Forall_inv_tail Hb)) as [I1 I2]. destruct (denX_xmul x y Cx (Forall_inv Hb)) as [C E].
  split; [constructor; assumption|]. rewrite I2, E. reflexivity.
Qed.

(* unlift succeeds on, and only reads, the elements of the embedded base field *)
Lemma xunlift_iota e k : canon3 e -> denX e = iota k -> exists c, xunlift e = Some c /\ canon c /\ bden c = k.
Proof.
  destruct e as [[e0 e1] e2]. intros (C0 & C1 & C2) E. unfold denX, iota in E. apply f3_proj in E. destruct E as [E0 [E1 E2]].
  apply (bden_zero_iff e1 C1) in E1. apply (bden_zero_iff e2 C2) in E2. subst e1 e2.
  exists e0. split; [reflexivity|]. split; assumption.
Qed.
Lemma map_opt_unlift l ks : okx l -> Dx l = map iota ks -> exists q, map_opt xunlift l = Some q /\ okb q /\ Db q = ks.
Proof.
  intros Hl. revert ks. induction Hl as [|e l Ce Hl IH]; intros [|k ks] E; try discriminate E.
  - exists []. split; [reflexivity|]. split; [constructor|reflexivity].
  - cbn [map] in E.
    assert (E1 : denX e = iota k) by (change (hd (denX e) (denX e :: Dx l) = hd (denX e) (iota k :: map iota ks)); rewrite E; reflexivity).
    assert (E2 : Dx l = map iota ks) by (change (tl (denX e :: Dx l) = tl (iota k :: map iota ks)); rewrite E; reflexivity).
    destruct (xunlift_iota e k Ce E1) as [c [U1 [U2 U3]]]. destruct (IH ks E2) as [q [Q1 [Q2 Q3]]].
    exists (c :: q). cbn [map_opt]. rewrite U1, Q1. split; [reflexivity|]. split; [constructor; assumption|]. cbn [map]. rewrite U3, Q3. reflexivity.
Qed.
Lemma ptrunc_map_iota n p : ptrunc K3 n (map iota p) = map iota (ptrunc fp_field n p).
Proof. unfold ptrunc. rewrite map_app, firstn_map, map_repeat', map_length. reflexivity. Qed.

(* ------------------------------------------------------------------ the zero-free NTT arm *)
Lemma pow2_nat_Z l : (2 ^ Z.of_nat l)%Z = Z.of_nat (2 ^ l).
Proof. rewrite Nat2Z.inj_pow. reflexivity. Qed.

(* the transform length chosen by the code: a power of two 2^l >= deg + 1, l <= 31 when deg < 2^31 *)
Lemma order_spec da : -1 <= da < 2 ^ 31 ->
  exists l : nat, (l <= 31)%nat /\ next_pow2 (da + 1) = Z.of_nat (2 ^ l) /\ da < Z.of_nat (2 ^ l).
Proof.
  intros Hd. destruct (Z.eq_dec da (-1)) as [E|E].
  - subst da. exists O. split; [lia|]. split; [reflexivity|]. cbn. lia.
  - destruct (next_pow2_spec (da + 1) ltac:(lia)) as [l [N1 [N2 N3]]]. exists l.
    split; [apply N3; change (Z.of_nat 31) with 31; lia|]. rewrite <- pow2_nat_Z. split; [exact N1|lia].
Qed.

Theorem ntt_arm_spec a1 d1 q0 : okb a1 -> okb d1 -> ~ pzero fp_field (Db d1) ->
  peq fp_field (Db a1) (pmul fp_field q0 (Db d1)) -> pdeg fp_field (Db a1) < 2 ^ 31 ->
  exists av dv, pdiv_clean_codewords bfe_ops xfe_ops xb_act pdiv_offset ntt_x a1 d1 = Some (av, dv) /\
    (existsb (fis_zero xfe_ops) dv = false ->
     exists inv qv oi q, xbatch_inversion dv = Some inv /\ intt_x (map2 xmul av inv) = Some qv /\
                         xinverse pdiv_offset = Some oi /\ map_opt xunlift (poly_scale xfe_ops qv oi) = Some q /\
                         okb q /\ peq fp_field (Db q) q0).
Proof.
  intros Ha Hd NZ E Hdeg.
  pose proof (degree_pdeg bfe_ops fp_field canon bden bfe_field_ok a1 Ha) as Eda.
  set (da := pdeg fp_field (Db a1)) in *.
  destruct (order_spec da ltac:(pose proof (pdeg_ge fp_field (Db a1)); fold da in H; lia)) as [l [Hl [Eord Hfit]]].
  set (n := (2 ^ l)%nat) in *.
  destruct (codeword_spec a1 l Ha Hl) as [av [A1 [A2 [A3 A4]]]].
  destruct (codeword_spec d1 l Hd Hl) as [dv [D1 [D2 [D3 D4]]]]. fold n in A1, A3, A4, D1, D3, D4.
  exists av, dv. split.
  { unfold pdiv_clean_codewords. cbn [fzero xfe_ops]. rewrite Eda, Eord, A1, D1. reflexivity. }
  intros Hz.
  set (x := xoff) in *. set (w := wr_x l) in *. set (Q := map iota q0).
  set (PQ := ptrunc K3 n (pcompscale K3 Q x)). set (PD := ptrunc K3 n (pcompscale K3 (Db3 d1) x)) in *.
  set (CA := pcompscale K3 (Db3 a1) x) in *.
  (* degrees, in the base field *)
  assert (F1 : forall i, (n <= i)%nat -> coeff fp_field (Db a1) i = k0 fp_field).
  { intros i Hi. apply coeff_above_pdeg. fold da. lia. }
  assert (F23 : (forall i, (n <= i)%nat -> coeff fp_field q0 i = k0 fp_field) /\
                (pzero fp_field q0 \/ forall i, (n <= i)%nat -> coeff fp_field (Db d1) i = k0 fp_field)).
  { destruct (Z.eq_dec da (-1)) as [Ez|Enz].
    - assert (Zq : pzero fp_field q0).
      { assert (Za : pzero fp_field (Db a1)) by (apply pdeg_neg_iff; exact Ez).
        assert (Zp : pzero fp_field (pmul fp_field q0 (Db d1))) by (intros i; rewrite <- (peq_elim _ _ _ E i); apply Za).
        destruct (pmul_integral fp_field _ _ Zp) as [Z1|Z1]; [exact Z1|contradiction]. }
      split; [intros i _; apply Zq|left; exact Zq].
    - assert (Nq : 0 <= pdeg fp_field q0).
      { pose proof (pdeg_ge fp_field q0). destruct (Z.eq_dec (pdeg fp_field q0) (-1)) as [Eq|Eq]; [|lia]. exfalso. apply Enz.
        apply pdeg_neg_iff. apply pdeg_neg_iff in Eq. intros i. rewrite (peq_elim _ _ _ E i). apply pmul_pzero_l. exact Eq. }
      assert (Nd : 0 <= pdeg fp_field (Db d1)).
      { pose proof (pdeg_ge fp_field (Db d1)). destruct (Z.eq_dec (pdeg fp_field (Db d1)) (-1)) as [Eq|Eq]; [|lia]. exfalso. apply NZ.
        apply pdeg_neg_iff. exact Eq. }
      pose proof (pdeg_pmul fp_field q0 (Db d1) Nq Nd) as Hs. rewrite <- (pdeg_peq fp_field _ _ E) in Hs. fold da in Hs.
      split; [|right]; intros i Hi; apply coeff_above_pdeg; lia. }
  destruct F23 as [F2 F3].
  (* the dividend codeword is the codeword of the product of the two truncated factors, which fits *)
  assert (EQD : peq K3 (pmul K3 Q (Db3 d1)) (Db3 a1)).
  { rewrite !Db3_Db. unfold Q. rewrite <- pmul_map_iota. apply peq_map_iota. symmetry. exact E. }
  assert (B : peq K3 (pmul K3 PQ PD) CA).
  { destruct F3 as [Zq|F3].
    - assert (ZQ : pzero K3 PQ) by (apply ptrunc_pzero, pcompscale_pzero, pzero_map_iota; exact Zq).
      transitivity (@nil Fp3); [apply peq_nil_pzero, pmul_pzero_l; exact ZQ|]. symmetry. apply peq_nil_pzero.
      unfold CA. apply pcompscale_pzero. intros i. rewrite <- (peq_elim _ _ _ EQD i). apply pmul_pzero_l, pzero_map_iota. exact Zq.
    - assert (EPQ : peq K3 PQ (pcompscale K3 Q x)).
      { apply ptrunc_peq_coeff. intros i Hi. rewrite coeff_pcompscale. unfold Q. rewrite coeff_map_iota, (F2 i Hi), iota_0. ring. }
      assert (EPD : peq K3 PD (pcompscale K3 (Db3 d1) x)).
      { apply ptrunc_peq_coeff. intros i Hi. rewrite coeff_pcompscale, Db3_Db, coeff_map_iota, (F3 i Hi), iota_0. ring. }
      rewrite EPQ, EPD, <- pcompscale_pmul. unfold CA. apply pcompscale_peq. exact EQD. }
  assert (Bfit : forall i, (n <= i)%nat -> coeff K3 (pmul K3 PQ PD) i = k0 K3).
  { intros i Hi. rewrite (peq_elim _ _ _ B i). unfold CA. rewrite coeff_pcompscale, Db3_Db, coeff_map_iota, (F1 i Hi), iota_0. ring. }
  rewrite <- (ptrunc_ext K3 n _ _ B) in A4.
  (* point-wise division *)
  destruct (batch_inv_D dv D2 Hz) as [inv [I1 [I2 I3]]]. rewrite D4 in I3. fold PD in I3.
  destruct (map2_xmul_D av inv A2 I2) as [M1 M2].
  rewrite A4, (hadamard_divide K3 w n PQ PD (Dx inv) (ptrunc_length K3 _ _) (ptrunc_length K3 _ _) Bfit I3) in M2.
  assert (ML : length (map2 xmul av inv) = n).
  { apply (f_equal (@length Fp3)) in M2. rewrite map_length, dft_length in M2. unfold PQ in M2. rewrite ptrunc_length in M2. exact M2. }
  (* inverse transform *)
  destruct (intt_x_hyp l _ Hl ML M1) as [qv [V1 [V2 [V3 V4]]]]. fold w in V4.
  rewrite M2, (idft_dft K3 k3_two_nz l w PQ (ptrunc_length K3 _ _) (wr_x_half l Hl) (wr_x_nonzero l Hl)) in V4.
  (* unscaling and unlift *)
  destruct (fo_inv _ _ _ _ xfe_field_ok pdiv_offset (proj1 offset_ok) xoff_nonzero) as [oi [O1 [O2 O3]]].
  cbn [finv xfe_ops] in O1. fold xoff in O3. fold x in O3.
  pose proof (scale_ok xfe_ops K3 canon3 denX xfe_field_ok qv oi V2 O2) as S1.
  pose proof (scale_D xfe_ops K3 canon3 denX xfe_field_ok qv oi V2 O2) as S2.
  rewrite V4, O3 in S2. unfold PQ in S2. rewrite (unscale_ptrunc K3 n Q x xoff_nonzero) in S2. unfold Q in S2.
  rewrite ptrunc_map_iota in S2.
  destruct (map_opt_unlift _ _ S1 S2) as [q [U1 [U2 U3]]].
  exists inv, qv, oi, q. split; [exact I1|]. split; [exact V1|]. split; [exact O1|]. split; [exact U1|]. split; [exact U2|].
  rewrite U3. apply ptrunc_peq_coeff. exact F2.
Qed.

(* ------------------------------------------------------------------ all arms together *)
Lemma remove_root0_shape {F} (o : fops F) fix2 (a d a1 d1 : list F) :
  pdiv_remove_root0 o fix2 a d = Some (a1, d1) -> a1 = a \/ exists x0, a = x0 :: a1.
Proof.
  unfold pdiv_remove_root0. destruct d as [|c0 d']; [intros E; inversion E; left; reflexivity|].
  destruct (fis_zero o c0); [|intros E; inversion E; left; reflexivity].
  destruct a as [|x0 a'].
  - destruct fix2; [intros E; inversion E; left; reflexivity|discriminate].
  - destruct (fis_zero o x0); [intros E; inversion E; right; exists x0; reflexivity|discriminate].
Qed.

Theorem clean_divide_full cutoff dbg a d q0 : okb a -> okb d -> ~ pzero fp_field (Db d) ->
  peq fp_field (Db a) (pmul fp_field q0 (Db d)) -> poly_degree bfe_ops a < 2 ^ 31 ->
  exists q, pdiv_clean_divide cutoff dbg a d = Some q /\ okb q /\ peq fp_field (Db q) q0.
Proof.
  intros Ha Hd NZ E Hdeg.
  change (pdiv_clean_divide cutoff dbg a d)
    with (pdiv_clean_divide_gen bfe_ops xfe_ops xb_act xunlift pdiv_offset ntt_x intt_x xbatch_inversion true true cutoff dbg a d).
  destruct (Z_lt_ge_dec (poly_degree bfe_ops d) cutoff) as [Hc|Hc].
  { exact (clean_divide_long_arm_spec bfe_ops xfe_ops xb_act xunlift pdiv_offset ntt_x intt_x xbatch_inversion fp_field canon bden
             bfe_field_ok true true cutoff dbg a d q0 Ha Hd NZ E Hc). }
  destruct (remove_root0_total bfe_ops fp_field canon bden bfe_field_ok a d q0 Ha Hd E) as [a1 [d1 R]].
  destruct (remove_root0_spec bfe_ops fp_field canon bden bfe_field_ok true a d q0 a1 d1 Ha Hd NZ E R) as [Ha1 [Hd1 [NZ1 E1]]].
  assert (Hdeg1 : pdeg fp_field (Db a1) < 2 ^ 31).
  { rewrite (degree_pdeg bfe_ops fp_field canon bden bfe_field_ok a Ha) in Hdeg.
    destruct (remove_root0_shape bfe_ops true a d a1 d1 R) as [->|[x0 ->]]; [exact Hdeg|].
    destruct (Z_lt_ge_dec (pdeg fp_field (Db a1)) (2 ^ 31)) as [L|G]; [exact L|exfalso].
    change (2 ^ 31) with 2147483648 in *.
    destruct (coeff_at_pdeg fp_field (Db a1) ltac:(lia)) as [Ec Hn]. apply Hn. rewrite <- Ec.
    change (coeff fp_field (Db a1) (Z.to_nat (pdeg fp_field (Db a1))))
      with (coeff fp_field (Db (x0 :: a1)) (S (Z.to_nat (pdeg fp_field (Db a1))))).
    apply coeff_above_pdeg. lia. }
  destruct (ntt_arm_spec a1 d1 q0 Ha1 Hd1 NZ1 E1 Hdeg1) as [av [dv [C Hrest]]].
  destruct (existsb (fis_zero xfe_ops) dv) eqn:Ez.
  { exact (clean_divide_fallback_spec bfe_ops xfe_ops xb_act xunlift pdiv_offset ntt_x intt_x xbatch_inversion fp_field canon bden
             bfe_field_ok true cutoff dbg a d q0 a1 d1 av dv Ha Hd NZ E ltac:(lia) R C Ez). }
  destruct (Hrest eq_refl) as [inv [qv [oi [q [I1 [V1 [O1 [U1 [U2 U3]]]]]]]]].
  exists q. split; [|split; [exact U2|exact U3]].
  unfold pdiv_clean_divide_gen. replace (poly_degree bfe_ops d <? cutoff) with false by (symmetry; apply Z.ltb_ge; lia).
  rewrite R, C, Ez. cbn [andb]. rewrite I1. cbn [fmul finv xfe_ops]. rewrite V1, O1. exact U1.
Qed.
