(* XFieldExtra.v - theorems about the rest of the public extension-field API (model/XField.v): Sum, new_const,
   TryFrom<&[BFieldElement]>, increment / decrement, primitive roots of unity. *)
From Coq Require Import ZArith Bool Lia List.
From TF Require Import Word BFieldGen BFieldProofs BField BFieldLoops BFieldExtra XField XFieldProofs.
Import ListNotations.
Open Scope Z_scope.

Fixpoint vsum3 (l : list (Z * Z * Z)) : Z * Z * Z := match l with [] => (0, 0, 0) | x :: r => vadd3 x (vsum3 r) end.

Lemma red3_vadd3_l s t : red3 (vadd3 (red3 s) t) = red3 (vadd3 s t).
Proof.
  destruct s as [[s0 s1] s2], t as [[t0 t1] t2]. unfold red3, vadd3.
  rewrite !Z.add_mod_idemp_l by (unfold P; discriminate). reflexivity.
Qed.

Lemma vadd3_assoc a b c : vadd3 (vadd3 a b) c = vadd3 a (vadd3 b c).
Proof.
  destruct a as [[a0 a1] a2], b as [[b0 b1] b2], c as [[c0 c1] c2]. unfold vadd3. f_equal; [f_equal|]; ring.
Qed.

Lemma fold_xadd_spec r : forall x, canon3 x -> Forall canon3 r ->
  canon3 (fold_left xadd r x) /\ val3 (fold_left xadd r x) = red3 (vadd3 (val3 x) (vsum3 (map val3 r))).
Proof.
  induction r as [|y r IH]; intros x Cx Cr.
  - cbn [fold_left map vsum3]. split; [exact Cx|].
    destruct x as [[a b] c]. destruct Cx as (Ca & Cb & Cc). unfold val3, vadd3, red3.
    rewrite !Z.add_0_r. rewrite !Z.mod_small by apply val_range. reflexivity.
  - cbn [fold_left map vsum3].
    assert (Cy : canon3 y) by (apply (Forall_inv Cr)).
    assert (Cr' : Forall canon3 r) by (apply (Forall_inv_tail Cr)).
    destruct (xadd_spec x y Cx Cy) as [Ca Va].
    destruct (IH (xadd x y) Ca Cr') as [C V]. split; [exact C|].
    rewrite V, Va, red3_vadd3_l, vadd3_assoc. reflexivity.
Qed.

Theorem xsum_spec l : Forall canon3 l ->
  canon3 (xsum l) /\ val3 (xsum l) = red3 (vsum3 (map val3 l)).
Proof.
  intros Cl. destruct l as [|x r].
  - cbn [xsum map vsum3]. unfold xzero, canon3, val3, red3. rewrite zero_is_zero.
    split; [unfold canon, P; lia|reflexivity].
  - cbn [xsum map vsum3]. apply fold_xadd_spec; [apply (Forall_inv Cl)|apply (Forall_inv_tail Cl)].
Qed.

Theorem xnew_const_spec b : canon b -> canon3 (xnew_const b) /\ val3 (xnew_const b) = (val b, 0, 0).
Proof.
  intros Cb. unfold xnew_const, xlift, canon3, val3. rewrite zero_is_zero.
  split; [split; [exact Cb|unfold canon, P; lia]|reflexivity].
Qed.

Theorem xtry_from_slice_spec l :
  (length l = 3%nat -> xtry_from_slice l = Some (nth 0 l 0, nth 1 l 0, nth 2 l 0)) /\
  (length l <> 3%nat -> xtry_from_slice l = None).
Proof.
  destruct l as [|a [|b [|c [|d r]]]]; cbn; split; intros H; try reflexivity; try discriminate; exfalso; apply H; reflexivity.
Qed.

Lemma val_one : val bfe_one = 1.
Proof. rewrite one_is_mont_one, val_mont. reflexivity. Qed.

Lemma canon_one : canon bfe_one.
Proof. apply (ispow_one 0). Qed.

Theorem xincrement_spec x i : canon3 x ->
  (0 <= i < 3 -> exists y, xincrement x i = Some y /\ canon3 y /\
     val3 y = red3 (vadd3 (val3 x) (if i =? 0 then (1, 0, 0) else if i =? 1 then (0, 1, 0) else (0, 0, 1)))) /\
  (3 <= i -> xincrement x i = None).
Proof.
  destruct x as [[a b] c]. intros (Ca & Cb & Cc). split.
  - intros Hi. unfold xincrement.
    destruct (i =? 0) eqn:E0; [|destruct (i =? 1) eqn:E1; [|destruct (i =? 2) eqn:E2; [|lia]]];
      eexists; (split; [reflexivity|]); unfold canon3, val3, vadd3, red3.
    + destruct (add_spec a bfe_one Ca canon_one) as [C V]. rewrite V, val_one, !Z.add_0_r.
      rewrite (Z.mod_small (val b)), (Z.mod_small (val c)) by apply val_range. auto.
    + destruct (add_spec b bfe_one Cb canon_one) as [C V]. rewrite V, val_one, !Z.add_0_r.
      rewrite (Z.mod_small (val a)), (Z.mod_small (val c)) by apply val_range. auto.
    + destruct (add_spec c bfe_one Cc canon_one) as [C V]. rewrite V, val_one, !Z.add_0_r.
      rewrite (Z.mod_small (val a)), (Z.mod_small (val b)) by apply val_range. auto.
  - intros Hi. unfold xincrement.
    destruct (i =? 0) eqn:E0; [lia|]. destruct (i =? 1) eqn:E1; [lia|]. destruct (i =? 2) eqn:E2; [lia|]. reflexivity.
Qed.

Theorem xdecrement_spec x i : canon3 x ->
  (0 <= i < 3 -> exists y, xdecrement x i = Some y /\ canon3 y /\
     val3 y = red3 (vadd3 (val3 x) (if i =? 0 then (-1, 0, 0) else if i =? 1 then (0, -1, 0) else (0, 0, -1)))) /\
  (3 <= i -> xdecrement x i = None).
Proof.
  destruct x as [[a b] c]. intros (Ca & Cb & Cc). split.
  - intros Hi. unfold xdecrement.
    destruct (i =? 0) eqn:E0; [|destruct (i =? 1) eqn:E1; [|destruct (i =? 2) eqn:E2; [|lia]]];
      eexists; (split; [reflexivity|]); unfold canon3, val3, vadd3, red3.
    + destruct (sub_spec a bfe_one Ca canon_one) as [C V]. rewrite V, val_one, !Z.add_0_r.
      rewrite (Z.mod_small (val b)), (Z.mod_small (val c)) by apply val_range. auto.
    + destruct (sub_spec b bfe_one Cb canon_one) as [C V]. rewrite V, val_one, !Z.add_0_r.
      rewrite (Z.mod_small (val a)), (Z.mod_small (val c)) by apply val_range. auto.
    + destruct (sub_spec c bfe_one Cc canon_one) as [C V]. rewrite V, val_one, !Z.add_0_r.
      rewrite (Z.mod_small (val a)), (Z.mod_small (val b)) by apply val_range. auto.
  - intros Hi. unfold xdecrement.
    destruct (i =? 0) eqn:E0; [lia|]. destruct (i =? 1) eqn:E1; [lia|]. destruct (i =? 2) eqn:E2; [lia|]. reflexivity.
Qed.

(* the extension field's roots of unity are the lifted base-field ones *)
Theorem xroot_spec n : xroot n = match primitive_root_of_unity n with Some r => Some (xlift r) | None => None end.
Proof. reflexivity. Qed.
