(* XFieldGenProofs.v - the hand-written model of XFieldElement multiplication (model/XField.v) IS the function
   regenerated from x_field_element.rs on this run (gen/XFieldGen.v); so the theorems about xmul are theorems
   about the current source. *)
From Coq Require Import ZArith Bool List.
From TF Require Import Word BFieldGen BField XField XFieldGen.
Open Scope Z_scope.

Local Opaque bfe_mul bfe_add bfe_sub bfe_neg.

Theorem xfe_mul_gen_is_model : forall x y, xfe_mul_gen x y = xmul x y.
Proof. intros [[c b] a] [[f e] d]. reflexivity. Qed.
