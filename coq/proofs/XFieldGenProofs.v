(* XFieldGenProofs.v - the hand-written model of XFieldElement multiplication (model/XField.v) IS the function
   regenerated from x_field_element.rs on this run (gen/XFieldGen.v); so the theorems about xmul are theorems
   about the current source. *)
From Coq Require Import ZArith Bool List.
From TF Require Import Word BFieldGen BField XField XFieldGen.
Open Scope Z_scope.

Local Opaque bfe_mul bfe_add bfe_sub bfe_neg.

Theorem xfe_mul_gen_is_model : forall x y, xfe_mul_gen x y = xmul x y.
Proof. intros [[c b] a] [[f e] d]. reflexivity. Qed.

(* the linear operators: Add, Neg, Sub, scalar multiplication and the mixed BFieldElement / XFieldElement forms *)
Theorem xfe_linear_gen_is_model :
  (forall x y, xfe_add_gen x y = xadd x y) /\
  (forall x, xfe_neg_gen x = xneg x) /\
  (forall x y, xfe_sub_gen x y = xsub x y) /\
  (forall x k, xfe_scale_gen x k = xscale x k) /\
  (forall k x, bfe_mul_xfe_gen k x = xscale x k) /\
  (forall x k, xfe_add_bfe_gen x k = xaddb x k) /\
  (forall k x, bfe_add_xfe_gen k x = baddx k x) /\
  (forall x k, xfe_sub_bfe_gen x k = xsubb x k) /\
  (forall k x, bfe_sub_xfe_gen k x = bsubx k x).
Proof.
  repeat (match goal with |- _ /\ _ => split end);
    first [ intros [[a b] c] [[d e] f]; reflexivity
          | intros [[a b] c] k; reflexivity
          | intros k [[a b] c]; reflexivity
          | intros [[a b] c]; reflexivity ].
Qed.
