(* XFieldIrred.v - x^3 - x + 1 has no root modulo p (Frobenius + Bezout certificate), hence every
   non-zero element of Fp[x]/(x^3-x+1) has non-zero norm, hence the model's inverse is total. *)
From Coq Require Import ZArith Bool Lia List Setoid Morphisms Zpow_facts.
From TF Require Lucas.
From TF Require Import Word BFieldGen BField XField BFieldProofs BFieldLoops ModP XFieldProofs.
Open Scope Z_scope.

Definition fshah (r : Z) : Z := r ^ 3 - r + 1.

Lemma P_eq' : BFieldGen.P = Lucas.P. Proof. reflexivity. Qed.

(* ---------------------------------------------------------------- Fermat for all residues, inverses *)
Lemma fermat_all r : eqP (r ^ P) r.
Proof.
  apply eqP_of_mod. rewrite Zpower_mod by exact P_pos.
  destruct (Z.eq_dec (r mod P) 0) as [E|E].
  - rewrite E. reflexivity.
  - assert (H : 0 < r mod P < P) by (pose proof (Z.mod_pos_bound r P P_pos); lia).
    set (x := r mod P) in *.
    assert (Ex : x ^ P = x ^ Lucas.N * x).
    { change Lucas.N with (P - 1). rewrite <- (Z.pow_1_r x) at 3. rewrite <- Z.pow_add_r by (unfold P; lia).
      f_equal; try ring. }
    rewrite Ex. rewrite <- Z.mul_mod_idemp_l by exact P_nz.
    rewrite P_eq' in *. rewrite (Lucas.fermat _ H). rewrite Z.mul_1_l. apply Z.mod_small. lia.
Qed.

Lemma modinv a : a mod P <> 0 -> exists b, eqP (a * b) 1.
Proof.
  intros E. exists ((a mod P) ^ (P - 2)). apply eqP_of_mod.
  assert (H : 0 < a mod P < P) by (pose proof (Z.mod_pos_bound a P P_pos); lia).
  rewrite <- Z.mul_mod_idemp_l by exact P_nz.
  replace (a mod P * (a mod P) ^ (P - 2)) with ((a mod P) ^ (P - 1)).
  - change (P - 1) with Lucas.N. rewrite P_eq' in *. rewrite (Lucas.fermat _ H). reflexivity.
  - replace (P - 1) with (1 + (P - 2)) by ring. rewrite Z.pow_add_r, Z.pow_1_r by (unfold P; lia). reflexivity.
Qed.

Lemma neqP0_mod a : ~ eqP a 0 -> a mod P <> 0.
Proof. intros N E. apply N. apply eqP_of_mod. rewrite E. reflexivity. Qed.

Lemma eqP_integral a b : eqP (a * b) 0 -> eqP a 0 \/ eqP b 0.
Proof.
  intros H. apply eqP_to_mod in H. rewrite Z.mod_0_l in H by exact P_nz.
  assert (D : (P | a * b)) by (apply Z.mod_divide; [exact P_nz|exact H]).
  rewrite P_eq' in D. apply Znumtheory.prime_mult in D; [|exact Lucas.P_prime]. rewrite <- P_eq' in D.
  destruct D as [D|D]; [left|right]; apply eqP_of_mod; rewrite Z.mod_0_l by exact P_nz;
    apply Z.mod_divide; try exact P_nz; exact D.
Qed.

Lemma eqP_cancel_l a x : ~ eqP a 0 -> eqP (a * x) 0 -> eqP x 0.
Proof. intros Na H. destruct (eqP_integral _ _ H) as [E|E]; [contradiction|exact E]. Qed.

(* ---------------------------------------------------------------- evaluation at a root is a ring morphism *)
Lemma eval3_red3 t r : eqP (eval3 (red3 t) r) (eval3 t r).
Proof. destruct t as [[t0 t1] t2]. unfold eval3, red3. rewrite !mod_eqP. reflexivity. Qed.

Lemma eval3_vmul3 s t r : eqP (fshah r) 0 -> eqP (eval3 (vmul3 s t) r) (eval3 s r * eval3 t r).
Proof.
  intros Hr. rewrite (vmul3_is_product_mod_shah s t r).
  destruct (conv5 s t) as [[[[c0 c1] c2] c3] c4].
  change (r ^ 3 - r + 1) with (fshah r). rewrite Hr. apply eqP_of_eq. ring.
Qed.

Fixpoint vpowp (x : Z * Z * Z) (e : positive) : Z * Z * Z :=
  match e with
  | xH => x
  | xO e' => let y := vpowp x e' in red3 (vmul3 y y)
  | xI e' => let y := vpowp x e' in red3 (vmul3 (red3 (vmul3 y y)) x)
  end.

Lemma eval3_vpowp x r : eqP (fshah r) 0 -> forall e, eqP (eval3 (vpowp x e) r) (eval3 x r ^ Zpos e).
Proof.
  intros Hr. induction e as [e IH|e IH|]; cbn [vpowp].
  - rewrite eval3_red3, (eval3_vmul3 _ _ r Hr), eval3_red3, (eval3_vmul3 _ _ r Hr), IH.
    rewrite Pos2Z.inj_xI. apply eqP_of_eq.
    replace (2 * Z.pos e + 1) with (Z.pos e + Z.pos e + 1) by ring.
    rewrite !Z.pow_add_r, Z.pow_1_r by lia. reflexivity.
  - rewrite eval3_red3, (eval3_vmul3 _ _ r Hr), IH.
    rewrite Pos2Z.inj_xO. apply eqP_of_eq.
    replace (2 * Z.pos e) with (Z.pos e + Z.pos e) by ring. rewrite Z.pow_add_r by lia. reflexivity.
  - rewrite Z.pow_1_r. reflexivity.
Qed.

(* X^p in Fp[X]/(X^3 - X + 1), by 64 squarings *)
Definition frobX : Z * Z * Z := vpowp (0, 1, 0) 18446744069414584321%positive.
Lemma frobX_value : frobX = (7831040667286096068, 10050274602728160328, 6700183068485440219).
Proof. vm_compute. reflexivity. Qed.

(* Bezout certificate  U * (X^3 - X + 1) + V * (X^p - X) = 1  in Fp[X] *)
Definition bzU0 := 15896837874617748425. Definition bzU1 := 12909963218832731643.
Definition bzV0 := 17455428877415444409. Definition bzV1 := 15238614666038134874. Definition bzV2 := 7360253288463281919.
Definition gG0 := 7831040667286096068. Definition gG1 := 10050274602728160328. Definition gG2 := 6700183068485440219.
Definition bzK0 := bzU0 + bzV0 * gG0.
Definition bzK1 := bzU1 - bzU0 + bzV0 * (gG1 - 1) + bzV1 * gG0.
Definition bzK2 := - bzU1 + bzV0 * gG2 + bzV1 * (gG1 - 1) + bzV2 * gG0.
Definition bzK3 := bzU0 + bzV1 * gG2 + bzV2 * (gG1 - 1).
Definition bzK4 := bzU1 + bzV2 * gG2.
Lemma bezout_coeffs : bzK0 mod P = 1 /\ bzK1 mod P = 0 /\ bzK2 mod P = 0 /\ bzK3 mod P = 0 /\ bzK4 mod P = 0.
Proof. vm_compute. repeat split; reflexivity. Qed.

Lemma bezout_identity r :
  (bzU0 + bzU1 * r) * fshah r + (bzV0 + bzV1 * r + bzV2 * r ^ 2) * (eval3 (gG0, gG1, gG2) r - r)
  = bzK0 + bzK1 * r + bzK2 * r ^ 2 + bzK3 * r ^ 3 + bzK4 * r ^ 4.
Proof. unfold fshah, eval3, bzK0, bzK1, bzK2, bzK3, bzK4. ring. Qed.

Theorem shah_no_root r : ~ eqP (fshah r) 0.
Proof.
  intros Hr.
  assert (Hg : eqP (eval3 (gG0, gG1, gG2) r) r).
  { change (gG0, gG1, gG2) with (7831040667286096068, 10050274602728160328, 6700183068485440219).
    rewrite <- frobX_value. unfold frobX. rewrite (eval3_vpowp _ r Hr).
    change (eval3 (0, 1, 0) r) with (0 + 1 * r + 0 * r ^ 2).
    replace (0 + 1 * r + 0 * r ^ 2) with r by ring. exact (fermat_all r). }
  pose proof (bezout_identity r) as B.
  assert (L : eqP ((bzU0 + bzU1 * r) * fshah r + (bzV0 + bzV1 * r + bzV2 * r ^ 2) * (eval3 (gG0, gG1, gG2) r - r)) 0).
  { rewrite Hr, Hg. apply eqP_of_eq. ring. }
  rewrite B in L. destruct bezout_coeffs as (K0 & K1 & K2 & K3 & K4).
  assert (R : eqP (bzK0 + bzK1 * r + bzK2 * r ^ 2 + bzK3 * r ^ 3 + bzK4 * r ^ 4) 1).
  { rewrite <- (mod_eqP bzK0), <- (mod_eqP bzK1), <- (mod_eqP bzK2), <- (mod_eqP bzK3), <- (mod_eqP bzK4).
    rewrite K0, K1, K2, K3, K4. apply eqP_of_eq. ring. }
  rewrite R in L. apply eqP_to_mod in L. vm_compute in L. discriminate L.
Qed.

(* ---------------------------------------------------------------- the norm of a non-zero element is non-zero *)
Lemma norm3_c00 c : norm3 (c, 0, 0) = c ^ 3.
Proof. cbv beta iota zeta delta [norm3 cof3]. ring. Qed.
Lemma norm3_cb0 c b : norm3 (c, b, 0) = c ^ 3 - b ^ 2 * c - b ^ 3.
Proof. cbv beta iota zeta delta [norm3 cof3]. ring. Qed.
Lemma norm3_homog a v u : norm3 (a * v, a * u, a) = a ^ 3 * norm3 (v, u, 1).
Proof. cbv beta iota zeta delta [norm3 cof3]. ring. Qed.
Lemma norm3_monic v u :
  norm3 (v, u, 1) = (u * v + 1) ^ 2 - u * (u ^ 2 - v - 1) * (u * v + 1) + v * (u ^ 2 - v - 1) ^ 2.
Proof. cbv beta iota zeta delta [norm3 cof3]. ring. Qed.
Lemma shah_div_quadratic u v X :
  fshah X = (X - u) * (X ^ 2 + u * X + v) + ((u ^ 2 - v - 1) * X + (u * v + 1)).
Proof. unfold fshah. ring. Qed.

Global Instance norm3_eqP_proper :
  Proper (eqP ==> eqP ==> eqP ==> eqP) (fun c b a => norm3 (c, b, a)).
Proof.
  intros c c' Hc b b' Hb a a' Ha. cbv beta iota zeta delta [norm3 cof3]. rewrite Hc, Hb, Ha. reflexivity.
Qed.

Lemma norm3_congr c b a c' b' a' : eqP c c' -> eqP b b' -> eqP a a' -> eqP (norm3 (c, b, a)) (norm3 (c', b', a')).
Proof. intros Hc Hb Ha. exact (norm3_eqP_proper c c' Hc b b' Hb a a' Ha). Qed.

Lemma pow3_zero x : eqP (x ^ 3) 0 -> eqP x 0.
Proof.
  intros H. replace (x ^ 3) with (x * (x * x)) in H by ring.
  destruct (eqP_integral _ _ H) as [E|E]; [exact E|]. destruct (eqP_integral _ _ E); assumption.
Qed.

Theorem norm3_nonzero c b a : ~ (eqP c 0 /\ eqP b 0 /\ eqP a 0) -> ~ eqP (norm3 (c, b, a)) 0.
Proof.
  intros Hnz HN.
  destruct (eqP_dec a 0) as [Ea|Na].
  - destruct (eqP_dec b 0) as [Eb|Nb].
    + (* constant *)
      assert (H : eqP (norm3 (c, 0, 0)) 0) by (transitivity (norm3 (c, b, a)); [apply norm3_congr; [reflexivity|symmetry; exact Eb|symmetry; exact Ea]|exact HN]).
      rewrite norm3_c00 in H. apply pow3_zero in H. apply Hnz. auto.
    + (* linear: root r = - c / b *)
      assert (H : eqP (norm3 (c, b, 0)) 0) by (transitivity (norm3 (c, b, a)); [apply norm3_congr; [reflexivity|reflexivity|symmetry; exact Ea]|exact HN]).
      rewrite norm3_cb0 in H.
      destruct (modinv b (neqP0_mod _ Nb)) as [b' Hb'].
      apply (shah_no_root (- c * b')).
      apply (eqP_cancel_l (b ^ 3)).
      { intros E. apply pow3_zero in E. contradiction. }
      (* b^3 * fshah(-c b') = -c^3 (b b')^3 + c b^2 (b b') + b^3 = - norm *)
      assert (E : b ^ 3 * fshah (- c * b') = - c ^ 3 * (b * b') ^ 3 + c * b ^ 2 * (b * b') + b ^ 3) by (unfold fshah; ring).
      rewrite E, Hb'. transitivity (- (c ^ 3 - b ^ 2 * c - b ^ 3)); [apply eqP_of_eq; ring|rewrite H; reflexivity].
  - (* a invertible: normalise to a monic quadratic X^2 + u X + v *)
    destruct (modinv a (neqP0_mod _ Na)) as [a' Ha'].
    set (v := c * a'). set (u := b * a').
    assert (Hv : eqP (a * v) c) by (unfold v; replace (a * (c * a')) with (c * (a * a')) by ring; rewrite Ha'; apply eqP_of_eq; ring).
    assert (Hu : eqP (a * u) b) by (unfold u; replace (a * (b * a')) with (b * (a * a')) by ring; rewrite Ha'; apply eqP_of_eq; ring).
    assert (H : eqP (norm3 (a * v, a * u, a)) 0) by (transitivity (norm3 (c, b, a)); [apply norm3_congr; [exact Hv|exact Hu|reflexivity]|exact HN]).
    rewrite norm3_homog in H.
    assert (Hm : eqP (norm3 (v, u, 1)) 0).
    { apply (eqP_cancel_l (a ^ 3)); [intros E; apply pow3_zero in E; contradiction|exact H]. }
    rewrite norm3_monic in Hm.
    set (al := u ^ 2 - v - 1) in *. set (be := u * v + 1) in *.
    destruct (eqP_dec al 0) as [Eal|Nal].
    + (* remainder is the constant be; norm = be^2 *)
      assert (Hb2 : eqP (be ^ 2) 0).
      { transitivity (be ^ 2 - u * al * be + v * al ^ 2); [|exact Hm]. rewrite Eal. apply eqP_of_eq. ring. }
      replace (be ^ 2) with (be * be) in Hb2 by ring.
      assert (Hbe : eqP be 0) by (destruct (eqP_integral _ _ Hb2); assumption).
      apply (shah_no_root u). rewrite (shah_div_quadratic u v u). fold al be. rewrite Eal, Hbe. apply eqP_of_eq. ring.
    + (* common root s = - be / al *)
      destruct (modinv al (neqP0_mod _ Nal)) as [al' Hal'].
      set (s := - be * al').
      assert (Hrho : eqP (al * s + be) 0).
      { unfold s. replace (al * (- be * al') + be) with (be - be * (al * al')) by ring. rewrite Hal'. apply eqP_of_eq. ring. }
      assert (Hg : eqP (s ^ 2 + u * s + v) 0).
      { apply (eqP_cancel_l (al ^ 2)).
        { intros E. replace (al ^ 2) with (al * al) in E by ring. destruct (eqP_integral _ _ E); contradiction. }
        assert (E : al ^ 2 * (s ^ 2 + u * s + v) = (al * s) ^ 2 + u * al * (al * s) + v * al ^ 2) by ring.
        assert (Hs : eqP (al * s) (- be)).
        { unfold s. replace (al * (- be * al')) with (- be * (al * al')) by ring. rewrite Hal'. apply eqP_of_eq. ring. }
        rewrite E, Hs. transitivity (be ^ 2 - u * al * be + v * al ^ 2); [apply eqP_of_eq; ring|exact Hm]. }
      apply (shah_no_root s). rewrite (shah_div_quadratic u v s). fold al be. rewrite Hg, Hrho. apply eqP_of_eq. ring.
Qed.

(* ---------------------------------------------------------------- the inverse is total on non-zero elements *)
Theorem xinverse_total x : canon3 x -> val3 x <> (0, 0, 0) ->
  exists y, xinverse x = Some y /\ canon3 y /\ red3 (vmul3 (val3 y) (val3 x)) = (1, 0, 0).
Proof.
  intros Cx Hnz. apply xinverse_spec; [exact Cx|].
  destruct x as [[c b] a]. unfold val3 in *.
  intros E. apply (norm3_nonzero (val c) (val b) (val a)).
  - intros (E0 & E1 & E2). apply Hnz.
    apply eqP_to_mod in E0, E1, E2. rewrite Z.mod_0_l in E0, E1, E2 by exact P_nz.
    rewrite (Z.mod_small _ _ (val_range c)) in E0. rewrite (Z.mod_small _ _ (val_range b)) in E1.
    rewrite (Z.mod_small _ _ (val_range a)) in E2. rewrite E0, E1, E2. reflexivity.
  - apply eqP_of_mod. rewrite E, Z.mod_0_l by exact P_nz. reflexivity.
Qed.
