(* proofs/XFieldNtt.v - C06 for the extension field TREATED AS A FIELD.
   proofs/NttXfe.v proves that ntt on XFieldElement vectors is the coordinate-wise DFT over Fp^3 (dft3, no field
   structure).  Here the generic theorems of NttProofs.v are instantiated with the field fk := k3_field of
   proofs/XFieldOk.v, hS := iota o bden (the twiddles, lifted) and hF := denX:
       ntt_x_field_dft   : map denX (ntt_x x)  = dft  k3_field (iota (bden omega)) (map denX x)
       intt_x_field_idft : map denX (intt_x x) = idft k3_field (iota (bden omega)) (map denX x)
   and the same for BFieldElement vectors seen inside the extension (den := bden3 = iota o bden), which is what the
   mixed-field polynomial products need.  Bundled as ntt_ok / intt_ok / roots_ok-shaped lemmas at lmax = 31 with
   wr_x l = the lift of the library's 2^l-th root. *)
From Coq Require Import ZArith Lia List Bool.
From TF Require Import Word BFieldGen BField XField FieldOps Lucas FieldTheory BFieldProofs BFieldLoops BFieldOk
  XFieldProofs XFieldOk NttRoots Ntt Dft NttLists NttStruct NttDft NttBitrev NttProofs NttXfe.
Import ListNotations.
Local Open Scope Z_scope.

(* ------------------------------------------------------------------ the base field inside the extension *)
Definition bden3 (a : Z) : Fp3 := iota (bden a).

Theorem bfe_field_ok3 : field_ok bfe_ops k3_field canon bden3.
Proof.
  pose proof bfe_field_ok as H. unfold bden3. constructor.
  - destruct (fo_zero _ _ _ _ H) as [C E]. split; [exact C|]. rewrite E. exact iota_0.
  - destruct (fo_one _ _ _ _ H) as [C E]. split; [exact C|]. rewrite E. exact iota_1.
  - intros a b Ha Hb. destruct (fo_add _ _ _ _ H a b Ha Hb) as [C E]. split; [exact C|]. rewrite E. apply iota_add.
  - intros a b Ha Hb. destruct (fo_sub _ _ _ _ H a b Ha Hb) as [C E]. split; [exact C|]. rewrite E. apply iota_sub.
  - intros a b Ha Hb. destruct (fo_mul _ _ _ _ H a b Ha Hb) as [C E]. split; [exact C|]. rewrite E. apply iota_mul.
  - intros a Ha. destruct (fo_neg _ _ _ _ H a Ha) as [C E]. split; [exact C|]. rewrite E. apply iota_opp.
  - intros a Ha Hn.
    assert (Hn' : bden a <> k0 fp_field) by (intros E; apply Hn; rewrite E; exact iota_0).
    destruct (fo_inv _ _ _ _ H a Ha Hn') as [y [E [C V]]]. exists y. split; [exact E|]. split; [exact C|].
    rewrite V. apply iota_inv. exact Hn'.
  - intros a Ha E. apply (fo_inv0 _ _ _ _ H a Ha). apply iota_0_iff. exact E.
  - intros a b Ha Hb. rewrite (fo_eqb _ _ _ _ H a b Ha Hb). split; [intros ->; reflexivity|apply iota_inj].
  - intros a b Ha Hb E. apply (fo_inj _ _ _ _ H a b Ha Hb). apply iota_inj. exact E.
  - intros v Hv. destruct (fo_from _ _ _ _ H v Hv) as [C E]. split; [exact C|]. rewrite E. apply iota_kofZ.
  - intros a e Ha He. destruct (fo_pow _ _ _ _ H a e Ha He) as [C E]. split; [exact C|]. rewrite E. apply iota_kpowZ.
Qed.

Lemma bb_hom_field : ntt_hom bfe_ops bfe_ops bb_act k3_field canon canon bden3 bden3.
Proof. exact (ntt_hom_self bfe_ops k3_field canon bden3 bfe_field_ok3). Qed.

(* XFieldElement vectors, BFieldElement twiddles, into the field Fp3 *)
Lemma xb_hom_field : ntt_hom bfe_ops xfe_ops xb_act k3_field canon canon3 bden3 denX.
Proof.
  constructor.
  - exact (nh_one _ _ _ _ _ _ _ _ bb_hom_field).
  - exact (nh_mul _ _ _ _ _ _ _ _ bb_hom_field).
  - exact (nh_pow _ _ _ _ _ _ _ _ bb_hom_field).
  - exact (nh_inv _ _ _ _ _ _ _ _ bb_hom_field).
  - exact (nh_from _ _ _ _ _ _ _ _ bb_hom_field).
  - exact (nh_is_zero _ _ _ _ _ _ _ _ bb_hom_field).
  - exact (nh_zero _ _ _ _ _ _ _ _ bb_hom_field).
  - exact (fo_add _ _ _ _ xfe_field_ok).
  - exact (fo_sub _ _ _ _ xfe_field_ok).
  - intros a s Ha Hs. cbn [smul xb_act]. exact (denX_xscale a s Ha Hs).
Qed.

Lemma k3_two_nz : two_neq_0 k3_field.
Proof. exact k3_two_neq_0. Qed.

Lemma half_root_iota w l : half_root fp_field w l -> half_root k3_field (iota w) l.
Proof.
  destruct l as [|l]; [exact (fun H => H)|]. cbn [half_root]. intros H.
  rewrite <- iota_kpow, H, iota_opp. reflexivity.
Qed.

(* okX / xden of NttXfe.v are canon3 / denX *)
Lemma okX_canon3 x : okX x <-> canon3 x.
Proof. destruct x as [[a b] c]. reflexivity. Qed.
Lemma xden_denX x : xden x = denX x.
Proof. destruct x as [[a b] c]. reflexivity. Qed.

(* the lifted root of the library for length 2^l *)
Definition wr_x (l : nat) : Fp3 :=
  match primitive_root_of_unity (2 ^ Z.of_nat l) with Some w => bden3 w | None => k1 k3_field end.

Lemma wr_x_half l : (l <= 31)%nat -> half_root k3_field (wr_x l) l.
Proof.
  intros Hl. destruct (root_exists l ltac:(lia)) as [w W]. unfold wr_x. rewrite W.
  apply half_root_iota. exact (proj1 (proj2 (proj2 (roots_exact_order l w ltac:(lia) W)))).
Qed.
Lemma wr_x_nonzero l : (l <= 31)%nat -> wr_x l <> k0 k3_field.
Proof.
  intros Hl. destruct (root_exists l ltac:(lia)) as [w W]. unfold wr_x. rewrite W.
  intros E. apply iota_0_iff in E. revert E.
  exact (proj1 (proj2 (proj2 (proj2 (roots_exact_order l w ltac:(lia) W))))).
Qed.

(* ------------------------------------------------------------------ NTT over the extension field is the DFT over Fp3 *)
Theorem ntt_x_field_dft l x : (l <= 31)%nat -> length x = (2 ^ l)%nat -> Forall canon3 x ->
  exists y omega, primitive_root_of_unity (2 ^ Z.of_nat l) = Some omega /\ ntt_x x = Some y /\
    Forall canon3 y /\ length y = length x /\ map denX y = dft k3_field (iota (bden omega)) (map denX x).
Proof.
  intros Hl Hx Hok. destruct (root_exists l ltac:(lia)) as [omega Hr].
  destruct (roots_exact_order l omega ltac:(lia) Hr) as [C [_ [Hh _]]].
  destruct (ntt_is_dft bfe_ops xfe_ops xb_act k3_field canon canon3 bden3 denX xb_hom_field l x omega Hl Hx Hok Hr C
              (half_root_iota _ _ Hh)) as [y Hy].
  exists y, omega. split; [exact Hr|exact Hy].
Qed.
Theorem intt_x_field_idft l x : (l <= 31)%nat -> length x = (2 ^ l)%nat -> Forall canon3 x ->
  exists y omega, primitive_root_of_unity (2 ^ Z.of_nat l) = Some omega /\ intt_x x = Some y /\
    Forall canon3 y /\ length y = length x /\ map denX y = idft k3_field (iota (bden omega)) (map denX x).
Proof.
  intros Hl Hx Hok. destruct (root_exists l ltac:(lia)) as [omega Hr].
  destruct (roots_exact_order l omega ltac:(lia) Hr) as [C [_ [Hh [H0 _]]]].
  destruct (intt_is_idft bfe_ops xfe_ops xb_act k3_field canon canon3 bden3 denX xb_hom_field k3_two_nz l x omega
              Hl Hx Hok Hr C (half_root_iota _ _ Hh)) as [y Hy].
  { intros E. apply iota_0_iff in E. exact (H0 E). }
  exists y, omega. split; [exact Hr|exact Hy].
Qed.
(* BFieldElement vectors seen inside the extension field *)
Theorem ntt_b_field3_dft l x : (l <= 31)%nat -> length x = (2 ^ l)%nat -> Forall canon x ->
  exists y omega, primitive_root_of_unity (2 ^ Z.of_nat l) = Some omega /\ ntt_b x = Some y /\
    Forall canon y /\ length y = length x /\ map bden3 y = dft k3_field (iota (bden omega)) (map bden3 x).
Proof.
  intros Hl Hx Hok. destruct (root_exists l ltac:(lia)) as [omega Hr].
  destruct (roots_exact_order l omega ltac:(lia) Hr) as [C [_ [Hh _]]].
  destruct (ntt_is_dft bfe_ops bfe_ops bb_act k3_field canon canon bden3 bden3 bb_hom_field l x omega Hl Hx Hok Hr C
              (half_root_iota _ _ Hh)) as [y Hy].
  exists y, omega. split; [exact Hr|exact Hy].
Qed.
Theorem intt_b_field3_idft l x : (l <= 31)%nat -> length x = (2 ^ l)%nat -> Forall canon x ->
  exists y omega, primitive_root_of_unity (2 ^ Z.of_nat l) = Some omega /\ intt_b x = Some y /\
    Forall canon y /\ length y = length x /\ map bden3 y = idft k3_field (iota (bden omega)) (map bden3 x).
Proof.
  intros Hl Hx Hok. destruct (root_exists l ltac:(lia)) as [omega Hr].
  destruct (roots_exact_order l omega ltac:(lia) Hr) as [C [_ [Hh [H0 _]]]].
  destruct (intt_is_idft bfe_ops bfe_ops bb_act k3_field canon canon bden3 bden3 bb_hom_field k3_two_nz l x omega
              Hl Hx Hok Hr C (half_root_iota _ _ Hh)) as [y Hy].
  { intros E. apply iota_0_iff in E. exact (H0 E). }
  exists y, omega. split; [exact Hr|exact Hy].
Qed.

(* the same, in the shape of the hypotheses of the polynomial theorems (ntt_ok / intt_ok of PolyC07Wrap.v unfolded) *)
Lemma ntt_x_hyp l x : (l <= 31)%nat -> length x = (2 ^ l)%nat -> Forall canon3 x ->
  exists y, ntt_x x = Some y /\ Forall canon3 y /\ length y = length x /\ map denX y = dft k3_field (wr_x l) (map denX x).
Proof.
  intros Hl Hx Hc. destruct (ntt_x_field_dft l x Hl Hx Hc) as [y [w [W [Y1 [Y2 [Y3 Y4]]]]]].
  exists y. unfold wr_x. rewrite W. repeat split; assumption.
Qed.
Lemma intt_x_hyp l x : (l <= 31)%nat -> length x = (2 ^ l)%nat -> Forall canon3 x ->
  exists y, intt_x x = Some y /\ Forall canon3 y /\ length y = length x /\ map denX y = idft k3_field (wr_x l) (map denX x).
Proof.
  intros Hl Hx Hc. destruct (intt_x_field_idft l x Hl Hx Hc) as [y [w [W [Y1 [Y2 [Y3 Y4]]]]]].
  exists y. unfold wr_x. rewrite W. repeat split; assumption.
Qed.
Lemma ntt_b3_hyp l x : (l <= 31)%nat -> length x = (2 ^ l)%nat -> Forall canon x ->
  exists y, ntt_b x = Some y /\ Forall canon y /\ length y = length x /\ map bden3 y = dft k3_field (wr_x l) (map bden3 x).
Proof.
  intros Hl Hx Hc. destruct (ntt_b_field3_dft l x Hl Hx Hc) as [y [w [W [Y1 [Y2 [Y3 Y4]]]]]].
  exists y. unfold wr_x. rewrite W. repeat split; assumption.
Qed.
Lemma intt_b3_hyp l x : (l <= 31)%nat -> length x = (2 ^ l)%nat -> Forall canon x ->
  exists y, intt_b x = Some y /\ Forall canon y /\ length y = length x /\ map bden3 y = idft k3_field (wr_x l) (map bden3 x).
Proof.
  intros Hl Hx Hc. destruct (intt_b_field3_idft l x Hl Hx Hc) as [y [w [W [Y1 [Y2 [Y3 Y4]]]]]].
  exists y. unfold wr_x. rewrite W. repeat split; assumption.
Qed.

(* round trips on the words, from the field-level inversion theorem *)
Theorem intt_ntt_x_field l x : (l <= 31)%nat -> length x = (2 ^ l)%nat -> Forall canon3 x ->
  exists y, ntt_x x = Some y /\ intt_x y = Some x.
Proof.
  intros Hl Hx Hok.
  destruct (ntt_x_hyp l x Hl Hx Hok) as [y [Ey [Oy [Ly My]]]].
  destruct (intt_x_hyp l y Hl ltac:(lia) Oy) as [z [Ez [Oz [Lz Mz]]]].
  exists y. split; [exact Ey|]. rewrite Ez. f_equal.
  assert (E : map denX z = map denX x).
  { rewrite Mz, My. apply (idft_dft k3_field k3_two_nz l); [rewrite map_length; exact Hx|apply wr_x_half; exact Hl|apply wr_x_nonzero; exact Hl]. }
  clear - E Oz Hok. revert x Hok E. induction z as [|a z IH]; intros [|b x] Hx E; try discriminate E; [reflexivity|].
  inversion Oz; subst. inversion Hx; subst. cbn [map] in E.
  assert (E1 : denX a = denX b) by (change (hd (denX a) (denX a :: map denX z) = hd (denX a) (denX b :: map denX x)); rewrite E; reflexivity).
  assert (E2 : map denX z = map denX x) by (change (tl (denX a :: map denX z) = tl (denX b :: map denX x)); rewrite E; reflexivity).
  f_equal; [apply denX_inj; assumption|apply IH; assumption].
Qed.
