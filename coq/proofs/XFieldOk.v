(* proofs/XFieldOk.v - the extension-field operations record `xfe_ops` (triples of Montgomery words,
   model/XField.v) refines an abstract field:
       Fp3 = Fp x Fp x Fp   with the product of Fp[X]/(X^3 - X + 1)        k3_field : fieldK Fp3
       xfe_field_ok : field_ok xfe_ops k3_field canon3 denX
   with  denX (a, b, c) = (bden a, bden b, bden c).  The field axioms of Fp3 are polynomial identities over
   Fp (closed by `ring`) plus the inverse law, which is XFieldIrred.norm3_nonzero (x^3 - x + 1 has no root
   modulo p) transported along the ring morphism fp_of : Z -> Fp.
   Also: iota : Fp -> Fp3 (the constants) is a field embedding, `xlift` implements it, `xscale x k` is the
   product with the lift of k, and the NTT homomorphism for XFieldElement vectors with BFieldElement
   twiddles INTO the field Fp3 (xb_hom_field), so that the generic NTT / polynomial theorems can be
   instantiated with fk := k3_field. *)
From Coq Require Import ZArith Lia List Bool Ring Field Field_theory Ring_theory Setoid.
From TF Require Import Word BFieldGen BField XField FieldOps Lucas FieldTheory BFieldProofs BFieldLoops BFieldOk
  ModP XFieldProofs XFieldIrred BatchInvProofs.
Import ListNotations.
Open Scope Z_scope.

Local Opaque bfe_mul bfe_add bfe_sub bfe_neg bfe_new inverse.

(* ------------------------------------------------------------------ the field Fp3 *)
Definition Fp3 : Type := (Fp * Fp * Fp)%type.

Add Field fp_field_XFieldOk : fp_field_theory.

Definition f3zero : Fp3 := (fp_of 0, fp_of 0, fp_of 0).
Definition f3one : Fp3 := (fp_of 1, fp_of 0, fp_of 0).
Definition iota (k : Fp) : Fp3 := (k, fp_of 0, fp_of 0).
Definition f3add (s t : Fp3) : Fp3 :=
  let '(s0, s1, s2) := s in let '(t0, t1, t2) := t in (fp_add s0 t0, fp_add s1 t1, fp_add s2 t2).
Definition f3opp (s : Fp3) : Fp3 := let '(s0, s1, s2) := s in (fp_opp s0, fp_opp s1, fp_opp s2).
Definition f3sub (s t : Fp3) : Fp3 :=
  let '(s0, s1, s2) := s in let '(t0, t1, t2) := t in (fp_sub s0 t0, fp_sub s1 t1, fp_sub s2 t2).
(* (s0 + s1 X + s2 X^2) (t0 + t1 X + t2 X^2) reduced by X^3 = X - 1, X^4 = X^2 - X  (XFieldProofs.vmul3) *)
Definition f3mul (s t : Fp3) : Fp3 :=
  let '(s0, s1, s2) := s in let '(t0, t1, t2) := t in
  (fp_sub (fp_mul s0 t0) (fp_add (fp_mul s1 t2) (fp_mul s2 t1)),
   fp_sub (fp_add (fp_add (fp_mul s0 t1) (fp_mul s1 t0)) (fp_add (fp_mul s1 t2) (fp_mul s2 t1))) (fp_mul s2 t2),
   fp_add (fp_add (fp_add (fp_mul s0 t2) (fp_mul s1 t1)) (fp_mul s2 t0)) (fp_mul s2 t2)).
(* cofactors of the first row of the multiplication matrix, and its determinant (XFieldProofs.cof3 / norm3) *)
Definition f3cof (s : Fp3) : Fp3 :=
  let '(c, b, a) := s in
  (fp_sub (fp_mul (fp_add c a) (fp_add c a)) (fp_mul (fp_sub b a) b),
   fp_opp (fp_sub (fp_mul b (fp_add c a)) (fp_mul (fp_sub b a) a)),
   fp_sub (fp_mul b b) (fp_mul (fp_add c a) a)).
Definition f3norm (s : Fp3) : Fp :=
  let '(c, b, a) := s in let '(k0, k1, k2) := f3cof s in
  fp_sub (fp_sub (fp_mul c k0) (fp_mul a k1)) (fp_mul b k2).
Definition f3inv (s : Fp3) : Fp3 :=
  let '(k0, k1, k2) := f3cof s in let ni := fp_inv (f3norm s) in (fp_mul k0 ni, fp_mul k1 ni, fp_mul k2 ni).
Definition f3div (s t : Fp3) : Fp3 := f3mul s (f3inv t).

Definition f3_eq_dec (s t : Fp3) : {s = t} + {s <> t}.
Proof.
  destruct s as [[s0 s1] s2], t as [[t0 t1] t2].
  destruct (fp_eq_dec s0 t0) as [E0|E0]; [|right; intros E; apply E0; exact (f_equal (fun t => fst (fst t)) E)].
  destruct (fp_eq_dec s1 t1) as [E1|E1]; [|right; intros E; apply E1; exact (f_equal (fun t => snd (fst t)) E)].
  destruct (fp_eq_dec s2 t2) as [E2|E2]; [|right; intros E; apply E2; exact (f_equal snd E)].
  left. rewrite E0, E1, E2. reflexivity.
Defined.

Lemma f3_ext (a b c a' b' c' : Fp) : a = a' -> b = b' -> c = c' -> (a, b, c) = (a', b', c').
Proof. intros -> -> ->. reflexivity. Qed.

Lemma f3_proj (a b c a' b' c' : Fp) : (a, b, c) = (a', b', c') -> a = a' /\ b = b' /\ c = c'.
Proof.
  intros E. split; [exact (f_equal (fun t => fst (fst t)) E)|].
  split; [exact (f_equal (fun t => snd (fst t)) E)|exact (f_equal snd E)].
Qed.

Ltac f3_ring :=
  intros; repeat match goal with x : Fp3 |- _ => destruct x as [[? ?] ?] end;
  cbv beta iota zeta delta [f3zero f3one f3add f3opp f3sub f3mul iota];
  apply f3_ext; ring.

Lemma f3_ring_theory : ring_theory f3zero f3one f3add f3mul f3sub f3opp eq.
Proof. constructor; f3_ring. Qed.

Lemma f3mul_cof s : f3mul s (f3cof s) = iota (f3norm s).
Proof. destruct s as [[c b] a]. cbv beta iota zeta delta [f3mul f3cof f3norm iota]. apply f3_ext; ring. Qed.

(* fp_of is a ring morphism Z -> Fp: transport of integer polynomial expressions *)
Lemma fp_of_sub x y : fp_of (x - y) = fp_sub (fp_of x) (fp_of y).
Proof.
  unfold Z.sub. rewrite fp_of_add, fp_of_opp. symmetry. apply (Rsub_def fp_ring_theory).
Qed.
Definition fp3_of (t : Z * Z * Z) : Fp3 := let '(a, b, c) := t in (fp_of a, fp_of b, fp_of c).
Definition fval3 (s : Fp3) : Z * Z * Z := let '(a, b, c) := s in (fval a, fval b, fval c).
Lemma fp3_of_fval3 s : fp3_of (fval3 s) = s.
Proof. destruct s as [[a b] c]. unfold fp3_of, fval3. rewrite !fp_of_fval. reflexivity. Qed.
Lemma fp3_of_red3 t : fp3_of (red3 t) = fp3_of t.
Proof. destruct t as [[a b] c]. unfold fp3_of, red3. change BFieldGen.P with Lucas.P. rewrite !fp_of_mod. reflexivity. Qed.
Lemma fp3_of_vadd3 s t : fp3_of (vadd3 s t) = f3add (fp3_of s) (fp3_of t).
Proof. destruct s as [[s0 s1] s2], t as [[t0 t1] t2]. unfold fp3_of, vadd3, f3add. rewrite !fp_of_add. reflexivity. Qed.
Lemma fp3_of_vneg3 s : fp3_of (vneg3 s) = f3opp (fp3_of s).
Proof. destruct s as [[s0 s1] s2]. unfold fp3_of, vneg3, f3opp. rewrite !fp_of_opp. reflexivity. Qed.
Lemma fp3_of_vsub3 s t : fp3_of (vsub3 s t) = f3sub (fp3_of s) (fp3_of t).
Proof.
  unfold vsub3. rewrite fp3_of_vadd3, fp3_of_vneg3. generalize (fp3_of s) (fp3_of t). f3_ring.
Qed.
Lemma fp3_of_vmul3 s t : fp3_of (vmul3 s t) = f3mul (fp3_of s) (fp3_of t).
Proof.
  destruct s as [[s0 s1] s2], t as [[t0 t1] t2].
  cbv beta iota zeta delta [fp3_of vmul3 conv5 reduce5 f3mul].
  rewrite ?fp_of_add, ?fp_of_sub, ?fp_of_add, ?fp_of_sub, ?fp_of_add, ?fp_of_mul.
  apply f3_ext; ring.
Qed.
Lemma fp_of_norm3 c b a : fp_of (norm3 (c, b, a)) = f3norm (fp_of c, fp_of b, fp_of a).
Proof.
  cbv beta iota zeta delta [norm3 cof3 f3norm f3cof].
  rewrite ?fp_of_sub, ?fp_of_mul, ?fp_of_opp, ?fp_of_sub, ?fp_of_mul, ?fp_of_add, ?fp_of_sub. reflexivity.
Qed.

Lemma fp_of_0_iff x : fp_of x = fp_of 0 <-> eqP x 0.
Proof.
  split.
  - intros E. apply eqP_of_mod. apply (f_equal fval) in E. rewrite !fval_of in E. exact E.
  - intros E. apply fp_of_eq. apply eqP_to_mod in E. exact E.
Qed.

(* the norm of a non-zero element is non-zero: irreducibility of X^3 - X + 1 *)
Lemma f3norm_nonzero s : s <> f3zero -> f3norm s <> fp_of 0.
Proof.
  destruct s as [[c b] a]. intros Hnz E.
  rewrite <- (fp_of_fval c), <- (fp_of_fval b), <- (fp_of_fval a), <- fp_of_norm3 in E.
  apply fp_of_0_iff in E. revert E. apply norm3_nonzero. intros (E0 & E1 & E2). apply Hnz.
  apply fp_of_0_iff in E0, E1, E2. rewrite fp_of_fval in E0, E1, E2. unfold f3zero. congruence.
Qed.

Lemma f3inv_l s : s <> f3zero -> f3mul (f3inv s) s = f3one.
Proof.
  intros Hnz. pose proof (f3norm_nonzero s Hnz) as Hn. pose proof (f3mul_cof s) as Hc.
  unfold f3inv. destruct (f3cof s) as [[k0 k1] k2]. set (n := f3norm s) in *. destruct s as [[c b] a].
  cbv beta iota zeta delta [f3mul iota f3one] in *. apply f3_proj in Hc. destruct Hc as [H0 [H1 H2]].
  f_equal; [f_equal|].
  - transitivity (fp_mul (fp_inv n) (fp_sub (fp_mul c k0) (fp_add (fp_mul b k2) (fp_mul a k1)))); [ring|].
    rewrite H0. field. exact Hn.
  - transitivity (fp_mul (fp_inv n)
      (fp_sub (fp_add (fp_add (fp_mul c k1) (fp_mul b k0)) (fp_add (fp_mul b k2) (fp_mul a k1))) (fp_mul a k2))); [ring|].
    rewrite H1. ring.
  - transitivity (fp_mul (fp_inv n) (fp_add (fp_add (fp_add (fp_mul c k2) (fp_mul b k1)) (fp_mul a k0)) (fp_mul a k2))); [ring|].
    rewrite H2. ring.
Qed.

Lemma f3_field_theory : field_theory f3zero f3one f3add f3mul f3sub f3opp f3div f3inv eq.
Proof.
  constructor.
  - exact f3_ring_theory.
  - intros E. apply f3_proj in E. destruct E as [E _]. apply (f_equal fval) in E. discriminate E.
  - reflexivity.
  - exact f3inv_l.
Qed.

Definition k3_field : fieldK Fp3 :=
  mk_fieldK Fp3 f3zero f3one f3add f3mul f3sub f3opp f3div f3inv f3_field_theory f3_eq_dec.

Ltac k3_ring := intros; cbn [k0 k1 kadd kmul ksub kopp k3_field]; f3_ring.

(* ------------------------------------------------------------------ iota : Fp -> Fp3 is a field embedding *)
Lemma iota_0 : iota (k0 fp_field) = k0 k3_field. Proof. reflexivity. Qed.
Lemma iota_1 : iota (k1 fp_field) = k1 k3_field. Proof. reflexivity. Qed.
Lemma iota_add a b : iota (kadd fp_field a b) = kadd k3_field (iota a) (iota b).
Proof. cbn [kadd fp_field k3_field]. unfold iota, f3add. apply f3_ext; ring. Qed.
Lemma iota_sub a b : iota (ksub fp_field a b) = ksub k3_field (iota a) (iota b).
Proof. cbn [ksub fp_field k3_field]. unfold iota, f3sub. apply f3_ext; ring. Qed.
Lemma iota_mul a b : iota (kmul fp_field a b) = kmul k3_field (iota a) (iota b).
Proof. cbn [kmul fp_field k3_field]. unfold iota, f3mul. apply f3_ext; ring. Qed.
Lemma iota_opp a : iota (kopp fp_field a) = kopp k3_field (iota a).
Proof. cbn [kopp fp_field k3_field]. unfold iota, f3opp. apply f3_ext; ring. Qed.
Lemma iota_inj a b : iota a = iota b -> a = b.
Proof. unfold iota. intros E. apply f3_proj in E. exact (proj1 E). Qed.
Lemma iota_0_iff a : iota a = k0 k3_field <-> a = k0 fp_field.
Proof. split; [intros E; apply iota_inj; exact E|intros ->; reflexivity]. Qed.
Lemma iota_inv a : a <> k0 fp_field -> iota (kinv fp_field a) = kinv k3_field (iota a).
Proof.
  intros Ha. apply (kinv_unique k3_field). rewrite <- iota_mul, (kinv_l fp_field a Ha). reflexivity.
Qed.
Lemma iota_kpow a n : iota (kpow fp_field a n) = kpow k3_field (iota a) n.
Proof. induction n; cbn [kpow]; [reflexivity|]. rewrite iota_mul, IHn. reflexivity. Qed.
Lemma iota_kpowZ a e : iota (kpowZ fp_field a e) = kpowZ k3_field (iota a) e.
Proof. unfold kpowZ. apply iota_kpow. Qed.
Lemma iota_kofZ z : iota (kofZ fp_field z) = kofZ k3_field z.
Proof.
  assert (Hn : forall n, iota (kofZ fp_field (Z.of_nat n)) = kofZ k3_field (Z.of_nat n)).
  { induction n.
    - change (Z.of_nat 0) with 0. rewrite !kofZ_0. reflexivity.
    - rewrite !kofZ_succ_nat, iota_add, IHn. reflexivity. }
  destruct (Z_le_gt_dec 0 z) as [H|H].
  - rewrite <- (Z2Nat.id z H). apply Hn.
  - replace z with (- Z.of_nat (Z.to_nat (- z))) by (rewrite Z2Nat.id; lia).
    rewrite !kofZ_opp, iota_opp, Hn. reflexivity.
Qed.
Lemma k3_two_neq_0 : kadd k3_field (k1 k3_field) (k1 k3_field) <> k0 k3_field.
Proof.
  intros E. apply f3_proj in E. destruct E as [E _]. apply (f_equal fval) in E. discriminate E.
Qed.

(* ------------------------------------------------------------------ denotation of a triple of words *)
Definition denX (x : xfe) : Fp3 := let '(a, b, c) := x in (bden a, bden b, bden c).

Lemma bden_fp_of_val a : bden a = fp_of (val a).
Proof. apply Fp_eq. rewrite fval_bden, fval_of. symmetry. apply Z.mod_small. apply val_range. Qed.
Lemma denX_val3 x : denX x = fp3_of (val3 x).
Proof. destruct x as [[a b] c]. unfold denX, fp3_of, val3. rewrite !bden_fp_of_val. reflexivity. Qed.
Lemma fval3_denX x : fval3 (denX x) = val3 x.
Proof. destruct x as [[a b] c]. reflexivity. Qed.
Lemma denX_inj x y : canon3 x -> canon3 y -> denX x = denX y -> x = y.
Proof.
  destruct x as [[a b] c], y as [[a' b'] c']. intros (A0 & A1 & A2) (B0 & B1 & B2) E.
  unfold denX in E. apply f3_proj in E. destruct E as [E0 [E1 E2]].
  f_equal; [f_equal|]; apply repr_unique; try assumption; rewrite <- !fval_bden; congruence.
Qed.
Lemma denX_xzero : canon3 xzero /\ denX xzero = f3zero.
Proof.
  destruct (fo_zero _ _ _ _ bfe_field_ok) as [C E]. cbn [fzero bfe_ops k0 fp_field] in C, E.
  split; [unfold xzero, canon3; auto|]. unfold xzero, denX, f3zero. rewrite E. reflexivity.
Qed.
Lemma denX_xone : canon3 xone /\ denX xone = f3one.
Proof.
  destruct (fo_zero _ _ _ _ bfe_field_ok) as [C E]. cbn [fzero bfe_ops k0 fp_field] in C, E.
  destruct (fo_one _ _ _ _ bfe_field_ok) as [C1 E1]. cbn [fone bfe_ops k1 fp_field] in C1, E1.
  split; [unfold xone, canon3; auto|]. unfold xone, denX, f3one. rewrite E, E1. reflexivity.
Qed.
(* xlift implements iota *)
Lemma denX_xlift b : canon b -> canon3 (xlift b) /\ denX (xlift b) = iota (bden b).
Proof.
  intros Cb. destruct (fo_zero _ _ _ _ bfe_field_ok) as [C E]. cbn [fzero bfe_ops k0 fp_field] in C, E.
  split; [unfold xlift, canon3; auto|]. unfold xlift, denX, iota. rewrite E. reflexivity.
Qed.
Lemma denX_zero_iff x : canon3 x -> (denX x = f3zero <-> val3 x = (0, 0, 0)).
Proof.
  intros Cx. rewrite <- fval3_denX. split.
  - intros ->. reflexivity.
  - intros E. rewrite <- (fp3_of_fval3 (denX x)), E. reflexivity.
Qed.

Lemma denX_xadd x y : canon3 x -> canon3 y -> canon3 (xadd x y) /\ denX (xadd x y) = f3add (denX x) (denX y).
Proof.
  intros Cx Cy. destruct (xadd_spec x y Cx Cy) as [C V]. split; [exact C|].
  rewrite !denX_val3, V, fp3_of_red3, fp3_of_vadd3. reflexivity.
Qed.
Lemma denX_xsub x y : canon3 x -> canon3 y -> canon3 (xsub x y) /\ denX (xsub x y) = f3sub (denX x) (denX y).
Proof.
  intros Cx Cy. destruct (xsub_spec x y Cx Cy) as [C V]. split; [exact C|].
  rewrite !denX_val3, V, fp3_of_red3, fp3_of_vsub3. reflexivity.
Qed.
Lemma denX_xneg x : canon3 x -> canon3 (xneg x) /\ denX (xneg x) = f3opp (denX x).
Proof.
  intros Cx. destruct (xneg_spec x Cx) as [C V]. split; [exact C|].
  rewrite !denX_val3, V, fp3_of_red3, fp3_of_vneg3. reflexivity.
Qed.
Lemma denX_xmul x y : canon3 x -> canon3 y -> canon3 (xmul x y) /\ denX (xmul x y) = f3mul (denX x) (denX y).
Proof.
  intros Cx Cy. destruct (xmul_spec x y Cx Cy) as [C V]. split; [exact C|].
  rewrite !denX_val3, V, fp3_of_red3, fp3_of_vmul3. reflexivity.
Qed.
(* xscale x k is the product with the lift of k *)
Lemma denX_xscale x k : canon3 x -> canon k ->
  canon3 (xscale x k) /\ denX (xscale x k) = f3mul (denX x) (iota (bden k)).
Proof.
  intros Cx Ck. destruct (xscale_spec x k Cx Ck) as [C V]. split; [exact C|].
  rewrite !denX_val3, V, fp3_of_red3, fp3_of_vmul3. f_equal. unfold fp3_of, iota. rewrite bden_fp_of_val. reflexivity.
Qed.
Lemma xscale_is_xmul_xlift x k : canon3 x -> canon k -> xscale x k = xmul x (xlift k).
Proof.
  intros Cx Ck. destruct (denX_xscale x k Cx Ck) as [C1 E1]. destruct (denX_xlift k Ck) as [Cl El].
  destruct (denX_xmul x (xlift k) Cx Cl) as [C2 E2]. apply denX_inj; [exact C1|exact C2|].
  rewrite E1, E2, El. reflexivity.
Qed.

(* ------------------------------------------------------------------ inverse *)
Lemma denX_xinverse x : canon3 x -> denX x <> f3zero ->
  exists y, xinverse x = Some y /\ canon3 y /\ denX y = f3inv (denX x).
Proof.
  intros Cx Hnz.
  assert (Hv : val3 x <> (0, 0, 0)) by (intros E; apply Hnz; apply denX_zero_iff; assumption).
  destruct (xinverse_total x Cx Hv) as [y [E [Cy Hy]]]. exists y. split; [exact E|]. split; [exact Cy|].
  apply (kinv_unique k3_field). cbn [kmul k1 k3_field].
  rewrite !denX_val3, <- fp3_of_vmul3, <- fp3_of_red3, Hy. reflexivity.
Qed.
Lemma xinverse_zero x : canon3 x -> denX x = f3zero -> xinverse x = None.
Proof.
  intros Cx E. replace x with xzero; [reflexivity|].
  destruct denX_xzero as [C0 E0]. apply denX_inj; [exact C0|exact Cx|]. rewrite E0, E. reflexivity.
Qed.

(* ------------------------------------------------------------------ equality test *)
Lemma xeqb_spec x y : xeqb x y = true <-> x = y.
Proof.
  destruct x as [[a b] c], y as [[a' b'] c']. unfold xeqb. rewrite !andb_true_iff, !Z.eqb_eq. split.
  - intros [[-> ->] ->]. reflexivity.
  - intros E. injection E as -> -> ->. auto.
Qed.

(* ------------------------------------------------------------------ ModPowU64: square and multiply *)
Lemma k3pow_double (x : Fp3) n : kpow k3_field (kmul k3_field x x) n = kpow k3_field x (2 * n).
Proof. rewrite kpow_mul. f_equal. cbn [kpow]. k3_ring. Qed.

Lemma xpow_go_spec fuel : forall x r i, canon3 x -> canon3 r -> 0 <= i < 2 ^ Z.of_nat fuel ->
  canon3 (xpow_go fuel x r i) /\
  denX (xpow_go fuel x r i) = kmul k3_field (denX r) (kpow k3_field (denX x) (Z.to_nat i)).
Proof.
  induction fuel as [|f IH]; intros x r i Cx Cr Hi.
  - assert (i = 0) by (change (2 ^ Z.of_nat 0) with 1 in Hi; lia). subst i. cbn [xpow_go]. split; [exact Cr|].
    change (Z.to_nat 0) with O. cbn [kpow]. generalize (denX r). k3_ring.
  - cbn [xpow_go]. destruct (i >? 0) eqn:Epos.
    2:{ assert (i = 0) by (rewrite Z.gtb_ltb in Epos; apply Z.ltb_ge in Epos; lia). subst i. split; [exact Cr|].
        change (Z.to_nat 0) with O. cbn [kpow]. generalize (denX r). k3_ring. }
    rewrite Z.gtb_ltb in Epos. apply Z.ltb_lt in Epos.
    destruct (denX_xmul x x Cx Cx) as [Cxx Exx].
    assert (Hhalf : 0 <= Z.shiftr i 1 < 2 ^ Z.of_nat f).
    { rewrite Z.shiftr_div_pow2 by lia. change (2 ^ 1) with 2. rewrite Nat2Z.inj_succ, Z.pow_succ_r in Hi by lia.
      split; [apply Z.div_pos; lia|apply Z.div_lt_upper_bound; lia]. }
    assert (Hland : Z.land i 1 = i mod 2).
    { change (Z.land i 1) with (Z.land i (Z.ones 1)). rewrite Z.land_ones by lia. reflexivity. }
    assert (Hdiv : i = 2 * Z.shiftr i 1 + Z.land i 1).
    { rewrite Hland, Z.shiftr_div_pow2 by lia. change (2 ^ 1) with 2. apply Z.div_mod. lia. }
    assert (Hbit : Z.land i 1 = 0 \/ Z.land i 1 = 1).
    { rewrite Hland. pose proof (Z.mod_pos_bound i 2 ltac:(lia)). lia. }
    clear Hland.
    set (h := Z.shiftr i 1) in *.
    destruct Hbit as [Eb|Eb]; rewrite Eb in *; cbn [Z.eqb Pos.eqb].
    + destruct (IH (xmul x x) r h Cxx Cr Hhalf) as [C E]. split; [exact C|].
      rewrite E, Exx. change f3mul with (kmul k3_field). rewrite k3pow_double. do 2 f_equal. lia.
    + destruct (denX_xmul r x Cr Cx) as [Crx Erx].
      destruct (IH (xmul x x) (xmul r x) h Cxx Crx Hhalf) as [C E]. split; [exact C|].
      rewrite E, Exx, Erx. change f3mul with (kmul k3_field). rewrite k3pow_double.
      replace (Z.to_nat i) with (S (2 * Z.to_nat h)) by lia. cbn [kpow].
      generalize (kpow k3_field (denX x) (2 * Z.to_nat h)). generalize (denX x) (denX r). k3_ring.
Qed.

Lemma denX_xpow x e : canon3 x -> 0 <= e < 2 ^ 64 ->
  canon3 (xpow x e) /\ denX (xpow x e) = kpowZ k3_field (denX x) e.
Proof.
  intros Cx He. destruct denX_xone as [C1 E1]. unfold xpow.
  destruct (xpow_go_spec 64 x xone e Cx C1 He) as [C E]. split; [exact C|].
  rewrite E, E1. unfold kpowZ. generalize (kpow k3_field (denX x) (Z.to_nat e)). intros. cbn [kmul k3_field]. k3_ring.
Qed.

(* ------------------------------------------------------------------ the refinement *)
Theorem xfe_field_ok : field_ok xfe_ops k3_field canon3 denX.
Proof.
  constructor; cbn [fzero fone fadd fsub fmul fneg finv feqb ffrom_u64 fpow xfe_ops k0 k1 kadd ksub kmul kopp kinv k3_field].
  - exact denX_xzero.
  - exact denX_xone.
  - exact denX_xadd.
  - exact denX_xsub.
  - exact denX_xmul.
  - exact denX_xneg.
  - exact denX_xinverse.
  - exact xinverse_zero.
  - intros a b Ca Cb. rewrite xeqb_spec. split; [intros ->; reflexivity|apply denX_inj; assumption].
  - exact denX_inj.
  - intros v Hv. destruct (bden_new v Hv) as [C E]. destruct (denX_xlift _ C) as [Cl El]. split; [exact Cl|].
    rewrite El, E, <- fp_kofZ. apply iota_kofZ.
  - exact denX_xpow.
Qed.

(* ------------------------------------------------------------------ consequences stated on the words (C01) *)
(* mod_pow_u64 = repeated product, every u64 exponent *)
Theorem xpow_repeated_product x e : canon3 x -> 0 <= e < 2 ^ 64 ->
  canon3 (xpow x e) /\ denX (xpow x e) = kpow k3_field (denX x) (Z.to_nat e).
Proof. exact (denX_xpow x e). Qed.

(* the product of the words is the product in the field, so equations between words can be decided in Fp3 *)
Lemma xmul_assoc x y z : canon3 x -> canon3 y -> canon3 z -> xmul x (xmul y z) = xmul (xmul x y) z.
Proof.
  intros Cx Cy Cz. destruct (denX_xmul y z Cy Cz) as [C1 E1]. destruct (denX_xmul x y Cx Cy) as [C2 E2].
  destruct (denX_xmul x _ Cx C1) as [C3 E3]. destruct (denX_xmul _ z C2 Cz) as [C4 E4].
  apply denX_inj; [exact C3|exact C4|]. rewrite E3, E4, E1, E2. generalize (denX x) (denX y) (denX z). f3_ring.
Qed.
Lemma xmul_comm x y : canon3 x -> canon3 y -> xmul x y = xmul y x.
Proof.
  intros Cx Cy. destruct (denX_xmul x y Cx Cy) as [C1 E1]. destruct (denX_xmul y x Cy Cx) as [C2 E2].
  apply denX_inj; [exact C1|exact C2|]. rewrite E1, E2. generalize (denX x) (denX y). f3_ring.
Qed.
Lemma xmul_one_l x : canon3 x -> xmul xone x = x.
Proof.
  intros Cx. destruct denX_xone as [C1 E1]. destruct (denX_xmul xone x C1 Cx) as [C2 E2].
  apply denX_inj; [exact C2|exact Cx|]. rewrite E2, E1. generalize (denX x). f3_ring.
Qed.
Lemma xeqb_zero_false x : canon3 x -> (xeqb x xzero = false <-> denX x <> f3zero).
Proof.
  intros Cx. destruct denX_xzero as [C0 E0]. rewrite <- E0. split.
  - intros E H. apply (denX_inj x xzero Cx C0) in H. apply xeqb_spec in H. congruence.
  - intros H. destruct (xeqb x xzero) eqn:E; [|reflexivity]. apply xeqb_spec in E. subst x. exfalso. apply H. reflexivity.
Qed.
Lemma xnz_mul x y : canon3 x -> canon3 y -> xeqb x xzero = false -> xeqb y xzero = false -> xeqb (xmul x y) xzero = false.
Proof.
  intros Cx Cy Nx Ny. destruct (denX_xmul x y Cx Cy) as [C E].
  apply (xeqb_zero_false x Cx) in Nx. apply (xeqb_zero_false y Cy) in Ny. apply (xeqb_zero_false _ C).
  rewrite E. intros Z. destruct (k_integral k3_field _ _ Z); contradiction.
Qed.
Lemma xinv_ok x : canon3 x -> xeqb x xzero = false -> exists y, xinverse x = Some y /\ canon3 y /\ xmul y x = xone.
Proof.
  intros Cx Nx. apply (xeqb_zero_false x Cx) in Nx. destruct (denX_xinverse x Cx Nx) as [y [E [Cy V]]].
  exists y. split; [exact E|]. split; [exact Cy|]. destruct (denX_xmul y x Cy Cx) as [C2 E2]. destruct denX_xone as [C1 E1].
  apply denX_inj; [exact C2|exact C1|]. rewrite E2, E1, V. exact (kinv_l k3_field (denX x) Nx).
Qed.

(* the inverse is unique: any canonical y with y * x = 1 IS the result of `inverse` *)
Theorem xinverse_unique x y : canon3 x -> canon3 y -> red3 (vmul3 (val3 y) (val3 x)) = (1, 0, 0) -> xinverse x = Some y.
Proof.
  intros Cx Cy Hy.
  assert (Hm : kmul k3_field (denX y) (denX x) = k1 k3_field).
  { cbn [kmul k1 k3_field]. rewrite !denX_val3, <- fp3_of_vmul3, <- fp3_of_red3, Hy. reflexivity. }
  assert (Hnz : denX x <> f3zero).
  { intros E. apply (k1_neq_0 k3_field). rewrite <- Hm, E. cbn [kmul k0 k3_field]. generalize (denX y). f3_ring. }
  destruct (denX_xinverse x Cx Hnz) as [y' [E [Cy' V]]]. rewrite E. f_equal.
  apply denX_inj; [exact Cy'|exact Cy|]. rewrite V. symmetry. exact (kinv_unique k3_field _ _ Hm).
Qed.
Theorem xinverse_unique_word x y : canon3 x -> canon3 y -> xmul y x = xone -> xinverse x = Some y.
Proof.
  intros Cx Cy E. apply xinverse_unique; [exact Cx|exact Cy|].
  destruct (xmul_spec y x Cy Cx) as [_ V]. rewrite <- V, E. reflexivity.
Qed.

(* batch inversion: the instance of BatchInvProofs.batch_inversion_spec for XFieldElement *)
Theorem xbatch_inversion_spec l : Forall canon3 l -> Forall (fun x => x <> xzero) l ->
  exists r, xbatch_inversion l = Some r /\
            Forall2 (fun x y => canon3 y /\ xmul y x = xone /\ xinverse x = Some y) l r.
Proof.
  intros Hc Hn.
  assert (Hn' : Forall (fun x => xeqb x xzero = false) l).
  { rewrite Forall_forall in *. intros x Hx. destruct (xeqb x xzero) eqn:E; [|reflexivity].
    apply xeqb_spec in E. exfalso. exact (Hn x Hx E). }
  destruct (BatchInvProofs.batch_inversion_spec xfe xone xmul (fun x => xeqb x xzero) xinverse canon3
              (proj1 denX_xone) (fun x y Cx Cy => proj1 (denX_xmul x y Cx Cy)) xmul_assoc xmul_comm xmul_one_l
              eq_refl xnz_mul xinv_ok l Hc Hn') as [r [E F2]].
  exists r. split; [exact E|]. clear E Hn Hn'.
  induction F2 as [|x y l' r' [Cy Hy] _ IH]; constructor.
  - split; [exact Cy|]. split; [exact Hy|]. apply xinverse_unique_word; [exact (Forall_inv Hc)|exact Cy|exact Hy].
  - apply IH. exact (Forall_inv_tail Hc).
Qed.
Theorem xbatch_inversion_zero_panics l : In xzero l -> xbatch_inversion l = None.
Proof.
  intros H. apply BatchInvProofs.batch_inversion_zero_panics. apply Exists_exists. exists xzero. split; [exact H|reflexivity].
Qed.
