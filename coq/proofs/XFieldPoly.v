(* proofs/XFieldPoly.v - Polynomial<XFieldElement> and the mixed BFieldElement x XFieldElement products: the
   field_ok / ntt_ok / intt_ok / roots_ok / mul12_ok hypotheses of the generic C07 and C09 theorems DISCHARGED with
       fk := k3_field (proofs/XFieldOk.v),  o := xfe_ops,  ok := canon3,  den := denX,
       ntt := ntt_x, intt := intt_x, lmax := 31, wr := wr_x                              (proofs/XFieldNtt.v),
   and, for a BFieldElement operand of a mixed product, o := bfe_ops, ok := canon, den := bden3 = iota o bden. *)
From Coq Require Import ZArith Lia List Bool.
From TF Require Import Word BFieldGen BField XField FieldOps Lucas FieldTheory BFieldProofs BFieldOk XFieldProofs XFieldOk
  Ntt Dft NttDft NttProofs XFieldNtt PolyGen PolyCore PolySpec PolyCoreProofs PolyC07Wrap PolyDiv PolyDivProofs.
Import ListNotations.
Open Scope Z_scope.

Lemma xfe_ntt_ok : ntt_ok k3_field canon3 denX ntt_x 31 wr_x. Proof. exact ntt_x_hyp. Qed.
Lemma xfe_intt_ok : intt_ok k3_field canon3 denX intt_x 31 wr_x. Proof. exact intt_x_hyp. Qed.
Lemma bfe3_ntt_ok : ntt_ok k3_field canon bden3 ntt_b 31 wr_x. Proof. exact ntt_b3_hyp. Qed.
Lemma bfe3_intt_ok : intt_ok k3_field canon bden3 intt_b 31 wr_x. Proof. exact intt_b3_hyp. Qed.
Lemma xfe_roots_ok : roots_ok k3_field 31 wr_x.
Proof. exact (conj wr_x_half (conj wr_x_nonzero k3_two_nz)). Qed.

(* the mixed products of the code: BFieldElement * XFieldElement and XFieldElement * BFieldElement are both `xscale` *)
Definition mul_bx (b : Z) (x : xfe) : xfe := xscale x b.
Definition mul_xb (x : xfe) (b : Z) : xfe := xscale x b.
Lemma mul_xb_ok : mul12_ok k3_field canon3 canon canon3 denX bden3 denX mul_xb.
Proof. intros x b Cx Cb. exact (denX_xscale x b Cx Cb). Qed.
Lemma mul_bx_ok : mul12_ok k3_field canon canon3 canon3 bden3 denX denX mul_bx.
Proof.
  intros b x Cb Cx. destruct (denX_xscale x b Cx Cb) as [C E]. split; [exact C|].
  unfold mul_bx. rewrite E. apply (Ring_theory.Rmul_comm (Field_theory.F_R (kFT k3_field))).
Qed.

Local Notation Dx := (map denX).
Local Notation okx := (Forall canon3).
Local Notation Db3 := (map bden3).
Local Notation okb := (Forall canon).

(* ------------------------------------------------------------------ C07: Polynomial<XFieldElement> *)
Theorem xfe_naive_multiply_spec a b : okx a -> okx b ->
  okx (poly_naive_multiply xfe_ops a b) /\ peq k3_field (Dx (poly_naive_multiply xfe_ops a b)) (pmul k3_field (Dx a) (Dx b)).
Proof. apply (naive_multiply_spec xfe_ops k3_field canon3 denX xfe_field_ok). Qed.
Theorem xfe_multiply_spec a b : okx a -> okx b -> poly_degree xfe_ops a + poly_degree xfe_ops b + 1 <= 2 ^ 31 ->
  exists r, poly_multiply xfe_ops ntt_x intt_x a b = Some r /\ okx r /\
            zlen r <= Z.max 0 (poly_degree xfe_ops a + poly_degree xfe_ops b + 1) /\
            peq k3_field (Dx r) (pmul k3_field (Dx a) (Dx b)).
Proof.
  apply (multiply_spec xfe_ops k3_field canon3 denX xfe_field_ok ntt_x intt_x 31 wr_x ntt_x_hyp intt_x_hyp wr_x_half wr_x_nonzero
           k3_two_nz).
Qed.
Theorem xfe_fast_multiply_spec a b : okx a -> okx b -> poly_degree xfe_ops a + poly_degree xfe_ops b + 1 <= 2 ^ 31 ->
  exists r, poly_fast_multiply xfe_ops ntt_x intt_x a b = Some r /\ okx r /\
            zlen r <= Z.max 0 (poly_degree xfe_ops a + poly_degree xfe_ops b + 1) /\
            peq k3_field (Dx r) (pmul k3_field (Dx a) (Dx b)).
Proof.
  apply (fast_multiply_spec xfe_ops k3_field canon3 denX xfe_field_ok ntt_x intt_x 31 wr_x ntt_x_hyp intt_x_hyp wr_x_half
           wr_x_nonzero k3_two_nz).
Qed.
Theorem xfe_square_spec l : okx l -> 2 * poly_degree xfe_ops l + 1 <= 2 ^ 31 ->
  exists r, poly_square xfe_ops ntt_x intt_x l = Some r /\ okx r /\ peq k3_field (Dx r) (pmul k3_field (Dx l) (Dx l)).
Proof. exact (w_square xfe_ops k3_field canon3 denX xfe_field_ok ntt_x intt_x 31 wr_x xfe_ntt_ok xfe_intt_ok xfe_roots_ok l). Qed.
Theorem xfe_fast_square_spec l : okx l -> 2 * poly_degree xfe_ops l + 1 <= 2 ^ 31 ->
  exists r, poly_fast_square xfe_ops ntt_x intt_x l = Some r /\ okx r /\ peq k3_field (Dx r) (pmul k3_field (Dx l) (Dx l)).
Proof. exact (w_fast_square xfe_ops k3_field canon3 denX xfe_field_ok ntt_x intt_x 31 wr_x xfe_ntt_ok xfe_intt_ok xfe_roots_ok l). Qed.
Theorem xfe_slow_square_spec l : okx l ->
  exists r, poly_slow_square xfe_ops l = Some r /\ okx r /\ peq k3_field (Dx r) (pmul k3_field (Dx l) (Dx l)).
Proof. exact (w_slow_square xfe_ops k3_field canon3 denX xfe_field_ok l). Qed.
Theorem xfe_pow_spec l e : okx l -> 0 <= e ->
  exists r, poly_pow xfe_ops l e = Some r /\ okx r /\ peq k3_field (Dx r) (ppow k3_field (Dx l) (Z.to_nat e)).
Proof. apply (pow_spec xfe_ops k3_field canon3 denX xfe_field_ok). Qed.
Theorem xfe_fast_pow_spec l e : okx l -> 0 <= e -> Z.max 0 (poly_degree xfe_ops l) * e * 2 + 1 <= 2 ^ 31 ->
  exists r, poly_fast_pow xfe_ops ntt_x intt_x l e = Some r /\ okx r /\ peq k3_field (Dx r) (ppow k3_field (Dx l) (Z.to_nat e)).
Proof. exact (w_fast_pow xfe_ops k3_field canon3 denX xfe_field_ok ntt_x intt_x 31 wr_x xfe_ntt_ok xfe_intt_ok xfe_roots_ok l e). Qed.
Theorem xfe_batch_multiply_spec ps : Forall okx ps -> total_len ps <= 2 ^ 31 ->
  exists r, poly_batch_multiply xfe_ops ntt_x intt_x ps = Some r /\ okx r /\
            peq k3_field (Dx r) (pprod k3_field (map Dx ps)).
Proof. exact (w_batch_multiply xfe_ops k3_field canon3 denX xfe_field_ok ntt_x intt_x 31 wr_x xfe_ntt_ok xfe_intt_ok xfe_roots_ok ps). Qed.
Theorem xfe_par_batch_multiply_spec nt ps : 1 <= nt -> Forall okx ps -> total_len ps <= 2 ^ 31 ->
  exists r, poly_par_batch_multiply xfe_ops ntt_x intt_x nt ps = Some r /\ okx r /\
            peq k3_field (Dx r) (pprod k3_field (map Dx ps)).
Proof. exact (w_par_batch_multiply xfe_ops k3_field canon3 denX xfe_field_ok ntt_x intt_x 31 wr_x xfe_ntt_ok xfe_intt_ok xfe_roots_ok nt ps). Qed.
Theorem xfe_scalar_mul_spec l s : okx l -> canon3 s ->
  okx (poly_scalar_mul xfe_ops l s) /\ peq k3_field (Dx (poly_scalar_mul xfe_ops l s)) (pmul k3_field (pconst (denX s)) (Dx l)).
Proof. exact (w_scalar_mul xfe_ops k3_field canon3 denX xfe_field_ok l s). Qed.
Theorem xfe_scale_spec l a : okx l -> canon3 a ->
  okx (poly_scale xfe_ops l a) /\ Dx (poly_scale xfe_ops l a) = pcompscale k3_field (Dx l) (denX a) /\
  forall x, peval k3_field (Dx (poly_scale xfe_ops l a)) x = peval k3_field (Dx l) (kmul k3_field (denX a) x).
Proof. exact (w_scale xfe_ops k3_field canon3 denX xfe_field_ok l a). Qed.

(* ------------------------------------------------------------------ C07: mixed products *)
(* Polynomial<BFieldElement> * Polynomial<XFieldElement> *)
Theorem bx_naive_multiply_spec a b : okb a -> okx b ->
  okx (poly_naive_multiply_gen bfe_ops xfe_ops xfe_ops mul_bx a b) /\
  peq k3_field (Dx (poly_naive_multiply_gen bfe_ops xfe_ops xfe_ops mul_bx a b)) (pmul k3_field (Db3 a) (Dx b)).
Proof.
  exact (w_naive_multiply_gen bfe_ops xfe_ops xfe_ops k3_field canon canon3 canon3 bden3 denX denX
           bfe_field_ok3 xfe_field_ok xfe_field_ok mul_bx mul_bx_ok a b).
Qed.
Theorem bx_fast_multiply_spec a b : okb a -> okx b -> poly_degree bfe_ops a + poly_degree xfe_ops b + 1 <= 2 ^ 31 ->
  exists r, poly_fast_multiply_gen bfe_ops xfe_ops mul_bx ntt_b ntt_x intt_x a b = Some r /\ okx r /\
            zlen r <= Z.max 0 (poly_degree bfe_ops a + poly_degree xfe_ops b + 1) /\
            peq k3_field (Dx r) (pmul k3_field (Db3 a) (Dx b)).
Proof.
  exact (w_fast_multiply_gen bfe_ops xfe_ops xfe_ops k3_field canon canon3 canon3 bden3 denX denX
           bfe_field_ok3 xfe_field_ok xfe_field_ok mul_bx mul_bx_ok ntt_b ntt_x intt_x 31 wr_x
           bfe3_ntt_ok xfe_ntt_ok xfe_intt_ok xfe_roots_ok a b).
Qed.
Theorem bx_multiply_spec a b : okb a -> okx b -> poly_degree bfe_ops a + poly_degree xfe_ops b + 1 <= 2 ^ 31 ->
  exists r, poly_multiply_gen bfe_ops xfe_ops xfe_ops mul_bx ntt_b ntt_x intt_x a b = Some r /\ okx r /\
            zlen r <= Z.max 0 (poly_degree bfe_ops a + poly_degree xfe_ops b + 1) /\
            peq k3_field (Dx r) (pmul k3_field (Db3 a) (Dx b)).
Proof.
  exact (w_multiply_gen bfe_ops xfe_ops xfe_ops k3_field canon canon3 canon3 bden3 denX denX
           bfe_field_ok3 xfe_field_ok xfe_field_ok mul_bx mul_bx_ok ntt_b ntt_x intt_x 31 wr_x
           bfe3_ntt_ok xfe_ntt_ok xfe_intt_ok xfe_roots_ok a b).
Qed.
(* Polynomial<XFieldElement> * Polynomial<BFieldElement> *)
Theorem xb_naive_multiply_spec a b : okx a -> okb b ->
  okx (poly_naive_multiply_gen xfe_ops bfe_ops xfe_ops mul_xb a b) /\
  peq k3_field (Dx (poly_naive_multiply_gen xfe_ops bfe_ops xfe_ops mul_xb a b)) (pmul k3_field (Dx a) (Db3 b)).
Proof.
  exact (w_naive_multiply_gen xfe_ops bfe_ops xfe_ops k3_field canon3 canon canon3 denX bden3 denX
           xfe_field_ok bfe_field_ok3 xfe_field_ok mul_xb mul_xb_ok a b).
Qed.
Theorem xb_fast_multiply_spec a b : okx a -> okb b -> poly_degree xfe_ops a + poly_degree bfe_ops b + 1 <= 2 ^ 31 ->
  exists r, poly_fast_multiply_gen xfe_ops bfe_ops mul_xb ntt_x ntt_b intt_x a b = Some r /\ okx r /\
            zlen r <= Z.max 0 (poly_degree xfe_ops a + poly_degree bfe_ops b + 1) /\
            peq k3_field (Dx r) (pmul k3_field (Dx a) (Db3 b)).
Proof.
  exact (w_fast_multiply_gen xfe_ops bfe_ops xfe_ops k3_field canon3 canon canon3 denX bden3 denX
           xfe_field_ok bfe_field_ok3 xfe_field_ok mul_xb mul_xb_ok ntt_x ntt_b intt_x 31 wr_x
           xfe_ntt_ok bfe3_ntt_ok xfe_intt_ok xfe_roots_ok a b).
Qed.
Theorem xb_multiply_spec a b : okx a -> okb b -> poly_degree xfe_ops a + poly_degree bfe_ops b + 1 <= 2 ^ 31 ->
  exists r, poly_multiply_gen xfe_ops bfe_ops xfe_ops mul_xb ntt_x ntt_b intt_x a b = Some r /\ okx r /\
            zlen r <= Z.max 0 (poly_degree xfe_ops a + poly_degree bfe_ops b + 1) /\
            peq k3_field (Dx r) (pmul k3_field (Dx a) (Db3 b)).
Proof.
  exact (w_multiply_gen xfe_ops bfe_ops xfe_ops k3_field canon3 canon canon3 denX bden3 denX
           xfe_field_ok bfe_field_ok3 xfe_field_ok mul_xb mul_xb_ok ntt_x ntt_b intt_x 31 wr_x
           xfe_ntt_ok bfe3_ntt_ok xfe_intt_ok xfe_roots_ok a b).
Qed.

(* ------------------------------------------------------------------ C09: Polynomial<XFieldElement> *)
Theorem xfe_divide_spec a d : okx a -> okx d -> ~ pzero k3_field (Dx d) ->
  exists q r, pdiv_divide xfe_ops a d = Some (q, r) /\ pdiv_div xfe_ops a d = Some q /\ pdiv_rem xfe_ops a d = Some r /\
              pdiv_reduce_long_division xfe_ops a d = Some r /\ okx q /\ okx r /\
              is_divmod k3_field (Dx a) (Dx d) (Dx q) (Dx r).
Proof. exact (div_rem_spec xfe_ops k3_field canon3 denX xfe_field_ok a d). Qed.
Theorem xfe_divide_panics_iff a d : okx a -> okx d -> (pdiv_naive_divide xfe_ops a d = None <-> pzero k3_field (Dx d)).
Proof. exact (naive_divide_panics_iff xfe_ops k3_field canon3 denX xfe_field_ok a d). Qed.
Theorem xfe_xgcd_spec x y : okx x -> okx y ->
  exists g a b, pdiv_xgcd xfe_ops x y = PdOk (g, a, b) /\ okx g /\ okx a /\ okx b /\
                peq k3_field (Dx g) (padd k3_field (pmul k3_field (Dx a) (Dx x)) (pmul k3_field (Dx b) (Dx y))) /\
                (forall c, pdvd k3_field c (Dx g) <-> pdvd k3_field c (Dx x) /\ pdvd k3_field c (Dx y)) /\
                (pzero k3_field (Dx g) \/ plead k3_field (Dx g) = k1 k3_field).
Proof. exact (xgcd_spec xfe_ops k3_field canon3 denX xfe_field_ok x y). Qed.
Theorem xfe_fpsi_minimal_spec c0 cs1 n : canon3 c0 -> okx cs1 -> denX c0 <> k0 k3_field -> 0 <= n ->
  exists g, pdiv_fpsi_minimal xfe_ops (c0 :: cs1) n = Some g /\ okx g /\ length g = S (Z.to_nat n) /\
            pmodx k3_field (S (Z.to_nat n)) (pmul k3_field (Dx (c0 :: cs1)) (Dx g)) (pone k3_field).
Proof. exact (fpsi_minimal_spec xfe_ops k3_field canon3 denX xfe_field_ok c0 cs1 n). Qed.
Theorem xfe_structured_multiple_spec l n : okx l -> 1 <= poly_degree xfe_ops l -> poly_degree xfe_ops l <= n -> n + 1 <= 2 ^ 31 ->
  exists r, pdiv_structured_multiple_of_degree xfe_ops ntt_x intt_x l n = Some r /\ okx r /\
            pdvd k3_field (Dx l) (Dx r) /\ pdeg k3_field (Dx r) = n /\ plead k3_field (Dx r) = k1 k3_field /\
            (forall i, (Z.to_nat (poly_degree xfe_ops l) <= i < Z.to_nat n)%nat -> coeff k3_field (Dx r) i = k0 k3_field) /\
            zlen r = n + 1.
Proof.
  exact (structured_multiple_dft xfe_ops k3_field canon3 denX xfe_field_ok ntt_x intt_x 31 wr_x ntt_x_hyp intt_x_hyp
           wr_x_half wr_x_nonzero k3_two_nz l n).
Qed.
Theorem xfe_reduce_spec a m : okx a -> okx m -> ~ pzero k3_field (Dx m) ->
  next_pow2 (Z.max FAST_REDUCE_CUTOFF_THRESHOLD (poly_degree xfe_ops m * 2)) + 1 <= 2 ^ 31 ->
  3 * poly_degree xfe_ops m + 2 <= 2 ^ 31 ->
  exists r, pdiv_reduce xfe_ops ntt_x intt_x a m = Some r /\ okx r /\ is_rem k3_field (Dx a) (Dx m) (Dx r).
Proof.
  exact (reduce_spec xfe_ops k3_field canon3 denX xfe_field_ok ntt_x intt_x 31 wr_x ntt_x_hyp intt_x_hyp
           wr_x_half wr_x_nonzero k3_two_nz a m).
Qed.
Theorem xfe_fast_reduce_spec a m : okx a -> okx m -> ~ pzero k3_field (Dx m) ->
  next_pow2 (Z.max FAST_REDUCE_CUTOFF_THRESHOLD (poly_degree xfe_ops m * 2)) + 1 <= 2 ^ 31 ->
  3 * poly_degree xfe_ops m + 2 <= 2 ^ 31 ->
  exists r, pdiv_fast_reduce xfe_ops ntt_x intt_x a m = Some r /\ okx r /\ is_rem k3_field (Dx a) (Dx m) (Dx r).
Proof.
  exact (fast_reduce_spec xfe_ops k3_field canon3 denX xfe_field_ok ntt_x intt_x 31 wr_x ntt_x_hyp intt_x_hyp
           wr_x_half wr_x_nonzero k3_two_nz a m).
Qed.
