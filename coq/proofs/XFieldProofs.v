(* XFieldProofs.v - the extension-field model (model/XField.v, triples of Montgomery words) computes
   polynomial arithmetic modulo x^3 - x + 1 over Z/p on the denoted values. *)
From Coq Require Import ZArith Bool Lia List Setoid Morphisms.
From TF Require Import Word BFieldGen BField XField BFieldProofs BFieldLoops ModP.
Open Scope Z_scope.

Definition canon3 (x : xfe) : Prop := let '(a, b, c) := x in canon a /\ canon b /\ canon c.
Definition val3 (x : xfe) : Z * Z * Z := let '(a, b, c) := x in (val a, val b, val c).
Definition red3 (t : Z * Z * Z) : Z * Z * Z := let '(a, b, c) := t in (a mod P, b mod P, c mod P).

(* the specification on integer triples (c0, c1, c2) ~ c0 + c1 X + c2 X^2 *)
Definition vadd3 (s t : Z * Z * Z) := let '(s0, s1, s2) := s in let '(t0, t1, t2) := t in (s0 + t0, s1 + t1, s2 + t2).
Definition vneg3 (s : Z * Z * Z) := let '(s0, s1, s2) := s in (- s0, - s1, - s2).
Definition vsub3 (s t : Z * Z * Z) := vadd3 s (vneg3 t).
(* coefficients of the degree-4 product *)
Definition conv5 (s t : Z * Z * Z) : Z * Z * Z * Z * Z :=
  let '(s0, s1, s2) := s in let '(t0, t1, t2) := t in
  (s0 * t0, s0 * t1 + s1 * t0, s0 * t2 + s1 * t1 + s2 * t0, s1 * t2 + s2 * t1, s2 * t2).
(* reduction modulo X^3 - X + 1:  X^3 = X - 1,  X^4 = X^2 - X *)
Definition reduce5 (c : Z * Z * Z * Z * Z) : Z * Z * Z :=
  let '(c0, c1, c2, c3, c4) := c in (c0 - c3, c1 + c3 - c4, c2 + c4).
Definition vmul3 (s t : Z * Z * Z) : Z * Z * Z := reduce5 (conv5 s t).
Definition eval3 (s : Z * Z * Z) (X : Z) : Z := let '(s0, s1, s2) := s in s0 + s1 * X + s2 * X ^ 2.

(* reduce5 really is the remainder of division by X^3 - X + 1: quotient c3 + c4 X *)
Lemma reduce5_is_remainder c0 c1 c2 c3 c4 X :
  c0 + c1 * X + c2 * X ^ 2 + c3 * X ^ 3 + c4 * X ^ 4 =
  (c3 + c4 * X) * (X ^ 3 - X + 1) + eval3 (reduce5 (c0, c1, c2, c3, c4)) X.
Proof. unfold eval3, reduce5. ring. Qed.

Lemma vmul3_is_product_mod_shah s t X :
  eval3 s X * eval3 t X =
  (let '(_, _, _, c3, c4) := conv5 s t in c3 + c4 * X) * (X ^ 3 - X + 1) + eval3 (vmul3 s t) X.
Proof. destruct s as [[s0 s1] s2], t as [[t0 t1] t2]. unfold vmul3, conv5, reduce5, eval3. ring. Qed.

Local Opaque bfe_mul bfe_add bfe_sub bfe_neg.

Ltac spec2 lem a b Ha Hb := let C := fresh "C" in let V := fresh "V" in
  destruct (lem a b Ha Hb) as [C V].

Lemma val_canon_range a : 0 <= val a < P. Proof. apply val_range. Qed.

Theorem xadd_spec x y : canon3 x -> canon3 y ->
  canon3 (xadd x y) /\ val3 (xadd x y) = red3 (vadd3 (val3 x) (val3 y)).
Proof.
  destruct x as [[x0 x1] x2], y as [[y0 y1] y2]. intros (A0 & A1 & A2) (B0 & B1 & B2).
  unfold xadd, canon3, val3, red3, vadd3.
  destruct (add_spec x0 y0 A0 B0) as [C0 V0], (add_spec x1 y1 A1 B1) as [C1 V1], (add_spec x2 y2 A2 B2) as [C2 V2].
  rewrite V0, V1, V2. auto.
Qed.

Theorem xneg_spec x : canon3 x -> canon3 (xneg x) /\ val3 (xneg x) = red3 (vneg3 (val3 x)).
Proof.
  destruct x as [[x0 x1] x2]. intros (A0 & A1 & A2). unfold xneg, canon3, val3, red3, vneg3.
  destruct (neg_spec x0 A0) as [C0 V0], (neg_spec x1 A1) as [C1 V1], (neg_spec x2 A2) as [C2 V2].
  rewrite V0, V1, V2. auto.
Qed.

Lemma red3_eq a b c a' b' c' : a mod P = a' mod P -> b mod P = b' mod P -> c mod P = c' mod P ->
  red3 (a, b, c) = red3 (a', b', c').
Proof. unfold red3. intros -> -> ->. reflexivity. Qed.

Theorem xsub_spec x y : canon3 x -> canon3 y ->
  canon3 (xsub x y) /\ val3 (xsub x y) = red3 (vsub3 (val3 x) (val3 y)).
Proof.
  intros Hx Hy. unfold xsub. destruct (xneg_spec y Hy) as [Cn Vn].
  destruct (xadd_spec x (xneg y) Hx Cn) as [C V]. split; [exact C|]. rewrite V, Vn.
  destruct x as [[x0 x1] x2], y as [[y0 y1] y2]. unfold val3, vsub3, vneg3, vadd3, red3.
  f_equal; [f_equal|]; modP_ring.
Qed.

Theorem xmul_spec x y : canon3 x -> canon3 y ->
  canon3 (xmul x y) /\ val3 (xmul x y) = red3 (vmul3 (val3 x) (val3 y)).
Proof.
  destruct x as [[c b] a], y as [[f e] d]. intros (Cc & Cb & Ca) (Cf & Ce & Cd).
  unfold xmul.
  destruct (mul_spec c f Cc Cf) as [K1 E1], (mul_spec a e Ca Ce) as [K2 E2], (mul_spec b d Cb Cd) as [K3 E3],
           (mul_spec b f Cb Cf) as [K4 E4], (mul_spec c e Cc Ce) as [K5 E5], (mul_spec a d Ca Cd) as [K6 E6],
           (mul_spec a f Ca Cf) as [K7 E7], (mul_spec b e Cb Ce) as [K8 E8], (mul_spec c d Cc Cd) as [K9 E9].
  (* r0 *)
  destruct (sub_spec _ _ K1 K2) as [S1 F1]. destruct (sub_spec _ _ S1 K3) as [S2 F2].
  (* r1 *)
  destruct (add_spec _ _ K4 K5) as [T1 G1]. destruct (sub_spec _ _ T1 K6) as [T2 G2].
  destruct (add_spec _ _ T2 K2) as [T3 G3]. destruct (add_spec _ _ T3 K3) as [T4 G4].
  (* r2 *)
  destruct (add_spec _ _ K7 K8) as [U1 H1]. destruct (add_spec _ _ U1 K9) as [U2 H2].
  destruct (add_spec _ _ U2 K6) as [U3 H3].
  split; [unfold canon3; auto|].
  unfold val3. rewrite F2, F1, G4, G3, G2, G1, H3, H2, H1, E1, E2, E3, E4, E5, E6, E7, E8, E9.
  unfold vmul3, conv5, reduce5, red3. f_equal; [f_equal|]; modP_ring.
Qed.

Theorem xscale_spec x k : canon3 x -> canon k ->
  canon3 (xscale x k) /\ val3 (xscale x k) = red3 (vmul3 (val3 x) (val k, 0, 0)).
Proof.
  destruct x as [[x0 x1] x2]. intros (A0 & A1 & A2) Ck. unfold xscale.
  destruct (mul_spec x0 k A0 Ck) as [C0 V0], (mul_spec x1 k A1 Ck) as [C1 V1], (mul_spec x2 k A2 Ck) as [C2 V2].
  split; [unfold canon3; auto|]. unfold val3. rewrite V0, V1, V2.
  unfold vmul3, conv5, reduce5, red3. f_equal; [f_equal|]; modP_ring.
Qed.

(* ring laws of the specification, modulo p (so the model inherits them through the *_spec theorems) *)
Lemma vmul3_comm s t : red3 (vmul3 s t) = red3 (vmul3 t s).
Proof.
  destruct s as [[s0 s1] s2], t as [[t0 t1] t2]. unfold vmul3, conv5, reduce5, red3.
  f_equal; [f_equal|]; (apply (f_equal (fun z => z mod P)); ring).
Qed.

Lemma vmul3_assoc s t u : red3 (vmul3 (vmul3 s t) u) = red3 (vmul3 s (vmul3 t u)).
Proof.
  destruct s as [[s0 s1] s2], t as [[t0 t1] t2], u as [[u0 u1] u2]. unfold vmul3, conv5, reduce5, red3.
  f_equal; [f_equal|]; (apply (f_equal (fun z => z mod P)); ring).
Qed.

Lemma vmul3_distr s t u : red3 (vmul3 s (vadd3 t u)) = red3 (vadd3 (vmul3 s t) (vmul3 s u)).
Proof.
  destruct s as [[s0 s1] s2], t as [[t0 t1] t2], u as [[u0 u1] u2]. unfold vmul3, vadd3, conv5, reduce5, red3.
  f_equal; [f_equal|]; (apply (f_equal (fun z => z mod P)); ring).
Qed.

Lemma vmul3_one s : vmul3 s (1, 0, 0) = s.
Proof. destruct s as [[s0 s1] s2]. unfold vmul3, conv5, reduce5. f_equal; [f_equal|]; ring. Qed.

(* the multiplication-by-x matrix [[c,-a,-b],[b,c+a,b-a],[a,b,c+a]]: cofactors of its first row and determinant *)
Definition cof3 (s : Z * Z * Z) : Z * Z * Z :=
  let '(c, b, a) := s in
  ((c + a) * (c + a) - (b - a) * b, - (b * (c + a) - (b - a) * a), b * b - (c + a) * a).
Definition norm3 (s : Z * Z * Z) : Z :=
  let '(c, b, a) := s in let '(k0, k1, k2) := cof3 s in c * k0 - a * k1 - b * k2.

(* x * adj(x) = norm(x): so whenever the norm is invertible, adj(x)/norm(x) is THE inverse *)
Lemma vmul3_cof3 s : vmul3 s (cof3 s) = (norm3 s, 0, 0).
Proof. destruct s as [[c b] a]. cbv beta iota zeta delta [vmul3 conv5 reduce5 cof3 norm3]. f_equal; [f_equal|]; ring. Qed.

(* ---------------------------------------------------------------- inverse *)
Lemma xeqb_zero_spec x : canon3 x -> (xeqb x xzero = true <-> val3 x = (0, 0, 0)).
Proof.
  destruct x as [[x0 x1] x2]. intros (A0 & A1 & A2). unfold xeqb, xzero, val3. rewrite zero_is_zero.
  rewrite !andb_true_iff, !Z.eqb_eq. split.
  - intros [[-> ->] ->]. reflexivity.
  - intros E. injection E as E0 E1 E2.
    apply (val_zero_iff x0 A0) in E0. apply (val_zero_iff x1 A1) in E1. apply (val_zero_iff x2 A2) in E2. auto.
Qed.

(* The model's inverse: whenever the norm of x is non-zero modulo p, the result y satisfies y * x = 1.
   (That the norm of every non-zero element is non-zero is the irreducibility of x^3 - x + 1 over Z/p:
   not proved here, see DESIGN.md C01.) *)
Theorem xinverse_spec x : canon3 x -> norm3 (val3 x) mod P <> 0 ->
  exists y, xinverse x = Some y /\ canon3 y /\ red3 (vmul3 (val3 y) (val3 x)) = (1, 0, 0).
Proof.
  destruct x as [[c b] a]. intros (Cc & Cb & Ca) Hn.
  unfold xinverse.
  destruct (xeqb (c, b, a) xzero) eqn:Ez.
  { exfalso. apply (xeqb_zero_spec (c, b, a)) in Ez; [|unfold canon3; auto].
    unfold val3 in Ez. injection Ez as E0 E1 E2. apply Hn. unfold val3, norm3, cof3. rewrite E0, E1, E2. reflexivity. }
  destruct (add_spec c a Cc Ca) as [Cca Vca].
  destruct (mul_spec _ _ Cca Cca) as [M1 W1]. destruct (sub_spec b a Cb Ca) as [Cba Vba].
  destruct (mul_spec _ _ Cba Cb) as [M2 W2]. destruct (sub_spec _ _ M1 M2) as [K0 V0].
  destruct (mul_spec _ _ Cb Cca) as [M3 W3]. destruct (mul_spec _ _ Cba Ca) as [M4 W4].
  destruct (sub_spec _ _ M3 M4) as [S1 X1]. destruct (neg_spec _ S1) as [K1 V1].
  destruct (mul_spec _ _ Cb Cb) as [M5 W5]. destruct (mul_spec _ _ Cca Ca) as [M6 W6].
  destruct (sub_spec _ _ M5 M6) as [K2 V2].
  destruct (mul_spec _ _ Cc K0) as [M7 W7]. destruct (mul_spec _ _ Ca K1) as [M8 W8].
  destruct (mul_spec _ _ Cb K2) as [M9 W9].
  destruct (sub_spec _ _ M7 M8) as [S2 X2]. destruct (sub_spec _ _ S2 M9) as [CD VD].
  set (k00 := bfe_sub (bfe_mul (bfe_add c a) (bfe_add c a)) (bfe_mul (bfe_sub b a) b)) in *.
  set (k01 := bfe_neg (bfe_sub (bfe_mul b (bfe_add c a)) (bfe_mul (bfe_sub b a) a))) in *.
  set (k02 := bfe_sub (bfe_mul b b) (bfe_mul (bfe_add c a) a)) in *.
  set (det := bfe_sub (bfe_sub (bfe_mul c k00) (bfe_mul a k01)) (bfe_mul b k02)) in *.
  assert (Vdet : val det = norm3 (val c, val b, val a) mod P).
  { rewrite VD, X2, W7, W8, W9, V0, V1, V2, X1, W1, W2, W3, W4, W5, W6, Vca, Vba.
    cbv beta iota zeta delta [norm3 cof3]. modP_ring. }
  assert (Dnz : det <> 0).
  { intros E. apply Hn. unfold val3. rewrite <- Vdet, E. reflexivity. }
  destruct (inverse_spec det CD Dnz) as [Hi [Ci Vi]].
  cbv zeta. rewrite Hi. set (di := inverse_chain det) in *.
  destruct (mul_spec _ _ K0 Ci) as [Y0 Z0]. destruct (mul_spec _ _ K1 Ci) as [Y1 Z1]. destruct (mul_spec _ _ K2 Ci) as [Y2 Z2].
  exists (bfe_mul k00 di, bfe_mul k01 di, bfe_mul k02 di). split; [reflexivity|]. split; [unfold canon3; auto|].
  unfold val3. rewrite Z0, Z1, Z2.
  (* bilinearity: (k * di) * x = di * (k * x) = di * (norm, 0, 0) *)
  assert (B : forall k0 k1 k2 d s,
             red3 (vmul3 ((k0 * d) mod P, (k1 * d) mod P, (k2 * d) mod P) s) =
             red3 (let '(m0, m1, m2) := vmul3 s (k0, k1, k2) in (d * m0, d * m1, d * m2))).
  { intros k0 k1 k2 d [[s0 s1] s2]. cbv beta iota zeta delta [vmul3 conv5 reduce5 red3].
    f_equal; [f_equal|]; modP_ring. }
  rewrite B.
  assert (Kc : red3 (vmul3 (val c, val b, val a) (val k00, val k01, val k02)) = red3 (norm3 (val c, val b, val a), 0, 0)).
  { rewrite <- vmul3_cof3. rewrite V0, V1, V2, X1, W1, W2, W3, W4, W5, W6, Vca, Vba.
    cbv beta iota zeta delta [vmul3 conv5 reduce5 red3 cof3]. f_equal; [f_equal|]; modP_ring. }
  destruct (vmul3 (val c, val b, val a) (val k00, val k01, val k02)) as [[m0 m1] m2].
  unfold red3 in Kc |- *. injection Kc as K0' K1' K2'.
  f_equal; [f_equal|].
  - assert (E0 : m0 mod P = val det) by (rewrite Vdet; exact K0').
    rewrite <- Z.mul_mod_idemp_r, E0 by exact P_nz. exact Vi.
  - rewrite <- Z.mul_mod_idemp_r, K1' by exact P_nz. rewrite Z.mod_0_l by exact P_nz. rewrite Z.mul_0_r. reflexivity.
  - rewrite <- Z.mul_mod_idemp_r, K2' by exact P_nz. rewrite Z.mod_0_l by exact P_nz. rewrite Z.mul_0_r. reflexivity.
Qed.

Theorem xinverse_zero_panics : xinverse xzero = None.
Proof. reflexivity. Qed.
