(* props/C01.v - property C01: base and extension field arithmetic is exact and canonical.
   Only statements, each closed by `exact`, each followed by Print Assumptions. *)
From Coq Require Import ZArith Bool List.
From TF Require Import Word BFieldGen BField XField BFieldProofs BFieldLoops ModP XFieldProofs XFieldIrred BatchInvProofs XFieldGen XFieldGenProofs.
Import ListNotations.
From TF Require Lucas.
Open Scope Z_scope.

(* Montgomery reduction of the regenerated code: canonical result, congruent to x / 2^64 *)
Theorem C01_montyred : forall x, 0 <= x < P * 2 ^ 64 ->
  0 <= montyred x < P /\ exists k, montyred x * 2 ^ 64 = x + k * P.
Proof. exact montyred_spec. Qed.
Print Assumptions C01_montyred.

Theorem C01_no_overflow_montyred : forall x, 0 <= x < 2 ^ 128 -> montyred_ok x = true.
Proof. exact montyred_ok_all. Qed.
Print Assumptions C01_no_overflow_montyred.

Theorem C01_new : forall v, 0 <= v < 2 ^ 64 -> canon (bfe_new v) /\ bfe_new v = mont v.
Proof. exact new_spec. Qed.
Print Assumptions C01_new.

Theorem C01_value_new : forall v, 0 <= v < 2 ^ 64 -> bfe_value (bfe_new v) = v mod P.
Proof. exact value_new. Qed.
Print Assumptions C01_value_new.

Theorem C01_value : forall a, 0 <= a < 2 ^ 64 -> bfe_value a = val a /\ canon (bfe_value a).
Proof. exact value_spec. Qed.
Print Assumptions C01_value.

(* one representation per field value: derived Eq / Hash on the word coincide with field equality *)
Theorem C01_repr_unique : forall a b, canon a -> canon b -> val a = val b -> a = b.
Proof. exact repr_unique. Qed.
Print Assumptions C01_repr_unique.

Theorem C01_add : forall a b, canon a -> canon b ->
  canon (bfe_add a b) /\ val (bfe_add a b) = (val a + val b) mod P.
Proof. exact add_spec. Qed.
Print Assumptions C01_add.

Theorem C01_sub : forall a b, canon a -> canon b ->
  canon (bfe_sub a b) /\ val (bfe_sub a b) = (val a - val b) mod P.
Proof. exact sub_spec. Qed.
Print Assumptions C01_sub.

Theorem C01_mul : forall a b, canon a -> canon b ->
  canon (bfe_mul a b) /\ val (bfe_mul a b) = (val a * val b) mod P.
Proof. exact mul_spec. Qed.
Print Assumptions C01_mul.

Theorem C01_neg : forall a, canon a -> canon (bfe_neg a) /\ val (bfe_neg a) = (- val a) mod P.
Proof. exact neg_spec. Qed.
Print Assumptions C01_neg.

Theorem C01_from_u128 : forall x, 0 <= x < 2 ^ 128 ->
  0 <= mod_reduce x < 2 ^ 64 /\ mod_reduce x mod P = x mod P /\ mod_reduce_ok x = true.
Proof. exact mod_reduce_spec. Qed.
Print Assumptions C01_from_u128.

Theorem C01_from_i64 : forall v, - 2 ^ 63 <= v < 2 ^ 63 ->
  0 <= from_i64_u128 v < 2 ^ 128 /\ from_i64_u128 v mod P = v mod P /\ from_i64_u128_ok v = true.
Proof. exact from_i64_spec. Qed.
Print Assumptions C01_from_i64.

Theorem C01_to_i64 : forall a, canon a ->
  let v := val a in
  bfe_to_i64 a = (if v <=? 2 ^ 63 - 1 then v else v - P) /\ bfe_to_i64_ok a = true.
Proof. exact to_i64_spec. Qed.
Print Assumptions C01_to_i64.

Theorem C01_P_prime : Znumtheory.prime P.
Proof. exact Lucas.P_prime. Qed.
Print Assumptions C01_P_prime.

Theorem C01_mod_pow : forall a e, canon a -> 0 <= e ->
  canon (mod_pow a e) /\ val (mod_pow a e) = (val a) ^ e mod P.
Proof. exact mod_pow_spec. Qed.
Print Assumptions C01_mod_pow.

Theorem C01_inverse : forall x, canon x -> x <> 0 ->
  inverse x = Some (inverse_chain x) /\ canon (inverse_chain x) /\ (val (inverse_chain x) * val x) mod P = 1.
Proof. exact inverse_spec. Qed.
Print Assumptions C01_inverse.

Theorem C01_inverse_zero_panics : inverse bfe_zero = None.
Proof. exact inverse_zero_panics. Qed.
Print Assumptions C01_inverse_zero_panics.

Theorem C01_inverse_unique : forall v y1 y2, 0 <= y1 < P -> 0 <= y2 < P ->
  (y1 * v) mod P = 1 -> (y2 * v) mod P = 1 -> y1 = y2.
Proof. exact inverse_unique. Qed.
Print Assumptions C01_inverse_unique.

Theorem C01_inverse_or_zero : forall x, canon x ->
  (x = 0 -> inverse_or_zero x = 0) /\
  (x <> 0 -> canon (inverse_or_zero x) /\ (val (inverse_or_zero x) * val x) mod P = 1).
Proof. exact inverse_or_zero_spec. Qed.
Print Assumptions C01_inverse_or_zero.

Theorem C01_div : forall a b, canon a -> canon b -> b <> 0 ->
  exists q, bfe_div a b = Some q /\ canon q /\ (val q * val b) mod P = val a.
Proof. exact div_spec. Qed.
Print Assumptions C01_div.

(* ---------------------------------------------------------------- extension field *)
(* reduce5 is the remainder of division by X^3 - X + 1, as a polynomial identity over Z *)
Theorem C01_x_reduce_is_remainder : forall c0 c1 c2 c3 c4 X,
  c0 + c1 * X + c2 * X ^ 2 + c3 * X ^ 3 + c4 * X ^ 4 =
  (c3 + c4 * X) * (X ^ 3 - X + 1) + eval3 (reduce5 (c0, c1, c2, c3, c4)) X.
Proof. exact reduce5_is_remainder. Qed.
Print Assumptions C01_x_reduce_is_remainder.

Theorem C01_x_mul_is_product_mod_shah : forall s t X,
  eval3 s X * eval3 t X =
  (let '(_, _, _, c3, c4) := conv5 s t in c3 + c4 * X) * (X ^ 3 - X + 1) + eval3 (vmul3 s t) X.
Proof. exact vmul3_is_product_mod_shah. Qed.
Print Assumptions C01_x_mul_is_product_mod_shah.

Theorem C01_xadd : forall x y, canon3 x -> canon3 y ->
  canon3 (xadd x y) /\ val3 (xadd x y) = red3 (vadd3 (val3 x) (val3 y)).
Proof. exact xadd_spec. Qed.
Print Assumptions C01_xadd.

Theorem C01_xsub : forall x y, canon3 x -> canon3 y ->
  canon3 (xsub x y) /\ val3 (xsub x y) = red3 (vsub3 (val3 x) (val3 y)).
Proof. exact xsub_spec. Qed.
Print Assumptions C01_xsub.

Theorem C01_xneg : forall x, canon3 x -> canon3 (xneg x) /\ val3 (xneg x) = red3 (vneg3 (val3 x)).
Proof. exact xneg_spec. Qed.
Print Assumptions C01_xneg.

Theorem C01_xmul : forall x y, canon3 x -> canon3 y ->
  canon3 (xmul x y) /\ val3 (xmul x y) = red3 (vmul3 (val3 x) (val3 y)).
Proof. exact xmul_spec. Qed.
Print Assumptions C01_xmul.

(* the model's xmul is the function regenerated from x_field_element.rs on this run *)
Theorem C01_xmul_regenerated : forall x y, xfe_mul_gen x y = xmul x y.
Proof. exact xfe_mul_gen_is_model. Qed.
Print Assumptions C01_xmul_regenerated.

Theorem C01_xscale : forall x k, canon3 x -> canon k ->
  canon3 (xscale x k) /\ val3 (xscale x k) = red3 (vmul3 (val3 x) (val k, 0, 0)).
Proof. exact xscale_spec. Qed.
Print Assumptions C01_xscale.

(* x^3 - x + 1 has no root modulo p (Frobenius X^p by 64 squarings + Bezout certificate), so it is irreducible
   (a reducible cubic has a linear factor) and every non-zero element has a non-zero norm *)
Theorem C01_shah_no_root : forall r, ~ eqP (r ^ 3 - r + 1) 0.
Proof. exact shah_no_root. Qed.
Print Assumptions C01_shah_no_root.

Theorem C01_norm_nonzero : forall c b a, ~ (eqP c 0 /\ eqP b 0 /\ eqP a 0) -> ~ eqP (norm3 (c, b, a)) 0.
Proof. exact norm3_nonzero. Qed.
Print Assumptions C01_norm_nonzero.

(* inversion returns the multiplicative inverse of EVERY non-zero extension-field element *)
Theorem C01_xinverse : forall x, canon3 x -> val3 x <> (0, 0, 0) ->
  exists y, xinverse x = Some y /\ canon3 y /\ red3 (vmul3 (val3 y) (val3 x)) = (1, 0, 0).
Proof. exact xinverse_total. Qed.
Print Assumptions C01_xinverse.

Theorem C01_xinverse_zero_panics : xinverse xzero = None.
Proof. exact xinverse_zero_panics. Qed.
Print Assumptions C01_xinverse_zero_panics.

(* ---------------------------------------------------------------- batch inversion *)
Theorem C01_batch_inversion : forall l, Forall canon l -> Forall (fun x => x <> 0) l ->
  exists r, bfe_batch_inversion l = Some r /\
            Forall2 (fun x y => canon y /\ (val y * val x) mod P = 1) l r.
Proof. exact bfe_batch_inversion_spec. Qed.
Print Assumptions C01_batch_inversion.

Theorem C01_batch_inversion_zero_panics : forall l, In 0 l -> bfe_batch_inversion l = None.
Proof. exact bfe_batch_inversion_zero_panics. Qed.
Print Assumptions C01_batch_inversion_zero_panics.

Example C01_batch_inversion_nonvacuous :
  Forall canon [bfe_new 2; bfe_new 3] /\ Forall (fun x => x <> 0) [bfe_new 2; bfe_new 3].
Proof.
  split.
  - repeat (apply Forall_cons; [apply canonb_spec; vm_compute; reflexivity|]). apply Forall_nil.
  - repeat (apply Forall_cons; [vm_compute; discriminate|]). apply Forall_nil.
Qed.

(* ---------------------------------------------------------------- the extension field as a field (proofs/XFieldOk.v)
   Fp3 = Fp x Fp x Fp with the product of Fp[X]/(X^3 - X + 1) is a field `k3_field` (lib/FieldTheory.v: fieldK, the ring
   axioms are polynomial identities, the inverse law is C01_norm_nonzero), and the operations record of XFieldElement
   refines it: canon3 = representation invariant, denX (a, b, c) = (bden a, bden b, bden c) = fp3_of (val3 (a, b, c)). *)
From TF Require Import FieldOps FieldTheory BFieldOk XFieldOk.
Theorem C01_k3_mul_is_vmul3 : forall s t, fp3_of (vmul3 s t) = kmul k3_field (fp3_of s) (fp3_of t).
Proof. exact fp3_of_vmul3. Qed.
Print Assumptions C01_k3_mul_is_vmul3.
Theorem C01_denX_is_val3 : forall x, denX x = fp3_of (val3 x).
Proof. exact denX_val3. Qed.
Print Assumptions C01_denX_is_val3.
Theorem C01_xfe_field_ok : field_ok xfe_ops k3_field canon3 denX.
Proof. exact xfe_field_ok. Qed.
Print Assumptions C01_xfe_field_ok.

(* ModPowU64::mod_pow_u64 on XFieldElement = the repeated product, for EVERY u64 exponent (0^0 = 1 included) *)
Theorem C01_xpow : forall x e, canon3 x -> 0 <= e < 2 ^ 64 ->
  canon3 (xpow x e) /\ denX (xpow x e) = kpow k3_field (denX x) (Z.to_nat e).
Proof. exact xpow_repeated_product. Qed.
Print Assumptions C01_xpow.
Example C01_xpow_ex : canon3 (xlift (bfe_new 7)) /\ 0 <= 18446744073709551615 < 2 ^ 64.
Proof. split; [repeat split; vm_compute; (discriminate || reflexivity)|split; [discriminate|reflexivity]]. Qed.

(* the inverse is unique: ANY canonical y with y * x = 1 is what `inverse` returns *)
Theorem C01_xinverse_unique : forall x y, canon3 x -> canon3 y ->
  red3 (vmul3 (val3 y) (val3 x)) = (1, 0, 0) -> xinverse x = Some y.
Proof. exact xinverse_unique. Qed.
Print Assumptions C01_xinverse_unique.

(* XFieldElement::batch_inversion is point-wise inversion (instance of BatchInvProofs.batch_inversion_spec) *)
Theorem C01_xbatch_inversion : forall l, Forall canon3 l -> Forall (fun x => x <> xzero) l ->
  exists r, xbatch_inversion l = Some r /\
            Forall2 (fun x y => canon3 y /\ xmul y x = xone /\ xinverse x = Some y) l r.
Proof. exact xbatch_inversion_spec. Qed.
Print Assumptions C01_xbatch_inversion.
Theorem C01_xbatch_inversion_zero_panics : forall l, In xzero l -> xbatch_inversion l = None.
Proof. exact xbatch_inversion_zero_panics. Qed.
Print Assumptions C01_xbatch_inversion_zero_panics.
Example C01_xbatch_inversion_nonvacuous :
  Forall canon3 [xlift (bfe_new 2); (bfe_new 1, bfe_new 2, bfe_new 3)] /\
  Forall (fun x => x <> xzero) [xlift (bfe_new 2); (bfe_new 1, bfe_new 2, bfe_new 3)].
Proof.
  split.
  - repeat (apply Forall_cons; [unfold canon3, xlift; repeat split; try (apply canonb_spec; vm_compute; reflexivity)|]).
    apply Forall_nil.
  - repeat (apply Forall_cons; [vm_compute; discriminate|]). apply Forall_nil.
Qed.

(* `XFieldElement * BFieldElement` is the product with the lift; the lift is a field embedding of the base field *)
Theorem C01_xscale_is_mul_by_lift : forall x k, canon3 x -> canon k -> xscale x k = xmul x (xlift k).
Proof. exact xscale_is_xmul_xlift. Qed.
Print Assumptions C01_xscale_is_mul_by_lift.
Theorem C01_xlift_embedding :
  (forall b, canon b -> canon3 (xlift b) /\ denX (xlift b) = iota (bden b)) /\
  iota (k0 fp_field) = k0 k3_field /\ iota (k1 fp_field) = k1 k3_field /\
  (forall a b, iota (kadd fp_field a b) = kadd k3_field (iota a) (iota b)) /\
  (forall a b, iota (kmul fp_field a b) = kmul k3_field (iota a) (iota b)) /\
  (forall a b, iota a = iota b -> a = b).
Proof. exact (conj denX_xlift (conj iota_0 (conj iota_1 (conj iota_add (conj iota_mul iota_inj))))). Qed.
Print Assumptions C01_xlift_embedding.
