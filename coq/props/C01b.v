(* C01b.v - C01, the rest of the public field API: Sum, power_accumulator, raw byte / u16 views, checked narrowing
   conversions, the table of primitive roots of unity (regenerated from the source on every run), the generator,
   get_cyclic_group_elements, and the extension-field helpers.  Statements only; proofs in proofs/BFieldExtra.v and
   proofs/XFieldExtra.v. *)
From Coq Require Import ZArith Bool List Lia.
From TF Require Import Word BFieldGen BFieldProofs BField BFieldLoops BFieldExtra XField XFieldProofs XFieldExtra XFieldGen XFieldGenProofs.
Import ListNotations.
Open Scope Z_scope.

(* Sum: the field sum of the values, stored canonically (empty sum = 0) *)
Theorem C01_sum : forall l, Forall canon l ->
  canon (bfe_sum l) /\ val (bfe_sum l) = zsum (map val l) mod P.
Proof. exact sum_spec. Qed.
Print Assumptions C01_sum.

Example C01_sum_nonvacuous :
  Forall canon [bfe_new (P - 1); bfe_new (P - 1); bfe_new 3] /\ bfe_value (bfe_sum [bfe_new (P - 1); bfe_new (P - 1); bfe_new 3]) = 1.
Proof. split; [repeat (apply Forall_cons; [apply closure_new; unfold P; lia|]); apply Forall_nil|vm_compute; reflexivity]. Qed.

Theorem C01_xsum : forall l, Forall canon3 l ->
  canon3 (xsum l) /\ val3 (xsum l) = red3 (vsum3 (map val3 l)).
Proof. exact xsum_spec. Qed.
Print Assumptions C01_xsum.

(* power_accumulator<N, M>: result[i] = base[i]^(2^M) * tail[i] *)
Theorem C01_power_accumulator : forall m base tail, Forall canon base -> Forall canon tail -> length base = length tail ->
  length (power_accumulator m base tail) = length base /\
  forall i, (i < length base)%nat ->
    canon (nth i (power_accumulator m base tail) 0) /\
    val (nth i (power_accumulator m base tail) 0) = (val (nth i base 0) ^ (2 ^ Z.of_nat m) * val (nth i tail 0)) mod P.
Proof. exact power_accumulator_spec. Qed.
Print Assumptions C01_power_accumulator.

(* raw_bytes / raw_u16s are the little-endian digits of the Montgomery word, from_raw_* their inverses (both ways) *)
Theorem C01_raw_bytes : forall a, 0 <= a < 2 ^ 64 ->
  length (raw_bytes a) = 8%nat /\ Forall (fun c => 0 <= c < 256) (raw_bytes a) /\ from_le_chunks 8 (raw_bytes a) = a.
Proof. exact raw_bytes_spec. Qed.
Print Assumptions C01_raw_bytes.

Theorem C01_raw_u16s : forall a, 0 <= a < 2 ^ 64 ->
  length (raw_u16s a) = 4%nat /\ Forall (fun c => 0 <= c < 65536) (raw_u16s a) /\ from_le_chunks 16 (raw_u16s a) = a.
Proof. exact raw_u16s_spec. Qed.
Print Assumptions C01_raw_u16s.

Theorem C01_from_raw_bytes : forall l, length l = 8%nat -> Forall (fun c => 0 <= c < 256) l ->
  0 <= from_le_chunks 8 l < 2 ^ 64 /\ raw_bytes (from_le_chunks 8 l) = l.
Proof. exact from_raw_bytes_spec. Qed.
Print Assumptions C01_from_raw_bytes.

Theorem C01_from_raw_u16s : forall l, length l = 4%nat -> Forall (fun c => 0 <= c < 65536) l ->
  0 <= from_le_chunks 16 l < 2 ^ 64 /\ raw_u16s (from_le_chunks 16 l) = l.
Proof. exact from_raw_u16s_spec. Qed.
Print Assumptions C01_from_raw_u16s.

(* TryFrom<BFieldElement> for u8 .. u32 / usize (w bits) and i8 .. i32 / isize: Ok(value) exactly when the canonical value fits *)
Theorem C01_try_into_unsigned : forall w a, canon a ->
  (val a < 2 ^ w -> try_into_unsigned w a = Some (val a)) /\
  (2 ^ w <= val a -> try_into_unsigned w a = None).
Proof. exact try_into_unsigned_spec. Qed.
Print Assumptions C01_try_into_unsigned.

Theorem C01_try_into_signed : forall w a, canon a ->
  (val a < 2 ^ (w - 1) -> try_into_signed w a = Some (val a)) /\
  (2 ^ (w - 1) <= val a -> try_into_signed w a = None).
Proof. exact try_into_signed_spec. Qed.
Print Assumptions C01_try_into_signed.

(* primitive_root_of_unity(2^k), k <= 32, over the table REGENERATED from the source: canonical, r^(2^k) = 1,
   r^(2^(k-1)) = -1, and no smaller positive power is 1 *)
Theorem C01_primitive_root : forall k, (k <= 32)%nat ->
  exists r, primitive_root_of_unity (2 ^ Z.of_nat k) = Some r /\ canon r /\
            val r ^ (2 ^ Z.of_nat k) mod P = 1 /\
            ((0 < k)%nat -> val r ^ (2 ^ (Z.of_nat k - 1)) mod P = P - 1).
Proof. exact primitive_root_spec. Qed.
Print Assumptions C01_primitive_root.

Theorem C01_primitive_root_order : forall k r, (k <= 32)%nat -> primitive_root_of_unity (2 ^ Z.of_nat k) = Some r ->
  forall j, 0 < j < 2 ^ Z.of_nat k -> val r ^ j mod P <> 1.
Proof. exact primitive_root_order. Qed.
Print Assumptions C01_primitive_root_order.

Theorem C01_primitive_root_domain : forall n,
  primitive_root_of_unity n <> None <-> (n = 0 \/ exists k, (k <= 32)%nat /\ n = 2 ^ Z.of_nat k).
Proof. exact primitive_root_domain. Qed.
Print Assumptions C01_primitive_root_domain.

Theorem C01_xroot : forall n,
  xroot n = match primitive_root_of_unity n with Some r => Some (xlift r) | None => None end.
Proof. exact xroot_spec. Qed.
Print Assumptions C01_xroot.

(* BFieldElement::generator() = new(7) generates the whole multiplicative group *)
Theorem C01_generator :
  canon (bfe_new 7) /\ val (bfe_new 7) = 7 /\
  forall x, 0 < x < P -> exists i, 0 <= i < P - 1 /\ x = val (bfe_new 7) ^ i mod P.
Proof. exact generator_spec. Qed.
Print Assumptions C01_generator.

(* get_cyclic_group_elements(max): the successive powers 1, g, g^2, ..., at least two of them, stopping exactly at the
   first length n >= 2 with g^n = 1 or n >= max (fuel exhaustion = None is excluded by the hypothesis) *)
Theorem C01_cyclic_group_elements : forall fuel g maxn res, canon g ->
  cyclic_group_elements fuel g maxn = Some res ->
  (forall i, (i < length res)%nat -> canon (nth i res 0) /\ val (nth i res 0) = val g ^ Z.of_nat i mod P) /\
  (2 <= length res)%nat /\
  (val g ^ Z.of_nat (length res) mod P = 1 \/ exists m, maxn = Some m /\ m <= Z.of_nat (length res)) /\
  (forall n, (2 <= n < length res)%nat -> val g ^ Z.of_nat n mod P <> 1 /\ forall m, maxn = Some m -> Z.of_nat n < m).
Proof. exact cyclic_group_elements_spec. Qed.
Print Assumptions C01_cyclic_group_elements.

Example C01_cyclic_nonvacuous :
  exists res, cyclic_group_elements 100 (bfe_new 281474976710656) None = Some res /\ length res = 4%nat.
Proof. eexists. split; [vm_compute; reflexivity|reflexivity]. Qed.

(* extension-field helpers *)
Theorem C01_xnew_const : forall b, canon b -> canon3 (xnew_const b) /\ val3 (xnew_const b) = (val b, 0, 0).
Proof. exact xnew_const_spec. Qed.
Print Assumptions C01_xnew_const.

Theorem C01_xtry_from_slice : forall l,
  (length l = 3%nat -> xtry_from_slice l = Some (nth 0 l 0, nth 1 l 0, nth 2 l 0)) /\
  (length l <> 3%nat -> xtry_from_slice l = None).
Proof. exact xtry_from_slice_spec. Qed.
Print Assumptions C01_xtry_from_slice.

Theorem C01_xincrement : forall x i, canon3 x ->
  (0 <= i < 3 -> exists y, xincrement x i = Some y /\ canon3 y /\
     val3 y = red3 (vadd3 (val3 x) (if i =? 0 then (1, 0, 0) else if i =? 1 then (0, 1, 0) else (0, 0, 1)))) /\
  (3 <= i -> xincrement x i = None).
Proof. exact xincrement_spec. Qed.
Print Assumptions C01_xincrement.

Theorem C01_xdecrement : forall x i, canon3 x ->
  (0 <= i < 3 -> exists y, xdecrement x i = Some y /\ canon3 y /\
     val3 y = red3 (vadd3 (val3 x) (if i =? 0 then (-1, 0, 0) else if i =? 1 then (0, -1, 0) else (0, 0, -1)))) /\
  (3 <= i -> xdecrement x i = None).
Proof. exact xdecrement_spec. Qed.
Print Assumptions C01_xdecrement.

(* the linear extension-field operators of the hand model ARE the functions regenerated from x_field_element.rs on this
   run (Add, Neg, Sub, Mul by a base-field scalar, and the mixed BFieldElement / XFieldElement forms) *)
Theorem C01_xfe_linear_ops_regenerated :
  (forall x y, xfe_add_gen x y = xadd x y) /\
  (forall x, xfe_neg_gen x = xneg x) /\
  (forall x y, xfe_sub_gen x y = xsub x y) /\
  (forall x k, xfe_scale_gen x k = xscale x k) /\
  (forall k x, bfe_mul_xfe_gen k x = xscale x k) /\
  (forall x k, xfe_add_bfe_gen x k = xaddb x k) /\
  (forall k x, bfe_add_xfe_gen k x = baddx k x) /\
  (forall x k, xfe_sub_bfe_gen x k = xsubb x k) /\
  (forall k x, bfe_sub_xfe_gen k x = bsubx k x).
Proof. exact xfe_linear_gen_is_model. Qed.
Print Assumptions C01_xfe_linear_ops_regenerated.
