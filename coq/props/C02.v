(* props/C02.v - property C02: the Tip5 permutation, its round-by-round trace and the fixed-length hashes compute
   exactly the function of the Tip5 specification (spec/Tip5Spec.v, on field values) for every state, and every
   element of every intermediate and final state is stored canonically.
   Only statements, each closed by `exact`, each followed by Print Assumptions.
   Vocabulary: a state is the list of the Montgomery words of Tip5.state; canon a := 0 <= a < P;
   val a := a * (2^64)^-1 mod P is the field value of a word; mont v its inverse (proofs/BFieldProofs.v). *)
From Coq Require Import ZArith Bool List.
From TF Require Import Word BFieldGen BFieldProofs Tip5Ssa Tip5Gen Tip5 Tip5Spec Tip5Proofs.
Import ListNotations.
Open Scope Z_scope.

(* ---------------------------------------------------------------- tables and constants of the current source *)
Theorem C02_lookup_table_is_formula : forall i, 0 <= i < 256 -> lookup i = fermat_cube i.
Proof. exact lookup_table_is_formula. Qed.
Print Assumptions C02_lookup_table_is_formula.

Theorem C02_offset_fermat_cube_map : forall i, 0 <= i < 256 ->
  offset_fermat_cube_map i = fermat_cube i /\ offset_fermat_cube_map_ok i = true.
Proof. exact offset_fermat_cube_map_is_formula. Qed.
Print Assumptions C02_offset_fermat_cube_map.

Theorem C02_consts_match :
  ROUND_CONSTANTS = map mont SPEC_RC /\ map bfe_value ROUND_CONSTANTS = SPEC_RC /\
  MDS_MATRIX_FIRST_COLUMN = SPEC_COL /\ P = spec_p /\ Rinv = Rmont_inv /\
  STATE_SIZE = 16 /\ RATE = 10 /\ CAPACITY = 6 /\ NUM_ROUNDS = 5 /\ NUM_SPLIT_AND_LOOKUP = 4 /\ DIGEST_LEN = 5 /\
  SPONGE_RATE = 10 /\ EXTENSION_DEGREE = 3 /\ length ROUND_CONSTANTS = 80%nat.
Proof. exact consts_match. Qed.
Print Assumptions C02_consts_match.

Theorem C02_rc_margin : Forall (fun c => 0 <= c <= P - 2 ^ 32) ROUND_CONSTANTS.
Proof. exact rc_margin. Qed.
Print Assumptions C02_rc_margin.

(* ---------------------------------------------------------------- the linear layer *)
(* generic: for ANY program of the SSA language the wrapping u64 evaluation is linear modulo 2^64 *)
Theorem C02_ssa_linear : forall prog outs x, Forall (fun v => 0 <= v < M64) x ->
  eval_ssa prog outs x = map (fun row => (dot row x) mod M64) (ssa_matrix prog outs).
Proof. exact ssa_linear. Qed.
Print Assumptions C02_ssa_linear.

(* the regenerated generated_function: well-formed, coefficient matrix = 16 * circulant(col), and on 32-bit limbs
   nothing wraps: the result is 16 * (M x) as integers *)
Theorem C02_generated_function :
  ssa_wf 16 GF_PROG GF_OUT = true /\
  ssa_matrix GF_PROG GF_OUT = map (fun r => map (Z.mul 16) (circ_row MDS_MATRIX_FIRST_COLUMN r)) (seq 0 16) /\
  forall x, Forall (fun v => 0 <= v < 2 ^ 32) x ->
    generated_function x = map (fun r => 16 * dot (circ_row MDS_MATRIX_FIRST_COLUMN r) x) (seq 0 16).
Proof. exact (conj gf_wf (conj gf_matrix gf_spec)). Qed.
Print Assumptions C02_generated_function.
Example C02_generated_function_hyp : Forall (fun v => 0 <= v < 2 ^ 32) (repeat 4294967295 16).
Proof. apply Forall_forall. intros x Hx. apply repeat_spec in Hx. subst x. split; [discriminate | reflexivity]. Qed.

(* the per-lane recombination of the regenerated mds_generated (including its `over` branch): a u64 congruent to
   a + 2^32 b modulo p - not necessarily below p - and no unchecked operator overflows *)
Theorem C02_mds_lane : forall a b, 0 <= a < 2 ^ 52 -> 0 <= b < 2 ^ 52 ->
  0 <= mds_lane (16 * a) (16 * b) < 2 ^ 64 /\
  (mds_lane (16 * a) (16 * b)) mod P = (a + 2 ^ 32 * b) mod P /\
  mds_lane_ok (16 * a) (16 * b) = true.
Proof. exact mds_lane_spec. Qed.
Print Assumptions C02_mds_lane.

(* recombine_spec: every lane of mds_generated, on ARBITRARY u64 words, is a u64 congruent modulo p to
   (row r of the circulant matrix) . (raw words) *)
Theorem C02_mds_generated_lanes : forall st, Forall word_ok st ->
  mds_generated st = map (mds_out st) (seq 0 16) /\
  forall r, (r < 16)%nat ->
    0 <= mds_out st r < 2 ^ 64 /\
    (mds_out st r) mod P = (dot (circ_row MDS_MATRIX_FIRST_COLUMN r) st) mod P /\
    mds_lane_ok (16 * dot (crow r) (map mds_split_lo st)) (16 * dot (crow r) (map mds_split_hi st)) = true.
Proof. exact (fun st H => conj (mds_generated_unfold st H) (fun r Hr => mds_out_spec st r Hr H)). Qed.
Print Assumptions C02_mds_generated_lanes.

Theorem C02_mds_generated : forall st, Forall word_ok st ->
  Forall word_ok (mds_generated st) /\ map val (mds_generated st) = spec_mds (map val st) /\
  length (mds_generated st) = 16%nat.
Proof. exact mds_generated_spec. Qed.
Print Assumptions C02_mds_generated.

(* the regenerated bfe_add with a NON-canonical left operand and a constant at least 2^32 below p *)
Theorem C02_add_noncanon : forall a c, 0 <= a < 2 ^ 64 -> 0 <= c <= P - 2 ^ 32 ->
  bfe_add a c = (a + c) mod P /\ bfe_add_ok a c = true.
Proof. exact add_noncanon. Qed.
Print Assumptions C02_add_noncanon.
Example C02_add_noncanon_hyp : 0 <= 2 ^ 64 - 1 < 2 ^ 64 /\ 0 <= nth 0 ROUND_CONSTANTS 0 <= P - 2 ^ 32.
Proof. vm_compute. repeat split; discriminate. Qed.

(* ---------------------------------------------------------------- the S-box layer *)
Theorem C02_split_and_lookup : forall w, canon w ->
  canon (split_and_lookup w) /\ val (split_and_lookup w) = spec_L (val w).
Proof. exact split_and_lookup_spec. Qed.
Print Assumptions C02_split_and_lookup.

Theorem C02_pow7 : forall x, canon x -> canon (pow7 x) /\ val (pow7 x) = (val x) ^ 7 mod P.
Proof. exact pow7_spec. Qed.
Print Assumptions C02_pow7.

Theorem C02_sbox_layer : forall st, Forall canon st ->
  Forall canon (sbox_layer st) /\ map val (sbox_layer st) = spec_sbox (map val st) /\
  length (sbox_layer st) = length st.
Proof. exact sbox_layer_spec. Qed.
Print Assumptions C02_sbox_layer.

(* ---------------------------------------------------------------- round, permutation, trace *)
Theorem C02_round_refines : forall i st, (i < 5)%nat -> Forall canon st ->
  Forall canon (round i st) /\ map val (round i st) = spec_round i (map val st) /\ length (round i st) = 16%nat.
Proof. exact round_refines. Qed.
Print Assumptions C02_round_refines.
Example C02_round_refines_hyp : Forall canon (map bfe_new [0; 1; 18446744069414584320; 2; 3; 4; 5; 6; 7; 8; 9; 10; 11; 12; 13; 14]).
Proof. repeat (apply Forall_cons; [vm_compute; split; congruence|]). apply Forall_nil. Qed.

Theorem C02_permutation_refines : forall st, Forall canon st ->
  Forall canon (permutation st) /\ map val (permutation st) = spec_permutation (map val st) /\
  length (permutation st) = 16%nat.
Proof. exact permutation_refines. Qed.
Print Assumptions C02_permutation_refines.

Theorem C02_trace_refines : forall st, Forall canon st ->
  Forall (Forall canon) (trace st) /\ map (map val) (trace st) = spec_trace (map val st) /\
  last (trace st) [] = permutation st /\ length (trace st) = 6%nat.
Proof. exact trace_refines. Qed.
Print Assumptions C02_trace_refines.

(* in terms of the public API: states built with BFieldElement::new, read with .value() *)
Theorem C02_permutation_api : forall vs, Forall (fun v => 0 <= v < 2 ^ 64) vs ->
  let out := permutation (map bfe_new vs) in
  Forall canon out /\ map bfe_value out = spec_permutation (map (fun v => v mod P) vs) /\
  out = map mont (spec_permutation (map (fun v => v mod P) vs)).
Proof. exact permutation_api. Qed.
Print Assumptions C02_permutation_api.

(* ---------------------------------------------------------------- fixed-length hashes *)
Theorem C02_hash_10 : forall input, Forall canon input ->
  Forall canon (hash_10 input) /\ map val (hash_10 input) = spec_hash_10 (map val input).
Proof. exact hash_10_spec. Qed.
Print Assumptions C02_hash_10.

Theorem C02_hash_pair : forall l r, Forall canon l -> Forall canon r -> length l = 5%nat -> length r = 5%nat ->
  Forall canon (hash_pair l r) /\ map val (hash_pair l r) = spec_hash_pair (map val l) (map val r) /\
  hash_pair l r = hash_10 (l ++ r).
Proof. exact hash_pair_spec. Qed.
Print Assumptions C02_hash_pair.

Theorem C02_digest_hash : forall d, Forall canon d -> length d = 5%nat ->
  Forall canon (digest_hash d) /\ map val (digest_hash d) = spec_digest_hash (map val d).
Proof. exact digest_hash_spec. Qed.
Print Assumptions C02_digest_hash.
