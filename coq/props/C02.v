(* props/C02.v - property C02: the Tip5 permutation, its trace and the fixed-length hashes conform to the Tip5
   specification.  Only statements, each closed by `exact`, each followed by Print Assumptions. *)
From Coq Require Import ZArith Bool List.
From TF Require Import Word BFieldGen BFieldProofs Tip5Ssa Tip5Gen Tip5 Tip5Spec Tip5Proofs.
Import ListNotations.
Open Scope Z_scope.

Theorem C02_lookup_table_is_formula : forall i, 0 <= i < 256 -> lookup i = fermat_cube i.
Proof. exact lookup_table_is_formula. Qed.
Print Assumptions C02_lookup_table_is_formula.
