(* props/C03.v - BFieldCodec: round trip, unique encoding, static length, documented layout.
   Statements only; every proof is `exact <lemma of proofs/CodecProofs.v>`.
   `decode chk` : chk = true is the overflow-checked build profile, chk = false the release profile.
   The model is the repaired list decoder (/repo commit e869325); the width-0 item types that made the
   round trip fail before (Vec<PhantomData<_>>, [PhantomData<_>; N], ...) are covered by the same theorems
   (see C03_roundtrip_width0). *)
From Coq Require Import ZArith NArith Bool List.
From TF Require Import Codec CodecProofs.
Import ListNotations.
Open Scope Z_scope.

(* decode (encode v) = v, for every type of the grammar (unbounded nesting) and both build profiles *)
Theorem C03_roundtrip : forall (chk : bool) (t : ty) (v : value),
  has_type t v = true -> zlen (encode t v) < 2 ^ 64 -> decode chk t (encode t v) = Ok v.
Proof. exact roundtrip. Qed.
Print Assumptions C03_roundtrip.
Example C03_roundtrip_hyp :
  has_type (TTuple [TVec TPhantom; TOption TU64]) (VList [VList [VUnit; VUnit]; VSome (VInt 4294967296)]) = true
  /\ encode (TTuple [TVec TPhantom; TOption TU64]) (VList [VList [VUnit; VUnit]; VSome (VInt 4294967296)]) = [3; 1; 0; 1; 1; 2].
Proof. split; reflexivity. Qed.

(* the class that failed before the repair: list items of encoded width 0 *)
Example C03_roundtrip_width0 :
  decode false (TVec TPhantom) [3] = Ok (VList [VUnit; VUnit; VUnit])
  /\ decode false (TVec TPhantom) [0] = Ok (VList [])
  /\ decode true (TArray 3 TPhantom) [] = Ok (VList [VUnit; VUnit; VUnit])
  /\ decode true (TArray 0 TPhantom) [] = Ok (VList [])
  /\ decode false (TVec (TU32s 0)) [2] = Ok (VList [VList []; VList []]).
Proof. repeat split; reflexivity. Qed.

(* any accepted sequence is THE encoding of the decoded value, and that value is well typed *)
Theorem C03_unique : forall (chk : bool) (t : ty) (s : list Z) (v : value),
  canon_seq s = true -> decode chk t s = Ok v -> has_type t v = true /\ encode t v = s.
Proof. exact unique_b. Qed.
Print Assumptions C03_unique.
Example C03_unique_hyp : canon_seq [2; 1; 7; 0] = true /\ decode false (TVec (TOption TU8)) [2; 2; 1; 7; 1; 0] = Ok (VList [VSome (VInt 7); VNone]).
Proof. split; reflexivity. Qed.

(* hence: encoding is injective, and no value has two accepted encodings *)
Theorem C03_encode_injective : forall (t : ty) (v1 v2 : value),
  has_type t v1 = true -> has_type t v2 = true -> zlen (encode t v1) < 2 ^ 64 -> encode t v1 = encode t v2 -> v1 = v2.
Proof. exact encode_injective. Qed.
Print Assumptions C03_encode_injective.

Theorem C03_one_accepted_encoding : forall (chk : bool) (t : ty) (s1 s2 : list Z) (v : value),
  canon_seq s1 = true -> canon_seq s2 = true -> decode chk t s1 = Ok v -> decode chk t s2 = Ok v -> s1 = s2.
Proof. exact decode_injective_b. Qed.
Print Assumptions C03_one_accepted_encoding.

(* a static length is the length of every encoding *)
Theorem C03_static_len : forall (t : ty) (n : Z) (v : value),
  static_length t = Some n -> has_type t v = true -> zlen (encode t v) = n.
Proof. exact static_len. Qed.
Print Assumptions C03_static_len.
Example C03_static_len_hyp : static_length (TStruct [TU64; TArray 5 TBfe; TPhantom]) = Some 7.
Proof. reflexivity. Qed.

(* documented layout.  component t v = the encoding of v, prefixed by its length iff t is dynamically sized *)
Theorem C03_layout_record : forall (ts : list ty) (vs : list value), length ts = length vs ->
  encode (TTuple ts) (VList vs) = concat (rev (map (fun tv => component (fst tv) (snd tv)) (combine ts vs)))
  /\ encode (TStruct ts) (VList vs) = concat (rev (map (fun tv => component (fst tv) (snd tv)) (combine ts vs))).
Proof. exact layout_record. Qed.
Print Assumptions C03_layout_record.

Theorem C03_layout_tuple3 : forall a b c x y z,
  encode (TTuple [a; b; c]) (VList [x; y; z]) = component c z ++ component b y ++ component a x.
Proof. exact layout_tuple3. Qed.
Print Assumptions C03_layout_tuple3.

Theorem C03_layout_vec : forall (t : ty) (l : list value),
  encode (TVec t) (VList l) = zlen l :: concat (map (component t) l).
Proof. exact layout_vec. Qed.
Print Assumptions C03_layout_vec.

Theorem C03_layout_array : forall (n : N) (t : ty) (l : list value),
  encode (TArray n t) (VList l) = concat (map (component t) l).
Proof. exact layout_array. Qed.
Print Assumptions C03_layout_array.

Theorem C03_layout_option : forall (t : ty) (v : value),
  encode (TOption t) VNone = [0] /\ encode (TOption t) (VSome v) = 1 :: encode t v.
Proof. exact layout_option. Qed.
Print Assumptions C03_layout_option.

Theorem C03_layout_poly : forall (t : ty) (l : list value), last_nonzero l = true ->
  encode (TPoly t) (VList l) = zlen (encode (TVec t) (VList l)) :: encode (TVec t) (VList l).
Proof. exact layout_poly. Qed.
Print Assumptions C03_layout_poly.

Theorem C03_layout_enum : forall vs d l fs, znth_opt d vs = Some fs -> length fs = length l ->
  encode (TEnum vs) (VEnum d l) = d :: concat (rev (map (fun tv => component (fst tv) (snd tv)) (combine fs l))).
Proof. exact layout_enum. Qed.
Print Assumptions C03_layout_enum.

Theorem C03_layout_u64 : forall z, encode TU64 (VInt z) = [z mod 4294967296; (z / 4294967296) mod 4294967296].
Proof. exact layout_u64. Qed.
Print Assumptions C03_layout_u64.

(* a polynomial is encoded through its normalised coefficients *)
Theorem C03_poly_normalised : forall (t : ty) (l : list value),
  encode (TPoly t) (VList l) = encode (TPoly t) (VList (strip_zeros l)).
Proof. exact encode_poly_normalises. Qed.
Print Assumptions C03_poly_normalised.
