(* props/C03.v - BFieldCodec: round trip, unique encoding, static length, documented layout.
   Statements only; every proof is `exact <lemma of proofs/CodecProofs.v>`. *)
From Coq Require Import ZArith NArith Bool List.
From TF Require Import Codec CodecProofs.
Import ListNotations.
Open Scope Z_scope.

(* decode (encode v) = v, for every type of the grammar and both build profiles *)
Theorem C03_roundtrip : forall (chk : bool) (t : ty) (v : value),
  has_type t v = true -> zlen (encode t v) < 2 ^ 64 -> decode chk t (encode t v) = Ok v.
Proof. exact roundtrip. Qed.
Print Assumptions C03_roundtrip.
Example C03_roundtrip_hyp :
  has_type (TTuple [TVec TPhantom; TOption TU64]) (VList [VList [VUnit; VUnit]; VSome (VInt 4294967296)]) = true
  /\ encode (TTuple [TVec TPhantom; TOption TU64]) (VList [VList [VUnit; VUnit]; VSome (VInt 4294967296)]) = [3; 1; 0; 1; 1; 2].
Proof. split; reflexivity. Qed.

(* a static length is the length of every encoding *)
Theorem C03_static_len : forall (t : ty) (n : Z) (v : value),
  static_length t = Some n -> has_type t v = true -> zlen (encode t v) = n.
Proof. exact static_len. Qed.
Print Assumptions C03_static_len.
