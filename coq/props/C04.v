(* props/C04.v - property C04: Merkle inclusion-proof verification is sound, exact and total.
   Only statements, each closed by `exact`, each followed by Print Assumptions.
   Model: model/Merkle.v (mt_leaf fixed: fixed = true is the current tree, after repair b29c426 of
   `first_leaf_index + index`; fixed = false the originally pinned tree).  Specification: spec/MerkleSpec.v. *)
From Coq Require Import ZArith Bool List.
From TF Require Import Merkle MerkleSpec MerkleProofs.
Import ListNotations.
Open Scope Z_scope.

(* ---- accessors: exact for every usize index in both build modes (current tree) *)
Theorem C04_accessors_total : forall (D : Type) (H : D -> D -> D) (dflt : D) (leafs : list D),
  is_pow2 (zlen leafs) = true -> zlen leafs <= 2 ^ 63 ->
  forall (m : mmode) (i : Z), 0 <= i ->
  mt_leaf D CUR_LEAF_FIXED m (spec_tree D H dflt leafs) i =
    Ok (if i <? zlen leafs then Some (znth D dflt leafs i) else None).
Proof. exact honest_leaf_fixed. Qed.
Print Assumptions C04_accessors_total.

Theorem C04_indexed_leafs_total : forall (D : Type) (H : D -> D -> D) (dflt : D) (leafs : list D),
  is_pow2 (zlen leafs) = true -> zlen leafs <= 2 ^ 63 ->
  forall (m : mmode) (idxs : list Z), (forall i, In i idxs -> 0 <= i) ->
  mt_indexed_leafs D CUR_LEAF_FIXED m (spec_tree D H dflt leafs) idxs =
    if forallb (fun i => i <? zlen leafs) idxs
    then Ok (map (fun i => (i, znth D dflt leafs i)) idxs) else Err.
Proof. exact honest_indexed_leafs_fixed. Qed.
Print Assumptions C04_indexed_leafs_total.

(* history: before b29c426 the same statement held only while first_leaf + i does not wrap *)
Theorem C04_accessors_v0_nowrap : forall (D : Type) (H : D -> D -> D) (dflt : D) (leafs : list D),
  is_pow2 (zlen leafs) = true ->
  forall (m : mmode) (i : Z), 0 <= i -> zlen leafs + i < USZ ->
  mt_leaf D false m (spec_tree D H dflt leafs) i =
    Ok (if i <? zlen leafs then Some (znth D dflt leafs i) else None).
Proof. exact honest_leaf_v0_nowrap. Qed.
Print Assumptions C04_accessors_v0_nowrap.

(* history: REFUTED for the variant before b29c426 (merkle-leaf-index-wrap): in release mode leaf(2^64 - 7)
   of an 8-leaf tree was the ROOT; in checked mode the same call panicked *)
Theorem C04_accessors_total_v0_refuted :
  exists (D : Type) (H : D -> D -> D) (dflt : D) (leafs : list D) (m : mmode) (i : Z),
    is_pow2 (zlen leafs) = true /\ zlen leafs <= 2 ^ 63 /\ 0 <= i < 2 ^ 64 /\
    mt_leaf D false m (spec_tree D H dflt leafs) i <>
      Ok (if i <? zlen leafs then Some (znth D dflt leafs i) else None).
Proof. exact accessors_total_v0_refuted. Qed.
Print Assumptions C04_accessors_total_v0_refuted.

Theorem C04_leaf_wrap_release_witness :
  mt_leaf term false Release wit_tree (2 ^ 64 - 7) = Ok (Some (znth term Dflt wit_tree 1)).
Proof. exact leaf_wrap_release_witness. Qed.
Print Assumptions C04_leaf_wrap_release_witness.

Theorem C04_leaf_wrap_checked_witness : mt_leaf term false Checked wit_tree (2 ^ 64 - 7) = Panic.
Proof. exact leaf_wrap_checked_witness. Qed.
Print Assumptions C04_leaf_wrap_checked_witness.

Theorem C04_accessors_mode_dependent_v0 :
  exists (D : Type) (H : D -> D -> D) (dflt : D) (leafs : list D) (i : Z),
    is_pow2 (zlen leafs) = true /\ 0 <= i < 2 ^ 64 /\
    mt_leaf D false Release (spec_tree D H dflt leafs) i <> mt_leaf D false Checked (spec_tree D H dflt leafs) i.
Proof. exact accessors_mode_dependent_v0. Qed.
Print Assumptions C04_accessors_mode_dependent_v0.

(* which variant the oracle runs as "the current /repo" *)
Theorem C04_model_variant : CUR_LEAF_FIXED = true.
Proof. exact (eq_refl true). Qed.
Print Assumptions C04_model_variant.
