(* props/C04.v - property C04: Merkle inclusion-proof verification is sound, exact and total.
   Only statements, each closed by `exact`, each followed by Print Assumptions.
   Model: model/Merkle.v (mt_leaf fixed: fixed = true is the current tree, after repair b29c426 of
   `first_leaf_index + index`; fixed = false the originally pinned tree).  Specification: spec/MerkleSpec.v. *)
From Coq Require Import ZArith Bool List.
From TF Require Import Merkle MerkleSpec MerkleGen MerkleProofs.
Import ListNotations.
Open Scope Z_scope.

(* ---- verification is exact: accepted iff the claimed leafs and the supplied digests, placed at the positions
   determined by the indices and the height, hash to the root using exactly the minimal node set.
   Any digest type with decidable equality, any pair hash; both build modes; all usize inputs. *)
Theorem C04_verify_iff : forall (D : Type) (H : D -> D -> D) (Deqb : D -> D -> bool) (dflt : D),
  (forall a b : D, Deqb a b = true <-> a = b) ->
  forall (m : mmode) (p : iproof D) (root : D), wf_proof D p ->
  (ip_verify D H Deqb m p root = Ok true <-> verify_spec D H dflt p root).
Proof. exact verify_iff_lemma. Qed.
Print Assumptions C04_verify_iff.

Example C04_verify_iff_accepts :
  let p := MkProof 3 [(0, Atom 0); (2, Atom 2)] [Atom 3; Atom 1; Node (Node (Atom 4) (Atom 5)) (Node (Atom 6) (Atom 7))] in
  wf_proof term p /\ ip_verify term Node term_eqb Release p (znth term Dflt wit_tree 1) = Ok true /\
  ip_verify term Node term_eqb Checked p (Atom 9) = Ok false.
Proof. cbv zeta. split; [split; [discriminate|]|split; vm_compute; reflexivity].
  intros i [<-|[<-|[]]]; discriminate. Qed.

(* ---- sound: an accepted non-trivial proof of the stated height against the root of an honestly built tree
   claims only actual leafs of that tree -- or a collision of H is exhibited *)
Theorem C04_sound : forall (D : Type) (H : D -> D -> D) (Deqb : D -> D -> bool) (dflt : D),
  (forall a b : D, Deqb a b = true <-> a = b) ->
  forall (m : mmode) (leafs : list D) (p : iproof D),
  0 <= ip_height p <= 31 -> zlen leafs = 2 ^ ip_height p -> wf_proof D p ->
  is_trivial D p = false ->
  ip_verify D H Deqb m p (znth D dflt (spec_tree D H dflt leafs) 1) = Ok true ->
  (forall i d, In (i, d) (ip_leafs p) -> i < zlen leafs /\ d = znth D dflt leafs i) \/ collision D H.
Proof. exact sound_lemma. Qed.
Print Assumptions C04_sound.

Example C04_sound_hyp :
  let p := MkProof 3 [(0, Atom 0); (2, Atom 2)] [Atom 3; Atom 1; Node (Node (Atom 4) (Atom 5)) (Node (Atom 6) (Atom 7))] in
  0 <= ip_height p <= 31 /\ zlen wit_leafs = 2 ^ ip_height p /\ wf_proof term p /\ is_trivial term p = false /\
  ip_verify term Node term_eqb Release p (znth term Dflt (spec_tree term Node Dflt wit_leafs) 1) = Ok true /\
  (forall i d, In (i, d) (ip_leafs p) -> i < zlen wit_leafs /\ d = znth term Dflt wit_leafs i).
Proof.
  cbv zeta. cbn [ip_height ip_leafs]. split; [split; discriminate|]. split; [reflexivity|].
  split; [split; [discriminate|intros i [<-|[<-|[]]]; discriminate]|]. split; [reflexivity|].
  split; [vm_compute; reflexivity|].
  intros i d [E|[E|[]]]; inversion E; subst; split; reflexivity.
Qed.

(* a wrong claim against the same root is rejected (and, by C04_sound, could only be accepted with a collision) *)
Example C04_sound_rejects_wrong_leaf :
  ip_verify term Node term_eqb Release
    (MkProof 3 [(0, Atom 0); (2, Atom 99)] [Atom 3; Atom 1; Node (Node (Atom 4) (Atom 5)) (Node (Atom 6) (Atom 7))])
    (znth term Dflt wit_tree 1) = Ok false.
Proof. vm_compute. reflexivity. Qed.

(* ---- total: verify returns a verdict, into_authentication_paths a list or an error; never a panic, never out of
   fuel; arbitrary usize height / indices / lengths; both build modes *)
Theorem C04_total : forall (D : Type) (H : D -> D -> D) (Deqb : D -> D -> bool) (dflt : D),
  (forall a b : D, Deqb a b = true <-> a = b) ->
  forall (m : mmode) (p : iproof D) (root : D), wf_proof D p ->
  (exists b, ip_verify D H Deqb m p root = Ok b) /\
  ((exists r, ip_into_authentication_paths D H Deqb m p = Ok r) \/
   ip_into_authentication_paths D H Deqb m p = Err).
Proof. exact total_lemma. Qed.
Print Assumptions C04_total.

Example C04_total_extremes :
  ip_verify term Node term_eqb Checked (MkProof (2 ^ 64 - 1) [(2 ^ 64 - 1, Atom 0)] [Atom 1]) Dflt = Ok false /\
  ip_verify term Node term_eqb Release (MkProof 31 [(2 ^ 31 - 1, Atom 0); (2 ^ 63, Atom 0)] []) Dflt = Ok false /\
  ip_into_authentication_paths term Node term_eqb Checked (MkProof 32 [] []) = Err /\
  ip_verify term Node term_eqb Checked (MkProof (2 ^ 63) [] []) Dflt = Ok true.
Proof. repeat split; vm_compute; reflexivity. Qed.

(* ---- paths_spec: path expansion succeeds exactly on structurally valid proofs and yields, per claimed leaf in
   the given order, the sibling digests of the partial tree from the leaf level upwards *)
Theorem C04_paths_spec : forall (D : Type) (H : D -> D -> D) (Deqb : D -> D -> bool) (dflt : D),
  (forall a b : D, Deqb a b = true <-> a = b) ->
  forall (m : mmode) (p : iproof D), wf_proof D p ->
  (structure_ok D p /\
   ip_into_authentication_paths D H Deqb m p =
     Ok (map (fun i => sibling_path D H dflt (2 ^ ip_height p) (ip_leafs p) (ip_auth p) (Z.to_nat (ip_height p))
                                    (2 ^ ip_height p + i) (Z.to_nat (ip_height p)))
             (map fst (ip_leafs p)))) \/
  (~ structure_ok D p /\ ip_into_authentication_paths D H Deqb m p = Err).
Proof. exact paths_spec_lemma. Qed.
Print Assumptions C04_paths_spec.

(* ---- accessors: exact for every usize index in both build modes (current tree) *)
Theorem C04_accessors_total : forall (D : Type) (H : D -> D -> D) (dflt : D) (leafs : list D),
  is_pow2 (zlen leafs) = true -> zlen leafs <= 2 ^ 63 ->
  forall (m : mmode) (i : Z), 0 <= i ->
  mt_leaf D CUR_LEAF_FIXED m (spec_tree D H dflt leafs) i =
    Ok (if i <? zlen leafs then Some (znth D dflt leafs i) else None).
Proof. exact honest_leaf_fixed. Qed.
Print Assumptions C04_accessors_total.

Theorem C04_indexed_leafs_total : forall (D : Type) (H : D -> D -> D) (dflt : D) (leafs : list D),
  is_pow2 (zlen leafs) = true -> zlen leafs <= 2 ^ 63 ->
  forall (m : mmode) (idxs : list Z), (forall i, In i idxs -> 0 <= i) ->
  mt_indexed_leafs D CUR_LEAF_FIXED m (spec_tree D H dflt leafs) idxs =
    if forallb (fun i => i <? zlen leafs) idxs
    then Ok (map (fun i => (i, znth D dflt leafs i)) idxs) else Err.
Proof. exact honest_indexed_leafs_fixed. Qed.
Print Assumptions C04_indexed_leafs_total.

(* history: before b29c426 the same statement held only while first_leaf + i does not wrap *)
Theorem C04_accessors_v0_nowrap : forall (D : Type) (H : D -> D -> D) (dflt : D) (leafs : list D),
  is_pow2 (zlen leafs) = true ->
  forall (m : mmode) (i : Z), 0 <= i -> zlen leafs + i < USZ ->
  mt_leaf D false m (spec_tree D H dflt leafs) i =
    Ok (if i <? zlen leafs then Some (znth D dflt leafs i) else None).
Proof. exact honest_leaf_v0_nowrap. Qed.
Print Assumptions C04_accessors_v0_nowrap.

(* history: REFUTED for the variant before b29c426 (merkle-leaf-index-wrap): in release mode leaf(2^64 - 7)
   of an 8-leaf tree was the ROOT; in checked mode the same call panicked *)
Theorem C04_accessors_total_v0_refuted :
  exists (D : Type) (H : D -> D -> D) (dflt : D) (leafs : list D) (m : mmode) (i : Z),
    is_pow2 (zlen leafs) = true /\ zlen leafs <= 2 ^ 63 /\ 0 <= i < 2 ^ 64 /\
    mt_leaf D false m (spec_tree D H dflt leafs) i <>
      Ok (if i <? zlen leafs then Some (znth D dflt leafs i) else None).
Proof. exact accessors_total_v0_refuted. Qed.
Print Assumptions C04_accessors_total_v0_refuted.

Theorem C04_leaf_wrap_release_witness :
  mt_leaf term false Release wit_tree (2 ^ 64 - 7) = Ok (Some (znth term Dflt wit_tree 1)).
Proof. exact leaf_wrap_release_witness. Qed.
Print Assumptions C04_leaf_wrap_release_witness.

Theorem C04_leaf_wrap_checked_witness : mt_leaf term false Checked wit_tree (2 ^ 64 - 7) = Panic.
Proof. exact leaf_wrap_checked_witness. Qed.
Print Assumptions C04_leaf_wrap_checked_witness.

Theorem C04_accessors_mode_dependent_v0 :
  exists (D : Type) (H : D -> D -> D) (dflt : D) (leafs : list D) (i : Z),
    is_pow2 (zlen leafs) = true /\ 0 <= i < 2 ^ 64 /\
    mt_leaf D false Release (spec_tree D H dflt leafs) i <> mt_leaf D false Checked (spec_tree D H dflt leafs) i.
Proof. exact accessors_mode_dependent_v0. Qed.
Print Assumptions C04_accessors_mode_dependent_v0.

(* which variant the oracle runs as "the current /repo" *)
Theorem C04_model_variant : CUR_LEAF_FIXED = true.
Proof. exact (eq_refl true). Qed.
Print Assumptions C04_model_variant.

(* the model variant / constants used above are the ones the translator reads from the current source
   (coq/gen/MerkleGen.v, regenerated on every run): a source change to `leaf`, the `while` guard, the default
   cutoff or the height limit makes this fail to compile *)
Theorem C04_model_matches_source : CUR_LEAF_FIXED = GEN_LEAF_CHECKED_ADD /\ MAX_TREE_HEIGHT = GEN_MAX_TREE_HEIGHT /\ GEN_ROOT_INDEX = 1.
Proof. exact (conj (proj1 model_matches_source) (conj (proj1 (proj2 (proj2 model_matches_source))) (proj1 (proj2 (proj2 (proj2 model_matches_source)))))). Qed.
Print Assumptions C04_model_matches_source.
