(* C05 - MMR membership proofs stay exact through every history; verification exact. *)
From Coq Require Import ZArith List Bool.
From TF Require Import Word MmrIdxLocal Mmr MmrSpec MmrTerm MmrProofs.
Import ListNotations.
Open Scope Z_scope.

Theorem C05_placeholder_bag : forall (D : Type) (H : D -> D -> D) (hash0 : D) (peaks : list D),
  bag_peaks D H hash0 peaks = bag_spec D H hash0 peaks.
Proof. exact bag_peaks_spec. Qed.
Print Assumptions C05_placeholder_bag.
