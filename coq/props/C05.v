(* C05 - MMR membership proofs stay exact through every history; verification exact.
   Model: coq/model/Mmr.v; specification: coq/spec/MmrSpec.v (path ls i = sibling digests from leaf i up to,
   excluding, its peak; mp_verify_spec = what verification has to decide). *)
From Coq Require Import ZArith List Bool.
From TF Require Import Word MmrIdxLocal Mmr MmrSpec MmrTerm MmrProofs MmrSmall MmrUpdates MmrBatch MmrHistory.
Import ListNotations.
Open Scope Z_scope.

(* verify_iff: for ALL u64 (index, count), any path and any peak list (of fewer than 2^32 digests, see
   ASSUMPTIONS) verification returns exactly: index < count /\ #peaks = #trees of count /\ |path| = height
   of the leaf's tree /\ hashing the leaf up the path gives the peak covering the index *)
Theorem C05_verify_iff : forall (D : Type) (H : D -> D -> D) (deq : D -> D -> bool) (dflt : D)
    (ap : list D) (i : Z) (leaf : D) (peaks : list D) (n : Z),
  0 <= i -> 0 <= n < 2 ^ 64 -> zlen peaks < 2 ^ 32 ->
  mp_verify D H deq ap i leaf peaks n = Some (mp_verify_spec D H deq dflt ap i leaf peaks n).
Proof. exact mp_verify_iff. Qed.
Print Assumptions C05_verify_iff.

Theorem C05_verify_never_panics : forall (D : Type) (H : D -> D -> D) (deq : D -> D -> bool) (dflt : D)
    (ap : list D) (i : Z) (leaf : D) (peaks : list D) (n : Z),
  0 <= i -> 0 <= n < 2 ^ 64 -> zlen peaks < 2 ^ 32 ->
  mp_verify D H deq ap i leaf peaks n <> None.
Proof. intros D H deq dflt. exact (mp_verify_total D H deq dflt). Qed.
Print Assumptions C05_verify_never_panics.

(* the authentication path of the specification verifies against the peaks of the specification *)
Theorem C05_path_verifies : forall (D : Type) (H : D -> D -> D) (deq : D -> D -> bool) (dflt : D),
  (forall x, deq x x = true) ->
  forall (ls : list D) (i : Z), 0 <= i < zlength ls -> zlength ls < 2 ^ 64 ->
  mp_verify D H deq (path D H dflt ls i) i (nth (Z.to_nat i) ls dflt) (peaks_spec D H dflt ls) (zlength ls) = Some true.
Proof. exact path_verifies. Qed.
Print Assumptions C05_path_verifies.

(* append returns the authentication path of the new leaf *)
Theorem C05_append_returns_path : forall (D : Type) (H : D -> D -> D) (dflt : D) (ls : list D) (d : D),
  zlength ls + 1 < 2 ^ 63 ->
  acc_append D H (zlength ls, peaks_spec D H dflt ls) d =
  Some ((zlength (ls ++ [d]), peaks_spec D H dflt (ls ++ [d])), path D H dflt (ls ++ [d]) (zlength ls)).
Proof. exact acc_append_spec. Qed.
Print Assumptions C05_append_returns_path.

Example C05_verify_example :
  mp_verify term Node term_eqb [Atom 3; Node (Atom 0) (Atom 1)] 2 (Atom 2)
            [Node (Node (Atom 0) (Atom 1)) (Node (Atom 2) (Atom 3)); Atom 4] 5 = Some true /\
  mp_verify term Node term_eqb [Atom 3] 2 (Atom 2)
            [Node (Node (Atom 0) (Atom 1)) (Node (Atom 2) (Atom 3)); Atom 4] 5 = Some false.
Proof. vm_compute. split; reflexivity. Qed.

(* FULL statement for the append routines (update_from_append, batch_update_from_append): still open - they
   use further index functions (node_indices_added_by_append, get_authentication_path_node_indices,
   get_peak_heights_and_peak_node_indices); covered by the bounded theorem C05_update_from_append_small_partial,
   by the correspondence on histories and by the oracle's SPECDIFF checks. *)
Definition C05_update_from_append_full : Prop :=
  forall (D : Type) (H : D -> D -> D) (dflt : D) (ls : list D) (d : D) (i : Z),
    0 <= i < zlength ls -> zlength ls + 1 < 2 ^ 63 ->
    update_from_append D H (path D H dflt ls i) i (zlength ls) d (peaks_spec D H dflt ls) =
    Some (path D H dflt (ls ++ [d]) i,
          negb (zlength (path D H dflt (ls ++ [d]) i) =? zlength (path D H dflt ls i))).

(* single leaf mutation, proved in general: both routines turn the authentication path of leaf i in ls into
   its authentication path in (upd ls j d) - exactness, hence verification against the new peaks
   (C05_path_verifies); the batch routine reports exactly the positions whose path changed (md_spec) *)
Theorem C05_update_from_leaf_mutation : forall (D : Type) (H : D -> D -> D) (dflt : D) (ls : list D) (i j : Z) (d : D),
  0 <= i < zlength ls -> 0 <= j < zlength ls -> zlength ls < 2 ^ 63 ->
  exists b, update_from_leaf_mutation D H (path D H dflt ls i) i (j, d, path D H dflt ls j) =
            Some (path D H dflt (upd ls j d) i, b).
Proof. exact update_from_leaf_mutation_spec. Qed.
Print Assumptions C05_update_from_leaf_mutation.

Theorem C05_batch_update_from_leaf_mutation : forall (D : Type) (H : D -> D -> D) (deq : D -> D -> bool) (dflt : D),
  (forall x y, deq x y = true <-> x = y) ->
  forall (ls : list D) (j : Z) (d : D) (idxs : list Z),
    0 <= j < zlength ls -> zlength ls < 2 ^ 63 -> Forall (fun i => 0 <= i < zlength ls) idxs ->
    exists md,
      batch_update_from_leaf_mutation D H deq (map (path D H dflt ls) idxs) idxs (j, d, path D H dflt ls j) =
      Some (map (path D H dflt (upd ls j d)) idxs, md) /\
      md_spec D H dflt ls (upd ls j d) 0 idxs md.
Proof. exact batch_update_from_leaf_mutation_spec. Qed.
Print Assumptions C05_batch_update_from_leaf_mutation.

(* the two batch-mutation routines, proved in general: for distinct in-range mutated leaves (proofs valid
   prior to the batch, any order) and any tracked leaves (any order, repeats allowed), every tracked proof
   becomes exactly the authentication path in the mutated list and the returned `modified` list is exactly
   the list of positions whose proof changed, ascending and without repeats (md_spec, MmrUpdates.v);
   batch_mutate_leaf_and_update_mps also yields the peaks built from scratch *)
Theorem C05_batch_update_from_batch_leaf_mutation : forall (D : Type) (H : D -> D -> D) (deq : D -> D -> bool) (dflt : D),
  (forall x y, deq x y = true <-> x = y) ->
  forall (ls : list D), zlength ls < 2 ^ 63 ->
  forall (ms : list (Z * D)) (idxs : list Z),
    inrange D ls ms -> distinctb (map fst ms) = true -> Forall (fun i => 0 <= i < zlength ls) idxs ->
    exists md,
      batch_update_from_batch_leaf_mutation D H deq (map (path D H dflt ls) idxs) idxs (with_proofs D H dflt ls ms) =
      Some (map (path D H dflt (apply_muts D ls ms)) idxs, md) /\
      md_spec D H dflt ls (apply_muts D ls ms) 0 idxs md.
Proof. exact bubm_spec. Qed.
Print Assumptions C05_batch_update_from_batch_leaf_mutation.

Theorem C05_batch_mutate_leaf_and_update_mps : forall (D : Type) (H : D -> D -> D) (deq : D -> D -> bool) (dflt : D),
  (forall x y, deq x y = true <-> x = y) ->
  forall (ls : list D), zlength ls < 2 ^ 63 ->
  forall (ms : list (Z * D)) (idxs : list Z),
    inrange D ls ms -> distinctb (map fst ms) = true -> Forall (fun i => 0 <= i < zlength ls) idxs ->
    exists md,
      batch_mutate_leaf_and_update_mps D H deq (zlength ls, peaks_spec D H dflt ls)
        (map (path D H dflt ls) idxs) idxs (with_proofs D H dflt ls ms) =
      Some ((zlength ls, peaks_spec D H dflt (apply_muts D ls ms)),
            map (path D H dflt (apply_muts D ls ms)) idxs, md) /\
      md_spec D H dflt ls (apply_muts D ls ms) 0 idxs md.
Proof. exact bmlu_spec. Qed.
Print Assumptions C05_batch_mutate_leaf_and_update_mps.

(* history_inv, FULL statement: the invariant `tinv` (accumulator commits to the list; every tracked proof is
   the authentication path of its leaf) is preserved by every valid history of tracked operations
   (tstate / top / tstep / trun / tinv in proofs/MmrHistory.v: appends through batch_update_from_append,
   mutations through batch_update_from_leaf_mutation + mutate_leaf, batches through
   batch_mutate_leaf_and_update_mps) *)
Definition C05_history_inv_full : Prop :=
  forall (D : Type) (H : D -> D -> D) (deq : D -> D -> bool) (dflt : D),
    (forall x y, deq x y = true <-> x = y) ->
    forall (ops : list (top D)) (st : tstate D) (ls : list D),
      tinv D H dflt st ls -> zlength ls < 2 ^ 63 -> mops_valid D H dflt ls (map (terase D) ops) ->
      exists st', trun D H deq st ops = Some st' /\
                  tinv D H dflt st' (run D ls (map (erase D) (map (terase D) ops))).

(* PARTIAL: history_inv is proved MODULO one statement, `append_exact` (batch_update_from_append yields the
   paths in the list with one more leaf - the still open general form of C05_update_from_append_small_partial);
   the mutation and batch-mutation steps are unconditional *)
Theorem C05_history_inv_modulo_append_partial : forall (D : Type) (H : D -> D -> D) (deq : D -> D -> bool) (dflt : D),
  (forall x y, deq x y = true <-> x = y) ->
  append_exact D H dflt ->
  forall (ops : list (top D)) (st : tstate D) (ls : list D),
    tinv D H dflt st ls -> zlength ls < 2 ^ 63 -> mops_valid D H dflt ls (map (terase D) ops) ->
    exists st', trun D H deq st ops = Some st' /\
                tinv D H dflt st' (run D ls (map (erase D) (map (terase D) ops))).
Proof. exact history_inv. Qed.
Print Assumptions C05_history_inv_modulo_append_partial.

(* PARTIAL stand-ins (bounded exhaustive, free hash with pairwise distinct leafs, by vm_compute; the checked
   predicates are in proofs/MmrSmall.v):
   append_case n    - n leafs, all tracked: update_from_append on each proof and batch_update_from_append on
                      all give exactly the paths in the list with one more leaf; flags / `modified` = exactly
                      the changed ones;
   mutation_case n  - every mutated leaf j (fresh value, or the old value) x every tracked leaf:
                      update_from_leaf_mutation, batch_update_from_leaf_mutation,
                      batch_update_from_batch_leaf_mutation [one mutation] give exactly the new paths,
                      `modified` exact for the batch routines and never missing a change for the single one;
                      mutate_leaf gives the new peaks;
   batch_case n     - every ordered list of 1..3 distinct mutated leaves, all leaves tracked:
                      batch_mutate_leaf_and_update_mps gives new peaks, new paths and the exact `modified`,
                      batch_update_from_batch_leaf_mutation likewise, verify_batch_update accepts the right
                      peaks and rejects wrong ones. *)
Theorem C05_update_from_append_small_partial : forall n : nat, (n <= 48)%nat -> append_case n = true.
Proof. exact append_case_small. Qed.
Print Assumptions C05_update_from_append_small_partial.

Theorem C05_update_from_leaf_mutation_small_partial : forall n : nat, (n <= 20)%nat -> mutation_case n = true.
Proof. exact mutation_case_small. Qed.
Print Assumptions C05_update_from_leaf_mutation_small_partial.

Theorem C05_batch_mutation_small_partial : forall n : nat, (n <= 10)%nat -> batch_case n = true.
Proof. exact batch_case_small. Qed.
Print Assumptions C05_batch_mutation_small_partial.
