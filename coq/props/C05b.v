(* C05b - the append side of C05 in general (deepening of props/C05.v, whose `C05_update_from_append_full` and
   `C05_history_inv_full` were open statements).  Model: coq/model/Mmr.v; specification: coq/spec/MmrSpec.v;
   proofs: coq/proofs/MmrAppend.v. *)
From Coq Require Import ZArith List Bool.
From TF Require Import Word MmrIndexGen MmrIndex MmrIdxLocal Mmr MmrSpec MmrTerm MmrNodes MmrProofs MmrUpdates MmrBatch MmrHistory MmrAppend MmrIdxTie.
Import ListNotations.
Open Scope Z_scope.

(* update_from_append, for every leaf count below 2^63 - 1: the authentication path of leaf i in the MMR of
   `ls`, passed through the routine together with the appended leaf d and the old peaks, becomes exactly the
   authentication path of leaf i in the MMR of `ls ++ [d]`, and the returned flag is true exactly if the path
   changed (it changes exactly by getting longer).  This is the statement C05_update_from_append_full of
   props/C05.v, verbatim. *)
Theorem C05_update_from_append : forall (D : Type) (H : D -> D -> D) (dflt : D) (ls : list D) (d : D) (i : Z),
  0 <= i < zlength ls -> zlength ls + 1 < 2 ^ 63 ->
  update_from_append D H (path D H dflt ls i) i (zlength ls) d (peaks_spec D H dflt ls) =
  Some (path D H dflt (ls ++ [d]) i,
        negb (zlength (path D H dflt (ls ++ [d]) i) =? zlength (path D H dflt ls i))).
Proof. exact update_from_append_spec. Qed.
Print Assumptions C05_update_from_append.

Example C05_update_from_append_example :
  update_from_append term Node [Atom 1] 0 3 (Atom 3) [Node (Atom 0) (Atom 1); Atom 2] =
  Some ([Atom 1; Node (Atom 2) (Atom 3)], true) /\
  update_from_append term Node [Atom 1] 0 2 (Atom 2) [Node (Atom 0) (Atom 1)] = Some ([Atom 1], false).
Proof. vm_compute. split; reflexivity. Qed.

(* batch_update_from_append: any list of tracked leaves (any order, repeats allowed): every proof becomes the
   authentication path in the list with one more leaf, and the returned `modified` list is exactly the list
   of positions whose proof changed, ascending (md_spec, proofs/MmrUpdates.v) *)
Theorem C05_batch_update_from_append : forall (D : Type) (H : D -> D -> D) (dflt : D) (ls : list D) (d : D) (idxs : list Z),
  zlength ls + 1 < 2 ^ 63 -> Forall (fun i => 0 <= i < zlength ls) idxs ->
  exists md, batch_update_from_append D H (map (path D H dflt ls) idxs) idxs (zlength ls) d (peaks_spec D H dflt ls) =
             Some (map (path D H dflt (ls ++ [d])) idxs, md) /\
             md_spec D H dflt ls (ls ++ [d]) 0 idxs md.
Proof. exact batch_update_from_append_spec. Qed.
Print Assumptions C05_batch_update_from_append.

Example C05_batch_update_from_append_example :
  batch_update_from_append term Node [[Atom 1]; [Atom 0]; []] [0; 1; 2] 3 (Atom 3) [Node (Atom 0) (Atom 1); Atom 2] =
  Some ([[Atom 1; Node (Atom 2) (Atom 3)]; [Atom 0; Node (Atom 2) (Atom 3)]; [Atom 3; Node (Atom 0) (Atom 1)]], [0; 1; 2]).
Proof. vm_compute. reflexivity. Qed.

(* history_inv, FULL (the statement C05_history_inv_full of props/C05.v, verbatim): the invariant `tinv`
   (accumulator commits to the list; every tracked proof is THE authentication path of its leaf) is preserved
   by every valid history of tracked operations - appends through batch_update_from_append, mutations through
   batch_update_from_leaf_mutation + mutate_leaf, batches through batch_mutate_leaf_and_update_mps.  The
   hypothesis `append_exact` of C05_history_inv_modulo_append_partial is discharged. *)
Theorem C05_append_exact : forall (D : Type) (H : D -> D -> D) (dflt : D), append_exact D H dflt.
Proof. exact append_exact_holds. Qed.
Print Assumptions C05_append_exact.

Theorem C05_history_inv : forall (D : Type) (H : D -> D -> D) (deq : D -> D -> bool) (dflt : D),
  (forall x y, deq x y = true <-> x = y) ->
  forall (ops : list (top D)) (st : tstate D) (ls : list D),
    tinv D H dflt st ls -> zlength ls < 2 ^ 63 -> mops_valid D H dflt ls (map (terase D) ops) ->
    exists st', trun D H deq st ops = Some st' /\
                tinv D H dflt st' (run D ls (map (erase D) (map (terase D) ops))).
Proof. exact history_inv_full. Qed.
Print Assumptions C05_history_inv.

(* the index functions behind the append routines, in terms of the block numbering
   bidx a h = node index of the perfect subtree of height h over the leaves [a * 2^h, (a+1) * 2^h) *)
Theorem C05_node_indices_added_by_append : forall (n : Z) (t : nat) (q : Z),
  0 <= q -> n + 1 = (2 * q + 1) * 2 ^ Z.of_nat t -> n + 1 < 2 ^ 63 ->
  node_indices_added_by_append n = Some (bidx n 0 :: dp_nodes_from n 0 t).
Proof. intros n t q Hq E Hn. exact (added_spec n t q (conj Hq E) Hn). Qed.
Print Assumptions C05_node_indices_added_by_append.

Theorem C05_peak_heights_and_indices : forall n, 0 <= n < 2 ^ 63 ->
  peak_heights_and_indices n = Some (map pk_entry (pbl64 n)).
Proof. exact peak_heights_and_indices_spec. Qed.
Print Assumptions C05_peak_heights_and_indices.

(* the index functions of the MMR model are the REGENERATED ones: every index function of model/MmrIdxLocal.v
   (the hand-written functions model/Mmr.v calls) equals, on ALL u64 arguments and including the panic / overflow
   outcome None, the corresponding function of C16 - the straight-line functions of gen/MmrIndexGen.v (translated
   from shared_basic.rs / shared_advanced.rs on every run) guarded by their generated side conditions f_ok, and
   the loops of model/MmrIndex.v around them.  So every C05 theorem (props/C05.v, props/C05b.v) is a theorem about the index code of the
   current source: a change of an index function in /repo changes gen/MmrIndexGen.v and this theorem has to be
   re-proved against it. *)
Theorem C05_index_functions_regenerated :
  (forall i n, 0 <= i -> 0 <= n < 2 ^ 64 -> li_mt_pk i n = mm_leaf_index_to_mt_index_and_peak_index i n) /\
  (forall i, 0 <= i < 2 ^ 64 -> rll_leaf i = mm_right_lineage_length_from_leaf_index i) /\
  (forall x, 0 <= x < 2 ^ 64 -> MmrIdxLocal.leftmost_ancestor x = mm_leftmost_ancestor x) /\
  (forall i, 0 <= i < 2 ^ 64 -> l2n i = mm_leaf_index_to_node_index i) /\
  (forall n, 0 <= n < 2 ^ 64 -> num_nodes n = mm_num_leafs_to_num_nodes n) /\
  (forall x h, 0 <= x < 2 ^ 64 -> 0 <= h < 2 ^ 32 -> MmrIdxLocal.left_sibling x h = mm_left_sibling x h) /\
  (forall x h, 0 <= x < 2 ^ 64 -> 0 <= h < 2 ^ 32 -> MmrIdxLocal.right_sibling x h = mm_right_sibling x h) /\
  (forall x, 0 <= x < 2 ^ 64 -> rll_and_height x = mm_right_lineage_length_and_own_height x) /\
  (forall x, 0 <= x < 2 ^ 64 -> rll_node x = mm_right_lineage_length_from_node_index x) /\
  (forall x, 0 <= x < 2 ^ 64 -> parent x = mm_parent x) /\
  (forall n, 0 <= n < 2 ^ 64 -> node_indices_added_by_append n = mm_node_indices_added_by_append n) /\
  (forall start peak nc, 0 <= start < 2 ^ 64 ->
     get_authentication_path_node_indices start peak nc = mm_get_authentication_path_node_indices start peak nc) /\
  (forall n, 0 <= n < 2 ^ 64 ->
     mm_get_peak_heights_and_peak_node_indices n =
     match peak_heights_and_indices n with Some l => Some (map fst l, map snd l) | None => None end).
Proof. exact index_functions_regenerated. Qed.
Print Assumptions C05_index_functions_regenerated.

(* the parent / sibling step written inline in the update routines, in terms of the regenerated functions *)
Theorem C05_up_info_regenerated : forall x, 0 <= x < 2 ^ 64 ->
  up_info x =
  match mm_right_lineage_length_and_own_height x with
  | None => None
  | Some (rac, h) =>
      if negb (rac =? 0)
      then let? s := mm_left_sibling x h in let? p := add64 x 1 in Some (true, s, p)
      else let? s := mm_right_sibling x h in let? q := shl1 (h + 1) in let? p := add64 x q in Some (false, s, p)
  end.
Proof. exact tie_up_info. Qed.
Print Assumptions C05_up_info_regenerated.

Theorem C05_step_up_regenerated : forall x, 0 <= x < 2 ^ 64 ->
  step_up x =
  match mm_right_lineage_length_and_own_height x with
  | None => None
  | Some (rac, h) =>
      if negb (rac =? 0) then let? p := add64 x 1 in Some (true, p)
      else let? q := shl1 (h + 1) in let? p := add64 x q in Some (false, p)
  end.
Proof. exact tie_step_up. Qed.
Print Assumptions C05_step_up_regenerated.
