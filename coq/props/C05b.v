(* C05b - the append side of C05 in general (deepening of props/C05.v, whose `C05_update_from_append_full` and
   `C05_history_inv_full` were open statements).  Model: coq/model/Mmr.v; specification: coq/spec/MmrSpec.v;
   proofs: coq/proofs/MmrAppend.v. *)
From Coq Require Import ZArith List Bool.
From TF Require Import Word MmrIdxLocal Mmr MmrSpec MmrTerm MmrNodes MmrProofs MmrUpdates MmrBatch MmrHistory MmrAppend.
Import ListNotations.
Open Scope Z_scope.

(* update_from_append, for every leaf count below 2^63 - 1: the authentication path of leaf i in the MMR of
   `ls`, passed through the routine together with the appended leaf d and the old peaks, becomes exactly the
   authentication path of leaf i in the MMR of `ls ++ [d]`, and the returned flag is true exactly if the path
   changed (it changes exactly by getting longer).  This is the statement C05_update_from_append_full of
   props/C05.v, verbatim. *)
Theorem C05_update_from_append : forall (D : Type) (H : D -> D -> D) (dflt : D) (ls : list D) (d : D) (i : Z),
  0 <= i < zlength ls -> zlength ls + 1 < 2 ^ 63 ->
  update_from_append D H (path D H dflt ls i) i (zlength ls) d (peaks_spec D H dflt ls) =
  Some (path D H dflt (ls ++ [d]) i,
        negb (zlength (path D H dflt (ls ++ [d]) i) =? zlength (path D H dflt ls i))).
Proof. exact update_from_append_spec. Qed.
Print Assumptions C05_update_from_append.

Example C05_update_from_append_example :
  update_from_append term Node [Atom 1] 0 3 (Atom 3) [Node (Atom 0) (Atom 1); Atom 2] =
  Some ([Atom 1; Node (Atom 2) (Atom 3)], true) /\
  update_from_append term Node [Atom 1] 0 2 (Atom 2) [Node (Atom 0) (Atom 1)] = Some ([Atom 1], false).
Proof. vm_compute. split; reflexivity. Qed.

(* batch_update_from_append: any list of tracked leaves (any order, repeats allowed): every proof becomes the
   authentication path in the list with one more leaf, and the returned `modified` list is exactly the list
   of positions whose proof changed, ascending (md_spec, proofs/MmrUpdates.v) *)
Theorem C05_batch_update_from_append : forall (D : Type) (H : D -> D -> D) (dflt : D) (ls : list D) (d : D) (idxs : list Z),
  zlength ls + 1 < 2 ^ 63 -> Forall (fun i => 0 <= i < zlength ls) idxs ->
  exists md, batch_update_from_append D H (map (path D H dflt ls) idxs) idxs (zlength ls) d (peaks_spec D H dflt ls) =
             Some (map (path D H dflt (ls ++ [d])) idxs, md) /\
             md_spec D H dflt ls (ls ++ [d]) 0 idxs md.
Proof. exact batch_update_from_append_spec. Qed.
Print Assumptions C05_batch_update_from_append.

(* history_inv, FULL (the statement C05_history_inv_full of props/C05.v, verbatim): the invariant `tinv`
   (accumulator commits to the list; every tracked proof is THE authentication path of its leaf) is preserved
   by every valid history of tracked operations - appends through batch_update_from_append, mutations through
   batch_update_from_leaf_mutation + mutate_leaf, batches through batch_mutate_leaf_and_update_mps.  The
   hypothesis `append_exact` of C05_history_inv_modulo_append_partial is discharged. *)
Theorem C05_append_exact : forall (D : Type) (H : D -> D -> D) (dflt : D), append_exact D H dflt.
Proof. exact append_exact_holds. Qed.
Print Assumptions C05_append_exact.

Theorem C05_history_inv : forall (D : Type) (H : D -> D -> D) (deq : D -> D -> bool) (dflt : D),
  (forall x y, deq x y = true <-> x = y) ->
  forall (ops : list (top D)) (st : tstate D) (ls : list D),
    tinv D H dflt st ls -> zlength ls < 2 ^ 63 -> mops_valid D H dflt ls (map (terase D) ops) ->
    exists st', trun D H deq st ops = Some st' /\
                tinv D H dflt st' (run D ls (map (erase D) (map (terase D) ops))).
Proof. exact history_inv_full. Qed.
Print Assumptions C05_history_inv.

(* the index functions behind the append routines, in terms of the block numbering
   bidx a h = node index of the perfect subtree of height h over the leaves [a * 2^h, (a+1) * 2^h) *)
Theorem C05_node_indices_added_by_append : forall (n : Z) (t : nat) (q : Z),
  0 <= q -> n + 1 = (2 * q + 1) * 2 ^ Z.of_nat t -> n + 1 < 2 ^ 63 ->
  node_indices_added_by_append n = Some (bidx n 0 :: dp_nodes_from n 0 t).
Proof. intros n t q Hq E Hn. exact (added_spec n t q (conj Hq E) Hn). Qed.
Print Assumptions C05_node_indices_added_by_append.

Theorem C05_peak_heights_and_indices : forall n, 0 <= n < 2 ^ 63 ->
  peak_heights_and_indices n = Some (map pk_entry (pbl64 n)).
Proof. exact peak_heights_and_indices_spec. Qed.
Print Assumptions C05_peak_heights_and_indices.
