(* C05c - leaf mutation and batch leaf mutation of MMR membership proofs IN GENERAL: every leaf list with fewer
   than 2^63 leaves, every index, every digest, free hash H.  Deepening of props/C05.v: it supersedes
   C05_update_from_leaf_mutation_small_partial (n <= 20) and C05_batch_mutation_small_partial (n <= 10), fixes
   the flag that C05_update_from_leaf_mutation left existential, and adds the `validity form`: the theorems
   hold for EVERY membership proof that verifies, not only for the authentication path `path ls i` of the
   specification (this needs a collision-free H, stated as the hypothesis
   forall a b c e, H a b = H c e -> a = c /\ b = e; the free term algebra term / Node is an instance).
   Model: coq/model/Mmr.v; specification: coq/spec/MmrSpec.v; proofs: coq/proofs/MmrMutate.v, MmrBatchGen.v.

   Vocabulary (all defined in the two proof files, a few lines each):
     peak_pos n i        position, in the peak list of an MMR with n leaves, of the peak above leaf i (= fst (fst (locate n i)))
     same_peak n i j     peak_pos n i =? peak_pos n j
     uflm_flag n i j     negb (i =? j) && same_peak n i j      (j is ANOTHER leaf of the tree of leaf i)
     lm_index lm         leaf index of a LeafMutation (leaf_index, new_leaf, membership_proof)
     proofs_valid ls mps idxs   Forall2: 0 <= i and mp_verify ap i (leaf i of ls) (peaks of ls) (length ls) = Some true
     muts_valid ls lms          Forall : 0 <= index and the mutation's proof verifies for the leaf it replaces
     md_fun p old new    ascending list of the positions p, p+1, ... at which the proof lists old / new differ *)
From Coq Require Import ZArith List Bool.
From TF Require Import Word MmrIdxLocal Mmr MmrSpec MmrTerm MmrNodes MmrProofs MmrUpdates MmrBatch MmrSmall MmrMutate MmrBatchGen MmrAllSizes.
Import ListNotations.
Open Scope Z_scope.

(* ------------------------------------------------------------------------------------------------------------
   1. single leaf mutation, for the authentication paths of the specification and ANY hash function *)

(* update_from_leaf_mutation turns the path of leaf i in ls into its path in (upd ls j d) and returns exactly
   uflm_flag; a false flag means that the path did not change (the routine never misses a change) *)
Theorem C05_update_from_leaf_mutation_flag : forall (D : Type) (H : D -> D -> D) (dflt : D) (ls : list D) (i j : Z) (d : D),
  0 <= i < zlength ls -> 0 <= j < zlength ls -> zlength ls < 2 ^ 63 ->
  update_from_leaf_mutation D H (path D H dflt ls i) i (j, d, path D H dflt ls j) =
  Some (path D H dflt (upd ls j d) i, uflm_flag (zlength ls) i j) /\
  (uflm_flag (zlength ls) i j = false -> path D H dflt (upd ls j d) i = path D H dflt ls i).
Proof. exact update_from_leaf_mutation_flag. Qed.
Print Assumptions C05_update_from_leaf_mutation_flag.

(* what same_peak means: the two leaves lie in the same aligned block of 2^h leaves, h the height of i's tree *)
Theorem C05_same_peak_block : forall n i j, 0 <= i < n -> 0 <= j < n -> n < 2 ^ 64 ->
  (same_peak n i j = true <-> i / 2 ^ Z.of_nat (hgt n i) = j / 2 ^ Z.of_nat (hgt n i)).
Proof. exact same_peak_block. Qed.
Print Assumptions C05_same_peak_block.

(* for a collision-free hash and a leaf value that really changes, the flag is true EXACTLY if the path changes
   (for d equal to the old leaf the routine still returns true for another leaf of the same tree) *)
Theorem C05_update_from_leaf_mutation_flag_exact : forall (D : Type) (H : D -> D -> D) (dflt : D),
  (forall a b c e, H a b = H c e -> a = c /\ b = e) ->
  forall (ls : list D) (i j : Z) (d : D),
  0 <= i < zlength ls -> 0 <= j < zlength ls -> zlength ls < 2 ^ 63 -> d <> nth (Z.to_nat j) ls dflt ->
  (uflm_flag (zlength ls) i j = true <-> path D H dflt (upd ls j d) i <> path D H dflt ls i).
Proof. exact uflm_flag_changed. Qed.
Print Assumptions C05_update_from_leaf_mutation_flag_exact.

Example C05_update_from_leaf_mutation_flag_example :
  let ls := [Atom 0; Atom 1; Atom 2; Atom 3; Atom 4] in
  path term Node Dflt ls 0 = [Atom 1; Node (Atom 2) (Atom 3)] /\
  path term Node Dflt ls 2 = [Atom 3; Node (Atom 0) (Atom 1)] /\
  update_from_leaf_mutation term Node [Atom 1; Node (Atom 2) (Atom 3)] 0 (2, Atom 9, [Atom 3; Node (Atom 0) (Atom 1)]) =
    Some ([Atom 1; Node (Atom 9) (Atom 3)], true) /\
  uflm_flag 5 0 2 = true /\ uflm_flag 5 0 4 = false /\ uflm_flag 5 0 0 = false /\
  (* the flag is true although nothing changes when the `new` leaf is the old one *)
  update_from_leaf_mutation term Node [Atom 1; Node (Atom 2) (Atom 3)] 0 (2, Atom 2, [Atom 3; Node (Atom 0) (Atom 1)]) =
    Some ([Atom 1; Node (Atom 2) (Atom 3)], true).
Proof. vm_compute. repeat split; reflexivity. Qed.

(* ------------------------------------------------------------------------------------------------------------
   2. soundness of verification for a collision-free hash: what verifies IS the leaf and its path *)
Theorem C05_verify_sound : forall (D : Type) (H : D -> D -> D) (deq : D -> D -> bool) (dflt : D),
  (forall x y, deq x y = true <-> x = y) ->
  (forall a b c e, H a b = H c e -> a = c /\ b = e) ->
  forall (ls : list D) (ap : list D) (i : Z) (x : D), zlength ls < 2 ^ 64 -> 0 <= i ->
  mp_verify D H deq ap i x (peaks_spec D H dflt ls) (zlength ls) = Some true ->
  0 <= i < zlength ls /\ x = nth (Z.to_nat i) ls dflt /\ ap = path D H dflt ls i.
Proof. exact verify_sound. Qed.
Print Assumptions C05_verify_sound.

(* the hypotheses on deq and H are satisfiable: the free hash *)
Example C05_free_hash_instance :
  (forall x y, term_eqb x y = true <-> x = y) /\ (forall a b c e, Node a b = Node c e -> a = c /\ b = e).
Proof. split; [exact mmr_term_eqb_spec|exact mmr_Node_inj]. Qed.

(* ------------------------------------------------------------------------------------------------------------
   3. single leaf mutation, validity form: every proof `ap` that verifies for leaf i and every proof `lm_ap`
   that verifies for the mutated leaf j: the accumulator gets the peaks of (upd ls j d), the updated proof
   verifies against them, the flag is uflm_flag, false flag = untouched proof, and for a really new leaf value
   the flag says exactly whether the proof changed *)
Theorem C05_leaf_mutation_keeps_valid : forall (D : Type) (H : D -> D -> D) (deq : D -> D -> bool) (dflt : D),
  (forall x y, deq x y = true <-> x = y) ->
  (forall a b c e, H a b = H c e -> a = c /\ b = e) ->
  forall (ls : list D) (i j : Z) (d : D) (ap lm_ap : list D),
  zlength ls < 2 ^ 63 -> 0 <= i -> 0 <= j ->
  mp_verify D H deq ap i (nth (Z.to_nat i) ls dflt) (peaks_spec D H dflt ls) (zlength ls) = Some true ->
  mp_verify D H deq lm_ap j (nth (Z.to_nat j) ls dflt) (peaks_spec D H dflt ls) (zlength ls) = Some true ->
  exists ap',
    update_from_leaf_mutation D H ap i (j, d, lm_ap) = Some (ap', uflm_flag (zlength ls) i j) /\
    acc_mutate_leaf D H (zlength ls, peaks_spec D H dflt ls) (j, d, lm_ap) =
      Some (zlength ls, peaks_spec D H dflt (upd ls j d)) /\
    mp_verify D H deq ap' i (nth (Z.to_nat i) (upd ls j d) dflt) (peaks_spec D H dflt (upd ls j d)) (zlength ls) = Some true /\
    (uflm_flag (zlength ls) i j = false -> ap' = ap) /\
    (d <> nth (Z.to_nat j) ls dflt -> (uflm_flag (zlength ls) i j = true <-> ap' <> ap)).
Proof. exact leaf_mutation_keeps_valid. Qed.
Print Assumptions C05_leaf_mutation_keeps_valid.

Example C05_leaf_mutation_keeps_valid_example :
  let ls := [Atom 0; Atom 1; Atom 2; Atom 3; Atom 4] in
  let ls' := upd ls 2 (Atom 9) in
  (* hypotheses *)
  zlength ls < 2 ^ 63 /\
  mp_verify term Node term_eqb [Atom 1; Node (Atom 2) (Atom 3)] 0 (nth 0 ls Dflt) (peaks_spec term Node Dflt ls) 5 = Some true /\
  mp_verify term Node term_eqb [Atom 3; Node (Atom 0) (Atom 1)] 2 (nth 2 ls Dflt) (peaks_spec term Node Dflt ls) 5 = Some true /\
  Atom 9 <> nth 2 ls Dflt /\
  (* conclusions *)
  acc_mutate_leaf term Node (5, peaks_spec term Node Dflt ls) (2, Atom 9, [Atom 3; Node (Atom 0) (Atom 1)]) =
    Some (5, [Node (Node (Atom 0) (Atom 1)) (Node (Atom 9) (Atom 3)); Atom 4]) /\
  mp_verify term Node term_eqb [Atom 1; Node (Atom 9) (Atom 3)] 0 (nth 0 ls' Dflt) (peaks_spec term Node Dflt ls') 5 = Some true /\
  (* the old proof no longer verifies *)
  mp_verify term Node term_eqb [Atom 1; Node (Atom 2) (Atom 3)] 0 (nth 0 ls' Dflt) (peaks_spec term Node Dflt ls') 5 = Some false.
Proof. vm_compute. repeat split; try reflexivity. discriminate. Qed.

(* ------------------------------------------------------------------------------------------------------------
   4. one mutation against many tracked proofs, and the two batch routines, validity form.  `modified` is
   md_fun 0 mps mps': exactly the positions whose proof changed, ascending, no repeats *)
Theorem C05_batch_update_from_leaf_mutation_keeps_valid :
  forall (D : Type) (H : D -> D -> D) (deq : D -> D -> bool) (dflt : D),
  (forall x y, deq x y = true <-> x = y) ->
  (forall a b c e, H a b = H c e -> a = c /\ b = e) ->
  forall (ls : list D) (mps : list (list D)) (idxs : list Z) (j : Z) (d : D) (lm_ap : list D),
  zlength ls < 2 ^ 63 -> 0 <= j -> proofs_valid D H deq dflt ls mps idxs ->
  mp_verify D H deq lm_ap j (nth (Z.to_nat j) ls dflt) (peaks_spec D H dflt ls) (zlength ls) = Some true ->
  exists mps',
    batch_update_from_leaf_mutation D H deq mps idxs (j, d, lm_ap) = Some (mps', md_fun D deq 0 mps mps') /\
    proofs_valid D H deq dflt (upd ls j d) mps' idxs.
Proof. exact buflm_keeps_valid. Qed.
Print Assumptions C05_batch_update_from_leaf_mutation_keeps_valid.

Theorem C05_batch_update_from_batch_leaf_mutation_keeps_valid :
  forall (D : Type) (H : D -> D -> D) (deq : D -> D -> bool) (dflt : D),
  (forall x y, deq x y = true <-> x = y) ->
  (forall a b c e, H a b = H c e -> a = c /\ b = e) ->
  forall (ls : list D) (mps : list (list D)) (idxs : list Z) (lms : list (leaf_mutation D)),
  zlength ls < 2 ^ 63 -> proofs_valid D H deq dflt ls mps idxs -> muts_valid D H deq dflt ls lms ->
  distinctb (map (lm_index D) lms) = true ->
  exists mps',
    batch_update_from_batch_leaf_mutation D H deq mps idxs lms = Some (mps', md_fun D deq 0 mps mps') /\
    proofs_valid D H deq dflt (apply_muts D ls (map fst lms)) mps' idxs.
Proof. exact bubm_keeps_valid. Qed.
Print Assumptions C05_batch_update_from_batch_leaf_mutation_keeps_valid.

Theorem C05_batch_mutate_leaf_and_update_mps_keeps_valid :
  forall (D : Type) (H : D -> D -> D) (deq : D -> D -> bool) (dflt : D),
  (forall x y, deq x y = true <-> x = y) ->
  (forall a b c e, H a b = H c e -> a = c /\ b = e) ->
  forall (ls : list D) (mps : list (list D)) (idxs : list Z) (lms : list (leaf_mutation D)),
  zlength ls < 2 ^ 63 -> proofs_valid D H deq dflt ls mps idxs -> muts_valid D H deq dflt ls lms ->
  distinctb (map (lm_index D) lms) = true ->
  exists mps',
    batch_mutate_leaf_and_update_mps D H deq (zlength ls, peaks_spec D H dflt ls) mps idxs lms =
      Some ((zlength ls, peaks_spec D H dflt (apply_muts D ls (map fst lms))), mps', md_fun D deq 0 mps mps') /\
    proofs_valid D H deq dflt (apply_muts D ls (map fst lms)) mps' idxs.
Proof. exact bmlu_keeps_valid. Qed.
Print Assumptions C05_batch_mutate_leaf_and_update_mps_keeps_valid.

(* md_fun is what md_spec (props/C05.v) describes *)
Theorem C05_md_spec_is_md_fun : forall (D : Type) (H : D -> D -> D) (deq : D -> D -> bool) (dflt : D),
  (forall x y, deq x y = true <-> x = y) ->
  forall (old new : list D) (idxs : list Z) (p : Z) (md : list Z),
  md_spec D H dflt old new p idxs md ->
  md = md_fun D deq p (map (path D H dflt old) idxs) (map (path D H dflt new) idxs).
Proof. exact md_spec_fun. Qed.
Print Assumptions C05_md_spec_is_md_fun.

(* the remaining mutation lists: a repeated leaf index is the panic `Duplicated leafs are not allowed`,
   for any hash, any tracked proofs, any (valid or invalid) proofs in the mutation list *)
Theorem C05_batch_duplicate_panics : forall (D : Type) (H : D -> D -> D) (deq : D -> D -> bool)
    (a : accumulator D) (mps : list (list D)) (idxs : list Z) (lms : list (leaf_mutation D)),
  distinctb (map (lm_index D) lms) = false ->
  batch_update_from_batch_leaf_mutation D H deq mps idxs lms = None /\
  batch_mutate_leaf_and_update_mps D H deq a mps idxs lms = None.
Proof. intros D H deq a mps idxs lms Hd. split; [exact (bubm_dup_panics D H deq mps idxs lms Hd)|exact (bmlu_dup_panics D H deq a mps idxs lms Hd)]. Qed.
Print Assumptions C05_batch_duplicate_panics.

Example C05_batch_keeps_valid_example :
  let ls := [Atom 0; Atom 1; Atom 2; Atom 3; Atom 4; Atom 5] in
  let pk := peaks_spec term Node Dflt ls in
  let mps := [[Atom 1; Node (Atom 2) (Atom 3)]; [Atom 2; Node (Atom 0) (Atom 1)]; [Atom 4]] in
  let idxs := [0; 3; 5] in
  let lms := [(2, Atom 9, [Atom 3; Node (Atom 0) (Atom 1)]); (4, Atom 8, [Atom 5])] in
  let ls' := apply_muts term ls (map fst lms) in
  (* hypotheses: every tracked proof and every mutation proof verifies; distinct indices *)
  forallb (fun x => match mp_verify term Node term_eqb (fst x) (snd x) (nth (Z.to_nat (snd x)) ls Dflt) pk 6 with
                    | Some true => true | _ => false end) (combine mps idxs) = true /\
  forallb (fun lm => match mp_verify term Node term_eqb (snd lm) (fst (fst lm)) (nth (Z.to_nat (fst (fst lm))) ls Dflt) pk 6 with
                     | Some true => true | _ => false end) lms = true /\
  distinctb (map (lm_index term) lms) = true /\
  (* conclusions *)
  ls' = [Atom 0; Atom 1; Atom 9; Atom 3; Atom 8; Atom 5] /\
  batch_mutate_leaf_and_update_mps term Node term_eqb (6, pk) mps idxs lms =
    Some ((6, peaks_spec term Node Dflt ls'),
          [[Atom 1; Node (Atom 9) (Atom 3)]; [Atom 9; Node (Atom 0) (Atom 1)]; [Atom 8]], [0; 1; 2]) /\
  batch_update_from_batch_leaf_mutation term Node term_eqb mps idxs lms =
    Some ([[Atom 1; Node (Atom 9) (Atom 3)]; [Atom 9; Node (Atom 0) (Atom 1)]; [Atom 8]], [0; 1; 2]) /\
  md_fun term term_eqb 0 mps [[Atom 1; Node (Atom 9) (Atom 3)]; [Atom 9; Node (Atom 0) (Atom 1)]; [Atom 8]] = [0; 1; 2] /\
  (* a repeated index panics *)
  batch_mutate_leaf_and_update_mps term Node term_eqb (6, pk) mps idxs (lms ++ [(2, Atom 7, [Atom 3; Node (Atom 0) (Atom 1)])]) = None.
Proof. vm_compute. repeat split; reflexivity. Qed.

(* ------------------------------------------------------------------------------------------------------------
   5. the bounded-exhaustive predicates of props/C05.v (proofs/MmrSmall.v) for EVERY size: mutation_case n was
   C05_update_from_leaf_mutation_small_partial for n <= 20, batch_case n was C05_batch_mutation_small_partial
   for n <= 10 (both by computation); here they follow from the general theorems instantiated at the free
   hash.  batch_case appends one leaf in its verify_batch_update part, hence n + 1 < 2^63. *)
Theorem C05_update_from_leaf_mutation_all_sizes : forall n : nat, Z.of_nat n < 2 ^ 63 -> mutation_case n = true.
Proof. exact mutation_case_all. Qed.
Print Assumptions C05_update_from_leaf_mutation_all_sizes.

Theorem C05_batch_mutation_all_sizes : forall n : nat, Z.of_nat n + 1 < 2 ^ 63 -> batch_case n = true.
Proof. exact batch_case_all. Qed.
Print Assumptions C05_batch_mutation_all_sizes.

(* beyond the sizes reached by computation, without computing *)
Example C05_all_sizes_example : mutation_case 1000 = true /\ batch_case 1000 = true.
Proof. split; [apply C05_update_from_leaf_mutation_all_sizes|apply C05_batch_mutation_all_sizes]; reflexivity. Qed.
