(* props/C06.v - NTT is the discrete Fourier transform over the field; INTT is its inverse. *)
From Coq Require Import ZArith List.
From TF Require Import Word BFieldGen BField XField FieldOps Lucas FieldTheory BFieldProofs BFieldOk NttRoots Ntt Dft NttProofs.
Import ListNotations.
Open Scope Z_scope.

(* every tabulated root (regenerated table) has multiplicative order exactly n: r^n = 1 and r^(n/2) = -1 *)
Theorem C06_roots_exact_order : forall n r, In (n, r) PRIMITIVE_ROOTS ->
  0 <= r < Lucas.P /\ r ^ n mod Lucas.P = 1 /\ (2 <= n -> r ^ (n / 2) mod Lucas.P = Lucas.P - 1).
Proof. exact roots_exact_order_Z. Qed.
Print Assumptions C06_roots_exact_order.
