(* props/C06.v - NTT is the discrete Fourier transform over the field; INTT is its inverse.
   Statements only; the proofs are in proofs/Ntt*.v.  Vocabulary:
     ntt_b, intt_b, ntt_noswap_b, ...   model/Ntt.v instantiated with the regenerated base-field operations
                                         (vectors of Montgomery words);  ntt_x, ... vectors of XFieldElement
                                         (triples of words) with base-field twiddles
     canon, bden          proofs/BFieldProofs.v, BFieldOk.v: canonical word, denoted element of Fp
     okX, xden            proofs/NttXfe.v: triple of canonical words, denoted element of Fp^3
     dft, idft, dft3, idft3, bitrev_list     spec/Dft.v over fp_field (lib/FieldTheory.v)
     brev l               proofs/NttLists.v: the reordering by bit reversal (= bitrev_list l, C06_brev_is_bitrev)
   None = panic.  The bound l <= 31 is the one the code accepts (u32 length with 2^32 excluded). *)
From Coq Require Import ZArith List.
From TF Require Import Word BFieldGen BField XField FieldOps Lucas FieldTheory BFieldProofs BFieldOk NttRoots Ntt Dft
  NttLists NttDft NttBitrev NttProofs NttXfe NttNoswap.
Import ListNotations.
Open Scope Z_scope.

(* ---------------------------------------------------------------- the table *)
(* every tabulated root (regenerated table, 34 entries: keys 0, 2^0 .. 2^32): r^n = 1 and r^(n/2) = -1 *)
Theorem C06_roots_table : forall n r, In (n, r) PRIMITIVE_ROOTS ->
  0 <= r < Lucas.P /\ r ^ n mod Lucas.P = 1 /\ (2 <= n -> r ^ (n / 2) mod Lucas.P = Lucas.P - 1).
Proof. exact roots_exact_order_Z. Qed.
Print Assumptions C06_roots_table.

Theorem C06_roots_table_keys : map fst PRIMITIVE_ROOTS = 0 :: map (fun k => 2 ^ Z.of_nat k) (seq 0 33).
Proof. exact roots_table_keys. Qed.
Print Assumptions C06_roots_table_keys.

(* ... hence the library's root for 2^l has multiplicative order exactly 2^l *)
Theorem C06_roots_exact_order : forall l omega, (l <= 32)%nat ->
  primitive_root_of_unity (2 ^ Z.of_nat l) = Some omega ->
  canon omega /\ kpow fp_field (bden omega) (2 ^ l) = k1 fp_field /\ half_root fp_field (bden omega) l /\
  bden omega <> k0 fp_field /\
  (forall d, (0 < d < 2 ^ l)%nat -> kpow fp_field (bden omega) d <> k1 fp_field).
Proof. exact roots_exact_order. Qed.
Print Assumptions C06_roots_exact_order.
Example C06_roots_exact_order_ex : exists omega, primitive_root_of_unity (2 ^ Z.of_nat 32) = Some omega.
Proof. apply root_exists. auto. Qed.

(* ---------------------------------------------------------------- base field *)
Theorem C06_ntt_is_dft : forall l x, (l <= 31)%nat -> length x = (2 ^ l)%nat -> Forall canon x ->
  exists y omega, primitive_root_of_unity (2 ^ Z.of_nat l) = Some omega /\ ntt_b x = Some y /\
    Forall canon y /\ length y = length x /\ map bden y = dft fp_field (bden omega) (map bden x).
Proof. exact ntt_b_is_dft. Qed.
Print Assumptions C06_ntt_is_dft.
Example C06_ntt_is_dft_ex : length (map bfe_new [1; 2; 3; 4]) = (2 ^ 2)%nat /\ Forall canon (map bfe_new [1; 2; 3; 4]).
Proof. split; [reflexivity|]. repeat (constructor; [apply closure_new; vm_compute; split; [discriminate|reflexivity]|]). constructor. Qed.

Theorem C06_intt_is_idft : forall l x, (l <= 31)%nat -> length x = (2 ^ l)%nat -> Forall canon x ->
  exists y omega, primitive_root_of_unity (2 ^ Z.of_nat l) = Some omega /\ intt_b x = Some y /\
    Forall canon y /\ length y = length x /\ map bden y = idft fp_field (bden omega) (map bden x).
Proof. exact intt_b_is_idft. Qed.
Print Assumptions C06_intt_is_idft.

(* exact inverses, on the words themselves *)
Theorem C06_intt_ntt : forall l x, (l <= 31)%nat -> length x = (2 ^ l)%nat -> Forall canon x ->
  exists y, ntt_b x = Some y /\ intt_b y = Some x.
Proof. exact intt_ntt_b. Qed.
Print Assumptions C06_intt_ntt.
Theorem C06_ntt_intt : forall l x, (l <= 31)%nat -> length x = (2 ^ l)%nat -> Forall canon x ->
  exists y, intt_b x = Some y /\ ntt_b y = Some x.
Proof. exact ntt_intt_b. Qed.
Print Assumptions C06_ntt_intt.

(* the abstract inversion theorem behind them: idft inverts dft for any primitive 2^l-th root w with w^(n/2) = -1 *)
Theorem C06_idft_dft : forall l w x, length x = (2 ^ l)%nat -> half_root fp_field w l -> w <> k0 fp_field ->
  idft fp_field w (dft fp_field w x) = x /\ dft fp_field w (idft fp_field w x) = x.
Proof.
  exact (fun l w x Hx Hw H0 => conj (idft_dft fp_field fp_two_neq_0 l w x Hx Hw H0) (dft_idft fp_field fp_two_neq_0 l w x Hx Hw H0)).
Qed.
Print Assumptions C06_idft_dft.

(* ---------------------------------------------------------------- extension field (base-field twiddles) *)
Theorem C06_ntt_x_is_dft : forall l x, (l <= 31)%nat -> length x = (2 ^ l)%nat -> Forall okX x ->
  exists y omega, primitive_root_of_unity (2 ^ Z.of_nat l) = Some omega /\ ntt_x x = Some y /\
    Forall okX y /\ length y = length x /\ map xden y = dft3 fp_field (bden omega) (map xden x).
Proof. exact ntt_x_is_dft. Qed.
Print Assumptions C06_ntt_x_is_dft.
Theorem C06_intt_x_is_idft : forall l x, (l <= 31)%nat -> length x = (2 ^ l)%nat -> Forall okX x ->
  exists y omega, primitive_root_of_unity (2 ^ Z.of_nat l) = Some omega /\ intt_x x = Some y /\
    Forall okX y /\ length y = length x /\ map xden y = idft3 fp_field (bden omega) (map xden x).
Proof. exact intt_x_is_idft. Qed.
Print Assumptions C06_intt_x_is_idft.
Theorem C06_intt_ntt_x : forall l x, (l <= 31)%nat -> length x = (2 ^ l)%nat -> Forall okX x ->
  exists y, ntt_x x = Some y /\ intt_x y = Some x.
Proof. exact intt_ntt_x. Qed.
Print Assumptions C06_intt_ntt_x.
Theorem C06_ntt_intt_x : forall l x, (l <= 31)%nat -> length x = (2 ^ l)%nat -> Forall okX x ->
  exists y, intt_x x = Some y /\ ntt_x y = Some x.
Proof. exact ntt_intt_x. Qed.
Print Assumptions C06_ntt_intt_x.

(* ---------------------------------------------------------------- the bit-reversed variants *)
Theorem C06_bitreverse_order : forall (l : nat) (x : list Z), (l <= 64)%nat -> length x = (2 ^ l)%nat ->
  bitreverse_order x = Some (brev l x) /\ bitreverse_order (brev l x) = Some x.
Proof.
  intros l x Hl Hx. split; [apply bitreverse_order_pow2; assumption|].
  rewrite (bitreverse_order_pow2 l) by (try apply brev_length; assumption). rewrite brev_invol by exact Hx. reflexivity.
Qed.
Print Assumptions C06_bitreverse_order.
Theorem C06_brev_is_bitrev : forall (l : nat) (d : Z) (x : list Z), length x = (2 ^ l)%nat ->
  brev l x = bitrev_list l d x.
Proof. intros l d x. apply brev_bitrev_list. Qed.
Print Assumptions C06_brev_is_bitrev.

(* ntt_noswap = ntt followed by bitreverse_order *)
Theorem C06_ntt_noswap : forall dbg l x, (l <= 31)%nat -> length x = (2 ^ l)%nat -> Forall canon x ->
  exists y r, ntt_b x = Some y /\ bitreverse_order y = Some r /\ ntt_noswap_b dbg x = Some r.
Proof. exact ntt_noswap_b_spec. Qed.
Print Assumptions C06_ntt_noswap.
Theorem C06_ntt_noswap_x : forall dbg l x, (l <= 31)%nat -> length x = (2 ^ l)%nat -> Forall okX x ->
  exists y r, ntt_x x = Some y /\ bitreverse_order y = Some r /\ ntt_noswap_x dbg x = Some r.
Proof. exact ntt_noswap_x_spec. Qed.
Print Assumptions C06_ntt_noswap_x.
(* intt_noswap on the bit-reversed array, then unscale = intt *)
Theorem C06_intt_noswap_unscale : forall dbg l y, (l <= 31)%nat -> length y = (2 ^ l)%nat -> Forall canon y ->
  exists r z z', bitreverse_order y = Some r /\ intt_noswap_b dbg r = Some z /\ unscale_b z = Some z' /\
                 intt_b y = Some z'.
Proof. exact intt_noswap_unscale_b. Qed.
Print Assumptions C06_intt_noswap_unscale.
Theorem C06_noswap_round_trip : forall dbg l x, (l <= 31)%nat -> length x = (2 ^ l)%nat -> Forall canon x ->
  exists r z, ntt_noswap_b dbg x = Some r /\ intt_noswap_b dbg r = Some z /\ unscale_b z = Some x.
Proof. exact noswap_round_trip_b. Qed.
Print Assumptions C06_noswap_round_trip.

(* ---------------------------------------------------------------- length 0 and the documented panics *)
Theorem C06_ntt_nil : ntt_b [] = Some [] /\ intt_b [] = Some [] /\ ntt_x [] = Some [] /\ intt_x [] = Some [].
Proof. exact (conj (proj1 ntt_b_nil) (conj (proj2 ntt_b_nil) ntt_x_nil)). Qed.
Print Assumptions C06_ntt_nil.
Theorem C06_ntt_panics_not_pow2 : forall x : list Z, length x <> 0%nat -> (forall l, length x <> (2 ^ l)%nat) ->
  ntt_b x = None /\ intt_b x = None.
Proof. exact (ntt_panics_not_pow2 bfe_ops bfe_ops bb_act). Qed.
Print Assumptions C06_ntt_panics_not_pow2.
Theorem C06_ntt_x_panics_not_pow2 : forall x : list xfe, length x <> 0%nat -> (forall l, length x <> (2 ^ l)%nat) ->
  ntt_x x = None /\ intt_x x = None.
Proof. exact (ntt_panics_not_pow2 bfe_ops xfe_ops xb_act). Qed.
Print Assumptions C06_ntt_x_panics_not_pow2.
Theorem C06_ntt_panics_too_long : forall x : list Z, Z.of_nat (length x) > 4294967295 ->
  ntt_b x = None /\ intt_b x = None.
Proof. exact (ntt_panics_too_long bfe_ops bfe_ops bb_act). Qed.
Print Assumptions C06_ntt_panics_too_long.
Theorem C06_noswap_panics_not_pow2 : forall dbg (x : list Z), length x <> 0%nat -> (forall l, length x <> (2 ^ l)%nat) ->
  ntt_noswap_b dbg x = None /\ intt_noswap_b dbg x = None.
Proof. exact (noswap_panics_not_pow2 bfe_ops bb_act). Qed.
Print Assumptions C06_noswap_panics_not_pow2.
(* length 0 through the noswap functions: identity in a release build, debug_assert panic in a checked build;
   unscale of the empty array panics (inverse of zero) *)
Theorem C06_noswap_nil :
  ntt_noswap_b false [] = Some [] /\ intt_noswap_b false [] = Some [] /\
  ntt_noswap_b true [] = None /\ intt_noswap_b true [] = None /\
  ntt_noswap_x false [] = Some [] /\ intt_noswap_x false [] = Some [] /\
  ntt_noswap_x true [] = None /\ intt_noswap_x true [] = None.
Proof. exact noswap_nil. Qed.
Print Assumptions C06_noswap_nil.
Theorem C06_unscale_nil : unscale_b [] = None.
Proof. exact unscale_b_nil. Qed.
Print Assumptions C06_unscale_nil.

(* ---------------------------------------------------------------- any primitive root *)
Theorem C06_ntt_unchecked_any_root : forall l x omega, (l <= 32)%nat -> length x = (2 ^ l)%nat -> Forall canon x ->
  canon omega -> half_root fp_field (bden omega) l ->
  exists y, ntt_unchecked bfe_ops bfe_ops bb_act x omega l = Some y /\ Forall canon y /\ length y = length x /\
            map bden y = dft fp_field (bden omega) (map bden x).
Proof. exact ntt_unchecked_b_any_root. Qed.
Print Assumptions C06_ntt_unchecked_any_root.

(* ---------------------------------------------------------------- the extension field AS A FIELD
   k3_field = Fp[X]/(X^3 - X + 1) on triples of Fp (proofs/XFieldOk.v: xfe_field_ok : field_ok xfe_ops k3_field canon3 denX;
   canon3 / denX are okX / xden up to the shape of the definition).  With the twiddles read through the embedding
   iota : Fp -> Fp3 (xscale by a BFieldElement = product with its lift, C01_xscale_is_mul_by_lift) the generic theorems
   apply with fk := k3_field:  ntt on XFieldElement vectors is the DFT over the extension field at the lifted root. *)
From TF Require Import XFieldProofs XFieldOk XFieldNtt.
Theorem C06_xfe_hom : NttStruct.ntt_hom bfe_ops xfe_ops xb_act k3_field canon canon3 bden3 denX.
Proof. exact xb_hom_field. Qed.
Print Assumptions C06_xfe_hom.
Theorem C06_okX_xden : (forall x, okX x <-> canon3 x) /\ (forall x, xden x = denX x).
Proof. exact (conj okX_canon3 xden_denX). Qed.
Print Assumptions C06_okX_xden.
Theorem C06_ntt_x_field_is_dft : forall l x, (l <= 31)%nat -> length x = (2 ^ l)%nat -> Forall canon3 x ->
  exists y omega, primitive_root_of_unity (2 ^ Z.of_nat l) = Some omega /\ ntt_x x = Some y /\
    Forall canon3 y /\ length y = length x /\ map denX y = dft k3_field (iota (bden omega)) (map denX x).
Proof. exact ntt_x_field_dft. Qed.
Print Assumptions C06_ntt_x_field_is_dft.
Theorem C06_intt_x_field_is_idft : forall l x, (l <= 31)%nat -> length x = (2 ^ l)%nat -> Forall canon3 x ->
  exists y omega, primitive_root_of_unity (2 ^ Z.of_nat l) = Some omega /\ intt_x x = Some y /\
    Forall canon3 y /\ length y = length x /\ map denX y = idft k3_field (iota (bden omega)) (map denX x).
Proof. exact intt_x_field_idft. Qed.
Print Assumptions C06_intt_x_field_is_idft.
(* the lifted root is a primitive 2^l-th root of unity of the extension field, and 2 <> 0 there *)
Theorem C06_xfe_roots : forall l omega, (l <= 32)%nat -> primitive_root_of_unity (2 ^ Z.of_nat l) = Some omega ->
  half_root k3_field (iota (bden omega)) l /\ iota (bden omega) <> k0 k3_field /\ two_neq_0 k3_field.
Proof.
  exact (fun l omega Hl Hr =>
    match roots_exact_order l omega Hl Hr with
    | conj _ (conj _ (conj Hh (conj H0 _))) =>
        conj (half_root_iota _ _ Hh) (conj (fun E => H0 (proj1 (iota_0_iff _) E)) k3_two_nz)
    end).
Qed.
Print Assumptions C06_xfe_roots.
(* BFieldElement vectors read inside the extension field (the operand of a mixed product) *)
Theorem C06_ntt_b_in_xfe_is_dft : forall l x, (l <= 31)%nat -> length x = (2 ^ l)%nat -> Forall canon x ->
  exists y omega, primitive_root_of_unity (2 ^ Z.of_nat l) = Some omega /\ ntt_b x = Some y /\
    Forall canon y /\ length y = length x /\ map bden3 y = dft k3_field (iota (bden omega)) (map bden3 x).
Proof. exact ntt_b_field3_dft. Qed.
Print Assumptions C06_ntt_b_in_xfe_is_dft.
