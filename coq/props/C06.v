(* props/C06.v - NTT is the discrete Fourier transform over the field; INTT is its inverse.
   Statements only; the proofs are in proofs/Ntt*.v.  Vocabulary:
     ntt_b, intt_b, ...   model/Ntt.v instantiated with the regenerated base-field operations (Montgomery words)
     canon, bden          proofs/BFieldProofs.v, proofs/BFieldOk.v: canonical word, denoted element of Fp
     dft, idft            spec/Dft.v over the abstract field record fp_field (lib/FieldTheory.v) *)
From Coq Require Import ZArith List.
From TF Require Import Word BFieldGen BField XField FieldOps Lucas FieldTheory BFieldProofs BFieldOk NttRoots Ntt Dft
  NttDft NttProofs.
Import ListNotations.
Open Scope Z_scope.

(* every tabulated root (regenerated table, 34 entries: keys 0, 2^0 .. 2^32): r^n = 1 and r^(n/2) = -1 *)
Theorem C06_roots_table : forall n r, In (n, r) PRIMITIVE_ROOTS ->
  0 <= r < Lucas.P /\ r ^ n mod Lucas.P = 1 /\ (2 <= n -> r ^ (n / 2) mod Lucas.P = Lucas.P - 1).
Proof. exact roots_exact_order_Z. Qed.
Print Assumptions C06_roots_table.

Theorem C06_roots_table_keys : map fst PRIMITIVE_ROOTS = 0 :: map (fun k => 2 ^ Z.of_nat k) (seq 0 33).
Proof. exact roots_table_keys. Qed.
Print Assumptions C06_roots_table_keys.

(* ... hence the library's root for 2^l has multiplicative order exactly 2^l *)
Theorem C06_roots_exact_order : forall l omega, (l <= 32)%nat ->
  primitive_root_of_unity (2 ^ Z.of_nat l) = Some omega ->
  canon omega /\ kpow fp_field (bden omega) (2 ^ l) = k1 fp_field /\ half_root fp_field (bden omega) l /\
  bden omega <> k0 fp_field /\
  (forall d, (0 < d < 2 ^ l)%nat -> kpow fp_field (bden omega) d <> k1 fp_field).
Proof. exact roots_exact_order. Qed.
Print Assumptions C06_roots_exact_order.
Example C06_roots_exact_order_ex : exists omega, primitive_root_of_unity (2 ^ Z.of_nat 32) = Some omega.
Proof. apply root_exists. auto. Qed.

(* the forward transform: for every k <= 31 and every vector of 2^k canonical elements *)
Theorem C06_ntt_is_dft : forall l x, (l <= 31)%nat -> length x = (2 ^ l)%nat -> Forall canon x ->
  exists y omega, primitive_root_of_unity (2 ^ Z.of_nat l) = Some omega /\ ntt_b x = Some y /\
    Forall canon y /\ length y = length x /\ map bden y = dft fp_field (bden omega) (map bden x).
Proof. exact ntt_b_is_dft. Qed.
Print Assumptions C06_ntt_is_dft.
Example C06_ntt_is_dft_ex : length (map bfe_new [1; 2; 3; 4]) = (2 ^ 2)%nat /\ Forall canon (map bfe_new [1; 2; 3; 4]).
Proof. split; [reflexivity|]. repeat (constructor; [apply closure_new; vm_compute; split; [discriminate|reflexivity]|]). constructor. Qed.

Theorem C06_intt_is_idft : forall l x, (l <= 31)%nat -> length x = (2 ^ l)%nat -> Forall canon x ->
  exists y omega, primitive_root_of_unity (2 ^ Z.of_nat l) = Some omega /\ intt_b x = Some y /\
    Forall canon y /\ length y = length x /\ map bden y = idft fp_field (bden omega) (map bden x).
Proof. exact intt_b_is_idft. Qed.
Print Assumptions C06_intt_is_idft.

(* exact inverses, on the words themselves *)
Theorem C06_intt_ntt : forall l x, (l <= 31)%nat -> length x = (2 ^ l)%nat -> Forall canon x ->
  exists y, ntt_b x = Some y /\ intt_b y = Some x.
Proof. exact intt_ntt_b. Qed.
Print Assumptions C06_intt_ntt.
Theorem C06_ntt_intt : forall l x, (l <= 31)%nat -> length x = (2 ^ l)%nat -> Forall canon x ->
  exists y, intt_b x = Some y /\ ntt_b y = Some x.
Proof. exact ntt_intt_b. Qed.
Print Assumptions C06_ntt_intt.

(* length 0 and the documented panics *)
Theorem C06_ntt_nil : ntt_b [] = Some [] /\ intt_b [] = Some [].
Proof. exact ntt_b_nil. Qed.
Print Assumptions C06_ntt_nil.
Theorem C06_ntt_panics_not_pow2 : forall x : list Z, length x <> 0%nat -> (forall l, length x <> (2 ^ l)%nat) ->
  ntt_b x = None /\ intt_b x = None.
Proof. exact (ntt_panics_not_pow2 bfe_ops bfe_ops bb_act). Qed.
Print Assumptions C06_ntt_panics_not_pow2.
Theorem C06_ntt_panics_too_long : forall x : list Z, Z.of_nat (length x) > 4294967295 ->
  ntt_b x = None /\ intt_b x = None.
Proof. exact (ntt_panics_too_long bfe_ops bfe_ops bb_act). Qed.
Print Assumptions C06_ntt_panics_too_long.
