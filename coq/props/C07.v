(* props/C07.v - property C07: every polynomial multiplication strategy returns the exact ring product.
   Only statements, each closed by `exact`, each followed by Print Assumptions. *)
From Coq Require Import ZArith Bool List.
From TF Require Import Word FieldOps FieldTheory PolyGen PolyCore PolySpec PolyCoreProofs.
Import ListNotations.
Open Scope Z_scope.

(* the model's degree is the degree of the denoted polynomial *)
Theorem C07_degree :
  forall {F K} (o : fops F) (fk : fieldK K) (ok : F -> Prop) (den : F -> K), field_ok o fk ok den ->
  forall l, Forall ok l -> poly_degree o l = pdeg fk (map den l).
Proof. exact @degree_pdeg. Qed.
Print Assumptions C07_degree.
