(* props/C07.v - property C07: every polynomial multiplication strategy returns the exact ring product.
   Only statements, each closed by `exact`, each followed by Print Assumptions.

   Reading guide.  `o : fops F` is the record of field operations the Rust code is generic over; `field_ok o fk ok den`
   (lib/FieldTheory.v) says that it implements the abstract field `fk : fieldK K` on representations satisfying `ok`,
   `den` giving the denoted element (instance for BFieldElement: BFieldOk.bfe_field_ok).  A raw coefficient list `l`
   (exactly what `Polynomial.coefficients` stores, leading zeros included) denotes `map den l`; `peq` is equality of
   polynomials, `pmul` the ring product characterised by C07_product_is_convolution.  `Some r` = no panic.
   Mixed-field products (BFE x XFE ...) take three records that refine the same K and `mul12_ok` for the mixed product.
   NTT-based strategies take `ntt`/`intt` as parameters constrained by `ntt_ok`/`intt_ok`/`roots_ok` (PolyC07Wrap.v):
   these are literally the C06 theorems; they are DISCHARGED for the base field in the C07_bfe_* theorems below. *)
From Coq Require Import ZArith Bool List.
From TF Require Import Word BFieldGen BField FieldOps FieldTheory PolyGen PolyCore PolySpec PolyCoreProofs PolyC07Wrap PolyValueSem.
From TF Require Import BFieldProofs BFieldOk Ntt.
Import ListNotations.
Open Scope Z_scope.

(* the specification's product is the convolution  c_k = sum_{i+j=k} a_i b_j *)
Theorem C07_product_is_convolution : forall {K} (fk : fieldK K) (p q : list K) (k : nat),
  coeff fk (pmul fk p q) k = ksum fk (fun i => kmul fk (coeff fk p i) (coeff fk q (k - i))) (S k).
Proof. exact @coeff_pmul. Qed.
Print Assumptions C07_product_is_convolution.

(* the model's degree is the degree of the denoted polynomial (-1 for zero), whatever is stored *)
Theorem C07_degree :
  forall {F K} (o : fops F) (fk : fieldK K) (ok : F -> Prop) (den : F -> K), field_ok o fk ok den ->
  forall l, Forall ok l -> poly_degree o l = pdeg fk (map den l).
Proof. exact @degree_pdeg. Qed.
Print Assumptions C07_degree.

(* naive_multiply, the `*` operator and the arm of `multiply` below the threshold, operands over possibly different
   fields, zero and constant operands and stored leading zeros included; never panics (plain value) *)
Theorem C07_naive_multiply :
  forall {F1 F2 F3 K} (o1 : fops F1) (o2 : fops F2) (o3 : fops F3) (fk : fieldK K)
         (ok1 : F1 -> Prop) (ok2 : F2 -> Prop) (ok3 : F3 -> Prop) (den1 : F1 -> K) (den2 : F2 -> K) (den3 : F3 -> K),
  field_ok o1 fk ok1 den1 -> field_ok o2 fk ok2 den2 -> field_ok o3 fk ok3 den3 ->
  forall mul12, mul12_ok fk ok1 ok2 ok3 den1 den2 den3 mul12 ->
  forall a b, Forall ok1 a -> Forall ok2 b ->
  Forall ok3 (poly_naive_multiply_gen o1 o2 o3 mul12 a b) /\
  peq fk (map den3 (poly_naive_multiply_gen o1 o2 o3 mul12 a b)) (pmul fk (map den1 a) (map den2 b)).
Proof. exact @w_naive_multiply_gen. Qed.
Print Assumptions C07_naive_multiply.

Theorem C07_mul_operator :
  forall {F K} (o : fops F) (fk : fieldK K) (ok : F -> Prop) (den : F -> K), field_ok o fk ok den ->
  forall a b, Forall ok a -> Forall ok b ->
  Forall ok (poly_mul o a b) /\ peq fk (map den (poly_mul o a b)) (pmul fk (map den a) (map den b)).
Proof. exact @naive_multiply_spec. Qed.
Print Assumptions C07_mul_operator.

(* fast_multiply: the degree bookkeeping (domain = next power of two >= deg sum + 1, resize cuts only stored zeros,
   truncate(deg sum + 1) cuts only zeros, a zero operand against a non-constant one) on top of the C06 statements *)
Theorem C07_fast_multiply :
  forall {F1 F2 F3 K} (o1 : fops F1) (o2 : fops F2) (o3 : fops F3) (fk : fieldK K)
         (ok1 : F1 -> Prop) (ok2 : F2 -> Prop) (ok3 : F3 -> Prop) (den1 : F1 -> K) (den2 : F2 -> K) (den3 : F3 -> K),
  field_ok o1 fk ok1 den1 -> field_ok o2 fk ok2 den2 -> field_ok o3 fk ok3 den3 ->
  forall mul12, mul12_ok fk ok1 ok2 ok3 den1 den2 den3 mul12 ->
  forall ntt1 ntt2 intt3 lmax wr, ntt_ok fk ok1 den1 ntt1 lmax wr -> ntt_ok fk ok2 den2 ntt2 lmax wr ->
  intt_ok fk ok3 den3 intt3 lmax wr -> roots_ok fk lmax wr ->
  forall a b, Forall ok1 a -> Forall ok2 b -> poly_degree o1 a + poly_degree o2 b + 1 <= 2 ^ Z.of_nat lmax ->
  exists r, poly_fast_multiply_gen o1 o2 mul12 ntt1 ntt2 intt3 a b = Some r /\ Forall ok3 r /\
            zlen r <= Z.max 0 (poly_degree o1 a + poly_degree o2 b + 1) /\
            peq fk (map den3 r) (pmul fk (map den1 a) (map den2 b)).
Proof. exact @w_fast_multiply_gen. Qed.
Print Assumptions C07_fast_multiply.

(* multiply: whichever arm the regenerated threshold FAST_MULTIPLY_CUTOFF_THRESHOLD selects *)
Theorem C07_multiply :
  forall {F1 F2 F3 K} (o1 : fops F1) (o2 : fops F2) (o3 : fops F3) (fk : fieldK K)
         (ok1 : F1 -> Prop) (ok2 : F2 -> Prop) (ok3 : F3 -> Prop) (den1 : F1 -> K) (den2 : F2 -> K) (den3 : F3 -> K),
  field_ok o1 fk ok1 den1 -> field_ok o2 fk ok2 den2 -> field_ok o3 fk ok3 den3 ->
  forall mul12, mul12_ok fk ok1 ok2 ok3 den1 den2 den3 mul12 ->
  forall ntt1 ntt2 intt3 lmax wr, ntt_ok fk ok1 den1 ntt1 lmax wr -> ntt_ok fk ok2 den2 ntt2 lmax wr ->
  intt_ok fk ok3 den3 intt3 lmax wr -> roots_ok fk lmax wr ->
  forall a b, Forall ok1 a -> Forall ok2 b -> poly_degree o1 a + poly_degree o2 b + 1 <= 2 ^ Z.of_nat lmax ->
  exists r, poly_multiply_gen o1 o2 o3 mul12 ntt1 ntt2 intt3 a b = Some r /\ Forall ok3 r /\
            zlen r <= Z.max 0 (poly_degree o1 a + poly_degree o2 b + 1) /\
            peq fk (map den3 r) (pmul fk (map den1 a) (map den2 b)).
Proof. exact @w_multiply_gen. Qed.
Print Assumptions C07_multiply.

(* squares (the code of the current tree: after the repair of the stored-leading-zero panics, see C17) *)
Theorem C07_slow_square :
  forall {F K} (o : fops F) (fk : fieldK K) (ok : F -> Prop) (den : F -> K), field_ok o fk ok den ->
  forall l, Forall ok l ->
  exists r, poly_slow_square o l = Some r /\ Forall ok r /\ peq fk (map den r) (pmul fk (map den l) (map den l)).
Proof. exact @w_slow_square. Qed.
Print Assumptions C07_slow_square.

Theorem C07_square :
  forall {F K} (o : fops F) (fk : fieldK K) (ok : F -> Prop) (den : F -> K), field_ok o fk ok den ->
  forall ntt intt lmax wr, ntt_ok fk ok den ntt lmax wr -> intt_ok fk ok den intt lmax wr -> roots_ok fk lmax wr ->
  forall l, Forall ok l -> 2 * poly_degree o l + 1 <= 2 ^ Z.of_nat lmax ->
  exists r, poly_square o ntt intt l = Some r /\ Forall ok r /\ peq fk (map den r) (pmul fk (map den l) (map den l)).
Proof. exact @w_square. Qed.
Print Assumptions C07_square.

Theorem C07_fast_square :
  forall {F K} (o : fops F) (fk : fieldK K) (ok : F -> Prop) (den : F -> K), field_ok o fk ok den ->
  forall ntt intt lmax wr, ntt_ok fk ok den ntt lmax wr -> intt_ok fk ok den intt lmax wr -> roots_ok fk lmax wr ->
  forall l, Forall ok l -> 2 * poly_degree o l + 1 <= 2 ^ Z.of_nat lmax ->
  exists r, poly_fast_square o ntt intt l = Some r /\ Forall ok r /\ peq fk (map den r) (pmul fk (map den l) (map den l)).
Proof. exact @w_fast_square. Qed.
Print Assumptions C07_fast_square.

(* powers = repeated product, every exponent (u32 in the code; any e >= 0 here), 0^0 = 1 *)
Theorem C07_pow :
  forall {F K} (o : fops F) (fk : fieldK K) (ok : F -> Prop) (den : F -> K), field_ok o fk ok den ->
  forall l e, Forall ok l -> 0 <= e ->
  exists r, poly_pow o l e = Some r /\ Forall ok r /\ peq fk (map den r) (ppow fk (map den l) (Z.to_nat e)).
Proof. exact @pow_spec. Qed.
Print Assumptions C07_pow.

Theorem C07_fast_pow :
  forall {F K} (o : fops F) (fk : fieldK K) (ok : F -> Prop) (den : F -> K), field_ok o fk ok den ->
  forall ntt intt lmax wr, ntt_ok fk ok den ntt lmax wr -> intt_ok fk ok den intt lmax wr -> roots_ok fk lmax wr ->
  forall l e, Forall ok l -> 0 <= e -> Z.max 0 (poly_degree o l) * e * 2 + 1 <= 2 ^ Z.of_nat lmax ->
  exists r, poly_fast_pow o ntt intt l e = Some r /\ Forall ok r /\ peq fk (map den r) (ppow fk (map den l) (Z.to_nat e)).
Proof. exact @w_fast_pow. Qed.
Print Assumptions C07_fast_pow.

(* batch_multiply: the chunks-of-two loop terminates (fuel = number of factors is enough) and returns the product of
   the list, the empty list giving 1 *)
Theorem C07_batch_multiply :
  forall {F K} (o : fops F) (fk : fieldK K) (ok : F -> Prop) (den : F -> K), field_ok o fk ok den ->
  forall ntt intt lmax wr, ntt_ok fk ok den ntt lmax wr -> intt_ok fk ok den intt lmax wr -> roots_ok fk lmax wr ->
  forall ps, Forall (Forall ok) ps -> total_len ps <= 2 ^ Z.of_nat lmax ->
  exists r, poly_batch_multiply o ntt intt ps = Some r /\ Forall ok r /\
            peq fk (map den r) (pprod fk (map (map den) ps)).
Proof. exact @w_batch_multiply. Qed.
Print Assumptions C07_batch_multiply.

(* par_batch_multiply: for EVERY thread count nt >= 1 (the value read from available_parallelism) *)
Theorem C07_par_batch_multiply :
  forall {F K} (o : fops F) (fk : fieldK K) (ok : F -> Prop) (den : F -> K), field_ok o fk ok den ->
  forall ntt intt lmax wr, ntt_ok fk ok den ntt lmax wr -> intt_ok fk ok den intt lmax wr -> roots_ok fk lmax wr ->
  forall nt ps, 1 <= nt -> Forall (Forall ok) ps -> total_len ps <= 2 ^ Z.of_nat lmax ->
  exists r, poly_par_batch_multiply o ntt intt nt ps = Some r /\ Forall ok r /\
            peq fk (map den r) (pprod fk (map (map den) ps)).
Proof. exact @w_par_batch_multiply. Qed.
Print Assumptions C07_par_batch_multiply.

(* scalar multiplication = product with the constant polynomial *)
Theorem C07_scalar_mul :
  forall {F K} (o : fops F) (fk : fieldK K) (ok : F -> Prop) (den : F -> K), field_ok o fk ok den ->
  forall l s, Forall ok l -> ok s ->
  Forall ok (poly_scalar_mul o l s) /\ peq fk (map den (poly_scalar_mul o l s)) (pmul fk (pconst (den s)) (map den l)).
Proof. exact @w_scalar_mul. Qed.
Print Assumptions C07_scalar_mul.

(* scale(alpha) = composition with alpha X: coefficient i is multiplied by alpha^i, hence P'(x) = P(alpha x) *)
Theorem C07_scale :
  forall {F K} (o : fops F) (fk : fieldK K) (ok : F -> Prop) (den : F -> K), field_ok o fk ok den ->
  forall l a, Forall ok l -> ok a ->
  Forall ok (poly_scale o l a) /\ map den (poly_scale o l a) = pcompscale fk (map den l) (den a) /\
  forall x, peval fk (map den (poly_scale o l a)) x = peval fk (map den l) (kmul fk (den a) x).
Proof. exact @w_scale. Qed.
Print Assumptions C07_scale.

(* shift_coefficients(n) = product with X^n *)
Theorem C07_shift_coefficients :
  forall {F K} (o : fops F) (fk : fieldK K) (ok : F -> Prop) (den : F -> K), field_ok o fk ok den ->
  forall l n, Forall ok l ->
  Forall ok (poly_shift_coefficients o l n) /\
  peq fk (map den (poly_shift_coefficients o l n)) (pmul fk (pXn fk (Z.to_nat n)) (map den l)).
Proof. exact @w_shift. Qed.
Print Assumptions C07_shift_coefficients.

(* ---- Polynomial<BFieldElement>: the C06 hypotheses discharged (NttProofs.ntt_b_is_dft, intt_b_is_idft,
   roots_exact_order), transform lengths up to 2^31.  `canon` = canonical Montgomery word, `bden` its field value. *)
Theorem C07_bfe_multiply : forall a b, Forall canon a -> Forall canon b ->
  poly_degree bfe_ops a + poly_degree bfe_ops b + 1 <= 2 ^ 31 ->
  exists r, poly_multiply bfe_ops ntt_b intt_b a b = Some r /\ Forall canon r /\
            zlen r <= Z.max 0 (poly_degree bfe_ops a + poly_degree bfe_ops b + 1) /\
            peq fp_field (map bden r) (pmul fp_field (map bden a) (map bden b)).
Proof. exact bfe_multiply_spec. Qed.
Print Assumptions C07_bfe_multiply.

Theorem C07_bfe_fast_multiply : forall a b, Forall canon a -> Forall canon b ->
  poly_degree bfe_ops a + poly_degree bfe_ops b + 1 <= 2 ^ 31 ->
  exists r, poly_fast_multiply bfe_ops ntt_b intt_b a b = Some r /\ Forall canon r /\
            zlen r <= Z.max 0 (poly_degree bfe_ops a + poly_degree bfe_ops b + 1) /\
            peq fp_field (map bden r) (pmul fp_field (map bden a) (map bden b)).
Proof. exact bfe_fast_multiply_spec. Qed.
Print Assumptions C07_bfe_fast_multiply.

Theorem C07_bfe_square : forall l, Forall canon l -> 2 * poly_degree bfe_ops l + 1 <= 2 ^ 31 ->
  exists r, poly_square bfe_ops ntt_b intt_b l = Some r /\ Forall canon r /\
            peq fp_field (map bden r) (pmul fp_field (map bden l) (map bden l)).
Proof. exact bfe_square_spec. Qed.
Print Assumptions C07_bfe_square.

Theorem C07_bfe_fast_pow : forall l e, Forall canon l -> 0 <= e ->
  Z.max 0 (poly_degree bfe_ops l) * e * 2 + 1 <= 2 ^ 31 ->
  exists r, poly_fast_pow bfe_ops ntt_b intt_b l e = Some r /\ Forall canon r /\
            peq fp_field (map bden r) (ppow fp_field (map bden l) (Z.to_nat e)).
Proof. exact bfe_fast_pow_spec. Qed.
Print Assumptions C07_bfe_fast_pow.

Theorem C07_bfe_batch_multiply : forall ps, Forall (Forall canon) ps -> total_len ps <= 2 ^ 31 ->
  exists r, poly_batch_multiply bfe_ops ntt_b intt_b ps = Some r /\ Forall canon r /\
            peq fp_field (map bden r) (pprod fp_field (map (map bden) ps)).
Proof. exact bfe_batch_multiply_spec. Qed.
Print Assumptions C07_bfe_batch_multiply.

Theorem C07_bfe_par_batch_multiply : forall nt ps, 1 <= nt -> Forall (Forall canon) ps -> total_len ps <= 2 ^ 31 ->
  exists r, poly_par_batch_multiply bfe_ops ntt_b intt_b nt ps = Some r /\ Forall canon r /\
            peq fp_field (map bden r) (pprod fp_field (map (map bden) ps)).
Proof. exact bfe_par_batch_multiply_spec. Qed.
Print Assumptions C07_bfe_par_batch_multiply.

(* the hypotheses are satisfiable: the base field instance, and concrete well-formed operands *)
Example C07_bfe_instance : field_ok bfe_ops fp_field canon bden.
Proof. exact bfe_field_ok. Qed.
Example C07_bfe_operands : Forall canon w_one_stored /\ Forall canon w_lin_stored /\ Forall canon w_lin.
Proof. exact okb_witnesses. Qed.

(* ---- Polynomial<XFieldElement> and the mixed BFieldElement x XFieldElement products: ALL hypotheses discharged.
   The field is k3_field = Fp[X]/(X^3 - X + 1) on triples of Fp (proofs/XFieldOk.v: xfe_field_ok, C01_xfe_field_ok);
   `canon3` = triple of canonical Montgomery words, `denX` its field value; a BFieldElement operand of a mixed product
   denotes through the embedding bden3 = iota o bden of the base field (proofs/XFieldNtt.v: bfe_field_ok3).  The C06
   hypotheses are the theorems ntt_x_field_dft / intt_x_field_idft of proofs/XFieldNtt.v (ntt_x on XFieldElement vectors
   with BFieldElement twiddles is the DFT over k3_field at the lifted root), transform lengths up to 2^31.
   The mixed coefficient products of the code are both `xscale`: mul_bx b x = mul_xb x b = xscale x b. *)
From TF Require Import XField XFieldProofs XFieldOk XFieldNtt XFieldPoly.

Theorem C07_xfe_multiply : forall a b, Forall canon3 a -> Forall canon3 b ->
  poly_degree xfe_ops a + poly_degree xfe_ops b + 1 <= 2 ^ 31 ->
  exists r, poly_multiply xfe_ops ntt_x intt_x a b = Some r /\ Forall canon3 r /\
            zlen r <= Z.max 0 (poly_degree xfe_ops a + poly_degree xfe_ops b + 1) /\
            peq k3_field (map denX r) (pmul k3_field (map denX a) (map denX b)).
Proof. exact xfe_multiply_spec. Qed.
Print Assumptions C07_xfe_multiply.

Theorem C07_xfe_fast_multiply : forall a b, Forall canon3 a -> Forall canon3 b ->
  poly_degree xfe_ops a + poly_degree xfe_ops b + 1 <= 2 ^ 31 ->
  exists r, poly_fast_multiply xfe_ops ntt_x intt_x a b = Some r /\ Forall canon3 r /\
            zlen r <= Z.max 0 (poly_degree xfe_ops a + poly_degree xfe_ops b + 1) /\
            peq k3_field (map denX r) (pmul k3_field (map denX a) (map denX b)).
Proof. exact xfe_fast_multiply_spec. Qed.
Print Assumptions C07_xfe_fast_multiply.

Theorem C07_xfe_naive_multiply : forall a b, Forall canon3 a -> Forall canon3 b ->
  Forall canon3 (poly_naive_multiply xfe_ops a b) /\
  peq k3_field (map denX (poly_naive_multiply xfe_ops a b)) (pmul k3_field (map denX a) (map denX b)).
Proof. exact xfe_naive_multiply_spec. Qed.
Print Assumptions C07_xfe_naive_multiply.

Theorem C07_xfe_square : forall l, Forall canon3 l -> 2 * poly_degree xfe_ops l + 1 <= 2 ^ 31 ->
  exists r, poly_square xfe_ops ntt_x intt_x l = Some r /\ Forall canon3 r /\
            peq k3_field (map denX r) (pmul k3_field (map denX l) (map denX l)).
Proof. exact xfe_square_spec. Qed.
Print Assumptions C07_xfe_square.

Theorem C07_xfe_fast_square : forall l, Forall canon3 l -> 2 * poly_degree xfe_ops l + 1 <= 2 ^ 31 ->
  exists r, poly_fast_square xfe_ops ntt_x intt_x l = Some r /\ Forall canon3 r /\
            peq k3_field (map denX r) (pmul k3_field (map denX l) (map denX l)).
Proof. exact xfe_fast_square_spec. Qed.
Print Assumptions C07_xfe_fast_square.

Theorem C07_xfe_slow_square : forall l, Forall canon3 l ->
  exists r, poly_slow_square xfe_ops l = Some r /\ Forall canon3 r /\
            peq k3_field (map denX r) (pmul k3_field (map denX l) (map denX l)).
Proof. exact xfe_slow_square_spec. Qed.
Print Assumptions C07_xfe_slow_square.

Theorem C07_xfe_pow : forall l e, Forall canon3 l -> 0 <= e ->
  exists r, poly_pow xfe_ops l e = Some r /\ Forall canon3 r /\
            peq k3_field (map denX r) (ppow k3_field (map denX l) (Z.to_nat e)).
Proof. exact xfe_pow_spec. Qed.
Print Assumptions C07_xfe_pow.

Theorem C07_xfe_fast_pow : forall l e, Forall canon3 l -> 0 <= e ->
  Z.max 0 (poly_degree xfe_ops l) * e * 2 + 1 <= 2 ^ 31 ->
  exists r, poly_fast_pow xfe_ops ntt_x intt_x l e = Some r /\ Forall canon3 r /\
            peq k3_field (map denX r) (ppow k3_field (map denX l) (Z.to_nat e)).
Proof. exact xfe_fast_pow_spec. Qed.
Print Assumptions C07_xfe_fast_pow.

Theorem C07_xfe_batch_multiply : forall ps, Forall (Forall canon3) ps -> total_len ps <= 2 ^ 31 ->
  exists r, poly_batch_multiply xfe_ops ntt_x intt_x ps = Some r /\ Forall canon3 r /\
            peq k3_field (map denX r) (pprod k3_field (map (map denX) ps)).
Proof. exact xfe_batch_multiply_spec. Qed.
Print Assumptions C07_xfe_batch_multiply.

Theorem C07_xfe_par_batch_multiply : forall nt ps, 1 <= nt -> Forall (Forall canon3) ps -> total_len ps <= 2 ^ 31 ->
  exists r, poly_par_batch_multiply xfe_ops ntt_x intt_x nt ps = Some r /\ Forall canon3 r /\
            peq k3_field (map denX r) (pprod k3_field (map (map denX) ps)).
Proof. exact xfe_par_batch_multiply_spec. Qed.
Print Assumptions C07_xfe_par_batch_multiply.

Theorem C07_xfe_scalar_mul : forall l s, Forall canon3 l -> canon3 s ->
  Forall canon3 (poly_scalar_mul xfe_ops l s) /\
  peq k3_field (map denX (poly_scalar_mul xfe_ops l s)) (pmul k3_field (pconst (denX s)) (map denX l)).
Proof. exact xfe_scalar_mul_spec. Qed.
Print Assumptions C07_xfe_scalar_mul.

Theorem C07_xfe_scale : forall l a, Forall canon3 l -> canon3 a ->
  Forall canon3 (poly_scale xfe_ops l a) /\ map denX (poly_scale xfe_ops l a) = pcompscale k3_field (map denX l) (denX a) /\
  forall x, peval k3_field (map denX (poly_scale xfe_ops l a)) x = peval k3_field (map denX l) (kmul k3_field (denX a) x).
Proof. exact xfe_scale_spec. Qed.
Print Assumptions C07_xfe_scale.

(* Polynomial<BFieldElement> * Polynomial<XFieldElement> *)
Theorem C07_bx_naive_multiply : forall a b, Forall canon a -> Forall canon3 b ->
  Forall canon3 (poly_naive_multiply_gen bfe_ops xfe_ops xfe_ops mul_bx a b) /\
  peq k3_field (map denX (poly_naive_multiply_gen bfe_ops xfe_ops xfe_ops mul_bx a b))
      (pmul k3_field (map bden3 a) (map denX b)).
Proof. exact bx_naive_multiply_spec. Qed.
Print Assumptions C07_bx_naive_multiply.
Theorem C07_bx_fast_multiply : forall a b, Forall canon a -> Forall canon3 b ->
  poly_degree bfe_ops a + poly_degree xfe_ops b + 1 <= 2 ^ 31 ->
  exists r, poly_fast_multiply_gen bfe_ops xfe_ops mul_bx ntt_b ntt_x intt_x a b = Some r /\ Forall canon3 r /\
            zlen r <= Z.max 0 (poly_degree bfe_ops a + poly_degree xfe_ops b + 1) /\
            peq k3_field (map denX r) (pmul k3_field (map bden3 a) (map denX b)).
Proof. exact bx_fast_multiply_spec. Qed.
Print Assumptions C07_bx_fast_multiply.
Theorem C07_bx_multiply : forall a b, Forall canon a -> Forall canon3 b ->
  poly_degree bfe_ops a + poly_degree xfe_ops b + 1 <= 2 ^ 31 ->
  exists r, poly_multiply_gen bfe_ops xfe_ops xfe_ops mul_bx ntt_b ntt_x intt_x a b = Some r /\ Forall canon3 r /\
            zlen r <= Z.max 0 (poly_degree bfe_ops a + poly_degree xfe_ops b + 1) /\
            peq k3_field (map denX r) (pmul k3_field (map bden3 a) (map denX b)).
Proof. exact bx_multiply_spec. Qed.
Print Assumptions C07_bx_multiply.
(* Polynomial<XFieldElement> * Polynomial<BFieldElement> *)
Theorem C07_xb_naive_multiply : forall a b, Forall canon3 a -> Forall canon b ->
  Forall canon3 (poly_naive_multiply_gen xfe_ops bfe_ops xfe_ops mul_xb a b) /\
  peq k3_field (map denX (poly_naive_multiply_gen xfe_ops bfe_ops xfe_ops mul_xb a b))
      (pmul k3_field (map denX a) (map bden3 b)).
Proof. exact xb_naive_multiply_spec. Qed.
Print Assumptions C07_xb_naive_multiply.
Theorem C07_xb_fast_multiply : forall a b, Forall canon3 a -> Forall canon b ->
  poly_degree xfe_ops a + poly_degree bfe_ops b + 1 <= 2 ^ 31 ->
  exists r, poly_fast_multiply_gen xfe_ops bfe_ops mul_xb ntt_x ntt_b intt_x a b = Some r /\ Forall canon3 r /\
            zlen r <= Z.max 0 (poly_degree xfe_ops a + poly_degree bfe_ops b + 1) /\
            peq k3_field (map denX r) (pmul k3_field (map denX a) (map bden3 b)).
Proof. exact xb_fast_multiply_spec. Qed.
Print Assumptions C07_xb_fast_multiply.
Theorem C07_xb_multiply : forall a b, Forall canon3 a -> Forall canon b ->
  poly_degree xfe_ops a + poly_degree bfe_ops b + 1 <= 2 ^ 31 ->
  exists r, poly_multiply_gen xfe_ops bfe_ops xfe_ops mul_xb ntt_x ntt_b intt_x a b = Some r /\ Forall canon3 r /\
            zlen r <= Z.max 0 (poly_degree xfe_ops a + poly_degree bfe_ops b + 1) /\
            peq k3_field (map denX r) (pmul k3_field (map denX a) (map bden3 b)).
Proof. exact xb_multiply_spec. Qed.
Print Assumptions C07_xb_multiply.

(* the instances exist and the mixed products are the model's xscale *)
Example C07_xfe_instance : field_ok xfe_ops k3_field canon3 denX /\ field_ok bfe_ops k3_field canon bden3.
Proof. exact (conj xfe_field_ok bfe_field_ok3). Qed.
Example C07_mixed_products : (forall b x, mul_bx b x = xscale x b) /\ (forall x b, mul_xb x b = xscale x b).
Proof. split; reflexivity. Qed.
Example C07_xfe_operands : Forall canon3 [xone; (bfe_new 5, bfe_new 7, bfe_zero)] /\ Forall canon3 [xzero; xone; xzero].
Proof. split; repeat constructor; vm_compute; (discriminate || reflexivity). Qed.
