(* props/C08.v - property C08: interpolation, bulk evaluation, zerofiers and coset extrapolation are exact.
   Only statements, each closed by `exact`, each followed by Print Assumptions.

   Reading guide.  `o : fops F` is the record of field operations the Rust code is generic over; `field_ok o fk ok den`
   (lib/FieldTheory.v) says that it implements the abstract field `fk : fieldK K` on representations satisfying `ok`,
   `den` giving the denoted element (instance for BFieldElement: BFieldOk.bfe_field_ok).  A raw coefficient list `l`
   denotes `map den l`; `peq` is equality of polynomials; `Some r` = no panic; `pint_*` are the models of
   coq/model/PolyInterp.v (one per Rust function, thread counts `nt` explicit).
     zspec fk rs             = prod (X - r_i)                            (proofs/PolyInterpAlg.v)
     interpolates fk xs ys p = p has degree < |xs| and p(x_i) = y_i; by C08_interpolant_unique there is exactly one such
                               polynomial when the x_i are pairwise distinct: THE interpolant of the property
   Hypotheses from the neighbouring properties (definitions in proofs/PolyInterpProofs.v), `bnd` = the size up to which
   they are available (2^31 for the base field):
     mul_exact  (C07_multiply)            `multiply` returns the product, at most deg a + deg b + 1 coefficients
     pbm_exact  (C07_par_batch_multiply)  `par_batch_multiply`, any thread count >= 1, returns the product of the factors
     red_exact / fred_exact (C09)         `reduce` / `fast_reduce` by a non-zero modulus return a congruent polynomial
     ntt_ok / intt_ok / roots_ok (C06, in the form of proofs/PolyC07Wrap.v)  ntt = DFT at a primitive 2^l-th root, intt = inverse
   The C08_bfe_* theorems are the instances for Polynomial<BFieldElement> in which the C06 / C07 hypotheses are discharged. *)
From Coq Require Import ZArith Bool List.
From TF Require Import Word BFieldGen BField FieldOps FieldTheory PolyGen PolyCore PolySpec Ntt PolyInterp.
From TF Require Import PolyInterpAlg PolyInterpBase PolyInterpProofs PolyCoreProofs PolyC07Wrap BFieldProofs BFieldOk PolyValueSem.
Import ListNotations.
Open Scope Z_scope.

(* ---------------------------------------------------------------- the specification side *)
(* a polynomial of degree < n with n pairwise distinct roots is zero *)
Theorem C08_root_bound : forall {K} (fk : fieldK K) (xs : list K), NoDup xs ->
  forall p, deg_lt fk p (length xs) -> (forall x, In x xs -> peval fk p x = k0 fk) -> pzero fk p.
Proof. exact @root_bound. Qed.
Print Assumptions C08_root_bound.
(* hence the interpolant through points with pairwise distinct abscissae is unique *)
Theorem C08_interpolant_unique : forall {K} (fk : fieldK K) (xs ys p q : list K), NoDup xs ->
  interpolates fk xs ys p -> interpolates fk xs ys q -> peq fk p q.
Proof. exact @interpolant_unique. Qed.
Print Assumptions C08_interpolant_unique.
(* the zerofier of the specification: monic of degree n, vanishing exactly at the roots *)
Theorem C08_zspec_roots : forall {K} (fk : fieldK K) (rs : list K) (x : K),
  (In x rs -> peval fk (zspec fk rs) x = k0 fk) /\ (~ In x rs -> peval fk (zspec fk rs) x <> k0 fk) /\
  pdeg fk (zspec fk rs) = Z.of_nat (length rs) /\ coeff fk (zspec fk rs) (length rs) = k1 fk.
Proof.
  exact (fun K fk rs x => conj (peval_zspec_root fk rs x) (conj (peval_zspec_nonroot fk rs x) (conj (zspec_pdeg fk rs) (zspec_monic fk rs)))).
Qed.
Print Assumptions C08_zspec_roots.

(* ---------------------------------------------------------------- zerofiers: every strategy, every n *)
Theorem C08_smart_zerofier :
  forall {F K} (o : fops F) (fk : fieldK K) (ok : F -> Prop) (den : F -> K), field_ok o fk ok den ->
  forall rs, Forall ok rs ->
  Forall ok (pint_smart_zerofier o rs) /\ length (pint_smart_zerofier o rs) = S (length rs) /\
  peq fk (map den (pint_smart_zerofier o rs)) (zspec fk (map den rs)).
Proof. exact (fun F K o fk ok den H => smart_zerofier_spec o fk ok den H (fun _ => None) (fun _ => None)). Qed.
Print Assumptions C08_smart_zerofier.

(* zerofier (smart below FAST_ZEROFIER_CUTOFF_THRESHOLD, recursive fast_zerofier above) and fast_zerofier *)
Theorem C08_zerofier :
  forall {F K} (o : fops F) (fk : fieldK K) (ok : F -> Prop) (den : F -> K), field_ok o fk ok den ->
  forall ntt intt bnd, mul_exact o fk ok den ntt intt bnd ->
  forall rs, Forall ok rs -> Z.of_nat (length rs) + 1 <= bnd ->
  exists z, pint_zerofier o ntt intt rs = Some z /\ Forall ok z /\ length z = S (length rs) /\
            peq fk (map den z) (zspec fk (map den rs)).
Proof. exact @zerofier_spec. Qed.
Print Assumptions C08_zerofier.
Theorem C08_fast_zerofier :
  forall {F K} (o : fops F) (fk : fieldK K) (ok : F -> Prop) (den : F -> K), field_ok o fk ok den ->
  forall ntt intt bnd, mul_exact o fk ok den ntt intt bnd ->
  forall rs, Forall ok rs -> Z.of_nat (length rs) + 1 <= bnd ->
  exists z, pint_fast_zerofier o ntt intt rs = Some z /\ Forall ok z /\ peq fk (map den z) (zspec fk (map den rs)).
Proof. exact @fast_zerofier_spec. Qed.
Print Assumptions C08_fast_zerofier.
(* par_zerofier: any thread count >= 1 *)
Theorem C08_par_zerofier :
  forall {F K} (o : fops F) (fk : fieldK K) (ok : F -> Prop) (den : F -> K), field_ok o fk ok den ->
  forall ntt intt bnd, mul_exact o fk ok den ntt intt bnd -> pbm_exact o fk ok den ntt intt bnd ->
  forall nt rs, 1 <= nt -> Forall ok rs -> 2 * Z.of_nat (length rs) <= bnd ->
  exists z, pint_par_zerofier o ntt intt nt rs = Some z /\ Forall ok z /\ peq fk (map den z) (zspec fk (map den rs)).
Proof. exact @par_zerofier_spec. Qed.
Print Assumptions C08_par_zerofier.
(* ZerofierTree::new_from_domain(..).zerofier(), any number of points (the VecDeque loop, padding included) *)
Theorem C08_tree_zerofier :
  forall {F K} (o : fops F) (fk : fieldK K) (ok : F -> Prop) (den : F -> K), field_ok o fk ok den ->
  forall ntt intt bnd, mul_exact o fk ok den ntt intt bnd ->
  forall dom, Forall ok dom -> Z.of_nat (length dom) + 1 <= bnd ->
  exists t, pint_tree_new_from_domain o ntt intt dom = Some t /\
            Forall ok (pint_tree_zerofier o t) /\ peq fk (map den (pint_tree_zerofier o t)) (zspec fk (map den dom)).
Proof. exact @tree_zerofier_spec. Qed.
Print Assumptions C08_tree_zerofier.

(* ---------------------------------------------------------------- bulk evaluation = Horner at every point, input order *)
Theorem C08_iterative_batch_evaluate :
  forall {F K} (o : fops F) (fk : fieldK K) (ok : F -> Prop) (den : F -> K), field_ok o fk ok den ->
  forall p dom, Forall ok p -> Forall ok dom ->
  Forall ok (pint_iterative_batch_evaluate o p dom) /\
  map den (pint_iterative_batch_evaluate o p dom) = map (peval fk (map den p)) (map den dom).
Proof. exact @iterative_batch_evaluate_spec. Qed.
Print Assumptions C08_iterative_batch_evaluate.
(* divide_and_conquer_batch_evaluate over the tree built by new_from_domain *)
Theorem C08_dac_batch_evaluate :
  forall {F K} (o : fops F) (fk : fieldK K) (ok : F -> Prop) (den : F -> K), field_ok o fk ok den ->
  forall ntt intt bnd, mul_exact o fk ok den ntt intt bnd -> red_exact o fk ok den ntt intt ->
  forall p dom, Forall ok p -> Forall ok dom -> Z.of_nat (length dom) + 1 <= bnd ->
  exists t vs, pint_tree_new_from_domain o ntt intt dom = Some t /\ pint_dac_batch_evaluate o ntt intt p t = Some vs /\
               Forall ok vs /\ map den vs = map (peval fk (map den p)) (map den dom).
Proof.
  exact (fun F K o fk ok den H ntt intt bnd Hm Hr p dom Hp Hd Hs =>
    match tree_new_from_domain_spec o fk ok den H ntt intt bnd Hm dom Hd Hs with
    | ex_intro _ t (conj Et Tt) =>
        match dac_batch_evaluate_spec o fk ok den H ntt intt Hr t dom Tt p Hp with
        | ex_intro _ vs Hv => ex_intro _ t (ex_intro _ vs (conj Et Hv))
        end
    end).
Qed.
Print Assumptions C08_dac_batch_evaluate.
(* batch_evaluate: the zero polynomial, reduce-first (degree >= 4 |domain|) and divide-and-conquer arms *)
Theorem C08_batch_evaluate :
  forall {F K} (o : fops F) (fk : fieldK K) (ok : F -> Prop) (den : F -> K), field_ok o fk ok den ->
  forall ntt intt bnd, mul_exact o fk ok den ntt intt bnd -> red_exact o fk ok den ntt intt -> fred_exact o fk ok den ntt intt ->
  forall p dom, Forall ok p -> Forall ok dom -> Z.of_nat (length dom) + 1 <= bnd ->
  exists vs, pint_batch_evaluate o ntt intt p dom = Some vs /\ Forall ok vs /\
             map den vs = map (peval fk (map den p)) (map den dom).
Proof. exact @batch_evaluate_spec. Qed.
Print Assumptions C08_batch_evaluate.
(* par_batch_evaluate: any thread count >= 1 *)
Theorem C08_par_batch_evaluate :
  forall {F K} (o : fops F) (fk : fieldK K) (ok : F -> Prop) (den : F -> K), field_ok o fk ok den ->
  forall ntt intt bnd, mul_exact o fk ok den ntt intt bnd -> red_exact o fk ok den ntt intt -> fred_exact o fk ok den ntt intt ->
  forall nt p dom, 1 <= nt -> Forall ok p -> Forall ok dom -> Z.of_nat (length dom) + 1 <= bnd ->
  exists vs, pint_par_batch_evaluate o ntt intt nt p dom = Some vs /\ Forall ok vs /\
             map den vs = map (peval fk (map den p)) (map den dom).
Proof. exact @par_batch_evaluate_spec. Qed.
Print Assumptions C08_par_batch_evaluate.

(* ---------------------------------------------------------------- interpolation: every strategy returns THE interpolant *)
Theorem C08_lagrange_interpolate :
  forall {F K} (o : fops F) (fk : fieldK K) (ok : F -> Prop) (den : F -> K), field_ok o fk ok den ->
  forall ntt intt bnd, mul_exact o fk ok den ntt intt bnd ->
  forall dbg domain values, Forall ok domain -> Forall ok values -> NoDup (map den domain) ->
  length values = length domain -> domain <> [] -> Z.of_nat (length domain) + 1 <= bnd ->
  exists r, pint_lagrange_interpolate o ntt intt dbg domain values = Some r /\ Forall ok r /\
            length r = length domain /\ interpolates fk (map den domain) (map den values) (map den r).
Proof. exact @lagrange_interpolate_spec. Qed.
Print Assumptions C08_lagrange_interpolate.
(* interpolate: Lagrange up to FAST_INTERPOLATE_CUTOFF_THRESHOLD_SEQUENTIAL, the recursive fast_interpolate above *)
Theorem C08_interpolate :
  forall {F K} (o : fops F) (fk : fieldK K) (ok : F -> Prop) (den : F -> K), field_ok o fk ok den ->
  forall ntt intt bnd, mul_exact o fk ok den ntt intt bnd -> red_exact o fk ok den ntt intt -> fred_exact o fk ok den ntt intt ->
  forall dbg domain values, Forall ok domain -> Forall ok values -> NoDup (map den domain) ->
  length values = length domain -> domain <> [] -> Z.of_nat (length domain) + 1 <= bnd ->
  exists r, pint_interpolate o ntt intt dbg domain values = Some r /\ Forall ok r /\
            interpolates fk (map den domain) (map den values) (map den r).
Proof. exact @interpolate_spec. Qed.
Print Assumptions C08_interpolate.
Theorem C08_fast_interpolate :
  forall {F K} (o : fops F) (fk : fieldK K) (ok : F -> Prop) (den : F -> K), field_ok o fk ok den ->
  forall ntt intt bnd, mul_exact o fk ok den ntt intt bnd -> red_exact o fk ok den ntt intt -> fred_exact o fk ok den ntt intt ->
  forall dbg domain values, Forall ok domain -> Forall ok values -> NoDup (map den domain) ->
  length values = length domain -> domain <> [] -> Z.of_nat (length domain) + 1 <= bnd ->
  exists r, pint_fast_interpolate o ntt intt dbg domain values = Some r /\ Forall ok r /\
            interpolates fk (map den domain) (map den values) (map den r).
Proof. exact @fast_interpolate_spec. Qed.
Print Assumptions C08_fast_interpolate.
(* par_interpolate / par_fast_interpolate: any thread count >= 1 *)
Theorem C08_par_interpolate :
  forall {F K} (o : fops F) (fk : fieldK K) (ok : F -> Prop) (den : F -> K), field_ok o fk ok den ->
  forall ntt intt bnd, mul_exact o fk ok den ntt intt bnd -> red_exact o fk ok den ntt intt -> fred_exact o fk ok den ntt intt ->
  forall dbg nt domain values, 1 <= nt -> Forall ok domain -> Forall ok values -> NoDup (map den domain) ->
  length values = length domain -> domain <> [] -> Z.of_nat (length domain) + 1 <= bnd ->
  exists r, pint_par_interpolate o ntt intt dbg nt domain values = Some r /\ Forall ok r /\
            interpolates fk (map den domain) (map den values) (map den r).
Proof. exact @par_interpolate_spec. Qed.
Print Assumptions C08_par_interpolate.
Theorem C08_par_fast_interpolate :
  forall {F K} (o : fops F) (fk : fieldK K) (ok : F -> Prop) (den : F -> K), field_ok o fk ok den ->
  forall ntt intt bnd, mul_exact o fk ok den ntt intt bnd -> red_exact o fk ok den ntt intt -> fred_exact o fk ok den ntt intt ->
  forall dbg nt domain values, 1 <= nt -> Forall ok domain -> Forall ok values -> NoDup (map den domain) ->
  length values = length domain -> domain <> [] -> Z.of_nat (length domain) + 1 <= bnd ->
  exists r, pint_par_fast_interpolate o ntt intt dbg nt domain values = Some r /\ Forall ok r /\
            interpolates fk (map den domain) (map den values) (map den r).
Proof. exact @par_fast_interpolate_spec. Qed.
Print Assumptions C08_par_fast_interpolate.

(* ---------------------------------------------------------------- coset evaluation / interpolation (NTT based) *)
(* fast_coset_evaluate = Horner on { offset * w^i }, w the root of the domain length, in this order *)
Theorem C08_fast_coset_evaluate :
  forall {F K} (o : fops F) (fk : fieldK K) (ok : F -> Prop) (den : F -> K), field_ok o fk ok den ->
  forall ntt lmax wr, ntt_ok fk ok den ntt lmax wr ->
  forall l p offset, (l <= lmax)%nat -> (l <= 62)%nat -> Forall ok p -> ok offset -> poly_degree o p < 2 ^ Z.of_nat l ->
  exists r, pint_fast_coset_evaluate o ntt p offset (2 ^ Z.of_nat l) = Some r /\ Forall ok r /\
            map den r = map (peval fk (map den p)) (coset_points fk wr (den offset) l).
Proof. exact (fun F K o fk ok den H ntt => fast_coset_evaluate_spec o fk ok den H ntt). Qed.
Print Assumptions C08_fast_coset_evaluate.
(* fast_coset_interpolate returns fewer than n coefficients and passes through the codeword on the coset *)
Theorem C08_fast_coset_interpolate :
  forall {F K} (o : fops F) (fk : fieldK K) (ok : F -> Prop) (den : F -> K), field_ok o fk ok den ->
  forall intt lmax wr, intt_ok fk ok den intt lmax wr -> roots_ok fk lmax wr ->
  forall l offset values, (l <= lmax)%nat -> ok offset -> den offset <> k0 fk -> Forall ok values ->
  length values = (2 ^ l)%nat ->
  exists r, pint_fast_coset_interpolate o intt offset values = Some r /\ Forall ok r /\ length r = length values /\
            map (peval fk (map den r)) (coset_points fk wr (den offset) l) = map den values.
Proof. exact (fun F K o fk ok den H intt => fast_coset_interpolate_spec o fk ok den H intt). Qed.
Print Assumptions C08_fast_coset_interpolate.
(* they are inverse to each other *)
Theorem C08_coset_evaluate_interpolate :
  forall {F K} (o : fops F) (fk : fieldK K) (ok : F -> Prop) (den : F -> K), field_ok o fk ok den ->
  forall ntt intt lmax wr, ntt_ok fk ok den ntt lmax wr -> intt_ok fk ok den intt lmax wr -> roots_ok fk lmax wr ->
  forall l offset values, (l <= lmax)%nat -> (l <= 62)%nat -> ok offset -> den offset <> k0 fk -> Forall ok values ->
  length values = (2 ^ l)%nat ->
  exists r, pint_fast_coset_interpolate o intt offset values = Some r /\
            pint_fast_coset_evaluate o ntt r offset (2 ^ Z.of_nat l) = Some values.
Proof. exact @coset_evaluate_interpolate. Qed.
Print Assumptions C08_coset_evaluate_interpolate.
Theorem C08_coset_interpolate_evaluate :
  forall {F K} (o : fops F) (fk : fieldK K) (ok : F -> Prop) (den : F -> K), field_ok o fk ok den ->
  forall ntt intt lmax wr, ntt_ok fk ok den ntt lmax wr -> intt_ok fk ok den intt lmax wr -> roots_ok fk lmax wr ->
  forall l p offset, (l <= lmax)%nat -> (l <= 62)%nat -> Forall ok p -> ok offset -> den offset <> k0 fk ->
  poly_degree o p < 2 ^ Z.of_nat l ->
  exists v r, pint_fast_coset_evaluate o ntt p offset (2 ^ Z.of_nat l) = Some v /\
              pint_fast_coset_interpolate o intt offset v = Some r /\ Forall ok r /\ peq fk (map den r) (map den p).
Proof. exact @coset_interpolate_evaluate. Qed.
Print Assumptions C08_coset_interpolate_evaluate.
(* the coset consists of 2^l pairwise distinct points *)
Theorem C08_coset_points_distinct :
  forall {K} (fk : fieldK K) lmax wr, roots_ok fk lmax wr ->
  forall offset l, (l <= lmax)%nat -> offset <> k0 fk -> NoDup (coset_points fk wr offset l).
Proof. exact @coset_points_NoDup. Qed.
Print Assumptions C08_coset_points_distinct.

(* ---------------------------------------------------------------- batched interpolation, memoisation soundness *)
(* batch_fast_interpolate: every row of the matrix gets THE interpolant.  The tables keyed by (first, last) start empty; the
   proof (bfi_go_spec) shows that on a duplicate-free domain no lookup ever hits - distinct sub-slices have distinct keys -
   so nothing stale can be read.  The root / order arguments are only inspected by a debug assertion. *)
Theorem C08_batch_fast_interpolate :
  forall {F K} (o : fops F) (fk : fieldK K) (ok : F -> Prop) (den : F -> K), field_ok o fk ok den ->
  forall ntt intt bnd, mul_exact o fk ok den ntt intt bnd -> red_exact o fk ok den ntt intt -> fred_exact o fk ok den ntt intt ->
  forall dbg domain matrix root order, Forall ok domain -> domain <> [] -> NoDup (map den domain) ->
  Z.of_nat (length domain) + 1 <= bnd -> Forall (fun v => Forall ok v /\ length v = length domain) matrix ->
  (dbg = true -> mod_pow root (order mod 2 ^ 32) = bfe_one) ->
  exists rs, pint_batch_fast_interpolate o ntt intt dbg domain matrix root order = Some rs /\
             Forall2 (fun v r => Forall ok r /\ interpolates fk (map den domain) (map den v) (map den r)) matrix rs.
Proof. exact @batch_fast_interpolate_spec. Qed.
Print Assumptions C08_batch_fast_interpolate.
(* the memoised worker with arbitrary incoming tables: sound whenever the only key both of whose components lie in the
   domain is the key of the domain itself (memo_inv; trivially true of empty tables) *)
Theorem C08_batch_fast_interpolate_with_memoization :
  forall {F K} (o : fops F) (fk : fieldK K) (ok : F -> Prop) (den : F -> K), field_ok o fk ok den ->
  forall ntt intt bnd, mul_exact o fk ok den ntt intt bnd -> red_exact o fk ok den ntt intt -> fred_exact o fk ok den ntt intt ->
  forall dbg domain matrix memo, Forall ok domain -> domain <> [] -> NoDup (map den domain) ->
  Z.of_nat (length domain) + 1 <= bnd -> Forall (fun v => Forall ok v /\ length v = length domain) matrix ->
  memo_ok ok memo -> memo_inv o den domain memo ->
  exists rs memo', pint_batch_fast_interpolate_with_memoization o ntt intt dbg domain matrix memo = Some (rs, memo') /\
    Forall2 (fun v r => Forall ok r /\ interpolates fk (map den domain) (map den v) (map den r)) matrix rs /\ memo_ok ok memo'.
Proof. exact @batch_fast_interpolate_with_memoization_spec. Qed.
Print Assumptions C08_batch_fast_interpolate_with_memoization.
Example C08_memo_inv_empty : forall {F K} (o : fops F) (ok : F -> Prop) (den : F -> K) domain,
  memo_ok ok ([], []) /\ memo_inv o den domain ([], []).
Proof. exact (fun F K o ok den domain => conj (Forall_nil _) (fun k (Hk : False) => False_ind _ Hk)). Qed.

(* ---------------------------------------------------------------- coset extrapolation = evaluate (interpolate on the coset) *)
(* `emb b` = the element of K denoted by the base-field word b (offset, roots); lift_ok / binv_ok: FF::from(b.value())
   and b.inverse() respect it (C01).  extrapolation_of offset l cw pts vs: for EVERY polynomial ip that interpolates the
   codeword cw on the coset offset * <wr l>, vs = [ip(pt) | pt in pts]. *)
Theorem C08_coset_interpolant :
  forall {F K} (o : fops F) (fk : fieldK K) (ok : F -> Prop) (den : F -> K), field_ok o fk ok den ->
  forall intt lmax wr, intt_ok fk ok den intt lmax wr -> roots_ok fk lmax wr ->
  forall emb, lift_ok o ok den emb -> binv_ok fk emb ->
  forall l offset cw, (l <= lmax)%nat -> canon offset -> emb offset <> k0 fk -> Forall ok cw -> length cw = (2 ^ l)%nat ->
  exists ip, pint_coset_interpolant o intt offset cw = Some ip /\ Forall ok ip /\
             interpolates fk (coset_points fk wr (emb offset) l) (map den cw) (map den ip).
Proof. exact (fun F K o fk ok den H intt => coset_interpolant_spec o fk ok den H intt). Qed.
Print Assumptions C08_coset_interpolant.
Theorem C08_naive_coset_extrapolate :
  forall {F K} (o : fops F) (fk : fieldK K) (ok : F -> Prop) (den : F -> K), field_ok o fk ok den ->
  forall ntt intt bnd lmax wr, mul_exact o fk ok den ntt intt bnd -> red_exact o fk ok den ntt intt ->
  fred_exact o fk ok den ntt intt -> intt_ok fk ok den intt lmax wr -> roots_ok fk lmax wr ->
  forall emb, lift_ok o ok den emb -> binv_ok fk emb ->
  forall l offset cw pts, (l <= lmax)%nat -> canon offset -> emb offset <> k0 fk -> Forall ok cw -> length cw = (2 ^ l)%nat ->
  Forall ok pts -> Z.of_nat (length pts) + 1 <= bnd ->
  exists vs, pint_naive_coset_extrapolate o ntt intt offset cw pts = Some vs /\ Forall ok vs /\
             extrapolation_of fk den wr emb offset l cw pts vs.
Proof. exact (fun F K o fk ok den H ntt intt bnd => naive_coset_extrapolate_spec o fk ok den H ntt intt bnd). Qed.
Print Assumptions C08_naive_coset_extrapolate.
(* the fast arm and the dispatcher, given that fast_modular_coset_interpolate returns a polynomial congruent to the interpolant
   modulo the zerofier of the points (fmci_exact: proved below for codeword lengths up to 2^17, C08_fmci_small_partial) *)
Theorem C08_coset_extrapolate :
  forall {F K} (o : fops F) (fk : fieldK K) (ok : F -> Prop) (den : F -> K), field_ok o fk ok den ->
  forall ntt intt bnd act lmax wr, mul_exact o fk ok den ntt intt bnd -> red_exact o fk ok den ntt intt ->
  fred_exact o fk ok den ntt intt -> intt_ok fk ok den intt lmax wr -> roots_ok fk lmax wr ->
  forall emb, lift_ok o ok den emb -> binv_ok fk emb ->
  forall dbg, fmci_exact o fk ok den ntt intt act lmax wr emb dbg ->
  forall l offset cw pts, (l <= lmax)%nat -> canon offset -> emb offset <> k0 fk -> Forall ok cw -> length cw = (2 ^ l)%nat ->
  Forall ok pts -> Z.of_nat (length pts) + 1 <= bnd ->
  exists vs, pint_coset_extrapolate o act ntt intt dbg offset cw pts = Some vs /\ Forall ok vs /\
             extrapolation_of fk den wr emb offset l cw pts vs.
Proof. exact @coset_extrapolate_spec. Qed.
Print Assumptions C08_coset_extrapolate.
(* batch_coset_extrapolate = par_batch_coset_extrapolate = the per-codeword extrapolations, concatenated in order; rbnf_exact:
   the C09 statement about shift_factor_ntt_with_tail_length / reduce_by_ntt_friendly_modulus; the preprocessing is assumed
   not to panic *)
Theorem C08_batch_coset_extrapolate :
  forall {F K} (o : fops F) (fk : fieldK K) (ok : F -> Prop) (den : F -> K), field_ok o fk ok den ->
  forall ntt intt bnd act lmax wr, mul_exact o fk ok den ntt intt bnd -> red_exact o fk ok den ntt intt ->
  intt_ok fk ok den intt lmax wr -> roots_ok fk lmax wr ->
  forall emb, lift_ok o ok den emb -> binv_ok fk emb ->
  forall dbg, fmci_exact o fk ok den ntt intt act lmax wr emb dbg -> rbnf_exact o fk ok den ntt intt ->
  forall l offset cws pts, (l <= lmax)%nat -> canon offset -> emb offset <> k0 fk -> Forall ok cws -> Forall ok pts ->
  Z.of_nat (length pts) + 1 <= bnd ->
  (exists pre, pint_fmci_preprocess o ntt intt (2 ^ Z.of_nat l) offset
                 (match pint_tree_new_from_domain o ntt intt pts with Some t => pint_tree_zerofier o t | None => [] end) = Some pre) ->
  exists vs, pint_batch_coset_extrapolate o act ntt intt dbg offset (2 ^ Z.of_nat l) cws pts = Some vs /\
             pint_par_batch_coset_extrapolate o act ntt intt dbg offset (2 ^ Z.of_nat l) cws pts = Some vs /\ Forall ok vs /\
             batch_extrapolation_of fk den wr emb offset l (2 ^ Z.of_nat l) cws pts vs.
Proof. exact @batch_coset_extrapolate_spec. Qed.
Print Assumptions C08_batch_coset_extrapolate.

(* fast_modular_coset_interpolate, PARTIAL: the Lagrange regime (n < 2^8) and the INTT regime (2^8 <= n <= 2^17) return a
   polynomial congruent to the interpolant modulo the modulus, provided the preprocessing did not panic.  Not proved: the
   even/odd recursion for n > 2^17 (C08_fmci_first_statement_superseded below stays a Definition; the regime is exercised by the thorough tier
   of the correspondence check with 2^18-element codewords against the naive inverse-DFT + long-division spec). *)
Theorem C08_fmci_small_partial :
  forall {F K} (o : fops F) (fk : fieldK K) (ok : F -> Prop) (den : F -> K), field_ok o fk ok den ->
  forall ntt intt bnd act lmax wr, mul_exact o fk ok den ntt intt bnd -> red_exact o fk ok den ntt intt ->
  intt_ok fk ok den intt lmax wr -> roots_ok fk lmax wr ->
  forall emb, lift_ok o ok den emb -> binv_ok fk emb ->
  forall dbg, act_ok fk ok den act emb -> root_ok lmax wr emb -> rbnf_exact o fk ok den ntt intt ->
  forall l offset cw m pre, (l <= lmax)%nat -> 2 ^ Z.of_nat l <= FAST_MODULAR_COSET_INTERPOLATE_CUTOFF_THRESHOLD_PREFER_INTT ->
  canon offset -> emb offset <> k0 fk -> Forall ok cw -> length cw = (2 ^ l)%nat -> Z.of_nat (length cw) + 1 <= bnd ->
  Forall ok m -> ~ pzero fk (map den m) -> pint_fmci_preprocess o ntt intt (zlen cw) offset m = Some pre ->
  exists r, pint_fmci_with_zerofiers_and_ntt_friendly_multiple o act ntt intt dbg cw offset m pre = Some r /\
            pint_fast_modular_coset_interpolate o act ntt intt dbg cw offset m = Some r /\ Forall ok r /\
            forall ip, interpolates fk (coset_points fk wr (emb offset) l) (map den cw) ip -> congruent fk ip (map den m) (map den r).
Proof. exact @fmci_small_spec. Qed.
Print Assumptions C08_fmci_small_partial.
(* SUPERSEDED placeholders: the two Definitions below are the statements as first written down; they are NOT provable as
   written (fmci: `red_exact` promises only a congruent polynomial where the recursion needs THE remainder; barycentric: no
   hypothesis on the scalar lift the model calls).  The corrected statements are PROVED and pinned in props/C08b.v:
   C08_fmci_spec, C08_bfe_fast_modular_coset_interpolate, C08_xfe_fast_modular_coset_interpolate, C08_barycentric_spec,
   C08_barycentric_formula, C08_bfe_barycentric_evaluate, C08_xfe_barycentric_evaluate. *)
Definition C08_fmci_first_statement_superseded : Prop :=
  forall (F K : Type) (o : fops F) (fk : fieldK K) (ok : F -> Prop) (den : F -> K), field_ok o fk ok den ->
  forall ntt intt bnd act lmax wr, mul_exact o fk ok den ntt intt bnd -> red_exact o fk ok den ntt intt ->
  ntt_ok fk ok den ntt lmax wr -> intt_ok fk ok den intt lmax wr -> roots_ok fk lmax wr ->
  forall emb, lift_ok o ok den emb -> binv_ok fk emb -> act_ok fk ok den act emb -> root_ok lmax wr emb ->
  rbnf_exact o fk ok den ntt intt ->
  forall dbg, fmci_exact o fk ok den ntt intt act lmax wr emb dbg.
(* barycentric_evaluate: not proved (the barycentric formula for roots of unity); full statement, tied by correspondence *)
Definition C08_barycentric_first_statement_superseded : Prop :=
  forall (F K : Type) (o : fops F) (fk : fieldK K) (ok : F -> Prop) (den : F -> K), field_ok o fk ok den ->
  forall act lmax wr emb, roots_ok fk lmax wr -> act_ok fk ok den act emb -> root_ok lmax wr emb ->
  forall l cw x, (l <= lmax)%nat -> Forall ok cw -> length cw = (2 ^ l)%nat -> ok x ->
  ~ In (den x) (coset_points fk wr (k1 fk) l) ->
  exists r, pint_barycentric_evaluate o act cw x = Some r /\ ok r /\
            forall ip, interpolates fk (coset_points fk wr (k1 fk) l) (map den cw) ip -> den r = peval fk ip (den x).

(* ---------------------------------------------------------------- Polynomial<BFieldElement>: C06 / C07 discharged *)
Example C08_bfe_instance : field_ok bfe_ops fp_field canon bden.
Proof. exact bfe_field_ok. Qed.
Example C08_bfe_hypotheses :
  mul_exact bfe_ops fp_field canon bden ntt_b intt_b (2 ^ 31) /\ pbm_exact bfe_ops fp_field canon bden ntt_b intt_b (2 ^ 31) /\
  ntt_ok fp_field canon bden ntt_b 31 wr_b /\ intt_ok fp_field canon bden intt_b 31 wr_b /\ roots_ok fp_field 31 wr_b.
Proof. exact (conj bfe_mul_exact (conj bfe_pbm_exact (conj bfe_ntt_ok (conj bfe_intt_ok bfe_roots_ok)))). Qed.

Theorem C08_bfe_zerofier : forall rs, Forall canon rs -> Z.of_nat (length rs) + 1 <= 2 ^ 31 ->
  exists z, pint_zerofier bfe_ops ntt_b intt_b rs = Some z /\ Forall canon z /\ length z = S (length rs) /\
            peq fp_field (map bden z) (zspec fp_field (map bden rs)).
Proof. exact (zerofier_spec bfe_ops fp_field canon bden bfe_field_ok ntt_b intt_b (2 ^ 31) bfe_mul_exact). Qed.
Print Assumptions C08_bfe_zerofier.
Theorem C08_bfe_par_zerofier : forall nt rs, 1 <= nt -> Forall canon rs -> 2 * Z.of_nat (length rs) <= 2 ^ 31 ->
  exists z, pint_par_zerofier bfe_ops ntt_b intt_b nt rs = Some z /\ Forall canon z /\
            peq fp_field (map bden z) (zspec fp_field (map bden rs)).
Proof. exact (par_zerofier_spec bfe_ops fp_field canon bden bfe_field_ok ntt_b intt_b (2 ^ 31) bfe_mul_exact bfe_pbm_exact). Qed.
Print Assumptions C08_bfe_par_zerofier.
Theorem C08_bfe_tree_zerofier : forall dom, Forall canon dom -> Z.of_nat (length dom) + 1 <= 2 ^ 31 ->
  exists t, pint_tree_new_from_domain bfe_ops ntt_b intt_b dom = Some t /\
            Forall canon (pint_tree_zerofier bfe_ops t) /\
            peq fp_field (map bden (pint_tree_zerofier bfe_ops t)) (zspec fp_field (map bden dom)).
Proof. exact (tree_zerofier_spec bfe_ops fp_field canon bden bfe_field_ok ntt_b intt_b (2 ^ 31) bfe_mul_exact). Qed.
Print Assumptions C08_bfe_tree_zerofier.
Theorem C08_bfe_lagrange_interpolate : forall dbg domain values, Forall canon domain -> Forall canon values ->
  NoDup (map bden domain) -> length values = length domain -> domain <> [] -> Z.of_nat (length domain) + 1 <= 2 ^ 31 ->
  exists r, pint_lagrange_interpolate bfe_ops ntt_b intt_b dbg domain values = Some r /\ Forall canon r /\
            length r = length domain /\ interpolates fp_field (map bden domain) (map bden values) (map bden r).
Proof. exact (lagrange_interpolate_spec bfe_ops fp_field canon bden bfe_field_ok ntt_b intt_b (2 ^ 31) bfe_mul_exact). Qed.
Print Assumptions C08_bfe_lagrange_interpolate.
Theorem C08_bfe_coset_round_trip : forall l offset values, (l <= 31)%nat -> canon offset -> bden offset <> k0 fp_field ->
  Forall canon values -> length values = (2 ^ l)%nat ->
  exists r, pint_fast_coset_interpolate bfe_ops intt_b offset values = Some r /\
            pint_fast_coset_evaluate bfe_ops ntt_b r offset (2 ^ Z.of_nat l) = Some values.
Proof.
  exact (fun l offset values Hl => coset_evaluate_interpolate bfe_ops fp_field canon bden bfe_field_ok ntt_b intt_b 31 wr_b
           bfe_ntt_ok bfe_intt_ok bfe_roots_ok l offset values Hl (Nat.le_trans _ _ _ Hl (proj1 (Nat.leb_le 31 62) eq_refl))).
Qed.
Print Assumptions C08_bfe_coset_round_trip.

Example C08_bfe_extrapolation_hypotheses :
  lift_ok bfe_ops canon bden bden /\ binv_ok fp_field bden /\ act_ok fp_field canon bden bb_act bden /\ root_ok 31 wr_b bden.
Proof. exact (conj bfe_lift_ok (conj bfe_binv_ok (conj bfe_act_ok bfe_root_ok))). Qed.
(* the interpolant of a codeword on the coset offset * <w>: no hypothesis left for the base field *)
Theorem C08_bfe_coset_interpolant : forall l offset cw, (l <= 31)%nat -> canon offset -> bden offset <> k0 fp_field ->
  Forall canon cw -> length cw = (2 ^ l)%nat ->
  exists ip, pint_coset_interpolant bfe_ops intt_b offset cw = Some ip /\ Forall canon ip /\
             interpolates fp_field (coset_points fp_field wr_b (bden offset) l) (map bden cw) (map bden ip).
Proof.
  exact (coset_interpolant_spec bfe_ops fp_field canon bden bfe_field_ok intt_b 31 wr_b bfe_intt_ok bfe_roots_ok bden bfe_lift_ok bfe_binv_ok).
Qed.
Print Assumptions C08_bfe_coset_interpolant.

(* concrete instances: zerofier of {2, 4, 6} and the interpolant through (0,1), (1,3), (2,5), (3,7) (= 1 + 2X) *)
Example C08_ex_zerofier :
  option_map (map bfe_value) (pint_zerofier bfe_ops ntt_b intt_b (map bfe_new [2; 4; 6])) =
  Some [18446744069414584273; 44; 18446744069414584309; 1].
Proof. vm_compute. reflexivity. Qed.
Example C08_ex_interpolate :
  option_map (fun r => map bfe_value (poly_normalize bfe_ops r))
             (pint_interpolate bfe_ops ntt_b intt_b true (map bfe_new [0; 1; 2; 3]) (map bfe_new [1; 3; 5; 7])) = Some [1; 2].
Proof. vm_compute. reflexivity. Qed.
