(* props/C08b.v - property C08, second file: the C09 hypotheses of props/C08.v DISCHARGED for Polynomial<BFieldElement>.
   Only statements, each closed by `exact`, each followed by Print Assumptions.

   props/C08.v states the evaluation / interpolation / extrapolation theorems under the hypotheses red_exact / fred_exact /
   rbnf_exact ("reduce / fast_reduce / reduce_by_ntt_friendly_modulus return a congruent polynomial"), about the copy of the
   division family that model/PolyInterp.v carries under pint_ names.  Here:
     1. the pint_ copy returns what the C09 model (model/PolyDiv.v, pdiv_ names) returns whenever that one does not panic
        (C08_division_family_agrees), so the C09 theorems apply to it (C08_bfe_reduce / C08_bfe_fast_reduce / C08_bfe_rbnf:
        THE remainder, for every non-zero modulus of degree <= 2^29 - the transform lengths of the NTT stages stay <= 2^31);
     2. every C08 strategy for the base field, with NO hypothesis left: the C06 (ntt_b / intt_b are the DFT at the tabulated
        roots), C07 (multiply / par_batch_multiply) and C09 statements are theorems.  Point lists of at most 2^29 points
        (moduli are zerofiers of point lists; a modulus of degree d needs transforms of length up to 4 d).
   `interpolates`, `zspec`, `extrapolation_of`, `batch_extrapolation_of`, `memo_ok`, `memo_inv`: as in props/C08.v. *)
From Coq Require Import ZArith Bool List.
From TF Require Import Word BFieldGen BField FieldOps FieldTheory PolyGen PolyCore PolySpec Ntt PolyDiv PolyInterp.
From TF Require Import PolyInterpAlg PolyInterpBase PolyInterpProofs PolyCoreProofs PolyC07Wrap PolyDivProofs BFieldProofs BFieldOk PolyValueSem.
From TF Require Import Dft NttDft PolyDeepenDiv PolyDeepenInterp PolyDeepenFmci PolyDeepenBary PolyDeepenColinear PolyDeepenCodec.
From TF Require Import XField XFieldProofs XFieldOk XFieldNtt XFieldPoly PolyDeepenXfe.
Import ListNotations.
Open Scope Z_scope.

(* ---------------------------------------------------------------- 1. the two models of the division family *)
(* whenever the C09 model returns Some r, so does the copy the C08 routines call - for every field, every ntt / intt *)
Theorem C08_division_family_agrees : forall {F} (o : fops F) (ntt intt : list F -> option (list F)),
  (forall a d, pint_naive_divide o a d = pdiv_naive_divide o a d) /\
  (forall a m, pint_reduce_long_division o a m = pdiv_reduce_long_division o a m) /\
  (forall a n, pint_fpsi_minimal o a n = pdiv_fpsi_minimal o a n) /\
  (forall a n, pint_structured_multiple_of_degree o ntt intt a n = pdiv_structured_multiple_of_degree o ntt intt a n) /\
  (forall a, pint_shift_factor_ntt_with_tail_length o ntt intt a = pdiv_shift_factor_ntt_with_tail_length o ntt intt a) /\
  (forall a s tail r, pdiv_reduce_by_ntt_friendly_modulus o ntt intt true a s tail = Some r ->
                      pint_reduce_by_ntt_friendly_modulus o ntt intt a s tail = Some r) /\
  (forall a mult r, pdiv_reduce_by_structured_modulus o ntt intt a mult = Some r ->
                    pint_reduce_by_structured_modulus o ntt intt a mult = Some r) /\
  (forall a m r, pdiv_fast_reduce o ntt intt a m = Some r -> pint_fast_reduce o ntt intt a m = Some r) /\
  (forall a m r, pdiv_reduce o ntt intt a m = Some r -> pint_reduce o ntt intt a m = Some r).
Proof.
  exact (fun F o ntt intt => conj (same_naive_divide o) (conj (same_reduce_long_division o) (conj (same_fpsi_minimal o)
    (conj (same_structured_multiple_of_degree o ntt intt) (conj (same_shift_factor o ntt intt) (conj (refine_rbnf o ntt intt)
    (conj (refine_rbs o ntt intt) (conj (refine_fast_reduce o ntt intt) (refine_reduce o ntt intt))))))))).
Qed.
Print Assumptions C08_division_family_agrees.

(* reduce / fast_reduce as called by the C08 routines: no panic, THE remainder; and the C09 model agrees *)
Theorem C08_bfe_reduce : forall a m, Forall canon a -> Forall canon m -> ~ pzero fp_field (map bden m) ->
  poly_degree bfe_ops m <= 2 ^ 29 ->
  exists r, pint_reduce bfe_ops ntt_b intt_b a m = Some r /\ pdiv_reduce bfe_ops ntt_b intt_b a m = Some r /\ Forall canon r /\
            is_rem fp_field (map bden a) (map bden m) (map bden r).
Proof. exact bfe_pint_reduce_spec. Qed.
Print Assumptions C08_bfe_reduce.
Theorem C08_bfe_fast_reduce : forall a m, Forall canon a -> Forall canon m -> ~ pzero fp_field (map bden m) ->
  poly_degree bfe_ops m <= 2 ^ 29 ->
  exists r, pint_fast_reduce bfe_ops ntt_b intt_b a m = Some r /\ pdiv_fast_reduce bfe_ops ntt_b intt_b a m = Some r /\ Forall canon r /\
            is_rem fp_field (map bden a) (map bden m) (map bden r).
Proof. exact bfe_pint_fast_reduce_spec. Qed.
Print Assumptions C08_bfe_fast_reduce.
(* the three hypotheses of props/C08.v, in their bounded form (degree of the modulus + 1 <= 2^29 + 1), are theorems *)
Theorem C08_bfe_c09_hypotheses :
  red_exact_b bfe_ops fp_field canon bden ntt_b intt_b (2 ^ 29 + 1) /\
  fred_exact_b bfe_ops fp_field canon bden ntt_b intt_b (2 ^ 29 + 1) /\
  rbnf_exact_b bfe_ops fp_field canon bden ntt_b intt_b (2 ^ 29 + 1).
Proof. exact (conj bfe_red_exact_b (conj bfe_fred_exact_b bfe_rbnf_exact_b)). Qed.
Print Assumptions C08_bfe_c09_hypotheses.
(* what these mean (the unbounded red_exact / fred_exact / rbnf_exact of props/C08.v imply them, for every bound) *)
Example C08_red_exact_b_unfold : forall {F K} (o : fops F) (fk : fieldK K) ok den ntt intt MB,
  red_exact_b o fk ok den ntt intt MB =
  (forall a m, Forall ok a -> Forall ok m -> ~ pzero fk (map den m) -> poly_degree o m + 1 <= MB ->
     exists r, pint_reduce o ntt intt a m = Some r /\ Forall ok r /\ congruent fk (map den a) (map den m) (map den r)).
Proof. exact (fun F K o fk ok den ntt intt MB => eq_refl). Qed.
Theorem C08_c09_hypotheses_weaken : forall {F K} (o : fops F) (fk : fieldK K) ok den ntt intt MB,
  (red_exact o fk ok den ntt intt -> red_exact_b o fk ok den ntt intt MB) /\
  (fred_exact o fk ok den ntt intt -> fred_exact_b o fk ok den ntt intt MB) /\
  (rbnf_exact o fk ok den ntt intt -> rbnf_exact_b o fk ok den ntt intt MB).
Proof.
  exact (fun F K o fk ok den ntt intt MB => conj (red_exact_weaken o fk ok den ntt intt MB)
           (conj (fred_exact_weaken o fk ok den ntt intt MB) (rbnf_exact_weaken o fk ok den ntt intt MB))).
Qed.
Print Assumptions C08_c09_hypotheses_weaken.

(* ---------------------------------------------------------------- 2. bulk evaluation = Horner at every point, input order *)
Theorem C08_bfe_dac_batch_evaluate : forall p dom, Forall canon p -> Forall canon dom -> Z.of_nat (length dom) <= 2 ^ 29 ->
  exists t vs, pint_tree_new_from_domain bfe_ops ntt_b intt_b dom = Some t /\
               pint_dac_batch_evaluate bfe_ops ntt_b intt_b p t = Some vs /\
               Forall canon vs /\ map bden vs = map (peval fp_field (map bden p)) (map bden dom).
Proof. exact bfe_dac_batch_evaluate. Qed.
Print Assumptions C08_bfe_dac_batch_evaluate.
Theorem C08_bfe_batch_evaluate : forall p dom, Forall canon p -> Forall canon dom -> Z.of_nat (length dom) <= 2 ^ 29 ->
  exists vs, pint_batch_evaluate bfe_ops ntt_b intt_b p dom = Some vs /\ Forall canon vs /\
             map bden vs = map (peval fp_field (map bden p)) (map bden dom).
Proof. exact bfe_batch_evaluate. Qed.
Print Assumptions C08_bfe_batch_evaluate.
Theorem C08_bfe_par_batch_evaluate : forall nt p dom, 1 <= nt -> Forall canon p -> Forall canon dom ->
  Z.of_nat (length dom) <= 2 ^ 29 ->
  exists vs, pint_par_batch_evaluate bfe_ops ntt_b intt_b nt p dom = Some vs /\ Forall canon vs /\
             map bden vs = map (peval fp_field (map bden p)) (map bden dom).
Proof. exact bfe_par_batch_evaluate. Qed.
Print Assumptions C08_bfe_par_batch_evaluate.

(* ---------------------------------------------------------------- 3. interpolation: every strategy returns THE interpolant *)
Theorem C08_bfe_interpolate : forall dbg domain values, Forall canon domain -> Forall canon values -> NoDup (map bden domain) ->
  length values = length domain -> domain <> [] -> Z.of_nat (length domain) <= 2 ^ 29 ->
  exists r, pint_interpolate bfe_ops ntt_b intt_b dbg domain values = Some r /\ Forall canon r /\
            interpolates fp_field (map bden domain) (map bden values) (map bden r).
Proof. exact bfe_interpolate. Qed.
Print Assumptions C08_bfe_interpolate.
Theorem C08_bfe_fast_interpolate : forall dbg domain values, Forall canon domain -> Forall canon values -> NoDup (map bden domain) ->
  length values = length domain -> domain <> [] -> Z.of_nat (length domain) <= 2 ^ 29 ->
  exists r, pint_fast_interpolate bfe_ops ntt_b intt_b dbg domain values = Some r /\ Forall canon r /\
            interpolates fp_field (map bden domain) (map bden values) (map bden r).
Proof. exact bfe_fast_interpolate. Qed.
Print Assumptions C08_bfe_fast_interpolate.
Theorem C08_bfe_par_interpolate : forall dbg nt domain values, 1 <= nt -> Forall canon domain -> Forall canon values ->
  NoDup (map bden domain) -> length values = length domain -> domain <> [] -> Z.of_nat (length domain) <= 2 ^ 29 ->
  exists r, pint_par_interpolate bfe_ops ntt_b intt_b dbg nt domain values = Some r /\ Forall canon r /\
            interpolates fp_field (map bden domain) (map bden values) (map bden r).
Proof. exact bfe_par_interpolate. Qed.
Print Assumptions C08_bfe_par_interpolate.
Theorem C08_bfe_par_fast_interpolate : forall dbg nt domain values, 1 <= nt -> Forall canon domain -> Forall canon values ->
  NoDup (map bden domain) -> length values = length domain -> domain <> [] -> Z.of_nat (length domain) <= 2 ^ 29 ->
  exists r, pint_par_fast_interpolate bfe_ops ntt_b intt_b dbg nt domain values = Some r /\ Forall canon r /\
            interpolates fp_field (map bden domain) (map bden values) (map bden r).
Proof. exact bfe_par_fast_interpolate. Qed.
Print Assumptions C08_bfe_par_fast_interpolate.
(* batched interpolation with the memo tables: every row gets THE interpolant *)
Theorem C08_bfe_batch_fast_interpolate : forall dbg domain matrix root order, Forall canon domain -> domain <> [] ->
  NoDup (map bden domain) -> Z.of_nat (length domain) <= 2 ^ 29 ->
  Forall (fun v => Forall canon v /\ length v = length domain) matrix ->
  (dbg = true -> mod_pow root (order mod 2 ^ 32) = bfe_one) ->
  exists rs, pint_batch_fast_interpolate bfe_ops ntt_b intt_b dbg domain matrix root order = Some rs /\
             Forall2 (fun v r => Forall canon r /\ interpolates fp_field (map bden domain) (map bden v) (map bden r)) matrix rs.
Proof. exact bfe_batch_fast_interpolate. Qed.
Print Assumptions C08_bfe_batch_fast_interpolate.
Theorem C08_bfe_batch_fast_interpolate_with_memoization : forall dbg domain matrix memo, Forall canon domain -> domain <> [] ->
  NoDup (map bden domain) -> Z.of_nat (length domain) <= 2 ^ 29 ->
  Forall (fun v => Forall canon v /\ length v = length domain) matrix ->
  memo_ok canon memo -> memo_inv bfe_ops bden domain memo ->
  exists rs memo', pint_batch_fast_interpolate_with_memoization bfe_ops ntt_b intt_b dbg domain matrix memo = Some (rs, memo') /\
    Forall2 (fun v r => Forall canon r /\ interpolates fp_field (map bden domain) (map bden v) (map bden r)) matrix rs /\
    memo_ok canon memo'.
Proof. exact bfe_batch_fast_interpolate_with_memoization. Qed.
Print Assumptions C08_bfe_batch_fast_interpolate_with_memoization.

(* ---------------------------------------------------------------- 4. coset extrapolation = evaluate (interpolate on the coset) *)
Theorem C08_bfe_naive_coset_extrapolate : forall l offset cw pts, (l <= 31)%nat -> canon offset -> bden offset <> k0 fp_field ->
  Forall canon cw -> length cw = (2 ^ l)%nat -> Forall canon pts -> Z.of_nat (length pts) <= 2 ^ 29 ->
  exists vs, pint_naive_coset_extrapolate bfe_ops ntt_b intt_b offset cw pts = Some vs /\ Forall canon vs /\
             extrapolation_of fp_field bden wr_b bden offset l cw pts vs.
Proof. exact bfe_naive_coset_extrapolate. Qed.
Print Assumptions C08_bfe_naive_coset_extrapolate.
Theorem C08_bfe_batch_naive_coset_extrapolate : forall l offset cws pts, (l <= 31)%nat -> canon offset ->
  bden offset <> k0 fp_field -> Forall canon cws -> Forall canon pts -> Z.of_nat (length pts) <= 2 ^ 29 ->
  exists vs, pint_batch_naive_coset_extrapolate bfe_ops ntt_b intt_b offset (2 ^ Z.of_nat l) cws pts = Some vs /\ Forall canon vs /\
             batch_extrapolation_of fp_field bden wr_b bden offset l (2 ^ Z.of_nat l) cws pts vs.
Proof. exact bfe_batch_naive_coset_extrapolate. Qed.
Print Assumptions C08_bfe_batch_naive_coset_extrapolate.

(* ---------------------------------------------------------------- 5. fast_modular_coset_interpolate, EVERY codeword length
   (C08_fmci_full of props/C08.v: the Lagrange regime, the INTT regime and the even / odd recursion above 2^17) *)
(* generic.  Compared with the placeholder C08_fmci_full: `reduce` has to return THE remainder (red_rem_b: degree below the degree
   of the modulus - otherwise the products formed in the recursion leave the range of `multiply`; red_exact only promises a
   congruent polynomial), the moduli are bounded (degree + 1 <= MB, 2 MB <= the bound of multiply), the roots are compatible
   (wr (l+1)^2 = wr l), and the base-field arithmetic on offsets (offset * omega, mod_pow, -1/2) denotes field arithmetic *)
Theorem C08_fmci_spec :
  forall (F K : Type) (o : fops F) (fk : fieldK K) (ok : F -> Prop) (den : F -> K), field_ok o fk ok den ->
  forall ntt intt BND MB, 2 * MB <= BND -> 257 <= BND ->
  forall act lmax wr emb, mul_exact o fk ok den ntt intt BND -> red_rem_b o fk ok den ntt intt MB ->
  rbnf_exact_b o fk ok den ntt intt MB -> intt_ok fk ok den intt lmax wr -> roots_ok fk lmax wr ->
  lift_ok o ok den emb -> binv_ok fk emb -> act_ok fk ok den act emb -> root_ok lmax wr emb ->
  (forall l, (S l <= lmax)%nat -> kmul fk (wr (S l)) (wr (S l)) = wr l) ->
  bmul_ok fk emb -> bpow_ok fk emb -> m2i_ok fk -> (lmax <= 32)%nat ->
  forall dbg l offset cw m, (l <= lmax)%nat -> canon offset -> emb offset <> k0 fk -> Forall ok cw -> length cw = (2 ^ l)%nat ->
  Forall ok m -> ~ pzero fk (map den m) -> poly_degree o m + 1 <= MB ->
  exists r, pint_fast_modular_coset_interpolate o act ntt intt dbg cw offset m = Some r /\ Forall ok r /\
            forall ip, interpolates fk (coset_points fk wr (emb offset) l) (map den cw) ip -> congruent fk ip (map den m) (map den r).
Proof. exact (@fmci_exact_all). Qed.
Print Assumptions C08_fmci_spec.
Example C08_fmci_hypotheses_unfold : forall {F K} (o : fops F) (fk : fieldK K) ok den ntt intt MB (emb : Z -> K),
  (red_rem_b o fk ok den ntt intt MB =
     (forall a m, Forall ok a -> Forall ok m -> ~ pzero fk (map den m) -> poly_degree o m + 1 <= MB ->
        exists r, pint_reduce o ntt intt a m = Some r /\ Forall ok r /\ is_rem fk (map den a) (map den m) (map den r))) /\
  (bmul_ok fk emb = (forall a b, canon a -> canon b -> canon (bfe_mul a b) /\ emb (bfe_mul a b) = kmul fk (emb a) (emb b))) /\
  (bpow_ok fk emb = (forall b e, canon b -> 0 <= e < 2 ^ 64 -> canon (mod_pow b e) /\ emb (mod_pow b e) = kpowZ fk (emb b) e)) /\
  (m2i_ok fk = (kmul fk (kofZ fk MINUS_TWO_INVERSE_ARG) (kopp fk (kadd fk (k1 fk) (k1 fk))) = k1 fk)).
Proof. exact (fun F K o fk ok den ntt intt MB emb => conj eq_refl (conj eq_refl (conj eq_refl eq_refl))). Qed.
Example C08_bfe_fmci_hypotheses :
  red_rem_b bfe_ops fp_field canon bden ntt_b intt_b (2 ^ 29 + 1) /\ bmul_ok fp_field bden /\ bpow_ok fp_field bden /\ m2i_ok fp_field.
Proof. exact (conj bfe_red_rem_b (conj bfe_bmul_ok (conj bfe_bpow_ok bfe_m2i_ok))). Qed.

(* Polynomial<BFieldElement>: the preprocessing never panics, the result is congruent to THE interpolant modulo the modulus *)
Theorem C08_bfe_fmci_preprocess_total : forall l offset m, (l <= 31)%nat -> canon offset -> bden offset <> k0 fp_field ->
  Forall canon m -> ~ pzero fp_field (map bden m) -> poly_degree bfe_ops m <= 2 ^ 29 ->
  exists pre, pint_fmci_preprocess bfe_ops ntt_b intt_b (2 ^ Z.of_nat l) offset m = Some pre.
Proof. exact bfe_fmci_preprocess_total. Qed.
Print Assumptions C08_bfe_fmci_preprocess_total.
Theorem C08_bfe_fast_modular_coset_interpolate : forall dbg l offset cw m, (l <= 31)%nat -> canon offset ->
  bden offset <> k0 fp_field -> Forall canon cw -> length cw = (2 ^ l)%nat -> Forall canon m -> ~ pzero fp_field (map bden m) ->
  poly_degree bfe_ops m <= 2 ^ 29 ->
  exists r, pint_fast_modular_coset_interpolate bfe_ops bb_act ntt_b intt_b dbg cw offset m = Some r /\ Forall canon r /\
            forall ip, interpolates fp_field (coset_points fp_field wr_b (bden offset) l) (map bden cw) ip ->
                       congruent fp_field ip (map bden m) (map bden r).
Proof. exact bfe_fast_modular_coset_interpolate. Qed.
Print Assumptions C08_bfe_fast_modular_coset_interpolate.

(* ---------------------------------------------------------------- 6. coset extrapolation, every arm of the dispatcher, batch variants *)
Theorem C08_bfe_fast_coset_extrapolate : forall dbg l offset cw pts, (l <= 31)%nat -> canon offset -> bden offset <> k0 fp_field ->
  Forall canon cw -> length cw = (2 ^ l)%nat -> Forall canon pts -> Z.of_nat (length pts) <= 2 ^ 29 ->
  exists vs, pint_fast_coset_extrapolate bfe_ops bb_act ntt_b intt_b dbg offset cw pts = Some vs /\ Forall canon vs /\
             extrapolation_of fp_field bden wr_b bden offset l cw pts vs.
Proof. exact bfe_fast_coset_extrapolate. Qed.
Print Assumptions C08_bfe_fast_coset_extrapolate.
Theorem C08_bfe_coset_extrapolate : forall dbg l offset cw pts, (l <= 31)%nat -> canon offset -> bden offset <> k0 fp_field ->
  Forall canon cw -> length cw = (2 ^ l)%nat -> Forall canon pts -> Z.of_nat (length pts) <= 2 ^ 29 ->
  exists vs, pint_coset_extrapolate bfe_ops bb_act ntt_b intt_b dbg offset cw pts = Some vs /\ Forall canon vs /\
             extrapolation_of fp_field bden wr_b bden offset l cw pts vs.
Proof. exact bfe_coset_extrapolate. Qed.
Print Assumptions C08_bfe_coset_extrapolate.
(* batch_coset_extrapolate = par_batch_coset_extrapolate = the per-codeword extrapolations in order; nothing assumed about the
   preprocessing any more *)
Theorem C08_bfe_batch_coset_extrapolate : forall dbg l offset cws pts, (l <= 31)%nat -> canon offset -> bden offset <> k0 fp_field ->
  Forall canon cws -> Forall canon pts -> Z.of_nat (length pts) <= 2 ^ 29 ->
  exists vs, pint_batch_coset_extrapolate bfe_ops bb_act ntt_b intt_b dbg offset (2 ^ Z.of_nat l) cws pts = Some vs /\
             pint_par_batch_coset_extrapolate bfe_ops bb_act ntt_b intt_b dbg offset (2 ^ Z.of_nat l) cws pts = Some vs /\
             Forall canon vs /\ batch_extrapolation_of fp_field bden wr_b bden offset l (2 ^ Z.of_nat l) cws pts vs.
Proof. exact bfe_batch_coset_extrapolate. Qed.
Print Assumptions C08_bfe_batch_coset_extrapolate.

(* ---------------------------------------------------------------- 7. barycentric_evaluate (C08_barycentric_full of props/C08.v)
   = the value at x of THE interpolant of the codeword on the subgroup <w> of order 2^l, for every x outside the subgroup.
   Compared with the placeholder: the model lifts the domain points with `slift act`, multiplies them with bfe_mul and starts
   from bfe_one, so these three have to denote what they should (slift_ok, bmul_ok', bone_ok; trivially true for the base field) *)
Theorem C08_barycentric_spec :
  forall (F K : Type) (o : fops F) (fk : fieldK K) (ok : F -> Prop) (den : F -> K), field_ok o fk ok den ->
  forall act lmax wr emb, roots_ok fk lmax wr -> act_ok fk ok den act emb -> root_ok lmax wr emb ->
  slift_ok ok den act emb -> bmul_ok' fk emb -> bone_ok fk emb ->
  forall l cw x, (l <= lmax)%nat -> Forall ok cw -> length cw = (2 ^ l)%nat -> ok x ->
  ~ In (den x) (coset_points fk wr (k1 fk) l) ->
  exists r, pint_barycentric_evaluate o act cw x = Some r /\ ok r /\
            forall ip, interpolates fk (coset_points fk wr (k1 fk) l) (map den cw) ip -> den r = peval fk ip (den x).
Proof. exact (@barycentric_evaluate_spec). Qed.
Print Assumptions C08_barycentric_spec.
Example C08_barycentric_hypotheses_unfold : forall {F K} (fk : fieldK K) (ok : F -> Prop) (den : F -> K) (act : fact Z F) (emb : Z -> K),
  (slift_ok ok den act emb = (forall b, canon b -> ok (slift act b) /\ den (slift act b) = emb b)) /\
  (bmul_ok' fk emb = (forall a b, canon a -> canon b -> canon (bfe_mul a b) /\ emb (bfe_mul a b) = kmul fk (emb a) (emb b))) /\
  (bone_ok fk emb = (canon bfe_one /\ emb bfe_one = k1 fk)).
Proof. exact (fun F K fk ok den act emb => conj eq_refl (conj eq_refl eq_refl)). Qed.
(* the barycentric formula itself, in the field: sum_i y_i t_i / sum_i t_i with t_i = w^i / (x - w^i) *)
Theorem C08_barycentric_formula : forall {K} (fk : fieldK K) (w x : K) (l : nat) (ys ip : list K),
  two_neq_0 fk -> half_root fk w l -> w <> k0 fk -> length ys = (2 ^ l)%nat ->
  let pts := map (fun i => kmul fk (k1 fk) (kpow fk w i)) (seq 0 (2 ^ l)) in
  NoDup pts -> ~ In x pts -> interpolates fk pts ys ip ->
  let ts := map (fun i => kmul fk (kinv fk (ksub fk x (kpow fk w i))) (kpow fk w i)) (seq 0 (2 ^ l)) in
  lsum fk ts <> k0 fk /\ peval fk ip x = kmul fk (lsum fk (map2 (fun t y => kmul fk y t) ts ys)) (kinv fk (lsum fk ts)).
Proof. exact (@bary_formula). Qed.
Print Assumptions C08_barycentric_formula.
Theorem C08_bfe_barycentric_evaluate : forall l cw x, (l <= 31)%nat -> Forall canon cw -> length cw = (2 ^ l)%nat -> canon x ->
  ~ In (bden x) (coset_points fp_field wr_b (k1 fp_field) l) ->
  exists r, pint_barycentric_evaluate bfe_ops bb_act cw x = Some r /\ canon r /\
            forall ip, interpolates fp_field (coset_points fp_field wr_b (k1 fp_field) l) (map bden cw) ip ->
                       bden r = peval fp_field ip (bden x).
Proof. exact bfe_barycentric_evaluate. Qed.
Print Assumptions C08_bfe_barycentric_evaluate.

(* ---------------------------------------------------------------- 8. are_colinear_3 / are_colinear / get_colinear_y
   on_line a c (x, y) : y = a x + c in the denoted field; pok p : both coordinates well formed *)
Theorem C08_are_colinear_3 : forall {F K} (o : fops F) (fk : fieldK K) (ok : F -> Prop) (den : F -> K), field_ok o fk ok den ->
  forall p0 p1 p2, pok ok p0 -> pok ok p1 -> pok ok p2 ->
  (pint_are_colinear_3 o p0 p1 p2 = true <->
   den (fst p0) <> den (fst p1) /\ den (fst p1) <> den (fst p2) /\ den (fst p2) <> den (fst p0) /\
   exists a c, on_line fk den a c p0 /\ on_line fk den a c p1 /\ on_line fk den a c p2).
Proof. exact (@are_colinear_3_spec). Qed.
Print Assumptions C08_are_colinear_3.
(* are_colinear never panics; true iff at least three points, pairwise distinct abscissae, all on one line *)
Theorem C08_are_colinear : forall {F K} (o : fops F) (fk : fieldK K) (ok : F -> Prop) (den : F -> K), field_ok o fk ok den ->
  forall points, Forall (pok ok) points ->
  exists b, pint_are_colinear o points = Some b /\
    (b = true <-> (3 <= length points)%nat /\ NoDup (map den (map fst points)) /\ exists a c, Forall (on_line fk den a c) points).
Proof. exact (@are_colinear_spec). Qed.
Print Assumptions C08_are_colinear.
(* get_colinear_y: None exactly when the two abscissae coincide, otherwise THE ordinate at p2x of the line through p0 and p1 *)
Theorem C08_get_colinear_y : forall {F K} (o : fops F) (fk : fieldK K) (ok : F -> Prop) (den : F -> K), field_ok o fk ok den ->
  forall p0 p1 p2x, pok ok p0 -> pok ok p1 -> ok p2x ->
  (den (fst p0) = den (fst p1) -> pint_get_colinear_y o p0 p1 p2x = None) /\
  (den (fst p0) <> den (fst p1) ->
   exists y, pint_get_colinear_y o p0 p1 p2x = Some y /\ ok y /\
             (exists a c, on_line fk den a c p0 /\ on_line fk den a c p1 /\ on_line fk den a c (p2x, y)) /\
             forall a c, on_line fk den a c p0 -> on_line fk den a c p1 -> den y = kadd fk (kmul fk a (den p2x)) c).
Proof. exact (@get_colinear_y_spec). Qed.
Print Assumptions C08_get_colinear_y.
Example C08_ex_colinear :
  pint_are_colinear bfe_ops (map (fun xy => (bfe_new (fst xy), bfe_new (snd xy))) [(0, 1); (1, 3); (2, 5); (5, 11)]) = Some true /\
  pint_are_colinear bfe_ops (map (fun xy => (bfe_new (fst xy), bfe_new (snd xy))) [(0, 1); (1, 3); (2, 6)]) = Some false /\
  option_map bfe_value (pint_get_colinear_y bfe_ops (bfe_new 0, bfe_new 1) (bfe_new 1, bfe_new 3) (bfe_new 7)) = Some 15.
Proof. vm_compute. repeat split. Qed.

(* ---------------------------------------------------------------- 9. helpers of model/PolyCore.v shared with property C17:
   impl BFieldCodec for Polynomial round trip, impl Display degree logic *)
(* decode (encode p) = the normalised coefficients of p (the same polynomial as a value), whenever the encoding is shorter than
   the characteristic; `enc` / `dec` : the coefficient codec, w words per coefficient, dec (enc c) = Some c *)
Theorem C08_poly_decode_encode : forall {F} (o : fops F) (w : Z) (enc : F -> list Z) (dec : list Z -> option F) (okF : F -> Prop),
  1 <= w -> (forall c, okF c -> zlen (enc c) = w /\ dec (enc c) = Some c) ->
  forall l, Forall okF l -> zlen (poly_normalize o l) * w + 2 <= Lucas.P ->
  poly_decode o w dec (poly_encode o enc l) = Some (poly_normalize o l).
Proof. exact (@poly_decode_encode). Qed.
Print Assumptions C08_poly_decode_encode.
Theorem C08_bfe_poly_decode_encode : forall l : list Z, zlen (poly_normalize bfe_ops l) + 2 <= Lucas.P ->
  poly_decode bfe_ops 1 bfe_dec (poly_encode bfe_ops bfe_enc l) = Some (poly_normalize bfe_ops l).
Proof. exact bfe_poly_decode_encode. Qed.
Print Assumptions C08_bfe_poly_decode_encode.
Theorem C08_xfe_poly_decode_encode : forall l : list XField.xfe, zlen (poly_normalize xfe_ops l) * 3 + 2 <= Lucas.P ->
  poly_decode xfe_ops 3 xfe_dec (poly_encode xfe_ops xfe_enc l) = Some (poly_normalize xfe_ops l).
Proof. exact xfe_poly_decode_encode. Qed.
Print Assumptions C08_xfe_poly_decode_encode.
(* Display: the i-th coefficient from the top is printed with the power degree - i, exactly when it is non-zero; the flags of a
   term (c, p): " + " is printed before it unless p = degree, the coefficient is printed unless it is 1 and p > 0 *)
Theorem C08_display_terms : forall {F} (o : fops F) l,
  poly_display_terms o l =
  flat_map (display_term o (poly_degree o l))
           (combine (rev (poly_normalize o l)) (map (fun i => poly_degree o l - Z.of_nat i) (seq 0 (length (poly_normalize o l))))).
Proof. exact (@display_terms_spec). Qed.
Print Assumptions C08_display_terms.
Example C08_display_term_unfold : forall {F} (o : fops F) deg (cp : F * Z),
  display_term o deg cp = if fis_zero o (fst cp) then []
                          else [(fst cp, snd cp, negb (snd cp =? deg), negb (feqb o (fst cp) (fone o)) || (snd cp =? 0))].
Proof. exact (fun F o deg cp => eq_refl). Qed.
(* the zero polynomial prints no term; otherwise the first term is the leading coefficient at the power `degree` without " + ",
   all later terms have smaller powers and a " + " in front *)
Theorem C08_display_zero : forall {F} (o : fops F) l, poly_degree o l < 0 -> poly_display_terms o l = [].
Proof. exact (@display_terms_zero). Qed.
Print Assumptions C08_display_zero.
Theorem C08_display_head : forall {F} (o : fops F) l, 0 <= poly_degree o l ->
  exists c rest, idx l (poly_degree o l) = Some c /\ fis_zero o c = false /\
    poly_display_terms o l = (c, poly_degree o l, false, negb (feqb o c (fone o)) || (poly_degree o l =? 0)) :: rest /\
    Forall (fun t => snd (fst t) = true /\ snd (fst (fst t)) < poly_degree o l) rest.
Proof. exact (@display_terms_head). Qed.
Print Assumptions C08_display_head.
(* what is displayed depends only on the polynomial, not on stored leading zeros *)
Theorem C08_display_value_semantics : forall {F K} (o : fops F) (fk : fieldK K) ok den, field_ok o fk ok den ->
  forall a a', same fk ok den a a' -> poly_display_terms o a = poly_display_terms o a'.
Proof. exact (@vs_display). Qed.
Print Assumptions C08_display_value_semantics.

(* ---------------------------------------------------------------- 10. Polynomial<XFieldElement>: every strategy, nothing assumed
   k3_field = Fp[X]/(X^3 - X + 1), canon3 / denX (proofs/XFieldOk.v: xfe_field_ok); offsets and roots are base-field elements,
   denoted through bden3 = iota o bden; transforms ntt_x / intt_x (proofs/XFieldNtt.v), wr_x = the tabulated roots in Fp3 *)
Example C08_xfe_instance : field_ok xfe_ops k3_field canon3 denX.
Proof. exact xfe_field_ok. Qed.
Theorem C08_xfe_zerofier : forall rs, Forall canon3 rs -> Z.of_nat (length rs) + 1 <= 2 ^ 31 ->
  exists z, pint_zerofier xfe_ops ntt_x intt_x rs = Some z /\ Forall canon3 z /\ length z = S (length rs) /\
            peq k3_field (map denX z) (zspec k3_field (map denX rs)).
Proof. exact xfe_zerofier. Qed.
Print Assumptions C08_xfe_zerofier.
Theorem C08_xfe_par_zerofier : forall nt rs, 1 <= nt -> Forall canon3 rs -> 2 * Z.of_nat (length rs) <= 2 ^ 31 ->
  exists z, pint_par_zerofier xfe_ops ntt_x intt_x nt rs = Some z /\ Forall canon3 z /\
            peq k3_field (map denX z) (zspec k3_field (map denX rs)).
Proof. exact xfe_par_zerofier. Qed.
Print Assumptions C08_xfe_par_zerofier.
Theorem C08_xfe_tree_zerofier : forall dom, Forall canon3 dom -> Z.of_nat (length dom) + 1 <= 2 ^ 31 ->
  exists t, pint_tree_new_from_domain xfe_ops ntt_x intt_x dom = Some t /\ Forall canon3 (pint_tree_zerofier xfe_ops t) /\
            peq k3_field (map denX (pint_tree_zerofier xfe_ops t)) (zspec k3_field (map denX dom)).
Proof. exact xfe_tree_zerofier. Qed.
Print Assumptions C08_xfe_tree_zerofier.
Theorem C08_xfe_lagrange_interpolate : forall dbg domain values, Forall canon3 domain -> Forall canon3 values ->
  NoDup (map denX domain) -> length values = length domain -> domain <> [] -> Z.of_nat (length domain) + 1 <= 2 ^ 31 ->
  exists r, pint_lagrange_interpolate xfe_ops ntt_x intt_x dbg domain values = Some r /\ Forall canon3 r /\
            length r = length domain /\ interpolates k3_field (map denX domain) (map denX values) (map denX r).
Proof. exact xfe_lagrange_interpolate. Qed.
Print Assumptions C08_xfe_lagrange_interpolate.
Theorem C08_xfe_batch_evaluate : forall p dom, Forall canon3 p -> Forall canon3 dom -> Z.of_nat (length dom) <= 2 ^ 29 ->
  exists vs, pint_batch_evaluate xfe_ops ntt_x intt_x p dom = Some vs /\ Forall canon3 vs /\
             map denX vs = map (peval k3_field (map denX p)) (map denX dom).
Proof. exact xfe_batch_evaluate. Qed.
Print Assumptions C08_xfe_batch_evaluate.
Theorem C08_xfe_par_batch_evaluate : forall nt p dom, 1 <= nt -> Forall canon3 p -> Forall canon3 dom ->
  Z.of_nat (length dom) <= 2 ^ 29 ->
  exists vs, pint_par_batch_evaluate xfe_ops ntt_x intt_x nt p dom = Some vs /\ Forall canon3 vs /\
             map denX vs = map (peval k3_field (map denX p)) (map denX dom).
Proof. exact xfe_par_batch_evaluate. Qed.
Print Assumptions C08_xfe_par_batch_evaluate.
Theorem C08_xfe_interpolate : forall dbg domain values, Forall canon3 domain -> Forall canon3 values -> NoDup (map denX domain) ->
  length values = length domain -> domain <> [] -> Z.of_nat (length domain) <= 2 ^ 29 ->
  exists r, pint_interpolate xfe_ops ntt_x intt_x dbg domain values = Some r /\ Forall canon3 r /\
            interpolates k3_field (map denX domain) (map denX values) (map denX r).
Proof. exact xfe_interpolate. Qed.
Print Assumptions C08_xfe_interpolate.
Theorem C08_xfe_fast_interpolate : forall dbg domain values, Forall canon3 domain -> Forall canon3 values ->
  NoDup (map denX domain) -> length values = length domain -> domain <> [] -> Z.of_nat (length domain) <= 2 ^ 29 ->
  exists r, pint_fast_interpolate xfe_ops ntt_x intt_x dbg domain values = Some r /\ Forall canon3 r /\
            interpolates k3_field (map denX domain) (map denX values) (map denX r).
Proof. exact xfe_fast_interpolate. Qed.
Print Assumptions C08_xfe_fast_interpolate.
Theorem C08_xfe_par_interpolate : forall dbg nt domain values, 1 <= nt -> Forall canon3 domain -> Forall canon3 values ->
  NoDup (map denX domain) -> length values = length domain -> domain <> [] -> Z.of_nat (length domain) <= 2 ^ 29 ->
  exists r, pint_par_interpolate xfe_ops ntt_x intt_x dbg nt domain values = Some r /\ Forall canon3 r /\
            interpolates k3_field (map denX domain) (map denX values) (map denX r).
Proof. exact xfe_par_interpolate. Qed.
Print Assumptions C08_xfe_par_interpolate.
Theorem C08_xfe_par_fast_interpolate : forall dbg nt domain values, 1 <= nt -> Forall canon3 domain -> Forall canon3 values ->
  NoDup (map denX domain) -> length values = length domain -> domain <> [] -> Z.of_nat (length domain) <= 2 ^ 29 ->
  exists r, pint_par_fast_interpolate xfe_ops ntt_x intt_x dbg nt domain values = Some r /\ Forall canon3 r /\
            interpolates k3_field (map denX domain) (map denX values) (map denX r).
Proof. exact xfe_par_fast_interpolate. Qed.
Print Assumptions C08_xfe_par_fast_interpolate.
Theorem C08_xfe_batch_fast_interpolate : forall dbg domain matrix root order, Forall canon3 domain -> domain <> [] ->
  NoDup (map denX domain) -> Z.of_nat (length domain) <= 2 ^ 29 ->
  Forall (fun v => Forall canon3 v /\ length v = length domain) matrix ->
  (dbg = true -> mod_pow root (order mod 2 ^ 32) = bfe_one) ->
  exists rs, pint_batch_fast_interpolate xfe_ops ntt_x intt_x dbg domain matrix root order = Some rs /\
             Forall2 (fun v r => Forall canon3 r /\ interpolates k3_field (map denX domain) (map denX v) (map denX r)) matrix rs.
Proof. exact xfe_batch_fast_interpolate. Qed.
Print Assumptions C08_xfe_batch_fast_interpolate.
Theorem C08_xfe_fast_modular_coset_interpolate : forall dbg l offset cw m, (l <= 31)%nat -> canon offset ->
  bden3 offset <> k0 k3_field -> Forall canon3 cw -> length cw = (2 ^ l)%nat -> Forall canon3 m ->
  ~ pzero k3_field (map denX m) -> poly_degree xfe_ops m <= 2 ^ 29 ->
  exists r, pint_fast_modular_coset_interpolate xfe_ops xb_act ntt_x intt_x dbg cw offset m = Some r /\ Forall canon3 r /\
            forall ip, interpolates k3_field (coset_points k3_field wr_x (bden3 offset) l) (map denX cw) ip ->
                       congruent k3_field ip (map denX m) (map denX r).
Proof. exact xfe_fast_modular_coset_interpolate. Qed.
Print Assumptions C08_xfe_fast_modular_coset_interpolate.
Theorem C08_xfe_coset_extrapolate : forall dbg l offset cw pts, (l <= 31)%nat -> canon offset -> bden3 offset <> k0 k3_field ->
  Forall canon3 cw -> length cw = (2 ^ l)%nat -> Forall canon3 pts -> Z.of_nat (length pts) <= 2 ^ 29 ->
  exists vs, pint_coset_extrapolate xfe_ops xb_act ntt_x intt_x dbg offset cw pts = Some vs /\ Forall canon3 vs /\
             extrapolation_of k3_field denX wr_x bden3 offset l cw pts vs.
Proof. exact xfe_coset_extrapolate. Qed.
Print Assumptions C08_xfe_coset_extrapolate.
Theorem C08_xfe_batch_coset_extrapolate : forall dbg l offset cws pts, (l <= 31)%nat -> canon offset ->
  bden3 offset <> k0 k3_field -> Forall canon3 cws -> Forall canon3 pts -> Z.of_nat (length pts) <= 2 ^ 29 ->
  exists vs, pint_batch_coset_extrapolate xfe_ops xb_act ntt_x intt_x dbg offset (2 ^ Z.of_nat l) cws pts = Some vs /\
             pint_par_batch_coset_extrapolate xfe_ops xb_act ntt_x intt_x dbg offset (2 ^ Z.of_nat l) cws pts = Some vs /\
             Forall canon3 vs /\ batch_extrapolation_of k3_field denX wr_x bden3 offset l (2 ^ Z.of_nat l) cws pts vs.
Proof. exact xfe_batch_coset_extrapolate. Qed.
Print Assumptions C08_xfe_batch_coset_extrapolate.
Theorem C08_xfe_barycentric_evaluate : forall l cw x, (l <= 31)%nat -> Forall canon3 cw -> length cw = (2 ^ l)%nat -> canon3 x ->
  ~ In (denX x) (coset_points k3_field wr_x (k1 k3_field) l) ->
  exists r, pint_barycentric_evaluate xfe_ops xb_act cw x = Some r /\ canon3 r /\
            forall ip, interpolates k3_field (coset_points k3_field wr_x (k1 k3_field) l) (map denX cw) ip ->
                       denX r = peval k3_field ip (denX x).
Proof. exact xfe_barycentric_evaluate. Qed.
Print Assumptions C08_xfe_barycentric_evaluate.
