(* props/C08c.v - property C08, third file: fast_modular_coset_interpolate, its preprocessing and
   fast_modular_coset_interpolate_with_zerofiers_and_ntt_friendly_multiple - the GENERAL statement, for every power-of-two
   codeword length the code accepts.  Only statements, each closed by `exact`, each followed by Print Assumptions.

   props/C08.v   C08_fmci_small_partial: lengths up to 2^17 (Lagrange and INTT regimes), result congruent to the interpolant.
   props/C08b.v  C08_fmci_spec / C08_bfe_fast_modular_coset_interpolate: the even / odd recursion, lengths 2^l with l <= lmax = 31
                 (the largest transform), result congruent to the interpolant; fast_modular_coset_interpolate only.
   Here: the recursion transforms at most 2^17 elements at a time, so the length is limited by the ROOT TABLE (orders up to 2^32),
   not by the transforms (2^31).  With the two maxima separated (lmaxI for intt, lmaxR for the roots, lmaxI <= lmaxR <= lmaxI + 1):
     C08_fmci_general             for every l <= lmaxR: the preprocessing returns data `pre`, both entry points return the same r
                                  (..._with_zerofiers_and_ntt_friendly_multiple on `pre`, and fast_modular_coset_interpolate), r is
                                  well-formed, THE interpolant ip of the codeword on the coset offset * <w_l> exists, is unique, and
                                  r is THE remainder of ip modulo the modulus:  ip = q m + r,  deg r < deg m  (`is_rem`);
     C08_fmci_with_preprocessing  the shape of C08_fmci_small_partial (for whatever `pre` the preprocessing returned) without the
                                  restriction to 2^17, with is_rem in place of congruent;
     C08_fmci_preprocess_total    the preprocessing on its own;
     C08_fmci_rejects_no_root     a length without a root of unity is rejected by both entry points (any field, modulus, data);
     C08_bfe_* / C08_xfe_*        the instances for BFieldElement / XFieldElement codewords, lmaxI = 31, lmaxR = 32, nothing assumed;
     C08_*_fmci_accepted_lengths  the codeword lengths the function accepts are EXACTLY 2^l, l = 0 .. 32.
   Size hypothesis left: the modulus - degree + 1 <= MB with 2 MB <= the range of `multiply`; for the code: degree <= 2^29
   (sufficient for the transforms inside reduce / shift_factor_ntt_with_tail_length / multiply to stay <= 2^31 elements).
   Vocabulary as in props/C08.v, C08b.v: `interpolates fk points values ip` (deg ip < #points, ip(points_i) = values_i),
   `coset_points fk wr c l` = [c * (wr l)^i | i < 2^l], `is_rem fk a d r` = (exists q, a = q d + r) /\ deg r < deg d. *)
From Coq Require Import ZArith Bool List.
From TF Require Import Word BFieldGen BField FieldOps FieldTheory PolyGen PolyCore PolySpec Ntt PolyDiv PolyInterp.
From TF Require Import PolyInterpAlg PolyInterpBase PolyInterpProofs PolyCoreProofs PolyC07Wrap PolyDivProofs BFieldProofs BFieldOk PolyValueSem.
From TF Require Import Dft NttDft NttRoots PolyDeepenDiv PolyDeepenInterp PolyDeepenNewton PolyDeepenFmci PolyFmciGen.
From TF Require Import XField XFieldProofs XFieldOk XFieldNtt XFieldPoly PolyDeepenXfe.
Import ListNotations.
Open Scope Z_scope.

(* ---------------------------------------------------------------- generic *)
Theorem C08_fmci_general :
  forall (F K : Type) (o : fops F) (fk : fieldK K) (ok : F -> Prop) (den : F -> K), field_ok o fk ok den ->
  forall ntt intt BND MB, 2 * MB <= BND -> 257 <= BND ->
  forall act lmaxI lmaxR wr emb, mul_exact o fk ok den ntt intt BND -> red_rem_b o fk ok den ntt intt MB ->
  rbnf_exact_b o fk ok den ntt intt MB -> intt_ok fk ok den intt lmaxI wr -> roots_ok fk lmaxR wr ->
  lift_ok o ok den emb -> binv_ok fk emb -> act_ok fk ok den act emb -> root_ok lmaxR wr emb ->
  (forall l, (S l <= lmaxR)%nat -> kmul fk (wr (S l)) (wr (S l)) = wr l) ->
  bmul_ok fk emb -> bpow_ok fk emb -> m2i_ok fk ->
  (lmaxI <= lmaxR)%nat -> (lmaxR <= S lmaxI)%nat -> (17 <= lmaxI)%nat -> (lmaxR <= 32)%nat ->
  forall dbg l offset cw m, (l <= lmaxR)%nat -> canon offset -> emb offset <> k0 fk -> Forall ok cw -> length cw = (2 ^ l)%nat ->
  Forall ok m -> ~ pzero fk (map den m) -> poly_degree o m + 1 <= MB ->
  exists pre r ip,
    pint_fmci_preprocess o ntt intt (zlen cw) offset m = Some pre /\
    pint_fmci_with_zerofiers_and_ntt_friendly_multiple o act ntt intt dbg cw offset m pre = Some r /\
    pint_fast_modular_coset_interpolate o act ntt intt dbg cw offset m = Some r /\ Forall ok r /\
    interpolates fk (coset_points fk wr (emb offset) l) (map den cw) ip /\ is_rem fk ip (map den m) (map den r) /\
    forall ip', interpolates fk (coset_points fk wr (emb offset) l) (map den cw) ip' ->
                peq fk ip' ip /\ is_rem fk ip' (map den m) (map den r).
Proof. exact (@fmci_general). Qed.
Print Assumptions C08_fmci_general.
Theorem C08_fmci_with_preprocessing :
  forall (F K : Type) (o : fops F) (fk : fieldK K) (ok : F -> Prop) (den : F -> K), field_ok o fk ok den ->
  forall ntt intt BND MB, 2 * MB <= BND -> 257 <= BND ->
  forall act lmaxI lmaxR wr emb, mul_exact o fk ok den ntt intt BND -> red_rem_b o fk ok den ntt intt MB ->
  rbnf_exact_b o fk ok den ntt intt MB -> intt_ok fk ok den intt lmaxI wr -> roots_ok fk lmaxR wr ->
  lift_ok o ok den emb -> binv_ok fk emb -> act_ok fk ok den act emb -> root_ok lmaxR wr emb ->
  (forall l, (S l <= lmaxR)%nat -> kmul fk (wr (S l)) (wr (S l)) = wr l) ->
  bmul_ok fk emb -> bpow_ok fk emb -> m2i_ok fk ->
  (lmaxI <= lmaxR)%nat -> (lmaxR <= S lmaxI)%nat -> (17 <= lmaxI)%nat -> (lmaxR <= 32)%nat ->
  forall dbg l offset cw m pre, (l <= lmaxR)%nat -> canon offset -> emb offset <> k0 fk -> Forall ok cw -> length cw = (2 ^ l)%nat ->
  Forall ok m -> ~ pzero fk (map den m) -> poly_degree o m + 1 <= MB ->
  pint_fmci_preprocess o ntt intt (zlen cw) offset m = Some pre ->
  exists r, pint_fmci_with_zerofiers_and_ntt_friendly_multiple o act ntt intt dbg cw offset m pre = Some r /\
            pint_fast_modular_coset_interpolate o act ntt intt dbg cw offset m = Some r /\ Forall ok r /\
            forall ip, interpolates fk (coset_points fk wr (emb offset) l) (map den cw) ip -> is_rem fk ip (map den m) (map den r).
Proof. exact (@fmci_with_pre). Qed.
Print Assumptions C08_fmci_with_preprocessing.
Theorem C08_fmci_preprocess_total :
  forall (F K : Type) (o : fops F) (fk : fieldK K) (ok : F -> Prop) (den : F -> K), field_ok o fk ok den ->
  forall ntt intt BND MB, 2 * MB <= BND -> 257 <= BND ->
  forall lmaxR wr emb, mul_exact o fk ok den ntt intt BND -> red_rem_b o fk ok den ntt intt MB ->
  rbnf_exact_b o fk ok den ntt intt MB -> roots_ok fk lmaxR wr -> lift_ok o ok den emb -> binv_ok fk emb -> root_ok lmaxR wr emb ->
  (forall l, (S l <= lmaxR)%nat -> kmul fk (wr (S l)) (wr (S l)) = wr l) -> bmul_ok fk emb -> bpow_ok fk emb -> (lmaxR <= 32)%nat ->
  forall l offset m, (l <= lmaxR)%nat -> canon offset -> emb offset <> k0 fk -> Forall ok m -> ~ pzero fk (map den m) ->
  poly_degree o m + 1 <= MB -> exists pre, pint_fmci_preprocess o ntt intt (2 ^ Z.of_nat l) offset m = Some pre.
Proof. exact (@preprocess_total_gen). Qed.
Print Assumptions C08_fmci_preprocess_total.
Theorem C08_fmci_rejects_no_root : forall F (o : fops F) act ntt intt dbg (cw : list F) offset m pre,
  primitive_root_of_unity (zlen cw) = None ->
  pint_fast_modular_coset_interpolate o act ntt intt dbg cw offset m = None /\
  pint_fmci_with_zerofiers_and_ntt_friendly_multiple o act ntt intt dbg cw offset m pre = None.
Proof. exact (@fmci_rejects_no_root). Qed.
Print Assumptions C08_fmci_rejects_no_root.

(* ---------------------------------------------------------------- Polynomial<BFieldElement>: nothing assumed *)
(* the root-side hypotheses hold up to 2^32 for the regenerated table; the transform-side ones up to 2^31 (C08b, C06) *)
Example C08_bfe_fmci_general_hypotheses :
  roots_ok fp_field 32 wr_b /\ root_ok 32 wr_b bden /\ intt_ok fp_field canon bden intt_b 31 wr_b /\
  (forall l, (S l <= 32)%nat -> kmul fp_field (wr_b (S l)) (wr_b (S l)) = wr_b l) /\
  mul_exact bfe_ops fp_field canon bden ntt_b intt_b (2 ^ 31) /\ red_rem_b bfe_ops fp_field canon bden ntt_b intt_b (2 ^ 29 + 1) /\
  rbnf_exact_b bfe_ops fp_field canon bden ntt_b intt_b (2 ^ 29 + 1).
Proof. exact (conj bfe_roots_ok32 (conj bfe_root_ok32 (conj bfe_intt_ok (conj bfe_wr_sq (conj bfe_mul_exact_31 (conj bfe_red_rem_b bfe_rbnf_exact_b)))))). Qed.
Theorem C08_bfe_fmci_general : forall dbg l offset cw m, (l <= 32)%nat -> canon offset -> bden offset <> k0 fp_field ->
  Forall canon cw -> length cw = (2 ^ l)%nat -> Forall canon m -> ~ pzero fp_field (map bden m) -> poly_degree bfe_ops m <= 2 ^ 29 ->
  exists pre r ip,
    pint_fmci_preprocess bfe_ops ntt_b intt_b (zlen cw) offset m = Some pre /\
    pint_fmci_with_zerofiers_and_ntt_friendly_multiple bfe_ops bb_act ntt_b intt_b dbg cw offset m pre = Some r /\
    pint_fast_modular_coset_interpolate bfe_ops bb_act ntt_b intt_b dbg cw offset m = Some r /\ Forall canon r /\
    interpolates fp_field (coset_points fp_field wr_b (bden offset) l) (map bden cw) ip /\ is_rem fp_field ip (map bden m) (map bden r) /\
    forall ip', interpolates fp_field (coset_points fp_field wr_b (bden offset) l) (map bden cw) ip' ->
                peq fp_field ip' ip /\ is_rem fp_field ip' (map bden m) (map bden r).
Proof. exact bfe_fmci_general. Qed.
Print Assumptions C08_bfe_fmci_general.
Theorem C08_bfe_fmci_with_preprocessing : forall dbg l offset cw m pre, (l <= 32)%nat -> canon offset -> bden offset <> k0 fp_field ->
  Forall canon cw -> length cw = (2 ^ l)%nat -> Forall canon m -> ~ pzero fp_field (map bden m) -> poly_degree bfe_ops m <= 2 ^ 29 ->
  pint_fmci_preprocess bfe_ops ntt_b intt_b (zlen cw) offset m = Some pre ->
  exists r, pint_fmci_with_zerofiers_and_ntt_friendly_multiple bfe_ops bb_act ntt_b intt_b dbg cw offset m pre = Some r /\
            pint_fast_modular_coset_interpolate bfe_ops bb_act ntt_b intt_b dbg cw offset m = Some r /\ Forall canon r /\
            forall ip, interpolates fp_field (coset_points fp_field wr_b (bden offset) l) (map bden cw) ip ->
                       is_rem fp_field ip (map bden m) (map bden r).
Proof. exact bfe_fmci_with_pre. Qed.
Print Assumptions C08_bfe_fmci_with_preprocessing.
Theorem C08_bfe_fmci_preprocess_total_2p32 : forall l offset m, (l <= 32)%nat -> canon offset -> bden offset <> k0 fp_field ->
  Forall canon m -> ~ pzero fp_field (map bden m) -> poly_degree bfe_ops m <= 2 ^ 29 ->
  exists pre, pint_fmci_preprocess bfe_ops ntt_b intt_b (2 ^ Z.of_nat l) offset m = Some pre.
Proof. exact bfe_fmci_preprocess_total32. Qed.
Print Assumptions C08_bfe_fmci_preprocess_total_2p32.
Theorem C08_bfe_fmci_accepted_lengths : forall dbg offset cw m, canon offset -> bden offset <> k0 fp_field -> Forall canon cw ->
  Forall canon m -> ~ pzero fp_field (map bden m) -> poly_degree bfe_ops m <= 2 ^ 29 ->
  (pint_fast_modular_coset_interpolate bfe_ops bb_act ntt_b intt_b dbg cw offset m <> None <->
   exists l, (l <= 32)%nat /\ length cw = (2 ^ l)%nat).
Proof. exact bfe_fmci_accepted_lengths. Qed.
Print Assumptions C08_bfe_fmci_accepted_lengths.

(* non-vacuity.  Codeword 3 1 4 1 5 9 2 6 on the coset 7 <w_3>, modulus X^3 + X^2 + 5: the hypotheses of C08_bfe_fmci_general hold
   and its conclusion follows (nothing executed here).  The model is EXECUTED on this input in proofs/PolyGenExamples.v (a proof
   target that is not imported here, because coqchk has no VM; 0.8 s, 29 s and 80 s in the VM): (a) the textbook route (inverse DFT,
   unscaling, schoolbook long division), (b) fast_modular_coset_interpolate as the code runs it, (c) the even / odd recursion
   forced by small thresholds (one split, preprocessing repeated for the halves, stored zerofiers, final reduce) all return
   fmci_ex_result, and so does the real code (harness c08: `modular_interpolate b 7 | 3 1 4 1 5 9 2 6 | o0 5 0 1 1`).
   C08_ex_fmci_length_2_32: the hypotheses are satisfiable at the largest length 2^32 (nothing executed). *)
Example C08_ex_fmci :
  fmci_ex_cw = map bfe_new [3; 1; 4; 1; 5; 9; 2; 6] /\ fmci_ex_offset = bfe_new 7 /\ fmci_ex_modulus = map bfe_new [5; 0; 1; 1] /\
  (canon fmci_ex_offset /\ bden fmci_ex_offset <> k0 fp_field /\ Forall canon fmci_ex_cw /\ length fmci_ex_cw = (2 ^ 3)%nat /\
   Forall canon fmci_ex_modulus /\ ~ pzero fp_field (map bden fmci_ex_modulus) /\ poly_degree bfe_ops fmci_ex_modulus <= 2 ^ 29) /\
  exists pre r ip,
    pint_fmci_preprocess bfe_ops ntt_b intt_b (zlen fmci_ex_cw) fmci_ex_offset fmci_ex_modulus = Some pre /\
    pint_fmci_with_zerofiers_and_ntt_friendly_multiple bfe_ops bb_act ntt_b intt_b false fmci_ex_cw fmci_ex_offset fmci_ex_modulus pre = Some r /\
    pint_fast_modular_coset_interpolate bfe_ops bb_act ntt_b intt_b false fmci_ex_cw fmci_ex_offset fmci_ex_modulus = Some r /\
    interpolates fp_field (coset_points fp_field wr_b (bden fmci_ex_offset) 3) (map bden fmci_ex_cw) ip /\
    is_rem fp_field ip (map bden fmci_ex_modulus) (map bden r).
Proof. exact (conj eq_refl (conj eq_refl (conj eq_refl (conj fmci_ex_hyps fmci_ex_applies)))). Qed.
Example C08_ex_fmci_length_2_32 :
  exists r, pint_fast_modular_coset_interpolate bfe_ops bb_act ntt_b intt_b false (repeat bfe_zero (2 ^ 32)) bfe_one [bfe_zero; bfe_one] = Some r /\
            Forall canon r.
Proof. exact fmci_ex_length_2_32. Qed.

(* ---------------------------------------------------------------- Polynomial<XFieldElement>: nothing assumed *)
Theorem C08_xfe_fmci_general : forall dbg l offset cw m, (l <= 32)%nat -> canon offset -> bden3 offset <> k0 k3_field ->
  Forall canon3 cw -> length cw = (2 ^ l)%nat -> Forall canon3 m -> ~ pzero k3_field (map denX m) -> poly_degree xfe_ops m <= 2 ^ 29 ->
  exists pre r ip,
    pint_fmci_preprocess xfe_ops ntt_x intt_x (zlen cw) offset m = Some pre /\
    pint_fmci_with_zerofiers_and_ntt_friendly_multiple xfe_ops xb_act ntt_x intt_x dbg cw offset m pre = Some r /\
    pint_fast_modular_coset_interpolate xfe_ops xb_act ntt_x intt_x dbg cw offset m = Some r /\ Forall canon3 r /\
    interpolates k3_field (coset_points k3_field wr_x (bden3 offset) l) (map denX cw) ip /\ is_rem k3_field ip (map denX m) (map denX r) /\
    forall ip', interpolates k3_field (coset_points k3_field wr_x (bden3 offset) l) (map denX cw) ip' ->
                peq k3_field ip' ip /\ is_rem k3_field ip' (map denX m) (map denX r).
Proof. exact xfe_fmci_general. Qed.
Print Assumptions C08_xfe_fmci_general.
Theorem C08_xfe_fmci_with_preprocessing : forall dbg l offset cw m pre, (l <= 32)%nat -> canon offset -> bden3 offset <> k0 k3_field ->
  Forall canon3 cw -> length cw = (2 ^ l)%nat -> Forall canon3 m -> ~ pzero k3_field (map denX m) -> poly_degree xfe_ops m <= 2 ^ 29 ->
  pint_fmci_preprocess xfe_ops ntt_x intt_x (zlen cw) offset m = Some pre ->
  exists r, pint_fmci_with_zerofiers_and_ntt_friendly_multiple xfe_ops xb_act ntt_x intt_x dbg cw offset m pre = Some r /\
            pint_fast_modular_coset_interpolate xfe_ops xb_act ntt_x intt_x dbg cw offset m = Some r /\ Forall canon3 r /\
            forall ip, interpolates k3_field (coset_points k3_field wr_x (bden3 offset) l) (map denX cw) ip ->
                       is_rem k3_field ip (map denX m) (map denX r).
Proof. exact xfe_fmci_with_pre. Qed.
Print Assumptions C08_xfe_fmci_with_preprocessing.
Theorem C08_xfe_fmci_accepted_lengths : forall dbg offset cw m, canon offset -> bden3 offset <> k0 k3_field -> Forall canon3 cw ->
  Forall canon3 m -> ~ pzero k3_field (map denX m) -> poly_degree xfe_ops m <= 2 ^ 29 ->
  (pint_fast_modular_coset_interpolate xfe_ops xb_act ntt_x intt_x dbg cw offset m <> None <->
   exists l, (l <= 32)%nat /\ length cw = (2 ^ l)%nat).
Proof. exact xfe_fmci_accepted_lengths. Qed.
Print Assumptions C08_xfe_fmci_accepted_lengths.
