(* props/C09.v - property C09: polynomial division, reduction, gcd and power-series inversion are exact.
   Only statements, each closed by `exact`, each followed by Print Assumptions.

   Vocabulary.  Model: model/PolyDiv.v (raw coefficient lists over an operations record `o : fops F`; `None` = the Rust
   code panics; `PdFuel` = the fuelled loop ran out of fuel).  Spec: spec/PolySpec.v over an abstract field
   `fk : fieldK K` (`peq` equality of polynomials, `padd pmul pdeg plead`), with the refinement
   `field_ok o fk ok den` of lib/FieldTheory.v (`ok` representation invariant, `den` denotation); `D l := map den l`.
     is_divmod fk a d q r  :=  a = q d + r  /\  deg r < deg d            (proofs/PolyDivProofs.v)
     is_rem fk a d r       :=  (exists q, a = q d + r)  /\  deg r < deg d
     pdvd fk d a           :=  exists q, a = q d
     pmodx fk n p q        :=  p = q mod X^n
   Every theorem is generic in the field; `C09_ex_field` shows the hypothesis is met by BFieldElement (C01). *)
From Coq Require Import ZArith Bool List.
From TF Require Import Word BFieldGen BField XField FieldOps FieldTheory PolyGen PolyCore PolySpec Ntt PolyDiv
  PolyCoreProofs Dft NttDft PolyDivProofs BFieldOk BFieldProofs.
Import ListNotations.
Open Scope Z_scope.

(* the hypotheses are satisfiable: the base field *)
Example C09_ex_field : field_ok bfe_ops fp_field canon bden.
Proof. exact bfe_field_ok. Qed.
(* a division with a non-trivial quotient and remainder; a clean division; a zero divisor *)
Example C09_ex_divide :
  option_map (fun qr => (map bfe_value (fst qr), map bfe_value (snd qr)))
             (pdiv_divide bfe_ops (map bfe_new [5; 0; 0; 1]) (map bfe_new [1; 2])) = Some ([16140901060737761281; 4611686017353646080; 9223372034707292161], [2305843008676823045]) /\
  pdiv_divide bfe_ops (map bfe_new [5; 0; 0; 1]) [bfe_zero; bfe_zero] = None.
Proof. split; vm_compute; reflexivity. Qed.

(* ---------------------------------------------------------------- division with remainder *)
(* dividend = quotient * divisor + remainder, remainder degree below divisor degree, for EVERY non-zero divisor
   (every degree pair, stored leading zeros included); Div, Rem, divide and reduce_long_division return its components *)
Theorem C09_divide_spec : forall F K (o : fops F) (fk : fieldK K) ok den, field_ok o fk ok den ->
  forall a d, Forall ok a -> Forall ok d -> ~ pzero fk (map den d) ->
  exists q r, pdiv_divide o a d = Some (q, r) /\ pdiv_div o a d = Some q /\ pdiv_rem o a d = Some r /\
              pdiv_reduce_long_division o a d = Some r /\ Forall ok q /\ Forall ok r /\
              is_divmod fk (map den a) (map den d) (map den q) (map den r).
Proof. exact (@div_rem_spec). Qed.
Print Assumptions C09_divide_spec.

(* quotient and remainder are unique in K[X] ... *)
Theorem C09_divmod_unique : forall K (fk : fieldK K) d q r q' r',
  peq fk (padd fk (pmul fk q d) r) (padd fk (pmul fk q' d) r') -> pdeg fk r < pdeg fk d -> pdeg fk r' < pdeg fk d ->
  peq fk q q' /\ peq fk r r'.
Proof. exact (@pdivmod_unique). Qed.
Print Assumptions C09_divmod_unique.
(* ... hence the model returns THE quotient and THE remainder *)
Theorem C09_divide_unique : forall F K (o : fops F) (fk : fieldK K) ok den, field_ok o fk ok den ->
  forall a d q r q0 r0, Forall ok a -> Forall ok d -> pdiv_naive_divide o a d = Some (q, r) ->
  is_divmod fk (map den a) (map den d) q0 r0 -> peq fk (map den q) q0 /\ peq fk (map den r) r0.
Proof. exact (@naive_divide_unique). Qed.
Print Assumptions C09_divide_unique.

(* division panics exactly on the zero divisor *)
Theorem C09_divide_panics_iff : forall F K (o : fops F) (fk : fieldK K) ok den, field_ok o fk ok den ->
  forall a d, Forall ok a -> Forall ok d -> (pdiv_naive_divide o a d = None <-> pzero fk (map den d)).
Proof. exact (@naive_divide_panics_iff). Qed.
Print Assumptions C09_divide_panics_iff.

(* ---------------------------------------------------------------- reduce *)
(* the arms of the dispatcher that do not go through fast_reduce (constant modulus, numerator already reduced,
   numerator degree <= 4 x modulus degree) return THE remainder; above that, reduce is fast_reduce; zero modulus panics *)
Theorem C09_reduce_slow_arms : forall F K (o : fops F) (fk : fieldK K) ok den, field_ok o fk ok den ->
  forall ntt intt a m, Forall ok a -> Forall ok m -> ~ pzero fk (map den m) -> pdiv_reduce_arm o a m <> 3 ->
  exists r, pdiv_reduce o ntt intt a m = Some r /\ Forall ok r /\ is_rem fk (map den a) (map den m) (map den r).
Proof. exact (@reduce_slow_arms_spec). Qed.
Print Assumptions C09_reduce_slow_arms.
Theorem C09_reduce_fast_arm : forall F (o : fops F) ntt intt a m,
  pdiv_reduce_arm o a m = 3 -> pdiv_reduce o ntt intt a m = pdiv_fast_reduce o ntt intt a m.
Proof. exact (@reduce_fast_arm). Qed.
Print Assumptions C09_reduce_fast_arm.
Theorem C09_reduce_zero_modulus : forall F K (o : fops F) (fk : fieldK K) ok den, field_ok o fk ok den ->
  forall ntt intt a m, Forall ok m -> pzero fk (map den m) -> pdiv_reduce o ntt intt a m = None.
Proof. exact (@reduce_zero_modulus). Qed.
Print Assumptions C09_reduce_zero_modulus.
(* the remainder is unique, so "every reduction strategy returns that same remainder" reads: is_rem for each *)
Theorem C09_remainder_unique : forall K (fk : fieldK K) a d r r', is_rem fk a d r -> is_rem fk a d r' -> peq fk r r'.
Proof. exact (@is_rem_unique). Qed.
Print Assumptions C09_remainder_unique.

(* fast_reduce and reduce return THE remainder for every non-zero modulus, through all three stages (chunk-wise reduction in
   the NTT domain by X^n + S, chunk-wise schoolbook reduction by the structured multiple of degree 3 deg + 1, long division)
   and every arm of the dispatcher - under the C06 hypotheses on ntt / intt: ntt is the DFT at a root `wr l` of order 2^l,
   intt its inverse, for every length 2^l with l <= lmax (the two size bounds say that the transforms used fit below 2^lmax) *)
Theorem C09_fast_reduce_spec : forall F K (o : fops F) (fk : fieldK K) ok den, field_ok o fk ok den ->
  forall (ntt intt : list F -> option (list F)) (lmax : nat) (wr : nat -> K),
  (forall l x, (l <= lmax)%nat -> length x = (2 ^ l)%nat -> Forall ok x ->
     exists y, ntt x = Some y /\ Forall ok y /\ length y = length x /\ map den y = dft fk (wr l) (map den x)) ->
  (forall l x, (l <= lmax)%nat -> length x = (2 ^ l)%nat -> Forall ok x ->
     exists y, intt x = Some y /\ Forall ok y /\ length y = length x /\ map den y = idft fk (wr l) (map den x)) ->
  (forall l, (l <= lmax)%nat -> half_root fk (wr l) l) -> (forall l, (l <= lmax)%nat -> wr l <> k0 fk) -> two_neq_0 fk ->
  forall a m, Forall ok a -> Forall ok m -> ~ pzero fk (map den m) ->
  next_pow2 (Z.max FAST_REDUCE_CUTOFF_THRESHOLD (poly_degree o m * 2)) + 1 <= 2 ^ Z.of_nat lmax ->
  3 * poly_degree o m + 2 <= 2 ^ Z.of_nat lmax ->
  exists r, pdiv_fast_reduce o ntt intt a m = Some r /\ Forall ok r /\ is_rem fk (map den a) (map den m) (map den r).
Proof. exact (@fast_reduce_spec). Qed.
Print Assumptions C09_fast_reduce_spec.
Theorem C09_reduce_spec : forall F K (o : fops F) (fk : fieldK K) ok den, field_ok o fk ok den ->
  forall (ntt intt : list F -> option (list F)) (lmax : nat) (wr : nat -> K),
  (forall l x, (l <= lmax)%nat -> length x = (2 ^ l)%nat -> Forall ok x ->
     exists y, ntt x = Some y /\ Forall ok y /\ length y = length x /\ map den y = dft fk (wr l) (map den x)) ->
  (forall l x, (l <= lmax)%nat -> length x = (2 ^ l)%nat -> Forall ok x ->
     exists y, intt x = Some y /\ Forall ok y /\ length y = length x /\ map den y = idft fk (wr l) (map den x)) ->
  (forall l, (l <= lmax)%nat -> half_root fk (wr l) l) -> (forall l, (l <= lmax)%nat -> wr l <> k0 fk) -> two_neq_0 fk ->
  forall a m, Forall ok a -> Forall ok m -> ~ pzero fk (map den m) ->
  next_pow2 (Z.max FAST_REDUCE_CUTOFF_THRESHOLD (poly_degree o m * 2)) + 1 <= 2 ^ Z.of_nat lmax ->
  3 * poly_degree o m + 2 <= 2 ^ Z.of_nat lmax ->
  exists r, pdiv_reduce o ntt intt a m = Some r /\ Forall ok r /\ is_rem fk (map den a) (map den m) (map den r).
Proof. exact (@reduce_spec). Qed.
Print Assumptions C09_reduce_spec.
(* the two chunk-wise stages on their own: the result is congruent to the input modulo the structured modulus *)
Theorem C09_reduce_by_ntt_friendly_modulus : forall F K (o : fops F) (fk : fieldK K) ok den, field_ok o fk ok den ->
  forall (ntt intt : list F -> option (list F)) (lmax : nat) (wr : nat -> K),
  (forall l x, (l <= lmax)%nat -> length x = (2 ^ l)%nat -> Forall ok x ->
     exists y, ntt x = Some y /\ Forall ok y /\ length y = length x /\ map den y = dft fk (wr l) (map den x)) ->
  (forall l x, (l <= lmax)%nat -> length x = (2 ^ l)%nat -> Forall ok x ->
     exists y, intt x = Some y /\ Forall ok y /\ length y = length x /\ map den y = idft fk (wr l) (map den x)) ->
  (forall l, (l <= lmax)%nat -> half_root fk (wr l) l) -> (forall l, (l <= lmax)%nat -> wr l <> k0 fk) -> two_neq_0 fk ->
  forall chk a Sp shift_ntt tail l, (l <= lmax)%nat -> Forall ok a -> Forall ok Sp ->
  zlen Sp = Z.of_nat (2 ^ l) -> ntt Sp = Some shift_ntt -> 0 <= tail < Z.of_nat (2 ^ l) -> poly_degree o Sp < tail ->
  exists r, pdiv_reduce_by_ntt_friendly_modulus o ntt intt chk a shift_ntt tail = Some r /\ Forall ok r /\
            zlen r <= Z.max (zlen a) (Z.of_nat (2 ^ l)) /\
            exists k, peq fk (map den a) (padd fk (pmul fk k (padd fk (map den Sp) (pXn fk (2 ^ l)))) (map den r)).
Proof. exact (@reduce_by_ntt_friendly_modulus_spec). Qed.
Print Assumptions C09_reduce_by_ntt_friendly_modulus.

(* ---------------------------------------------------------------- clean_divide (the CURRENT code: both repairs) *)
(* exact division returns that same quotient: the long-division arm, for EVERY value of the cutoff - the production
   1 << 9 and the cfg(test) 0 alike -, with and without debug assertions *)
Theorem C09_clean_divide_long_arm : forall F X K (o : fops F) (ox : fops X) act unlift offset nttx inttx batch_inv
    (fk : fieldK K) ok den, field_ok o fk ok den ->
  forall fix1 fix2 cutoff dbg a d q0, Forall ok a -> Forall ok d -> ~ pzero fk (map den d) ->
  peq fk (map den a) (pmul fk q0 (map den d)) -> poly_degree o d < cutoff ->
  exists q, pdiv_clean_divide_gen o ox act unlift offset nttx inttx batch_inv fix1 fix2 cutoff dbg a d = Some q /\
            Forall ok q /\ peq fk (map den q) q0.
Proof. exact (@clean_divide_long_arm_spec). Qed.
Print Assumptions C09_clean_divide_long_arm.
(* the NTT arm when the divisor vanishes on the evaluation coset: the code (since 87d4e9b) falls back to long division
   and returns the exact quotient; the removal of the root 0 (since 8b5e451) never panics on a clean division *)
Theorem C09_clean_divide_fallback : forall F X K (o : fops F) (ox : fops X) act unlift offset nttx inttx batch_inv
    (fk : fieldK K) ok den, field_ok o fk ok den ->
  forall fix2 cutoff dbg a d q0 a1 d1 av dv, Forall ok a -> Forall ok d -> ~ pzero fk (map den d) ->
  peq fk (map den a) (pmul fk q0 (map den d)) -> cutoff <= poly_degree o d ->
  pdiv_remove_root0 o fix2 a d = Some (a1, d1) ->
  pdiv_clean_codewords o ox act offset nttx a1 d1 = Some (av, dv) -> existsb (fis_zero ox) dv = true ->
  exists q, pdiv_clean_divide_gen o ox act unlift offset nttx inttx batch_inv true fix2 cutoff dbg a d = Some q /\
            Forall ok q /\ peq fk (map den q) q0.
Proof. exact (@clean_divide_fallback_spec). Qed.
Print Assumptions C09_clean_divide_fallback.
Theorem C09_clean_divide_root0_total : forall F K (o : fops F) (fk : fieldK K) ok den, field_ok o fk ok den ->
  forall a d q0, Forall ok a -> Forall ok d -> peq fk (map den a) (pmul fk q0 (map den d)) ->
  exists a1 d1, pdiv_remove_root0 o true a d = Some (a1, d1).
Proof. exact (@remove_root0_total). Qed.
Print Assumptions C09_clean_divide_root0_total.
(* the zero divisor panics, as documented *)
Theorem C09_clean_divide_zero_divisor : forall F X K (o : fops F) (ox : fops X) act unlift offset nttx inttx batch_inv
    (fk : fieldK K) ok den, field_ok o fk ok den ->
  forall fix1 fix2 cutoff dbg a d, Forall ok d -> pzero fk (map den d) -> 0 <= cutoff ->
  pdiv_clean_divide_gen o ox act unlift offset nttx inttx batch_inv fix1 fix2 cutoff dbg a d = None.
Proof. exact (@clean_divide_zero_divisor). Qed.
Print Assumptions C09_clean_divide_zero_divisor.
(* the full statement; what is missing from the three theorems above is the zero-free NTT arm (pointwise division of the
   two codewords on the coset x * <w>, inverse transform, unscaling, unlift) *)
(* SUPERSEDED placeholders: C09_clean_divide_first_statement_superseded and C09_fpsi_newton_first_statement_superseded are the
   statements as first written down; their size bounds admit inputs whose transform length is 2^32, which `ntt` rejects
   (u32::try_from), so they are false as written (see C09_fpsi_newton_panics_at_full_domain_2_32 in props/C09b.v).  The
   corrected statements are PROVED and pinned: C09_clean_divide, C09_clean_divide_exact_2p31 (below) and
   C09_fpsi_newton_spec, C09_bfe_fpsi_newton, C09_xfe_fpsi_newton (props/C09b.v). *)
Definition C09_clean_divide_first_statement_superseded : Prop :=
  forall cutoff dbg a d q0, (cutoff = CLEAN_DIVIDE_CUTOFF_THRESHOLD_PROD \/ cutoff = CLEAN_DIVIDE_CUTOFF_THRESHOLD_TEST) ->
  Forall canon a -> Forall canon d -> ~ pzero fp_field (map bden d) ->
  peq fp_field (map bden a) (pmul fp_field q0 (map bden d)) -> zlen a < 2 ^ 32 ->
  exists q, pdiv_clean_divide cutoff dbg a d = Some q /\ Forall canon q /\ peq fp_field (map bden q) q0.
(* the former failing inputs on the current code, under both cutoffs *)
Theorem C09_clean_divide_repaired_witnesses :
  (forall dbg, pdiv_clean_divide CLEAN_DIVIDE_CUTOFF_THRESHOLD_TEST dbg pdiv_w_dividend pdiv_w_divisor = Some pdiv_w_quotient) /\
  (forall dbg, pdiv_clean_divide CLEAN_DIVIDE_CUTOFF_THRESHOLD_PROD dbg pdiv_w_dividend pdiv_w_divisor = Some pdiv_w_quotient) /\
  (forall dbg, pdiv_clean_divide CLEAN_DIVIDE_CUTOFF_THRESHOLD_TEST dbg [] (map bfe_new [0; 1; 1]) = Some [bfe_zero]) /\
  (forall dbg, pdiv_clean_divide CLEAN_DIVIDE_CUTOFF_THRESHOLD_TEST dbg [bfe_zero] (map bfe_new [0; 0; 1]) = Some []).
Proof. exact clean_divide_repaired_witnesses. Qed.
Print Assumptions C09_clean_divide_repaired_witnesses.

(* HISTORICAL refutations (kept as labelled lemmas about the `_v0` / `_v1` models of the code before the repair commits
   87d4e9b and 8b5e451; the witnesses use the cfg(test) cutoff 0 - the model is parametric in the cutoff -, the
   production-cutoff replays of degree >= 512 are the regression inputs of corpus/C09/findings.txt) *)
Theorem C09_clean_divide_v0_refuted :
  exists a d q, pdiv_naive_divide bfe_ops a d = Some (q, [bfe_zero; bfe_zero; bfe_zero]) /\
                pdiv_clean_divide_v0 CLEAN_DIVIDE_CUTOFF_THRESHOLD_TEST false a d = None /\
                pdiv_clean_divide_v0 CLEAN_DIVIDE_CUTOFF_THRESHOLD_TEST true a d = None.
Proof. exact clean_divide_v0_refuted. Qed.
Print Assumptions C09_clean_divide_v0_refuted.
Theorem C09_clean_divide_v1_empty_dividend_refuted :
  exists d, pdiv_naive_divide bfe_ops [] d = Some ([], []) /\
            pdiv_clean_divide_v0 CLEAN_DIVIDE_CUTOFF_THRESHOLD_TEST false [] d = None /\
            pdiv_clean_divide_v1 CLEAN_DIVIDE_CUTOFF_THRESHOLD_TEST false [] d = None.
Proof. exact clean_divide_v1_empty_dividend_refuted. Qed.
Print Assumptions C09_clean_divide_v1_empty_dividend_refuted.

(* ---------------------------------------------------------------- extended gcd *)
Example C09_ex_xgcd :
  match pdiv_xgcd bfe_ops (map bfe_new [1; 0; 1]) (map bfe_new [1; 1]) with
  | PdOk (g, a, b) => (map bfe_value g, map bfe_value a, map bfe_value b)
  | _ => ([], [], [])
  end = ([1], [9223372034707292161], [9223372034707292161; 9223372034707292160]).
Proof. vm_compute. reflexivity. Qed.
(* xgcd never panics and never runs out of fuel; Bezout identity; g divides both inputs and is divisible by every
   common divisor; g is monic or zero - for ALL inputs, zero operands included *)
Theorem C09_xgcd_spec : forall F K (o : fops F) (fk : fieldK K) ok den, field_ok o fk ok den ->
  forall x y, Forall ok x -> Forall ok y ->
  exists g a b, pdiv_xgcd o x y = PdOk (g, a, b) /\ Forall ok g /\ Forall ok a /\ Forall ok b /\
                peq fk (map den g) (padd fk (pmul fk (map den a) (map den x)) (pmul fk (map den b) (map den y))) /\
                (forall c, pdvd fk c (map den g) <-> pdvd fk c (map den x) /\ pdvd fk c (map den y)) /\
                (pzero fk (map den g) \/ plead fk (map den g) = k1 fk).
Proof. exact (@xgcd_spec). Qed.
Print Assumptions C09_xgcd_spec.
Theorem C09_xgcd_divides : forall F K (o : fops F) (fk : fieldK K) ok den, field_ok o fk ok den ->
  forall x y g a b, Forall ok x -> Forall ok y -> pdiv_xgcd o x y = PdOk (g, a, b) ->
  pdvd fk (map den g) (map den x) /\ pdvd fk (map den g) (map den y) /\
  (pzero fk (map den g) <-> pzero fk (map den x) /\ pzero fk (map den y)).
Proof. exact (@xgcd_divides). Qed.
Print Assumptions C09_xgcd_divides.

(* ---------------------------------------------------------------- power-series inversion *)
(* formal_power_series_inverse_minimal: f * g = 1 mod X^(precision + 1) for EVERY precision, exactly precision + 1
   coefficients; it panics exactly when the constant coefficient is missing or zero *)
Theorem C09_fpsi_minimal_spec : forall F K (o : fops F) (fk : fieldK K) ok den, field_ok o fk ok den ->
  forall c0 cs1 n, ok c0 -> Forall ok cs1 -> den c0 <> k0 fk -> 0 <= n ->
  exists g, pdiv_fpsi_minimal o (c0 :: cs1) n = Some g /\ Forall ok g /\ length g = S (Z.to_nat n) /\
            pmodx fk (S (Z.to_nat n)) (pmul fk (map den (c0 :: cs1)) (map den g)) (pone fk).
Proof. exact (@fpsi_minimal_spec). Qed.
Print Assumptions C09_fpsi_minimal_spec.
Theorem C09_fpsi_minimal_panics : forall F K (o : fops F) (fk : fieldK K) ok den, field_ok o fk ok den ->
  forall l n, Forall ok l -> (l = [] \/ exists c0 cs1, l = c0 :: cs1 /\ den c0 = k0 fk) -> pdiv_fpsi_minimal o l n = None.
Proof. exact (@fpsi_minimal_panics). Qed.
Print Assumptions C09_fpsi_minimal_panics.

(* formal_power_series_inverse_newton, PARTIAL: the constant case for every precision, and - under the C06 hypotheses on
   ntt / intt (ntt is the DFT at a root of order 2^l, intt its inverse, for l <= lmax), which enter through C07's
   `multiply` - every precision whose Newton rounds all run before the switch to the NTT domain
   (num_rounds <= switch_point).  Not proved: the NTT-domain rounds (C09_fpsi_newton_first_statement_superseded stays a Definition). *)
Theorem C09_fpsi_newton_constant : forall F K (o : fops F) (fk : fieldK K) ok den, field_ok o fk ok den ->
  forall ntt intt l n, Forall ok l -> poly_degree o l = 0 ->
  exists g, pdiv_fpsi_newton o ntt intt l n = Some g /\ Forall ok g /\ peq fk (pmul fk (map den l) (map den g)) (pone fk).
Proof. exact (@fpsi_newton_constant). Qed.
Print Assumptions C09_fpsi_newton_constant.
Theorem C09_fpsi_newton_partial : forall F K (o : fops F) (fk : fieldK K) ok den, field_ok o fk ok den ->
  forall (ntt intt : list F -> option (list F)) (lmax : nat) (wr : nat -> K),
  (forall l x, (l <= lmax)%nat -> length x = (2 ^ l)%nat -> Forall ok x ->
     exists y, ntt x = Some y /\ Forall ok y /\ length y = length x /\ map den y = dft fk (wr l) (map den x)) ->
  (forall l x, (l <= lmax)%nat -> length x = (2 ^ l)%nat -> Forall ok x ->
     exists y, intt x = Some y /\ Forall ok y /\ length y = length x /\ map den y = idft fk (wr l) (map den x)) ->
  (forall l, (l <= lmax)%nat -> half_root fk (wr l) l) -> (forall l, (l <= lmax)%nat -> wr l <> k0 fk) -> two_neq_0 fk ->
  forall c0 cs n, Forall ok (c0 :: cs) -> den c0 <> k0 fk -> 0 <= n -> 1 <= poly_degree o (c0 :: cs) ->
  let sd := poly_degree o (c0 :: cs) in
  let nr := Z.log2 (next_pow2 n) in
  let sp := (if FORMAL_POWER_SERIES_INVERSE_CUTOFF <? sd then 0 else Z.log2 (FORMAL_POWER_SERIES_INVERSE_CUTOFF / sd)) in
  nr <= sp -> newton_len sd (Z.to_nat nr) <= 2 ^ Z.of_nat lmax ->
  exists g, pdiv_fpsi_newton o ntt intt (c0 :: cs) n = Some g /\ Forall ok g /\
            pmodx fk (Z.to_nat n) (pmul fk (map den (c0 :: cs)) (map den g)) (pone fk).
Proof. exact (@fpsi_newton_std_dft). Qed.
Print Assumptions C09_fpsi_newton_partial.
Definition C09_fpsi_newton_first_statement_superseded : Prop :=
  forall l n, Forall canon l -> 0 <= n -> n * Z.max 1 (poly_degree bfe_ops l) < 2 ^ 30 ->
  (exists c0 cs, l = c0 :: cs /\ bden c0 <> k0 fp_field) ->
  exists g, pdiv_fpsi_newton bfe_ops ntt_b intt_b l n = Some g /\ Forall canon g /\
            pmodx fp_field (Z.to_nat n) (pmul fp_field (map bden l) (map bden g)) (pone fp_field).

(* ---------------------------------------------------------------- structured multiples *)
(* structured_multiple_of_degree(n) for a polynomial of degree >= 1, under the C06 hypotheses on ntt / intt (they enter
   through C07's `multiply`): a multiple of f, monic, of degree EXACTLY n, of the documented form
   X^n + (something of degree < deg f); structured_multiple = degree 3 deg + 1.  The documented panics.  The constant case:
   a multiple of degree exactly n, but NOT monic unless the constant is 1 (the doc comment promises X^n + ...; callers
   inside the crate never pass a constant). *)
Theorem C09_structured_multiple_spec : forall F K (o : fops F) (fk : fieldK K) ok den, field_ok o fk ok den ->
  forall (ntt intt : list F -> option (list F)) (lmax : nat) (wr : nat -> K),
  (forall l x, (l <= lmax)%nat -> length x = (2 ^ l)%nat -> Forall ok x ->
     exists y, ntt x = Some y /\ Forall ok y /\ length y = length x /\ map den y = dft fk (wr l) (map den x)) ->
  (forall l x, (l <= lmax)%nat -> length x = (2 ^ l)%nat -> Forall ok x ->
     exists y, intt x = Some y /\ Forall ok y /\ length y = length x /\ map den y = idft fk (wr l) (map den x)) ->
  (forall l, (l <= lmax)%nat -> half_root fk (wr l) l) -> (forall l, (l <= lmax)%nat -> wr l <> k0 fk) -> two_neq_0 fk ->
  forall l n, Forall ok l -> 1 <= poly_degree o l -> poly_degree o l <= n -> n + 1 <= 2 ^ Z.of_nat lmax ->
  exists r, pdiv_structured_multiple_of_degree o ntt intt l n = Some r /\ Forall ok r /\
            pdvd fk (map den l) (map den r) /\ pdeg fk (map den r) = n /\ plead fk (map den r) = k1 fk /\
            (forall i, (Z.to_nat (poly_degree o l) <= i < Z.to_nat n)%nat -> coeff fk (map den r) i = k0 fk) /\
            zlen r = n + 1.
Proof. exact (@structured_multiple_dft). Qed.
Print Assumptions C09_structured_multiple_spec.
Theorem C09_structured_multiple_panics : forall F (o : fops F) ntt intt l n,
  (poly_degree o l < 0 \/ n < poly_degree o l) -> pdiv_structured_multiple_of_degree o ntt intt l n = None.
Proof. exact (@structured_multiple_panics). Qed.
Print Assumptions C09_structured_multiple_panics.
Theorem C09_structured_multiple_constant : forall F K (o : fops F) (fk : fieldK K) ok den, field_ok o fk ok den ->
  forall ntt intt l n, Forall ok l -> poly_degree o l = 0 -> 0 <= n ->
  exists r, pdiv_structured_multiple_of_degree o ntt intt l n = Some r /\ Forall ok r /\
            pdvd fk (map den l) (map den r) /\ pdeg fk (map den r) = n /\
            forall c0, idx l 0 = Some c0 -> plead fk (map den r) = kinv fk (den c0).
Proof. exact (@structured_multiple_constant). Qed.
Print Assumptions C09_structured_multiple_constant.

(* ---------------------------------------------------------------- Polynomial<XFieldElement>: hypotheses DISCHARGED
   k3_field = Fp[X]/(X^3 - X + 1) (proofs/XFieldOk.v: xfe_field_ok, C01_xfe_field_ok), canon3 / denX = representation
   invariant / denotation of a triple of Montgomery words; the C06 hypotheses on ntt_x / intt_x are the theorems of
   proofs/XFieldNtt.v (C06_ntt_x_field_is_dft, C06_intt_x_field_is_idft), transform lengths up to 2^31. *)
From TF Require Import XFieldProofs XFieldOk XFieldNtt XFieldPoly.
Example C09_ex_xfield : field_ok xfe_ops k3_field canon3 denX.
Proof. exact xfe_field_ok. Qed.
Theorem C09_xfe_divide_spec : forall a d, Forall canon3 a -> Forall canon3 d -> ~ pzero k3_field (map denX d) ->
  exists q r, pdiv_divide xfe_ops a d = Some (q, r) /\ pdiv_div xfe_ops a d = Some q /\ pdiv_rem xfe_ops a d = Some r /\
              pdiv_reduce_long_division xfe_ops a d = Some r /\ Forall canon3 q /\ Forall canon3 r /\
              is_divmod k3_field (map denX a) (map denX d) (map denX q) (map denX r).
Proof. exact xfe_divide_spec. Qed.
Print Assumptions C09_xfe_divide_spec.
Theorem C09_xfe_divide_panics_iff : forall a d, Forall canon3 a -> Forall canon3 d ->
  (pdiv_naive_divide xfe_ops a d = None <-> pzero k3_field (map denX d)).
Proof. exact xfe_divide_panics_iff. Qed.
Print Assumptions C09_xfe_divide_panics_iff.
Theorem C09_xfe_xgcd_spec : forall x y, Forall canon3 x -> Forall canon3 y ->
  exists g a b, pdiv_xgcd xfe_ops x y = PdOk (g, a, b) /\ Forall canon3 g /\ Forall canon3 a /\ Forall canon3 b /\
                peq k3_field (map denX g) (padd k3_field (pmul k3_field (map denX a) (map denX x)) (pmul k3_field (map denX b) (map denX y))) /\
                (forall c, pdvd k3_field c (map denX g) <-> pdvd k3_field c (map denX x) /\ pdvd k3_field c (map denX y)) /\
                (pzero k3_field (map denX g) \/ plead k3_field (map denX g) = k1 k3_field).
Proof. exact xfe_xgcd_spec. Qed.
Print Assumptions C09_xfe_xgcd_spec.
Theorem C09_xfe_fpsi_minimal_spec : forall c0 cs1 n, canon3 c0 -> Forall canon3 cs1 -> denX c0 <> k0 k3_field -> 0 <= n ->
  exists g, pdiv_fpsi_minimal xfe_ops (c0 :: cs1) n = Some g /\ Forall canon3 g /\ length g = S (Z.to_nat n) /\
            pmodx k3_field (S (Z.to_nat n)) (pmul k3_field (map denX (c0 :: cs1)) (map denX g)) (pone k3_field).
Proof. exact xfe_fpsi_minimal_spec. Qed.
Print Assumptions C09_xfe_fpsi_minimal_spec.
Theorem C09_xfe_structured_multiple_spec : forall l n, Forall canon3 l -> 1 <= poly_degree xfe_ops l ->
  poly_degree xfe_ops l <= n -> n + 1 <= 2 ^ 31 ->
  exists r, pdiv_structured_multiple_of_degree xfe_ops ntt_x intt_x l n = Some r /\ Forall canon3 r /\
            pdvd k3_field (map denX l) (map denX r) /\ pdeg k3_field (map denX r) = n /\ plead k3_field (map denX r) = k1 k3_field /\
            (forall i, (Z.to_nat (poly_degree xfe_ops l) <= i < Z.to_nat n)%nat -> coeff k3_field (map denX r) i = k0 k3_field) /\
            zlen r = n + 1.
Proof. exact xfe_structured_multiple_spec. Qed.
Print Assumptions C09_xfe_structured_multiple_spec.
Theorem C09_xfe_reduce_spec : forall a m, Forall canon3 a -> Forall canon3 m -> ~ pzero k3_field (map denX m) ->
  next_pow2 (Z.max FAST_REDUCE_CUTOFF_THRESHOLD (poly_degree xfe_ops m * 2)) + 1 <= 2 ^ 31 ->
  3 * poly_degree xfe_ops m + 2 <= 2 ^ 31 ->
  exists r, pdiv_reduce xfe_ops ntt_x intt_x a m = Some r /\ Forall canon3 r /\ is_rem k3_field (map denX a) (map denX m) (map denX r).
Proof. exact xfe_reduce_spec. Qed.
Print Assumptions C09_xfe_reduce_spec.
Theorem C09_xfe_fast_reduce_spec : forall a m, Forall canon3 a -> Forall canon3 m -> ~ pzero k3_field (map denX m) ->
  next_pow2 (Z.max FAST_REDUCE_CUTOFF_THRESHOLD (poly_degree xfe_ops m * 2)) + 1 <= 2 ^ 31 ->
  3 * poly_degree xfe_ops m + 2 <= 2 ^ 31 ->
  exists r, pdiv_fast_reduce xfe_ops ntt_x intt_x a m = Some r /\ Forall canon3 r /\ is_rem k3_field (map denX a) (map denX m) (map denX r).
Proof. exact xfe_fast_reduce_spec. Qed.
Print Assumptions C09_xfe_fast_reduce_spec.

(* ---------------------------------------------------------------- clean_divide: the full statement (proofs/XFieldCleanDivide.v)
   The zero-free NTT arm: given a clean division a1 = q0 * d1 (after the removal of the root 0), the two codewords are
   computed without panic (lift into XFieldElement, composition with the coset offset x = [0,1,0], padding to
   next_power_of_two(deg a1 + 1), ntt), and whenever no divisor evaluation is zero, batch inversion, the point-wise product,
   intt, the unscaling by x^-1 and every `unlift().unwrap()` succeed and the result denotes EXACTLY q0. *)
From TF Require Import XFieldCleanDivide.
Theorem C09_clean_divide_ntt_arm : forall a1 d1 q0, Forall canon a1 -> Forall canon d1 -> ~ pzero fp_field (map bden d1) ->
  peq fp_field (map bden a1) (pmul fp_field q0 (map bden d1)) -> pdeg fp_field (map bden a1) < 2 ^ 31 ->
  exists av dv, pdiv_clean_codewords bfe_ops xfe_ops xb_act pdiv_offset ntt_x a1 d1 = Some (av, dv) /\
    (existsb (fis_zero xfe_ops) dv = false ->
     exists inv qv oi q, xbatch_inversion dv = Some inv /\ intt_x (map2 xmul av inv) = Some qv /\
                         xinverse pdiv_offset = Some oi /\ map_opt xunlift (poly_scale xfe_ops qv oi) = Some q /\
                         Forall canon q /\ peq fp_field (map bden q) q0).
Proof. exact ntt_arm_spec. Qed.
Print Assumptions C09_clean_divide_ntt_arm.

(* All arms together, for the code of the current tree (pdiv_clean_divide = both repairs): EVERY clean division returns the
   exact quotient - every cutoff (the production 1 << 9 and the cfg(test) 0 included), with and without debug assertions,
   divisors with the root 0, divisors vanishing on the evaluation coset, the zero dividend, stored leading zeros.
   Size bound: deg a < 2^31, i.e. the transform length next_power_of_two(deg + 1) <= 2^31 is one that `ntt` accepts.
   (The placeholder C09_clean_divide_first_statement_superseded above asks for zlen a < 2^32; for 2^31 <= deg a the transform length is 2^32,
   which `ntt` rejects - `u32::try_from(x.len())` -, so that bound is too generous by one bit; C09_clean_divide_exact_2p31
   is the placeholder's statement with the bound 2^31.) *)
Theorem C09_clean_divide : forall cutoff dbg a d q0, Forall canon a -> Forall canon d -> ~ pzero fp_field (map bden d) ->
  peq fp_field (map bden a) (pmul fp_field q0 (map bden d)) -> poly_degree bfe_ops a < 2 ^ 31 ->
  exists q, pdiv_clean_divide cutoff dbg a d = Some q /\ Forall canon q /\ peq fp_field (map bden q) q0.
Proof. exact clean_divide_full. Qed.
Print Assumptions C09_clean_divide.
Theorem C09_clean_divide_exact_2p31 :
  forall cutoff dbg a d q0, (cutoff = CLEAN_DIVIDE_CUTOFF_THRESHOLD_PROD \/ cutoff = CLEAN_DIVIDE_CUTOFF_THRESHOLD_TEST) ->
  Forall canon a -> Forall canon d -> ~ pzero fp_field (map bden d) ->
  peq fp_field (map bden a) (pmul fp_field q0 (map bden d)) -> zlen a <= 2 ^ 31 ->
  exists q, pdiv_clean_divide cutoff dbg a d = Some q /\ Forall canon q /\ peq fp_field (map bden q) q0.
Proof.
  exact (fun cutoff dbg a d q0 _ Ha Hd NZ E Hl =>
           clean_divide_full cutoff dbg a d q0 Ha Hd NZ E (Z.lt_le_trans _ _ _ (degree_lt_len bfe_ops a) Hl)).
Qed.
Print Assumptions C09_clean_divide_exact_2p31.
(* the hypotheses are satisfiable, on both sides of the fallback: the repaired witnesses above (divisor vanishing on the
   coset), and a division that goes through the zero-free arm under the cfg(test) cutoff (the quotient 5 + 7 X comes back
   with the padding of the transform length 4 as stored leading zeros) *)
Example C09_clean_divide_ex :
  pdiv_vanishes_on_coset (poly_mul bfe_ops (map bfe_new [1; 2; 3]) (map bfe_new [5; 7])) (map bfe_new [1; 2; 3]) = Some false /\
  option_map (map bfe_value)
    (pdiv_clean_divide CLEAN_DIVIDE_CUTOFF_THRESHOLD_TEST false
       (poly_mul bfe_ops (map bfe_new [1; 2; 3]) (map bfe_new [5; 7])) (map bfe_new [1; 2; 3])) = Some [5; 7; 0; 0].
Proof. split; vm_compute; reflexivity. Qed.
