(* props/C09b.v - property C09, second file: the Newton power-series inversion in the NTT domain, and the instances of the
   reduction theorems for Polynomial<BFieldElement>.  Only statements, each closed by `exact`, each followed by Print Assumptions.

   Vocabulary as in props/C09.v: model/PolyDiv.v (`pdiv_` names, None = panic), `field_ok o fk ok den`, `pmodx fk n p q` =
   p and q agree below X^n, `is_rem`, `pdvd`; dft / idft / half_root: spec/Dft.v, proofs/NttDft.v.

   formal_power_series_inverse_newton runs `switch_point` Newton rounds f <- 2 f - f^2 s on coefficient lists and the
   remaining ones pointwise on transforms: f on a domain of length 2^C that grows with the tracked degree bound, s once on
   the full domain of length 2^L, read with stride 2^(L-C) (`step_by`).  The subsampling is sound because the root table is
   compatible, root(2^(l+1))^2 = root(2^l): hypothesis `wr_sq` of the generic theorem, C09_bfe_root_table_squares for the
   regenerated table.  C09_fpsi_newton_full of props/C09.v asks for precision * degree < 2^30; that bound admits inputs for
   which the full domain has 2^32 elements, which `ntt` rejects: C09_fpsi_newton_panics_at_full_domain_2_32 exhibits one.
   The theorem proved here is the same statement with the bound precision * max(1, degree) <= 2^29 (full domain <= 2^31). *)
From Coq Require Import ZArith Bool List.
From TF Require Import Word BFieldGen BField XField FieldOps FieldTheory PolyGen PolyCore PolySpec Ntt PolyDiv
  PolyCoreProofs Dft NttDft PolyDivProofs BFieldOk BFieldProofs PolyValueSem PolyDeepenDiv PolyDeepenNewton.
From TF Require Import XFieldProofs XFieldOk XFieldNtt XFieldPoly PolyDeepenXfe.
Import ListNotations.
Open Scope Z_scope.

(* ---------------------------------------------------------------- power-series inversion, every precision, every arm *)
(* generic: constant case, coefficient rounds only (num_rounds <= switch_point) and the rounds in the NTT domain, under the C06
   hypotheses on ntt / intt plus the compatibility of the roots; transform lengths stay <= 2^lmax when
   precision * max(1, deg) <= 2^(lmax - 2) *)
Theorem C09_fpsi_newton_spec : forall F K (o : fops F) (fk : fieldK K) ok den, field_ok o fk ok den ->
  forall (ntt intt : list F -> option (list F)) (lmax : nat) (wr : nat -> K),
  (forall l x, (l <= lmax)%nat -> length x = (2 ^ l)%nat -> Forall ok x ->
     exists y, ntt x = Some y /\ Forall ok y /\ length y = length x /\ map den y = dft fk (wr l) (map den x)) ->
  (forall l x, (l <= lmax)%nat -> length x = (2 ^ l)%nat -> Forall ok x ->
     exists y, intt x = Some y /\ Forall ok y /\ length y = length x /\ map den y = idft fk (wr l) (map den x)) ->
  (forall l, (l <= lmax)%nat -> half_root fk (wr l) l) -> (forall l, (l <= lmax)%nat -> wr l <> k0 fk) -> two_neq_0 fk ->
  (forall l, (S l <= lmax)%nat -> kmul fk (wr (S l)) (wr (S l)) = wr l) -> (2 <= lmax)%nat ->
  forall c0 cs n, Forall ok (c0 :: cs) -> den c0 <> k0 fk -> 0 <= n ->
  n * Z.max 1 (poly_degree o (c0 :: cs)) <= 2 ^ Z.of_nat (lmax - 2) ->
  exists g, pdiv_fpsi_newton o ntt intt (c0 :: cs) n = Some g /\ Forall ok g /\
            pmodx fk (Z.to_nat n) (pmul fk (map den (c0 :: cs)) (map den g)) (pone fk).
Proof. exact (@fpsi_newton_full_spec). Qed.
Print Assumptions C09_fpsi_newton_spec.
(* the rounds in the NTT domain on their own: switch_point < num_rounds, full domain next_power_of_two(2^(num_rounds+1) deg) <= 2^lmax *)
Theorem C09_fpsi_newton_ntt_phase : forall F K (o : fops F) (fk : fieldK K) ok den, field_ok o fk ok den ->
  forall (ntt intt : list F -> option (list F)) (lmax : nat) (wr : nat -> K),
  (forall l x, (l <= lmax)%nat -> length x = (2 ^ l)%nat -> Forall ok x ->
     exists y, ntt x = Some y /\ Forall ok y /\ length y = length x /\ map den y = dft fk (wr l) (map den x)) ->
  (forall l x, (l <= lmax)%nat -> length x = (2 ^ l)%nat -> Forall ok x ->
     exists y, intt x = Some y /\ Forall ok y /\ length y = length x /\ map den y = idft fk (wr l) (map den x)) ->
  (forall l, (l <= lmax)%nat -> half_root fk (wr l) l) -> (forall l, (l <= lmax)%nat -> wr l <> k0 fk) -> two_neq_0 fk ->
  (forall l, (S l <= lmax)%nat -> kmul fk (wr (S l)) (wr (S l)) = wr l) ->
  forall c0 cs n, Forall ok (c0 :: cs) -> den c0 <> k0 fk -> 0 <= n -> 1 <= poly_degree o (c0 :: cs) ->
  let sd := poly_degree o (c0 :: cs) in
  let nr := Z.log2 (next_pow2 n) in
  let sp := (if FORMAL_POWER_SERIES_INVERSE_CUTOFF <? sd then 0 else Z.log2 (FORMAL_POWER_SERIES_INVERSE_CUTOFF / sd)) in
  sp < nr -> next_pow2 (2 ^ (nr + 1) * sd) <= 2 ^ Z.of_nat lmax ->
  exists g, pdiv_fpsi_newton o ntt intt (c0 :: cs) n = Some g /\ Forall ok g /\
            pmodx fk (Z.to_nat n) (pmul fk (map den (c0 :: cs)) (map den g)) (pone fk).
Proof. exact (@fpsi_newton_ntt_spec). Qed.
Print Assumptions C09_fpsi_newton_ntt_phase.

(* the regenerated table PRIMITIVE_ROOTS is compatible (wr_b l = the field element denoted by primitive_root_of_unity(2^l)) *)
Theorem C09_bfe_root_table_squares : forall l, (S l <= 32)%nat -> kmul fp_field (wr_b (S l)) (wr_b (S l)) = wr_b l.
Proof. exact bfe_wr_sq. Qed.
Print Assumptions C09_bfe_root_table_squares.

(* Polynomial<BFieldElement>: C09_fpsi_newton_full with the bound that keeps the transforms within what ntt accepts *)
Theorem C09_bfe_fpsi_newton : forall l n, Forall canon l -> 0 <= n -> n * Z.max 1 (poly_degree bfe_ops l) <= 2 ^ 29 ->
  (exists c0 cs, l = c0 :: cs /\ bden c0 <> k0 fp_field) ->
  exists g, pdiv_fpsi_newton bfe_ops ntt_b intt_b l n = Some g /\ Forall canon g /\
            pmodx fp_field (Z.to_nat n) (pmul fp_field (map bden l) (map bden g)) (pone fp_field).
Proof. exact bfe_fpsi_newton. Qed.
Print Assumptions C09_bfe_fpsi_newton.
(* ... and why the bound `< 2^30` of C09_fpsi_newton_full cannot be kept: 1 + X^1023 at precision 2^20 + 1 satisfies every
   hypothesis of that statement, its full domain has 2^32 elements, ntt panics *)
Theorem C09_fpsi_newton_panics_at_full_domain_2_32 :
  Forall canon newton_w_poly /\ 0 <= newton_w_precision /\
  newton_w_precision * Z.max 1 (poly_degree bfe_ops newton_w_poly) < 2 ^ 30 /\
  (exists c0 cs, newton_w_poly = c0 :: cs /\ bden c0 <> k0 fp_field) /\
  pdiv_fpsi_newton bfe_ops ntt_b intt_b newton_w_poly newton_w_precision = None.
Proof. exact fpsi_newton_panics_at_full_domain_2_32. Qed.
Print Assumptions C09_fpsi_newton_panics_at_full_domain_2_32.
Example C09_newton_witness_shape :
  newton_w_poly = bfe_one :: repeat bfe_zero 1022 ++ [bfe_one] /\ newton_w_precision = 2 ^ 20 + 1.
Proof. exact (conj eq_refl eq_refl). Qed.

(* ---------------------------------------------------------------- Polynomial<BFieldElement>: the reduction theorems, C06 discharged *)
Theorem C09_bfe_reduce_spec : forall a m, Forall canon a -> Forall canon m -> ~ pzero fp_field (map bden m) ->
  next_pow2 (Z.max FAST_REDUCE_CUTOFF_THRESHOLD (poly_degree bfe_ops m * 2)) + 1 <= 2 ^ 31 -> 3 * poly_degree bfe_ops m + 2 <= 2 ^ 31 ->
  exists r, pdiv_reduce bfe_ops ntt_b intt_b a m = Some r /\ Forall canon r /\ is_rem fp_field (map bden a) (map bden m) (map bden r).
Proof. exact bfe_reduce_spec. Qed.
Print Assumptions C09_bfe_reduce_spec.
Theorem C09_bfe_fast_reduce_spec : forall a m, Forall canon a -> Forall canon m -> ~ pzero fp_field (map bden m) ->
  next_pow2 (Z.max FAST_REDUCE_CUTOFF_THRESHOLD (poly_degree bfe_ops m * 2)) + 1 <= 2 ^ 31 -> 3 * poly_degree bfe_ops m + 2 <= 2 ^ 31 ->
  exists r, pdiv_fast_reduce bfe_ops ntt_b intt_b a m = Some r /\ Forall canon r /\ is_rem fp_field (map bden a) (map bden m) (map bden r).
Proof. exact bfe_fast_reduce_spec. Qed.
Print Assumptions C09_bfe_fast_reduce_spec.
Theorem C09_bfe_structured_multiple_spec : forall l n, Forall canon l -> 1 <= poly_degree bfe_ops l -> poly_degree bfe_ops l <= n ->
  n + 1 <= 2 ^ 31 ->
  exists r, pdiv_structured_multiple_of_degree bfe_ops ntt_b intt_b l n = Some r /\ Forall canon r /\
            pdvd fp_field (map bden l) (map bden r) /\ pdeg fp_field (map bden r) = n /\ plead fp_field (map bden r) = k1 fp_field /\
            (forall i, (Z.to_nat (poly_degree bfe_ops l) <= i < Z.to_nat n)%nat -> coeff fp_field (map bden r) i = k0 fp_field) /\
            zlen r = n + 1.
Proof. exact bfe_structured_multiple_spec. Qed.
Print Assumptions C09_bfe_structured_multiple_spec.
Theorem C09_bfe_reduce_by_ntt_friendly_modulus : forall chk a Sp shift_ntt tail l, (l <= 31)%nat -> Forall canon a -> Forall canon Sp ->
  zlen Sp = Z.of_nat (2 ^ l) -> ntt_b Sp = Some shift_ntt -> 0 <= tail < Z.of_nat (2 ^ l) -> poly_degree bfe_ops Sp < tail ->
  exists r, pdiv_reduce_by_ntt_friendly_modulus bfe_ops ntt_b intt_b chk a shift_ntt tail = Some r /\ Forall canon r /\
            zlen r <= Z.max (zlen a) (Z.of_nat (2 ^ l)) /\
            exists k, peq fp_field (map bden a) (padd fp_field (pmul fp_field k (padd fp_field (map bden Sp) (pXn fp_field (2 ^ l)))) (map bden r)).
Proof. exact bfe_reduce_by_ntt_friendly_modulus_spec. Qed.
Print Assumptions C09_bfe_reduce_by_ntt_friendly_modulus.

(* ---------------------------------------------------------------- Polynomial<XFieldElement>: Newton inversion, nothing assumed *)
Theorem C09_xfe_root_table_squares : forall l, (S l <= 31)%nat -> kmul k3_field (wr_x (S l)) (wr_x (S l)) = wr_x l.
Proof. exact xfe_wr_sq. Qed.
Print Assumptions C09_xfe_root_table_squares.
Theorem C09_xfe_fpsi_newton : forall l n, Forall canon3 l -> 0 <= n -> n * Z.max 1 (poly_degree xfe_ops l) <= 2 ^ 29 ->
  (exists c0 cs, l = c0 :: cs /\ denX c0 <> k0 k3_field) ->
  exists g, pdiv_fpsi_newton xfe_ops ntt_x intt_x l n = Some g /\ Forall canon3 g /\
            pmodx k3_field (Z.to_nat n) (pmul k3_field (map denX l) (map denX g)) (pone k3_field).
Proof. exact xfe_fpsi_newton. Qed.
Print Assumptions C09_xfe_fpsi_newton.
