(* props/C09c.v - property C09, third file: formal_power_series_inverse_newton, the GENERAL theorem.
   Only statements, each closed by `exact`, each followed by Print Assumptions.

   props/C09.v (C09_fpsi_newton_partial: rounds on coefficient lists only) and props/C09b.v (C09_fpsi_newton_spec,
   C09_bfe_fpsi_newton: every arm, under the sufficient bound precision * max(1, degree) <= 2^29) leave open which inputs the
   code accepts.  Here, for the faithful model pdiv_fpsi_newton (model/PolyDiv.v) INCLUDING the loop in the NTT domain:

     C09_fpsi_newton_general        whenever the function returns (any well-formed f, any precision >= 0), the result g is
                                    well-formed and f * g = 1 mod X^precision - no size hypothesis at all;
     C09_fpsi_newton_domain         it returns  <->  the constant coefficient exists and is invertible, and
                                    degree = 0  \/  num_rounds <= switch_point  \/  full_domain_length <= 2^lmax
     C09_fpsi_newton_panics_iff     the two reasons for a panic, exactly: no invertible constant coefficient (documented), or the
                                    NTT phase runs and its full evaluation domain exceeds what `ntt` accepts (2^31 elements).

   with  num_rounds = ilog2(next_power_of_two(precision)),  switch_point = 0 or ilog2(CUTOFF / degree),
         full_domain_length = next_power_of_two(2^(num_rounds+1) * degree)          (newton_num_rounds, newton_switch_point,
   newton_full_domain, newton_fits of proofs/PolyNewtonGen.v; unfolded in C09_newton_fits_unfold).
   Generic in the field under the C06 statements about ntt / intt (as in C09b) plus: ntt rejects slices of >= 2 * 2^lmax
   elements, and the cutoff is <= 2^lmax.  For BFieldElement and XFieldElement (lmax = 31) nothing is assumed.
   Vocabulary as in props/C09.v: `field_ok o fk ok den`, `pmodx fk n p q` = p and q agree below X^n. *)
From Coq Require Import ZArith Bool List.
From TF Require Import Word BFieldGen BField XField FieldOps FieldTheory PolyGen PolyCore PolySpec Ntt PolyDiv
  PolyCoreProofs Dft NttDft PolyDivProofs BFieldOk BFieldProofs PolyValueSem PolyDeepenDiv PolyDeepenNewton PolyNewtonGen.
From TF Require Import XFieldProofs XFieldOk XFieldNtt XFieldPoly PolyDeepenXfe.
Import ListNotations.
Open Scope Z_scope.

Example C09_newton_fits_unfold : forall lmax sd n,
  newton_fits lmax sd n =
  (sd = 0 \/
   Z.log2 (next_pow2 n) <= (if FORMAL_POWER_SERIES_INVERSE_CUTOFF <? sd then 0 else Z.log2 (FORMAL_POWER_SERIES_INVERSE_CUTOFF / sd)) \/
   next_pow2 (2 ^ (Z.log2 (next_pow2 n) + 1) * sd) <= 2 ^ Z.of_nat lmax).
Proof. exact (fun lmax sd n => eq_refl). Qed.

(* ---------------------------------------------------------------- generic *)
(* correct on EVERY input the function accepts *)
Theorem C09_fpsi_newton_general : forall F K (o : fops F) (fk : fieldK K) ok den, field_ok o fk ok den ->
  forall (ntt intt : list F -> option (list F)) (lmax : nat) (wr : nat -> K),
  (forall l x, (l <= lmax)%nat -> length x = (2 ^ l)%nat -> Forall ok x ->
     exists y, ntt x = Some y /\ Forall ok y /\ length y = length x /\ map den y = dft fk (wr l) (map den x)) ->
  (forall l x, (l <= lmax)%nat -> length x = (2 ^ l)%nat -> Forall ok x ->
     exists y, intt x = Some y /\ Forall ok y /\ length y = length x /\ map den y = idft fk (wr l) (map den x)) ->
  (forall l, (l <= lmax)%nat -> half_root fk (wr l) l) -> (forall l, (l <= lmax)%nat -> wr l <> k0 fk) -> two_neq_0 fk ->
  (forall l, (S l <= lmax)%nat -> kmul fk (wr (S l)) (wr (S l)) = wr l) ->
  (forall x, 2 * 2 ^ Z.of_nat lmax <= zlen x -> ntt x = None) ->
  FORMAL_POWER_SERIES_INVERSE_CUTOFF <= 2 ^ Z.of_nat lmax ->
  forall l n g, Forall ok l -> 0 <= n -> pdiv_fpsi_newton o ntt intt l n = Some g ->
  Forall ok g /\ pmodx fk (Z.to_nat n) (pmul fk (map den l) (map den g)) (pone fk).
Proof. exact (@newton_sound). Qed.
Print Assumptions C09_fpsi_newton_general.
(* the inputs it accepts, exactly *)
Theorem C09_fpsi_newton_domain : forall F K (o : fops F) (fk : fieldK K) ok den, field_ok o fk ok den ->
  forall (ntt intt : list F -> option (list F)) (lmax : nat) (wr : nat -> K),
  (forall l x, (l <= lmax)%nat -> length x = (2 ^ l)%nat -> Forall ok x ->
     exists y, ntt x = Some y /\ Forall ok y /\ length y = length x /\ map den y = dft fk (wr l) (map den x)) ->
  (forall l x, (l <= lmax)%nat -> length x = (2 ^ l)%nat -> Forall ok x ->
     exists y, intt x = Some y /\ Forall ok y /\ length y = length x /\ map den y = idft fk (wr l) (map den x)) ->
  (forall l, (l <= lmax)%nat -> half_root fk (wr l) l) -> (forall l, (l <= lmax)%nat -> wr l <> k0 fk) -> two_neq_0 fk ->
  (forall l, (S l <= lmax)%nat -> kmul fk (wr (S l)) (wr (S l)) = wr l) ->
  (forall x, 2 * 2 ^ Z.of_nat lmax <= zlen x -> ntt x = None) ->
  FORMAL_POWER_SERIES_INVERSE_CUTOFF <= 2 ^ Z.of_nat lmax ->
  forall l n, Forall ok l -> 0 <= n ->
  (pdiv_fpsi_newton o ntt intt l n <> None <->
   (exists c0 cs, l = c0 :: cs /\ den c0 <> k0 fk) /\ newton_fits lmax (poly_degree o l) n).
Proof. exact (@newton_total). Qed.
Print Assumptions C09_fpsi_newton_domain.
(* ... and on them: no panic, well-formed, f * g = 1 mod X^precision *)
Theorem C09_fpsi_newton_accepts : forall F K (o : fops F) (fk : fieldK K) ok den, field_ok o fk ok den ->
  forall (ntt intt : list F -> option (list F)) (lmax : nat) (wr : nat -> K),
  (forall l x, (l <= lmax)%nat -> length x = (2 ^ l)%nat -> Forall ok x ->
     exists y, ntt x = Some y /\ Forall ok y /\ length y = length x /\ map den y = dft fk (wr l) (map den x)) ->
  (forall l x, (l <= lmax)%nat -> length x = (2 ^ l)%nat -> Forall ok x ->
     exists y, intt x = Some y /\ Forall ok y /\ length y = length x /\ map den y = idft fk (wr l) (map den x)) ->
  (forall l, (l <= lmax)%nat -> half_root fk (wr l) l) -> (forall l, (l <= lmax)%nat -> wr l <> k0 fk) -> two_neq_0 fk ->
  (forall l, (S l <= lmax)%nat -> kmul fk (wr (S l)) (wr (S l)) = wr l) ->
  (forall x, 2 * 2 ^ Z.of_nat lmax <= zlen x -> ntt x = None) ->
  FORMAL_POWER_SERIES_INVERSE_CUTOFF <= 2 ^ Z.of_nat lmax ->
  forall c0 cs n, Forall ok (c0 :: cs) -> den c0 <> k0 fk -> 0 <= n -> newton_fits lmax (poly_degree o (c0 :: cs)) n ->
  exists g, pdiv_fpsi_newton o ntt intt (c0 :: cs) n = Some g /\ Forall ok g /\
            pmodx fk (Z.to_nat n) (pmul fk (map den (c0 :: cs)) (map den g)) (pone fk).
Proof. exact (@newton_accepts). Qed.
Print Assumptions C09_fpsi_newton_accepts.
Theorem C09_fpsi_newton_panics_iff : forall F K (o : fops F) (fk : fieldK K) ok den, field_ok o fk ok den ->
  forall (ntt intt : list F -> option (list F)) (lmax : nat) (wr : nat -> K),
  (forall l x, (l <= lmax)%nat -> length x = (2 ^ l)%nat -> Forall ok x ->
     exists y, ntt x = Some y /\ Forall ok y /\ length y = length x /\ map den y = dft fk (wr l) (map den x)) ->
  (forall l x, (l <= lmax)%nat -> length x = (2 ^ l)%nat -> Forall ok x ->
     exists y, intt x = Some y /\ Forall ok y /\ length y = length x /\ map den y = idft fk (wr l) (map den x)) ->
  (forall l, (l <= lmax)%nat -> half_root fk (wr l) l) -> (forall l, (l <= lmax)%nat -> wr l <> k0 fk) -> two_neq_0 fk ->
  (forall l, (S l <= lmax)%nat -> kmul fk (wr (S l)) (wr (S l)) = wr l) ->
  (forall x, 2 * 2 ^ Z.of_nat lmax <= zlen x -> ntt x = None) ->
  FORMAL_POWER_SERIES_INVERSE_CUTOFF <= 2 ^ Z.of_nat lmax ->
  forall l n, Forall ok l -> 0 <= n ->
  (pdiv_fpsi_newton o ntt intt l n = None <->
   ~ (exists c0 cs, l = c0 :: cs /\ den c0 <> k0 fk) \/
   (1 <= poly_degree o l /\ newton_switch_point (poly_degree o l) < newton_num_rounds n /\
    2 ^ Z.of_nat lmax < newton_full_domain (poly_degree o l) n)).
Proof. exact (@newton_panics_iff). Qed.
Print Assumptions C09_fpsi_newton_panics_iff.

(* ---------------------------------------------------------------- Polynomial<BFieldElement>: nothing assumed *)
(* the hypotheses added over C09b are theorems for the real ntt and the regenerated cutoff *)
Example C09_bfe_newton_hypotheses :
  (forall x, 2 * 2 ^ Z.of_nat 31 <= zlen x -> ntt_b x = None) /\ FORMAL_POWER_SERIES_INVERSE_CUTOFF <= 2 ^ Z.of_nat 31.
Proof. exact (conj ntt_b_rejects cutoff_le_2_31). Qed.
Theorem C09_bfe_fpsi_newton_general : forall l n g, Forall canon l -> 0 <= n ->
  pdiv_fpsi_newton bfe_ops ntt_b intt_b l n = Some g ->
  Forall canon g /\ pmodx fp_field (Z.to_nat n) (pmul fp_field (map bden l) (map bden g)) (pone fp_field).
Proof. exact bfe_newton_sound. Qed.
Print Assumptions C09_bfe_fpsi_newton_general.
Theorem C09_bfe_fpsi_newton_domain : forall l n, Forall canon l -> 0 <= n ->
  (pdiv_fpsi_newton bfe_ops ntt_b intt_b l n <> None <->
   (exists c0 cs, l = c0 :: cs /\ bden c0 <> k0 fp_field) /\ newton_fits 31 (poly_degree bfe_ops l) n).
Proof. exact bfe_newton_total. Qed.
Print Assumptions C09_bfe_fpsi_newton_domain.
Theorem C09_bfe_fpsi_newton_accepts : forall c0 cs n, Forall canon (c0 :: cs) -> bden c0 <> k0 fp_field -> 0 <= n ->
  newton_fits 31 (poly_degree bfe_ops (c0 :: cs)) n ->
  exists g, pdiv_fpsi_newton bfe_ops ntt_b intt_b (c0 :: cs) n = Some g /\ Forall canon g /\
            pmodx fp_field (Z.to_nat n) (pmul fp_field (map bden (c0 :: cs)) (map bden g)) (pone fp_field).
Proof. exact bfe_newton_accepts. Qed.
Print Assumptions C09_bfe_fpsi_newton_accepts.
Theorem C09_bfe_fpsi_newton_panics_iff : forall l n, Forall canon l -> 0 <= n ->
  (pdiv_fpsi_newton bfe_ops ntt_b intt_b l n = None <->
   ~ (exists c0 cs, l = c0 :: cs /\ bden c0 <> k0 fp_field) \/
   (1 <= poly_degree bfe_ops l /\ newton_switch_point (poly_degree bfe_ops l) < newton_num_rounds n /\
    2 ^ Z.of_nat 31 < newton_full_domain (poly_degree bfe_ops l) n)).
Proof. exact bfe_newton_panics_iff. Qed.
Print Assumptions C09_bfe_fpsi_newton_panics_iff.

(* non-vacuity.  (1) an input whose last round runs in the NTT domain (f = 1 + X + X^128, precision 4: one round on
   coefficient lists, one pointwise round with a domain change 256 -> 512, full domain 1024): the theorems apply, the model returns
   a g with f * g = 1 mod X^4.  The model is also EXECUTED on it in proofs/PolyGenExamples.v (30 s in the VM; that file is a proof
   target but is not imported here, because coqchk has no VM): 1024 coefficients starting 1, -1, 1, -1; the real code prints the
   same (harness c09: `fpsi_newton b 4 | o0 1 1 0 ... 0 1`).  (2) the size arm of the panic characterisation is inhabited by the
   witness of C09b (1 + X^1023, precision 2^20 + 1: full domain 2^32).  (3) the bound of C09b is sufficient, not necessary: degree 1
   at precision 2^29 + 1 violates precision * degree <= 2^29 and fits (full domain 2^31). *)
Example C09_ex_newton_ntt_phase :
  newton_ex_poly = map bfe_new (1 :: 1 :: repeat 0 126 ++ [1]) /\
  poly_degree bfe_ops newton_ex_poly = 128 /\ pdiv_fpsi_newton_uses_ntt bfe_ops newton_ex_poly 4 = true /\
  newton_full_domain 128 4 = 1024 /\
  exists g, pdiv_fpsi_newton bfe_ops ntt_b intt_b newton_ex_poly 4 = Some g /\ Forall canon g /\
            pmodx fp_field 4 (pmul fp_field (map bden newton_ex_poly) (map bden g)) (pone fp_field).
Proof. exact (conj eq_refl newton_ex_ntt_phase). Qed.
Example C09_ex_newton_panic_arm :
  1 <= poly_degree bfe_ops newton_w_poly /\
  newton_switch_point (poly_degree bfe_ops newton_w_poly) < newton_num_rounds newton_w_precision /\
  2 ^ Z.of_nat 31 < newton_full_domain (poly_degree bfe_ops newton_w_poly) newton_w_precision.
Proof. vm_compute. repeat split; (reflexivity || discriminate). Qed.
Example C09_ex_newton_fits_beyond_c09b_bound :
  newton_fits 31 1 (2 ^ 29 + 1) /\ ~ ((2 ^ 29 + 1) * Z.max 1 1 <= 2 ^ 29).
Proof. split; [right; right; vm_compute; discriminate|vm_compute; intros X; exact (X eq_refl)]. Qed.

(* ---------------------------------------------------------------- Polynomial<XFieldElement>: nothing assumed *)
Theorem C09_xfe_fpsi_newton_general : forall l n g, Forall canon3 l -> 0 <= n ->
  pdiv_fpsi_newton xfe_ops ntt_x intt_x l n = Some g ->
  Forall canon3 g /\ pmodx k3_field (Z.to_nat n) (pmul k3_field (map denX l) (map denX g)) (pone k3_field).
Proof. exact xfe_newton_sound. Qed.
Print Assumptions C09_xfe_fpsi_newton_general.
Theorem C09_xfe_fpsi_newton_domain : forall l n, Forall canon3 l -> 0 <= n ->
  (pdiv_fpsi_newton xfe_ops ntt_x intt_x l n <> None <->
   (exists c0 cs, l = c0 :: cs /\ denX c0 <> k0 k3_field) /\ newton_fits 31 (poly_degree xfe_ops l) n).
Proof. exact xfe_newton_total. Qed.
Print Assumptions C09_xfe_fpsi_newton_domain.
Theorem C09_xfe_fpsi_newton_panics_iff : forall l n, Forall canon3 l -> 0 <= n ->
  (pdiv_fpsi_newton xfe_ops ntt_x intt_x l n = None <->
   ~ (exists c0 cs, l = c0 :: cs /\ denX c0 <> k0 k3_field) \/
   (1 <= poly_degree xfe_ops l /\ newton_switch_point (poly_degree xfe_ops l) < newton_num_rounds n /\
    2 ^ Z.of_nat 31 < newton_full_domain (poly_degree xfe_ops l) n)).
Proof. exact xfe_newton_panics_iff. Qed.
Print Assumptions C09_xfe_fpsi_newton_panics_iff.
