(* props/C10.v - property C10: Merkle trees build correctly under any schedule; honest proofs are
   complete and minimal.  Only statements, each closed by `exact`, each followed by Print Assumptions.
   Model: model/Merkle.v (from_digests fixed cutoff fuel; fixed = true is the current tree, after repair
   2570109 of the `while count >= cutoff` loop; fixed = false the originally pinned tree).
   Specification: spec/MerkleSpec.v. *)
From Coq Require Import ZArith Bool List.
From TF Require Import Merkle MerkleSpec MerkleGen MerkleProofs.
Import ListNotations.
Open Scope Z_scope.

(* the specification tree satisfies the defining equations (every inner node is the hash of its
   children, leafs copied, nodes[0] the filler) and is the only node vector that does *)
Theorem C10_spec_tree_equations : forall (D : Type) (H : D -> D -> D) (dflt : D) (leafs : list D),
  is_pow2 (zlen leafs) = true -> tree_ok D H dflt leafs (spec_tree D H dflt leafs).
Proof. exact spec_tree_ok. Qed.
Print Assumptions C10_spec_tree_equations.

Theorem C10_spec_tree_unique : forall (D : Type) (H : D -> D -> D) (dflt : D) (leafs t1 t2 : list D),
  tree_ok D H dflt leafs t1 -> tree_ok D H dflt leafs t2 -> t1 = t2.
Proof. exact tree_ok_unique. Qed.
Print Assumptions C10_spec_tree_unique.

(* construction = specification, for every cutoff on the current tree (every cutoff >= 1 before the
   repair), every sufficient fuel: in particular independent of the cutoff *)
Theorem C10_build_spec : forall (D : Type) (H : D -> D -> D) (dflt : D) (fixed : bool) (cutoff : Z)
    (fuel : nat) (leafs : list D),
  fixed = true \/ 1 <= cutoff -> is_pow2 (zlen leafs) = true -> zlen leafs < 2 ^ Z.of_nat fuel ->
  from_digests D H dflt fixed cutoff fuel leafs = Ok (spec_tree D H dflt leafs).
Proof. exact build_spec_lemma. Qed.
Print Assumptions C10_build_spec.

(* the current tree: every cutoff, including 0 *)
Theorem C10_build_spec_current : forall (D : Type) (H : D -> D -> D) (dflt : D) (cutoff : Z) (leafs : list D),
  is_pow2 (zlen leafs) = true ->
  from_digests D H dflt CUR_CUTOFF_FIXED cutoff (build_fuel D leafs) leafs = Ok (spec_tree D H dflt leafs).
Proof. exact build_spec_current. Qed.
Print Assumptions C10_build_spec_current.

Example C10_build_spec_hyp : exists (cutoff : Z) (fuel : nat) (leafs : list term),
  (false = true \/ 1 <= cutoff) /\ is_pow2 (zlen leafs) = true /\ zlen leafs < 2 ^ Z.of_nat fuel /\
  from_digests term Node Dflt false cutoff fuel leafs = Ok (spec_tree term Node Dflt leafs).
Proof. exists 2, 3%nat, (map Atom [0; 1; 2; 3]). split; [right; discriminate|]. repeat split. Qed.

Theorem C10_build_rejects : forall (D : Type) (H : D -> D -> D) (dflt : D) (fixed : bool) (cutoff : Z)
    (fuel : nat) (leafs : list D),
  is_pow2 (zlen leafs) = false -> from_digests D H dflt fixed cutoff fuel leafs = Err.
Proof. exact build_rejects_lemma. Qed.
Print Assumptions C10_build_rejects.

(* termination: with the standard fuel the loop never runs out, for every cutoff on the current tree
   (for every cutoff >= 1 before the repair) *)
Theorem C10_build_terminates : forall (D : Type) (H : D -> D -> D) (dflt : D) (fixed : bool) (cutoff : Z)
    (leafs : list D),
  fixed = true \/ 1 <= cutoff ->
  from_digests D H dflt fixed cutoff (build_fuel D leafs) leafs <> OutOfFuel.
Proof. exact build_terminates_lemma. Qed.
Print Assumptions C10_build_terminates.

(* history: REFUTED for the variant before 2570109 with cutoff = 0 (merkle-cutoff-zero-nontermination):
   no amount of fuel suffices *)
Theorem C10_build_terminates_v0_refuted :
  exists (D : Type) (H : D -> D -> D) (dflt : D) (cutoff : Z) (leafs : list D),
    0 <= cutoff /\ is_pow2 (zlen leafs) = true /\
    forall fuel, from_digests D H dflt false cutoff fuel leafs = OutOfFuel.
Proof. exact build_terminates_v0_refuted. Qed.
Print Assumptions C10_build_terminates_v0_refuted.

(* ---- auth_structure_spec.  The node-index list computed by the code is the documented one: exactly
   needed \ computable, strictly descending (hence de-duplicated), for any order / repetition of in-range
   indices; out-of-range indices are rejected. *)
Theorem C10_auth_indices_spec : forall (m : mmode) (n : Z) (idxs : list Z),
  1 <= n -> 2 * n <= USZ -> (forall i, In i idxs -> 0 <= i < n) ->
  auth_structure_node_indices m n idxs = Ok (minimal_list n idxs) /\
  Sorted.StronglySorted Z.gt (minimal_list n idxs) /\
  forall x, In x (minimal_list n idxs) <-> minimal n idxs x.
Proof. exact auth_indices_full. Qed.
Print Assumptions C10_auth_indices_spec.

Theorem C10_auth_structure_spec : forall (D : Type) (H : D -> D -> D) (Deqb : D -> D -> bool) (dflt : D),
  (forall a b : D, Deqb a b = true <-> a = b) ->
  forall (leafs : list D) (h : Z) (idxs : list Z) (m : mmode),
  0 <= h <= 31 -> zlen leafs = 2 ^ h -> (forall i, In i idxs -> 0 <= i) ->
  let T := spec_tree D H dflt leafs in
  (forall i, In i idxs -> i < 2 ^ h) /\
    mt_authentication_structure D m T idxs = Ok (map (znth D dflt T) (minimal_list (2 ^ h) idxs)) \/
  (exists i, In i idxs /\ 2 ^ h <= i) /\ mt_authentication_structure D m T idxs = Err.
Proof. exact auth_structure_lemma. Qed.
Print Assumptions C10_auth_structure_spec.

Example C10_auth_structure_doc_example :
  auth_structure_node_indices Release 8 [0; 2] = Ok [11; 9; 3] /\ minimal_list 8 [2; 0; 2] = [11; 9; 3].
Proof. split; vm_compute; reflexivity. Qed.

(* ---- complete + paths_are_siblings: for every list of in-range indices (any order, repetitions, empty) the
   prover returns the proof (height, claimed leafs, minimal structure); it verifies against the root; and it
   expands to the sibling paths of the tree *)
Theorem C10_honest_proofs : forall (D : Type) (H : D -> D -> D) (Deqb : D -> D -> bool) (dflt : D),
  (forall a b : D, Deqb a b = true <-> a = b) ->
  forall (leafs : list D) (h : Z) (idxs : list Z) (m : mmode),
  0 <= h <= 31 -> zlen leafs = 2 ^ h -> (forall i, In i idxs -> 0 <= i < 2 ^ h) ->
  let T := spec_tree D H dflt leafs in
  exists p,
    mt_inclusion_proof D CUR_LEAF_FIXED m T idxs = Ok p /\
    p = MkProof h (map (fun i => (i, znth D dflt leafs i)) idxs)
                  (map (znth D dflt T) (minimal_list (2 ^ h) idxs)) /\
    mt_root D T = Ok (znth D dflt T 1) /\
    ip_verify D H Deqb m p (znth D dflt T 1) = Ok true /\
    ip_into_authentication_paths D H Deqb m p =
      Ok (map (fun i => tree_path D dflt T (2 ^ h + i) (Z.to_nat h)) idxs).
Proof. exact honest_proofs_lemma. Qed.
Print Assumptions C10_honest_proofs.

Example C10_honest_proofs_example :
  let T := spec_tree term Node Dflt wit_leafs in
  mt_inclusion_proof term CUR_LEAF_FIXED Release T [2; 0; 2] =
    Ok (MkProof 3 [(2, Atom 2); (0, Atom 0); (2, Atom 2)]
                  [Atom 3; Atom 1; Node (Node (Atom 4) (Atom 5)) (Node (Atom 6) (Atom 7))]) /\
  ip_into_authentication_paths term Node term_eqb Release
    (MkProof 3 [(0, Atom 0); (2, Atom 2)] [Atom 3; Atom 1; Node (Node (Atom 4) (Atom 5)) (Node (Atom 6) (Atom 7))]) =
    Ok [[Atom 1; Node (Atom 2) (Atom 3); Node (Node (Atom 4) (Atom 5)) (Node (Atom 6) (Atom 7))];
        [Atom 3; Node (Atom 0) (Atom 1); Node (Node (Atom 4) (Atom 5)) (Node (Atom 6) (Atom 7))]].
Proof. split; vm_compute; reflexivity. Qed.

(* which variant the oracle runs as "the current /repo" *)
Theorem C10_model_variant : CUR_CUTOFF_FIXED = true.
Proof. exact (eq_refl true). Qed.
Print Assumptions C10_model_variant.

(* the accessors of a constructed tree *)
Theorem C10_accessors : forall (D : Type) (H : D -> D -> D) (dflt : D) (leafs : list D) (m : mmode),
  is_pow2 (zlen leafs) = true ->
  let t := spec_tree D H dflt leafs in
  mt_num_leafs D m t = Ok (zlen leafs) /\ mt_height D m t = Ok (Z.log2 (zlen leafs)) /\
  mt_root D t = Ok (znth D dflt t 1) /\ mt_leafs D t = leafs /\
  forall i, mt_node D t i = if (0 <=? i) && (i <? 2 * zlen leafs) then Some (znth D dflt t i) else None.
Proof. exact honest_accessors. Qed.
Print Assumptions C10_accessors.

(* the model variant / constants used above are the ones the translator reads from the current source
   (coq/gen/MerkleGen.v, regenerated on every run): a source change to `leaf`, the `while` guard, the default
   cutoff or the height limit makes this fail to compile *)
Theorem C10_model_matches_source : CUR_CUTOFF_FIXED = GEN_CUTOFF_LOOP_GUARDS_ZERO /\ CUR_LEAF_FIXED = GEN_LEAF_CHECKED_ADD /\ GEN_DEFAULT_PARALLELIZATION_CUTOFF = 256.
Proof. exact (conj (proj1 (proj2 model_matches_source)) (conj (proj1 model_matches_source) (proj2 (proj2 (proj2 (proj2 model_matches_source)))))). Qed.
Print Assumptions C10_model_matches_source.
