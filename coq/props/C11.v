(* C11 - the MMR accumulator always commits to the current leaf list.
   Model: coq/model/Mmr.v (by hand, faithful to mmr_accumulator.rs / shared_basic.rs / shared.rs);
   specification: coq/spec/MmrSpec.v (peaks_spec = roots of the perfect trees over the chunks of the leaf
   list given by the binary expansion of its length, highest first). *)
From Coq Require Import ZArith List Bool.
From TF Require Import Word MmrIdxLocal Mmr MmrSpec MmrTerm MmrProofs MmrSmall MmrUpdates MmrBatch MmrHistory.
Import ListNotations.
Open Scope Z_scope.

(* one append on a committing accumulator: the binary-counter step (trailing ones of the count = number
   of merges) *)
Theorem C11_append_commits : forall (D : Type) (H : D -> D -> D) (dflt : D) (ls : list D) (d : D),
  zlength ls + 1 < 2 ^ 64 ->
  calculate_new_peaks_from_append D H (zlength ls) (peaks_spec D H dflt ls) d =
  Some (peaks_spec D H dflt (ls ++ [d]), path D H dflt (ls ++ [d]) (zlength ls)).
Proof. exact append_spec. Qed.
Print Assumptions C11_append_commits.

(* one leaf mutation with the valid proof *)
Theorem C11_mutate_commits : forall (D : Type) (H : D -> D -> D) (deq : D -> D -> bool) (dflt : D)
    (ls : list D) (i : Z) (d : D),
  0 <= i < zlength ls -> zlength ls < 2 ^ 64 ->
  calculate_new_peaks_from_leaf_mutation D H (peaks_spec D H dflt ls) (zlength ls) d i (path D H dflt ls i) =
  Some (peaks_spec D H dflt (upd ls i d)).
Proof. exact mutate_spec. Qed.
Print Assumptions C11_mutate_commits.

(* history_commits: after ANY valid history (appends, single-leaf mutations, batch mutations in any
   interleaving, every mutation carried out with the valid proof) from a committing accumulator with fewer
   than 2^63 leafs, the accumulator's leaf count and peaks are those built from scratch over the final leaf
   list.  mop / mops_valid / acc_run / commits are defined in proofs/MmrProofs.v (Section History);
   deq decides equality of digests (it is used by the batch routine's `changed` test only). *)
Theorem C11_history_commits : forall (D : Type) (H : D -> D -> D) (deq : D -> D -> bool) (dflt : D),
  (forall x y, deq x y = true <-> x = y) ->
  forall (ops : list (mop D)) (ls : list D) (a : accumulator D),
    commits D H dflt a ls -> zlength ls < 2 ^ 63 -> mops_valid D H dflt ls ops ->
    acc_run D H deq a ops =
    Some (zlength (run D ls (map (erase D) ops)), peaks_spec D H dflt (run D ls (map (erase D) ops))) /\
    zlength (run D ls (map (erase D) ops)) < 2 ^ 63.
Proof. exact history_commits. Qed.
Print Assumptions C11_history_commits.

Theorem C11_empty_commits : forall (D : Type) (H : D -> D -> D) (dflt : D), commits D H dflt (0, []) [].
Proof. exact commits_empty. Qed.
Print Assumptions C11_empty_commits.

Example C11_history_example :
  acc_run term Node term_eqb (0, [])
          [MAppend term (Atom 1); MAppend term (Atom 2); MAppend term (Atom 3);
           MMutate term 1 (Atom 9) [Atom 1]; MAppend term (Atom 4)]
  = Some (4, [Node (Node (Atom 1) (Atom 9)) (Node (Atom 3) (Atom 4))]).
Proof. vm_compute. reflexivity. Qed.

(* the bagged commitment is the documented right-to-left fold of the peaks: hash0 = Tip5::hash(&0u128) for no
   peak, the peak itself for one peak, H p (bag rest) otherwise *)
Theorem C11_bag_peaks_spec : forall (D : Type) (H : D -> D -> D) (hash0 : D) (peaks : list D),
  bag_peaks D H hash0 peaks = bag_spec D H hash0 peaks.
Proof. exact bag_peaks_spec. Qed.
Print Assumptions C11_bag_peaks_spec.

Theorem C11_bag_peaks_cases : forall (D : Type) (H : D -> D -> D) (hash0 : D),
  bag_peaks D H hash0 [] = hash0 /\
  (forall p, bag_peaks D H hash0 [p] = p) /\
  (forall p q r, bag_peaks D H hash0 (p :: q :: r) = H p (bag_peaks D H hash0 (q :: r))).
Proof. exact bag_peaks_cases. Qed.
Print Assumptions C11_bag_peaks_cases.

(* verify_batch_update_iff: for distinct in-range indices with valid proofs, batch-update verification
   returns true exactly when applying the stated mutations and then the stated appends to the current
   accumulator yields the stated peaks (deq decides equality of digests) *)
Theorem C11_verify_batch_update_iff : forall (D : Type) (H : D -> D -> D) (deq : D -> D -> bool) (dflt : D),
  (forall x y, deq x y = true <-> x = y) ->
  forall (ls new_peaks appended : list D) (ivs : list (Z * D)),
    zlength ls + zlength appended < 2 ^ 63 ->
    distinctb (map fst ivs) = true ->
    Forall (fun m => 0 <= fst m < zlength ls) ivs ->
    verify_batch_update D H deq (zlength ls, peaks_spec D H dflt ls) new_peaks appended
                        (map (fun m => (fst m, snd m, path D H dflt ls (fst m))) ivs) =
    Some (list_deq D deq (peaks_spec D H dflt (apply_muts D ls ivs ++ appended)) new_peaks).
Proof. exact verify_batch_update_iff. Qed.
Print Assumptions C11_verify_batch_update_iff.

(* the batch step on its own: peaks, tracked proofs and the `modified` list *)
Theorem C11_batch_mutate_commits : forall (D : Type) (H : D -> D -> D) (deq : D -> D -> bool) (dflt : D),
  (forall x y, deq x y = true <-> x = y) ->
  forall (ls : list D), zlength ls < 2 ^ 63 ->
  forall (ms : list (Z * D)) (idxs : list Z),
    inrange D ls ms -> distinctb (map fst ms) = true -> Forall (fun i => 0 <= i < zlength ls) idxs ->
    exists md,
      batch_mutate_leaf_and_update_mps D H deq (zlength ls, peaks_spec D H dflt ls)
        (map (path D H dflt ls) idxs) idxs (with_proofs D H dflt ls ms) =
      Some ((zlength ls, peaks_spec D H dflt (apply_muts D ls ms)),
            map (path D H dflt (apply_muts D ls ms)) idxs, md) /\
      md_spec D H dflt ls (apply_muts D ls ms) 0 idxs md.
Proof. exact bmlu_spec. Qed.
Print Assumptions C11_batch_mutate_commits.

(* lists with repeated or out-of-range indices are rejected *)
Theorem C11_rejects_dup_oob : forall (D : Type) (H : D -> D -> D) (deq : D -> D -> bool)
    (a : accumulator D) (new_peaks appended : list D) (lms : list (leaf_mutation D)),
  distinctb (map (fun lm => fst (fst lm)) lms) = false \/
  (exists lm, In lm lms /\ fst a <= fst (fst lm)) ->
  verify_batch_update D H deq a new_peaks appended lms = Some false.
Proof. exact vbu_rejects_dup_oob. Qed.
Print Assumptions C11_rejects_dup_oob.

(* PARTIAL stand-in for the batch step and for verify_batch_update_iff: bounded exhaustive on the free hash
   (batch_case in proofs/MmrSmall.v: every ordered list of 1..3 distinct mutated leaves of every MMR with up
   to 10 leafs: batch_mutate_leaf_and_update_mps yields the peaks built from scratch; verify_batch_update
   accepts exactly the right peaks) *)
Theorem C11_batch_small_partial : forall n : nat, (n <= 10)%nat -> batch_case n = true.
Proof. exact batch_case_small. Qed.
Print Assumptions C11_batch_small_partial.
