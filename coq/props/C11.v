(* C11 - the MMR accumulator always commits to the current leaf list. *)
From Coq Require Import ZArith List Bool.
From TF Require Import Word MmrIdxLocal Mmr MmrSpec MmrTerm MmrProofs.
Import ListNotations.
Open Scope Z_scope.

(* the bagged commitment is the documented right-to-left fold of the peaks: hash0 = Tip5::hash(&0u128) for no
   peak, the peak itself for one peak, H p (bag rest) otherwise *)
Theorem C11_bag_peaks_spec : forall (D : Type) (H : D -> D -> D) (hash0 : D) (peaks : list D),
  bag_peaks D H hash0 peaks = bag_spec D H hash0 peaks.
Proof. exact bag_peaks_spec. Qed.
Print Assumptions C11_bag_peaks_spec.

Theorem C11_bag_peaks_cases : forall (D : Type) (H : D -> D -> D) (hash0 : D),
  bag_peaks D H hash0 [] = hash0 /\
  (forall p, bag_peaks D H hash0 [p] = p) /\
  (forall p q r, bag_peaks D H hash0 (p :: q :: r) = H p (bag_peaks D H hash0 (q :: r))).
Proof. exact bag_peaks_cases. Qed.
Print Assumptions C11_bag_peaks_cases.
