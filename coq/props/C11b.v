(* C11b - the index functions behind the C11 theorems (props/C11.v) are the regenerated ones; proofs: coq/proofs/MmrIdxTie.v *)
From Coq Require Import ZArith List Bool.
From TF Require Import Word MmrIndexGen MmrIndex MmrIdxLocal MmrIdxTie.
Import ListNotations.
Open Scope Z_scope.

(* the index functions of the MMR model are the REGENERATED ones: every index function of model/MmrIdxLocal.v
   (the hand-written functions model/Mmr.v calls) equals, on ALL u64 arguments and including the panic / overflow
   outcome None, the corresponding function of C16 - the straight-line functions of gen/MmrIndexGen.v (translated
   from shared_basic.rs / shared_advanced.rs on every run) guarded by their generated side conditions f_ok, and
   the loops of model/MmrIndex.v around them.  So every C11 theorem (props/C11.v) is a theorem about the index code of the
   current source: a change of an index function in /repo changes gen/MmrIndexGen.v and this theorem has to be
   re-proved against it. *)
Theorem C11_index_functions_regenerated :
  (forall i n, 0 <= i -> 0 <= n < 2 ^ 64 -> li_mt_pk i n = mm_leaf_index_to_mt_index_and_peak_index i n) /\
  (forall i, 0 <= i < 2 ^ 64 -> rll_leaf i = mm_right_lineage_length_from_leaf_index i) /\
  (forall x, 0 <= x < 2 ^ 64 -> MmrIdxLocal.leftmost_ancestor x = mm_leftmost_ancestor x) /\
  (forall i, 0 <= i < 2 ^ 64 -> l2n i = mm_leaf_index_to_node_index i) /\
  (forall n, 0 <= n < 2 ^ 64 -> num_nodes n = mm_num_leafs_to_num_nodes n) /\
  (forall x h, 0 <= x < 2 ^ 64 -> 0 <= h < 2 ^ 32 -> MmrIdxLocal.left_sibling x h = mm_left_sibling x h) /\
  (forall x h, 0 <= x < 2 ^ 64 -> 0 <= h < 2 ^ 32 -> MmrIdxLocal.right_sibling x h = mm_right_sibling x h) /\
  (forall x, 0 <= x < 2 ^ 64 -> rll_and_height x = mm_right_lineage_length_and_own_height x) /\
  (forall x, 0 <= x < 2 ^ 64 -> rll_node x = mm_right_lineage_length_from_node_index x) /\
  (forall x, 0 <= x < 2 ^ 64 -> parent x = mm_parent x) /\
  (forall n, 0 <= n < 2 ^ 64 -> node_indices_added_by_append n = mm_node_indices_added_by_append n) /\
  (forall start peak nc, 0 <= start < 2 ^ 64 ->
     get_authentication_path_node_indices start peak nc = mm_get_authentication_path_node_indices start peak nc) /\
  (forall n, 0 <= n < 2 ^ 64 ->
     mm_get_peak_heights_and_peak_node_indices n =
     match peak_heights_and_indices n with Some l => Some (map fst l, map snd l) | None => None end).
Proof. exact index_functions_regenerated. Qed.
Print Assumptions C11_index_functions_regenerated.
