(* C11c - the batch step of the MMR accumulator and verify_batch_update IN GENERAL (every leaf list with fewer
   than 2^63 leaves, every mutation list, every digest, free hash H).  Deepening of props/C11.v: it supersedes
   C11_batch_small_partial (n <= 10) and adds the `validity form` (every mutation proof that verifies, not only
   `path ls i`; needs a collision-free H: forall a b c e, H a b = H c e -> a = c /\ b = e) and the binding of
   the peaks to the leaf list.  Proofs: coq/proofs/MmrMutate.v, coq/proofs/MmrBatchGen.v.
   Vocabulary (defined there): lm_index lm = leaf index of a LeafMutation; muts_valid ls lms = every mutation
   has 0 <= index and a proof that verifies, against the peaks of ls, for the leaf it replaces;
   proofs_valid ls mps idxs = the same for tracked proofs; md_fun p old new = ascending positions where the
   proof lists differ. *)
From Coq Require Import ZArith List Bool.
From TF Require Import Word MmrIdxLocal Mmr MmrSpec MmrTerm MmrProofs MmrUpdates MmrBatch MmrSmall MmrMutate MmrBatchGen MmrAllSizes.
Import ListNotations.
Open Scope Z_scope.

(* the peaks bind the leaf list: for a collision-free hash two lists of equal length with equal peaks are equal *)
Theorem C11_peaks_binding : forall (D : Type) (H : D -> D -> D) (dflt : D),
  (forall a b c e, H a b = H c e -> a = c /\ b = e) ->
  forall ls ls' : list D, zlength ls = zlength ls' -> zlength ls < 2 ^ 64 ->
  peaks_spec D H dflt ls = peaks_spec D H dflt ls' -> ls = ls'.
Proof. exact peaks_binding. Qed.
Print Assumptions C11_peaks_binding.

(* mutate_leaf with ANY proof that verifies for the leaf being replaced *)
Theorem C11_mutate_leaf_valid : forall (D : Type) (H : D -> D -> D) (deq : D -> D -> bool) (dflt : D),
  (forall x y, deq x y = true <-> x = y) ->
  (forall a b c e, H a b = H c e -> a = c /\ b = e) ->
  forall (ls : list D) (j : Z) (d : D) (lm_ap : list D),
  zlength ls < 2 ^ 64 -> 0 <= j ->
  mp_verify D H deq lm_ap j (nth (Z.to_nat j) ls dflt) (peaks_spec D H dflt ls) (zlength ls) = Some true ->
  acc_mutate_leaf D H (zlength ls, peaks_spec D H dflt ls) (j, d, lm_ap) =
  Some (zlength ls, peaks_spec D H dflt (upd ls j d)).
Proof. exact acc_mutate_leaf_valid. Qed.
Print Assumptions C11_mutate_leaf_valid.

(* the batch step: every list of mutations with verifying proofs and pairwise distinct indices, every list of
   tracked proofs that verify: the accumulator gets the peaks of the mutated list, the tracked proofs verify
   against them, `modified` = exactly the positions whose proof changed *)
Theorem C11_batch_mutate_keeps_valid :
  forall (D : Type) (H : D -> D -> D) (deq : D -> D -> bool) (dflt : D),
  (forall x y, deq x y = true <-> x = y) ->
  (forall a b c e, H a b = H c e -> a = c /\ b = e) ->
  forall (ls : list D) (mps : list (list D)) (idxs : list Z) (lms : list (leaf_mutation D)),
  zlength ls < 2 ^ 63 -> proofs_valid D H deq dflt ls mps idxs -> muts_valid D H deq dflt ls lms ->
  distinctb (map (lm_index D) lms) = true ->
  exists mps',
    batch_mutate_leaf_and_update_mps D H deq (zlength ls, peaks_spec D H dflt ls) mps idxs lms =
      Some ((zlength ls, peaks_spec D H dflt (apply_muts D ls (map fst lms))), mps', md_fun D deq 0 mps mps') /\
    proofs_valid D H deq dflt (apply_muts D ls (map fst lms)) mps' idxs.
Proof. exact bmlu_keeps_valid. Qed.
Print Assumptions C11_batch_mutate_keeps_valid.

(* ... and every other mutation list (a repeated leaf index) is a panic, for any hash and any proofs *)
Theorem C11_batch_mutate_duplicate_panics : forall (D : Type) (H : D -> D -> D) (deq : D -> D -> bool)
    (a : accumulator D) (mps : list (list D)) (idxs : list Z) (lms : list (leaf_mutation D)),
  distinctb (map (lm_index D) lms) = false ->
  batch_mutate_leaf_and_update_mps D H deq a mps idxs lms = None.
Proof. exact bmlu_dup_panics. Qed.
Print Assumptions C11_batch_mutate_duplicate_panics.

(* verify_batch_update on EVERY mutation list whose proofs verify (repeated indices included): the verdict is
   exactly `indices pairwise distinct and new_peaks = peaks of the mutated list extended by the appended leaves` *)
Theorem C11_verify_batch_update_valid_iff :
  forall (D : Type) (H : D -> D -> D) (deq : D -> D -> bool) (dflt : D),
  (forall x y, deq x y = true <-> x = y) ->
  (forall a b c e, H a b = H c e -> a = c /\ b = e) ->
  forall (ls new_peaks appended : list D) (lms : list (leaf_mutation D)),
  zlength ls + zlength appended < 2 ^ 63 -> muts_valid D H deq dflt ls lms ->
  verify_batch_update D H deq (zlength ls, peaks_spec D H dflt ls) new_peaks appended lms =
  Some (distinctb (map (lm_index D) lms) &&
        list_deq D deq (peaks_spec D H dflt (apply_muts D ls (map fst lms) ++ appended)) new_peaks).
Proof. exact vbu_valid_iff. Qed.
Print Assumptions C11_verify_batch_update_valid_iff.

(* an accepted claim pins the new leaf list down *)
Theorem C11_verify_batch_update_accept_binds :
  forall (D : Type) (H : D -> D -> D) (deq : D -> D -> bool) (dflt : D),
  (forall x y, deq x y = true <-> x = y) ->
  (forall a b c e, H a b = H c e -> a = c /\ b = e) ->
  forall (ls new_peaks appended : list D) (lms : list (leaf_mutation D)),
  zlength ls + zlength appended < 2 ^ 63 -> muts_valid D H deq dflt ls lms ->
  verify_batch_update D H deq (zlength ls, peaks_spec D H dflt ls) new_peaks appended lms = Some true ->
  distinctb (map (lm_index D) lms) = true /\
  new_peaks = peaks_spec D H dflt (apply_muts D ls (map fst lms) ++ appended) /\
  forall L, zlength L = zlength ls + zlength appended -> peaks_spec D H dflt L = new_peaks ->
            L = apply_muts D ls (map fst lms) ++ appended.
Proof. exact vbu_accept_binds. Qed.
Print Assumptions C11_verify_batch_update_accept_binds.

(* the hypotheses are satisfiable (free hash; a 6-leaf MMR = trees of 4 and 2 leaves; two mutations in
   different trees; one appended leaf), and the verdicts are as stated *)
Example C11_batch_example :
  (forall x y, term_eqb x y = true <-> x = y) /\ (forall a b c e, Node a b = Node c e -> a = c /\ b = e) /\
  let ls := [Atom 0; Atom 1; Atom 2; Atom 3; Atom 4; Atom 5] in
  let pk := peaks_spec term Node Dflt ls in
  let lms := [(2, Atom 9, [Atom 3; Node (Atom 0) (Atom 1)]); (4, Atom 8, [Atom 5])] in
  let ls' := apply_muts term ls (map fst lms) ++ [Atom 6] in
  zlength ls + zlength [Atom 6] < 2 ^ 63 /\
  forallb (fun lm => match mp_verify term Node term_eqb (snd lm) (fst (fst lm)) (nth (Z.to_nat (fst (fst lm))) ls Dflt) pk 6 with
                     | Some true => true | _ => false end) lms = true /\
  ls' = [Atom 0; Atom 1; Atom 9; Atom 3; Atom 8; Atom 5; Atom 6] /\
  verify_batch_update term Node term_eqb (6, pk) (peaks_spec term Node Dflt ls') [Atom 6] lms = Some true /\
  verify_batch_update term Node term_eqb (6, pk) (peaks_spec term Node Dflt (upd ls' 0 (Atom 7))) [Atom 6] lms = Some false /\
  verify_batch_update term Node term_eqb (6, pk) (peaks_spec term Node Dflt ls') [Atom 6] (lms ++ [(2, Atom 9, [Atom 3; Node (Atom 0) (Atom 1)])]) = Some false /\
  acc_mutate_leaf term Node (6, pk) (2, Atom 9, [Atom 3; Node (Atom 0) (Atom 1)]) =
    Some (6, peaks_spec term Node Dflt (upd ls 2 (Atom 9))).
Proof.
  split; [exact mmr_term_eqb_spec|]. split; [exact mmr_Node_inj|].
  vm_compute. repeat split; reflexivity.
Qed.

(* the bounded-exhaustive predicate of C11_batch_small_partial (batch_case n, n <= 10 by computation) for EVERY
   size, from the general theorems instantiated at the free hash (one leaf is appended in its
   verify_batch_update part, hence n + 1 < 2^63) *)
Theorem C11_batch_all_sizes : forall n : nat, Z.of_nat n + 1 < 2 ^ 63 -> batch_case n = true.
Proof. exact batch_case_all. Qed.
Print Assumptions C11_batch_all_sizes.

Example C11_batch_all_sizes_example : batch_case 1000 = true.
Proof. apply C11_batch_all_sizes. reflexivity. Qed.
