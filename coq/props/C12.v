(* C12 - MMR successor proofs are complete, sound and total.
   The model of MmrSuccessorProof::verify is sp_verify_v1 (the code after the repair /repo dfe5f25: an old
   accumulator whose peak count differs from count_ones(leaf_count) is rejected).  sp_verify_v0 is the code
   before the repair and appears only in the HISTORICAL lemmas at the end. *)
From Coq Require Import ZArith List Bool.
From TF Require Import Word MmrIdxLocal Mmr MmrSpec MmrTerm MmrProofs MmrSmall MmrSuccRej.
Import ListNotations.
Open Scope Z_scope.

(* sound (and exact): verification accepts if and only if every old peak hashes, with exactly the supplied
   digests, into the new peak covering its leaf range, nothing is left over, and both accumulators have as
   many peaks as their leaf counts have one-bits (succ_verify_spec in spec/MmrSpec.v). *)
Theorem C12_verify_exact : forall (D : Type) (H : D -> D -> D) (deq : D -> D -> bool) (dflt : D)
    (sp : list D) (old new : Z * list D),
  0 <= fst old < 2 ^ 64 -> 0 <= fst new < 2 ^ 64 -> zlen (snd old) < 2 ^ 32 -> zlen (snd new) < 2 ^ 32 ->
  sp_verify_v1 D H deq dflt sp old new = Some (succ_verify_spec D H deq dflt sp old new).
Proof. exact sp_verify_v1_spec. Qed.
Print Assumptions C12_verify_exact.

(* total: never a panic, for arbitrary peak-list lengths and all u64 counts; structurally inconsistent
   accumulators are rejected *)
Theorem C12_total : forall (D : Type) (H : D -> D -> D) (deq : D -> D -> bool) (dflt : D)
    (sp : list D) (old new : Z * list D),
  0 <= fst old < 2 ^ 64 -> 0 <= fst new < 2 ^ 64 -> zlen (snd old) < 2 ^ 32 -> zlen (snd new) < 2 ^ 32 ->
  sp_verify_v1 D H deq dflt sp old new <> None /\
  (zlen (snd old) <> count_ones (fst old) \/ zlen (snd new) <> count_ones (fst new) \/ fst new < fst old ->
   sp_verify_v1 D H deq dflt sp old new = Some false).
Proof. exact sp_verify_v1_total. Qed.
Print Assumptions C12_total.

Example C12_total_example :
  sp_verify_v1 term Node term_eqb Dflt [] (1, [Atom 0; Atom 5]) (1, [Atom 0]) = Some false /\
  sp_verify_v1 term Node term_eqb Dflt [] (1, []) (1, [Atom 0]) = Some false.
Proof. exact sp_verify_v1_rejects_both. Qed.

(* rejection lemmas.  (1) the number of digests is fixed by the two leaf counts: if some proof is accepted,
   every proof of a different length - a missing or a surplus digest - is rejected.  (2) binding: if two
   (old peak list, proof) pairs are both accepted for the same old leaf count and the same new accumulator
   then they are equal, or a collision of H is exhibited - so any altered path digest, any rotation and any
   altered old peak is rejected unless it comes with a collision.  (An altered new peak that covers old
   leafs is rejected by C12_verify_exact directly: the specification compares that very peak.) *)
Theorem C12_rejects_missing_or_surplus : forall (D : Type) (H : D -> D -> D) (deq : D -> D -> bool) (dflt : D),
  (forall x y, deq x y = true <-> x = y) ->
  forall (sp sp' : list D) (old new : Z * list D),
  0 <= fst old < 2 ^ 64 -> 0 <= fst new < 2 ^ 64 -> zlen (snd old) < 2 ^ 32 -> zlen (snd new) < 2 ^ 32 ->
  sp_verify_v1 D H deq dflt sp old new = Some true -> zlength sp' <> zlength sp ->
  sp_verify_v1 D H deq dflt sp' old new = Some false.
Proof. exact sp_rejects_wrong_length. Qed.
Print Assumptions C12_rejects_missing_or_surplus.

Theorem C12_binding : forall (D : Type) (H : D -> D -> D) (deq : D -> D -> bool) (dflt : D),
  (forall x y, deq x y = true <-> x = y) ->
  forall (sp sp' : list D) (oc : Z) (op op' : list D) (new : Z * list D),
    0 <= oc < 2 ^ 64 -> 0 <= fst new < 2 ^ 64 -> zlen op < 2 ^ 32 -> zlen op' < 2 ^ 32 -> zlen (snd new) < 2 ^ 32 ->
    sp_verify_v1 D H deq dflt sp (oc, op) new = Some true ->
    sp_verify_v1 D H deq dflt sp' (oc, op') new = Some true ->
    (sp = sp' /\ op = op') \/ collision D H.
Proof. exact sp_binding. Qed.
Print Assumptions C12_binding.

(* complete, FULL statement: the generated proof verifies between the old accumulator and the one obtained
   by the appends (open: new_from_batch_append is node-index bookkeeping, see C16) *)
Definition C12_complete_full : Prop :=
  forall (D : Type) (H : D -> D -> D) (deq : D -> D -> bool) (dflt : D),
    (forall x, deq x x = true) ->
    forall (ls new_leafs : list D), zlength ls + zlength new_leafs < 2 ^ 63 ->
    exists sp, sp_new_from_batch_append D H dflt (zlength ls, peaks_spec D H dflt ls) new_leafs = Some sp /\
               sp_verify_v1 D H deq dflt sp (zlength ls, peaks_spec D H dflt ls)
                            (zlength (ls ++ new_leafs), peaks_spec D H dflt (ls ++ new_leafs)) = Some true.

(* PARTIAL: complete for every (old leaf count o, a appended leafs) with o + a <= 64, on the free hash with
   pairwise distinct leafs (complete_case in proofs/MmrSmall.v: build the old accumulator from o leafs,
   generate the proof for a more, append them, verify = Some true); by vm_compute *)
Theorem C12_complete_small_partial : forall o a : nat, (o + a <= 64)%nat -> complete_case o a = true.
Proof. exact sp_complete_small. Qed.
Print Assumptions C12_complete_small_partial.

(* ---------------------------------------------------------------------------------------------------
   HISTORICAL (code before /repo dfe5f25): `total` was refuted both ways.  An old accumulator with more
   peaks than count_ones(leaf_count) made verify panic (0.ilog2()); one with fewer peaks was accepted.
   On consistent old accumulators the two versions coincide. *)
Theorem C12_historical_v0_panic_refuted : exists (sp : list term) (old new : Z * list term),
  sp_verify_v0 term Node term_eqb Dflt sp old new = None.
Proof. exists [], (1, [Atom 0; Atom 5]), (1, [Atom 0]). exact sp_verify_v0_panics. Qed.
Print Assumptions C12_historical_v0_panic_refuted.

Theorem C12_historical_v0_accepts_refuted : exists (sp : list term) (old new : Z * list term),
  zlen (snd old) <> count_ones (fst old) /\
  sp_verify_v0 term Node term_eqb Dflt sp old new = Some true.
Proof. exists [], (1, []), (1, [Atom 0]). split; [discriminate | exact sp_verify_v0_accepts]. Qed.
Print Assumptions C12_historical_v0_accepts_refuted.

Theorem C12_historical_v0_agrees_when_consistent : forall (D : Type) (H : D -> D -> D) (deq : D -> D -> bool)
    (dflt : D) (sp : list D) (old new : Z * list D),
  zlen (snd old) < 2 ^ 32 -> zlen (snd old) = count_ones (fst old) ->
  sp_verify_v0 D H deq dflt sp old new = sp_verify_v1 D H deq dflt sp old new.
Proof. exact sp_verify_v0_consistent. Qed.
Print Assumptions C12_historical_v0_agrees_when_consistent.
