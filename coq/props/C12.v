(* C12 - MMR successor proofs are complete, sound and total. *)
From Coq Require Import ZArith List Bool.
From TF Require Import Word MmrIdxLocal Mmr MmrSpec MmrTerm MmrProofs.
Import ListNotations.
Open Scope Z_scope.

(* `total` for the code as it is: REFUTED both ways.  An old accumulator with more peaks than
   count_ones(leaf_count) makes verify panic (0.ilog2()); one with fewer peaks is accepted. *)
Definition C12_total_v0_full : Prop :=
  forall (D : Type) (H : D -> D -> D) (deq : D -> D -> bool) (dflt : D) (sp : list D) (old new : Z * list D),
    zlen (snd old) < 2 ^ 32 -> zlen (snd new) < 2 ^ 32 ->
    sp_verify_v0 D H deq dflt sp old new <> None /\
    (zlen (snd old) <> count_ones (fst old) -> sp_verify_v0 D H deq dflt sp old new = Some false).

Theorem C12_total_panic_refuted : exists (sp : list term) (old new : Z * list term),
  sp_verify_v0 term Node term_eqb Dflt sp old new = None.
Proof. exists [], (1, [Atom 0; Atom 5]), (1, [Atom 0]). exact sp_verify_v0_panics. Qed.
Print Assumptions C12_total_panic_refuted.

Theorem C12_total_accepts_refuted : exists (sp : list term) (old new : Z * list term),
  zlen (snd old) <> count_ones (fst old) /\
  sp_verify_v0 term Node term_eqb Dflt sp old new = Some true.
Proof. exists [], (1, []), (1, [Atom 0]). split; [discriminate | exact sp_verify_v0_accepts]. Qed.
Print Assumptions C12_total_accepts_refuted.
