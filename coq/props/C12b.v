(* C12b - `complete` for MMR successor proofs in general (deepening of props/C12.v, whose `C12_complete_full`
   was an open statement).  Model: coq/model/Mmr.v (sp_new_from_batch_append, sp_verify_v1);
   specification: coq/spec/MmrSpec.v; proofs: coq/proofs/MmrSuccComplete.v. *)
From Coq Require Import ZArith List Bool.
From TF Require Import Word MmrIndexGen MmrIndex MmrIdxLocal Mmr MmrSpec MmrTerm MmrProofs MmrSuccRej MmrSuccComplete MmrIdxTie.
Import ListNotations.
Open Scope Z_scope.

(* complete, FULL (the statement C12_complete_full of props/C12.v, verbatim): for every leaf list `ls` and
   every list of appended leafs, fewer than 2^63 leafs in total, new_from_batch_append on the accumulator of
   `ls` returns a proof (no panic) and that proof verifies between the accumulator of `ls` and the
   accumulator of `ls ++ new_leafs` *)
Theorem C12_complete : forall (D : Type) (H : D -> D -> D) (deq : D -> D -> bool) (dflt : D),
  (forall x, deq x x = true) ->
  forall (ls new_leafs : list D), zlength ls + zlength new_leafs < 2 ^ 63 ->
  exists sp, sp_new_from_batch_append D H dflt (zlength ls, peaks_spec D H dflt ls) new_leafs = Some sp /\
             sp_verify_v1 D H deq dflt sp (zlength ls, peaks_spec D H dflt ls)
                          (zlength (ls ++ new_leafs), peaks_spec D H dflt (ls ++ new_leafs)) = Some true.
Proof. exact sp_complete_full. Qed.
Print Assumptions C12_complete.

Example C12_complete_example :
  sp_new_from_batch_append term Node Dflt (3, [Node (Atom 0) (Atom 1); Atom 2]) [Atom 3; Atom 4] =
  Some [Node (Atom 2) (Atom 3); Atom 3; Node (Atom 0) (Atom 1)] /\
  sp_verify_v1 term Node term_eqb Dflt [Node (Atom 2) (Atom 3); Atom 3; Node (Atom 0) (Atom 1)]
    (3, [Node (Atom 0) (Atom 1); Atom 2]) (5, [Node (Node (Atom 0) (Atom 1)) (Node (Atom 2) (Atom 3)); Atom 4]) = Some true.
Proof. vm_compute. split; reflexivity. Qed.

(* generation never panics *)
Theorem C12_generation_never_panics : forall (D : Type) (H : D -> D -> D) (dflt : D) (ls new_leafs : list D),
  zlength ls + zlength new_leafs < 2 ^ 63 ->
  sp_new_from_batch_append D H dflt (zlength ls, peaks_spec D H dflt ls) new_leafs <> None.
Proof. exact sp_generation_total. Qed.
Print Assumptions C12_generation_never_panics.

(* rejection corollaries around the honest proof: a proof with a different number of digests is rejected;
   an accepted (old peaks, proof) pair for the same old leaf count and the same new accumulator is the honest
   pair, or a collision of H is exhibited (so a rotated / altered proof and altered old peaks are rejected) *)
Theorem C12_complete_rejections : forall (D : Type) (H : D -> D -> D) (deq : D -> D -> bool) (dflt : D),
  (forall x y, deq x y = true <-> x = y) ->
  forall (ls new_leafs sp : list D), zlength ls + zlength new_leafs < 2 ^ 63 ->
  sp_new_from_batch_append D H dflt (zlength ls, peaks_spec D H dflt ls) new_leafs = Some sp ->
  (forall sp', zlength sp' <> zlength sp ->
     sp_verify_v1 D H deq dflt sp' (zlength ls, peaks_spec D H dflt ls)
                  (zlength (ls ++ new_leafs), peaks_spec D H dflt (ls ++ new_leafs)) = Some false) /\
  (forall sp' op', zlen op' < 2 ^ 32 ->
     sp_verify_v1 D H deq dflt sp' (zlength ls, op')
                  (zlength (ls ++ new_leafs), peaks_spec D H dflt (ls ++ new_leafs)) = Some true ->
     (sp' = sp /\ op' = peaks_spec D H dflt ls) \/ collision D H).
Proof. exact sp_complete_rejections. Qed.
Print Assumptions C12_complete_rejections.

(* the index functions of the MMR model are the REGENERATED ones: every index function of model/MmrIdxLocal.v
   (the hand-written functions model/Mmr.v calls) equals, on ALL u64 arguments and including the panic / overflow
   outcome None, the corresponding function of C16 - the straight-line functions of gen/MmrIndexGen.v (translated
   from shared_basic.rs / shared_advanced.rs on every run) guarded by their generated side conditions f_ok, and
   the loops of model/MmrIndex.v around them.  So every C12 theorem (props/C12.v, props/C12b.v) is a theorem about the index code of the
   current source: a change of an index function in /repo changes gen/MmrIndexGen.v and this theorem has to be
   re-proved against it. *)
Theorem C12_index_functions_regenerated :
  (forall i n, 0 <= i -> 0 <= n < 2 ^ 64 -> li_mt_pk i n = mm_leaf_index_to_mt_index_and_peak_index i n) /\
  (forall i, 0 <= i < 2 ^ 64 -> rll_leaf i = mm_right_lineage_length_from_leaf_index i) /\
  (forall x, 0 <= x < 2 ^ 64 -> MmrIdxLocal.leftmost_ancestor x = mm_leftmost_ancestor x) /\
  (forall i, 0 <= i < 2 ^ 64 -> l2n i = mm_leaf_index_to_node_index i) /\
  (forall n, 0 <= n < 2 ^ 64 -> num_nodes n = mm_num_leafs_to_num_nodes n) /\
  (forall x h, 0 <= x < 2 ^ 64 -> 0 <= h < 2 ^ 32 -> MmrIdxLocal.left_sibling x h = mm_left_sibling x h) /\
  (forall x h, 0 <= x < 2 ^ 64 -> 0 <= h < 2 ^ 32 -> MmrIdxLocal.right_sibling x h = mm_right_sibling x h) /\
  (forall x, 0 <= x < 2 ^ 64 -> rll_and_height x = mm_right_lineage_length_and_own_height x) /\
  (forall x, 0 <= x < 2 ^ 64 -> rll_node x = mm_right_lineage_length_from_node_index x) /\
  (forall x, 0 <= x < 2 ^ 64 -> parent x = mm_parent x) /\
  (forall n, 0 <= n < 2 ^ 64 -> node_indices_added_by_append n = mm_node_indices_added_by_append n) /\
  (forall start peak nc, 0 <= start < 2 ^ 64 ->
     get_authentication_path_node_indices start peak nc = mm_get_authentication_path_node_indices start peak nc) /\
  (forall n, 0 <= n < 2 ^ 64 ->
     mm_get_peak_heights_and_peak_node_indices n =
     match peak_heights_and_indices n with Some l => Some (map fst l, map snd l) | None => None end).
Proof. exact index_functions_regenerated. Qed.
Print Assumptions C12_index_functions_regenerated.
