(* props/C13.v - decoding is total, strict and resource-bounded.
   Statements only; every proof is `exact <lemma of proofs/CodecProofs.v>`.
   Sequences are lists of canonical field elements (canon_seq) shorter than 2^32 elements; beyond that
   `sequence_index + item_length` of the dynamic list decoder can exceed usize (modelled: Panic). *)
From Coq Require Import ZArith NArith Bool List.
From TF Require Import Codec CodecProofs.
Import ListNotations.
Open Scope Z_scope.

(* never a panic or an arithmetic overflow, whatever the sequence, for every type and both build profiles *)
Theorem C13_decode_total : forall (chk : bool) (t : ty) (s : list Z),
  canon_seq s = true -> zlen s < 2 ^ 32 -> decode chk t s <> Panic.
Proof. exact decode_total_b. Qed.
Print Assumptions C13_decode_total.
Example C13_decode_total_hyp :
  canon_seq [18446744069414584320; 3] = true /\ decode true (TVec (TVec TPhantom)) [18446744069414584320; 3] = Err
  /\ decode false (TVec TPhantom) [3] = Ok (VList [VUnit; VUnit; VUnit]).
Proof. repeat split; reflexivity. Qed.

(* strictness, general form: whatever is not the encoding of a well-typed value is rejected *)
Theorem C13_strict : forall (chk : bool) (t : ty) (s : list Z),
  canon_seq s = true -> zlen s < 2 ^ 32 -> (forall v, has_type t v = true -> encode t v <> s) -> decode chk t s = Err.
Proof. exact strict_b. Qed.
Print Assumptions C13_strict.

(* too short / too long *)
Theorem C13_strict_static_length : forall (chk : bool) (t : ty) (n : Z) (s : list Z),
  static_length t = Some n -> canon_seq s = true -> zlen s < 2 ^ 32 -> zlen s <> n -> decode chk t s = Err.
Proof. exact strict_static_length_b. Qed.
Print Assumptions C13_strict_static_length.

Theorem C13_strict_truncated : forall (chk : bool) (t : ty) (v : value) (s x : list Z),
  has_type t v = true -> encode t v = s ++ x -> x <> [] -> canon_seq s = true -> zlen s < 2 ^ 32 -> decode chk t s = Err.
Proof. exact strict_truncated_b. Qed.
Print Assumptions C13_strict_truncated.

Theorem C13_strict_extended : forall (chk : bool) (t : ty) (v : value) (x : list Z),
  has_type t v = true -> x <> [] -> canon_seq (encode t v ++ x) = true -> zlen (encode t v ++ x) < 2 ^ 32 ->
  decode chk t (encode t v ++ x) = Err.
Proof. exact strict_extended_b. Qed.
Print Assumptions C13_strict_extended.
Example C13_strict_extended_hyp : decode false (TOption TU64) [1; 5; 6; 0] = Err /\ decode false (TOption TU64) [1; 5] = Err.
Proof. split; reflexivity. Qed.

(* out-of-range elements *)
Theorem C13_strict_limb_u64 : forall (chk : bool) (a b : Z),
  4294967295 < a \/ 4294967295 < b -> decode chk TU64 [a; b] = Err.
Proof. exact strict_limb_u64. Qed.
Print Assumptions C13_strict_limb_u64.

Theorem C13_strict_limb_u128 : forall (chk : bool) (a b c d : Z),
  4294967295 < a \/ 4294967295 < b \/ 4294967295 < c \/ 4294967295 < d -> decode chk TU128 [a; b; c; d] = Err.
Proof. exact strict_limb_u128. Qed.
Print Assumptions C13_strict_limb_u128.

Theorem C13_strict_small_range : forall (chk : bool) (x : Z),
  (255 < x -> decode chk TU8 [x] = Err) /\ (65535 < x -> decode chk TU16 [x] = Err) /\ (4294967295 < x -> decode chk TU32 [x] = Err).
Proof. exact strict_small_range. Qed.
Print Assumptions C13_strict_small_range.

Theorem C13_strict_u32s_limb : forall (chk : bool) (n : N) (s : list Z) (x : Z),
  In x s -> 4294967295 < x -> decode chk (TU32s n) s = Err.
Proof. exact strict_u32s_limb. Qed.
Print Assumptions C13_strict_u32s_limb.

Theorem C13_strict_bool_tag : forall (chk : bool) (x : Z), 1 < x -> decode chk TBool [x] = Err.
Proof. exact strict_bool_tag. Qed.
Print Assumptions C13_strict_bool_tag.

Theorem C13_strict_option_tag : forall (chk : bool) (t : ty) (x : Z) (r : list Z), 1 < x -> decode chk (TOption t) (x :: r) = Err.
Proof. exact strict_option_tag. Qed.
Print Assumptions C13_strict_option_tag.

Theorem C13_strict_enum_discriminant : forall (chk : bool) (vs : list (list ty)) (d : Z) (r : list Z),
  zlen vs <= d -> decode chk (TEnum vs) (d :: r) = Err.
Proof. exact strict_enum_discriminant. Qed.
Print Assumptions C13_strict_enum_discriminant.

(* inconsistent length prefixes *)
Theorem C13_strict_vec_count : forall (chk : bool) (t : ty) (w n : Z) (r : list Z),
  static_length t = Some w -> zlen r <> n * w -> decode chk (TVec t) (n :: r) = Err.
Proof. exact strict_vec_count. Qed.
Print Assumptions C13_strict_vec_count.

Theorem C13_strict_array_length : forall (chk : bool) (t : ty) (w : Z) (n : N) (s : list Z),
  static_length t = Some w -> zlen s <> Z.of_N n * w -> decode chk (TArray n t) s = Err.
Proof. exact strict_array_length. Qed.
Print Assumptions C13_strict_array_length.

Theorem C13_strict_poly_prefix : forall (chk : bool) (t : ty) (ind : Z) (r : list Z),
  zlen r <> ind -> decode chk (TPoly t) (ind :: r) = Err.
Proof. exact strict_poly_prefix. Qed.
Print Assumptions C13_strict_poly_prefix.

Theorem C13_strict_field_prefix : forall (chk : bool) (ts : list ty) (t : ty) (len : Z) (r : list Z),
  static_length t = None -> zlen r < len ->
  decode chk (TTuple (ts ++ [t])) (len :: r) = Err /\ decode chk (TStruct (ts ++ [t])) (len :: r) = Err.
Proof. exact strict_field_prefix. Qed.
Print Assumptions C13_strict_field_prefix.

(* a polynomial with a zero leading coefficient *)
Theorem C13_strict_poly_trailing_zero : forall (chk : bool) (t : ty) (l : list value),
  forallb (has_type t) l = true -> last_nonzero l = false -> zlen (encode (TVec t) (VList l)) < 2 ^ 64 ->
  decode chk (TPoly t) (zlen (encode (TVec t) (VList l)) :: encode (TVec t) (VList l)) = Err.
Proof. exact strict_poly_trailing_zero_b. Qed.
Print Assumptions C13_strict_poly_trailing_zero.
Example C13_strict_poly_trailing_zero_hyp : decode false (TPoly TBfe) [3; 2; 5; 0] = Err /\ decode false (TPoly TBfe) [3; 2; 0; 5] = Ok (VList [VInt 0; VInt 5]).
Proof. split; reflexivity. Qed.

(* resource bound: the number of slots the decoder creates is linear in the sequence length, with a constant that
   depends on the type only - never on the numbers in the sequence.  Hypothesis: no list whose item type has encoded
   width 0 (for those the item count is, by the format itself, not bounded by the sequence length). *)
Theorem C13_cost_linear : forall (t : ty) (s : list Z),
  no_width0_list t = true -> 0 <= cost t s <= cost_coeff t * (zlen s + 1).
Proof. exact cost_linear_b. Qed.
Print Assumptions C13_cost_linear.
Example C13_cost_linear_hyp :
  no_width0_list (TVec (TTuple [TVec TU8; TU64])) = true /\ cost_coeff (TVec (TTuple [TVec TU8; TU64])) = 20
  /\ no_width0_list (TVec TPhantom) = false /\ cost (TVec TPhantom) [1000000] = 2000001.
Proof. repeat split; reflexivity. Qed.
