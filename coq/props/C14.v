(* props/C14.v - the derive macro generates a correct, layout-compatible codec.
   Statements only; every proof is `exact <lemma of proofs/DeriveProofs.v or proofs/CodecProofs.v>`.

   `shape` (model/DeriveModel.v) is what the macro accepts: unit / named-field / tuple structs, enums with unit and tuple
   variants; `lower s` is the type of the codec grammar (model/Codec.v: TStruct / TEnum) whose encode / decode / static_length
   clauses model the generated code.  A generic definition is a function into shapes, so "for every shape" covers every
   instance.  `dflt t` stands for Default::default(); `decode chk`: chk = true is the overflow-checked build profile.
   Not proved here but run on every check: that the generated Rust code behaves like these clauses (differential run over
   the sampled definitions, workspace macro and published macro side by side). *)
From Coq Require Import ZArith NArith Bool List.
From TF Require Import BFieldGen Codec CodecProofs DeriveModel DeriveProofs.
Import ListNotations.
Open Scope Z_scope.

(* ---------------------------------------------------------------- round trip *)
(* every shape: decode (encode v) = v with the ignored fields replaced by Default::default() *)
Theorem C14_roundtrip : forall (dflt : ty -> value) (chk : bool) (s : shape) (v : value),
  shape_has_type s v = true -> zlen (shape_encode s v) < 2 ^ 64 ->
  shape_decode dflt chk s (shape_encode s v) = Ok (shape_reset dflt s v).
Proof. exact shape_roundtrip. Qed.
Print Assumptions C14_roundtrip.
Example C14_roundtrip_hyp :
  let s := SNamed [Field false TU32; Field true TU64; Field false (TVec TU8)] in
  let v := VList [VInt 3; VInt 99; VList [VInt 1; VInt 2]] in
  shape_has_type s v = true /\ shape_encode s v = [3; 2; 1; 2; 3]
  /\ shape_decode default_value false s (shape_encode s v) = Ok (VList [VInt 3; VInt 0; VList [VInt 1; VInt 2]]).
Proof. repeat split; reflexivity. Qed.

(* records and enums of the codec grammar, stated explicitly *)
Theorem C14_roundtrip_struct : forall (chk : bool) (fs : list ty) (vs : list value),
  apply_all (map has_type fs) vs = true -> zlen (encode (TStruct fs) (VList vs)) < 2 ^ 64 ->
  decode chk (TStruct fs) (encode (TStruct fs) (VList vs)) = Ok (VList vs).
Proof. exact record_roundtrip. Qed.
Print Assumptions C14_roundtrip_struct.

Theorem C14_roundtrip_enum : forall (chk : bool) (vs : list (list ty)) (d : Z) (l : list value),
  has_type (TEnum vs) (VEnum d l) = true -> zlen (encode (TEnum vs) (VEnum d l)) < 2 ^ 64 ->
  decode chk (TEnum vs) (encode (TEnum vs) (VEnum d l)) = Ok (VEnum d l).
Proof. exact enum_roundtrip. Qed.
Print Assumptions C14_roundtrip_enum.
Example C14_roundtrip_enum_hyp :
  has_type (TEnum [[]; [TU32]; [TVec TBfe; TU64]]) (VEnum 2 [VList [VInt 5]; VInt 4294967296]) = true
  /\ encode (TEnum [[]; [TU32]; [TVec TBfe; TU64]]) (VEnum 2 [VList [VInt 5]; VInt 4294967296]) = [2; 0; 1; 2; 1; 5].
Proof. split; reflexivity. Qed.

(* a generic definition g at the arguments args *)
Theorem C14_generic_instance : forall (dflt : ty -> value) (chk : bool) (g : list ty -> shape) (args : list ty) (v : value),
  shape_has_type (g args) v = true -> zlen (shape_encode (g args) v) < 2 ^ 64 ->
  shape_decode dflt chk (g args) (shape_encode (g args) v) = Ok (shape_reset dflt (g args) v).
Proof. exact generic_instance. Qed.
Print Assumptions C14_generic_instance.

(* ---------------------------------------------------------------- uniqueness *)
(* whatever is accepted is THE encoding of the decoded value, which is well typed *)
Theorem C14_unique : forall (dflt : ty -> value) (chk : bool) (s : shape) (sq : list Z) (v : value),
  canon_seq sq = true -> shape_decode dflt chk s sq = Ok v -> shape_has_type s v = true /\ shape_encode s v = sq.
Proof. exact shape_unique. Qed.
Print Assumptions C14_unique.

Theorem C14_one_accepted_encoding : forall (dflt : ty -> value) (chk : bool) (s : shape) (s1 s2 : list Z) (v : value),
  canon_seq s1 = true -> canon_seq s2 = true ->
  shape_decode dflt chk s s1 = Ok v -> shape_decode dflt chk s s2 = Ok v -> s1 = s2.
Proof. exact shape_one_accepted_encoding. Qed.
Print Assumptions C14_one_accepted_encoding.

Theorem C14_unique_struct : forall (chk : bool) (fs : list ty) (sq : list Z) (v : value),
  canon_seq sq = true -> decode chk (TStruct fs) sq = Ok v ->
  exists vs, v = VList vs /\ apply_all (map has_type fs) vs = true /\ encode (TStruct fs) (VList vs) = sq.
Proof. exact record_unique. Qed.
Print Assumptions C14_unique_struct.

Theorem C14_unique_enum : forall (chk : bool) (vs : list (list ty)) (sq : list Z) (v : value),
  canon_seq sq = true -> decode chk (TEnum vs) sq = Ok v ->
  exists d l fs, v = VEnum d l /\ znth_opt d vs = Some fs /\ apply_all (map has_type fs) l = true
                 /\ encode (TEnum vs) (VEnum d l) = sq.
Proof. exact enum_unique. Qed.
Print Assumptions C14_unique_enum.

(* ---------------------------------------------------------------- static length *)
Theorem C14_static_len : forall (s : shape) (n : Z) (v : value),
  shape_static_length s = Some n -> shape_has_type s v = true -> zlen (shape_encode s v) = n.
Proof. exact shape_static_len. Qed.
Print Assumptions C14_static_len.

(* struct: all fields static -> the sum; one dynamic field -> None *)
Theorem C14_static_len_struct_sum : forall (fs : list ty) (ns : list Z),
  Forall2 (fun t n => static_length t = Some n) fs ns -> static_length (TStruct fs) = Some (zsum ns).
Proof. exact record_static_sum. Qed.
Print Assumptions C14_static_len_struct_sum.

Theorem C14_static_len_struct_none : forall (fs : list ty) (t : ty),
  In t fs -> static_length t = None -> static_length (TStruct fs) = None.
Proof. exact record_static_none. Qed.
Print Assumptions C14_static_len_struct_none.

(* enum: uniform variant width + 1 *)
Theorem C14_static_len_enum_units : forall (vs : list (list ty)),
  (forall fs, In fs vs -> fs = []) -> static_length (TEnum vs) = Some 1.
Proof. exact enum_static_units. Qed.
Print Assumptions C14_static_len_enum_units.

Theorem C14_static_len_enum_uniform : forall (vs : list (list ty)) (w : Z),
  vs <> [] -> (forall fs, In fs vs -> sum_opt (map static_length fs) = Some w) -> static_length (TEnum vs) = Some (w + 1).
Proof. exact enum_static_uniform. Qed.
Print Assumptions C14_static_len_enum_uniform.

Theorem C14_static_len_enum_unequal : forall (vs : list (list ty)) (fs1 fs2 : list ty),
  In fs1 vs -> In fs2 vs -> sum_opt (map static_length fs1) <> sum_opt (map static_length fs2) -> static_length (TEnum vs) = None.
Proof. exact enum_static_none. Qed.
Print Assumptions C14_static_len_enum_unequal.
Example C14_static_len_enum_hyp :
  static_length (TEnum [[TU64]; [TBfe; TU32]; [TArray 2 TU8]]) = Some 3 /\ static_length (TEnum [[TU32]; [TU64]]) = None
  /\ static_length (TEnum [[]; [TPhantom]; [TStruct []]]) = Some 1 /\ static_length (TEnum [[]; [TU8]]) = None.
Proof. repeat split; reflexivity. Qed.

Theorem C14_unit_struct : forall (chk : bool),
  (forall v, shape_encode SUnit v = []) /\ shape_static_length SUnit = Some 0
  /\ decode chk (lower SUnit) [] = Ok (VList []) /\ (forall x r, decode chk (lower SUnit) (x :: r) = Err).
Proof. exact unit_struct. Qed.
Print Assumptions C14_unit_struct.

(* ---------------------------------------------------------------- total and strict decoding *)
Theorem C14_decode_total : forall (dflt : ty -> value) (chk : bool) (s : shape) (sq : list Z),
  canon_seq sq = true -> zlen sq < 2 ^ 32 -> shape_decode dflt chk s sq <> Panic.
Proof. exact shape_total. Qed.
Print Assumptions C14_decode_total.

Theorem C14_strict : forall (dflt : ty -> value) (chk : bool) (s : shape) (sq : list Z),
  canon_seq sq = true -> zlen sq < 2 ^ 32 ->
  (forall v, shape_has_type s v = true -> shape_encode s v <> sq) -> shape_decode dflt chk s sq = Err.
Proof. exact shape_strict. Qed.
Print Assumptions C14_strict.

Theorem C14_strict_unknown_discriminant : forall (dflt : ty -> value) (chk : bool) (vs : list (option Z * list ty)) (d : Z) (r : list Z),
  zlen vs <= d -> shape_decode dflt chk (SEnum vs) (d :: r) = Err.
Proof. exact enum_unknown_discriminant. Qed.
Print Assumptions C14_strict_unknown_discriminant.

Theorem C14_strict_enum_empty : forall (dflt : ty -> value) (chk : bool) (vs : list (option Z * list ty)),
  shape_decode dflt chk (SEnum vs) [] = Err.
Proof. exact enum_empty_rejected. Qed.
Print Assumptions C14_strict_enum_empty.

Theorem C14_strict_truncated : forall (dflt : ty -> value) (chk : bool) (s : shape) (v : value) (sq x : list Z),
  shape_has_type s v = true -> shape_encode s v = sq ++ x -> x <> [] -> canon_seq sq = true -> zlen sq < 2 ^ 32 ->
  shape_decode dflt chk s sq = Err.
Proof. exact shape_truncated. Qed.
Print Assumptions C14_strict_truncated.

Theorem C14_strict_extended : forall (dflt : ty -> value) (chk : bool) (s : shape) (v : value) (x : list Z),
  shape_has_type s v = true -> x <> [] -> canon_seq (shape_encode s v ++ x) = true -> zlen (shape_encode s v ++ x) < 2 ^ 32 ->
  shape_decode dflt chk s (shape_encode s v ++ x) = Err.
Proof. exact shape_extended. Qed.
Print Assumptions C14_strict_extended.
Example C14_strict_hyp :
  decode false (TEnum [[]; [TU32]]) [2] = Err /\ decode false (TEnum [[]; [TU32]]) [1] = Err
  /\ decode false (TEnum [[]; [TU32]]) [0; 0] = Err /\ decode false (TEnum [[]; [TU32]]) [1; 4294967296] = Err
  /\ decode true (TStruct [TU8; TVec TU8]) [18446744069414584320; 1] = Err.
Proof. repeat split; reflexivity. Qed.

Theorem C14_strict_field_prefix : forall (chk : bool) (ts : list ty) (t : ty) (len : Z) (r : list Z),
  static_length t = None -> zlen r < len -> decode chk (TStruct (ts ++ [t])) (len :: r) = Err.
Proof. exact record_field_prefix. Qed.
Print Assumptions C14_strict_field_prefix.

(* resource bound of C13 for derived types *)
Theorem C14_cost_linear : forall (s : shape) (sq : list Z),
  no_width0_list (lower s) = true -> 0 <= cost (lower s) sq <= cost_coeff (lower s) * (zlen sq + 1).
Proof. exact shape_cost_linear. Qed.
Print Assumptions C14_cost_linear.

(* ---------------------------------------------------------------- documented layout *)
(* dynamically sized fields are length-prefixed, statically sized ones are not *)
Theorem C14_layout_field_dynamic : forall (t : ty) (v : value),
  static_length t = None -> component t v = zlen (encode t v) :: encode t v.
Proof. exact component_dynamic. Qed.
Print Assumptions C14_layout_field_dynamic.

Theorem C14_layout_field_static : forall (t : ty) (n : Z) (v : value), static_length t = Some n -> component t v = encode t v.
Proof. exact component_static. Qed.
Print Assumptions C14_layout_field_static.

(* fields in reverse declaration order *)
Theorem C14_layout_struct : forall (fs : list ty) (vs : list value), length fs = length vs ->
  encode (TStruct fs) (VList vs) = concat (rev (components fs vs)).
Proof. exact layout_struct. Qed.
Print Assumptions C14_layout_struct.

Theorem C14_layout_tuple_struct : forall (fs : list field) (vs : list value), length fs = length vs ->
  shape_encode (STuple fs) (VList vs) = concat (rev (components (map fty fs) vs)).
Proof. exact layout_tuple_struct. Qed.
Print Assumptions C14_layout_tuple_struct.

(* named-field struct: ignored fields omitted ... *)
Theorem C14_layout_named : forall (fs : list field) (vs : list value), length fs = length vs ->
  shape_encode (SNamed fs) (VList vs) = concat (rev (components (included fs) (project fs vs))).
Proof. exact layout_named. Qed.
Print Assumptions C14_layout_named.

Theorem C14_ignored_omitted : forall (fs : list field) (vs vs' : list value), project fs vs = project fs vs' ->
  shape_encode (SNamed fs) (VList vs) = shape_encode (SNamed fs) (VList vs').
Proof. exact ignored_omitted. Qed.
Print Assumptions C14_ignored_omitted.

(* ... and defaulted on decode, every other field as it was *)
Theorem C14_ignored_defaulted : forall (dflt : ty -> value) (chk : bool) (fs : list field) (vs : list value),
  shape_has_type (SNamed fs) (VList vs) = true -> zlen (shape_encode (SNamed fs) (VList vs)) < 2 ^ 64 ->
  shape_decode dflt chk (SNamed fs) (shape_encode (SNamed fs) (VList vs))
  = Ok (VList (map (fun fv => if fign (fst fv) then dflt (fty (fst fv)) else snd fv) (combine fs vs))).
Proof. exact ignored_defaulted. Qed.
Print Assumptions C14_ignored_defaulted.

(* the macro's own traversal (reverse the declaration order, then drop the ignored fields) is the order of the model *)
Theorem C14_macro_order : forall (fs : list field), macro_field_order fs = rev (included fs).
Proof. exact macro_order_agrees. Qed.
Print Assumptions C14_macro_order.

(* enum: discriminant (position of the variant in the declaration) first, then the variant's fields in reverse order *)
Theorem C14_layout_enum : forall (vs : list (option Z * list ty)) (d : Z) (l : list value) (x : option Z) (fs : list ty),
  znth_opt d vs = Some (x, fs) -> length fs = length l ->
  shape_encode (SEnum vs) (VEnum d l) = d :: concat (rev (components fs l)).
Proof. exact layout_shape_enum. Qed.
Print Assumptions C14_layout_enum.

(* an explicit Rust discriminant (`A = 5`) does not enter the encoding *)
Theorem C14_explicit_discriminant_unused : forall (vs : list (option Z * list ty)),
  lower (SEnum vs) = lower (SEnum (map (fun v => (None, snd v)) vs)).
Proof. exact explicit_discriminant_unused. Qed.
Print Assumptions C14_explicit_discriminant_unused.
Example C14_layout_enum_hyp :
  shape_encode (SEnum [(Some 5, []); (None, [TU32; TVec TU8]); (Some 1, [])]) (VEnum 1 [VInt 7; VList [VInt 1; VInt 2]]) = [1; 3; 2; 1; 2; 7]
  /\ shape_encode (SEnum [(Some 5, []); (None, []); (Some 1, [])]) (VEnum 0 []) = [0]
  /\ shape_encode (SEnum [(Some 5, []); (None, []); (Some 1, [])]) (VEnum 2 []) = [2].
Proof. repeat split; reflexivity. Qed.

(* ---------------------------------------------------------------- the attribute on a tuple-struct field: REFUTED
   `struct T(#[bfield_codec(ignore)] u32, u64)` is accepted by both macro versions and the field is encoded:
   T(7, 9).encode() = [9, 0, 7], static_length = Some(3), where the property's layout gives [9, 0].
   KNOWN_FINDINGS key tuple-field-ignore-attr-no-effect; replay in corpus/C14. *)
Theorem C14_tuple_ignore_refuted :
  exists fs vs, existsb fign fs = true /\ shape_has_type (STuple fs) (VList vs) = true
                /\ shape_encode (STuple fs) (VList vs) <> encode (lower_spec (STuple fs)) (VList (project fs vs)).
Proof. exact tuple_ignore_refuted. Qed.
Print Assumptions C14_tuple_ignore_refuted.

Theorem C14_tuple_ignore_witness :
  shape_encode (STuple tign_fields) (VList tign_value) = [9; 0; 7]
  /\ encode (lower_spec (STuple tign_fields)) (VList (project tign_fields tign_value)) = [9; 0]
  /\ shape_static_length (STuple tign_fields) = Some 3
  /\ shape_encode (SNamed tign_fields) (VList tign_value) = [9; 0].
Proof. exact tuple_ignore_witness. Qed.
Print Assumptions C14_tuple_ignore_witness.

(* everywhere else the faithful layout IS the property's layout *)
Theorem C14_named_ignore_honoured : forall (fs : list field), lower (SNamed fs) = lower_spec (SNamed fs).
Proof. exact named_ignore_honoured. Qed.
Print Assumptions C14_named_ignore_honoured.

Theorem C14_tuple_without_attribute : forall (fs : list field), existsb fign fs = false -> lower (STuple fs) = lower_spec (STuple fs).
Proof. exact tuple_no_attr. Qed.
Print Assumptions C14_tuple_without_attribute.

(* ---------------------------------------------------------------- workspace macro (0.7.0) versus published macro (0.7.1)
   the sources differ in one expression: `x.value() as usize` versus `usize::try_from(x.value())` for length prefixes and
   discriminants.  On every field element the two agree (P < 2^64 = usize range). *)
Theorem C14_usize_conversions_agree : forall (x : Z), 0 <= x < P -> usize_try_from x = Some x /\ usize_as x = x.
Proof. exact usize_conversions_agree. Qed.
Print Assumptions C14_usize_conversions_agree.
