(* props/C15.v - property C15: sponge discipline (injective padding, domain separation, exact sampling).
   Only statements, each closed by `exact`, each followed by Print Assumptions.
   Vocabulary as in props/C02.v: states and inputs are lists of Montgomery words, canon / val relate them to field
   values; the specification (spec/Tip5Spec.v) is on values. *)
From Coq Require Import ZArith Bool List.
From TF Require Import Word BFieldGen BFieldProofs Tip5Ssa Tip5Gen Tip5 Tip5Spec Tip5Proofs SpongeProofs.
Import ListNotations.
Open Scope Z_scope.

(* ---------------------------------------------------------------- padding *)
(* the padded input is the input followed by a single one and k zeros, k < 10 the FEWEST zeros completing a
   multiple of the rate *)
Theorem C15_pad_shape : forall input,
  let k := pad_zeros (length input) in
  pad input = input ++ bfe_one :: repeat bfe_zero k /\ (k < 10)%nat /\
  (length (pad input) mod 10 = 0)%nat /\
  (forall k', (k' < k)%nat -> ((length input + 1 + k') mod 10 <> 0)%nat).
Proof. exact pad_shape. Qed.
Print Assumptions C15_pad_shape.

Theorem C15_pad_injective : forall a b, pad a = pad b -> a = b.
Proof. exact pad_injective. Qed.
Print Assumptions C15_pad_injective.

Theorem C15_pad_values : forall input, map val (pad input) = spec_pad (map val input).
Proof. exact pad_values. Qed.
Print Assumptions C15_pad_values.

(* Sponge::pad_and_absorb_all, for ANY sponge: never panics; absorbs the padded input in order, RATE at a time *)
Theorem C15_pad_and_absorb_all : forall (S : Type) (ab : S -> list Z -> S) s input,
  let cs := chunks 10 (pad input) in
  pad_and_absorb_all S ab s input = Some (fold_left ab cs s) /\
  Forall (fun c => length c = 10%nat) cs /\ concat cs = pad input /\ (10 * length cs = length (pad input))%nat.
Proof. exact (@pad_and_absorb_all_spec). Qed.
Print Assumptions C15_pad_and_absorb_all.

Theorem C15_recording_sponge : forall input, exists cs,
  recording_pad_and_absorb_all [] input = Some cs /\
  concat cs = input ++ bfe_one :: repeat bfe_zero (pad_zeros (length input)) /\
  Forall (fun c => length c = 10%nat) cs.
Proof. exact recording_spec. Qed.
Print Assumptions C15_recording_sponge.

(* ---------------------------------------------------------------- domains *)
(* fixed-length and variable-length hashing never share an initial state: the capacities differ (all ones vs all
   zeros, as field values) before anything is absorbed, while the rate parts coincide *)
Theorem C15_domains_differ :
  tip5_new VariableLength <> tip5_new FixedLength /\
  skipn nrate (tip5_new VariableLength) <> skipn nrate (tip5_new FixedLength) /\
  firstn nrate (tip5_new VariableLength) = firstn nrate (tip5_new FixedLength) /\
  map val (tip5_new VariableLength) = repeat 0 16 /\
  map val (tip5_new FixedLength) = repeat 0 10 ++ repeat 1 6.
Proof. exact domains_differ. Qed.
Print Assumptions C15_domains_differ.

(* ---------------------------------------------------------------- absorb / squeeze / hash_varlen *)
Theorem C15_absorb : forall st chunk, Forall canon st -> Forall canon chunk ->
  Forall canon (absorb st chunk) /\ map val (absorb st chunk) = spec_absorb (map val st) (map val chunk) /\
  length (absorb st chunk) = 16%nat.
Proof. exact absorb_refines. Qed.
Print Assumptions C15_absorb.

Theorem C15_squeeze : forall st, Forall canon st ->
  let '(out, st') := squeeze st in
  Forall canon out /\ Forall canon st' /\ length st' = 16%nat /\
  (map val out, map val st') = spec_squeeze (map val st).
Proof. exact squeeze_refines. Qed.
Print Assumptions C15_squeeze.

Theorem C15_hash_varlen : forall input, Forall canon input ->
  exists d, hash_varlen input = Some d /\ Forall canon d /\ map val d = spec_hash_varlen (map val input) /\
            length d = 5%nat.
Proof. exact hash_varlen_spec. Qed.
Print Assumptions C15_hash_varlen.
Example C15_hash_varlen_hyp : Forall canon (map bfe_new [0; 1; 18446744069414584320]).
Proof. repeat (apply Forall_cons; [vm_compute; split; congruence|]). apply Forall_nil. Qed.

(* ---------------------------------------------------------------- index sampling *)
(* whenever sample_indices returns (any fuel): the indices are, in order, the low 32 bits modulo the bound of the
   squeezed elements skipping exactly those equal to p - 1; exactly n of them; the sponge is left after k squeezes,
   k the FEWEST number of squeezes that supply n accepted elements *)
Theorem C15_sample_indices : forall dbg fuel st ub n idx st', Forall canon st ->
  sample_indices dbg fuel st ub n = Ok (idx, st') ->
  exists k, (idx, map val st') = spec_sample_indices k (map val st) ub n /\
            Forall canon st' /\ length idx = n /\
            enough_squeezes k (map val st) n = true /\
            (forall k', (k' < k)%nat -> enough_squeezes k' (map val st) n = false).
Proof. exact sample_indices_spec. Qed.
Print Assumptions C15_sample_indices.

(* and it does return (no panic, fuel not exhausted) as soon as some number k of squeezes supplies n accepted
   elements and the fuel covers their 10k elements; the bound must be non-zero, and a power of two when debug
   assertions are on *)
Theorem C15_sample_indices_total : forall dbg fuel st ub n k, Forall canon st -> length st = 16%nat -> ub <> 0 ->
  dbg && negb (is_pow2 ub) = false ->
  enough_squeezes k (map val st) n = true -> (10 * k <= fuel)%nat ->
  exists idx st', sample_indices dbg fuel st ub n = Ok (idx, st').
Proof. exact sample_indices_total. Qed.
Print Assumptions C15_sample_indices_total.
Example C15_sample_indices_total_hyp :
  enough_squeezes 2 (map val tip5_init) 12 = true /\ enough_squeezes 1 (map val tip5_init) 12 = false.
Proof. vm_compute. split; reflexivity. Qed.

(* ---------------------------------------------------------------- scalar sampling *)
(* never panics; ceil(3n/10) squeezes; successive squeezed elements in groups of three; final state after exactly
   those squeezes *)
Theorem C15_sample_scalars : forall st n, Forall canon st -> length st = 16%nat ->
  exists xs st', sample_scalars st n = Ok (xs, st') /\
    (map (map val) xs, map val st') = spec_sample_scalars (map val st) n /\
    Forall canon st' /\ length xs = n /\
    st' = snd (squeeze_n ((3 * n + 9) / 10) st).
Proof. exact sample_scalars_spec. Qed.
Print Assumptions C15_sample_scalars.

Theorem C15_scalar_squeezes_minimal : forall n,
  (3 * n <= 10 * ((3 * n + 9) / 10))%nat /\ forall k', (k' < (3 * n + 9) / 10)%nat -> (10 * k' < 3 * n)%nat.
Proof. exact scalar_squeezes_minimal. Qed.
Print Assumptions C15_scalar_squeezes_minimal.
