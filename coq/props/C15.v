(* props/C15.v - property C15: sponge discipline (injective padding, domain separation, exact sampling).
   Only statements, each closed by `exact`, each followed by Print Assumptions. *)
From Coq Require Import ZArith Bool List.
From TF Require Import Word BFieldGen BFieldProofs Tip5Ssa Tip5Gen Tip5 Tip5Spec Tip5Proofs SpongeProofs.
Import ListNotations.
Open Scope Z_scope.

(* fixed-length and variable-length hashing never share an initial state: the capacities differ (all ones vs all
   zeros, as field values) before anything is absorbed, while the rate parts coincide *)
Theorem C15_domains_differ :
  tip5_new VariableLength <> tip5_new FixedLength /\
  skipn nrate (tip5_new VariableLength) <> skipn nrate (tip5_new FixedLength) /\
  firstn nrate (tip5_new VariableLength) = firstn nrate (tip5_new FixedLength) /\
  map val (tip5_new VariableLength) = repeat 0 16 /\
  map val (tip5_new FixedLength) = repeat 0 10 ++ repeat 1 6.
Proof. exact domains_differ. Qed.
Print Assumptions C15_domains_differ.
