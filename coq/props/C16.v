(* props/C16.v - property C16: MMR index arithmetic matches the explicit forest of perfect trees.
   Only statements, each closed by `exact`, each followed by Print Assumptions.

   Vocabulary.  gen/MmrIndexGen.v: the translated Rust functions f and their side conditions f_ok
   (f_ok = true  <->  no overflow, no out-of-range shift, no failing assert!).  model/MmrIndex.v: mm_f, the
   hand-written models of the looping functions (Some v = returns v without panic and within the fuel).
   spec/Forest.v: forest n = the perfect trees of the MMR with n leafs, laid out in post-order; f_locate n x =
   (peak index, tree, nodeinfo) of node x; spec_* = the structural answers. *)
From Coq Require Import ZArith Bool List.
From TF Require Import Word MmrIndexGen MmrIndex Forest MmrIndexProofs MmrIndexLoops MmrIndexMain MmrIndexGrow.
Import ListNotations.
Open Scope Z_scope.

(* ------------------------------------------------------------------ straight-line functions: arithmetic *)
Theorem C16_left_child : forall x h, 0 <= h < 64 -> 2 ^ h <= x < 2 ^ 64 ->
  left_child_ok x h = true /\ left_child x h = x - 2 ^ h.
Proof. exact left_child_val. Qed.
Print Assumptions C16_left_child.

Theorem C16_right_child : forall x, 1 <= x < 2 ^ 64 -> right_child_ok x = true /\ right_child x = x - 1.
Proof. exact right_child_val. Qed.
Print Assumptions C16_right_child.

Theorem C16_left_sibling : forall x h, 0 <= h < 63 -> 2 ^ (h + 1) <= x < 2 ^ 64 ->
  left_sibling_ok x h = true /\ left_sibling x h = x - 2 ^ (h + 1) + 1.
Proof. exact left_sibling_val. Qed.
Print Assumptions C16_left_sibling.

Theorem C16_right_sibling : forall x h, 0 <= h < 63 -> 0 <= x -> x + 2 ^ (h + 1) < 2 ^ 64 ->
  right_sibling_ok x h = true /\ right_sibling x h = x + 2 ^ (h + 1) - 1.
Proof. exact right_sibling_val. Qed.
Print Assumptions C16_right_sibling.

(* the smallest perfect tree at offset 0 that contains node x (capped at height 63), for EVERY u64 x >= 1 *)
Theorem C16_leftmost_ancestor : forall x, 1 <= x < 2 ^ 64 ->
  leftmost_ancestor_ok x = true /\
  exists H : nat, (H <= 63)%nat /\ leftmost_ancestor x = (tsize H, Z.of_nat H) /\ tleafs H <= x <= tsize H.
Proof. exact leftmost_ancestor_val. Qed.
Print Assumptions C16_leftmost_ancestor.

(* ------------------------------------------------------------------ leafs *)
(* 2i - popcount i + 1 is the post-order position of leaf i, in every MMR that contains it *)
Theorem C16_leaf_index_to_node_index : forall n i, 0 <= i < n -> n <= 2 ^ 63 ->
  leaf_index_to_node_index_ok i = true /\
  spec_leaf_index_to_node_index n i = Some (leaf_index_to_node_index i).
Proof. exact main_leaf_index_to_node_index. Qed.
Print Assumptions C16_leaf_index_to_node_index.
Example C16_leaf_index_to_node_index_ex : spec_leaf_index_to_node_index 11 9 = Some 17. Proof. reflexivity. Qed.

Theorem C16_num_leafs_to_num_nodes : forall n, 0 <= n < 2 ^ 63 ->
  num_leafs_to_num_nodes_ok n = true /\ spec_node_count n = num_leafs_to_num_nodes n.
Proof. exact spec_node_count_correct. Qed.
Print Assumptions C16_num_leafs_to_num_nodes.

Theorem C16_forest_has_n_leafs : forall n, 0 <= n < 2 ^ 64 -> spec_leaf_count_of_forest n = n.
Proof. exact spec_leaf_count_correct. Qed.
Print Assumptions C16_forest_has_n_leafs.

(* xor / ilog2 / popcount: local Merkle tree index and peak index; for every u64 pair with i < n *)
Theorem C16_mt_index_and_peak_index : forall n i, 0 <= i < n -> n < 2 ^ 64 ->
  leaf_index_to_mt_index_and_peak_index_ok i n = true /\
  spec_mt_index_and_peak_index n i = Some (leaf_index_to_mt_index_and_peak_index i n).
Proof. exact leaf_index_to_mt_index_and_peak_index_correct. Qed.
Print Assumptions C16_mt_index_and_peak_index.
Example C16_mt_index_and_peak_index_ex : spec_mt_index_and_peak_index 11 9 = Some (3, 1). Proof. reflexivity. Qed.

(* out of contract: the assert! fires *)
Theorem C16_mt_index_out_of_bounds_panics : forall n i, n <= i ->
  leaf_index_to_mt_index_and_peak_index_ok i n = false.
Proof. exact main_mt_out_of_bounds. Qed.
Print Assumptions C16_mt_index_out_of_bounds_panics.

(* (i+1) & !i : the right lineage length of leaf i's node *)
Theorem C16_right_lineage_length_from_leaf_index : forall n i, 0 <= i < n -> n < 2 ^ 63 ->
  right_lineage_length_from_leaf_index_ok i = true /\
  spec_leaf_rll n i = Some (right_lineage_length_from_leaf_index i).
Proof. exact main_right_lineage_length_from_leaf_index. Qed.
Print Assumptions C16_right_lineage_length_from_leaf_index.

(* ... which is the number of trailing ones of i *)
Theorem C16_right_lineage_length_trailing_ones : forall (t : nat) i, (t <= 63)%nat -> 0 <= i < 2 ^ 64 - 1 ->
  i mod 2 ^ (Z.of_nat t + 1) = 2 ^ Z.of_nat t - 1 ->
  right_lineage_length_from_leaf_index_ok i = true /\ right_lineage_length_from_leaf_index i = Z.of_nat t.
Proof. exact right_lineage_length_from_leaf_index_char. Qed.
Print Assumptions C16_right_lineage_length_trailing_ones.
Example C16_trailing_ones_ex : 11 mod 2 ^ (Z.of_nat 2 + 1) = 2 ^ Z.of_nat 2 - 1. Proof. reflexivity. Qed.

(* ------------------------------------------------------------------ nodes *)
(* every node of every MMR below 2^63 leafs: height, right lineage length (both algorithms), leaf index *)
Theorem C16_node : forall n x, 0 <= n < 2 ^ 63 -> 1 <= x <= spec_node_count n ->
  exists pk t ni, f_locate n x = Some (pk, t, ni) /\
    mm_right_lineage_length_and_own_height x = Some (ni_rll ni, ni_height ni) /\
    mm_right_lineage_length_from_node_index x = Some (ni_rll ni) /\
    mm_node_index_to_leaf_index x = Some (if ni_height ni =? 0 then Some (ni_first_leaf ni) else None).
Proof. exact main_node. Qed.
Print Assumptions C16_node.
Example C16_node_ex : exists ni, f_locate 11 13 = Some (0, PTree 3 0 0, ni) /\ ni_rll ni = 2 /\ ni_height ni = 1.
Proof. eexists. split; [reflexivity|]. split; reflexivity. Qed.

(* the three functions whose tests are named *_does_not_crash (and node_index_to_leaf_index): every u64 >= 1 *)
Theorem C16_does_not_crash : forall x, 1 <= x < 2 ^ 64 ->
  leftmost_ancestor_ok x = true /\
  (exists r h, mm_right_lineage_length_and_own_height x = Some (r, h)) /\
  (exists r, mm_right_lineage_length_from_node_index x = Some r) /\
  (exists r, mm_node_index_to_leaf_index x = Some r).
Proof. exact main_does_not_crash. Qed.
Print Assumptions C16_does_not_crash.

Theorem C16_is_right_child : forall n x pk t ni, 0 <= n < 2 ^ 63 -> 1 <= x <= spec_node_count n ->
  f_locate n x = Some (pk, t, ni) -> (ni_is_right ni = true <-> ni_rll ni <> 0).
Proof. exact main_is_right. Qed.
Print Assumptions C16_is_right_child.

Theorem C16_parent : forall n x pk t ni p, 0 <= n < 2 ^ 63 -> 1 <= x <= spec_node_count n ->
  f_locate n x = Some (pk, t, ni) -> ni_parent ni = Some p -> mm_parent x = Some p.
Proof. exact main_parent. Qed.
Print Assumptions C16_parent.
Example C16_parent_ex : exists pk t ni, f_locate 11 13 = Some (pk, t, ni) /\ ni_parent ni = Some 14.
Proof. do 3 eexists. split; reflexivity. Qed.

Theorem C16_sibling : forall n x pk t ni s, 0 <= n < 2 ^ 63 -> 1 <= x <= spec_node_count n ->
  f_locate n x = Some (pk, t, ni) -> ni_sibling ni = Some s ->
  (if ni_is_right ni then mm_left_sibling x (ni_height ni) else mm_right_sibling x (ni_height ni)) = Some s.
Proof. exact main_sibling. Qed.
Print Assumptions C16_sibling.

Theorem C16_children : forall n x pk t ni lc rc, 0 <= n < 2 ^ 63 -> 1 <= x <= spec_node_count n ->
  f_locate n x = Some (pk, t, ni) -> ni_children ni = Some (lc, rc) ->
  mm_left_child x (ni_height ni) = Some lc /\ mm_right_child x = Some rc.
Proof. exact main_children. Qed.
Print Assumptions C16_children.

Theorem C16_node_index_to_leaf_index : forall n x, 0 <= n < 2 ^ 63 -> 1 <= x <= spec_node_count n ->
  spec_node_index_to_leaf_index n x = mm_node_index_to_leaf_index x.
Proof. exact main_node_index_to_leaf_index. Qed.
Print Assumptions C16_node_index_to_leaf_index.

Theorem C16_leaf_node_round_trip : forall i, 0 <= i < 2 ^ 63 ->
  mm_node_index_to_leaf_index (leaf_index_to_node_index i) = Some (Some i).
Proof. exact main_leaf_node_round_trip. Qed.
Print Assumptions C16_leaf_node_round_trip.

(* ------------------------------------------------------------------ peaks, append *)
Theorem C16_peak_heights : forall n, 0 <= n < 2 ^ 64 -> mm_get_peak_heights n = Some (spec_peak_heights n).
Proof. exact peak_heights_correct. Qed.
Print Assumptions C16_peak_heights.

Theorem C16_peak_heights_and_peak_node_indices : forall n, 0 <= n < 2 ^ 63 ->
  mm_get_peak_heights_and_peak_node_indices n = Some (spec_peak_heights n, spec_peak_node_indices n).
Proof. exact peaks_correct. Qed.
Print Assumptions C16_peak_heights_and_peak_node_indices.
Example C16_peaks_ex : (spec_peak_heights 11, spec_peak_node_indices 11) = ([3; 1; 0], [15; 18; 19]).
Proof. reflexivity. Qed.

Theorem C16_node_indices_added_by_append : forall n, 0 <= n < 2 ^ 63 ->
  mm_node_indices_added_by_append n = Some (spec_added_by_append n).
Proof. exact added_by_append_correct. Qed.
Print Assumptions C16_node_indices_added_by_append.
Example C16_added_ex : spec_added_by_append 7 = [12; 13; 14; 15]. Proof. reflexivity. Qed.

(* ------------------------------------------------------------------ authentication paths *)
(* start and target both nodes of the MMR: the siblings on the way up, or None if target is not an ancestor *)
Theorem C16_authentication_path : forall n start target, 0 <= n < 2 ^ 63 ->
  1 <= start <= spec_node_count n -> 1 <= target <= spec_node_count n ->
  mm_get_authentication_path_node_indices start target (spec_node_count n) = spec_auth_path n start target.
Proof. exact main_auth_path. Qed.
Print Assumptions C16_authentication_path.
Example C16_auth_path_ex : spec_auth_path 11 1 15 = Some (Some [2; 6; 14]) /\ spec_auth_path 11 5 18 = Some None.
Proof. split; reflexivity. Qed.

(* ------------------------------------------------------------------ the specification itself *)
(* the forest of the binary decomposition is the forest one gets by appending n leafs one at a time *)
Theorem C16_forest_is_grown : forall n : nat, Z.of_nat n < 2 ^ 64 -> grow n = rev (forest (Z.of_nat n)).
Proof. exact grow_is_forest. Qed.
Print Assumptions C16_forest_is_grown.

(* the descent used by the specification agrees with the plain traversal of the explicit (materialised) tree,
   whose nodes are numbered o+1 .. o + tsize h in post-order *)
Theorem C16_descent_is_traversal : forall h o l x r isr par sib ni,
  t_locate h o l x r isr par sib = Some ni -> In (x, ni) (m_infos (materialise h o l) r isr par sib).
Proof. exact t_locate_in_materialised. Qed.
Print Assumptions C16_descent_is_traversal.

Theorem C16_post_order_numbering : forall h o l,
  m_postorder (materialise h o l) = upfrom (Z.to_nat (tsize h)) o.
Proof. exact m_postorder_materialise. Qed.
Print Assumptions C16_post_order_numbering.
Example C16_post_order_ex : m_postorder (materialise 2 7 4) = [8; 9; 10; 11; 12; 13; 14]. Proof. reflexivity. Qed.

(* node indices over the whole u64 range: the structural answer in the single perfect tree of height 63 *)
Theorem C16_node_u64 : forall x, 1 <= x < 2 ^ 64 ->
  exists pk t ni, f_locate (2 ^ 63) x = Some (pk, t, ni) /\
    mm_right_lineage_length_and_own_height x = Some (ni_rll ni, ni_height ni) /\
    mm_right_lineage_length_from_node_index x = Some (ni_rll ni) /\
    mm_node_index_to_leaf_index x = Some (if ni_height ni =? 0 then Some (ni_first_leaf ni) else None).
Proof. exact main_node_u64. Qed.
Print Assumptions C16_node_u64.
