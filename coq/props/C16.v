(* props/C16.v - property C16: MMR index arithmetic matches the explicit forest of perfect trees.
   Only statements, each closed by `exact`, each followed by Print Assumptions. *)
From Coq Require Import ZArith Bool List.
From TF Require Import Word MmrIndexGen MmrIndex Forest MmrIndexProofs.
Import ListNotations.
Open Scope Z_scope.

Theorem C16_right_child_no_overflow : forall x, 1 <= x -> right_child_ok x = true.
Proof. exact right_child_ok_all. Qed.
Print Assumptions C16_right_child_no_overflow.
