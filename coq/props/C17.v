(* props/C17.v - property C17: polynomials have value semantics (stored leading zeros never change results).
   Only statements, each closed by `exact`, each followed by Print Assumptions. *)
From Coq Require Import ZArith Bool List.
From TF Require Import Word FieldOps FieldTheory PolyGen PolyCore PolySpec PolyCoreProofs.
Import ListNotations.
Open Scope Z_scope.

(* `==` decides equality of the denoted polynomials, whatever the storage *)
Theorem C17_eq_iff_denote :
  forall {F K} (o : fops F) (fk : fieldK K) (ok : F -> Prop) (den : F -> K), field_ok o fk ok den ->
  forall a b, Forall ok a -> Forall ok b -> (poly_eqb o a b = true <-> peq fk (map den a) (map den b)).
Proof. exact @eq_iff_denote. Qed.
Print Assumptions C17_eq_iff_denote.
