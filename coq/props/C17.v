(* props/C17.v - property C17: polynomials have value semantics - stored leading zeros never change results.
   Only statements, each closed by `exact`, each followed by Print Assumptions.

   Reading guide (see also props/C07.v).  A raw coefficient list `l` (what `Polynomial.coefficients` stores; owned and
   borrowed storage are the same list in the model) denotes the polynomial `map den l`; `same fk ok den a a'` says that
   a and a' are well-formed raw lists denoting the SAME polynomial - in particular `a = l ++ repeat 0 k` and `a' = l`
   (C17_same_app_zeros).  Each C17_vs_* theorem says that an operation called on `same` arguments returns `same`
   results (equal values / booleans / encodings where the result is not a polynomial) and that neither call panics
   (`Some _`, or a plain value for functions that cannot panic).
   The theorems are about the code of the CURRENT tree.  Four operations violated the property on the originally pinned
   tree (slow_square, square, truncate, Hash) and were repaired in /repo by commit 0fd3b2b; the refutations of their old
   models (`_v0`) are kept at the end as clearly labelled HISTORICAL lemmas. *)
From Coq Require Import ZArith Bool List.
From TF Require Import Word BFieldGen BField FieldOps FieldTheory PolyGen PolyCore PolySpec PolyCoreProofs PolyC07Wrap PolyValueSem.
From TF Require Import BFieldProofs BFieldOk Ntt.
Import ListNotations.
Open Scope Z_scope.

(* appending zero coefficients above the leading term does not change the denoted polynomial *)
Theorem C17_same_app_zeros :
  forall {F K} (o : fops F) (fk : fieldK K) (ok : F -> Prop) (den : F -> K), field_ok o fk ok den ->
  forall l k, Forall ok l -> same fk ok den (l ++ repeat (fzero o) k) l.
Proof. exact @same_app_zeros. Qed.
Print Assumptions C17_same_app_zeros.

(* `==` decides equality of the denoted polynomials, whatever the storage *)
Theorem C17_eq_iff_denote :
  forall {F K} (o : fops F) (fk : fieldK K) (ok : F -> Prop) (den : F -> K), field_ok o fk ok den ->
  forall a b, Forall ok a -> Forall ok b -> (poly_eqb o a b = true <-> peq fk (map den a) (map den b)).
Proof. exact @eq_iff_denote. Qed.
Print Assumptions C17_eq_iff_denote.

(* equal polynomials feed the same data to the hasher *)
Theorem C17_hash_respects_eq :
  forall {F K} (o : fops F) (fk : fieldK K) (ok : F -> Prop) (den : F -> K), field_ok o fk ok den ->
  forall a b, Forall ok a -> Forall ok b -> poly_eqb o a b = true -> poly_hash_feed o a = poly_hash_feed o b.
Proof. exact @hash_respects_eq. Qed.
Print Assumptions C17_hash_respects_eq.

(* leading_coefficient: None exactly for the zero polynomial, otherwise the non-zero leading coefficient; never panics *)
Theorem C17_leading_coeff_nonzero :
  forall {F K} (o : fops F) (fk : fieldK K) (ok : F -> Prop) (den : F -> K), field_ok o fk ok den ->
  forall l, Forall ok l ->
  (pzero fk (map den l) -> poly_leading_coefficient o l = Some None) /\
  (~ pzero fk (map den l) ->
   exists c, poly_leading_coefficient o l = Some (Some c) /\ ok c /\ den c = plead fk (map den l) /\ den c <> k0 fk).
Proof. exact @leading_coeff_nonzero. Qed.
Print Assumptions C17_leading_coeff_nonzero.

(* coefficients() / into_coefficients(): a function of the denoted polynomial, never ending in a zero *)
Theorem C17_coefficients_canonical :
  forall {F K} (o : fops F) (fk : fieldK K) (ok : F -> Prop) (den : F -> K), field_ok o fk ok den ->
  forall a b, Forall ok a -> Forall ok b -> peq fk (map den a) (map den b) -> poly_coefficients o a = poly_coefficients o b.
Proof. exact @coefficients_canonical. Qed.
Print Assumptions C17_coefficients_canonical.

Theorem C17_coefficients_last_nonzero :
  forall {F K} (o : fops F) (fk : fieldK K) (ok : F -> Prop) (den : F -> K), field_ok o fk ok den ->
  forall l, Forall ok l -> forall c, last (poly_coefficients o l) c = c \/ den (last (poly_coefficients o l) c) <> k0 fk.
Proof. exact @coefficients_last_nonzero. Qed.
Print Assumptions C17_coefficients_last_nonzero.

(* the encoding depends only on the denoted polynomial; in particular appended zeros do not alter it *)
Theorem C17_encode_normalised :
  forall {F K} (o : fops F) (fk : fieldK K) (ok : F -> Prop) (den : F -> K), field_ok o fk ok den ->
  forall enc a b, Forall ok a -> Forall ok b -> peq fk (map den a) (map den b) -> poly_encode o enc a = poly_encode o enc b.
Proof. exact @encode_normalised. Qed.
Print Assumptions C17_encode_normalised.

Theorem C17_encode_app_zeros :
  forall {F K} (o : fops F) (fk : fieldK K) (ok : F -> Prop) (den : F -> K), field_ok o fk ok den ->
  forall enc l k, poly_encode o enc (l ++ repeat (fzero o) k) = poly_encode o enc l.
Proof. exact @encode_app_zeros. Qed.
Print Assumptions C17_encode_app_zeros.

(* ---- accessors and predicates *)
Theorem C17_vs_degree :
  forall {F K} (o : fops F) (fk : fieldK K) (ok : F -> Prop) (den : F -> K), field_ok o fk ok den ->
  forall a a', same fk ok den a a' -> poly_degree o a = poly_degree o a'.
Proof. exact @vs_degree. Qed.
Print Assumptions C17_vs_degree.

Theorem C17_vs_leading_coefficient :
  forall {F K} (o : fops F) (fk : fieldK K) (ok : F -> Prop) (den : F -> K), field_ok o fk ok den ->
  forall a a', same fk ok den a a' ->
  poly_leading_coefficient o a = poly_leading_coefficient o a' /\ exists r, poly_leading_coefficient o a = Some r.
Proof. exact @vs_leading_coefficient. Qed.
Print Assumptions C17_vs_leading_coefficient.

Theorem C17_vs_eq :
  forall {F K} (o : fops F) (fk : fieldK K) (ok : F -> Prop) (den : F -> K), field_ok o fk ok den ->
  forall a a' b b', same fk ok den a a' -> same fk ok den b b' -> poly_eqb o a b = poly_eqb o a' b'.
Proof. exact @vs_eqb. Qed.
Print Assumptions C17_vs_eq.

Theorem C17_vs_is_zero :
  forall {F K} (o : fops F) (fk : fieldK K) (ok : F -> Prop) (den : F -> K), field_ok o fk ok den ->
  forall a a', same fk ok den a a' -> poly_is_zero o a = poly_is_zero o a'.
Proof. exact @vs_is_zero. Qed.
Print Assumptions C17_vs_is_zero.

Theorem C17_vs_is_one :
  forall {F K} (o : fops F) (fk : fieldK K) (ok : F -> Prop) (den : F -> K), field_ok o fk ok den ->
  forall a a', same fk ok den a a' -> poly_is_one o a = poly_is_one o a' /\ exists b, poly_is_one o a = Some b.
Proof. exact @vs_is_one. Qed.
Print Assumptions C17_vs_is_one.

Theorem C17_vs_is_x :
  forall {F K} (o : fops F) (fk : fieldK K) (ok : F -> Prop) (den : F -> K), field_ok o fk ok den ->
  forall a a', same fk ok den a a' -> poly_is_x o a = poly_is_x o a' /\ exists b, poly_is_x o a = Some b.
Proof. exact @vs_is_x. Qed.
Print Assumptions C17_vs_is_x.

Theorem C17_vs_evaluate :
  forall {F K} (o : fops F) (fk : fieldK K) (ok : F -> Prop) (den : F -> K), field_ok o fk ok den ->
  forall a a' x, same fk ok den a a' -> ok x -> poly_evaluate o a x = poly_evaluate o a' x.
Proof. exact @vs_evaluate. Qed.
Print Assumptions C17_vs_evaluate.

(* ---- ring operations, every argument position *)
Theorem C17_vs_add :
  forall {F K} (o : fops F) (fk : fieldK K) (ok : F -> Prop) (den : F -> K), field_ok o fk ok den ->
  forall a a' b b', same fk ok den a a' -> same fk ok den b b' -> same fk ok den (poly_add o a b) (poly_add o a' b').
Proof. exact @vs_add. Qed.
Print Assumptions C17_vs_add.

Theorem C17_vs_sub :
  forall {F K} (o : fops F) (fk : fieldK K) (ok : F -> Prop) (den : F -> K), field_ok o fk ok den ->
  forall a a' b b', same fk ok den a a' -> same fk ok den b b' -> same fk ok den (poly_sub o a b) (poly_sub o a' b').
Proof. exact @vs_sub. Qed.
Print Assumptions C17_vs_sub.

Theorem C17_vs_neg :
  forall {F K} (o : fops F) (fk : fieldK K) (ok : F -> Prop) (den : F -> K), field_ok o fk ok den ->
  forall a a', same fk ok den a a' -> same fk ok den (poly_neg o a) (poly_neg o a').
Proof. exact @vs_neg. Qed.
Print Assumptions C17_vs_neg.

Theorem C17_vs_scalar_mul :
  forall {F K} (o : fops F) (fk : fieldK K) (ok : F -> Prop) (den : F -> K), field_ok o fk ok den ->
  forall a a' s, same fk ok den a a' -> ok s -> same fk ok den (poly_scalar_mul o a s) (poly_scalar_mul o a' s).
Proof. exact @vs_scalar_mul. Qed.
Print Assumptions C17_vs_scalar_mul.

Theorem C17_vs_scale :
  forall {F K} (o : fops F) (fk : fieldK K) (ok : F -> Prop) (den : F -> K), field_ok o fk ok den ->
  forall a a' s, same fk ok den a a' -> ok s -> same fk ok den (poly_scale o a s) (poly_scale o a' s).
Proof. exact @vs_scale. Qed.
Print Assumptions C17_vs_scale.

Theorem C17_vs_shift_coefficients :
  forall {F K} (o : fops F) (fk : fieldK K) (ok : F -> Prop) (den : F -> K), field_ok o fk ok den ->
  forall a a' n, same fk ok den a a' -> same fk ok den (poly_shift_coefficients o a n) (poly_shift_coefficients o a' n).
Proof. exact @vs_shift. Qed.
Print Assumptions C17_vs_shift_coefficients.

Theorem C17_vs_formal_derivative :
  forall {F K} (o : fops F) (fk : fieldK K) (ok : F -> Prop) (den : F -> K), field_ok o fk ok den ->
  forall a a', same fk ok den a a' -> zlen a <= 2 ^ 64 -> zlen a' <= 2 ^ 64 ->
  same fk ok den (poly_formal_derivative o a) (poly_formal_derivative o a').
Proof. exact @vs_formal_derivative. Qed.
Print Assumptions C17_vs_formal_derivative.

Theorem C17_vs_mod_x_to_the_n :
  forall {F K} (fk : fieldK K) (ok : F -> Prop) (den : F -> K),
  forall a a' n, same fk ok den a a' -> 0 <= n ->
  peq fk (map den (poly_mod_x_to_the_n a n)) (map den (poly_mod_x_to_the_n a' n)).
Proof. exact @vs_mod_x_to_the_n. Qed.
Print Assumptions C17_vs_mod_x_to_the_n.

(* truncate (current code): identical results; and what it returns *)
Theorem C17_vs_truncate :
  forall {F K} (o : fops F) (fk : fieldK K) (ok : F -> Prop) (den : F -> K), field_ok o fk ok den ->
  forall a a' k, same fk ok den a a' -> poly_truncate o a k = poly_truncate o a' k.
Proof. exact @vs_truncate. Qed.
Print Assumptions C17_vs_truncate.

Theorem C17_truncate_spec :
  forall {F K} (o : fops F) (fk : fieldK K) (ok : F -> Prop) (den : F -> K), field_ok o fk ok den ->
  forall l k, Forall ok l -> 0 <= k -> k + 1 < 2 ^ 64 ->
  exists r, poly_truncate o l k = Some r /\ Forall ok r /\
    forall i, coeff fk (map den r) i = coeff fk (map den l) (Z.to_nat (Z.max 0 (pdeg fk (map den l) - k)) + i).
Proof. exact @truncate_v1_spec. Qed.
Print Assumptions C17_truncate_spec.

(* ---- products *)
Theorem C17_vs_naive_multiply :
  forall {F K} (o : fops F) (fk : fieldK K) (ok : F -> Prop) (den : F -> K), field_ok o fk ok den ->
  forall a a' b b', same fk ok den a a' -> same fk ok den b b' ->
  same fk ok den (poly_naive_multiply o a b) (poly_naive_multiply o a' b').
Proof. exact @vs_naive_multiply. Qed.
Print Assumptions C17_vs_naive_multiply.

Theorem C17_vs_slow_square :
  forall {F K} (o : fops F) (fk : fieldK K) (ok : F -> Prop) (den : F -> K), field_ok o fk ok den ->
  forall a a', same fk ok den a a' ->
  exists r r', poly_slow_square o a = Some r /\ poly_slow_square o a' = Some r' /\ same fk ok den r r'.
Proof. exact @vs_slow_square. Qed.
Print Assumptions C17_vs_slow_square.

Theorem C17_vs_pow :
  forall {F K} (o : fops F) (fk : fieldK K) (ok : F -> Prop) (den : F -> K), field_ok o fk ok den ->
  forall a a' e, same fk ok den a a' -> 0 <= e ->
  exists r r', poly_pow o a e = Some r /\ poly_pow o a' e = Some r' /\ same fk ok den r r'.
Proof. exact @vs_pow. Qed.
Print Assumptions C17_vs_pow.

Theorem C17_vs_multiply :
  forall {F K} (o : fops F) (fk : fieldK K) (ok : F -> Prop) (den : F -> K), field_ok o fk ok den ->
  forall ntt intt lmax wr, ntt_ok fk ok den ntt lmax wr -> intt_ok fk ok den intt lmax wr -> roots_ok fk lmax wr ->
  forall a a' b b', same fk ok den a a' -> same fk ok den b b' ->
  zlen a + zlen b <= 2 ^ Z.of_nat lmax -> zlen a' + zlen b' <= 2 ^ Z.of_nat lmax ->
  exists r r', poly_multiply o ntt intt a b = Some r /\ poly_multiply o ntt intt a' b' = Some r' /\ same fk ok den r r'.
Proof. exact @vs_multiply. Qed.
Print Assumptions C17_vs_multiply.

Theorem C17_vs_square :
  forall {F K} (o : fops F) (fk : fieldK K) (ok : F -> Prop) (den : F -> K), field_ok o fk ok den ->
  forall ntt intt lmax wr, ntt_ok fk ok den ntt lmax wr -> intt_ok fk ok den intt lmax wr -> roots_ok fk lmax wr ->
  forall a a', same fk ok den a a' -> 2 * zlen a <= 2 ^ Z.of_nat lmax -> 2 * zlen a' <= 2 ^ Z.of_nat lmax ->
  exists r r', poly_square o ntt intt a = Some r /\ poly_square o ntt intt a' = Some r' /\ same fk ok den r r'.
Proof. exact @vs_square. Qed.
Print Assumptions C17_vs_square.

Theorem C17_vs_batch_multiply :
  forall {F K} (o : fops F) (fk : fieldK K) (ok : F -> Prop) (den : F -> K), field_ok o fk ok den ->
  forall ntt intt lmax wr, ntt_ok fk ok den ntt lmax wr -> intt_ok fk ok den intt lmax wr -> roots_ok fk lmax wr ->
  forall ps ps', Forall2 (same fk ok den) ps ps' ->
  total_len ps <= 2 ^ Z.of_nat lmax -> total_len ps' <= 2 ^ Z.of_nat lmax ->
  exists r r', poly_batch_multiply o ntt intt ps = Some r /\ poly_batch_multiply o ntt intt ps' = Some r' /\
               same fk ok den r r'.
Proof. exact @vs_batch_multiply. Qed.
Print Assumptions C17_vs_batch_multiply.

Theorem C17_vs_par_batch_multiply :
  forall {F K} (o : fops F) (fk : fieldK K) (ok : F -> Prop) (den : F -> K), field_ok o fk ok den ->
  forall ntt intt lmax wr, ntt_ok fk ok den ntt lmax wr -> intt_ok fk ok den intt lmax wr -> roots_ok fk lmax wr ->
  forall nt nt' ps ps', 1 <= nt -> 1 <= nt' -> Forall2 (same fk ok den) ps ps' ->
  total_len ps <= 2 ^ Z.of_nat lmax -> total_len ps' <= 2 ^ Z.of_nat lmax ->
  exists r r', poly_par_batch_multiply o ntt intt nt ps = Some r /\ poly_par_batch_multiply o ntt intt nt' ps' = Some r' /\
               same fk ok den r r'.
Proof. exact @vs_par_batch_multiply. Qed.
Print Assumptions C17_vs_par_batch_multiply.

(* the hypotheses are satisfiable *)
Example C17_bfe_instance : field_ok bfe_ops fp_field canon bden.
Proof. exact bfe_field_ok. Qed.
Example C17_witnesses_well_formed : Forall canon w_one_stored /\ Forall canon w_lin_stored /\ Forall canon w_lin.
Proof. exact okb_witnesses. Qed.

(* ================= HISTORICAL (code BEFORE the repair commit 0fd3b2b; `_v0` models) =================
   The four operations that violated C17 on the originally pinned tree, each with its concrete witness, and what the
   repaired code (`_v1`, the code the theorems above are about) returns on the same witness. *)
Theorem C17_historical_slow_square_v0_refuted :
  exists l, poly_eqb bfe_ops l [bfe_one] = true /\ poly_slow_square_v0 bfe_ops [bfe_one] = Some [bfe_one] /\
            poly_slow_square_v0 bfe_ops l = None.
Proof. exact slow_square_v0_refuted. Qed.
Print Assumptions C17_historical_slow_square_v0_refuted.

Theorem C17_historical_square_v0_refuted :
  exists l, poly_eqb bfe_ops l [bfe_one] = true /\ poly_square_v0 bfe_ops ntt_b intt_b [bfe_one] = Some [bfe_one] /\
            poly_square_v0 bfe_ops ntt_b intt_b l = None.
Proof. exact square_v0_refuted. Qed.
Print Assumptions C17_historical_square_v0_refuted.

Theorem C17_historical_truncate_v0_refuted :
  exists l l' r r', poly_eqb bfe_ops l l' = true /\ poly_truncate_v0 bfe_ops l 0 = Some r /\
                    poly_truncate_v0 bfe_ops l' 0 = Some r' /\ poly_eqb bfe_ops r r' = false.
Proof. exact truncate_v0_refuted. Qed.
Print Assumptions C17_historical_truncate_v0_refuted.

Theorem C17_historical_hash_v0_refuted :
  exists a b, poly_eqb bfe_ops a b = true /\ poly_hash_feed_v0 bfe_ops a <> poly_hash_feed_v0 bfe_ops b.
Proof. exact hash_v0_refuted. Qed.
Print Assumptions C17_historical_hash_v0_refuted.

Theorem C17_repaired_on_witnesses :
  poly_slow_square bfe_ops w_one_stored = Some [bfe_one] /\
  poly_square bfe_ops ntt_b intt_b w_one_stored = Some [bfe_one] /\
  poly_truncate bfe_ops w_lin_stored 0 = poly_truncate bfe_ops w_lin 0.
Proof. exact (conj slow_square_v1_on_witness (conj square_v1_on_witness truncate_v1_on_witness)). Qed.
Print Assumptions C17_repaired_on_witnesses.
