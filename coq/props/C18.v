(* props/C18.v - property C18: lattice ring product is negacyclic convolution; KEM correct, rejects tampering.
   Only statements, each closed by `exact`, each followed by Print Assumptions.
   Model: coq/model/Lattice.v (field VALUES; tables from the regenerated gen/LatticeGen.v);
   spec: coq/spec/LatticeSpec.v.  SHAKE256 / SHA3-256 are universally quantified functions. *)
From Coq Require Import ZArith Bool List.
From TF Require Import BFieldGen LatticeGen Lattice LatticeSpec LatticeProofs.
Import ListNotations.
Open Scope Z_scope.

(* ---- the regenerated psi tables: table[i] = psi^bitrev6(i) with psi = table[32]; the inverse table holds the
   inverses entry by entry; N_INV * 64 = 1; every evaluation point psi^(2 bitrev6(k) + 1) satisfies r^64 = -1 *)
Theorem C18_psi_tables_ok :
  length PSI_BITREV = 64%nat /\ length PSI_INV_BITREV = 64%nat /\
  Forall canonical PSI_BITREV /\ Forall canonical PSI_INV_BITREV /\ canonical N_INV /\
  (forall i, (i < 64)%nat -> nth i PSI_BITREV 0 = pow_mod (nth 32 PSI_BITREV 0) (bitrev 6 i)) /\
  (forall i, (i < 64)%nat -> (nth i PSI_BITREV 0 * nth i PSI_INV_BITREV 0) mod P = 1) /\
  (N_INV * 64) mod P = 1 /\
  (forall k, (k < 64)%nat -> pow_mod (ntt_root (nth 32 PSI_BITREV 0) k) 64 = P - 1).
Proof. exact psi_tables_ok_stated. Qed.
Print Assumptions C18_psi_tables_ok.

(* ---- both transforms are total on 64 coefficients (no index panic) and linear *)
Theorem C18_coset_ntt_linear : forall a b c,
  length a = 64%nat -> length b = 64%nat ->
  exists fa fb, coset_ntt_noswap_64 a = Some fa /\ coset_ntt_noswap_64 b = Some fb /\
    coset_ntt_noswap_64 (map2 fp_add a b) = Some (map2 fp_add fa fb) /\
    coset_ntt_noswap_64 (map (fp_mul c) a) = Some (map (fp_mul c) fa).
Proof. exact coset_ntt_linear. Qed.
Print Assumptions C18_coset_ntt_linear.

Theorem C18_coset_intt_linear : forall a b c,
  length a = 64%nat -> length b = 64%nat ->
  exists fa fb, coset_intt_noswap_64 a = Some fa /\ coset_intt_noswap_64 b = Some fb /\
    coset_intt_noswap_64 (map2 fp_add a b) = Some (map2 fp_add fa fb) /\
    coset_intt_noswap_64 (map (fp_mul c) a) = Some (map (fp_mul c) fa).
Proof. exact coset_intt_linear. Qed.
Print Assumptions C18_coset_intt_linear.

(* ---- slot k of the forward transform is the evaluation a(psi^(2 bitrev6(k) + 1)) *)
Theorem C18_coset_ntt_evaluates : forall a,
  ring_elem a ->
  coset_ntt_noswap_64 a = Some (map (fun k => zeval a (ntt_root (nth 32 PSI_BITREV 0) k) mod P) (seq 0 64)).
Proof. exact coset_ntt_evaluates. Qed.
Print Assumptions C18_coset_ntt_evaluates.

Theorem C18_intt_ntt_id : forall a,
  ring_elem a ->
  match coset_ntt_noswap_64 a with Some f => coset_intt_noswap_64 f = Some a | None => False end.
Proof. exact intt_ntt_id. Qed.
Print Assumptions C18_intt_ntt_id.

Theorem C18_ntt_intt_id : forall a,
  ring_elem a ->
  match coset_intt_noswap_64 a with Some f => coset_ntt_noswap_64 f = Some a | None => False end.
Proof. exact ntt_intt_id. Qed.
Print Assumptions C18_ntt_intt_id.

(* ---- the ring product is the negacyclic convolution modulo X^64 + 1 over Z_p, for ALL pairs of ring elements *)
Theorem C18_ring_mul_negacyclic : forall a b,
  ring_elem a -> ring_elem b -> re_mul a b = Some (negacyclic a b).
Proof. exact ring_mul_negacyclic. Qed.
Print Assumptions C18_ring_mul_negacyclic.
(* the same with the convolution written coefficient by coefficient:
   c_k = sum_{i+j=k} a_i b_j - sum_{i+j=k+64} a_i b_j  (mod p) *)
Theorem C18_ring_mul_explicit : forall a b,
  ring_elem a -> ring_elem b -> re_mul a b = Some (map (negacyclic_coeff a b) (seq 0 64)).
Proof. exact ring_mul_explicit. Qed.
Print Assumptions C18_ring_mul_explicit.
Example C18_ring_elem_example : ring_elem (unit_vec 64 3) /\ ring_elem (negacyclic (unit_vec 64 3) (unit_vec 64 63)).
Proof. exact ring_elem_example. Qed.

(* ---- the three module multiplication strategies agree, and compute the matrix product over the ring *)
Theorem C18_module_mults_agree : forall lh ln rw rn inner outn lhs rhs,
  shape_ok (lh, ln, rw, rn, inner, outn) -> module_elem ln lhs -> module_elem rn rhs ->
  let shape := (lh, ln, rw, rn, inner, outn) in
  let product := module_product lh rw inner lhs rhs in
  me_multiply shape lhs rhs = Some product /\
  me_fast_multiply shape lhs rhs = Some product /\
  match me_ntt lhs, me_ntt rhs with
  | Some l, Some r => me_multiply_hadamard shape l r = me_ntt product
  | _, _ => False
  end.
Proof. exact module_mults_agree. Qed.
Print Assumptions C18_module_mults_agree.
(* the shapes at the four KEM call sites (regenerated from the source) are consistent, and inhabited *)
Example C18_kem_shapes_ok :
  shape_ok SHAPE_GA /\ shape_ok SHAPE_BG /\ shape_ok SHAPE_BGA /\ shape_ok SHAPE_DEC /\
  module_elem 4 (repeat (unit_vec 64 1) 4).
Proof. exact kem_shapes_ok. Qed.

(* ---- Ciphertext <-> [BFieldElement; 320] *)
Theorem C18_ct_array_roundtrip :
  (forall v, length v = 320%nat -> exists c, ct_of_array v = Some c /\ ct_wf c /\ array_of_ct c = Some v) /\
  (forall c, ct_wf c -> exists v, array_of_ct c = Some v /\ length v = 320%nat /\ ct_of_array v = Some c).
Proof. exact (conj ct_of_array_ok array_of_ct_ok). Qed.
Print Assumptions C18_ct_array_roundtrip.

(* ---- message embedding: lane-wise noise of absolute value <= 2^14 - 3 in each 16-bit lane is decoded away *)
Theorem C18_embed_extract : forall msg e,
  Forall byte msg -> length e = (2 * length msg)%nat -> Forall (lane_noise (EXTRACT_THRESHOLD - 3)) e ->
  extract_msg (re_add (embed_msg msg) e) = Some msg.
Proof. exact embed_extract. Qed.
Print Assumptions C18_embed_extract.
Example C18_lane_noise_example :
  Forall byte [90; 255] /\ Forall (lane_noise (EXTRACT_THRESHOLD - 3)) [16381; P - 16381; 0; (16381 * 65536) mod P].
Proof. exact lane_noise_example. Qed.

(* ---- KEM.  dec returns Some (Some k) = accepted with key k, Some None = rejected, None = panic.
   `reenc sk payload` is the deterministic re-encryption of `payload` under the public key derived from sk. *)
Theorem C18_dec_accepts_only_reencryptions : forall shake256 sha3_256 sk c k,
  dec shake256 sha3_256 sk c = Some (Some k) ->
  exists payload,
    dec_payload shake256 sk c = Some payload /\ reenc shake256 sk payload = Some c /\ k = sha3_256 payload.
Proof. exact dec_accepts_only_reencryptions. Qed.
Print Assumptions C18_dec_accepts_only_reencryptions.

(* rejects tampering, precise form: a ciphertext differing from an honest one (in any coefficient) is accepted
   only if it is itself the honest encapsulation of another payload *)
Theorem C18_tampered_accepted_only_as_other_encapsulation : forall shake256 sha3_256 sk payload c c' k',
  reenc shake256 sk payload = Some c -> c' <> c ->
  dec shake256 sha3_256 sk c' = Some (Some k') ->
  exists payload', payload' <> payload /\ reenc shake256 sk payload' = Some c' /\ k' = sha3_256 payload'.
Proof. exact tampered_accepted_only_as_other_encapsulation. Qed.
Print Assumptions C18_tampered_accepted_only_as_other_encapsulation.

(* unrelated key: acceptance under ANY secret key means the ciphertext is a re-encryption under THAT key *)
Theorem C18_dec_other_key : forall shake256 sha3_256 sk2 c k,
  dec shake256 sha3_256 sk2 c = Some (Some k) ->
  exists payload, reenc shake256 sk2 payload = Some c /\ k = sha3_256 payload.
Proof. exact dec_other_key. Qed.
Print Assumptions C18_dec_other_key.

(* full statement of KEM correctness; it holds only up to the scheme's decryption-failure probability and is
   therefore NOT a theorem about arbitrary seeds *)
Definition C18_dec_enc_full : Prop :=
  forall shake256 sha3_256 kg_randomness enc_randomness sk pk k ct,
    keygen shake256 kg_randomness = Some (sk, pk) ->
    enc shake256 sha3_256 pk enc_randomness = Some (k, ct) ->
    dec shake256 sha3_256 sk ct = Some (Some k).
(* proved part: correctness CONDITIONAL on the decoding condition (the payload extracted by dec is the
   encapsulated one), which C18_embed_extract reduces to the lane-noise bound *)
Theorem C18_dec_enc_partial : forall shake256 sha3_256 kg_randomness enc_randomness sk pk k ct,
  keygen shake256 kg_randomness = Some (sk, pk) ->
  enc shake256 sha3_256 pk enc_randomness = Some (k, ct) ->
  dec_payload shake256 sk ct = Some (shake256 enc_randomness ENC_OUTPUT_LENGTH) ->
  dec shake256 sha3_256 sk ct = Some (Some k).
Proof. exact dec_enc_partial. Qed.
Print Assumptions C18_dec_enc_partial.
(* stronger proved part: correctness CONDITIONAL on the lane-noise bound.  The decoded value is
   embed(payload) + (b.c - d.a) where a, c / b, d are the short secret vectors of key generation / encapsulation
   and `.` is the sum of negacyclic products; if every lane of every coefficient of that noise term is at most
   2^14 - 3 in absolute value, decapsulation returns the encapsulated key.  That the bound holds except with
   negligible probability over the seeds is a cryptographic estimate outside this technique. *)
Theorem C18_dec_enc_noise_partial : forall shake256 sha3_256 kg_randomness enc_randomness sk pk k ct,
  keygen shake256 kg_randomness = Some (sk, pk) ->
  enc shake256 sha3_256 pk enc_randomness = Some (k, ct) ->
  let payload := shake256 enc_randomness ENC_OUTPUT_LENGTH in
  length payload = 32%nat -> Forall byte payload ->
  (forall a c b d,
     derive_secret_vectors shake256 (fst sk) = Some (a, c) ->
     derive_secret_vectors shake256 payload = Some (b, d) ->
     Forall (lane_noise (EXTRACT_THRESHOLD - 3)) (kem_noise a b c d)) ->
  dec shake256 sha3_256 sk ct = Some (Some k).
Proof. exact dec_enc_noise_partial. Qed.
Print Assumptions C18_dec_enc_noise_partial.
Example C18_noise_example : toy_noise_check = true.
Proof. exact toy_noise_check_true. Qed.

(* the hypotheses are satisfiable: a complete run with toy hash functions is accepted, decodes the payload,
   and the same ciphertext with one coefficient changed by 1 is rejected (computed once in LatticeExamples.v) *)
Example C18_kem_example : toy_kem_check = true.
Proof. exact toy_kem_check_true. Qed.
