(* props/C18.v - property C18: lattice ring product is negacyclic convolution; KEM correct, rejects tampering.
   Only statements, each closed by `exact`, each followed by Print Assumptions. *)
From Coq Require Import ZArith Bool List.
From TF Require Import BFieldGen LatticeGen Lattice LatticeSpec LatticeProofs.
Import ListNotations.
Open Scope Z_scope.

Theorem C18_ring_mul_negacyclic : forall a b,
  ring_elem a -> ring_elem b -> re_mul a b = Some (negacyclic a b).
Proof. exact ring_mul_negacyclic. Qed.
Print Assumptions C18_ring_mul_negacyclic.
