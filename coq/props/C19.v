(* props/C19.v - property C19: fixed-width U32s<N> integers compute exactly or panic, never wrap.
   Only statements, each closed by `exact`, each followed by Print Assumptions.

   Vocabulary (spec/U32sSpec.v):  u32s_value l = sum l_i * 2^(32 i);  u32s_wf N l = N limbs, each in [0, 2^32);
   u32s_fits N v = 0 <= v < 2^(32 N).  Model (model/U32s.v): `None` = the Rust code panics, `Rej` = it returns Err.
   N is an arbitrary natural number in every theorem. *)
From Coq Require Import ZArith Bool List.
From TF Require Import Word BFieldGen U32sGen U32s U32sSpec U32sProofs U32sTryFromNow.
From TF Require BFieldProofs.
Import ListNotations.
Open Scope Z_scope.

(* hypotheses are satisfiable; carries and panics do occur *)
Example C19_ex_wf : u32s_wf 3 [4294967295; 0; 2147483648].
Proof. split; [reflexivity|]. repeat constructor; discriminate. Qed.
Example C19_ex_carry_chain : u32s_add [4294967295; 4294967295; 0] [1; 0; 0] = Some [0; 0; 1].
Proof. reflexivity. Qed.
Example C19_ex_add_overflow : u32s_add [4294967295; 4294967295] [1; 0] = None.
Proof. reflexivity. Qed.
Example C19_ex_borrow_chain : u32s_sub [0; 0; 1] [1; 0; 0] = Some [4294967295; 4294967295; 0].
Proof. reflexivity. Qed.
Example C19_ex_sub_negative : u32s_sub [0; 1] [1; 1] = None.
Proof. reflexivity. Qed.
Example C19_ex_mul_boundary :
  u32s_mul [4294967295; 0] [1; 1] = Some [4294967295; 4294967295] /\ u32s_mul [0; 1] [0; 1] = None.
Proof. split; reflexivity. Qed.
Example C19_ex_div : u32s_rem_div [4294967294; 4294967295] [4294967295; 0] = Some ([0; 1], [4294967294; 0])
                     /\ u32s_rem_div [5; 0] [0; 0] = None.
Proof. split; reflexivity. Qed.

(* ---------------------------------------------------------------- arithmetic: exact result or panic *)
Theorem C19_add : forall N a b, u32s_wf N a -> u32s_wf N b ->
  (forall r, u32s_add a b = Some r -> u32s_wf N r /\ u32s_value r = u32s_value a + u32s_value b) /\
  (u32s_add a b = None <-> ~ u32s_fits N (u32s_value a + u32s_value b)).
Proof. exact add_exact. Qed.
Print Assumptions C19_add.

Theorem C19_sub : forall N a b, u32s_wf N a -> u32s_wf N b ->
  (forall r, u32s_sub a b = Some r -> u32s_wf N r /\ u32s_value r = u32s_value a - u32s_value b) /\
  (u32s_sub a b = None <-> ~ u32s_fits N (u32s_value a - u32s_value b)).
Proof. exact sub_exact. Qed.
Print Assumptions C19_sub.

Theorem C19_mul : forall N a b, u32s_wf N a -> u32s_wf N b ->
  (forall r, u32s_mul a b = Some r -> u32s_wf N r /\ u32s_value r = u32s_value a * u32s_value b) /\
  (u32s_mul a b = None <-> ~ u32s_fits N (u32s_value a * u32s_value b)).
Proof. exact mul_exact. Qed.
Print Assumptions C19_mul.

(* rem_div panics exactly on a zero divisor - so none of its internal mul_two / set_bit / get_bit / sub calls ever
   panics - and otherwise returns the Euclidean quotient and remainder *)
Theorem C19_rem_div : forall N a d, u32s_wf N a -> u32s_wf N d ->
  (u32s_rem_div a d = None <-> u32s_value d = 0) /\
  (forall q r, u32s_rem_div a d = Some (q, r) ->
     u32s_wf N q /\ u32s_wf N r /\
     u32s_value a = u32s_value q * u32s_value d + u32s_value r /\ 0 <= u32s_value r < u32s_value d /\
     u32s_value q = u32s_value a / u32s_value d /\ u32s_value r = u32s_value a mod u32s_value d).
Proof. exact rem_div_exact. Qed.
Print Assumptions C19_rem_div.

Theorem C19_div : forall N a d, u32s_wf N a -> u32s_wf N d ->
  (u32s_div a d = None <-> u32s_value d = 0) /\
  (forall q, u32s_div a d = Some q -> u32s_wf N q /\ u32s_value q = u32s_value a / u32s_value d).
Proof. exact div_exact. Qed.
Print Assumptions C19_div.

Theorem C19_rem : forall N a d, u32s_wf N a -> u32s_wf N d ->
  (u32s_rem a d = None <-> u32s_value d = 0) /\
  (forall r, u32s_rem a d = Some r -> u32s_wf N r /\ u32s_value r = u32s_value a mod u32s_value d).
Proof. exact rem_exact. Qed.
Print Assumptions C19_rem.

Theorem C19_mul_two : forall N a, u32s_wf N a ->
  (forall r, u32s_mul_two a = Some r -> u32s_wf N r /\ u32s_value r = 2 * u32s_value a) /\
  (u32s_mul_two a = None <-> ~ u32s_fits N (2 * u32s_value a)).
Proof. exact mul_two_exact. Qed.
Print Assumptions C19_mul_two.

Theorem C19_div_two : forall N a, u32s_wf N a ->
  u32s_wf N (u32s_div_two a) /\ u32s_value (u32s_div_two a) = u32s_value a / 2.
Proof. exact div_two_spec. Qed.
Print Assumptions C19_div_two.

Theorem C19_sum : forall N ls, Forall (u32s_wf N) ls ->
  (forall r, u32s_sum N ls = Some r -> u32s_wf N r /\ u32s_value r = sum_values ls) /\
  (u32s_sum N ls = None <-> ~ u32s_fits N (sum_values ls)).
Proof. exact sum_exact. Qed.
Print Assumptions C19_sum.

(* ---------------------------------------------------------------- comparison, equality, constants *)
Theorem C19_cmp : forall N a b, u32s_wf N a -> u32s_wf N b ->
  u32s_cmp a b = (u32s_value a ?= u32s_value b).
Proof. exact cmp_spec. Qed.
Print Assumptions C19_cmp.

Theorem C19_ge : forall N a b, u32s_wf N a -> u32s_wf N b ->
  u32s_ge a b = (u32s_value b <=? u32s_value a).
Proof. exact ge_spec. Qed.
Print Assumptions C19_ge.

Theorem C19_eq : forall N a b, u32s_wf N a -> u32s_wf N b ->
  u32s_eqb a b = (u32s_value a =? u32s_value b).
Proof. exact eqb_spec. Qed.
Print Assumptions C19_eq.

Theorem C19_value_injective : forall N a b, u32s_wf N a -> u32s_wf N b -> u32s_value a = u32s_value b -> a = b.
Proof. exact wf_value_inj. Qed.
Print Assumptions C19_value_injective.

Theorem C19_zero : forall N, u32s_wf N (u32s_zero N) /\ u32s_value (u32s_zero N) = 0.
Proof. exact (fun N => conj (zero_wf N) (zero_value N)). Qed.
Print Assumptions C19_zero.

Theorem C19_is_zero : forall l, Forall limb l -> u32s_is_zero l = true <-> u32s_value l = 0.
Proof. exact is_zero_spec. Qed.
Print Assumptions C19_is_zero.

Theorem C19_one : forall N,
  (forall r, u32s_one N = Some r -> u32s_wf N r /\ u32s_value r = 1) /\ (u32s_one N = None <-> ~ u32s_fits N 1).
Proof. exact one_exact. Qed.
Print Assumptions C19_one.

(* ---------------------------------------------------------------- conversions from primitive integers *)
Theorem C19_from_u32 : forall N n, N <> 0%nat -> 0 <= n < 2 ^ 32 ->
  exists r, u32s_from_u32 N n = Some r /\ u32s_wf N r /\ u32s_value r = n.
Proof. exact from_u32_exact. Qed.
Print Assumptions C19_from_u32.

(* TryFrom<u64>, about the regenerated guard: succeeds iff the value fits, for every width N >= 1 *)
Theorem C19_try_from_u64 : forall N v, N <> 0%nat -> 0 <= v < 2 ^ 64 ->
  (u32s_fits N v -> exists r, u32s_try_from_u64 N v = Done r /\ u32s_wf N r /\ u32s_value r = v) /\
  (~ u32s_fits N v -> u32s_try_from_u64 N v = Rej).
Proof. exact try_from_u64_spec. Qed.
Print Assumptions C19_try_from_u64.

(* guard expressions themselves never overflow (release = checked) *)
Theorem C19_try_from_guards_ok : forall N v,
  tryfrom_u64_rejects_ok N v = true /\ tryfrom_u128_rejects_ok N v = true.
Proof. exact tryfrom_guards_ok. Qed.
Print Assumptions C19_try_from_guards_ok.

(* TryFrom<u128>: the full statement ... *)
Definition C19_try_from_u128_full : Prop := forall N v, N <> 0%nat -> 0 <= v < 2 ^ 128 ->
  (u32s_fits N v -> exists r, u32s_try_from_u128 N v = Done r /\ u32s_wf N r /\ u32s_value r = v) /\
  (~ u32s_fits N v -> u32s_try_from_u128 N v = Rej).


Theorem C19_try_from_u128 : C19_try_from_u128_full.
Proof. exact try_from_u128_spec. Qed.
Print Assumptions C19_try_from_u128.

(* width 0 (finding key u32s0-tryfrom-zero, recorded, not repaired): 0 is the one value of U32s<0>, yet TryFrom rejects
   it and From<u32> panics; hence the hypothesis N <> 0 in the conversion theorems above *)
Theorem C19_try_from_u64_width0_refuted :
  exists v, 0 <= v < 2 ^ 64 /\ u32s_fits 0 v /\ u32s_try_from_u64 0 v = Rej.
Proof. exact try_from_u64_width0_refuted. Qed.
Print Assumptions C19_try_from_u64_width0_refuted.

Theorem C19_try_from_u128_width0_refuted :
  exists v, 0 <= v < 2 ^ 128 /\ u32s_fits 0 v /\ u32s_try_from_u128 0 v = Rej.
Proof. exact try_from_u128_width0_refuted. Qed.
Print Assumptions C19_try_from_u128_width0_refuted.

Theorem C19_from_u32_width0_refuted :
  exists n, 0 <= n < 2 ^ 32 /\ u32s_fits 0 n /\ u32s_from_u32 0 n = None.
Proof. exact from_u32_width0_refuted. Qed.
Print Assumptions C19_from_u32_width0_refuted.

(* ---------------------------------------------------------------- big integers *)
Theorem C19_to_big : forall l, u32s_to_big l = u32s_value l.
Proof. exact to_big_spec. Qed.
Print Assumptions C19_to_big.

Theorem C19_from_big : forall N v, u32s_fits N v ->
  exists l, u32s_from_big N v = Some l /\ u32s_wf N l /\ u32s_value l = v.
Proof. exact from_big_fits. Qed.
Print Assumptions C19_from_big.

Theorem C19_big_round_trip : forall N l, u32s_wf N l -> u32s_from_big N (u32s_to_big l) = Some l.
Proof. exact big_round_trip. Qed.
Print Assumptions C19_big_round_trip.

Theorem C19_big_round_trip_value : forall N v, u32s_fits N v ->
  exists l, u32s_from_big N v = Some l /\ u32s_wf N l /\ u32s_to_big l = v.
Proof. exact big_round_trip_value. Qed.
Print Assumptions C19_big_round_trip_value.

(* ---------------------------------------------------------------- field-element arrays and the codec *)
Theorem C19_to_bfes : forall l, Forall limb l ->
  length (u32s_to_bfes l) = length l /\ map bfe_value (u32s_to_bfes l) = l.
Proof. exact to_bfes_spec. Qed.
Print Assumptions C19_to_bfes.

Theorem C19_bfes_round_trip : forall N l, u32s_wf N l -> u32s_decode N (u32s_to_bfes l) = Done l.
Proof. exact bfes_round_trip. Qed.
Print Assumptions C19_bfes_round_trip.

Theorem C19_codec_round_trip : forall N l, u32s_wf N l -> u32s_decode N (u32s_encode l) = Done l.
Proof. exact codec_round_trip. Qed.
Print Assumptions C19_codec_round_trip.

Theorem C19_static_length : forall N l, u32s_wf N l -> Some (length (u32s_encode l)) = u32s_static_length N.
Proof. exact encode_length. Qed.
Print Assumptions C19_static_length.

(* decoding is total (never `Pan`), strict and exact: for any sequence of u64 words it succeeds iff there are exactly
   N elements whose values are all <= u32::MAX, and then returns those values *)
Theorem C19_decode : forall N s, Forall (fun w => 0 <= w < 2 ^ 64) s ->
  if (length s =? N)%nat && forallb (fun w => bfe_value w <=? U32_MAX) s
  then u32s_decode N s = Done (map bfe_value s) /\ u32s_wf N (map bfe_value s)
  else u32s_decode N s = Rej.
Proof. exact decode_spec_u64. Qed.
Print Assumptions C19_decode.

(* the encoding is unique: a sequence of canonical field elements that decodes to l is the encoding of l *)
Theorem C19_decode_unique : forall N s l,
  Forall BFieldProofs.canon s -> u32s_decode N s = Done l -> s = u32s_encode l.
Proof. exact decode_unique. Qed.
Print Assumptions C19_decode_unique.
