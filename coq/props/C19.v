From Coq Require Import ZArith Bool List.
From TF Require Import Word U32sGen U32s U32sSpec U32sProofs U32sTryFromNow.
Import ListNotations.
Open Scope Z_scope.
Theorem C19_placeholder : u32s_value [] = 0.
Proof. exact u32s_value_nil. Qed.
Print Assumptions C19_placeholder.
